#!/bin/bash
# usage: confirm_seed.sh <seed_dir with patch.diff demo.pangaea expected.txt> <scratch worktree>
# confirms: HEAD passes demo; with patch: builds, suite passes, demo fails.
set -u
export GOFLAGS=-mod=mod GOPROXY=off GOSUMDB=off GOTOOLCHAIN=local
D=$(readlink -f $1); WT=$2
cd $WT || exit 2
git checkout -q -- . 
go build -o $WT/pangaea_head . || { echo "HEAD build failed"; exit 1; }
if [ -f $D/demo.pangaea ]; then
  ./pangaea_head $D/demo.pangaea > /tmp/demo_head.out 2>&1
  if diff -q /tmp/demo_head.out $D/expected.txt >/dev/null; then echo "HEAD: demo passes"; else echo "HEAD: demo FAILS (unexpected)"; diff /tmp/demo_head.out $D/expected.txt | head -5; fi
fi
git apply $D/patch.diff || { echo "patch does not apply"; exit 1; }
go build -o $WT/pangaea_seed . || { echo "seed build failed"; git checkout -q -- .; exit 1; }
go vet ./... >/dev/null 2>&1
T=$(go test -vet=off -count=1 -skip '^TestServeBackground$' ./... 2>&1 | grep -v "no test files")
if echo "$T" | grep -q "^FAIL\|^--- FAIL"; then echo "seed: SUITE FAILS"; echo "$T" | grep "FAIL" | head -10; else echo "seed: suite passes"; fi
if [ -f $D/demo.pangaea ]; then
  ./pangaea_seed $D/demo.pangaea > /tmp/demo_seed.out 2>&1
  if diff -q /tmp/demo_seed.out $D/expected.txt >/dev/null; then echo "seed: demo passes (NOT a break)"; else echo "seed: demo fails (as intended)"; diff /tmp/demo_seed.out $D/expected.txt | head -6; fi
fi
if [ -f $D/demo_test.go ]; then echo "demo_test.go present: run manually"; fi
git checkout -q -- .
rm -f $WT/pangaea_head $WT/pangaea_seed
