#!/usr/bin/env python3
"""Regenerates MANIFEST.json from pylib/checks.py + pylib/manifest_meta.py (run by hand after editing)."""
import sys, os, json
sys.path.insert(0, os.path.join(os.path.dirname(os.path.abspath(__file__)), '..', 'pylib'))
from checks import CHECKS
from manifest_meta import META, NOT_APPLICABLE, HOOK_COMMITS
props = [json.loads(l)['id'] for l in open(os.path.join(os.path.dirname(__file__), '..', 'properties.jsonl'))]
checks = []
for p in props:
    if p not in CHECKS:
        continue
    m = META[p]
    checks.append({
        'property_id': p,
        'quick_cmd': 'bin/verif check %s --tier quick' % p,
        'thorough_cmd': 'bin/verif check %s --tier thorough' % p,
        'evidence_file': 'evidence/%s.json' % p,
        'replay_cmd_template': 'bin/verif check %s --replay {path}' % p,
        'engine': 'lean4-proof+correspondence',
        'level_claimed': {'category': 'proof', 'text': m['text'], 'design_ref': m.get('design_ref', 'DESIGN.md §5 ' + p)},
        'level_note': m['note'],
        'technique': m['technique'],
    })
na = [{'property_id': p, 'reason': NOT_APPLICABLE.get(p, 'not built yet in this round; no check is registered for it')} for p in props if p not in CHECKS]
man = {
    'version': 1,
    'setup_cmd': 'bin/verif setup',
    'hooks': {
        'guard': 'verif',
        'enable': 'go build -tags verif (the harness module under /verif/harness replaces github.com/Syuparn/pangaea by /repo)',
        'baseline_off_cmd': 'cd /repo && GOFLAGS=-mod=mod GOPROXY=off GOSUMDB=off go test -vet=off -count=1 ./...',
        'source_commits': HOOK_COMMITS,
        'add_only': True,
    },
    'engines': [{'name': 'lean4-proof+correspondence', 'path': 'bin/verif',
                 'serves_properties': [c['property_id'] for c in checks],
                 'kind_free_text': 'Lean 4 model + theorems (lean/), facts regenerated from /repo by extract/, differential correspondence harness/ (Go, -tags verif) vs compiled Lean driver'}],
    'checks': checks,
    'not_applicable': na,
    'notes': 'See DESIGN.md. Known findings: KNOWN_FINDINGS.json. Seeded changes used to validate the checks: seeded/.',
}
json.dump(man, open(os.path.join(os.path.dirname(__file__), '..', 'MANIFEST.json'), 'w'), indent=1)
print('checks:', [c['property_id'] for c in checks], 'not_applicable:', len(na))
