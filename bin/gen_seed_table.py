#!/usr/bin/env python3
"""rewrites the seeded-change table of DESIGN.md (between the SEEDS markers) from seeded/*/meta.json"""
import json, glob, os, re
rows = []
missed = caught = 0
for d in sorted(glob.glob('/verif/seeded/C*-*')):
    n = os.path.basename(d)
    m = json.load(open(d + '/meta.json'))
    det = m.get('detected_by', '')
    up = det.upper()
    if up.startswith('MISSED') or 'MISSED AT FIRST' in up[:80] or 'MISSED BY' in up[:40]:
        st = 'missed at first, caught after strengthening'; missed += 1
    elif 'NO-FAILING-INPUT-FOUND' in up[:260] or 'ONLY AT FIRST' in up[:120]:
        st = 'first only a broken obligation (no-failing-input-found), then with a failing input'; missed += 1
    else:
        st = 'caught'; caught += 1
    rows.append('| %s | %s | %s |' % (n, m.get('change', '').replace('|', '\\|').replace('\n', ' ')[:200], st))
table = ('| seed | change | result |\n|------|--------|--------|\n' + '\n'.join(rows) +
         '\n\n%d seeds: %d caught by the check as it was, %d needed the check to be strengthened first.\n' % (len(rows), caught, missed))
p = '/verif/DESIGN.md'
s = open(p).read()
i = s.index('<!-- SEEDS-BEGIN -->'); j = s.index('<!-- SEEDS-END -->')
s = s[:i] + '<!-- SEEDS-BEGIN -->\n' + table + s[j:]
open(p, 'w').write(s)
print(len(rows), caught, missed)
