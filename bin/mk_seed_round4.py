import json,glob,os,subprocess,sys
tmpl=open('/verif/seeded/PROMPT_TEMPLATE.md').read()
props={json.loads(l)['id']:json.loads(l) for l in open('/verif/properties.jsonl')}
base=open("/verif/seeded/ROUND3_PROMPT_EXAMPLE.md").read()
# the fixed extra text of round 3 (between 'Always run the pangaea binary' and 'The following changes')
i=base.index('Always run the pangaea binary'); j=base.index('The following changes were already produced')
extra_fixed=base[i:j]
for pid,d in props.items():
    wt='/tmp/seed4-'+pid
    changes=[]
    for m in sorted(glob.glob('/verif/seeded/%s-*/meta.json'%pid)):
        changes.append('- '+json.load(open(m))['change'])
    extra=extra_fixed+('At least one of your two variants should be a change in SHARED infrastructure code (package object, helper functions of package evaluator that many constructs use, package di, the bundled native/*.pangaea sources, the parser) rather than in the function the property is most obviously about, chosen so that the property is broken only indirectly; and at least one should need state or history to show (something evaluated earlier in the same program or process, a second call, a value kept from before). '
        'The following changes were already produced by others for this property; yours must touch DIFFERENT mechanisms and need different triggers:\n'+'\n'.join(changes)+'\n')
    t=tmpl.replace('{WT}',wt).replace('{ID}',pid).replace('{TITLE}',d['title']).replace('{STATEMENT}',d['statement']).replace('{QUANT}',d['quantifier']['text']).replace('{EXTRA}',extra)
    open('/tmp/seed-prompts/%s_r4.md'%pid,'w').write(t)
    if not os.path.exists(wt):
        subprocess.run(['git','-C','/repo','worktree','add','-q','--detach',wt,'HEAD'],check=True)
print('ok')
