#!/bin/bash
# usage: proc_seeds.sh P1 P2 ...  (round-2 dirs /tmp/seed2-<P>)
cd /verif && mkdir -p /tmp/seed-prompts
for p in "$@"; do for v in A B; do
  echo "== $p-$v"
  bin/confirm_seed.sh /tmp/seed${R:-2}-$p/seed_out/$v /tmp/seed${R:-2}-$p 2>&1 | grep -a "seed:\|apply"
  if git -C /repo apply --check /tmp/seed${R:-2}-$p/seed_out/$v/patch.diff 2>/dev/null; then T=bin/try_seed.sh; else T=bin/try_seed_y.sh; fi
  $T /tmp/seed${R:-2}-$p/seed_out/$v/patch.diff $p 2>&1 | grep -a "failing input\|VIOLATION\|seed result\|OK prop" | cut -c1-260
done; done
