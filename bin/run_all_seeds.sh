#!/bin/bash
# Re-runs every stored seeded change against its property's quick check (applies the patch to /repo, runs, reverts).
# usage: bin/run_all_seeds.sh [out-file] [pattern]   — prints one line per seed: <seed> caught|MISSED|NOAPPLY
OUT=${1:-/tmp/seed_results.txt}; PAT=${2:-}
: > "$OUT"
for d in /verif/seeded/*${PAT}*/; do
  s=$(basename "$d"); p=${s%%-*}
  if grep -q "parser.go.y" "$d/patch.diff"; then T=/verif/bin/try_seed_y.sh; else T=/verif/bin/try_seed.sh; fi
  r=$($T "$d/patch.diff" "$p" 2>&1)
  if echo "$r" | grep -q "patch does not apply\|does not build"; then v=NOAPPLY
  elif echo "$r" | grep -q "^VIOLATION property=$p"; then
    if echo "$r" | grep -q "no-failing-input-found"; then v="caught (no-failing-input-found)"; else v=caught; fi
  else v=MISSED; fi
  echo "$s $v" | tee -a "$OUT"
done
