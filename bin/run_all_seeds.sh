#!/bin/bash
# Re-runs every stored seeded change against its property's quick check (applies the patch to /repo, runs, reverts).
# usage: bin/run_all_seeds.sh [out-file] [pattern]   — prints one line per seed: <seed> caught|MISSED|NOAPPLY
OUT=${1:-/tmp/seed_results.txt}; PAT=${2:-}
: > "$OUT"
for d in /verif/seeded/*${PAT}*/; do
  s=$(basename "$d"); p=${s%%-*}
  # a patch is applied as it is whenever it applies (its parser/y.go may be the very defect); only when the y.go
  # hunks do not apply (generated file drifted) everything but y.go is applied and y.go regenerated
  if git -C /repo apply --check "$d/patch.diff" 2>/dev/null; then T=/verif/bin/try_seed.sh; else T=/verif/bin/try_seed_y.sh; fi
  r=$($T "$d/patch.diff" "$p" 2>&1)
  if echo "$r" | grep -q "patch does not apply\|does not build"; then v=NOAPPLY
  elif echo "$r" | grep -q "^VIOLATION property=$p"; then
    if echo "$r" | grep -q "no-failing-input-found"; then v="caught (no-failing-input-found)"; else v=caught; fi
  else v=MISSED; fi
  echo "$s $v" | tee -a "$OUT"
done
