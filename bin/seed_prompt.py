#!/usr/bin/env python3
import sys, json
pid = sys.argv[1]; extra = sys.argv[2] if len(sys.argv) > 2 else ''
wt = '/tmp/seed-' + pid
for l in open('/verif/properties.jsonl'):
    d = json.loads(l)
    if d['id'] == pid:
        t = open('/verif/seeded/PROMPT_TEMPLATE.md').read()
        print(t.replace('{WT}', wt).replace('{ID}', pid).replace('{TITLE}', d['title']).replace('{STATEMENT}', d['statement']).replace('{QUANT}', d['quantifier']['text']).replace('{EXTRA}', extra))
