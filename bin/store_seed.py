#!/usr/bin/env python3
# usage: store_seed.py <round> <prop> <variant A|B> <letter> <change> <needs> <detected_by>
import sys, json, os, shutil
rnd, p, v, letter, chg, needs, det = sys.argv[1:8]
d = '/verif/seeded/%s-%s' % (p, letter)
os.makedirs(d, exist_ok=True)
src = '/tmp/seed%s-%s/seed_out/%s' % (rnd, p, v)
for f in os.listdir(src):
    if f in ('patch.diff', 'demo.pangaea', 'expected.txt', 'notes.md', 'expected_stderr.txt', 'demo_test.go', 'check.sh'):
        shutil.copy(os.path.join(src, f), d)
json.dump({"property": p, "round": int(rnd), "source": "independent sub-agent (property text + scratch worktree + the list of earlier changes to avoid)",
           "change": chg, "needs": needs, "confirmed": "bin/confirm_seed.sh / demo: with patch builds, pinned suite passes, demonstration fails only with the patch",
           "detected_by": det}, open(d + '/meta.json', 'w'), indent=1)
print('stored', d)
