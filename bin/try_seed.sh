#!/bin/bash
# usage: try_seed.sh <patch.diff> <prop> [tier]  — applies the patch to /repo, runs the check, reverts.
set -u
PATCH=$1; PROP=$2; TIER=${3:-quick}
cd /repo || exit 2
if ! git diff --quiet; then echo "/repo has uncommitted changes"; exit 2; fi
git apply "$PATCH" || { echo "patch does not apply"; exit 2; }
cd /verif && bin/verif check "$PROP" --tier "$TIER"; RC=$?
cd /repo && git checkout -- . && git clean -fdq -- . >/dev/null 2>&1
# restore evidence written by the run against the seeded tree
git -C /verif checkout -- "evidence/$PROP.json" 2>/dev/null
echo "seed result: rc=$RC"
exit 0
