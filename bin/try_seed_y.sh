#!/bin/bash
# like try_seed.sh, for patches that touch parser.go.y: applies everything except parser/y.go and regenerates y.go with goyacc
set -u
PATCH=$1; PROP=$2; TIER=${3:-quick}
export GOFLAGS=-mod=mod GOPROXY=off GOSUMDB=off GOTOOLCHAIN=local
cd /repo || exit 2
if ! git diff --quiet; then echo "/repo has uncommitted changes"; exit 2; fi
git apply --exclude=parser/y.go "$PATCH" || { echo "patch does not apply"; git checkout -- .; exit 2; }
go run golang.org/x/tools/cmd/goyacc -o ./parser/y.go -v ./parser/y.output ./parser/parser.go.y >/dev/null 2>&1
go build ./... || { echo "does not build"; git checkout -- .; exit 2; }
go test -vet=off -count=1 ./parser ./evaluator 2>&1 | tail -2
cd /verif && bin/verif check "$PROP" --tier "$TIER"; RC=$?
cd /repo && git checkout -- . && rm -f parser/y.output
# restore evidence written by the run against the seeded tree
git -C /verif checkout -- "evidence/$PROP.json" 2>/dev/null
echo "seed result: rc=$RC"
