/- Feasibility sketch for C04 (not wired to any check).
   Both chain-middleware stacks of the evaluator, transcribed combinator by combinator
   (eval_propcall_chain.go / eval_literalcall_chain.go), parametric in the callee and in the
   element list the receiver's iterator yields. -/
namespace Chain

inductive Val where
  | nil
  | int (i : Int)
  | err (k : String)
  | arr (xs : List Val)
deriving Repr, Inhabited

def Val.isNil : Val → Bool | .nil => true | _ => false
def Val.isErr : Val → Bool | .err _ => true | _ => false

inductive Add | vanilla | lonely | thoughtful | strict deriving DecidableEq, Repr
inductive Main | scalar | list | reduce deriving DecidableEq, Repr

/-! ### property-call stack: handler takes (receiver, args) -/
abbrev PH := Val → List Val → Val

def pLonely (next : PH) : PH := fun r a => if r.isNil then r else next r a
def pThoughtful (next : PH) : PH := fun r a =>
  let x := next r a
  if x.isErr || x.isNil then r else x
def pAdd : Add → PH → PH
  | .lonely => pLonely
  | .thoughtful => pThoughtful
  | _ => id

def pSquash (next : PH) (args : List Val) : List Val → List Val → Val
  | [], acc => .arr acc.reverse
  | e :: es, acc =>
    let x := next e args
    if x.isErr then x else if x.isNil then pSquash next args es acc else pSquash next args es (x :: acc)
def pKeep (next : PH) (args : List Val) : List Val → List Val → Val
  | [], acc => .arr acc.reverse
  | e :: es, acc => pKeep next args es (next e args :: acc)
def pReduce (next : PH) (args : List Val) : List Val → Val → Val
  | [], acc => acc
  | e :: es, acc =>
    let x := next acc (e :: args)
    if x.isErr then x else pReduce next args es x

/-- newChainMiddleware: `=@` and `~@` are special-cased, the rest is main ∘ additional -/
def propChain (m : Main) (a : Add) (call : PH) (recv : Val) (elems : List Val) (init : Val)
    (args : List Val) : Val :=
  match m, a with
  | .list, .strict => pKeep call args elems []
  | .list, .thoughtful => pKeep (pThoughtful call) args elems []
  | .scalar, a => pAdd a call recv args
  | .list, a => pSquash (pAdd a call) args elems []
  | .reduce, a => pReduce (pAdd a call) args elems init

/-! ### literal-call stack: handler takes the receiver only -/
abbrev LH := Val → Val

def lLonely (next : LH) : LH := fun r => if r.isNil then r else next r
def lThoughtful (next : LH) : LH := fun r =>
  let x := next r
  if x.isErr || x.isNil then r else x
def lAdd : Add → LH → LH
  | .lonely => lLonely
  | .thoughtful => lThoughtful
  | _ => id

def lSquash (next : LH) : List Val → List Val → Val
  | [], acc => .arr acc.reverse
  | e :: es, acc =>
    let x := next e
    if x.isErr then x else if x.isNil then lSquash next es acc else lSquash next es (x :: acc)
def lKeep (next : LH) : List Val → List Val → Val
  | [], acc => .arr acc.reverse
  | e :: es, acc => lKeep next es (next e :: acc)
def lReduce (next : LH) : List Val → Val → Val
  | [], acc => acc
  | e :: es, acc =>
    let x := next (.arr [acc, e])
    if x.isErr then x else lReduce next es x
/-- literalCallThoughtfulReduceChainMiddleware; `fixed = false` is the code as written
    (only errors keep the accumulator), `fixed = true` also keeps it on nil -/
def lThoughtfulReduce (fixed : Bool) (next : LH) : List Val → Val → Val
  | [], acc => acc
  | e :: es, acc =>
    let x := next (.arr [acc, e])
    if x.isErr || (fixed && x.isNil) then lThoughtfulReduce fixed next es acc
    else lThoughtfulReduce fixed next es x

def litChain (fixed : Bool) (m : Main) (a : Add) (fn : LH) (recv : Val) (elems : List Val) (init : Val) : Val :=
  match m, a with
  | .list, .strict => lKeep fn elems []
  | .list, .thoughtful => lKeep (lThoughtful fn) elems []
  | .reduce, .thoughtful => lThoughtfulReduce fixed fn elems init
  | .scalar, a => lAdd a fn recv
  | .list, a => lSquash (lAdd a fn) elems []
  | .reduce, a => lReduce (lAdd a fn) elems init

/-! ### the equivalent literal of a property call -/
/-- `{|x| x.prop(args)}` -/
def litOfList (call : PH) (args : List Val) : LH := fun x => call x args
/-- `{|acc, x| acc.prop(x, args)}` applied to the receiver `[acc, x]` (unpacked by literalCallArgs) -/
def litOfReduce (call : PH) (args : List Val) : LH
  | .arr [acc, x] => call acc (x :: args)
  | _ => .err "TypeErr"

theorem squash_eq (call : PH) (args : List Val) (a : Add) (es acc) :
    pSquash (pAdd a call) args es acc = lSquash (lAdd a (litOfList call args)) es acc := by
  induction es generalizing acc with
  | nil => rfl
  | cons e es ih =>
    have h : pAdd a call e args = lAdd a (litOfList call args) e := by
      cases a <;> simp [pAdd, lAdd, pLonely, lLonely, pThoughtful, lThoughtful, litOfList]
    simp only [pSquash, lSquash, h]
    split
    · rfl
    · split <;> exact ih _

theorem keep_eq (p : PH) (l : LH) (args : List Val) (h : ∀ e, p e args = l e) (es acc) :
    pKeep p args es acc = lKeep l es acc := by
  induction es generalizing acc with
  | nil => rfl
  | cons e es ih => simp only [pKeep, lKeep, h]; exact ih _

/-- list and scalar contexts: property call = literal call, every additional context -/
theorem list_scalar_forms_agree (fixed : Bool) (m : Main) (hm : m ≠ .reduce) (a : Add) (call : PH)
    (recv : Val) (elems : List Val) (init : Val) (args : List Val) :
    propChain m a call recv elems init args =
      litChain fixed m a (litOfList call args) recv elems init := by
  cases m with
  | reduce => exact absurd rfl hm
  | scalar =>
    cases a <;> simp [propChain, litChain, pAdd, lAdd, pLonely, lLonely, pThoughtful, lThoughtful, litOfList]
  | list =>
    cases a with
    | strict => simpa [propChain, litChain] using keep_eq call (litOfList call args) args (fun _ => rfl) elems []
    | thoughtful =>
      simpa [propChain, litChain] using
        keep_eq (pThoughtful call) (lThoughtful (litOfList call args)) args
          (fun e => by simp [pThoughtful, lThoughtful, litOfList]) elems []
    | vanilla => simpa [propChain, litChain] using squash_eq call args .vanilla elems []
    | lonely => simpa [propChain, litChain] using squash_eq call args .lonely elems []

theorem reduce_plain_eq (call : PH) (args : List Val) (es acc) :
    pReduce call args es acc = lReduce (litOfReduce call args) es acc := by
  induction es generalizing acc with
  | nil => rfl
  | cons e es ih =>
    simp only [pReduce, lReduce, litOfReduce]
    by_cases hx : (call acc (e :: args)).isErr = true
    · simp [hx]
    · simp only [hx, Bool.false_eq_true, if_false]; exact ih _

/-- thoughtful reduce: equal once the literal form also keeps the accumulator on nil -/
theorem reduce_thoughtful_eq (call : PH) (args : List Val) (es acc) (hacc : acc.isErr = false) :
    pReduce (pThoughtful call) args es acc = lThoughtfulReduce true (litOfReduce call args) es acc := by
  induction es generalizing acc with
  | nil => rfl
  | cons e es ih =>
    simp only [pReduce, lThoughtfulReduce, pThoughtful, litOfReduce, Bool.true_and]
    by_cases hx : ((call acc (e :: args)).isErr || (call acc (e :: args)).isNil) = true
    · simp only [hx, if_true, hacc, Bool.false_eq_true, if_false]
      exact ih acc hacc
    · simp only [hx, if_false, Bool.false_eq_true]
      have hne : (call acc (e :: args)).isErr = false := by
        cases h : (call acc (e :: args)).isErr <;> simp_all
      simp only [hne, Bool.false_eq_true, if_false]
      exact ih _ hne

-- the code as written: a callee returning nil once loses the accumulator in the literal form only
def nilOnTwo : PH := fun acc a => match a with | [.int 2] => .nil | _ => acc
example :
    propChain .reduce .thoughtful nilOnTwo .nil [.int 1, .int 2] (.int 7) [] = .int 7 ∧
    litChain false .reduce .thoughtful (litOfReduce nilOnTwo []) .nil [.int 1, .int 2] (.int 7) = .nil :=
  ⟨rfl, rfl⟩

end Chain
