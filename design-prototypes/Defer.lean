namespace Defer

inductive Stmt where
  | mark (n : Nat)              -- prints n, value nil
  | defer (n : Nat)             -- `defer <prints n>`
  | ret (n : Nat)               -- `return n`
  | raise (n : Nat)             -- raise error n
  | call (body : List Stmt)     -- `{ body }()` used as a statement

inductive Val where
  | nil | int (n : Nat) | err (n : Nat)
  | deferObj (n : Nat)          -- object.DeferObj
  | retObj (n : Nat)            -- object.ReturnObj
deriving DecidableEq, Repr

inductive Ev where | out (n : Nat) | deferred (n : Nat)
deriving DecidableEq, Repr

abbrev Trace := List Ev

-- `leak = true` is the code as written: the DeferObj stays in `val` and can be the
-- value of the whole body; `leak = false` is the repaired code (val := nil).
mutual
def evalStmt (leak : Bool) : Stmt → Trace → Val × Trace
  | .mark n, t => (.nil, t ++ [.out n])
  | .defer n, t => (.deferObj n, t)
  | .ret n, t => (.retObj n, t)
  | .raise n, t => (.err n, t)
  | .call body, t => evalStmts leak body t
/-- `_evalStmts`: returns value, collected defers, trace -/
def evalLoop (leak : Bool) : List Stmt → Val → List Nat → Trace → Val × List Nat × Trace
  | [], val, ds, t => (val, ds, t)
  | s :: ss, _, ds, t =>
    match evalStmt leak s t with
    | (.err n, t') => (.err n, ds, t')
    | (.retObj n, t') => (.int n, ds, t')
    | (.deferObj n, t') => evalLoop leak ss (if leak then .deferObj n else .nil) (ds ++ [n]) t'
    | (v, t') => evalLoop leak ss v ds t'
/-- `evalStmts` = `_evalStmts` then `evalDefer` (deferred prints cannot fail here) -/
def evalStmts (leak : Bool) (ss : List Stmt) (t : Trace) : Val × Trace :=
  match evalLoop leak ss .nil [] t with
  | (v, ds, t') => (v, t' ++ ds.map .deferred)
end

-- Specification: what the statement of C15 says.
mutual
def specStmts : List Stmt → List Nat → Trace → Trace × Bool   -- Bool: exited early
  | [], ds, t => (t ++ ds.map .deferred, false)
  | .mark n :: ss, ds, t => specStmts ss ds (t ++ [.out n])
  | .defer n :: ss, ds, t => specStmts ss (ds ++ [n]) t
  | .ret _ :: _, ds, t => (t ++ ds.map .deferred, true)
  | .raise _ :: _, ds, t => (t ++ ds.map .deferred, true)
  | .call body :: ss, ds, t =>
    match specCall body t with
    | (t', true) => (t' ++ ds.map .deferred, true)    -- callee raised: we stop too
    | (t', false) => specStmts ss ds t'
/-- a call: runs its own body with its own defers; reports whether it *raised* -/
def specCall (body : List Stmt) (t : Trace) : Trace × Bool :=
  ((specStmts body [] t).1, raises body)
def raises : List Stmt → Bool
  | [] => false
  | .mark _ :: ss => raises ss
  | .defer _ :: ss => raises ss
  | .ret _ :: _ => false
  | .raise _ :: _ => true
  | .call body :: ss => raises body || raises ss
end

-- the code as written runs a trailing defer twice (once in the callee, once in the caller)
example : (evalStmts true [.call [.defer 7], .mark 1] []).2
            = [.deferred 7, .out 1, .deferred 7] := by simp [evalStmts, evalLoop, evalStmt]
example : (specStmts [.call [.defer 7], .mark 1] [] []).1 = [.deferred 7, .out 1] := by simp [specStmts, specCall, raises]
-- the repaired loop agrees with the spec on that input
example : (evalStmts false [.call [.defer 7], .mark 1] []).2 = [.deferred 7, .out 1] := by simp [evalStmts, evalLoop, evalStmt]

end Defer
