/- Feasibility sketch for C07 (not wired to any check).
   Errors are ordinary values, checked by hand after each sub-evaluation, as in
   evaluator/eval_*.go. `range` is evalRange as written today (no check);
   `rangeChecked` is the repaired form. Theorem: if every site is checked, no error
   object is ever embedded in a returned value. -/
namespace Ev

inductive Val where
  | int (i : Int)
  | nil
  | err (kind : String)
  | arr (xs : List Val)
  | range (a b : Val)
deriving Repr, Inhabited

def Val.isErr : Val → Bool
  | .err _ => true
  | _ => false

inductive Expr where
  | lit (i : Int)
  | raise (kind : String)
  | print (e : Expr)
  | arr (es : List Expr)
  | add (l r : Expr)
  | range (a b : Expr)
  | rangeChecked (a b : Expr)
deriving Repr, Inhabited

abbrev Trace := List Int

mutual
def eval : Expr → Trace → Val × Trace
  | .lit i, t => (.int i, t)
  | .raise k, t => (.err k, t)
  | .print e, t =>
    match eval e t with
    | (.err k, t') => (.err k, t')
    | (.int i, t') => (.nil, t' ++ [i])
    | (_, t') => (.nil, t' ++ [0])
  | .arr es, t => evalElems es [] t
  | .add l r, t =>
    match eval l t with
    | (.err k, t1) => (.err k, t1)
    | (vl, t1) =>
      match eval r t1 with
      | (.err k, t2) => (.err k, t2)
      | (vr, t2) =>
        match vl, vr with
        | .int a, .int b => (.int (a + b), t2)
        | _, _ => (.err "TypeErr", t2)
  | .range a b, t =>
    let (va, t1) := eval a t
    let (vb, t2) := eval b t1
    (.range va vb, t2)
  | .rangeChecked a b, t =>
    match eval a t with
    | (.err k, t1) => (.err k, t1)
    | (va, t1) =>
      match eval b t1 with
      | (.err k, t2) => (.err k, t2)
      | (vb, t2) => (.range va vb, t2)
def evalElems : List Expr → List Val → Trace → Val × Trace
  | [], acc, t => (.arr acc.reverse, t)
  | e :: es, acc, t =>
    match eval e t with
    | (.err k, t') => (.err k, t')
    | (v, t') => evalElems es (v :: acc) t'
end

-- every site of the expression is a checked one
mutual
def Expr.checked : Expr → Bool
  | .lit _ => true
  | .raise _ => true
  | .print e => e.checked
  | .arr es => checkedList es
  | .add l r => l.checked && r.checked
  | .range _ _ => false
  | .rangeChecked a b => a.checked && b.checked
def checkedList : List Expr → Bool
  | [] => true
  | e :: es => e.checked && checkedList es
end

-- no error object is embedded inside a value (a top-level error is a raised one)
mutual
def Val.clean : Val → Bool
  | .int _ => true
  | .nil => true
  | .err _ => true
  | .arr xs => cleanList xs
  | .range a b => !a.isErr && !b.isErr && a.clean && b.clean
def cleanList : List Val → Bool
  | [] => true
  | x :: xs => !x.isErr && x.clean && cleanList xs
end

theorem cleanList_append (xs ys : List Val) : cleanList (xs ++ ys) = (cleanList xs && cleanList ys) := by
  induction xs with
  | nil => simp [cleanList]
  | cons x xs ih => simp [cleanList, ih, Bool.and_assoc]

theorem cleanList_reverse (xs : List Val) : cleanList xs.reverse = cleanList xs := by
  induction xs with
  | nil => rfl
  | cons x xs ih => simp [cleanList_append, cleanList, ih, Bool.and_comm]

mutual
theorem eval_clean (e : Expr) (t : Trace) (h : e.checked) : (eval e t).1.clean := by
  cases e with
  | lit i => simp [eval, Val.clean]
  | raise k => simp [eval, Val.clean]
  | print e =>
    simp only [eval]; split <;> simp [Val.clean]
  | arr es => simp only [eval]; exact evalElems_clean es [] t (by simpa [Expr.checked] using h) rfl
  | add l r =>
    simp only [eval]
    split
    · simp [Val.clean]
    · split
      · simp [Val.clean]
      · split <;> simp [Val.clean]
  | range a b => simp [Expr.checked] at h
  | rangeChecked a b =>
    simp only [Expr.checked, Bool.and_eq_true] at h
    have ha := eval_clean a t h.1
    simp only [eval]
    split
    · simp [Val.clean]
    · rename_i va t1 hne heq
      have hb := eval_clean b t1 h.2
      split
      · simp [Val.clean]
      · rename_i vb t2 hne2 heq2
        simp only [heq] at ha; simp only [heq2] at hb
        simp only [Val.clean, ha, hb, Bool.and_true]
        cases va <;> cases vb <;> simp_all [Val.isErr]
theorem evalElems_clean (es : List Expr) (acc : List Val) (t : Trace)
    (h : checkedList es) (hacc : cleanList acc) : (evalElems es acc t).1.clean := by
  cases es with
  | nil => simp [evalElems, Val.clean, cleanList_reverse, hacc]
  | cons e es =>
    simp only [checkedList, Bool.and_eq_true] at h
    have he := eval_clean e t h.1
    simp only [evalElems]
    split
    · simp [Val.clean]
    · rename_i v t' hne heq
      apply evalElems_clean es (v :: acc) t' h.2
      simp only [heq] at he
      simp only [cleanList, he, hacc, Bool.and_true]
      cases v <;> simp_all [Val.isErr]
end

-- evalRange as written embeds the error: `(1/0:3)` evaluates to a range holding it
example : ¬ (eval (.range (.raise "ZeroDivisionErr") (.lit 3)) []).1.clean := by decide

end Ev
