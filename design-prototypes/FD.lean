namespace FD

-- the floor division of props/int_props.go as written today
def goFloorDivBuggy (a b : Int) : Int :=
  let res := a.tdiv b
  if res < 0 ∧ a.tmod b ≠ 0 then res - 1 else res

-- the obvious repair: decide by the signs of the operands, not of the truncated quotient
def goFloorDiv (a b : Int) : Int :=
  let res := a.tdiv b
  if a.tmod b ≠ 0 ∧ ((a < 0) ≠ (b < 0)) then res - 1 else res

/-- spec: floor quotient characterised without any library division -/
def IsFloorQuot (a b q : Int) : Prop :=
  (b > 0 → q * b ≤ a ∧ a < (q + 1) * b) ∧ (b < 0 → q * b ≥ a ∧ a > (q + 1) * b)

theorem tmod_sign_nonneg (a b : Int) (ha : 0 ≤ a) : 0 ≤ a.tmod b := Int.tmod_nonneg b ha
theorem tmod_sign_nonpos (a b : Int) (ha : a ≤ 0) : a.tmod b ≤ 0 := by
  have := Int.tmod_nonneg b (show 0 ≤ -a by omega)
  rw [Int.neg_tmod] at this; omega

theorem tmod_abs_lt_pos (a b : Int) (hb : 0 < b) : -b < a.tmod b ∧ a.tmod b < b :=
  ⟨Int.lt_tmod_of_pos a hb, Int.tmod_lt_of_pos a hb⟩
theorem tmod_abs_lt_neg (a b : Int) (hb : b < 0) : b < a.tmod b ∧ a.tmod b < -b := by
  have h := tmod_abs_lt_pos a (-b) (by omega)
  rw [Int.tmod_neg] at h; omega

theorem goFloorDiv_spec (a b : Int) (hb : b ≠ 0) : IsFloorQuot a b (goFloorDiv a b) := by
  have h1 := Int.tmod_add_mul_tdiv a b  -- a.tmod b + b * a.tdiv b = a
  have e1 : (a.tdiv b - 1) * b = b * a.tdiv b - b := by rw [Int.sub_mul, Int.one_mul, Int.mul_comm]
  have e2 : (a.tdiv b - 1 + 1) * b = b * a.tdiv b := by rw [Int.sub_add_cancel, Int.mul_comm]
  have e3 : (a.tdiv b + 1) * b = b * a.tdiv b + b := by rw [Int.add_mul, Int.one_mul, Int.mul_comm]
  have e4 : a.tdiv b * b = b * a.tdiv b := Int.mul_comm _ _
  have hn := tmod_sign_nonneg a b
  have hp := tmod_sign_nonpos a b
  unfold IsFloorQuot goFloorDiv
  constructor
  · intro hbpos
    have hlt := tmod_abs_lt_pos a b hbpos
    simp only []
    split
    · rename_i hc
      rw [e1, e2]
      have : a < 0 := by
        rcases Int.lt_or_le a 0 with h | h
        · exact h
        · exfalso; apply hc.2; simp [show ¬ a < 0 by omega, show ¬ b < 0 by omega]
      have := hp (by omega); omega
    · rename_i hc
      rw [e3, e4]
      rcases Int.lt_or_le a 0 with h | h
      · have hz : a.tmod b = 0 := by
          apply Classical.byContradiction; intro hne; apply hc
          exact ⟨hne, by simp [h, show ¬ b < 0 by omega]⟩
        omega
      · have := hn h; omega
  · intro hbneg
    have hlt := tmod_abs_lt_neg a b hbneg
    simp only []
    split
    · rename_i hc
      rw [e1, e2]
      have : 0 ≤ a := by
        rcases Int.lt_or_le a 0 with h | h
        · exfalso; apply hc.2; simp [h, hbneg]
        · exact h
      have := hn this; omega
    · rename_i hc
      rw [e3, e4]
      rcases Int.lt_or_le a 0 with h | h
      · have := hp (by omega); omega
      · have hz : a.tmod b = 0 := by
          apply Classical.byContradiction; intro hne; apply hc
          exact ⟨hne, by simp [show ¬ a < 0 by omega, hbneg]⟩
        omega

example : goFloorDivBuggy (-1) 2 = 0 := by decide
example : goFloorDiv (-1) 2 = -1 := by decide

end FD
