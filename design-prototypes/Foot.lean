namespace Foot

abbrev Name := String
abbrev FrameId := Nat

mutual
inductive Val where
  | int (i : Int)
  | nil
  | err (k : String)
  | clo (params : List Name) (body : Expr) (env : FrameId)
inductive Expr where
  | lit (i : Int)
  | var (x : Name)
  | assign (x : Name) (e : Expr)
  | lam (params : List Name) (body : Expr)
  | call (f : Expr) (arg : Expr)
  | seq (a b : Expr)
  | print (e : Expr)
end

structure Frame where
  store : List (Name × Val)
  outer : Option FrameId

structure St where
  frames : List Frame
  out : List Int

def lookupStore (s : List (Name × Val)) (x : Name) : Option Val :=
  match s with
  | [] => none
  | (y, v) :: s' => if x = y then some v else lookupStore s' x

/-- Env.Get: walk outward; fuel bounds the chain length -/
def get (fs : List Frame) : Nat → FrameId → Name → Option Val
  | 0, _, _ => none
  | fuel+1, id, x =>
    match fs[id]? with
    | none => none
    | some f =>
      match lookupStore f.store x with
      | some v => some v
      | none => match f.outer with
        | none => none
        | some o => get fs fuel o x

def setVar (fs : List Frame) (id : FrameId) (x : Name) (v : Val) : List Frame :=
  match fs[id]? with
  | none => fs
  | some f => fs.set id { f with store := (x, v) :: f.store }

def bindParams (ps : List Name) (arg : Val) : List (Name × Val) :=
  match ps with
  | [] => []
  | p :: ps' => (p, arg) :: ps'.map (fun q => (q, Val.nil))

def eval : Nat → Expr → FrameId → St → Val × St
  | 0, _, _, σ => (.err "fuel", σ)
  | _+1, .lit i, _, σ => (.int i, σ)
  | _+1, .var x, env, σ =>
    match get σ.frames (σ.frames.length + 1) env x with
    | some v => (v, σ)
    | none => (.err "NameErr", σ)
  | n+1, .assign x e, env, σ =>
    match eval n e env σ with
    | (.err k, σ') => (.err k, σ')
    | (v, σ') => (v, { σ' with frames := setVar σ'.frames env x v })
  | _+1, .lam ps b, env, σ =>
    -- closure env = NewEnclosedEnv(env): a fresh empty frame whose outer is env
    let id := σ.frames.length
    (.clo ps b id, { σ with frames := σ.frames ++ [{ store := [], outer := some env }] })
  | n+1, .call f a, env, σ =>
    match eval n f env σ with
    | (.err k, σ1) => (.err k, σ1)
    | (.clo ps b cenv, σ1) =>
      match eval n a env σ1 with
      | (.err k, σ2) => (.err k, σ2)
      | (va, σ2) =>
        -- NewCopiedEnv(f.Env): copy the store, share outer; then bind params
        match σ2.frames[cenv]? with
        | none => (.err "dangling", σ2)
        | some cf =>
          let id := σ2.frames.length
          let fr : Frame := { store := bindParams ps va ++ cf.store, outer := cf.outer }
          eval n b id { σ2 with frames := σ2.frames ++ [fr] }
    | (_, σ1) => (.err "TypeErr", σ1)
  | n+1, .seq a b, env, σ =>
    match eval n a env σ with
    | (.err k, σ1) => (.err k, σ1)
    | (_, σ1) => eval n b env σ1
  | n+1, .print e, env, σ =>
    match eval n e env σ with
    | (.err k, σ1) => (.err k, σ1)
    | (.int i, σ1) => (.nil, { σ1 with out := σ1.out ++ [i] })
    | (_, σ1) => (.nil, { σ1 with out := σ1.out ++ [0] })

theorem setVar_length (fs : List Frame) (id x v) : (setVar fs id x v).length = fs.length := by
  unfold setVar; split <;> simp

theorem setVar_other (fs : List Frame) (id x v) (j : Nat) (h : j ≠ id) :
    (setVar fs id x v)[j]? = fs[j]? := by
  unfold setVar; split
  · rfl
  · simp [List.getElem?_set, Ne.symm h]

/-- Footprint: evaluation in frame `env` only grows the heap and never changes a
    pre-existing frame other than `env`. -/
theorem footprint : ∀ (n : Nat) (e : Expr) (env : FrameId) (σ : St) (v : Val) (σ' : St),
    eval n e env σ = (v, σ') →
    σ.frames.length ≤ σ'.frames.length ∧
    ∀ j, j < σ.frames.length → j ≠ env → σ'.frames[j]? = σ.frames[j]? := by
  intro n
  induction n with
  | zero => intro e env σ v σ' h; simp [eval] at h; obtain ⟨_, rfl⟩ := h; simp
  | succ n ih =>
    intro e env σ v σ' h
    cases e with
    | lit i => simp [eval] at h; obtain ⟨_, rfl⟩ := h; simp
    | var x =>
      simp only [eval] at h
      split at h <;> (simp at h; obtain ⟨_, rfl⟩ := h; simp)
    | assign x e =>
      simp only [eval] at h
      split at h
      · rename_i k σ1 heq
        simp at h; obtain ⟨_, rfl⟩ := h
        exact ih e env σ _ _ heq
      · rename_i v1 σ1 hne heq
        simp at h; obtain ⟨_, rfl⟩ := h
        have := ih e env σ _ _ heq
        refine ⟨by simpa [setVar_length] using this.1, ?_⟩
        intro j hj hne'
        simp only [setVar_other _ _ _ _ j hne']
        exact this.2 j hj hne'
    | lam ps b =>
      simp [eval] at h; obtain ⟨_, rfl⟩ := h
      refine ⟨by simp, ?_⟩
      intro j hj _
      simp [List.getElem?_append_left hj]
    | call f a =>
      simp only [eval] at h
      split at h
      · rename_i k σ1 heq
        simp at h; obtain ⟨_, rfl⟩ := h; exact ih f env σ _ _ heq
      · rename_i ps b cenv σ1 heq
        have h1 := ih f env σ _ _ heq
        split at h
        · rename_i k σ2 heq2
          simp at h; obtain ⟨_, rfl⟩ := h
          have h2 := ih a env σ1 _ _ heq2
          refine ⟨by omega, ?_⟩
          intro j hj hne
          rw [h2.2 j (by omega) hne, h1.2 j hj hne]
        · rename_i va σ2 hne2 heq2
          have h2 := ih a env σ1 _ _ heq2
          split at h
          · simp at h; obtain ⟨_, rfl⟩ := h
            refine ⟨by omega, ?_⟩
            intro j hj hne
            rw [h2.2 j (by omega) hne, h1.2 j hj hne]
          · rename_i cf hcf
            have h3 := ih b _ _ _ _ h
            simp only [List.length_append, List.length_cons, List.length_nil] at h3
            refine ⟨by omega, ?_⟩
            intro j hj hne
            have hj2 : j < σ2.frames.length := by omega
            rw [h3.2 j (by omega) (by omega), List.getElem?_append_left hj2,
              h2.2 j (by omega) hne, h1.2 j hj hne]
      · rename_i v1 σ1 hne1 hne2 heq
        simp at h; obtain ⟨_, rfl⟩ := h; exact ih f env σ _ _ heq
    | seq a b =>
      simp only [eval] at h
      split at h
      · rename_i k σ1 heq
        simp at h; obtain ⟨_, rfl⟩ := h; exact ih a env σ _ _ heq
      · rename_i v1 σ1 hne heq
        have h1 := ih a env σ _ _ heq
        have h2 := ih b env σ1 _ _ h
        refine ⟨by omega, ?_⟩
        intro j hj hne'
        rw [h2.2 j (by omega) hne', h1.2 j hj hne']
    | print e =>
      simp only [eval] at h
      split at h
      · rename_i k σ1 heq
        simp at h; obtain ⟨_, rfl⟩ := h; exact ih e env σ _ _ heq
      · rename_i i σ1 heq
        simp at h; obtain ⟨_, rfl⟩ := h; simpa using ih e env σ _ _ heq
      · rename_i v1 σ1 hne1 hne2 heq
        simp at h; obtain ⟨_, rfl⟩ := h; simpa using ih e env σ _ _ heq

end Foot
