/- Feasibility sketch for C06 (not wired to any check).
   Go slices over a heap of backing arrays; `append` writes in place when capacity allows.
   `Arr#+` as written appends into the receiver's spare capacity; the repaired version builds
   its result in a fresh array. Theorem: with fresh-array construction no previously
   published array value ever changes, whatever the growth policy. -/
namespace GoHeap

abbrev Val := Int

structure Slice where
  arr : Nat
  len : Nat
  cap : Nat
deriving Repr, DecidableEq

/-- backing arrays; an array's length is its capacity -/
abbrev Heap := List (List Val)

def view (h : Heap) (s : Slice) : List Val := (h.getD s.arr []).take s.len

/-- overwrite `xs` into `a` starting at position `i` (positions exist: `i + xs.length ≤ a.length`) -/
def writeAt (a : List Val) (i : Nat) (xs : List Val) : List Val :=
  a.take i ++ xs ++ a.drop (i + xs.length)

/-- Go's append; `grow need` ≥ need is the runtime's capacity choice (arbitrary) -/
def goAppend (grow : Nat → Nat) (h : Heap) (s : Slice) (xs : List Val) : Heap × Slice :=
  if s.len + xs.length ≤ s.cap then
    (h.set s.arr (writeAt (h.getD s.arr []) s.len xs), { s with len := s.len + xs.length })
  else
    let need := s.len + xs.length
    let c := max (grow need) need
    (h ++ [view h s ++ xs ++ List.replicate (c - need) 0], { arr := h.length, len := need, cap := c })

/-- `elems := append(self.Elems, other.Elems...)` — props/arr_props.go as written -/
def plusAsWritten (grow : Nat → Nat) (h : Heap) (a b : Slice) : Heap × Slice := goAppend grow h a (view h b)

/-- repaired: copy into a fresh slice first -/
def plusFresh (grow : Nat → Nat) (h : Heap) (a b : Slice) : Heap × Slice :=
  goAppend grow h { arr := h.length, len := 0, cap := 0 } (view h a ++ view h b)

/-- a slice is well-formed in a heap -/
def WF (h : Heap) (s : Slice) : Prop := s.arr < h.length

theorem view_append_heap (h : Heap) (extra : List (List Val)) (s : Slice) (hs : WF h s) :
    view (h ++ extra) s = view h s := by
  unfold view WF at *
  simp [List.getD, List.getElem?_append_left hs]

/-- fresh construction never disturbs any existing array value -/
theorem plusFresh_frozen (grow) (h : Heap) (a b p : Slice) (hp : WF h p) :
    view (plusFresh grow h a b).1 p = view h p := by
  unfold plusFresh goAppend
  by_cases hemp : (view h a ++ view h b).length = 0
  · -- nothing to append: in-place branch on a zero-capacity slice, writes nothing
    have : view h a ++ view h b = [] := List.eq_nil_of_length_eq_zero hemp
    simp only [this, List.length_nil, Nat.add_zero, Nat.le_refl, if_true]
    unfold view WF at *
    simp [List.getD, List.getElem?_set, Nat.ne_of_gt hp]
  · have : ¬ (0 + (view h a ++ view h b).length ≤ 0) := by omega
    simp only [this, if_false]
    exact view_append_heap h _ p hp

theorem fresh_result (grow : Nat → Nat) (h : Heap) (xs : List Val) :
    let r := goAppend grow h { arr := h.length, len := 0, cap := 0 } xs
    view r.1 r.2 = xs := by
  cases xs with
  | nil => simp [goAppend, view]
  | cons x xs =>
    have : ¬ (0 + (x :: xs).length ≤ 0) := by simp
    simp only [goAppend, this, if_false]
    simp [view, List.getD, List.take_append]

theorem plusFresh_result (grow : Nat → Nat) (h : Heap) (a b : Slice) :
    view (plusFresh grow h a b).1 (plusFresh grow h a b).2 = view h a ++ view h b :=
  fresh_result grow h _

/-- the history `a := [1,2,3]; b := a + [4]; c := a + [5]; b` on the code as written -/
def h0 : Heap := [[1, 2, 3, 0], [4], [5]]      -- `[1,2,3]` was built by append: cap 4
def a : Slice := ⟨0, 3, 4⟩
def four : Slice := ⟨1, 1, 1⟩
def five : Slice := ⟨2, 1, 1⟩

example :
    let r1 := plusAsWritten id h0 a four     -- b
    let r2 := plusAsWritten id r1.1 a five   -- c
    view r1.1 r1.2 = [1, 2, 3, 4] ∧ view r2.1 r1.2 = [1, 2, 3, 5] := by decide

example :
    let r1 := plusFresh id h0 a four
    let r2 := plusFresh id r1.1 a five
    view r1.1 r1.2 = [1, 2, 3, 4] ∧ view r2.1 r1.2 = [1, 2, 3, 4] := by decide

end GoHeap
