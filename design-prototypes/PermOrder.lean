/- Feasibility sketch for C08/C09/C03 (not wired to any check).
   A Go `for k, v := range m { env.Set(k, f k v) }` visits the map's pairs in an arbitrary
   order. Model: the loop runs over an arbitrary permutation of the pair list. Theorem: when
   the keys are distinct (they are map keys) every later lookup gives the same answer whichever
   permutation the runtime picked — the loop is schedule-independent. The same loop with
   *duplicate* keys (today's keyword arguments, stored under pointer keys) is not. -/
namespace PermOrder

abbrev Name := String
abbrev Store (α : Type) := List (Name × α)

def lookup {α} (s : Store α) (x : Name) : Option α :=
  match s with
  | [] => none
  | (k, v) :: s' => if k = x then some v else lookup s' x

/-- `env.Set` in a loop -/
def setAll {α} (env : Store α) (ps : List (Name × α)) : Store α :=
  ps.foldl (fun e p => p :: e) env

def keysNodup {α} (ps : List (Name × α)) : Prop := (ps.map (·.1)).Nodup

theorem lookup_setAll_of_not_mem {α} (env : Store α) (ps : List (Name × α)) (x : Name)
    (h : ∀ p ∈ ps, p.1 ≠ x) : lookup (setAll env ps) x = lookup env x := by
  induction ps generalizing env with
  | nil => rfl
  | cons p ps ih =>
    simp only [setAll, List.foldl_cons]
    have := ih (p :: env) (fun q hq => h q (by simp [hq]))
    simp only [setAll] at this
    rw [this]
    obtain ⟨k, v⟩ := p
    have hk : k ≠ x := h (k, v) (by simp)
    simp [lookup, hk]

/-- with distinct keys, the value found for a key that was set is the one paired with it -/
theorem lookup_setAll_of_mem {α} (env : Store α) (ps : List (Name × α)) (x : Name) (v : α)
    (hnd : keysNodup ps) (hm : (x, v) ∈ ps) : lookup (setAll env ps) x = some v := by
  induction ps generalizing env with
  | nil => simp at hm
  | cons p ps ih =>
    simp only [keysNodup, List.map_cons, List.nodup_cons] at hnd
    simp only [setAll, List.foldl_cons]
    simp only [List.mem_cons] at hm
    rcases hm with rfl | hm
    · -- x was set first; nothing later overwrites it
      have hno : ∀ q ∈ ps, q.1 ≠ x := by
        intro q hq heq
        apply hnd.1
        simp only [List.mem_map]
        exact ⟨q, hq, heq⟩
      have := lookup_setAll_of_not_mem ((x, v) :: env) ps x hno
      simp only [setAll] at this
      rw [this]; simp [lookup]
    · have := ih (p :: env) hnd.2 hm
      simpa [setAll] using this

/-- Schedule independence: any two visiting orders of a map give the same environment
    (as far as lookups can tell). -/
theorem setAll_perm {α} (env : Store α) (ps qs : List (Name × α)) (hp : ps.Perm qs)
    (hnd : keysNodup ps) (x : Name) : lookup (setAll env ps) x = lookup (setAll env qs) x := by
  have hndq : keysNodup qs := by
    simp only [keysNodup] at *
    exact (hp.map _).nodup_iff.mp hnd
  by_cases h : ∃ v, (x, v) ∈ ps
  · obtain ⟨v, hv⟩ := h
    rw [lookup_setAll_of_mem env ps x v hnd hv, lookup_setAll_of_mem env qs x v hndq (hp.mem_iff.mp hv)]
  · have hps : ∀ p ∈ ps, p.1 ≠ x := by
      intro p hp' heq; apply h; exact ⟨p.2, by rw [← heq]; exact hp'⟩
    have hqs : ∀ p ∈ qs, p.1 ≠ x := fun p hq => hps p (hp.mem_iff.mpr hq)
    rw [lookup_setAll_of_not_mem env ps x hps, lookup_setAll_of_not_mem env qs x hqs]

-- duplicate names (possible today for keyword arguments, whose map is keyed by AST pointer):
-- the two visiting orders of `f(a: 1, a: 2)` disagree
example : lookup (setAll [] [("a", 1), ("a", 2)]) "a" ≠ lookup (setAll [] [("a", 2), ("a", 1)]) "a" := by
  decide

end PermOrder
