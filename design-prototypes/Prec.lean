namespace Prec

variable {Op Atom : Type} (prec : Op → Nat)

inductive Tree (Op Atom : Type) where
  | atom (a : Atom)
  | bin (o : Op) (l r : Tree Op Atom)
deriving Repr, DecidableEq

open Tree

/-- in-order token list: first atom and then (op, atom) pairs -/
def first : Tree Op Atom → Atom
  | atom a => a
  | bin _ l _ => first l

def rest : Tree Op Atom → List (Op × Tree Op Atom) → List (Op × Atom) := fun _ _ => []

/-- flat as a pair: head atom and the tail of (op, atom) -/
def tail : Tree Op Atom → List (Op × Atom)
  | atom _ => []
  | bin o l r => tail l ++ (o, first r) :: tail r

/-- root precedence is at least m (atoms: always) -/
def rootGE (m : Nat) : Tree Op Atom → Prop
  | atom _ => True
  | bin o _ _ => m ≤ prec o

def rootGT (m : Nat) : Tree Op Atom → Prop
  | atom _ => True
  | bin o _ _ => m < prec o

/-- canonical for an all-left-associative table -/
def canonical : Tree Op Atom → Prop
  | atom _ => True
  | bin o l r => canonical l ∧ canonical r ∧ rootGE prec (prec o) l ∧ rootGT prec (prec o) r

/-- append `o a` on the right, keeping canonical form (what a yacc parser with %left does) -/
def insertRight (t : Tree Op Atom) (o : Op) (a : Atom) : Tree Op Atom :=
  match t with
  | atom x => bin o (atom x) (atom a)
  | bin p l r => if prec p < prec o then bin p l (insertRight r o a) else bin o (bin p l r) (atom a)

def build (a0 : Atom) (ws : List (Op × Atom)) : Tree Op Atom :=
  ws.foldl (fun t w => insertRight prec t w.1 w.2) (atom a0)

theorem first_insertRight (t : Tree Op Atom) (o : Op) (a : Atom) :
    first (insertRight prec t o a) = first t := by
  induction t with
  | atom x => simp [insertRight, first]
  | bin p l r ihl ihr => simp only [insertRight]; split <;> simp [first]

theorem tail_insertRight (t : Tree Op Atom) (o : Op) (a : Atom) :
    tail (insertRight prec t o a) = tail t ++ [(o, a)] := by
  induction t with
  | atom x => simp [insertRight, tail, first]
  | bin p l r ihl ihr =>
    simp only [insertRight]; split
    · simp [tail, ihr, first_insertRight]
    · simp [tail, first]

theorem rootGE_insertRight (t : Tree Op Atom) (o : Op) (a : Atom) (m : Nat)
    (ht : rootGE prec m t) (ho : m ≤ prec o) : rootGE prec m (insertRight prec t o a) := by
  cases t with
  | atom x => simpa [insertRight, rootGE] using ho
  | bin p l r => simp only [insertRight]; split <;> simp_all [rootGE]

theorem rootGT_insertRight (t : Tree Op Atom) (o : Op) (a : Atom) (m : Nat)
    (ht : rootGT prec m t) (ho : m < prec o) : rootGT prec m (insertRight prec t o a) := by
  cases t with
  | atom x => simpa [insertRight, rootGT] using ho
  | bin p l r => simp only [insertRight]; split <;> simp_all [rootGT]

theorem canonical_insertRight (t : Tree Op Atom) (o : Op) (a : Atom) (h : canonical prec t) :
    canonical prec (insertRight prec t o a) := by
  induction t with
  | atom x => simp [insertRight, canonical, rootGE, rootGT]
  | bin p l r ihl ihr =>
    obtain ⟨hl, hr, hge, hgt⟩ := h
    simp only [insertRight]; split
    · rename_i hlt
      exact ⟨hl, ihr hr, hge, rootGT_insertRight prec r o a _ hgt hlt⟩
    · rename_i hnlt
      refine ⟨⟨hl, hr, hge, hgt⟩, trivial, ?_, trivial⟩
      simp only [rootGE]; omega

theorem build_sound (a0 : Atom) (ws : List (Op × Atom)) :
    canonical prec (build prec a0 ws) ∧ first (build prec a0 ws) = a0 ∧ tail (build prec a0 ws) = ws := by
  unfold build
  suffices h : ∀ (t : Tree Op Atom), canonical prec t →
      canonical prec (ws.foldl (fun t w => insertRight prec t w.1 w.2) t) ∧
      first (ws.foldl (fun t w => insertRight prec t w.1 w.2) t) = first t ∧
      tail (ws.foldl (fun t w => insertRight prec t w.1 w.2) t) = tail t ++ ws by
    simpa [first, tail] using h (atom a0) trivial
  induction ws with
  | nil => intro t ht; simp [ht]
  | cons w ws ih =>
    intro t ht
    have := ih (insertRight prec t w.1 w.2) (canonical_insertRight prec t w.1 w.2 ht)
    simp only [List.foldl_cons]
    refine ⟨this.1, ?_, ?_⟩
    · rw [this.2.1, first_insertRight]
    · rw [this.2.2, tail_insertRight]; simp

/-- foldl of insertRight over the tail of a canonical right operand attaches under `bin p l _` -/
theorem foldl_under (p : Op) (l : Tree Op Atom) (ws : List (Op × Atom)) (r : Tree Op Atom)
    (h : ∀ w ∈ ws, prec p < prec w.1) :
    ws.foldl (fun t w => insertRight prec t w.1 w.2) (bin p l r) =
      bin p l (ws.foldl (fun t w => insertRight prec t w.1 w.2) r) := by
  induction ws generalizing r with
  | nil => rfl
  | cons w ws ih =>
    have hw : prec p < prec w.1 := h w (by simp)
    simp only [List.foldl_cons, insertRight, hw, if_true]
    exact ih _ (fun w' hw' => h w' (by simp [hw']))

theorem ops_of_tail_rootGT (m : Nat) (t : Tree Op Atom) (hc : canonical prec t) (hr : rootGT prec m t) :
    ∀ w ∈ tail t, m < prec w.1 := by
  induction t with
  | atom x => simp [tail]
  | bin o l r ihl ihr =>
    obtain ⟨hl, hrr, hge, hgt⟩ := hc
    simp only [rootGT] at hr
    intro w hw
    simp only [tail, List.mem_append, List.mem_cons] at hw
    rcases hw with hw | hw | hw
    · apply ihl hl _ w hw
      cases l with
      | atom _ => trivial
      | bin q _ _ => simp only [rootGE] at hge; simp only [rootGT]; omega
    · subst hw; exact hr
    · apply ihr hrr _ w hw
      cases r with
      | atom _ => trivial
      | bin q _ _ => simp only [rootGT] at hgt ⊢; omega

/-- round trip: a canonical tree is what the parser builds from its own token string -/
theorem build_complete (t : Tree Op Atom) (hc : canonical prec t) :
    build prec (first t) (tail t) = t := by
  unfold build
  induction t with
  | atom x => simp [tail, first]
  | bin o l r ihl ihr =>
    obtain ⟨hl, hr, hge, hgt⟩ := hc
    simp only [tail, first, List.foldl_append, List.foldl_cons]
    rw [ihl hl]
    -- insert (o, first r) to the right of l: since rootGE (prec o) l, o becomes the new root
    have hins : insertRight prec l o (first r) = bin o l (atom (first r)) := by
      cases l with
      | atom x => simp [insertRight]
      | bin q l1 l2 =>
        simp only [rootGE] at hge
        simp only [insertRight, show ¬ (prec q < prec o) by omega, if_false]
    rw [hins, foldl_under prec o l (tail r) (atom (first r)) (ops_of_tail_rootGT prec (prec o) r hr hgt), ihr hr]

end Prec
