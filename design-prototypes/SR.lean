import Prec
namespace Prec
open Tree

variable {Op Atom : Type} (prec : Op → Nat)

/-- yacc's resolution for an all-%left ladder: with `expr p expr .` on the stack and lookahead `o`,
    shift iff `o` binds strictly tighter, otherwise reduce. -/
def shifts (p o : Op) : Bool := prec p < prec o

/-- unwind the parse stack (top first): each entry is a pending left operand and its operator -/
def plug : List (Tree Op Atom × Op) → Tree Op Atom → Tree Op Atom
  | [], c => c
  | (l, p) :: st, c => plug st (bin p l c)

def reduceWhile : List (Tree Op Atom × Op) → Tree Op Atom → Op → List (Tree Op Atom × Op) × Tree Op Atom
  | [], c, _ => ([], c)
  | (l, p) :: st, c, o => if shifts prec p o then ((l, p) :: st, c) else reduceWhile st (bin p l c) o

/-- the shift-reduce machine: consume `(op, atom)` pairs, then reduce everything -/
def sr : List (Tree Op Atom × Op) → Tree Op Atom → List (Op × Atom) → Tree Op Atom
  | st, c, [] => plug st c
  | st, c, (o, a) :: ws =>
    let r := reduceWhile prec st c o
    sr ((r.2, o) :: r.1) (atom a) ws

/-- stack precedences strictly increase towards the top -/
def incr : List (Tree Op Atom × Op) → Prop
  | [] => True
  | [_] => True
  | (_, p) :: (l, q) :: st => prec q < prec p ∧ incr ((l, q) :: st)

theorem incr_tail {x : Tree Op Atom × Op} {st} (h : incr prec (x :: st)) : incr prec st := by
  cases st with
  | nil => trivial
  | cons y st => obtain ⟨l, p⟩ := x; obtain ⟨m, q⟩ := y; exact h.2

/-- inserting to the right of a plugged tree whose pending operators all bind looser than `o`
    happens inside the hole -/
theorem insertRight_plug_shift (st : List (Tree Op Atom × Op)) (c : Tree Op Atom) (o : Op) (a : Atom)
    (h : ∀ x ∈ st, prec x.2 < prec o) :
    insertRight prec (plug st c) o a = plug st (insertRight prec c o a) := by
  induction st generalizing c with
  | nil => rfl
  | cons x st ih =>
    obtain ⟨l, p⟩ := x
    have hp : prec p < prec o := h (l, p) (by simp)
    simp only [plug]
    rw [ih (bin p l c) (fun y hy => h y (by simp [hy]))]
    simp [insertRight, hp]

theorem reduceWhile_spec (st : List (Tree Op Atom × Op)) (c : Tree Op Atom) (o : Op)
    (hinc : incr prec st) :
    let r := reduceWhile prec st c o
    plug r.1 r.2 = plug st c ∧ incr prec r.1 ∧ (∀ x ∈ r.1, prec x.2 < prec o) ∧
      (∀ q l' r', r.2 = bin q l' r' → r.2 ≠ c → ¬ prec q < prec o) := by
  induction st generalizing c with
  | nil => simp [reduceWhile, plug, incr]
  | cons x st ih =>
    obtain ⟨l, p⟩ := x
    by_cases hlt : prec p < prec o
    · simp only [reduceWhile, shifts, hlt, decide_true, if_true]
      refine ⟨trivial, hinc, ?_, by intro _ _ _ _ h; exact absurd rfl h⟩
      -- all entries below have smaller precedence than p < o
      intro y hy
      have key : ∀ (st : List (Tree Op Atom × Op)) (l : Tree Op Atom) (p : Op), incr prec ((l, p) :: st) →
          ∀ y ∈ (l, p) :: st, prec y.2 ≤ prec p := by
        intro st
        induction st with
        | nil => intro l p _ y hy; simp at hy; subst hy; exact Nat.le_refl _
        | cons z st ih2 =>
          intro l p hi y hy
          obtain ⟨m, q⟩ := z
          simp only [List.mem_cons] at hy
          rcases hy with rfl | hy
          · exact Nat.le_refl _
          · have := ih2 m q hi.2 y (by simpa using hy)
            have := hi.1
            omega
      have := key st l p hinc y hy
      omega
    · have hnlt := hlt
      simp only [reduceWhile, shifts, hlt, decide_false, if_false, Bool.false_eq_true]
      have := ih (bin p l c) (incr_tail prec hinc)
      refine ⟨by simpa [plug] using this.1, this.2.1, this.2.2.1, ?_⟩
      intro q l' r' heq _
      by_cases hsame : (reduceWhile prec st (bin p l c) o).2 = bin p l c
      · rw [hsame] at heq; cases heq; exact hnlt
      · exact this.2.2.2 q l' r' heq hsame

/-- main lemma: one machine step = one `insertRight` -/
theorem step_eq (st : List (Tree Op Atom × Op)) (x : Atom) (o : Op) (a : Atom) (hinc : incr prec st) :
    let r := reduceWhile prec st (atom x) o
    plug ((r.2, o) :: r.1) (atom a) = insertRight prec (plug st (atom x)) o a ∧
      incr prec ((r.2, o) :: r.1) := by
  have h := reduceWhile_spec prec st (atom x) o hinc
  obtain ⟨hplug, hincr, hlt, hroot⟩ := h
  constructor
  · rw [← hplug, insertRight_plug_shift prec _ _ o a hlt]
    simp only [plug]
    congr 1
    -- at the hole: the reduced tree's root does not bind looser than o, so o becomes the new root
    generalize hr : (reduceWhile prec st (atom x) o).2 = rt at hroot
    cases rt with
    | atom y => simp [insertRight]
    | bin q l' r' =>
      have := hroot q l' r' rfl (by simp)
      simp [insertRight, this]
  · cases hr1 : (reduceWhile prec st (atom x) o).1 with
    | nil => trivial
    | cons y ys =>
      obtain ⟨m, q⟩ := y
      rw [hr1] at hincr hlt
      exact ⟨hlt (m, q) (by simp), hincr⟩

theorem sr_eq_foldl (st : List (Tree Op Atom × Op)) (x : Atom) (ws : List (Op × Atom)) (hinc : incr prec st) :
    sr prec st (atom x) ws = ws.foldl (fun t w => insertRight prec t w.1 w.2) (plug st (atom x)) := by
  induction ws generalizing st x with
  | nil => simp [sr]
  | cons w ws ih =>
    obtain ⟨o, a⟩ := w
    have h := step_eq prec st x o a hinc
    simp only [sr, List.foldl_cons]
    rw [ih _ a h.2, h.1]

/-- The yacc-style shift-reduce machine computes exactly the canonical tree. -/
theorem sr_eq_build (a0 : Atom) (ws : List (Op × Atom)) : sr prec [] (atom a0) ws = build prec a0 ws := by
  simpa [build, plug] using sr_eq_foldl prec [] a0 ws trivial

end Prec
