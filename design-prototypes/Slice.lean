/- Feasibility sketch for C11 (not wired to any check).
   `fixPos/fixNeg/bounds/loop` mirror evaluator/index.go:fixRange/valRange after the
   direction-aware clamping repair; the theorems say every produced index addresses an
   element of the sequence (nothing is invented), for every length and all bounds. -/
namespace Slice

def fixPos (n i : Int) : Int :=
  if i < -n then 0 else if i > n then n else if i < 0 then i + n else i

def fixNeg (n i : Int) : Int :=
  if i < -n then -1 else if i ≥ n then n - 1 else if i < 0 then i + n else i

def bounds (n : Int) (start stop : Option Int) (step : Int) : Int × Int :=
  if step > 0 then
    ((match start with | none => 0 | some i => fixPos n i),
     (match stop with | none => n | some i => fixPos n i))
  else
    ((match start with | none => n - 1 | some i => fixNeg n i),
     (match stop with | none => -1 | some i => fixNeg n i))

def hasNext (step i stop : Int) : Bool := if step < 0 then i > stop else i < stop

def loop (step stop : Int) : Nat → Int → List Int
  | 0, _ => []
  | fuel+1, i => if hasNext step i stop then i :: loop step stop fuel (i + step) else []

def indices (n : Nat) (start stop : Option Int) (step : Int) : List Int :=
  let b := bounds n start stop step
  loop step b.2 (n + 1) b.1

theorem bounds_range (n : Nat) (start stop : Option Int) (step : Int) (_hs : step ≠ 0) :
    let b := bounds n start stop step
    (step > 0 → 0 ≤ b.1 ∧ b.1 ≤ n ∧ 0 ≤ b.2 ∧ b.2 ≤ n) ∧
    (step < 0 → -1 ≤ b.1 ∧ b.1 ≤ (n:Int) - 1 ∧ -1 ≤ b.2 ∧ b.2 ≤ (n:Int) - 1) := by
  cases start <;> cases stop <;> simp only [bounds, fixPos, fixNeg] <;>
    (constructor <;> intro h <;> (repeat' split) <;> omega)

theorem loop_mem (step stop lo hi : Int) (fuel : Nat) (i : Int)
    (hpos : step > 0 → lo ≤ i ∧ stop ≤ hi) (hneg : step < 0 → i ≤ hi ∧ lo ≤ stop) (_hs : step ≠ 0) :
    ∀ j ∈ loop step stop fuel i, (step > 0 → lo ≤ j ∧ j < hi) ∧ (step < 0 → lo < j ∧ j ≤ hi) := by
  induction fuel generalizing i with
  | zero => simp [loop]
  | succ k ih =>
    intro j hj
    simp only [loop] at hj
    split at hj
    · rename_i hn
      simp only [hasNext] at hn
      cases hj with
      | head =>
        constructor
        · intro h; have := hpos h; simp [show ¬ step < 0 by omega] at hn; omega
        · intro h; have := hneg h; simp [h] at hn; omega
      | tail _ hj' =>
        apply ih (i + step) _ _ j hj'
        · intro h; have := hpos h; omega
        · intro h; have := hneg h; omega
    · simp at hj

end Slice
