package main

import (
	"bytes"
	"fmt"
	"go/ast"
	"go/parser"
	"go/printer"
	"go/token"
	"os"
	"path/filepath"
	"sort"
	"strconv"
	"strings"
)

func init() { generators["C01"] = genC01 }

func genC01(repo string) (string, error) {
	fset := token.NewFileSet()
	// ---- (a) built-in prototype objects: declared, initialised, bound as constants
	declared, initialised, bound := []string{}, []string{}, []string{}
	objDir := filepath.Join(repo, "object")
	entries, err := os.ReadDir(objDir)
	if err != nil {
		return "", err
	}
	for _, e := range entries {
		if !strings.HasSuffix(e.Name(), ".go") || strings.HasSuffix(e.Name(), "_test.go") {
			continue
		}
		f, err := parser.ParseFile(fset, filepath.Join(objDir, e.Name()), nil, 0)
		if err != nil {
			return "", err
		}
		for _, d := range f.Decls {
			switch d := d.(type) {
			case *ast.GenDecl:
				for _, sp := range d.Specs {
					vs, ok := sp.(*ast.ValueSpec)
					if !ok {
						continue
					}
					for i, n := range vs.Names {
						if i < len(vs.Values) {
							// `var X = &PanObj{}`: an empty shell that init() must fill
							if u, ok := vs.Values[i].(*ast.UnaryExpr); ok && u.Op == token.AND {
								if cl, ok := u.X.(*ast.CompositeLit); ok && len(cl.Elts) == 0 {
									if id, ok := cl.Type.(*ast.Ident); ok && id.Name == "PanObj" {
										declared = append(declared, n.Name)
									}
								}
							}
						}
					}
				}
			case *ast.FuncDecl:
				if d.Name.Name == "init" && d.Recv == nil {
					ast.Inspect(d.Body, func(x ast.Node) bool {
						if as, ok := x.(*ast.AssignStmt); ok {
							for _, l := range as.Lhs {
								if st, ok := l.(*ast.StarExpr); ok {
									if id, ok := st.X.(*ast.Ident); ok {
										initialised = append(initialised, id.Name)
									}
								}
							}
						}
						return true
					})
				}
				if d.Name.Name == "NewEnvWithConsts" {
					ast.Inspect(d.Body, func(x ast.Node) bool {
						if call, ok := x.(*ast.CallExpr); ok {
							if sel, ok := call.Fun.(*ast.SelectorExpr); ok && sel.Sel.Name == "Set" && len(call.Args) == 2 {
								if id, ok := call.Args[1].(*ast.Ident); ok {
									bound = append(bound, id.Name)
								}
							}
						}
						return true
					})
				}
			}
		}
	}
	sort.Strings(declared)
	sort.Strings(initialised)
	sort.Strings(bound)
	// ---- (b) arity guards of the built-in closures
	type guard struct {
		where  string
		k, max int
	}
	guards := []guard{}
	helperK := map[string]int{} // helper functions taking `args []object.PanObject` and checking len(args) < K
	propsDirs := []string{"props", "evaluator", "di"}
	files := map[string]*ast.File{}
	for _, pd := range propsDirs {
		dir := filepath.Join(repo, pd)
		ents, err := os.ReadDir(dir)
		if err != nil {
			return "", err
		}
		for _, e := range ents {
			if !strings.HasSuffix(e.Name(), ".go") || strings.HasSuffix(e.Name(), "_test.go") || strings.HasPrefix(e.Name(), "verif_") {
				continue
			}
			f, err := parser.ParseFile(fset, filepath.Join(dir, e.Name()), nil, 0)
			if err != nil {
				return "", err
			}
			files[pd+"/"+e.Name()] = f
		}
	}
	lenGuard := func(body *ast.BlockStmt, argName string) int {
		k := 0
		ast.Inspect(body, func(x ast.Node) bool {
			be, ok := x.(*ast.BinaryExpr)
			if !ok || (be.Op != token.LSS && be.Op != token.LEQ) {
				return true
			}
			call, ok := be.X.(*ast.CallExpr)
			if !ok {
				return true
			}
			if id, ok := call.Fun.(*ast.Ident); !ok || id.Name != "len" || len(call.Args) != 1 {
				return true
			}
			if a, ok := call.Args[0].(*ast.Ident); !ok || a.Name != argName {
				return true
			}
			if lit, ok := be.Y.(*ast.BasicLit); ok {
				n, _ := strconv.Atoi(lit.Value)
				if be.Op == token.LEQ {
					n++
				}
				if n > k {
					k = n
				}
			}
			return true
		})
		return k
	}
	// lenAtLeast recognises `len(args) >= K`, `len(args) > K`, `K <= len(args)`: the block it guards knows K elements
	lenAtLeast := func(cond ast.Expr, argName string) int {
		be, ok := cond.(*ast.BinaryExpr)
		if !ok {
			return 0
		}
		isLen := func(e ast.Expr) bool {
			call, ok := e.(*ast.CallExpr)
			if !ok {
				return false
			}
			id, ok := call.Fun.(*ast.Ident)
			if !ok || id.Name != "len" || len(call.Args) != 1 {
				return false
			}
			a, ok := call.Args[0].(*ast.Ident)
			return ok && a.Name == argName
		}
		lit := func(e ast.Expr) (int, bool) {
			if l, ok := e.(*ast.BasicLit); ok {
				n, err := strconv.Atoi(l.Value)
				return n, err == nil
			}
			return 0, false
		}
		if isLen(be.X) {
			if n, ok := lit(be.Y); ok {
				switch be.Op {
				case token.GEQ:
					return n
				case token.GTR:
					return n + 1
				case token.EQL:
					return n
				}
			}
		}
		return 0
	}
	// largest constant index used on args that is not covered by an enclosing `if len(args) >= K` / `case N` of a
	// `switch len(args)`
	var maxIndexIn func(n ast.Node, argName string, known int) int
	maxIndexIn = func(n ast.Node, argName string, known int) int {
		m := -1
		upd := func(v int) {
			if v > m {
				m = v
			}
		}
		switch v := n.(type) {
		case nil:
			return -1
		case *ast.IfStmt:
			if v.Init != nil {
				upd(maxIndexIn(v.Init, argName, known))
			}
			upd(maxIndexIn(v.Cond, argName, known))
			k := lenAtLeast(v.Cond, argName)
			if k < known {
				k = known
			}
			upd(maxIndexIn(v.Body, argName, k))
			if v.Else != nil {
				upd(maxIndexIn(v.Else, argName, known))
			}
			return m
		case *ast.SwitchStmt:
			tagIsLen := false
			if call, ok := v.Tag.(*ast.CallExpr); ok {
				if id, ok := call.Fun.(*ast.Ident); ok && id.Name == "len" && len(call.Args) == 1 {
					if a, ok := call.Args[0].(*ast.Ident); ok && a.Name == argName {
						tagIsLen = true
					}
				}
			}
			if tagIsLen {
				caseMax := 0
				for _, st := range v.Body.List {
					cc := st.(*ast.CaseClause)
					k := known
					for _, e := range cc.List {
						if l, ok := e.(*ast.BasicLit); ok {
							if nn, err := strconv.Atoi(l.Value); err == nil {
								if nn > k {
									k = nn
								}
								if nn > caseMax {
									caseMax = nn
								}
							}
						}
					}
					if cc.List == nil {
						// default: every listed length is excluded; with a guard `len < K` above, len > caseMax
						if caseMax+1 > k {
							k = caseMax + 1
						}
					}
					for _, b := range cc.Body {
						upd(maxIndexIn(b, argName, k))
					}
				}
				return m
			}
		case *ast.IndexExpr:
			if a, ok := v.X.(*ast.Ident); ok && a.Name == argName {
				if lit, ok := v.Index.(*ast.BasicLit); ok {
					nn, _ := strconv.Atoi(lit.Value)
					if nn >= known {
						upd(nn)
					}
					return m
				}
			}
		case *ast.FuncLit:
			return -1 // nested closures are visited on their own
		}
		// generic traversal of children
		ast.Inspect(n, func(x ast.Node) bool {
			if x == n || x == nil {
				return true
			}
			upd(maxIndexIn(x, argName, known))
			return false
		})
		return m
	}
	maxIndex := func(body ast.Node, argName string) int { return maxIndexIn(body, argName, 0) }
	names := []string{}
	for n := range files {
		names = append(names, n)
	}
	sort.Strings(names)
	// helpers first
	for _, n := range names {
		for _, d := range files[n].Decls {
			if fd, ok := d.(*ast.FuncDecl); ok && fd.Body != nil && fd.Type.Params != nil {
				for _, p := range fd.Type.Params.List {
					for _, pn := range p.Names {
						if pn.Name == "args" {
							if k := lenGuard(fd.Body, "args"); k > 0 {
								helperK[fd.Name.Name] = k
							}
						}
					}
				}
			}
		}
	}
	for _, n := range names {
		ast.Inspect(files[n], func(x ast.Node) bool {
			var body *ast.BlockStmt
			var params *ast.FieldList
			var name string
			switch v := x.(type) {
			case *ast.FuncLit:
				body, params, name = v.Body, v.Type.Params, fmt.Sprintf("closure@%d", fset.Position(v.Pos()).Line)
			case *ast.FuncDecl:
				body, params, name = v.Body, v.Type.Params, v.Name.Name
			default:
				return true
			}
			if body == nil || params == nil {
				return true
			}
			variadicArgs := false
			for _, p := range params.List {
				if _, ok := p.Type.(*ast.Ellipsis); ok {
					for _, pn := range p.Names {
						if pn.Name == "args" {
							variadicArgs = true
						}
					}
				}
			}
			if !variadicArgs {
				return true
			}
			k := lenGuard(body, "args")
			// a helper that receives `args` and checks its length counts as the guard
			ast.Inspect(body, func(y ast.Node) bool {
				if call, ok := y.(*ast.CallExpr); ok {
					if id, ok := call.Fun.(*ast.Ident); ok {
						if hk, ok := helperK[id.Name]; ok && len(call.Args) > 0 {
							if a, ok := call.Args[0].(*ast.Ident); ok && a.Name == "args" && hk > k {
								k = hk
							}
						}
					}
				}
				return true
			})
			m := maxIndex(body, "args")
			if m >= 0 {
				guards = append(guards, guard{n + ":" + name, k, m})
			}
			return true
		})
	}
	var sb strings.Builder
	sb.WriteString("/- GENERATED by /verif/extract (C01) from object/, props/, evaluator/, di/ — do not edit. -/\nnamespace Pangaea.Generated.C01\n\n")
	sb.WriteString("/-- package-level `var X = &PanObj{}` shells of package object -/\ndef declaredObjs : List String := " + leanStrList(declared) + "\n\n")
	sb.WriteString("/-- shells filled in object's init() (`*X = …`) -/\ndef initialisedObjs : List String := " + leanStrList(initialised) + "\n\n")
	sb.WriteString("/-- Go variables bound as constants by NewEnvWithConsts -/\ndef boundConsts : List String := " + leanStrList(bound) + "\n\n")
	sb.WriteString("/-- built-in closures `func(env, kwargs, args ...)`: (site, guard k in `len(args) < k`, largest constant index used on args) -/\n")
	sb.WriteString("def arityGuards : List (String × Nat × Nat) := [\n")
	gs := []string{}
	for _, g := range guards {
		gs = append(gs, fmt.Sprintf("  (%q, %d, %d)", g.where, g.k, g.max))
	}
	sb.WriteString(strings.Join(gs, ",\n"))
	sb.WriteString("\n]\n\n")
	// ---- (c) single-value type assertions `x.(T)` (the ones that panic when the dynamic type differs)
	asserts, err := uncheckedAssertions(repo)
	if err != nil {
		return "", err
	}
	sb.WriteString("/-- type assertions without the comma-ok form, outside type switches (file:function: expression) -/\n")
	sb.WriteString("def uncheckedAssertions : List String := " + leanStrList(asserts) + "\n\nend Pangaea.Generated.C01\n")
	return sb.String(), nil
}

func uncheckedAssertions(repo string) ([]string, error) {
	fset := token.NewFileSet()
	seen := map[string]bool{}
	out := []string{}
	for _, pkg := range []string{"object", "props", "evaluator", "di", "runscript", "parser", "props/modules"} {
		ents, err := os.ReadDir(filepath.Join(repo, pkg))
		if err != nil {
			return nil, err
		}
		for _, e := range ents {
			if e.IsDir() || !strings.HasSuffix(e.Name(), ".go") || strings.HasSuffix(e.Name(), "_test.go") || e.Name() == "y.go" || strings.HasPrefix(e.Name(), "verif_") {
				continue
			}
			f, err := parser.ParseFile(fset, filepath.Join(repo, pkg, e.Name()), nil, 0)
			if err != nil {
				return nil, err
			}
			for _, d := range f.Decls {
				fd, ok := d.(*ast.FuncDecl)
				if !ok || fd.Body == nil {
					continue
				}
				checked := map[*ast.TypeAssertExpr]bool{}
				ast.Inspect(fd.Body, func(n ast.Node) bool {
					switch v := n.(type) {
					case *ast.AssignStmt:
						if len(v.Lhs) == 2 && len(v.Rhs) == 1 {
							if ta, ok := v.Rhs[0].(*ast.TypeAssertExpr); ok {
								checked[ta] = true
							}
						}
					case *ast.ValueSpec:
						if len(v.Names) == 2 && len(v.Values) == 1 {
							if ta, ok := v.Values[0].(*ast.TypeAssertExpr); ok {
								checked[ta] = true
							}
						}
					}
					return true
				})
				ast.Inspect(fd.Body, func(n ast.Node) bool {
					if ta, ok := n.(*ast.TypeAssertExpr); ok && !checked[ta] && ta.Type != nil {
						s := fmt.Sprintf("%s/%s:%s: %s", pkg, e.Name(), fd.Name.Name, exprStr(fset, ta))
						if !seen[s] {
							seen[s] = true
							out = append(out, s)
						}
					}
					return true
				})
			}
		}
	}
	sort.Strings(out)
	return out, nil
}

func exprStr(fset *token.FileSet, n ast.Node) string {
	var buf bytes.Buffer
	printer.Fprint(&buf, fset, n)
	return strings.Join(strings.Fields(buf.String()), " ")
}
