package main

import (
	"bufio"
	"fmt"
	"os"
	"os/exec"
	"path/filepath"
	"regexp"
	"sort"
	"strconv"
	"strings"
)

func init() { generators["C02"] = genC02 }

type yRule struct {
	head string
	syms []string
	prec string
}

func (r yRule) key() string { return r.head + ": " + strings.Join(r.syms, " ") }

func leanStrList(xs []string) string {
	q := []string{}
	for _, x := range xs {
		q = append(q, fmt.Sprintf("%q", x))
	}
	return "[" + strings.Join(q, ", ") + "]"
}

func genC02(repo string) (string, error) {
	yPath := filepath.Join(repo, "parser", "parser.go.y")
	data, err := os.ReadFile(yPath)
	if err != nil {
		return "", err
	}
	parts := strings.SplitN(string(data), "\n%%", 3)
	if len(parts) < 2 {
		return "", fmt.Errorf("no %%%% section marker in parser.go.y")
	}
	decls, rulesTxt := parts[0], parts[1]
	// ---- ladder
	type lvl struct {
		assoc string
		toks  []string
	}
	ladder := []lvl{}
	level := map[string]int{}
	assoc := map[string]string{}
	for _, line := range strings.Split(decls, "\n") {
		f := strings.Fields(line)
		if len(f) >= 2 && (f[0] == "%left" || f[0] == "%right" || f[0] == "%nonassoc") {
			a := strings.TrimPrefix(f[0], "%")
			ladder = append(ladder, lvl{a, f[1:]})
			for _, t := range f[1:] {
				level[t] = len(ladder) - 1
				assoc[t] = a
			}
		}
	}
	// ---- rules with %prec
	headRe := regexp.MustCompile(`^([A-Za-z_][A-Za-z0-9_]*)\s*$`)
	altRe := regexp.MustCompile(`^\s*([:|])\s*(.*?)\s*$`)
	rules := []yRule{}
	head := ""
	for _, line := range strings.Split(rulesTxt, "\n") {
		if m := headRe.FindStringSubmatch(line); m != nil && !strings.HasPrefix(line, "\t") && !strings.HasPrefix(line, " ") {
			head = m[1]
			continue
		}
		if m := altRe.FindStringSubmatch(line); m != nil && head != "" && (strings.HasPrefix(line, "\t:") || strings.HasPrefix(line, "\t|")) {
			body := m[2]
			if i := strings.Index(body, "//"); i >= 0 {
				body = body[:i]
			}
			f := strings.Fields(body)
			r := yRule{head: head}
			for i := 0; i < len(f); i++ {
				if f[i] == "%prec" && i+1 < len(f) {
					r.prec = f[i+1]
					i++
					continue
				}
				if f[i] == "{" || strings.HasPrefix(f[i], "{") {
					break
				}
				r.syms = append(r.syms, f[i])
			}
			rules = append(rules, r)
		}
	}
	ruleLevel := func(r yRule) (int, bool) {
		if r.prec != "" {
			l, ok := level[r.prec]
			return l, ok
		}
		for i := len(r.syms) - 1; i >= 0; i-- {
			if l, ok := level[r.syms[i]]; ok && strings.ToUpper(r.syms[i]) == r.syms[i] {
				return l, true
			}
		}
		return 0, false
	}
	byKey := map[string]yRule{}
	for _, r := range rules {
		byKey[r.key()] = r
	}
	// ---- goyacc run (scratch dir outside /repo and /verif, removed afterwards)
	tmp, err := os.MkdirTemp("", "verif-goyacc-")
	if err != nil {
		return "", err
	}
	defer os.RemoveAll(tmp)
	cmd := exec.Command("go", "run", "golang.org/x/tools/cmd/goyacc", "-o", filepath.Join(tmp, "y.go"), "-v", filepath.Join(tmp, "y.output"), "./parser/parser.go.y")
	cmd.Dir = repo
	cmd.Env = append(os.Environ(), "GOFLAGS=-mod=mod", "GOPROXY=off", "GOSUMDB=off", "GOTOOLCHAIN=local")
	outb, err := cmd.CombinedOutput()
	notes := []string{}
	srConflicts := -1
	if m := regexp.MustCompile(`conflicts: (\d+) shift/reduce`).FindStringSubmatch(string(outb)); m != nil {
		srConflicts, _ = strconv.Atoi(m[1])
	} else if err == nil {
		srConflicts = 0
	}
	if strings.Contains(string(outb), "reduce/reduce") {
		notes = append(notes, "goyacc reports reduce/reduce conflicts")
	}
	if err != nil {
		return "", fmt.Errorf("goyacc failed: %v\n%s", err, outb)
	}
	// the committed y.go must be what goyacc generates from the grammar (modulo the header line)
	tableFresh := true
	gen, e1 := os.ReadFile(filepath.Join(tmp, "y.go"))
	cur, e2 := os.ReadFile(filepath.Join(repo, "parser", "y.go"))
	if e1 != nil || e2 != nil {
		tableFresh = false
	} else {
		strip := func(b []byte) string {
			s := string(b)
			if i := strings.Index(s, "\n"); i >= 0 {
				s = s[i+1:]
			}
			// `//line` directives carry the invocation's file paths: ignore them
			lines := []string{}
			for _, l := range strings.Split(s, "\n") {
				if strings.HasPrefix(l, "//line ") {
					continue
				}
				lines = append(lines, l)
			}
			return strings.Join(lines, "\n")
		}
		tableFresh = strip(gen) == strip(cur)
	}
	// ---- parse y.output
	f, err := os.Open(filepath.Join(tmp, "y.output"))
	if err != nil {
		return "", err
	}
	defer f.Close()
	type rec struct {
		state            int
		rule             string
		rl, tl           int
		tok              string
		right, actShift  bool
	}
	recs := []rec{}
	unmatched := []string{}
	sc := bufio.NewScanner(f)
	sc.Buffer(make([]byte, 1<<20), 1<<24)
	itemRe := regexp.MustCompile(`^\t([A-Za-z_$][A-Za-z0-9_$']*):\s+(.*?)\s*(\((\d+)\))?\s*$`)
	actRe := regexp.MustCompile(`^\t(\S+)\s+(shift|reduce|error|accept)\s*(\d+)?`)
	state := -1
	var completed []string
	var dotToks map[string]bool
	var acts map[string]string
	flush := func() {
		if state < 0 || len(completed) == 0 {
			return
		}
		if len(completed) > 1 {
			// several completed items: precedence only applies rule by rule; record each
		}
		for _, ck := range completed {
			r, ok := byKey[ck]
			if !ok {
				unmatched = append(unmatched, fmt.Sprintf("state %d: rule not found in parser.go.y: %s", state, ck))
				continue
			}
			rl, ok := ruleLevel(r)
			if !ok {
				continue
			}
			toks := map[string]bool{}
			for t := range dotToks {
				toks[t] = true
			}
			for t := range acts {
				toks[t] = true
			}
			names := []string{}
			for t := range toks {
				names = append(names, t)
			}
			sort.Strings(names)
			for _, t := range names {
				tl, ok := level[t]
				if !ok {
					continue
				}
				a, listed := acts[t]
				actShift := listed && a == "shift"
				recs = append(recs, rec{state, ck, rl, tl, t, assoc[t] == "right", actShift})
			}
		}
	}
	for sc.Scan() {
		line := sc.Text()
		if strings.HasPrefix(line, "state ") {
			flush()
			n, _ := strconv.Atoi(strings.TrimSpace(strings.TrimPrefix(line, "state ")))
			state = n
			completed = nil
			dotToks = map[string]bool{}
			acts = map[string]string{}
			continue
		}
		if state < 0 {
			continue
		}
		if m := actRe.FindStringSubmatch(line); m != nil && !strings.Contains(line, ":") {
			if m[1] != "." {
				acts[m[1]] = m[2]
			}
			continue
		}
		if m := itemRe.FindStringSubmatch(line); m != nil {
			body := m[2]
			if !strings.Contains(body, ".") {
				continue
			}
			headName := m[1]
			if strings.HasSuffix(strings.TrimSpace(body), ".") {
				syms := strings.Fields(strings.TrimSuffix(strings.TrimSpace(body), "."))
				completed = append(completed, headName+": "+strings.Join(syms, " "))
			} else {
				// token right after the dot
				i := strings.Index(body, ".")
				after := strings.Fields(body[i+1:])
				if len(after) > 0 && strings.ToUpper(after[0]) == after[0] {
					dotToks[after[0]] = true
				}
			}
		}
	}
	flush()
	fmt.Fprintf(os.Stderr, "C02 extractor: %d rules, %d resolved records, %d unmatched\n", len(rules), len(recs), len(unmatched))
	sort.Strings(unmatched)

	var sb strings.Builder
	sb.WriteString("/- GENERATED by /verif/extract (C02) from parser/parser.go.y and goyacc's y.output — do not edit. -/\n")
	sb.WriteString("import Pangaea.Syntax.Table\nnamespace Pangaea.Generated.C02\nopen Pangaea.Table\n\n")
	sb.WriteString("/-- `%left`/`%right` lines of parser.go.y, lowest precedence first -/\n")
	sb.WriteString("def ladder : List (Assoc × List String) := [\n")
	for i, l := range ladder {
		a := ".left"
		if l.assoc == "right" {
			a = ".right"
		}
		sep := ","
		if i == len(ladder)-1 {
			sep = ""
		}
		sb.WriteString(fmt.Sprintf("  (%s, %s)%s\n", a, leanStrList(l.toks), sep))
	}
	sb.WriteString("]\n\n/-- rule alternatives carrying a `%prec` annotation whose level is one of IF/ELSE/JUMP/JUMPIF/UNARY_OP -/\n")
	sb.WriteString("def precAnnotations : List (String × String) := [\n")
	pa := []string{}
	for _, r := range rules {
		switch r.prec {
		case "IF", "ELSE", "JUMP", "JUMPIF", "UNARY_OP":
			pa = append(pa, fmt.Sprintf("  (%q, %q)", r.key(), r.prec))
		}
	}
	sb.WriteString(strings.Join(pa, ",\n"))
	sb.WriteString("\n]\n\n/-- operator tokens of the alternatives `expr OP expr` of infixExpr, with whether they carry a %prec -/\n")
	sb.WriteString("def infixRules : List (String × Bool) := [\n")
	ir := []string{}
	for _, r := range rules {
		if r.head == "infixExpr" && len(r.syms) == 3 && r.syms[0] == "expr" && r.syms[2] == "expr" {
			ir = append(ir, fmt.Sprintf("  (%q, %v)", r.syms[1], r.prec != ""))
		}
	}
	sb.WriteString(strings.Join(ir, ",\n"))
	sb.WriteString("\n]\n\n/-- for every LALR state with a completed rule that has a precedence level and every token with a level that is\n")
	sb.WriteString("    shiftable or listed in that state: (state, rule, rule level, token, token level, token is %right, action is shift) -/\n")
	sb.WriteString("def resolved : List (Nat × String × Nat × String × Nat × Bool × Bool) := [\n")
	rs := []string{}
	for _, r := range recs {
		rs = append(rs, fmt.Sprintf("  (%d, %q, %d, %q, %d, %v, %v)", r.state, r.rule, r.rl, r.tok, r.tl, r.right, r.actShift))
	}
	sb.WriteString(strings.Join(rs, ",\n"))
	sb.WriteString("\n]\n\n")
	sb.WriteString(fmt.Sprintf("def srConflicts : Int := %d\n", srConflicts))
	sb.WriteString(fmt.Sprintf("def tablesMatchGrammar : Bool := %v\n", tableFresh))
	sb.WriteString(fmt.Sprintf("def ruleCount : Nat := %d\n", len(rules)))
	sb.WriteString("def unmatched : List String := " + leanStrList(append(unmatched, notes...)) + "\n")
	sb.WriteString("\nend Pangaea.Generated.C02\n")
	return sb.String(), nil
}
