package main

import (
	"fmt"
	"go/ast"
	"go/parser"
	"go/token"
	"os"
	"path/filepath"
	"sort"
	"strings"
)

func init() { generators["C20"] = genC20 }

var c20Tables = map[string]string{"symHashTable": ".sym", "strTable": ".str"}

const c20Lock = "lock"

// lockCall recognises lock.RLock() etc.
func lockCall(e ast.Expr) (string, bool) {
	call, ok := e.(*ast.CallExpr)
	if !ok {
		return "", false
	}
	sel, ok := call.Fun.(*ast.SelectorExpr)
	if !ok {
		return "", false
	}
	id, ok := sel.X.(*ast.Ident)
	if !ok || id.Name != c20Lock {
		return "", false
	}
	switch sel.Sel.Name {
	case "RLock":
		return ".rlock", true
	case "RUnlock":
		return ".runlock", true
	case "Lock":
		return ".lock", true
	case "Unlock":
		return ".unlock", true
	}
	return "?", true
}

func mentions(n ast.Node, names map[string]bool) bool {
	found := false
	ast.Inspect(n, func(x ast.Node) bool {
		if id, ok := x.(*ast.Ident); ok && names[id.Name] {
			found = true
		}
		return !found
	})
	return found
}

// accesses lists the table accesses of one simple statement in evaluation order
// (right-hand sides before the assignment's own write).
func accesses(st ast.Node) []string {
	writes := map[*ast.Ident]bool{}
	ast.Inspect(st, func(x ast.Node) bool {
		switch s := x.(type) {
		case *ast.AssignStmt:
			for _, l := range s.Lhs {
				if ix, ok := l.(*ast.IndexExpr); ok {
					if id, ok := ix.X.(*ast.Ident); ok {
						if _, ok := c20Tables[id.Name]; ok {
							writes[id] = true
						}
					}
				}
				if id, ok := l.(*ast.Ident); ok {
					if _, ok := c20Tables[id.Name]; ok {
						writes[id] = true // the table variable itself is replaced
					}
				}
			}
		case *ast.IncDecStmt:
			if ix, ok := s.X.(*ast.IndexExpr); ok {
				if id, ok := ix.X.(*ast.Ident); ok {
					if _, ok := c20Tables[id.Name]; ok {
						writes[id] = true
					}
				}
			}
		case *ast.CallExpr:
			if f, ok := s.Fun.(*ast.Ident); ok && (f.Name == "delete" || f.Name == "clear") && len(s.Args) > 0 {
				if id, ok := s.Args[0].(*ast.Ident); ok {
					if _, ok := c20Tables[id.Name]; ok {
						writes[id] = true
					}
				}
			}
		}
		return true
	})
	reads, ws := []string{}, []string{}
	ast.Inspect(st, func(x ast.Node) bool {
		if id, ok := x.(*ast.Ident); ok {
			if t, ok := c20Tables[id.Name]; ok {
				if writes[id] {
					ws = append(ws, ".write "+t)
				} else {
					reads = append(reads, ".read "+t)
				}
			}
		}
		return true
	})
	return append(reads, ws...)
}

func genC20(repo string) (string, error) {
	dir := filepath.Join(repo, "object")
	fset := token.NewFileSet()
	entries, err := os.ReadDir(dir)
	if err != nil {
		return "", err
	}
	type fn struct {
		name string
		acts []string
	}
	funcs := []fn{}
	unclassified := []string{}
	names := map[string]bool{c20Lock: true}
	for k := range c20Tables {
		names[k] = true
	}
	declared := map[string]bool{}
	for _, e := range entries {
		if !strings.HasSuffix(e.Name(), ".go") || strings.HasSuffix(e.Name(), "_test.go") {
			continue
		}
		f, err := parser.ParseFile(fset, filepath.Join(dir, e.Name()), nil, 0)
		if err != nil {
			return "", err
		}
		for _, d := range f.Decls {
			switch d := d.(type) {
			case *ast.GenDecl:
				// package-level declarations of the tables and the mutex
				for _, sp := range d.Specs {
					if vs, ok := sp.(*ast.ValueSpec); ok {
						for i, n := range vs.Names {
							if names[n.Name] {
								declared[n.Name] = true
								// the mutex must be a sync.RWMutex value
								if n.Name == c20Lock {
									ok := false
									if se, isSel := vs.Type.(*ast.SelectorExpr); isSel {
										if x, isId := se.X.(*ast.Ident); isId && x.Name == "sync" && se.Sel.Name == "RWMutex" {
											ok = true
										}
									}
									if !ok {
										unclassified = append(unclassified, "lock is not declared as sync.RWMutex")
									}
								}
								_ = i
							} else if mentions(vs, names) {
								unclassified = append(unclassified, e.Name()+": package-level use in "+n.Name)
							}
						}
					}
				}
			case *ast.FuncDecl:
				if d.Body == nil || !mentions(d.Body, names) {
					continue
				}
				// a local variable shadowing one of the names makes the function unclassifiable
				acts := []string{}
				deferred := []string{}
				bad := ""
				directUnlock := false
				var walk func(stmts []ast.Stmt, top bool)
				walk = func(stmts []ast.Stmt, top bool) {
					for _, st := range stmts {
						switch s := st.(type) {
						case *ast.ExprStmt:
							if a, ok := lockCall(s.X); ok {
								if !top || a == "?" {
									bad = "lock operation inside control flow or unknown lock method"
								}
								if a == ".runlock" || a == ".unlock" {
									directUnlock = true
								}
								acts = append(acts, a)
								continue
							}
							acts = append(acts, accesses(s)...)
						case *ast.DeferStmt:
							if a, ok := lockCall(s.Call); ok {
								if !top || (a != ".runlock" && a != ".unlock") {
									bad = "unsupported deferred lock operation"
								}
								deferred = append(deferred, a)
								continue
							}
							if mentions(s, names) {
								bad = "deferred call touching a table"
							}
						case *ast.GoStmt:
							if mentions(s, names) {
								bad = "goroutine touching a table"
							}
						case *ast.BlockStmt:
							walk(s.List, top)
						case *ast.IfStmt:
							if s.Init != nil {
								walk([]ast.Stmt{s.Init}, false)
							}
							acts = append(acts, accesses(s.Cond)...)
							walk(s.Body.List, false)
							if s.Else != nil {
								walk([]ast.Stmt{s.Else}, false)
							}
						case *ast.ForStmt:
							if mentions(s, names) {
								// loop bodies may repeat: accesses repeated twice is enough for the lock-set check
								if s.Init != nil {
									walk([]ast.Stmt{s.Init}, false)
								}
								if s.Cond != nil {
									acts = append(acts, accesses(s.Cond)...)
								}
								walk(s.Body.List, false)
								if s.Post != nil {
									walk([]ast.Stmt{s.Post}, false)
								}
								walk(s.Body.List, false)
							}
						case *ast.RangeStmt:
							if mentions(s, names) {
								acts = append(acts, accesses(s.X)...)
								walk(s.Body.List, false)
								walk(s.Body.List, false)
							}
						case *ast.ReturnStmt:
							acts = append(acts, accesses(s)...)
							if !top && directUnlock {
								bad = "early return combined with a non-deferred unlock"
							}
						case *ast.SwitchStmt, *ast.TypeSwitchStmt, *ast.SelectStmt, *ast.LabeledStmt, *ast.BranchStmt:
							if mentions(s, names) {
								bad = "unsupported control flow touching a table"
							}
						default:
							if lockInside(st) {
								bad = "lock operation in unsupported statement"
							}
							acts = append(acts, accesses(st)...)
						}
					}
				}
				hasFuncLit := false
				ast.Inspect(d.Body, func(x ast.Node) bool {
					if fl, ok := x.(*ast.FuncLit); ok && mentions(fl, names) {
						hasFuncLit = true
					}
					return true
				})
				if hasFuncLit {
					bad = "function literal touching a table or the lock"
				}
				// parameters or locals that shadow the names
				ast.Inspect(d, func(x ast.Node) bool {
					switch v := x.(type) {
					case *ast.Field:
						for _, n := range v.Names {
							if names[n.Name] {
								bad = "name shadowed by a parameter"
							}
						}
					case *ast.AssignStmt:
						if v.Tok == token.DEFINE {
							for _, l := range v.Lhs {
								if id, ok := l.(*ast.Ident); ok && names[id.Name] {
									bad = "name shadowed by a local"
								}
							}
						}
					}
					return true
				})
				// a table may only be indexed, ranged over or passed to len/delete/clear:
				// any other use (alias, argument, return) escapes the lock discipline
				okUse := map[*ast.Ident]bool{}
				ast.Inspect(d.Body, func(x ast.Node) bool {
					switch v := x.(type) {
					case *ast.IndexExpr:
						if id, ok := v.X.(*ast.Ident); ok {
							okUse[id] = true
						}
					case *ast.RangeStmt:
						if id, ok := v.X.(*ast.Ident); ok {
							okUse[id] = true
						}
					case *ast.CallExpr:
						if f, ok := v.Fun.(*ast.Ident); ok && (f.Name == "len" || f.Name == "delete" || f.Name == "clear") {
							for _, a := range v.Args {
								if id, ok := a.(*ast.Ident); ok {
									okUse[id] = true
								}
							}
						}
					case *ast.SelectorExpr:
						if id, ok := v.X.(*ast.Ident); ok && id.Name == c20Lock {
							okUse[id] = true
						}
					}
					return true
				})
				ast.Inspect(d.Body, func(x ast.Node) bool {
					if id, ok := x.(*ast.Ident); ok && names[id.Name] && !okUse[id] {
						bad = "table or mutex escapes (aliased, passed or returned): " + id.Name
					}
					return true
				})
				walk(d.Body.List, true)
				for i := len(deferred) - 1; i >= 0; i-- {
					acts = append(acts, deferred[i])
				}
				name := d.Name.Name
				if d.Recv != nil {
					name = "(method)." + name
				}
				if bad != "" {
					unclassified = append(unclassified, e.Name()+":"+name+": "+bad)
				}
				funcs = append(funcs, fn{e.Name() + ":" + name, acts})
			}
		}
	}
	for k := range names {
		if !declared[k] {
			unclassified = append(unclassified, "package-level variable "+k+" not found in object/")
		}
	}
	sort.Slice(funcs, func(i, j int) bool { return funcs[i].name < funcs[j].name })
	sort.Strings(unclassified)
	var sb strings.Builder
	sb.WriteString("/- GENERATED by /verif/extract (C20) from " + dir + " — do not edit. -/\n")
	sb.WriteString("import Pangaea.Object.SymTab\nnamespace Pangaea.Generated.C20\nopen Pangaea.SymTab\n\n")
	sb.WriteString("/-- every function of package object that mentions symHashTable, strTable or the mutex, as its sequence of lock operations and table accesses -/\n")
	sb.WriteString("def funcs : List (String × List Act) := [\n")
	for i, f := range funcs {
		sep := ","
		if i == len(funcs)-1 {
			sep = ""
		}
		sb.WriteString(fmt.Sprintf("  (%q, [%s])%s\n", f.name, strings.Join(f.acts, ", "), sep))
	}
	sb.WriteString("]\n\n/-- sites the extractor could not translate (must be empty) -/\n")
	sb.WriteString("def unclassified : List String := [")
	for i, u := range unclassified {
		if i > 0 {
			sb.WriteString(", ")
		}
		sb.WriteString(fmt.Sprintf("%q", u))
	}
	sb.WriteString("]\n\nend Pangaea.Generated.C20\n")
	return sb.String(), nil
}

func lockInside(n ast.Node) bool {
	found := false
	ast.Inspect(n, func(x ast.Node) bool {
		if e, ok := x.(ast.Expr); ok {
			if _, ok := lockCall(e); ok {
				found = true
			}
		}
		return !found
	})
	return found
}
