module verifextract

go 1.21
