// Fact extractor: re-reads /repo's sources and writes Lean data files under
// lean/Pangaea/Generated/. Standard library only (go/ast, go/parser, go/token).
package main

import (
	"flag"
	"fmt"
	"os"
	"sort"
)

type generator func(repo string) (string, error)

var generators = map[string]generator{}

func main() {
	repo := flag.String("repo", "/repo", "repository root")
	out := flag.String("out", "", "output file")
	flag.Parse()
	if flag.NArg() != 1 {
		names := []string{}
		for k := range generators {
			names = append(names, k)
		}
		sort.Strings(names)
		fmt.Fprintln(os.Stderr, "usage: extract -repo R -out F <name>; names:", names)
		os.Exit(2)
	}
	g, ok := generators[flag.Arg(0)]
	if !ok {
		fmt.Fprintln(os.Stderr, "unknown generator", flag.Arg(0))
		os.Exit(2)
	}
	src, err := g(*repo)
	if err != nil {
		fmt.Fprintln(os.Stderr, "extract:", err)
		os.Exit(1)
	}
	if err := os.WriteFile(*out, []byte(src), 0o644); err != nil {
		fmt.Fprintln(os.Stderr, err)
		os.Exit(1)
	}
}
