//go:build verif

package main

import (
	"bytes"
	"fmt"
	"io"
	"os"
	"path/filepath"
	"regexp"
	"sort"
	"strings"

	"github.com/Syuparn/pangaea/evaluator"
	"github.com/Syuparn/pangaea/runscript"
)

func init() { registry["C01prog"] = genC01Prog }

type progGen struct {
	c    *Ctx
	vars []string
}

var pgInfix = []string{"+", "-", "*", "/", "//", "%", "**", "<=>", "==", "!=", "===", "<", "<=", ">", ">=", "<<", ">>", "/&", "/|", "/^", "&&", "||"}
var pgProps = []string{"S", "repr", "A", "len", "keys", "values", "items", "sum", "rev", "B", "proto", "bear", "p", "sqrt", "I", "F", "O", "M", "max", "min", "uniq", "sort", "flatten", "join", "first", "last",
	"try", "val", "err", "abandon", "uc", "lc", "sym?", "nil?", "even?", "odd?", "succ", "ancestors", "chr", "ord", "times", "callProp", "traverse", "dec", "enc", "type", "msg", "new", "next", "nonexistent", "at", "call", "_iter", "_incBy"}

func (g *progGen) lit() string {
	c := g.c
	switch c.Rng.Intn(14) {
	case 0:
		return "nil"
	case 1:
		return c.Rng.Pick([]string{"true", "false"})
	case 2, 3:
		return fmt.Sprint(c.Rng.Intn(12))
	case 4:
		return c.Rng.Pick([]string{"0.0", "2.5", "1e3", "0xff", "9223372036854775807", "1_000"})
	case 5:
		return c.Rng.Pick([]string{"\"\"", "\"ab\"", "'sym", "?c", "`raw`", "\"日本\""})
	case 6:
		return "[" + g.list(0, 3) + "]"
	case 7:
		return "{a: " + g.expr(0) + ", _b: " + g.expr(0) + "}"
	case 8:
		return "%{" + g.expr(0) + ": " + g.expr(0) + "}"
	case 9:
		return "(" + g.expr(0) + ":" + g.expr(0) + ")"
	case 10:
		return "{|x, y| " + g.expr(0) + "}"
	case 11:
		return "\"a#{" + g.expr(0) + "}b\""
	case 12:
		return c.Rng.Pick([]string{"Int", "Str", "Arr", "Obj", "Nil", "Err", "Either", "FileNotFoundErr", "Iter", "JSON", "Kernel", "_"})
	default:
		return g.c.Rng.Pick(g.vars)
	}
}

func (g *progGen) list(depth, n int) string {
	parts := []string{}
	for i, k := 0, g.c.Rng.Intn(n+1); i < k; i++ {
		parts = append(parts, g.expr(depth))
	}
	return strings.Join(parts, ", ")
}

func (g *progGen) expr(depth int) string {
	c := g.c
	if depth <= 0 {
		if c.Rng.Intn(3) == 0 {
			return g.c.Rng.Pick(g.vars)
		}
		return g.lit()
	}
	d := depth - 1
	switch c.Rng.Intn(16) {
	case 0, 1:
		return "(" + g.expr(d) + " " + c.Rng.Pick(pgInfix) + " " + g.expr(d) + ")"
	case 2:
		return "(" + c.Rng.Pick([]string{"-", "!", "/~", "+"}) + g.expr(d) + ")"
	case 3, 4:
		return g.expr(d) + "." + c.Rng.Pick(pgProps)
	case 5:
		return g.expr(d) + "." + c.Rng.Pick(pgProps) + "(" + g.list(d, 2) + ")"
	case 6:
		return g.expr(d) + "[" + g.expr(d) + "]"
	case 7:
		return g.expr(d) + "[" + g.expr(0) + ":" + g.expr(0) + ":" + g.expr(0) + "]"
	case 8:
		ch := c.Rng.Pick([]string{"@", "$", "&@", "~@", "=@", "~$", "&.", "~.", "."})
		return g.expr(d) + ch + "{|x, y| " + g.expr(d) + "}"
	case 9:
		return "(" + g.expr(d) + " if " + g.expr(d) + " else " + g.expr(d) + ")"
	case 10:
		return "{|a, b: 1| " + g.stmts(d, 2) + "}(" + g.list(d, 3) + ")"
	case 11:
		return g.expr(d) + ".try." + c.Rng.Pick(pgProps) + ".A"
	case 12:
		return "<{|i| yield i if i < " + g.expr(0) + "; recur(i + 1)}>.new(0)." + c.Rng.Pick([]string{"next", "A", "_iter", "S"})
	case 13:
		return "{|x| x}(*" + g.expr(d) + ", **" + g.expr(d) + ")" + c.Rng.Pick([]string{"", ".A"})
	case 14:
		l := g.list(d, 2)
		if l != "" {
			l += ", "
		}
		return g.expr(d) + "(" + l + "k: " + g.expr(0) + ")"
	default:
		return g.lit()
	}
}

func (g *progGen) stmts(depth, n int) string {
	c := g.c
	parts := []string{}
	for i, k := 0, 1+c.Rng.Intn(n); i < k; i++ {
		switch c.Rng.Intn(10) {
		case 0:
			v := fmt.Sprintf("v%d", c.Rng.Intn(4))
			parts = append(parts, v+" := "+g.expr(depth))
		case 1:
			parts = append(parts, g.c.Rng.Pick(g.vars)+" += "+g.expr(depth))
		case 2:
			parts = append(parts, c.Rng.Pick([]string{"return", "raise", "yield", "defer"})+" "+g.expr(depth)+c.Rng.Pick([]string{"", " if " + g.expr(0)}))
		case 3:
			parts = append(parts, g.expr(depth)+" => v"+fmt.Sprint(c.Rng.Intn(4)))
		case 4:
			parts = append(parts, "<>.p")
		default:
			parts = append(parts, g.expr(depth))
		}
	}
	return strings.Join(parts, "; ")
}

func mutate(c *Ctx, src string) string {
	b := []byte(src)
	if len(b) == 0 {
		return src
	}
	for k := 0; k < 1+c.Rng.Intn(3); k++ {
		i := c.Rng.Intn(len(b))
		switch c.Rng.Intn(7) {
		case 0:
			b = append(b[:i], b[i+1:]...)
		case 1:
			ins := []byte(c.Rng.Pick([]string{"{", "}", "(", ")", "[", "]", "\"", "'", "|", "\x00", "\xff\xfe", "#{", "\n", "\\", "%{", "<{", "}>", "`", ":", "**", "\t", "é"}))
			b = append(b[:i], append(ins, b[i:]...)...)
		case 2:
			b[i] = byte(c.Rng.Intn(256))
		case 3:
			b = b[:i]
		case 4:
			j := c.Rng.Intn(len(b))
			b[i], b[j] = b[j], b[i]
		case 5:
			b = append(b, b[i:]...)
		default:
			b = append(b[:i], append([]byte(strings.Repeat(string(b[i]), 3)), b[i:]...)...)
		}
		if len(b) == 0 {
			break
		}
	}
	return string(b)
}

func genC01Prog(c *Ctx) {
	g := &progGen{c: c, vars: []string{"v0", "v1", "v2", "v3"}}
	prelude := "v0 := 3; v1 := \"s\"; v2 := [1, 2, 3]; v3 := {a: 1, f: {|x| x}}\n"
	n := 2500
	if c.Thorough() {
		n = 60000
	}
	check := func(src, stdin, tag string) {
		if !c.Mine() {
			return
		}
		if needsUnboundedMemory(src) {
			c.Em.Emit(Rec{Impl: "not-run", Src: src, Skip: "asks-for-a-value-of-unbounded-size", Tags: []string{tag}})
			return
		}
		traceInput(src)
		o := c.It.Run(src, stdin)
		rec := Rec{Impl: o.Kind, Src: src, NT: o.Kind != "syntax", Tags: []string{tag, "outcome-" + o.Kind}}
		if o.Kind == "fuel" {
			rec.Skip = "fuel"
		}
		if o.Kind == "panic" {
			rec.Oracle = "host-level panic: " + o.Panic
		}
		if o.Kind == "err" && o.Trace == "" {
			rec.Tags = append(rec.Tags, "err-without-trace")
		}
		c.Em.Emit(rec)
	}
	for i := 0; i < n; i++ {
		src := prelude + g.stmts(1+c.Rng.Intn(3), 4) + "\n"
		check(src, "in1\nin2\n", "generated")
		if c.Rng.Intn(3) == 0 {
			check(mutate(c, src), "", "generated-mutated")
		}
	}
	// malformed stream from the repository's own programs
	files, _ := filepath.Glob("/repo/tests/*.pangaea")
	nat, _ := filepath.Glob("/repo/native/*.pangaea")
	files = append(files, nat...)
	sort.Strings(files)
	m := 600
	if c.Thorough() {
		m = 12000
	}
	for i := 0; i < m && len(files) > 0; i++ {
		b, err := os.ReadFile(files[c.Rng.Intn(len(files))])
		if err != nil {
			continue
		}
		check(mutate(c, string(b)), "x\n", "corpus-mutated")
	}
	// entry points: script runner, REPL, test runner (they print to the process's stderr: silenced)
	devnull, _ := os.OpenFile(os.DevNull, os.O_WRONLY, 0)
	oldErr := os.Stderr
	os.Stderr = devnull
	defer func() { os.Stderr = oldErr }()
	dir, _ := os.MkdirTemp("", "verif-c01-")
	defer os.RemoveAll(dir)
	ne := 150
	if c.Thorough() {
		ne = 3000
	}
	for i := 0; i < ne; i++ {
		src := prelude + g.stmts(2, 3) + "\n"
		if c.Rng.Intn(3) == 0 {
			src = mutate(c, src)
		}
		if !c.Mine() {
			continue
		}
		entry := []string{"RunSource", "StartREPL", "RunTest"}[i%3]
		if needsUnboundedMemory(src) {
			c.Em.Emit(Rec{Impl: "not-run", Src: src, Skip: "asks-for-a-value-of-unbounded-size", Tags: []string{"entry-" + entry}})
			continue
		}
		traceInput(entry + ": " + src)
		res := func() (r string) {
			defer func() {
				evaluator.VerifSetFuel(-1)
				if p := recover(); p != nil {
					if _, ok := p.(evaluator.VerifFuelExhausted); ok {
						r = "fuel"
						return
					}
					r = "panic: " + fmt.Sprint(p)
				}
			}()
			evaluator.VerifSetFuel(defaultFuel)
			var out bytes.Buffer
			switch entry {
			case "RunSource":
				return fmt.Sprintf("exit %d", runscript.RunSource(src, "<verif>", strings.NewReader("in\n"), &out))
			case "StartREPL":
				runscript.StartREPL("", strings.NewReader(src), io.Discard)
				return "repl done"
			default:
				os.WriteFile(filepath.Join(dir, "a_test.pangaea"), []byte(src), 0o644)
				return fmt.Sprintf("exit %d", runscript.RunTest(dir, strings.NewReader(""), &out))
			}
		}()
		rec := Rec{Impl: res, Src: entry + ": " + src, NT: true, Tags: []string{"entry-" + entry}}
		if strings.HasPrefix(res, "panic") {
			rec.Oracle = "host-level panic in " + entry + ": " + res
		}
		if res == "fuel" {
			rec.Skip = "fuel"
		}
		c.Em.Emit(rec)
	}
}

// traceInput records the input about to be evaluated in the file named by VERIF_TRACE (read by the orchestrator when
// the process dies or has to be stopped)
func traceInput(src string) {
	if p := os.Getenv("VERIF_TRACE"); p != "" {
		os.WriteFile(p, []byte(src), 0o644)
	}
}

// the property excludes programs that need unbounded memory: a repetition / power / padding whose count is a number of
// seven or more digits is not evaluated (`[1, 2, 3] * 9223372036854775807` is 3 * 2^63 elements by definition)
var unboundedRe = regexp.MustCompile(`(\*\*?|\.times|just|center|\.repeat)\s*\(?\s*-?[0-9_]{7,}|[0-9_]{7,}\s*\)?\s*\*`)

func needsUnboundedMemory(src string) bool { return unboundedRe.MatchString(src) }
