//go:build verif

package main

import (
	"regexp"
	"strings"
)

var c02SignedRe = regexp.MustCompile(`(^|[ (])-(\d+(?:\.\d+)?)`)

func init() { registry["C02"] = genC02 }

var c02Infix = []string{"+", "-", "*", "/", "//", "%", "**", "<=>", "==", "!=", "===", "!==", "<", "<=", ">", ">=", "<<", ">>", "/&", "/|", "/^", "&&", "||"}
var c02Prefix = []string{"+", "-", "*", "!", "/~"}
var c02Chains = []string{".p", "@q", ".m(k)", "&.p", "~@q", "=@q", "$r", ".s"}
var c02Idents = []string{"a", "b", "c", "d", "e", "g", "h"}

type c02Tok struct {
	s      string
	prefix bool // prefix operator: no space after
	chain  bool // postfix chain: no space before
	multi  bool // the chain is written on its own line (`\n  |.p`): the same grouping as on one line
}

func c02Join(toks []c02Tok) (src string, line string) {
	var sb strings.Builder
	parts := []string{}
	for i, t := range toks {
		parts = append(parts, t.s)
		if i > 0 && !t.chain && !toks[i-1].prefix && toks[i-1].s != "(" && t.s != ")" {
			sb.WriteString(" ")
		}
		if t.chain && t.multi {
			sb.WriteString("\n  |")
		}
		sb.WriteString(t.s)
	}
	return sb.String(), strings.Join(parts, " ")
}

// operand shapes: identifier, literal, call, index, grouped expression
func c02Operand(c *Ctx, k int, noLit ...bool) []c02Tok {
	noLit0 := len(noLit) > 0 && noLit[0]
	_ = noLit0
	id := c02Idents[k%len(c02Idents)]
	switch c.Rng.Intn(9) {
	case 8:
		// a number literal with a postfix index / call: a sign in front of it is still a prefix operator of the whole
		if noLit0 {
			return []c02Tok{{s: id}}
		}
		return []c02Tok{{s: c.Rng.Pick([]string{"5[0]", "7(1)", "12[1]"})}}
	case 0:
		if noLit0 {
			return []c02Tok{{s: id}}
		}
		return []c02Tok{{s: "1"}}
	case 1:
		return []c02Tok{{s: "f(x)"}}
	case 2:
		return []c02Tok{{s: id + "[0]"}}
	case 3:
		return []c02Tok{{s: "("}, {s: id}, {s: c.Rng.Pick(c02Infix)}, {s: "y"}, {s: ")"}}
	default:
		return []c02Tok{{s: id}}
	}
}

func genC02(c *Ctx) {
	emit := func(toks []c02Tok, tag string, nt bool) {
		src, line := c02Join(toks)
		if !c.Mine() {
			return
		}
		impl := parseString(src)
		rec := Rec{Case: "C02 " + line, Impl: impl, Src: src, NT: nt, Tags: []string{tag}}
		// adding the parentheses the table implies never changes the parse
		// (ast String() prints `f(x)` as `f.call(x)` and `a[0]` as `a.at([0])`, which are chains and bind looser than
		// the original call/index, so the printed form is only a faithful parenthesisation without them)
		if impl != "SYNTAXERR" && !strings.HasPrefix(impl, "PANIC") && !strings.Contains(impl, ".call(") && !strings.Contains(impl, ".at(") {
			again := parseString(impl)
			if again != impl {
				rec.Oracle = "re-parsing the fully parenthesised form changes the parse: " + impl + " -> " + again
			}
		}
		if strings.HasPrefix(impl, "PANIC") {
			rec.Oracle = "parser panicked: " + impl
		}
		c.Em.Emit(rec)
	}
	id := func(s string) c02Tok { return c02Tok{s: s} }
	// ---- exhaustive: ordered pairs and triples of the 23 infix operators over plain operands
	for _, o1 := range c02Infix {
		for _, o2 := range c02Infix {
			emit([]c02Tok{id("a"), id(o1), id("b"), id(o2), id("c")}, "infix-pair", true)
			// operand shapes for pairs
			toks := append(c02Operand(c, 0), id(o1))
			toks = append(toks, c02Operand(c, 1)...)
			toks = append(toks, id(o2))
			toks = append(toks, c02Operand(c, 2)...)
			emit(toks, "infix-pair-shapes", true)
			if c.Thorough() || c.Rng.Intn(4) == 0 {
				for _, o3 := range c02Infix {
					emit([]c02Tok{id("a"), id(o1), id("b"), id(o2), id("c"), id(o3), id("d")}, "infix-triple", true)
				}
			}
		}
	}
	// ---- every infix operator against every other construct, both orders
	for _, o := range c02Infix {
		for _, p := range c02Prefix {
			emit([]c02Tok{{s: p, prefix: true}, id("a"), id(o), id("b")}, "prefix-infix", true)
			emit([]c02Tok{id("a"), id(o), {s: p, prefix: true}, id("b")}, "prefix-infix", true)
			emit([]c02Tok{{s: p, prefix: true}, id("a"), id(o), {s: p, prefix: true}, id("b"), id(o), id("c")}, "prefix-infix", true)
		}
		for _, ch := range c02Chains {
			emit([]c02Tok{id("a"), {s: ch, chain: true}, id(o), id("b")}, "chain-infix", true)
			emit([]c02Tok{id("a"), id(o), id("b"), {s: ch, chain: true}}, "chain-infix", true)
			emit([]c02Tok{id("a"), id(o), id("b"), {s: ch, chain: true}, id(o), id("c")}, "chain-infix", true)
			// the same chains written on their own line
			emit([]c02Tok{id("a"), id(o), id("b"), {s: ch, chain: true, multi: true}}, "multiline-chain", true)
			emit([]c02Tok{id("a"), id(o), id("b"), {s: ch, chain: true, multi: true}, {s: ".s", chain: true, multi: true}}, "multiline-chain", true)
			emit([]c02Tok{id("x"), id(":="), id("a"), id(o), id("b"), {s: ch, chain: true, multi: true}}, "multiline-chain", true)
			emit([]c02Tok{{s: "-", prefix: true}, id("a"), id(o), id("b"), {s: ch, chain: true, multi: true}}, "multiline-chain", true)
		}
		emit([]c02Tok{id("a"), id(o), id("b"), id("if"), id("c"), id(o), id("d")}, "if-infix", true)
		emit([]c02Tok{id("a"), id(o), id("b"), id("if"), id("c"), id(o), id("d"), id("else"), id("e"), id(o), id("g")}, "if-infix", true)
		emit([]c02Tok{id("x"), id(":="), id("a"), id(o), id("b")}, "assign-infix", true)
		emit([]c02Tok{id("a"), id(o), id("x"), id(":="), id("b")}, "assign-infix", true)
		emit([]c02Tok{id("x"), id("+="), id("a"), id(o), id("b")}, "assign-infix", true)
		emit([]c02Tok{id("a"), id(o), id("b"), id("=>"), id("x")}, "assign-infix", true)
		emit([]c02Tok{id("a"), id("=>"), id("x"), id(o), id("b")}, "assign-infix", true)
		for _, kw := range []string{"return", "raise", "yield", "defer"} {
			emit([]c02Tok{id(kw), id("a"), id(o), id("b")}, "jump-infix", true)
			emit([]c02Tok{id(kw), id("a"), id(o), id("b"), id("if"), id("c"), id(o), id("d")}, "jump-infix", true)
		}
	}
	// ---- construct x construct (no infix)
	for _, p := range c02Prefix {
		for _, ch := range c02Chains {
			emit([]c02Tok{{s: p, prefix: true}, id("a"), {s: ch, chain: true}}, "prefix-chain", true)
			emit([]c02Tok{{s: p, prefix: true}, id("a[0]"), {s: ch, chain: true}}, "prefix-chain", true)
			emit([]c02Tok{{s: p, prefix: true}, id("f(x)"), {s: ch, chain: true}}, "prefix-chain", true)
		}
		for _, q := range c02Prefix {
			if p == q && (p == "+" || p == "-" || p == "*") {
				continue // `++`, `--`, `**` are other tokens
			}
			emit([]c02Tok{{s: p, prefix: true}, {s: q, prefix: true}, id("a")}, "prefix-prefix", true)
		}
		emit([]c02Tok{{s: p, prefix: true}, id("a"), id("if"), {s: p, prefix: true}, id("b"), id("else"), {s: p, prefix: true}, id("c")}, "prefix-if", true)
		emit([]c02Tok{id("x"), id(":="), {s: p, prefix: true}, id("a"), id("=>"), id("y")}, "prefix-assign", true)
		// a prefix operator in front of a number literal that carries an index / call: the operator applies to the whole
		for _, lit := range []string{"5[0]", "7(1)", "12[1]"} {
			emit([]c02Tok{{s: p, prefix: true}, id(lit)}, "prefix-literal-postfix", true)
			emit([]c02Tok{id("a"), id("+"), {s: p, prefix: true}, id(lit)}, "prefix-literal-postfix", true)
			emit([]c02Tok{{s: p, prefix: true}, id(lit), id("*"), id("b")}, "prefix-literal-postfix", true)
			for _, ch := range c02Chains[:2] {
				emit([]c02Tok{{s: p, prefix: true}, id(lit), {s: ch, chain: true}}, "prefix-literal-postfix", true)
			}
		}
	}
	// ---- a minus sign in front of a number literal is folded into the literal by the parser; the grouping is still
	// the one of a prefix operator (the printed `-2` is rewritten to `(-2)` before the comparison)
	signed := func(toks []c02Tok) {
		src, line := c02Join(toks)
		if !c.Mine() {
			return
		}
		impl := c02SignedRe.ReplaceAllString(parseString(src), "${1}(-${2})")
		c.Em.Emit(Rec{Case: "C02 " + line, Impl: impl, Src: src, NT: true, Tags: []string{"signed-literal"}})
	}
	neg := c02Tok{s: "-", prefix: true}
	for _, o := range c02Infix {
		for _, lit := range []string{"2", "2.5", "10"} {
			signed([]c02Tok{neg, id(lit), id(o), id("3")})
			signed([]c02Tok{id("a"), id(o), neg, id(lit)})
			signed([]c02Tok{neg, id(lit), id(o), neg, id("3"), id(o), id("b")})
			signed([]c02Tok{id("("), neg, id(lit), id(")"), id(o), id("3")})
			signed([]c02Tok{id("x"), id(":="), neg, id(lit), id(o), id("c")})
			for _, o2 := range []string{"**", "*", "+", "<"} {
				signed([]c02Tok{id("a"), id(o2), neg, id(lit), id(o), id("b")})
			}
		}
	}
	misc := [][]string{
		{"a", "if", "b", "if", "c"}, {"a", "if", "b", "if", "c", "else", "d"}, {"a", "if", "b", "else", "c", "if", "d"},
		{"a", "if", "b", "else", "c", "if", "d", "else", "e"}, {"a", "if", "b", "else", "c", "else", "d"},
		{"x", ":=", "y", ":=", "a"}, {"x", ":=", "a", "=>", "y"}, {"a", "=>", "x", "=>", "y"}, {"x", "+=", "y", "+=", "a"},
		{"x", ":=", "a", "if", "b"}, {"x", ":=", "a", "if", "b", "else", "c"}, {"a", "if", "b", "=>", "x"}, {"a", "if", "x", ":=", "b"},
		{"a", "if", "b", "else", "x", ":=", "c"}, {"a", "if", "b", "else", "c", "=>", "x"},
		{"return", "a", "if", "b", "if", "c"}, {"return", "a", "if", "b", "else", "c"}, {"return", "x", ":=", "a"}, {"return", "a", "=>", "x"},
		{"return", "a", "if", "b", "if", "c", "else", "d"}, {"raise", "a", "if", "x", ":=", "b"}, {"defer", "a", "=>", "x", "if", "c"},
		{"yield", "a", "if", "b", "=>", "x"}, {"1", ":=", "a"}, {"a", "=>", "1"}, {"a", "+", "b", ":=", "c"},
	}
	for _, m := range misc {
		toks := []c02Tok{}
		for _, s := range m {
			toks = append(toks, id(s))
		}
		emit(toks, "misc", true)
	}
	// ---- random mixes of all constructs, 2..7 operators
	n := 4000
	if c.Thorough() {
		n = 60000
	}
	for i := 0; i < n; i++ {
		toks := []c02Tok{}
		if c.Rng.Intn(6) == 0 {
			toks = append(toks, id(c.Rng.Pick([]string{"return", "raise", "yield", "defer"})))
		}
		ops := 2 + c.Rng.Intn(6)
		k := 0
		operand := func() {
			last := ""
			for c.Rng.Intn(5) == 0 {
				p := c.Rng.Pick(c02Prefix)
				if p == last || (p == "*" && last != "") || (last == "*") {
					continue // `**`, `--`, `++` lex as other tokens
				}
				toks = append(toks, c02Tok{s: p, prefix: true})
				last = p
			}
			// a sign in front of a number literal is part of the literal: keep literals away from prefix operators
			toks = append(toks, c02Operand(c, k, last != "")...)
			k++
			for c.Rng.Intn(5) == 0 {
				toks = append(toks, c02Tok{s: c.Rng.Pick(c02Chains), chain: true, multi: c.Rng.Intn(4) == 0})
			}
		}
		if c.Rng.Intn(5) == 0 {
			toks = append(toks, id("x"), id(c.Rng.Pick([]string{":=", "+=", "**="})))
		}
		operand()
		for j := 0; j < ops; j++ {
			switch r := c.Rng.Intn(20); {
			case r < 13:
				toks = append(toks, id(c.Rng.Pick(c02Infix)))
				operand()
			case r < 15:
				toks = append(toks, id("if"))
				operand()
			case r < 16:
				toks = append(toks, id("else"))
				operand()
			case r < 17:
				toks = append(toks, id("=>"), id(c.Rng.Pick([]string{"x", "y"})))
			case r < 18:
				toks = append(toks, id(c.Rng.Pick(c02Infix)), id("y"), id(":="))
				operand()
			default:
				toks = append(toks, id(c.Rng.Pick(c02Infix)))
				operand()
			}
		}
		emit(toks, "random-mix", true)
	}
}
