//go:build verif

package main

import (
	"fmt"
	"sort"
	"strings"

	"github.com/Syuparn/pangaea/object"
)

func init() { registry["C04"] = genC04 }

var c04Mains = []struct{ name string }{{"scalar"}, {"list"}, {"reduce"}}
var c04Adds = []struct{ name, sym string }{{"vanilla", ""}, {"lonely", "&"}, {"thoughtful", "~"}, {"strict", "="}}
var c04MainSym = map[string]string{"scalar": ".", "list": "@", "reduce": "$"}

const c04Prelude = `E := {m: m{|a, b, c| return nil if self.b == 'n; raise self.k.new("boom") if self.b == 'r; self.id * 10 + a + b + c}}
Acc := {t: 0, m: m{|e, a, b, c| return nil if e.b == 'n; raise e.k.new("boom") if e.b == 'r; self.bear({t: self.t * 10 + e.id + a + b + c})}}
`

// behaviours that raise, by error kind (StopIterErr is the iterator protocol's own signal)
var c04RaiseKinds = map[string]string{"r": "Err", "s": "StopIterErr", "t": "TypeErr", "z": "ValueErr"}

func c04Canon(o object.PanObject) string {
	switch v := o.(type) {
	case *object.PanInt:
		return "i" + itoa(v.Value)
	case *object.PanNil:
		return "nil"
	case *object.PanArr:
		parts := []string{}
		for _, e := range v.Elems {
			parts = append(parts, c04Canon(e))
		}
		return "[" + strings.Join(parts, ",") + "]"
	case *object.PanErr:
		return "err:" + string(v.ErrKind)
	case *object.PanObj:
		if p, ok := (*v.Pairs)[object.GetSymHash("id")]; ok {
			return "E" + p.Value.Inspect()
		}
		if p, ok := (*v.Pairs)[object.GetSymHash("t")]; ok {
			return "A" + p.Value.Inspect()
		}
	}
	return "val:" + safeInspect(o)
}

func c04Outcome(o Outcome) string {
	switch o.Kind {
	case "val", "err":
		return c04Canon(o.Obj)
	}
	return o.Kind
}

func genC04(c *Ctx) {
	maxN := 3
	if c.Thorough() {
		maxN = 4
	}
	// all element tables up to maxN over value / nil-result / raise / nil-element
	tables := [][]string{{}}
	var gen func(prefix []string, n int)
	gen = func(prefix []string, n int) {
		if n == 0 {
			return
		}
		for _, b := range []string{"v", "n", "r", "N", "s"} {
			t := append(append([]string{}, prefix...), b)
			tables = append(tables, t)
			gen(t, n-1)
		}
	}
	gen([]string{}, maxN)

	run := func(main, add string, addSym string, tbl []string, carg string, arg string, tag string) {
		// element list source
		elemSrc, elemTok := []string{}, []string{}
		for i, b := range tbl {
			if b == "N" {
				// a nil element: the literal, or a nil made by Nil.new (same type, another object)
				elemSrc = append(elemSrc, []string{"nil", "Nil.new"}[(i+len(tbl))%2])
				elemTok = append(elemTok, "N")
			} else {
				if kind, ok := c04RaiseKinds[b]; ok {
					elemSrc = append(elemSrc, fmt.Sprintf("E.bear({id: %d, b: 'r, k: %s})", i+1, kind))
				} else {
					elemSrc = append(elemSrc, fmt.Sprintf("E.bear({id: %d, b: '%s})", i+1, b))
				}
				elemTok = append(elemTok, fmt.Sprintf("%d%s", i+1, b))
			}
		}
		toks := "-"
		if len(elemTok) > 0 {
			toks = strings.Join(elemTok, ",")
		}
		cargSrc := ""
		switch {
		case carg == "-":
		case carg == "A0":
			cargSrc = "(Acc)"
		default:
			cargSrc = "(" + carg + ")"
		}
		argSrc, argList := "", ""
		if arg != "-" {
			as := strings.Replace(arg, "+", ", ", -1) // "5+1+2" stands for the three arguments 5, 1, 2
			argSrc = "(" + as + ")"
			argList = ", " + as
		}
		chain := addSym + c04MainSym[main]
		recv := "es"
		if main == "scalar" {
			recv = "es[0]"
			if len(tbl) == 0 {
				return
			}
		}
		var lit string
		if main == "reduce" {
			lit = fmt.Sprintf("{|acc, x| acc.m(x%s)}", argList)
		} else {
			lit = fmt.Sprintf("{|x| x.m%s}", argSrc)
		}
		forms := map[string]string{
			"p": fmt.Sprintf("%s%s%sm%s", recv, chain, cargSrc, argSrc),
			"l": fmt.Sprintf("%s%s%s%s", recv, chain, cargSrc, lit),
			"v": fmt.Sprintf("f := %s; %s%s%s^f", lit, recv, chain, cargSrc),
		}
		results := map[string]string{}
		for _, form := range []string{"p", "l", "v"} {
			src := c04Prelude + "es := [" + strings.Join(elemSrc, ", ") + "]\n" + forms[form] + "\n"
			if !c.Mine() {
				continue
			}
			o := c.It.Run(src, "")
			impl := c04Outcome(o)
			results[form] = impl
			nt := false
			for _, b := range tbl {
				if b != "v" {
					nt = true
				}
			}
			c.Em.Emit(Rec{
				Case: fmt.Sprintf("C04 %s %s %s %s %s %s", main, add, form, toks, carg, arg),
				Impl: impl, Src: forms[form] + "   # es=" + toks, NT: nt && len(tbl) > 1,
				Tags: []string{main + "-" + add, "form-" + form, tag},
			})
		}
	}

	for _, m := range c04Mains {
		for _, a := range c04Adds {
			for ti, tbl := range tables {
				if m.name == "reduce" {
					skip := false
					for _, b := range tbl {
						if b == "N" {
							skip = true
						}
					}
					if skip {
						continue
					}
				}
				if m.name == "scalar" && len(tbl) != 1 {
					continue
				}
				var cargs []string
				switch m.name {
				case "list":
					cargs = []string{"-", "[]", "[7]"}
				case "reduce":
					cargs = []string{"A0", "-"}
				default:
					cargs = []string{"-"}
				}
				for ci, carg := range cargs {
					// the argument variant alternates deterministically so that both are covered for every context
					arg := "5"
					switch (ti + ci) % 4 {
					case 0:
						arg = "-"
					case 1:
						arg = "5+1+2" // three arguments: the argument list is shared by all per-element calls of a list chain
					}
					run(m.name, a.name, a.sym, tbl, carg, arg, "exhaustive")
				}
			}
		}
	}
	// random longer element lists
	n := 300
	if c.Thorough() {
		n = 6000
	}
	for i := 0; i < n; i++ {
		m := c04Mains[1+c.Rng.Intn(2)]
		a := c04Adds[c.Rng.Intn(4)]
		ln := 4 + c.Rng.Intn(5)
		tbl := []string{}
		for j := 0; j < ln; j++ {
			opts := []string{"v", "v", "v", "n", "r", "N", "s", "t", "z"}
			if m.name == "reduce" {
				opts = []string{"v", "v", "v", "n", "n", "r", "s", "t", "z"}
			}
			tbl = append(tbl, c.Rng.Pick(opts))
		}
		carg := "-"
		if m.name == "reduce" {
			carg = c.Rng.Pick([]string{"A0", "A0", "-"})
		} else {
			carg = c.Rng.Pick([]string{"-", "[]", "[7]"})
		}
		run(m.name, a.name, a.sym, tbl, carg, c.Rng.Pick([]string{"5", "-", "2", "5+1+2", "1+2", "3+0+0"}), "random")
	}

	c04DigestProbes(c)
	c04KeptReceivers(c)
	// other receiver kinds: the three forms must agree with each other and with the array of the same elements
	type rk struct{ name, recv, arr string }
	kinds := []rk{
		{"range", "(1:5)", "[1, 2, 3, 4]"},
		{"range-step", "(6:0:-2)", "[6, 4, 2]"},
		{"int", "4", "[1, 2, 3, 4]"},
		{"str", "\"abcd\"", "[\"a\", \"b\", \"c\", \"d\"]"},
		{"obj", "{a: 1, b: 2, c: 3}", "[[\"a\", 1], [\"b\", 2], [\"c\", 3]]"},
		{"map", "%{1: 'x, 2: 'y, 'k: 3}", "[[1, \"x\"], [2, \"y\"], [\"k\", 3]]"},
		{"iter", "<{|i| yield i if i < 5; recur(i + 1)}>.new(1)", "[1, 2, 3, 4]"},
		{"arr-nested", "[[1, 2], [3, 4], nil, [5]]", "[[1, 2], [3, 4], nil, [5]]"},
	}
	callees := []struct{ prop, lit, rlit string }{
		{"S", "{|x| x.S}", "{|acc, x| acc + x.S}"},
		{"repr", "{|x| x.repr}", "{|acc, x| acc + x.repr}"},
		{"nonexistent", "{|x| x.nonexistent}", "{|acc, x| acc.nonexistent(x)}"},
	}
	for _, k := range kinds {
		for _, a := range c04Adds {
			for _, cl := range callees {
				for _, main := range []string{"list", "reduce"} {
					chain := a.sym + c04MainSym[main]
					var progs []string
					if main == "list" {
						progs = []string{
							fmt.Sprintf("(%s)%s%s", k.recv, chain, cl.prop),
							fmt.Sprintf("(%s)%s%s", k.recv, chain, cl.lit),
							fmt.Sprintf("f := %s; (%s)%s^f", cl.lit, k.recv, chain),
							fmt.Sprintf("(%s)%s%s", k.arr, chain, cl.lit),
						}
					} else {
						if a.name == "lonely" {
							continue
						}
						progs = []string{
							fmt.Sprintf("(%s)%s(\"\")%s", k.recv, chain, cl.rlit),
							fmt.Sprintf("g := %s; (%s)%s(\"\")^g", cl.rlit, k.recv, chain),
							fmt.Sprintf("(%s)%s(\"\")%s", k.arr, chain, cl.rlit),
						}
					}
					if !c.Mine() {
						continue
					}
					outs := []string{}
					for _, p := range progs {
						o := c.It.Run(p, "")
						outs = append(outs, o.Canon())
					}
					rec := Rec{Impl: outs[0], Src: strings.Join(progs, "  |  "), NT: true, Tags: []string{"recv-" + k.name, "forms-oracle"}}
					for _, o := range outs[1:] {
						if o != outs[0] {
							rec.Oracle = fmt.Sprintf("call forms / receiver kinds disagree: %v", outs)
						}
					}
					c.Em.Emit(rec)
				}
			}
		}
	}
}

// c04KeptReceivers (no model involved): a receiver kept in a variable and used as the receiver of several chains in one
// program yields e1..en for every one of them (a chain over an iterator works on a copy)
func c04KeptReceivers(c *Ctx) {
	setups := []string{
		"cnt := 0\nit := <{cnt := cnt + 1; yield cnt if cnt < 4}>",
		"it := <{|i| yield i if i < 4; recur(i + 1)}>.new(1)",
		"it := <{yield \\ if \\ < 4; recur(\\ + 1)}>.new(1)",
		// (built-in iterators obtained with `_iter` from arrays / ranges are consumed by the first chain: what the
		// receiver's iterator yields afterwards is nothing, which is consistent with the property - not used here)
		"it := <{|i| yield i if i < 4; recur(i + 1)}>.new(1)._iter",
		"it := [1, 2, 3]",
		"it := (1:4)",
	}
	chains := []string{"it@{|x| x * 10}", "it@^f", "it=@*(10)", "it~@{|x| x * 10}", "it&@^f", "it$(0){|acc, x| acc + x}", "it$(0)+", "it@([0]){|x| x * 10}", "it@*(10)", "it.A"}
	wants := []string{"[10, 20, 30]", "[10, 20, 30]", "[10, 20, 30]", "[10, 20, 30]", "[10, 20, 30]", "6", "6", "[0, 10, 20, 30]", "[10, 20, 30]", "[1, 2, 3]"}
	for si, setup := range setups {
		for k := 0; k < 4; k++ {
			if !c.Mine() {
				continue
			}
			idx := []int{}
			for j := 0; j < 4; j++ {
				idx = append(idx, c.Rng.Intn(len(chains)))
			}
			parts, want := []string{}, []string{}
			for _, j := range idx {
				parts = append(parts, chains[j])
				want = append(want, wants[j])
			}
			src := "f := {|x| x * 10}\n" + setup + "\n[" + strings.Join(parts, ", ") + "]"
			o := c.It.Run(src, "")
			rec := Rec{Src: src, Impl: o.Canon(), NT: true, Tags: []string{"kept-receiver", fmt.Sprintf("kept-%d", si)}}
			if o.Canon() != "val ["+strings.Join(want, ", ")+"]" {
				rec.Oracle = fmt.Sprintf("chains over a receiver kept in a variable give %s, every chain should see 1, 2, 3: [%s]", o.Canon(), strings.Join(want, ", "))
			}
			c.Em.Emit(rec)
		}
	}
}

// c04DigestProbes (no model involved): a list chain with a container as chain argument returns the container's own
// pairs / elements followed by the collected results, in that container type, each key once (the first wins). The
// expectation is built here from the container and the receiver evaluated separately, pair by pair, with key identity
// taken from the canonical rendering (the keys used render injectively: strs, ints, arrays of ints).
func c04DigestProbes(c *Ctx) {
	type ctn struct{ kind, src string }
	ctns := []ctn{{"map", "%{}"}, {"map", "%{\"n\": 0}"}, {"map", "%{\"n\": 0, [1, 2]: \"kept\"}"}, {"map", "%{1: 'a, [3, 4]: 'b, [5]: 'c}"},
		{"obj", "{}"}, {"obj", "{a: 1}"}, {"obj", "{b: 2, a: 1}"}, {"arr", "[]"}, {"arr", "[7, [1, 2]]"}}
	recvs := []struct {
		src     string
		strKeys bool
	}{
		{"%{[1, 2]: 3, [3, 4]: 7}", false}, {"[[\"n\", 1], [[1, 2], 2], [\"a\", 3], [[1, 2], 4]]", false}, {"[[1, 'x], [[5], 'y], [2, 'z], [1, 'w]]", false},
		{"[[\"a\", 10], [\"c\", 30], [\"a\", 20]]", true}, {"{c: 3, a: 9}", true}, {"[]", true}, {"%{\"a\": 5, [1, 2]: 6, 1: 7}", false},
	}
	forms := []string{"{|x| x}", "^f", "{|x| [x[0], x[1]]}"}
	adds := []string{"@", "=@", "~@", "&@"}
	for ci, ct := range ctns {
		for ri, rv := range recvs {
			if ct.kind == "obj" && !rv.strKeys {
				continue
			}
			for fi, form := range forms {
				add := adds[(ci+ri+fi)%len(adds)]
				if !c.Mine() {
					continue
				}
				src := fmt.Sprintf("f := {|x| x}\ncontainer := %s\nrecv := %s\n[container, recv.A, recv%s(container)%s]", ct.src, rv.src, add, form)
				if strings.HasPrefix(rv.src, "%") || strings.HasPrefix(rv.src, "{") {
					src = strings.Replace(src, "recv.A", "recv.items", 1)
				}
				o := c.It.Run(src, "")
				rec := Rec{Src: src, Impl: o.Kind, NT: true, Tags: []string{"digest-probe", "digest-" + ct.kind}}
				arr, ok := o.Obj.(*object.PanArr)
				if o.Kind != "val" || !ok || len(arr.Elems) != 3 {
					rec.Oracle = "digest probe did not evaluate: " + o.Kind + " " + o.ErrMsg
					c.Em.Emit(rec)
					continue
				}
				pairs, ok := arr.Elems[1].(*object.PanArr)
				if !ok {
					rec.Skip = "receiver-not-pairs"
					c.Em.Emit(rec)
					continue
				}
				want := ""
				switch cv := arr.Elems[0].(type) {
				case *object.PanArr:
					parts := []string{}
					for _, e := range cv.Elems {
						parts = append(parts, c09Canon(e))
					}
					for _, e := range pairs.Elems {
						parts = append(parts, c09Canon(e))
					}
					want = "[" + strings.Join(parts, ";") + "]"
				case *object.PanMap:
					seen := map[string]bool{}
					scalars, others := []string{}, []string{}
					addPair := func(k, v object.PanObject) {
						ck := c09Canon(k)
						if seen[ck] {
							return
						}
						seen[ck] = true
						switch k.(type) {
						case *object.PanArr, *object.PanObj, *object.PanMap:
							others = append(others, ck+"="+c09Canon(v))
						default:
							scalars = append(scalars, ck+"="+c09Canon(v))
						}
					}
					for _, hk := range *cv.HashKeys {
						p := (*cv.Pairs)[hk]
						addPair(p.Key, p.Value)
					}
					for _, p := range *cv.NonHashablePairs {
						addPair(p.Key, p.Value)
					}
					for _, e := range pairs.Elems {
						if kv, ok := e.(*object.PanArr); ok && len(kv.Elems) == 2 {
							addPair(kv.Elems[0], kv.Elems[1])
						}
					}
					want = "%{" + strings.Join(append(scalars, others...), ";") + "}"
				case *object.PanObj:
					seen := map[string]string{}
					names := []string{}
					for _, h := range *cv.Keys {
						p := (*cv.Pairs)[h]
						n := p.Key.(*object.PanStr).Value
						seen[n] = c09Canon(p.Value)
						names = append(names, n)
					}
					for _, e := range pairs.Elems {
						if kv, ok := e.(*object.PanArr); ok && len(kv.Elems) == 2 {
							if ks, ok := kv.Elems[0].(*object.PanStr); ok {
								if _, dup := seen[ks.Value]; !dup {
									seen[ks.Value] = c09Canon(kv.Elems[1])
									names = append(names, ks.Value)
								}
							}
						}
					}
					sort.Strings(names)
					parts := []string{}
					for _, n := range names {
						parts = append(parts, n+"="+seen[n])
					}
					want = "{" + strings.Join(parts, ";") + "}"
				}
				got := c09Canon(arr.Elems[2])
				rec.Impl = got
				if got != want {
					rec.Oracle = fmt.Sprintf("the list chain with the container %s as chain argument gives %s; the container's pairs followed by the collected results (first key wins) are %s", ct.src, got, want)
				}
				c.Em.Emit(rec)
			}
		}
	}
}
