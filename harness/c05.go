//go:build verif

package main

import (
	"fmt"
	"strings"

	"github.com/Syuparn/pangaea/object"
)

func init() { registry["C05"] = genC05 }

type c05Obj struct {
	kind   string
	parent int
	props  [][2]string // name, kind (vN / f / m / x)
	src    int         // bearv / brov: index of the object used as source
	tag    int         // value of the public `tag` prop (0 = the object's index)
}

var c05Names = []string{"a", "b", "c", "d", "_p", "_missing"}

func c05PropSrc(idx int, name, k string) string {
	id := fmt.Sprintf("%d_%s", idx, name)
	switch k {
	case "f":
		return fmt.Sprintf("%s: {|x, y| ['f_%s, x.tag, y]}", name, id)
	case "m":
		return fmt.Sprintf("%s: m{|y| ['m_%s, self.tag, y]}", name, id)
	case "x":
		return fmt.Sprintf("%s: m{|name, y| ['x_%s, self.tag, name, y]}", name, id)
	}
	return fmt.Sprintf("%s: %s", name, k[1:])
}

// c05Vars maps object identity to the variable index that holds it (set per run)
var c05Vars map[object.PanObject]int

func c05Canon(o object.PanObject) string {
	if idx, ok := c05Vars[o]; ok {
		return fmt.Sprintf("T%d", idx)
	}
	switch v := o.(type) {
	case *object.PanInt:
		return itoa(v.Value)
	case *object.PanNil:
		return "nil"
	case *object.PanBool:
		return v.Inspect()
	case *object.PanStr:
		return v.Value
	case *object.PanArr:
		parts := []string{}
		for _, e := range v.Elems {
			parts = append(parts, c05Canon(e))
		}
		return "[" + strings.Join(parts, ",") + "]"
	case *object.PanErr:
		return "err:" + string(v.ErrKind)
	case *object.PanFunc:
		return "fn"
	case *object.PanBuiltIn:
		return "builtin"
	case *object.PanObj:
		if v == object.BuiltInObjObj {
			return "Obj"
		}
		if v == object.BuiltInBaseObj {
			return "BaseObj"
		}
		return "obj?"
	}
	return "val:" + safeInspect(o)
}

// c05ChainProbes (no model involved): a list chain with several arguments over receivers that resolve the name in
// different ways (own method, inherited method, `_missing` of a prototype, own `_missing`) gives, element by element,
// what the same call gives on each receiver alone - whatever the earlier elements resolved through
func c05ChainProbes(c *Ctx) {
	prelude := "P := {_missing: m{|name| [\"P\", name, \\0[2:]]}, own: m{[\"P.own\", \\0[1:]]}}\n" +
		"a := P.bear({tag: 'a})\nb := P.bear({tag: 'b, foo: m{[\"b.foo\", \\0[1:]]}})\nq := P.bear({tag: 'q, _missing: m{|name| [\"q\", name, \\0[2:]]}})\nd := b.bear({tag: 'd})\n"
	orders := []string{"[a, b, q, d]", "[b, a, d, q]", "[q, a, a, b]", "[a, a, b, b, q, d]", "[d, q, b, a]"}
	argLists := []string{"", "1", "1, 2", "1, 2, 3", "1, 2, 3, 4", "1, 2, 3, 4, 5", "1, 2, 3, 4, 5, 6", "1, 2, 3, 4, 5, 6, 7", "1, 2, 3, k: 4"}
	for oi, ord := range orders {
		for ai, args := range argLists {
			for _, name := range []string{"foo", "own", "zz"} {
				if !c.Mine() {
					continue
				}
				call := name
				if args != "" {
					call += "(" + args + ")"
				}
				src := prelude + fmt.Sprintf("xs := %s\n[xs@%s, xs@{|x| x.%s}, xs=@%s]", ord, call, call, call)
				o := c.It.Run(src, "")
				rec := Rec{Src: src, Impl: o.Canon(), NT: true, Tags: []string{"chain-probe", fmt.Sprintf("order%d", oi), fmt.Sprintf("args%d", ai)}}
				arr, ok := o.Obj.(*object.PanArr)
				if o.Kind != "val" || !ok || len(arr.Elems) != 3 {
					rec.Oracle = "chain probe did not evaluate: " + o.Canon() + " " + o.ErrMsg
				} else if a0, a1, a2 := safeInspect(arr.Elems[0]), safeInspect(arr.Elems[1]), safeInspect(arr.Elems[2]); a0 != a1 || a0 != a2 {
					rec.Oracle = fmt.Sprintf("xs@%s gives %s, calling each element separately gives %s (strict chain %s)", call, a0, a1, a2)
				}
				c.Em.Emit(rec)
			}
		}
	}
}

func genC05(c *Ctx) {
	c05ChainProbes(c)
	n := 350
	if c.Thorough() {
		n = 6000
	}
	objHas := func(o *object.PanObj, name string) bool {
		_, ok := (*o.Pairs)[object.GetSymHash(name)]
		return ok
	}
	for it := 0; it < n; it++ {
		// ---- a random history of literals / bear / bro
		nobj := 1 + c.Rng.Intn(6)
		objs := []c05Obj{}
		family := it%4 == 0
		if family {
			// "shared source" family: two parents binding the same names differently, one source object used to bear a
			// child of each parent (and a sibling); then every name is looked up through every member in sequence
			mk := func(i int) [][2]string {
				ps := [][2]string{}
				for j, name := range []string{"a", "b", "c", "_missing"} {
					if c.Rng.Intn(3) == 0 {
						continue
					}
					k := c.Rng.Pick([]string{"v", "f", "m"})
					if name == "_missing" {
						k = "x"
					}
					if k == "v" {
						k = fmt.Sprintf("v%d", 100*i+j)
					}
					ps = append(ps, [2]string{name, k})
				}
				return ps
			}
			objs = []c05Obj{
				{kind: "lit", parent: -1, props: mk(0)}, {kind: "lit", parent: -1, props: mk(1)},
				{kind: "lit", parent: -1, props: [][2]string{{"d", "v200"}}},
				{kind: "bearv", parent: 0, src: 2}, {kind: "bearv", parent: 1, src: 2}, {kind: "brov", parent: 3, src: 2},
			}
			if c.Rng.Bool() {
				objs = append(objs, c05Obj{kind: "brov", parent: 4, src: 2})
			}
			nobj = len(objs)
		}
		twins := it%4 == 1
		if twins {
			// objects that differ only in private props (or not at all): == / kindOf? / ancestors must tell them apart
			pv := fmt.Sprintf("v%d", 5+c.Rng.Intn(2))
			priv := c.Rng.Pick([]string{"_p", "_missing"})
			objs = []c05Obj{
				{kind: "lit", parent: -1, props: [][2]string{{"a", "v1"}, {priv, "v5"}}, tag: 50},
				{kind: "lit", parent: -1, props: [][2]string{{"a", "v1"}, {priv, pv}}, tag: 50},
				{kind: "bear", parent: 0}, {kind: "bear", parent: 1}, {kind: "bear", parent: 2},
			}
			nobj = len(objs)
		}
		siblings := it%8 == 2
		if siblings {
			// children of one prototype whose chain serves absent names through `_missing`; some children override
			// `_missing` themselves, some own the probed names: the same few names are looked up through every member,
			// in every order
			objs = []c05Obj{
				{kind: "lit", parent: -1, props: [][2]string{{"_missing", "x"}, {"a", "m"}}},
				{kind: "bear", parent: 0, props: [][2]string{{"c", "v101"}}},
				{kind: "bear", parent: 0, props: [][2]string{{"_missing", "x"}, {"c", "v201"}}},
				{kind: "bro", parent: 1, props: [][2]string{{"zz", "v301"}}},
				{kind: "bear", parent: 2},
				{kind: "bear", parent: 1, props: [][2]string{{"_missing", c.Rng.Pick([]string{"x", "v401"})}}},
			}
			nobj = len(objs)
		}
		for i := 0; i < nobj && !family && !twins && !siblings; i++ {
			o := c05Obj{kind: "lit", parent: -1}
			if i > 0 {
				switch c.Rng.Intn(5) {
				case 0:
				case 1:
					o.kind, o.parent = "bro", c.Rng.Intn(i)
				default:
					o.kind, o.parent = "bear", c.Rng.Intn(i)
					if c.Rng.Intn(2) == 0 {
						o.parent = i - 1 // deep chains
					}
				}
			}
			// reuse an earlier object as the source of bear / bro (the same source may be used several times)
			if i > 1 && o.kind != "lit" && c.Rng.Intn(3) == 0 {
				o.kind += "v"
				o.src = c.Rng.Intn(i)
			}
			np := c.Rng.Intn(4)
			if strings.HasSuffix(o.kind, "v") {
				np = 0
			}
			seen := map[string]bool{}
			for j := 0; j < np; j++ {
				name := c.Rng.Pick(c05Names)
				if seen[name] {
					continue
				}
				seen[name] = true
				k := c.Rng.Pick([]string{"v", "v", "f", "m"})
				if name == "_missing" {
					k = c.Rng.Pick([]string{"x", "x", "x", "v"})
				}
				if k == "v" {
					k = fmt.Sprintf("v%d", 100*i+j)
				}
				o.props = append(o.props, [2]string{name, k})
			}
			objs = append(objs, o)
		}
		var sb strings.Builder
		defs := []string{}
		for i, o := range objs {
			tg := i
			if o.tag != 0 {
				tg = o.tag
			}
			ps := []string{fmt.Sprintf("tag: %d", tg)}
			enc := []string{}
			if o.tag != 0 {
				enc = append(enc, fmt.Sprintf("tag=v%d", o.tag))
			}
			for _, p := range o.props {
				ps = append(ps, c05PropSrc(i, p[0], p[1]))
				enc = append(enc, p[0]+"="+p[1])
			}
			body := "{" + strings.Join(ps, ", ") + "}"
			e := "-"
			if len(enc) > 0 {
				e = strings.Join(enc, ",")
			}
			switch o.kind {
			case "lit":
				sb.WriteString(fmt.Sprintf("o%d := %s\n", i, body))
			case "bear":
				sb.WriteString(fmt.Sprintf("o%d := o%d.bear(%s)\n", i, o.parent, body))
			case "bro":
				sb.WriteString(fmt.Sprintf("o%d := o%d.bro(%s)\n", i, o.parent, body))
			case "bearv":
				sb.WriteString(fmt.Sprintf("o%d := o%d.bear(o%d)\n", i, o.parent, o.src))
				e = fmt.Sprint(o.src)
			case "brov":
				sb.WriteString(fmt.Sprintf("o%d := o%d.bro(o%d)\n", i, o.parent, o.src))
				e = fmt.Sprint(o.src)
			}
			par := "-"
			if o.parent >= 0 {
				par = fmt.Sprint(o.parent)
			}
			defs = append(defs, fmt.Sprintf("%s:%s:%s", o.kind, par, e))
		}
		prelude := sb.String()
		// ---- probes: all of them run one after the other in the same scope (a history of lookups)
		mine := c.Mine()
		var env *object.Env
		if mine {
			env = object.NewEnclosedEnv(c.It.base)
			c.It.RunIn(env, prelude, "", defaultFuel)
		}
		hist := []string{}
		nprobes := 8
		if family || siblings {
			nprobes = 24
		}
		for pr := 0; pr < nprobes; pr++ {
			i := c.Rng.Intn(nobj)
			name := c.Rng.Pick([]string{"a", "b", "c", "d", "_p", "zz", "tag", "_missing", "bear", "proto", "_name", "keys"})
			if family {
				i = 2 + c.Rng.Intn(nobj-2)
				name = c.Rng.Pick([]string{"a", "b", "c", "d", "zz", "tag"})
			}
			if siblings {
				name = c.Rng.Pick([]string{"zz", "zz", "yy", "a", "c"})
			}
			forceKind := twins && c.Rng.Intn(3) > 0
			var probe, src string
			sel := c.Rng.Intn(11)
			if forceKind {
				sel = 6
			}
			switch sel {
			case 9:
				// thoughtful call: the lookup (including _missing) is the same, only a nil / failed result falls back to the receiver
				probe, src = fmt.Sprintf("tcall:%d:%s", i, name), fmt.Sprintf("o%d~.%s(9)", i, name)
			case 10:
				probe, src = fmt.Sprintf("call:%d:%s", i, name), fmt.Sprintf("o%d&.%s(9)", i, name)
			case 0, 1:
				probe, src = fmt.Sprintf("call:%d:%s", i, name), fmt.Sprintf("o%d.%s(9)", i, name)
			case 2:
				probe, src = fmt.Sprintf("get:%d:%s", i, name), fmt.Sprintf("o%d.%s", i, name)
			case 3:
				probe, src = fmt.Sprintf("idx:%d:%s", i, name), fmt.Sprintf("o%d['%s]", i, name)
			case 4:
				probe, src = fmt.Sprintf("which:%d:%s", i, name), fmt.Sprintf("o%d.which('%s)", i, name)
			case 5:
				probe, src = fmt.Sprintf("anc:%d", i), fmt.Sprintf("o%d.ancestors", i)
			case 6:
				j := c.Rng.Intn(nobj)
				probe, src = fmt.Sprintf("kind:%d:%d", i, j), fmt.Sprintf("o%d.kindOf?(o%d)", i, j)
			case 7:
				probe, src = fmt.Sprintf("keys:%d", i), fmt.Sprintf("o%d.keys", i)
			default:
				probe, src = fmt.Sprintf("proto:%d", i), fmt.Sprintf("o%d.proto", i)
			}
			// disturbances: evaluations that read the objects (merging, unpacking, comparing, printing, failing lookups
			// recovered by ~.) and must leave every later lookup unchanged
			disturb := ""
			if c.Rng.Intn(3) == 0 {
				a, b := c.Rng.Intn(nobj), c.Rng.Intn(nobj)
				disturb = []string{
					fmt.Sprintf("{**o%d, **o%d}", a, b), fmt.Sprintf("{|a: 0, zz: 0| a}(**o%d, **o%d)", a, b), fmt.Sprintf("([o%d] == [o%d])", a, b),
					fmt.Sprintf("o%d.S", a), fmt.Sprintf("%%{**o%d, **o%d}", a, b), fmt.Sprintf("{**o%d}.bear({q: 1})", a), fmt.Sprintf("o%d.bear.keys", a),
					"bad := {_missing: m{|n| raise ValueErr.new(\"no\")}}.bear({}); (1:70).A@{|k| bad~.foo}.len",
					fmt.Sprintf("(1:70).A@{|k| o%d~.nonexistent(k)}.len", a), fmt.Sprintf("{**o%d, **o%d, **o%d}.keys", b, a, b),
				}[c.Rng.Intn(10)]
			}
			if !mine {
				continue
			}
			if disturb != "" {
				c.It.RunIn(env, disturb+"\n", "", defaultFuel)
				hist = append(hist, disturb)
			}
			bi := "-"
			if strings.Contains(probe, ":"+name) {
				if objHas(object.BuiltInObjObj, name) {
					bi = "Obj"
				} else if objHas(object.BuiltInBaseObj, name) {
					bi = "BaseObj"
				}
			}
			o := c.It.RunIn(env, src+"\n", "", defaultFuel)
			impl := o.Kind
			if o.Kind == "val" || o.Kind == "err" {
				c05Vars = map[object.PanObject]int{}
				for k := nobj - 1; k >= 0; k-- {
					if v, ok := o.Env.Get(object.GetSymHash(fmt.Sprintf("o%d", k))); ok {
						c05Vars[v] = k
					}
				}
				impl = c05Canon(o.Obj)
			}
			thisSrc := src
			c.Em.Emit(Rec{
				Case: fmt.Sprintf("C05 %s %s %s", strings.Join(defs, ";"), bi, probe),
				Impl: impl, Src: prelude + strings.Join(append(hist, src), "\n"), NT: nobj > 1, Tags: []string{strings.SplitN(probe, ":", 2)[0], fmt.Sprintf("objs%d", nobj)},
			})
			hist = append(hist, thisSrc)
		}
	}
}
