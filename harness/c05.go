//go:build verif

package main

import (
	"fmt"
	"strings"

	"github.com/Syuparn/pangaea/object"
)

func init() { registry["C05"] = genC05 }

type c05Obj struct {
	kind   string
	parent int
	props  [][2]string // name, kind (vN / f / m / x)
}

var c05Names = []string{"a", "b", "c", "d", "_p", "_missing"}

func c05PropSrc(idx int, name, k string) string {
	id := fmt.Sprintf("%d_%s", idx, name)
	switch k {
	case "f":
		return fmt.Sprintf("%s: {|x, y| ['f_%s, x.tag, y]}", name, id)
	case "m":
		return fmt.Sprintf("%s: m{|y| ['m_%s, self.tag, y]}", name, id)
	case "x":
		return fmt.Sprintf("%s: m{|name, y| ['x_%s, self.tag, name, y]}", name, id)
	}
	return fmt.Sprintf("%s: %s", name, k[1:])
}

func c05Canon(o object.PanObject) string {
	switch v := o.(type) {
	case *object.PanInt:
		return itoa(v.Value)
	case *object.PanNil:
		return "nil"
	case *object.PanBool:
		return v.Inspect()
	case *object.PanStr:
		return v.Value
	case *object.PanArr:
		parts := []string{}
		for _, e := range v.Elems {
			parts = append(parts, c05Canon(e))
		}
		return "[" + strings.Join(parts, ",") + "]"
	case *object.PanErr:
		return "err:" + string(v.ErrKind)
	case *object.PanFunc:
		return "fn"
	case *object.PanBuiltIn:
		return "builtin"
	case *object.PanObj:
		if v == object.BuiltInObjObj {
			return "Obj"
		}
		if v == object.BuiltInBaseObj {
			return "BaseObj"
		}
		if p, ok := (*v.Pairs)[object.GetSymHash("tag")]; ok {
			return "T" + p.Value.Inspect()
		}
	}
	return "val:" + safeInspect(o)
}

func genC05(c *Ctx) {
	n := 350
	if c.Thorough() {
		n = 6000
	}
	objHas := func(o *object.PanObj, name string) bool {
		_, ok := (*o.Pairs)[object.GetSymHash(name)]
		return ok
	}
	for it := 0; it < n; it++ {
		// ---- a random history of literals / bear / bro
		nobj := 1 + c.Rng.Intn(6)
		objs := []c05Obj{}
		for i := 0; i < nobj; i++ {
			o := c05Obj{kind: "lit", parent: -1}
			if i > 0 {
				switch c.Rng.Intn(5) {
				case 0:
				case 1:
					o.kind, o.parent = "bro", c.Rng.Intn(i)
				default:
					o.kind, o.parent = "bear", c.Rng.Intn(i)
					if c.Rng.Intn(2) == 0 {
						o.parent = i - 1 // deep chains
					}
				}
			}
			np := c.Rng.Intn(4)
			seen := map[string]bool{}
			for j := 0; j < np; j++ {
				name := c.Rng.Pick(c05Names)
				if seen[name] {
					continue
				}
				seen[name] = true
				k := c.Rng.Pick([]string{"v", "v", "f", "m"})
				if name == "_missing" {
					k = c.Rng.Pick([]string{"x", "x", "x", "v"})
				}
				if k == "v" {
					k = fmt.Sprintf("v%d", 100*i+j)
				}
				o.props = append(o.props, [2]string{name, k})
			}
			objs = append(objs, o)
		}
		var sb strings.Builder
		defs := []string{}
		for i, o := range objs {
			ps := []string{fmt.Sprintf("tag: %d", i)}
			enc := []string{}
			for _, p := range o.props {
				ps = append(ps, c05PropSrc(i, p[0], p[1]))
				enc = append(enc, p[0]+"="+p[1])
			}
			body := "{" + strings.Join(ps, ", ") + "}"
			switch o.kind {
			case "lit":
				sb.WriteString(fmt.Sprintf("o%d := %s\n", i, body))
			case "bear":
				sb.WriteString(fmt.Sprintf("o%d := o%d.bear(%s)\n", i, o.parent, body))
			case "bro":
				sb.WriteString(fmt.Sprintf("o%d := o%d.bro(%s)\n", i, o.parent, body))
			}
			e := "-"
			if len(enc) > 0 {
				e = strings.Join(enc, ",")
			}
			par := "-"
			if o.parent >= 0 {
				par = fmt.Sprint(o.parent)
			}
			defs = append(defs, fmt.Sprintf("%s:%s:%s", o.kind, par, e))
		}
		prelude := sb.String()
		// ---- probes
		for pr := 0; pr < 6; pr++ {
			i := c.Rng.Intn(nobj)
			name := c.Rng.Pick([]string{"a", "b", "c", "d", "_p", "zz", "tag", "_missing", "bear", "proto", "_name", "keys"})
			var probe, src string
			switch c.Rng.Intn(9) {
			case 0, 1:
				probe, src = fmt.Sprintf("call:%d:%s", i, name), fmt.Sprintf("o%d.%s(9)", i, name)
			case 2:
				probe, src = fmt.Sprintf("get:%d:%s", i, name), fmt.Sprintf("o%d.%s", i, name)
			case 3:
				probe, src = fmt.Sprintf("idx:%d:%s", i, name), fmt.Sprintf("o%d['%s]", i, name)
			case 4:
				probe, src = fmt.Sprintf("which:%d:%s", i, name), fmt.Sprintf("o%d.which('%s)", i, name)
			case 5:
				probe, src = fmt.Sprintf("anc:%d", i), fmt.Sprintf("o%d.ancestors", i)
			case 6:
				j := c.Rng.Intn(nobj)
				probe, src = fmt.Sprintf("kind:%d:%d", i, j), fmt.Sprintf("o%d.kindOf?(o%d)", i, j)
			case 7:
				probe, src = fmt.Sprintf("keys:%d", i), fmt.Sprintf("o%d.keys", i)
			default:
				probe, src = fmt.Sprintf("proto:%d", i), fmt.Sprintf("o%d.proto", i)
			}
			if !c.Mine() {
				continue
			}
			bi := "-"
			if strings.Contains(probe, ":"+name) {
				if objHas(object.BuiltInObjObj, name) {
					bi = "Obj"
				} else if objHas(object.BuiltInBaseObj, name) {
					bi = "BaseObj"
				}
			}
			o := c.It.Run(prelude+src+"\n", "")
			impl := o.Kind
			if o.Kind == "val" || o.Kind == "err" {
				impl = c05Canon(o.Obj)
			}
			c.Em.Emit(Rec{
				Case: fmt.Sprintf("C05 %s %s %s", strings.Join(defs, ";"), bi, probe),
				Impl: impl, Src: prelude + src, NT: nobj > 1, Tags: []string{strings.SplitN(probe, ":", 2)[0], fmt.Sprintf("objs%d", nobj)},
			})
		}
	}
}
