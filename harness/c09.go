//go:build verif

package main

import (
	"fmt"
	"sort"
	"strings"

	"github.com/Syuparn/pangaea/object"
)

func init() { registry["C09"] = genC09 }

// a generated value: its source text and its encoding for the Lean driver
type c09Val struct{ src, enc string }

// (names that extend another name by `!` / `?` / a letter: their sorted order is that of the raw names)
var c09Names = []string{"a", "b", "c", "k", "_p", "_q", "x1", "a!", "a?", "ab", "_p!"}

func c09Scalar(c *Ctx) c09Val {
	switch c.Rng.Intn(9) {
	case 0:
		return c09Val{"nil", "n"}
	case 1:
		return c09Val{"true", "T"}
	case 2:
		return c09Val{"false", "F"}
	case 3, 4:
		n := c.Rng.Intn(4)
		return c09Val{fmt.Sprint(n), fmt.Sprintf("i%d", n)}
	case 5:
		n := c.Rng.Intn(3)
		return c09Val{fmt.Sprintf("%d.0", n), fmt.Sprintf("f%d", n)}
	case 6:
		s := c.Rng.Pick(c09Names)
		return c09Val{"'" + s, "s" + s}
	default:
		s := c.Rng.Pick(c09Names)
		return c09Val{"\"" + s + "\"", "s" + s}
	}
}

func c09Any(c *Ctx, depth int) c09Val {
	if depth <= 0 || c.Rng.Intn(3) > 0 {
		return c09Scalar(c)
	}
	switch c.Rng.Intn(3) {
	case 0:
		n := c.Rng.Intn(3)
		ss, es := []string{}, []string{}
		for i := 0; i < n; i++ {
			v := c09Any(c, depth-1)
			ss = append(ss, v.src)
			es = append(es, v.enc)
		}
		return c09Val{"[" + strings.Join(ss, ", ") + "]", "[" + strings.Join(es, ";") + "]"}
	case 1:
		return c09Obj(c, depth-1, 3)
	default:
		return c09Scalar(c)
	}
}

func c09Obj(c *Ctx, depth int, maxItems int) c09Val {
	n := c.Rng.Intn(maxItems + 1)
	ss, es := []string{}, []string{}
	uss, ues := []string{}, []string{} // `**` operands must follow the pairs
	defer func() {}()
	for i := 0; i < n; i++ {
		if depth > 0 && c.Rng.Intn(5) == 0 {
			o := c09Obj(c, depth-1, 3)
			uss = append(uss, "**"+o.src)
			ues = append(ues, "*"+o.enc)
			continue
		}
		name := c.Rng.Pick(c09Names)
		v := c09Any(c, depth-1)
		if c.Rng.Intn(4) == 0 {
			ss = append(ss, fmt.Sprintf("\"%s\": %s", name, v.src))
		} else {
			ss = append(ss, fmt.Sprintf("%s: %s", name, v.src))
		}
		es = append(es, name+"="+v.enc)
	}
	ss, es = append(ss, uss...), append(es, ues...)
	return c09Val{"{" + strings.Join(ss, ", ") + "}", "{" + strings.Join(es, ";") + "}"}
}

func c09Map(c *Ctx, depth int, maxItems int) c09Val {
	n := c.Rng.Intn(maxItems + 1)
	ss, es := []string{}, []string{}
	uss, ues := []string{}, []string{}
	for i := 0; i < n; i++ {
		if depth > 0 && c.Rng.Intn(4) == 0 {
			var o c09Val
			if c.Rng.Bool() {
				o = c09Obj(c, depth-1, 4)
			} else {
				o = c09Map(c, depth-1, 5)
			}
			uss = append(uss, "**"+o.src)
			ues = append(ues, "*"+o.enc)
			continue
		}
		k := c09Any(c, 1)
		v := c09Any(c, depth-1)
		ss = append(ss, k.src+": "+v.src)
		es = append(es, k.enc+"="+v.enc)
	}
	ss, es = append(ss, uss...), append(es, ues...)
	return c09Val{"%{" + strings.Join(ss, ", ") + "}", "%{" + strings.Join(es, ";") + "}"}
}

func c09Canon(o object.PanObject) string {
	switch v := o.(type) {
	case *object.PanNil:
		return "n"
	case *object.PanBool:
		if v == object.BuiltInTrue {
			return "T"
		}
		return "F"
	case *object.PanInt:
		return "i" + itoa(v.Value)
	case *object.PanFloat:
		return fmt.Sprintf("f%d", int64(v.Value))
	case *object.PanStr:
		return "s" + v.Value
	case *object.PanArr:
		parts := []string{}
		for _, e := range v.Elems {
			parts = append(parts, c09Canon(e))
		}
		return "[" + strings.Join(parts, ";") + "]"
	case *object.PanObj:
		parts := []string{}
		for _, h := range *v.Keys {
			p := (*v.Pairs)[h]
			parts = append(parts, p.Key.(*object.PanStr).Value+"="+c09Canon(p.Value))
		}
		for _, h := range *v.PrivateKeys {
			p := (*v.Pairs)[h]
			parts = append(parts, p.Key.(*object.PanStr).Value+"="+c09Canon(p.Value))
		}
		return "{" + strings.Join(parts, ";") + "}"
	case *object.PanMap:
		parts := []string{}
		for _, hk := range *v.HashKeys {
			p := (*v.Pairs)[hk]
			parts = append(parts, c09Canon(p.Key)+"="+c09Canon(p.Value))
		}
		for _, p := range *v.NonHashablePairs {
			parts = append(parts, c09Canon(p.Key)+"="+c09Canon(p.Value))
		}
		return "%{" + strings.Join(parts, ";") + "}"
	case *object.PanErr:
		return "err:" + string(v.ErrKind)
	case *object.PanBuiltIn, *object.PanFunc:
		return "fn"
	}
	return "val:" + safeInspect(o)
}

// small key pool with non-scalar members so that duplicates occur inside one literal, between the literal and an
// unpacked operand, and between two unpacked operands
var c09KeyPool = []c09Val{{"1", "i1"}, {"'a", "sa"}, {"nil", "n"}, {"[1, 2]", "[i1;i2]"}, {"[]", "[]"}, {"{x: 1}", "{x=i1}"}, {"{}", "{}"}, {"1.0", "f1"},
	// keys that are == but hash differently (Bool is a descendant of Int)
	{"true", "T"}, {"false", "F"}, {"0", "i0"}, {"[1, 0]", "[i1;i0]"}, {"[true, false]", "[T;F]"}, {"[true]", "[T]"}, {"[1]", "[i1]"}, {"[false]", "[F]"}, {"[0]", "[i0]"}, {"{x: true}", "{x=T}"}}

func c09PoolMap(c *Ctx, depth int) c09Val {
	ss, es := []string{}, []string{}
	for i, n := 0, c.Rng.Intn(4); i < n; i++ {
		k := c09KeyPool[c.Rng.Intn(len(c09KeyPool))]
		v := c09Scalar(c)
		ss = append(ss, k.src+": "+v.src)
		es = append(es, k.enc+"="+v.enc)
	}
	if depth > 0 {
		for i, n := 0, c.Rng.Intn(4); i < n; i++ {
			var o c09Val
			if c.Rng.Intn(4) == 0 {
				o = c09Obj(c, 0, 3)
			} else {
				o = c09PoolMap(c, depth-1)
			}
			ss = append(ss, "**"+o.src)
			es = append(es, "*"+o.enc)
		}
	}
	return c09Val{"%{" + strings.Join(ss, ", ") + "}", "%{" + strings.Join(es, ";") + "}"}
}

// splitTop splits the inside of a printed map / object at its top-level ", " separators
func splitTop(s string) []string {
	out, depth, inStr, start := []string{}, 0, false, 0
	for i := 0; i < len(s); i++ {
		ch := s[i]
		switch {
		case inStr:
			if ch == '"' {
				inStr = false
			}
		case ch == '"':
			inStr = true
		case ch == '[' || ch == '{' || ch == '(':
			depth++
		case ch == ']' || ch == '}' || ch == ')':
			depth--
		case ch == ',' && depth == 0 && i+1 < len(s) && s[i+1] == ' ':
			out = append(out, s[start:i])
			start = i + 2
		}
	}
	if start < len(s) {
		out = append(out, s[start:])
	}
	return out
}

// keys for the printing probe: several print alike (floats equal to six decimals, an int and its float)
var c09PrintKeys = []string{"0.3", "(0.1 + 0.2)", "0.0000001", "0.0000002", "1", "1.0", "1.0000001", "2.5", "'a", "\"b\"", "nil", "true", "false", "0", "0.0", "(0.0 * -1.0)",
	"[1]", "[1, 2]", "{x: 1}", "[0.3]", "[(0.1 + 0.2)]", "-1", "12", "1.5", "1.4999999"}

// c09PrintProbe (no model involved): `len`, `items` and the three printed forms of one map describe the same pairs:
// the printed form, split at its top-level separators, is the multiset of `key: value` of `items`.
func c09PrintProbe(c *Ctx) {
	n := 2 + c.Rng.Intn(5)
	parts := []string{}
	for i := 0; i < n; i++ {
		parts = append(parts, fmt.Sprintf("%s: %d", c09PrintKeys[c.Rng.Intn(len(c09PrintKeys))], 10+i))
	}
	lit := "%{" + strings.Join(parts, ", ") + "}"
	if c.Rng.Intn(3) == 0 {
		lit = "%{" + strings.Join(parts[:n/2], ", ") + ", **%{" + strings.Join(parts[n/2:], ", ") + "}}"
	}
	if !c.Mine() {
		return
	}
	src := "m := " + lit + "\n[m.items, m.len, m.S, m.repr, m]"
	o := c.It.Run(src, "")
	rec := Rec{Src: src, Impl: o.Kind, NT: true, Tags: []string{"print-probe"}}
	defer func() { c.Em.Emit(rec) }()
	arr, ok := o.Obj.(*object.PanArr)
	if o.Kind != "val" || !ok || len(arr.Elems) != 5 {
		rec.Oracle = "print probe did not evaluate: " + o.Kind + " " + o.ErrMsg
		return
	}
	items, ok1 := arr.Elems[0].(*object.PanArr)
	ln, ok2 := arr.Elems[1].(*object.PanInt)
	sS, ok3 := arr.Elems[2].(*object.PanStr)
	sR, ok4 := arr.Elems[3].(*object.PanStr)
	if !(ok1 && ok2 && ok3 && ok4) {
		rec.Oracle = "print probe gave unexpected types: " + safeInspect(o.Obj)
		return
	}
	wantI, wantR := []string{}, []string{}
	for _, it := range items.Elems {
		kv, ok := it.(*object.PanArr)
		if !ok || len(kv.Elems) != 2 {
			rec.Oracle = "items element is not a pair: " + safeInspect(it)
			return
		}
		wantI = append(wantI, kv.Elems[0].Inspect()+": "+kv.Elems[1].Inspect())
		wantR = append(wantR, kv.Elems[0].Repr()+": "+kv.Elems[1].Repr())
	}
	sort.Strings(wantI)
	sort.Strings(wantR)
	if int(ln.Value) != len(items.Elems) {
		rec.Oracle = fmt.Sprintf("len %d but items has %d pairs", ln.Value, len(items.Elems))
		return
	}
	for _, pr := range []struct {
		name, got string
		want      []string
	}{{"S", sS.Value, wantI}, {"repr", sR.Value, wantR}, {"inspect", arr.Elems[4].Inspect(), wantI}} {
		if !strings.HasPrefix(pr.got, "%{") || !strings.HasSuffix(pr.got, "}") {
			rec.Oracle = pr.name + " is not a printed map: " + pr.got
			return
		}
		got := splitTop(pr.got[2 : len(pr.got)-1])
		sort.Strings(got)
		if strings.Join(got, " | ") != strings.Join(pr.want, " | ") {
			rec.Oracle = fmt.Sprintf("%s prints the pairs %q but items reports %q", pr.name, got, pr.want)
			return
		}
	}
}

func genC09(c *Ctx) {
	n := 500
	if c.Thorough() {
		n = 9000
	}
	for i := 0; i < n; i++ {
		c09PrintProbe(c)
	}
	// Lean's sortNames puts public names (sorted) before private ones; the canonical object rendering on the Go side
	// does the same through Keys / PrivateKeys. NOTE the driver renders objects with all names sorted bytewise:
	// `_` (0x5f) sorts before lowercase letters but after digits and uppercase — names are lowercase here, so private first.
	for i := 0; i < n; i++ {
		if i%5 == 4 {
			// sources of ** stay what they were: x and y are bound to names, unpacked (first, second, with and without
			// own pairs, into objects, maps and calls), then inspected again
			x, y := c09Obj(c, 0, 4), c09Obj(c, 0, 4)
			use := []string{"{**x, **y}", "{**y, **x}", "{q: 1, **x, **y}", "%{**x, **y}", "{|a: 0, b: 0| a}(**x, **y)", "{**x, **x, **y}", "%{1: 2, **y, **x}"}[c.Rng.Intn(7)]
			pr := [][2]string{{"show", ""}, {"keysp", ".keys(private?: true)"}, {"itemsp", ".items(private?: true)"}}[c.Rng.Intn(3)]
			if c.Rng.Bool() {
				// the pair map itself (the cached key lists can be stale): index with a name, re-unpack
				nm := c.Rng.Pick(c09Names)
				pr = [2]string{"get s" + nm, "['" + nm + "]"}
			}
			which := []string{"x", "y"}[c.Rng.Intn(2)]
			enc := map[string]string{"x": x.enc, "y": y.enc}[which]
			src := "x := " + x.src + "\ny := " + y.src + "\nz := " + use + "\n" + which + pr[1]
			if !c.Mine() {
				continue
			}
			o := c.It.Run(src, "")
			impl := o.Kind
			if o.Kind == "val" || o.Kind == "err" {
				impl = c09Canon(o.Obj)
			}
			c.Em.Emit(Rec{Case: fmt.Sprintf("C09 %s 0 %s", enc, pr[0]), Impl: impl, Src: src, NT: true, Tags: []string{"source-kept", pr[0]}})
			continue
		}
		isMap := c.Rng.Bool()
		var lit c09Val
		if isMap {
			if c.Rng.Intn(3) == 0 {
				lit = c09PoolMap(c, 2)
			} else {
				lit = c09Map(c, 2, 7)
			}
		} else {
			lit = c09Obj(c, 2, 7)
		}
		probes := [][2]string{{"show", ""}, {"keys", ".keys"}, {"values", ".values"}, {"items", ".items"}, {"iter", ".A"}}
		if isMap {
			probes = append(probes, [2]string{"len", ".len"})
		} else {
			probes = append(probes, [2]string{"keysp", ".keys(private?: true)"}, [2]string{"valuesp", ".values(private?: true)"}, [2]string{"itemsp", ".items(private?: true)"})
		}
		// indexing with present, equivalent, absent and property-naming keys
		for j := 0; j < 3; j++ {
			k := c09Any(c, 1)
			if !isMap {
				k = c09Val{"'" + c.Rng.Pick(c09Names), ""}
				k.enc = "s" + k.src[1:]
			}
			if c.Rng.Intn(6) == 0 {
				nm := c.Rng.Pick([]string{"keys", "len", "values", "bear", "nothing"})
				k = c09Val{"'" + nm, "s" + nm}
			}
			probes = append(probes, [2]string{"get " + k.enc, "[" + k.src + "]"})
		}
		for _, pr := range probes {
			src := "(" + lit.src + ")" + pr[1]
			if !c.Mine() {
				continue
			}
			o := c.It.Run(src, "")
			impl := o.Kind
			if o.Kind == "val" || o.Kind == "err" {
				impl = c09Canon(o.Obj)
			}
			propHit := "0"
			if strings.HasPrefix(pr[0], "get s") {
				name := pr[0][5:]
				var proto object.PanObject = object.BuiltInObjObj
				if isMap {
					proto = object.BuiltInMapObj
				}
				if _, ok := object.FindPropAlongProtos(proto, object.GetSymHash(name)); ok {
					propHit = "1"
				}
			}
			c.Em.Emit(Rec{Case: fmt.Sprintf("C09 %s %s %s", lit.enc, propHit, pr[0]), Impl: impl, Src: src,
				NT: strings.Count(lit.enc, "=") > 1, Tags: []string{map[bool]string{true: "map", false: "obj"}[isMap], strings.Fields(pr[0])[0]}})
		}
	}
}
