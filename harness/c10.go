//go:build verif

package main

import (
	"fmt"
	"math"
	"math/big"

	"github.com/Syuparn/pangaea/evaluator"
	"github.com/Syuparn/pangaea/object"
	"github.com/Syuparn/pangaea/props"
)

func init() { registry["C10"] = genC10 }

var c10Ops = []struct{ name, sym string }{
	{"add", "+"}, {"sub", "-"}, {"mul", "*"}, {"pow", "**"}, {"div", "/"}, {"fdiv", "//"}, {"mod", "%"}, {"cmp", "<=>"},
}

func canonNum(op string, a, b int64, bnil bool, res object.PanObject, p string) string {
	if p != "" {
		return "panic"
	}
	switch r := res.(type) {
	case *object.PanInt:
		if op == "pow" && !powFits(a, b, bnil) {
			return "floatpow"
		}
		return "int:" + itoa(r.Value)
	case *object.PanFloat:
		if op == "pow" {
			return "floatpow"
		}
		return fmt.Sprintf("float:%d", math.Float64bits(r.Value))
	case *object.PanErr:
		if r.ErrKind == object.ZeroDivisionErr {
			return "zerodiv"
		}
		return "err:" + string(r.ErrKind)
	}
	return "val:" + res.Inspect()
}

func powFits(a, b int64, bnil bool) bool {
	if bnil {
		b = 1
	}
	if b < 0 {
		return false
	}
	if b > 64 && (a > 1 || a < -1) {
		return false
	}
	p := new(big.Int).Exp(big.NewInt(a), big.NewInt(b), nil)
	return p.IsInt64()
}

func genC10(c *Ctx) {
	ctn := evaluator.NewPropContainer()
	ip := props.IntProps(ctn)
	env := object.NewEnclosedEnv(c.It.base)
	fn := func(sym string) object.BuiltInFunc { return ip[sym].(*object.PanBuiltIn).Fn }

	one := func(opi int, a, b int64, bnil bool, tag string, viaSrc bool) {
		op := c10Ops[opi]
		var bobj object.PanObject = object.NewPanInt(b)
		btok := itoa(b)
		if bnil {
			bobj = object.BuiltInNil
			btok = "nil"
		}
		res, p := callBuiltIn(fn(op.sym), env, object.NewPanInt(a), bobj)
		nt := a != 0 && (bnil || b != 0)
		c.Em.Emit(Rec{Case: fmt.Sprintf("C10 %s %d %s", op.name, a, btok), Impl: canonNum(op.name, a, b, bnil, res, p), NT: nt, Tags: []string{op.name, tag, "direct"}})
		if ri, ok := res.(*object.PanInt); ok && op.name == "mod" && p == "" && !bnil && b != 0 {
			// the remainder the code returned, judged by the property's relation
			c.Em.Emit(Rec{Case: fmt.Sprintf("C10 modrel %d %d %d", a, b, ri.Value), Impl: "ok", Src: fmt.Sprintf("(%d) %% (%d) gives %d", a, b, ri.Value), NT: nt, Tags: []string{"modrel", tag}})
		}
		if viaSrc && a != math.MinInt64 && b != math.MinInt64 && !bnil {
			src := fmt.Sprintf("(%d) %s (%d)", a, op.sym, b)
			if !c.Mine() {
				return
			}
			o := c.It.Run(src, "")
			impl := o.Kind
			if o.Kind == "val" || o.Kind == "err" {
				impl = canonNum(op.name, a, b, bnil, o.Obj, "")
			}
			c.Em.Emit(Rec{Case: fmt.Sprintf("C10 %s %d %s", op.name, a, btok), Impl: impl, Src: src, NT: nt, Tags: []string{op.name, tag, "source"}})
		}
	}
	neg := func(a int64, tag string) {
		res, p := callBuiltIn(fn("-%"), env, object.NewPanInt(a))
		c.Em.Emit(Rec{Case: fmt.Sprintf("C10 neg %d", a), Impl: canonNum("neg", a, 0, false, res, p), NT: a != 0, Tags: []string{"neg", tag, "direct"}})
	}

	// history: descendants of Int that override the operators are used first in this process (the arithmetic of plain
	// ints does not depend on what other values did before)
	hist := "Odd := Int.bear({'+: m{|o| 'plus}, '-: m{|o| 'minus}, '*: m{|o| 'times}, '**: m{|o| 'pow}, '/: m{|o| 'div}, '//: m{|o| 'fdiv}, '%: m{|o| 'mod}, '<=>: m{|o| 'cmp}, '-%: m{'neg}})\n" +
		"x := Odd.new(5)\n[x + 4, x - 4, x * 4, x ** 2, x / 4, x // 4, x % 4, x <=> 8, -x]\n"
	if o := c.It.Run(hist, ""); o.Kind != "val" || o.Inspect != "[\"plus\", \"minus\", \"times\", \"pow\", \"div\", \"fdiv\", \"mod\", \"cmp\", \"neg\"]" {
		c.Em.Emit(Rec{Src: hist, Impl: o.Canon(), NT: true, Tags: []string{"history"}, Skip: "history-program-not-as-expected"})
	} else {
		c.Em.Emit(Rec{Src: hist, Impl: o.Canon(), NT: true, Tags: []string{"history"}})
	}
	// exhaustive small square
	w := int64(24)
	if c.Thorough() {
		w = 40
	}
	for a := -w; a <= w; a++ {
		neg(a, "small")
		for b := -w; b <= w; b++ {
			for i := range c10Ops {
				one(i, a, b, false, "small", c.Rng.Intn(40) == 0)
			}
		}
		for i := range c10Ops {
			one(i, a, 0, true, "nilarg", false)
		}
	}
	// boundary lattice
	lat := []int64{0, 1, -1, 2, -2, 3, -3, 7, -7, 10, 63, 64, 1 << 31, -(1 << 31), (1 << 31) - 1, 1 << 32, (1 << 53) - 1, 1 << 53, (1 << 53) + 1,
		-(1 << 53) - 1, 3037000499, 3037000500, -3037000500, 1 << 62, -(1 << 62), math.MaxInt64, math.MaxInt64 - 1, math.MinInt64, math.MinInt64 + 1, 2097151, 2097152, 55108, 1625}
	for _, a := range lat {
		neg(a, "lattice")
		for _, b := range lat {
			for i := range c10Ops {
				one(i, a, b, false, "lattice", c.Rng.Intn(20) == 0)
			}
		}
	}
	// powers whose result straddles 2^53 and 2^63
	for base := int64(-12); base <= 12; base++ {
		for e := int64(0); e <= 70; e++ {
			one(3, base, e, false, "powers", false)
		}
	}
	// random, biased to opposite signs and large magnitudes
	n := 15000
	if c.Thorough() {
		n = 600000
	}
	rnd := func() int64 {
		switch c.Rng.Intn(6) {
		case 0:
			return int64(c.Rng.Intn(2001) - 1000)
		case 1:
			return c.Rng.I64()
		case 2:
			return c.Rng.I64() >> uint(c.Rng.Intn(63))
		case 3:
			return math.MaxInt64 - int64(c.Rng.Intn(1000))
		case 4:
			return math.MinInt64 + int64(c.Rng.Intn(1000))
		default:
			return (int64(1) << uint(c.Rng.Intn(63))) + int64(c.Rng.Intn(5)-2)
		}
	}
	for k := 0; k < n; k++ {
		a, b := rnd(), rnd()
		if c.Rng.Bool() && (a < 0) == (b < 0) && b != math.MinInt64 {
			b = -b
		}
		opi := c.Rng.Intn(len(c10Ops))
		if c10Ops[opi].name == "pow" {
			b = int64(c.Rng.Intn(70)) - 3
			if c.Rng.Intn(3) == 0 {
				a = int64(c.Rng.Intn(41) - 20)
			}
		}
		one(opi, a, b, false, "random", false)
		if k%50 == 0 {
			neg(a, "random")
		}
	}
}
