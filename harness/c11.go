//go:build verif

package main

import (
	"fmt"
	"math"
	"strings"

	"github.com/Syuparn/pangaea/evaluator"
	"github.com/Syuparn/pangaea/object"
)

func init() { registry["C11"] = genC11 }

type bnd struct {
	kind string // "int", "nil", "other"
	v    int64
}

func (b bnd) tok() string {
	switch b.kind {
	case "int":
		return itoa(b.v)
	case "nil":
		return "nil"
	}
	return "other"
}
func (b bnd) obj() object.PanObject {
	switch b.kind {
	case "int":
		return object.NewPanInt(b.v)
	case "nil":
		return object.BuiltInNil
	}
	return object.NewPanStr("x")
}
func (b bnd) src() (string, bool) {
	switch b.kind {
	case "int":
		if b.v == math.MinInt64 {
			return "", false
		}
		return itoa(b.v), true
	case "nil":
		return "", true
	}
	return "'x", true
}

func c11Bounds(n int, thorough bool) []bnd {
	bs := []bnd{{kind: "nil"}}
	for v := -n - 2; v <= n+2; v++ {
		bs = append(bs, bnd{"int", int64(v)})
	}
	ext := []int64{math.MinInt64, math.MaxInt64, math.MinInt64 + 1, -(1 << 31), 1 << 31, 1 << 62, -(1 << 62)}
	if thorough {
		ext = append(ext, math.MaxInt64-1, (1<<53)+1, -(1<<53)-1, math.MaxInt64-int64(n), math.MinInt64+int64(n))
	}
	for _, v := range ext {
		bs = append(bs, bnd{"int", v})
	}
	return bs
}

// canonical rendering of a slice result whose elements are the ints 0..n-1 (positions)
func canonArrResult(res object.PanObject, panicked string) string {
	if panicked != "" {
		return "panic"
	}
	switch r := res.(type) {
	case *object.PanErr:
		if r.ErrKind == object.ValueErr {
			return "valueerr"
		}
		return "err:" + string(r.ErrKind)
	case *object.PanArr:
		parts := []string{}
		for _, e := range r.Elems {
			parts = append(parts, e.Inspect())
		}
		return "[" + strings.Join(parts, ",") + "]"
	case *object.PanStr:
		parts := []string{}
		for _, c := range []rune(r.Value) {
			parts = append(parts, itoa(int64(c)))
		}
		return "s[" + strings.Join(parts, ",") + "]"
	}
	return "val:" + res.Inspect()
}

func genC11(c *Ctx) {
	ctn := evaluator.NewPropContainer()
	arrAt := ctn["Arr_at"].(*object.PanBuiltIn).Fn
	strAt := ctn["Str_at"].(*object.PanBuiltIn).Fn
	env := object.NewEnclosedEnv(c.It.base)
	maxN := 5
	if c.Thorough() {
		maxN = 7
	}
	// ---- arrays: exhaustive window ----
	for n := 0; n <= maxN; n++ {
		elems := make([]object.PanObject, n)
		srcElems := make([]string, n)
		for i := range elems {
			elems[i] = object.NewPanInt(int64(i))
			srcElems[i] = itoa(int64(i))
		}
		arrSrc := "[" + strings.Join(srcElems, ",") + "]"
		bs := c11Bounds(n, c.Thorough())
		steps := append([]bnd{}, bs...)
		for _, a := range bs {
			for _, b := range bs {
				for _, s := range steps {
					arr := object.NewPanArr(append([]object.PanObject{}, elems...)...)
					rng := object.NewPanRange(a.obj(), b.obj(), s.obj())
					res, p := callBuiltIn(arrAt, env, arr, object.NewPanArr(rng))
					impl := canonArrResult(res, p)
					rec := Rec{
						Case: fmt.Sprintf("C11 arr %d %s %s %s", n, a.tok(), b.tok(), s.tok()),
						Impl: impl,
						NT:   n > 0 && !(s.kind == "int" && s.v == 0),
						Tags: []string{"arr", "direct"},
					}
					c.Em.Emit(rec)
					// the same through parsed source for a sample of the space
					as, ok1 := a.src()
					bsrc, ok2 := b.src()
					ss, ok3 := s.src()
					if ok1 && ok2 && ok3 && (c.Thorough() || c.Rng.Intn(8) == 0) {
						src := fmt.Sprintf("%s[%s:%s:%s]", arrSrc, as, bsrc, ss)
						if s.kind == "nil" {
							src = fmt.Sprintf("%s[%s:%s]", arrSrc, as, bsrc)
						}
						if !c.Mine() {
							continue
						}
						o := c.It.Run(src, "")
						impl2 := "?"
						switch o.Kind {
						case "val", "err":
							impl2 = canonArrResult(o.Obj, "")
						default:
							impl2 = o.Kind
						}
						c.Em.Emit(Rec{Case: rec.Case, Impl: impl2, Src: src, NT: rec.NT, Tags: []string{"arr", "source"}})
					}
				}
			}
		}
		// single index
		for _, a := range bs {
			if a.kind != "int" {
				continue
			}
			arr := object.NewPanArr(append([]object.PanObject{}, elems...)...)
			res, p := callBuiltIn(arrAt, env, arr, object.NewPanArr(a.obj()))
			impl := "panic"
			if p == "" {
				impl = res.Inspect()
			}
			c.Em.Emit(Rec{Case: fmt.Sprintf("C11 at %d %s", n, a.tok()), Impl: impl, NT: n > 0, Tags: []string{"arr", "index"}})
		}
	}
	// ---- strings: ASCII and multi-byte ----
	strs := []string{"", "a", "ab", "abc", "héllo", "日本語", "a😀b", "xyzw"}
	if c.Thorough() {
		strs = append(strs, "abcdefg", "😀😀", "añb日c", "\t\n")
	}
	for _, s := range strs {
		runes := []rune(s)
		n := len(runes)
		cps := []string{}
		for _, r := range runes {
			cps = append(cps, itoa(int64(r)))
		}
		cpTok := "-"
		if n > 0 {
			cpTok = strings.Join(cps, ",")
		}
		bs := c11Bounds(n, false)
		for _, a := range bs {
			for _, b := range bs {
				for _, st := range bs {
					if !c.Thorough() && n > 3 && c.Rng.Intn(4) != 0 {
						continue
					}
					rng := object.NewPanRange(a.obj(), b.obj(), st.obj())
					res, p := callBuiltIn(strAt, env, object.NewPanStr(s), object.NewPanArr(rng))
					c.Em.Emit(Rec{
						Case: fmt.Sprintf("C11 str %s %s %s %s", cpTok, a.tok(), b.tok(), st.tok()),
						Impl: canonArrResult(res, p),
						NT:   n > 0 && !(st.kind == "int" && st.v == 0),
						Tags: []string{"str", "direct"},
					})
				}
			}
			if a.kind == "int" {
				res, p := callBuiltIn(strAt, env, object.NewPanStr(s), object.NewPanArr(a.obj()))
				impl := "panic"
				if p == "" {
					impl = canonArrResult(res, "")
					if res == object.BuiltInNil {
						impl = "nil"
					}
				}
				c.Em.Emit(Rec{Case: fmt.Sprintf("C11 sat %s %s", cpTok, a.tok()), Impl: impl, NT: n > 0, Tags: []string{"str", "index"}})
			}
		}
	}
	// ---- random wide: longer sequences, random int64 bounds ----
	nr := 3000
	if c.Thorough() {
		nr = 60000
	}
	for k := 0; k < nr; k++ {
		n := c.Rng.Intn(40)
		elems := make([]object.PanObject, n)
		for i := range elems {
			elems[i] = object.NewPanInt(int64(i))
		}
		rb := func() bnd {
			switch c.Rng.Intn(10) {
			case 0:
				return bnd{kind: "nil"}
			case 1:
				return bnd{"int", c.Rng.I64()}
			case 2:
				return bnd{"int", math.MaxInt64 - int64(c.Rng.Intn(50))}
			case 3:
				return bnd{"int", math.MinInt64 + int64(c.Rng.Intn(50))}
			default:
				return bnd{"int", int64(c.Rng.Intn(2*n+7) - n - 3)}
			}
		}
		a, b, s := rb(), rb(), rb()
		rng := object.NewPanRange(a.obj(), b.obj(), s.obj())
		res, p := callBuiltIn(arrAt, env, object.NewPanArr(elems...), object.NewPanArr(rng))
		c.Em.Emit(Rec{
			Case: fmt.Sprintf("C11 arr %d %s %s %s", n, a.tok(), b.tok(), s.tok()),
			Impl: canonArrResult(res, p),
			NT:   n > 0 && !(s.kind == "int" && s.v == 0),
			Tags: []string{"arr", "random"},
		})
	}
	// ---- the same slice expression evaluated several times in one program with other values of its bounds (a function
	// called in a chain): bounds written as prefix / infix expressions of a parameter; every evaluation uses the
	// values of that time
	type form struct {
		src              string
		start, stop, stp func(k int64) bnd
	}
	none := func(int64) bnd { return bnd{kind: "nil"} }
	iv := func(f func(k int64) int64) func(int64) bnd { return func(k int64) bnd { return bnd{"int", f(k)} } }
	forms := []form{
		{"s[-k:]", iv(func(k int64) int64 { return -k }), none, none},
		{"s[:-k]", none, iv(func(k int64) int64 { return -k }), none},
		{"s[::-k]", none, none, iv(func(k int64) int64 { return -k })},
		{"s[+k:]", iv(func(k int64) int64 { return k }), none, none},
		{"s[k - 1:k + 2]", iv(func(k int64) int64 { return k - 1 }), iv(func(k int64) int64 { return k + 2 }), none},
		{"s[-k:-1:k]", iv(func(k int64) int64 { return -k }), iv(func(k int64) int64 { return -1 }), iv(func(k int64) int64 { return k })},
		{"s[k:]", iv(func(k int64) int64 { return k }), none, none},
		{"s[::k]", none, none, iv(func(k int64) int64 { return k })},
		{"s[(k * 2):-(k)]", iv(func(k int64) int64 { return k * 2 }), iv(func(k int64) int64 { return -k }), none},
	}
	for fi, fm := range forms {
		for _, n := range []int{0, 1, 5, 7} {
			if !c.Mine() {
				continue
			}
			es := []string{}
			for i := 0; i < n; i++ {
				es = append(es, fmt.Sprint(i))
			}
			ks := []int64{2, 4, 1, 3, 2}
			kss := []string{}
			for _, k := range ks {
				kss = append(kss, fmt.Sprint(k))
			}
			src := fmt.Sprintf("s := [%s]\ng := {|k| %s}\n[%s]@{|k| g(k)}", strings.Join(es, ", "), fm.src, strings.Join(kss, ", "))
			o := c.It.Run(src, "")
			arr, ok := o.Obj.(*object.PanArr)
			if o.Kind != "val" || !ok || len(arr.Elems) != len(ks) {
				c.Em.Emit(Rec{Src: src, Impl: o.Canon(), NT: true, Tags: []string{"arr", "reevaluated"}, Oracle: "the re-evaluated slice program did not give one result per call: " + o.Canon() + " " + o.ErrMsg})
				continue
			}
			for j, k := range ks {
				a, b, st := fm.start(k), fm.stop(k), fm.stp(k)
				c.Em.Emit(Rec{Case: fmt.Sprintf("C11 arr %d %s %s %s", n, a.tok(), b.tok(), st.tok()), Impl: canonArrResult(arr.Elems[j], ""),
					Src: src + fmt.Sprintf("   # call %d (k = %d)", j, k), NT: n > 0, Tags: []string{"arr", "reevaluated", fmt.Sprintf("form%d", fi)}})
			}
		}
	}

}
