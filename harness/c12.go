//go:build verif

package main

import (
	"fmt"
	"strings"

	"github.com/Syuparn/pangaea/object"
)

func init() { registry["C12"] = genC12 }

type c12Val struct{ desc, src string }

func c12Pool() []c12Val {
	base := []c12Val{
		{"nil", "nil"}, {"T", "true"}, {"F", "false"},
		{"i0", "0"}, {"i1", "1"}, {"i-1", "-1"}, {"i7", "7"}, {"f0", "0.0"}, {"f2", "2.0"}, {"f-3", "-3.0"},
		{"s0", "\"\""}, {"s1", "\"a\""}, {"s3", "'abc"}, {"a0", "[]"}, {"a1", "[0]"}, {"a1", "[nil]"}, {"a2", "[[], \"\"]"},
		{"o0", "{}"}, {"o1", "{a: 1}"}, {"o1", "{_p: 1}"}, {"o2", "{a: nil, b: false}"}, {"m0", "%{}"}, {"m1", "%{1: 2}"}, {"m1", "%{[]: nil}"},
		{"range", "(1:2)"}, {"range", "(0:0)"}, {"func", "{|| 1}"}, {"func", "{|x| false}"}, {"iter", "<{|i| yield i}>"},
		{"P:Int", "Int"}, {"P:Str", "Str"}, {"P:Arr", "Arr"}, {"P:Nil", "Nil"}, {"P:Float", "Float"}, {"P:Map", "Map"}, {"P:Obj", "Obj"},
		{"ob:vT", "{B: true}"}, {"ob:vF", "{B: false}"}, {"ob:v1", "{B: 1}"}, {"ob:v1", "{B: nil}"}, {"ob:v1", "{B: 'true}"},
		{"ob:mT", "{B: m{true}}"}, {"ob:mF", "{B: m{false}}"}, {"ob:mN", "{B: m{nil}}"}, {"ob:mE", "{B: m{raise Err.new(\"inB\")}}"},
		{"ob:mT", "{B: m{self.k == 1}, k: 1}"}, {"ob:mF", "{B: m{self.k == 1}, k: 2}"},
	}
	out := append([]c12Val{}, base...)
	// typed descendants made with `new` from a prototype that may define its own B:
	// the Go value is still a *PanInt / *PanStr / ..., the B found along its chain is the user's
	ubs := []struct{ desc, src string }{{"-", ""}, {"vT", "B: true"}, {"vF", "B: false"}, {"v1", "B: 1"}, {"mT", "B: m{true}"}, {"mF", "B: m{false}"}, {"mN", "B: m{nil}"}}
	typed := []struct{ proto, zero, nonzero, zdesc, ndesc string }{
		{"Int", "0", "5", "i0", "i5"}, {"Float", "0.0", "2.5", "f0", "f2"}, {"Str", "\"\"", "\"ab\"", "s0", "s2"}, {"Arr", "[]", "[1]", "a0", "a1"},
	}
	for _, t := range typed {
		for _, ub := range ubs {
			for k, payload := range []string{t.zero, t.nonzero} {
				pd := []string{t.zdesc, t.ndesc}[k]
				d := "ob:" + ub.desc
				if ub.desc == "-" {
					d = pd
				}
				out = append(out, c12Val{"tn:" + d, fmt.Sprintf("%s.bear({%s}).new(%s)", t.proto, ub.src, payload)})
			}
		}
	}
	// descendants via bear (empty and non-empty source)
	for _, b := range base {
		if b.desc == "func" || b.desc == "iter" || b.desc == "range" || b.desc == "T" || b.desc == "F" {
			continue // (`true.bear` / `false.bear` are the bool singletons themselves)
		}
		out = append(out, c12Val{"d:" + b.desc, "(" + b.src + ").bear"})
		out = append(out, c12Val{"d2:" + b.desc, "(" + b.src + ").bear({zz: 1})"})
	}
	return out
}

var c12Constructs = map[string]string{
	"ifelse": "x := (t() if cv() else e())",
	"if":     "x := (t() if cv())",
	"gret":   "x := {|| return t() if cv(); e()}()",
	"graise": "x := {|| raise Err.new(\"G\") if cv(); e()}()",
	"gyield": "x := {|| yield t() if cv(); e()}()",
	"gdefer": "x := {|| defer \"D\".p if cv(); \"B\".p; 'v}()",
	"not":    "x := !cv()",
	"and":    "x := (cv() && r())",
	"or":     "x := (cv() || r())",
	// the compound assignments are the same short-cut operators: `x ||= d` is `x := x || d`
	"orasg":  "x := cv()\nx ||= r()",
	"andasg": "x := cv()\nx &&= r()",
}

// the construct the model is asked about
var c12ModelConstruct = map[string]string{"orasg": "or", "andasg": "and"}

func genC12(c *Ctx) {
	names := []string{"ifelse", "if", "gret", "graise", "gyield", "gdefer", "not", "and", "or", "orasg", "andasg"}
	for _, v := range c12Pool() {
		for _, cn := range names {
			src := "t := {|| \"T\".p; 'then}\ne := {|| \"E\".p; 'else}\nr := {|| \"R\".p; 'right}\nc := " + v.src + "\ncv := {|| \"C\".p; c}\n" + c12Constructs[cn] + "\n"
			if !c.Mine() {
				continue
			}
			o := c.It.Run(src, "")
			lines := []string{}
			if o.Stdout != "" {
				lines = strings.Split(strings.TrimSuffix(o.Stdout, "\n"), "\n")
			}
			res := o.Kind
			switch o.Kind {
			case "err":
				res = "err:" + o.ErrKind
			case "val":
				x, _ := o.Env.Get(object.GetSymHash("x"))
				cc, _ := o.Env.Get(object.GetSymHash("c"))
				switch {
				case x == object.BuiltInTrue:
					res = "true"
				case x == object.BuiltInFalse:
					res = "false"
				case x == object.BuiltInNil:
					res = "nil"
				case x == cc:
					res = "COND"
				default:
					if s, ok := x.(*object.PanStr); ok {
						res = s.Value
					} else {
						res = "val:" + safeInspect(x)
					}
				}
			}
			mcn := cn
			if m, ok := c12ModelConstruct[cn]; ok {
				mcn = m
			}
			c.Em.Emit(Rec{Case: fmt.Sprintf("C12 %s %s", v.desc, mcn), Impl: strings.Join(lines, ",") + "=>" + res, Src: "c := " + v.src + "; " + c12Constructs[cn],
				NT: true, Tags: []string{cn, strings.SplitN(v.desc, ":", 2)[0]}})
		}
	}
}
