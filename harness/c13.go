//go:build verif

package main

import (
	"fmt"
	"strings"

	"github.com/Syuparn/pangaea/object"
)

func init() { registry["C13"] = genC13 }

var c13ErrKinds = []string{"Err", "ValueErr", "TypeErr", "ZeroDivisionErr", "NameErr", "NoPropErr", "StopIterErr", "AssertionErr", "NotImplementedErr"}

func c13StepSrc(s string) string {
	p := strings.SplitN(s, ":", 2)
	switch p[0] {
	// operator calls are written as method calls: an infix operator applied to an Either is not proxied
	case "add":
		return ".+(" + p[1] + ")"
	case "sub":
		return ".-(" + p[1] + ")"
	case "mul":
		return ".*(" + p[1] + ")"
	case "fdiv":
		return ".//(" + p[1] + ")"
	case "mod":
		return ".%(" + p[1] + ")"
	case "neg":
		return ".-%"
	case "L2":
		return ".{|x| x * 2}"
	case "Lid":
		return ".{|x| x}"
	case "Lnil":
		return ".{|x| nil}"
	case "Lnoprop":
		return ".{|x| x.nonexistent}"
	case "Lraise":
		return fmt.Sprintf(".{|x| raise %s.new(\"boom\")}", p[1])
	case "Lpair":
		return ".{|x| [x, x + 1]}"
	case "Lsum2":
		return ".{|a, b| a + b}"
	case "Lone":
		return ".{|xs| xs}"
	case "Lfirst":
		return ".{|a, b| a}"
	case "len":
		return ".len"
	case "Ltry":
		return ".{|x| x.try}"
	case "Ltryfail":
		return ".{|x| 1.try./(0)}"
	case "Sb2len":
		// a property-call step that carries a keyword argument (through the proxy): binary text and back = identity
		return ".{|x| x.S(base: 2)}.I(base: 2)"
	}
	return ""
}

func c13Canon(o object.PanObject) string {
	switch v := o.(type) {
	case *object.PanNil:
		return "nil"
	case *object.PanInt:
		return itoa(v.Value)
	case *object.PanStr:
		if v.Value == "caught" {
			return "caught"
		}
		return "s" + v.Value
	case *object.PanBool:
		return v.Inspect()
	case *object.PanArr:
		parts := []string{}
		for _, e := range v.Elems {
			parts = append(parts, c13Canon(e))
		}
		return "[" + strings.Join(parts, ",") + "]"
	case *object.PanErrWrapper:
		return string(v.ErrKind)
	case *object.PanObj:
		// an Either held as a value
		if v.Proto() == object.BuiltInEitherValObj {
			if p, ok := (*v.Pairs)[object.GetSymHash("_value")]; ok {
				return "ev(" + c13Canon(p.Value) + ")"
			}
		}
		if v.Proto() == object.BuiltInEitherErrObj {
			if p, ok := (*v.Pairs)[object.GetSymHash("_error")]; ok {
				if w, ok := p.Value.(*object.PanErrWrapper); ok {
					return "ee(" + string(w.ErrKind) + ")"
				}
			}
		}
	case *object.PanErr:
		return "raise " + string(v.ErrKind)
	}
	return "val:" + safeInspect(o)
}

func genC13(c *Ctx) {
	n := 700
	if c.Thorough() {
		n = 12000
	}
	accs := []string{"A", "val", "err", "valp", "errp", "or:9", "catch:K", "ignore:K", "abandon"}
	accSrc := map[string]string{"A": ".A", "val": ".val", "err": ".err", "valp": ".val?", "errp": ".err?", "or:9": ".or(9)", "abandon": ".abandon"}
	for i := 0; i < n; i++ {
		start := c.Rng.Intn(9) - 2
		k := c.Rng.Intn(6)
		steps := []string{}
		for j := 0; j < k; j++ {
			var s string
			switch c.Rng.Intn(12) {
			case 0, 1:
				s = fmt.Sprintf("add:%d", c.Rng.Intn(5))
			case 2:
				s = fmt.Sprintf("sub:%d", c.Rng.Intn(5))
			case 3:
				s = fmt.Sprintf("mul:%d", c.Rng.Intn(4))
			case 4:
				s = fmt.Sprintf("fdiv:%d", c.Rng.Intn(3))
			case 5:
				s = fmt.Sprintf("mod:%d", c.Rng.Intn(3))
			case 6:
				s = "neg"
			case 7:
				s = "L2"
			case 8:
				s = "Lid" // (nil results are left out: Nil has its own arithmetic props)
			case 9:
				s = "Lnoprop"
			default:
				s = "Lraise:" + c.Rng.Pick(c13ErrKinds)
			}
			steps = append(steps, s)
		}
		if k > 0 && c.Rng.Intn(5) == 0 {
			steps[c.Rng.Intn(k)] = "Sb2len"
		}
		// array-valued intermediate results: `Lpair` makes one, the following steps are those that accept an array
		// (one- and two-parameter literals, `len`) until `Lsum2` / `len` / `Lfirst` leads back to an int
		if k > 0 && c.Rng.Intn(3) == 0 {
			j := c.Rng.Intn(k)
			steps[j] = "Lpair"
			for j++; j < k; j++ {
				pick := c.Rng.Pick([]string{"Lone", "Lsum2", "len", "Lfirst", "Lone", "Lraise:" + c.Rng.Pick(c13ErrKinds)})
				steps[j] = pick
				if pick == "Lsum2" || pick == "len" || pick == "Lfirst" {
					break
				}
			}
		} else if k > 0 && c.Rng.Intn(4) == 0 {
			steps[c.Rng.Intn(k)] = c.Rng.Pick([]string{"Lsum2", "Lfirst", "Lone"}) // the same literals on an int
		}
		// a last step whose own result is an Either
		if k > 0 && c.Rng.Intn(6) == 0 && steps[k-1] != "Lnil" {
			steps[k-1] = c.Rng.Pick([]string{"Ltry", "Ltryfail"})
		}
		if k > 0 && c.Rng.Intn(6) == 0 {
			steps[k-1] = "Lnil" // a success whose value is nil (only as the last step: Nil has its own arithmetic props)
		}
		acc := c.Rng.Pick(accs)
		kind := c.Rng.Pick(c13ErrKinds)
		if c.Rng.Bool() && len(steps) > 0 {
			// favour the kind that is actually raised
			for _, s := range steps {
				if strings.HasPrefix(s, "Lraise:") {
					kind = s[7:]
				}
			}
		}
		accEnc := strings.Replace(acc, ":K", ":"+kind, 1)
		asrc := accSrc[acc]
		switch acc {
		case "catch:K":
			asrc = fmt.Sprintf(".catch(%s){|e| 'caught}.A", kind)
		case "ignore:K":
			asrc = fmt.Sprintf(".ignore(%s).A", kind)
		}
		plain := fmt.Sprint(start)
		if start < 0 {
			plain = fmt.Sprintf("(%d)", start)
		}
		wrapped := plain + ".try"
		for _, s := range steps {
			plain = "(" + plain + c13StepSrc(s) + ")"
			wrapped = "(" + wrapped + c13StepSrc(s) + ")"
		}
		if !c.Mine() {
			continue
		}
		enc := "-"
		if len(steps) > 0 {
			enc = strings.Join(steps, ";")
		}
		ow := c.It.Run(wrapped+asrc, "")
		impl := ow.Kind
		if ow.Kind == "val" || ow.Kind == "err" {
			impl = c13Canon(ow.Obj)
		}
		rec := Rec{Case: fmt.Sprintf("C13 %d %s %s", start, enc, accEnc), Impl: impl, Src: wrapped + asrc, NT: len(steps) > 1, Tags: []string{"acc-" + strings.SplitN(acc, ":", 2)[0], fmt.Sprintf("steps%d", len(steps))}}
		// direct oracle: the wrapped chain holds exactly what the plain chain yields or raises (same kind AND message)
		op := c.It.Run(plain, "")
		oa := c.It.Run(wrapped+".A", "")
		if arr, ok := oa.Obj.(*object.PanArr); ok && oa.Kind == "val" && len(arr.Elems) == 2 {
			switch op.Kind {
			case "val":
				if arr.Elems[1] != object.BuiltInNil || safeInspect(arr.Elems[0]) != op.Inspect {
					rec.Oracle = fmt.Sprintf("plain chain gives %s but the wrapped chain holds %s", op.Inspect, safeInspect(arr))
				}
			case "err":
				w, ok := arr.Elems[1].(*object.PanErrWrapper)
				if !ok || string(w.ErrKind) != op.ErrKind || w.Msg != op.ErrMsg {
					rec.Oracle = fmt.Sprintf("plain chain raises %s: %s but the wrapped chain holds %s", op.ErrKind, op.ErrMsg, safeInspect(arr))
				}
			}
		} else {
			rec.Oracle = "wrapped chain .A is not a pair: " + oa.Canon()
		}
		c.Em.Emit(rec)
		// model of the plain chain too
		pimpl := op.Kind
		if op.Kind == "val" || op.Kind == "err" {
			pimpl = c13Canon(op.Obj)
		}
		c.Em.Emit(Rec{Case: fmt.Sprintf("C13 %d %s plain", start, enc), Impl: pimpl, Src: plain, NT: len(steps) > 1, Tags: []string{"plain"}})
	}
	// ---- shared prefixes: an Either bound to a name and extended twice; every extension and the prefix itself must
	// report their own outcome (a step must not change the Either it was applied to)
	randSteps := func(k int) []string {
		out := []string{}
		for j := 0; j < k; j++ {
			switch c.Rng.Intn(8) {
			case 0, 1:
				out = append(out, fmt.Sprintf("add:%d", c.Rng.Intn(5)))
			case 2:
				out = append(out, fmt.Sprintf("mul:%d", c.Rng.Intn(4)))
			case 3:
				out = append(out, fmt.Sprintf("fdiv:%d", c.Rng.Intn(3)))
			case 4:
				out = append(out, "L2")
			case 5:
				out = append(out, "neg")
			case 6:
				out = append(out, "Lid")
			default:
				out = append(out, "Lraise:"+c.Rng.Pick(c13ErrKinds))
			}
		}
		return out
	}
	for i := 0; i < n/4; i++ {
		start := c.Rng.Intn(9) - 2
		pre, sa, sb := randSteps(c.Rng.Intn(3)), randSteps(1+c.Rng.Intn(3)), randSteps(1+c.Rng.Intn(3))
		if !c.Mine() {
			continue
		}
		chain := func(base string, steps []string) string {
			for _, s := range steps {
				base = "(" + base + c13StepSrc(s) + ")"
			}
			return base
		}
		st := fmt.Sprint(start)
		if start < 0 {
			st = fmt.Sprintf("(%d)", start)
		}
		src := "base := " + chain(st+".try", pre) + "\na := " + chain("base", sa) + "\nb := " + chain("base", sb) + "\n[a.A, b.A, base.A]\n"
		o := c.It.Run(src, "")
		parts := []string{"?", "?", "?"}
		if arr, ok := o.Obj.(*object.PanArr); ok && o.Kind == "val" && len(arr.Elems) == 3 {
			for k := range parts {
				parts[k] = c13Canon(arr.Elems[k])
			}
		} else {
			parts[0] = o.Canon()
		}
		enc := func(steps []string) string {
			if len(steps) == 0 {
				return "-"
			}
			return strings.Join(steps, ";")
		}
		for k, steps := range [][]string{append(append([]string{}, pre...), sa...), append(append([]string{}, pre...), sb...), pre} {
			c.Em.Emit(Rec{Case: fmt.Sprintf("C13 %d %s A", start, enc(steps)), Impl: parts[k], Src: src + fmt.Sprintf("# element %d", k), NT: true, Tags: []string{"shared-prefix"}})
		}
	}
	// ---- receivers other than ints (strs whose text contains the name of the step, arrays, objects with callable
	// props): the wrapped chain holds exactly what the plain chain yields or raises
	otherRecvs := []string{"\"a+b\"", "\"subway\"", "\"len\"", "\"uc\"", "\"x<y\"", "\"S\"", "\"rev\"", "\"a*b\"", "\"\"", "\"==\"", "\"at\"",
		"[3, 1, 2]", "[\"len\", \"rev\"]", "[]", "{f: {|x, y| [y]}, len: {|x| 9}}", "(1:4)", "%{'len: 1}"}
	otherSteps := []string{".+(\"c\")", ".sub(\"s\", \"t\")", ".len", ".uc", ".<(\"b\")", ".S", ".rev", ".*(2)", ".==(\"x\")", ".at(0)", ".+([4])", ".f(5)", ".A", ".repr",
		".has?(1)", ".sort", ".sum", ".keys", ".split(sep: \"+\")", ".+(\"c\").len", ".rev.len", ".uc.rev"}
	for _, rv := range otherRecvs {
		for _, st := range otherSteps {
			// names that the Either itself answers (everything Obj / Iterable / Wrappable define: A, S, repr, keys, ...)
			// are not steps of the chain
			first := strings.TrimPrefix(st, ".")
			if i := strings.IndexAny(first, "(."); i >= 0 {
				first = first[:i]
			}
			if _, own := object.FindPropAlongProtos(object.BuiltInEitherValObj, object.GetSymHash(first)); own {
				continue
			}
			if !c.Mine() {
				continue
			}
			op := c.It.Run("("+rv+")"+st, "")
			ow := c.It.Run("("+rv+").try"+st+".A", "")
			if op.Kind == "err" && op.ErrKind == "NoPropErr" {
				continue // an absent property: the known finding about the proxy's message (covered by the shapes below)
			}
			rec := Rec{Impl: ow.Canon(), Src: "(" + rv + ").try" + st, NT: true, Tags: []string{"other-receiver"}}
			good := false
			if arr, ok := ow.Obj.(*object.PanArr); ok && ow.Kind == "val" && len(arr.Elems) == 2 {
				switch op.Kind {
				case "val":
					good = arr.Elems[1] == object.BuiltInNil && safeInspect(arr.Elems[0]) == op.Inspect
				case "err":
					w, ok := arr.Elems[1].(*object.PanErrWrapper)
					good = ok && string(w.ErrKind) == op.ErrKind && w.Msg == op.ErrMsg
				}
			}
			if !good {
				rec.Oracle = fmt.Sprintf("plain call (%s)%s gives %s %s, the wrapped chain holds %s", rv, st, op.Canon(), op.ErrMsg, ow.Canon())
			}
			c.Em.Emit(rec)
		}
	}
	// ---- property-call shapes through the proxy (the known findings live here)
	shapes := []struct{ name, recv, call string }{
		{"callable property", "{f: {|x, y| [x.a, y]}, a: 1}", ".f(2)"},
		{"method property", "{g: m{|y| [self.a, y]}, a: 1}", ".g(2)"},
		{"built-in property", "[3, 1, 2]", ".len"},
		{"native property", "[3, 1, 2]", ".rev"},
		{"non-callable property", "{a: 1}", ".a"},
		{"absent property", "{a: 1}", ".zz"},
		{"absent property with args", "{a: 1}", ".zz(1)"},
		{"property served by the receiver's _missing", "{_missing: m{|name, y| [name, y]}}", ".zz(5)"},
	}
	for _, sh := range shapes {
		if !c.Mine() {
			continue
		}
		op := c.It.Run("("+sh.recv+")"+sh.call, "")
		ow := c.It.Run("("+sh.recv+").try"+sh.call+".A", "")
		rec := Rec{Impl: ow.Canon(), Src: "(" + sh.recv + ").try" + sh.call, NT: true, Tags: []string{"proxy-shape"}}
		good := false
		if arr, ok := ow.Obj.(*object.PanArr); ok && ow.Kind == "val" && len(arr.Elems) == 2 {
			switch op.Kind {
			case "val":
				good = arr.Elems[1] == object.BuiltInNil && safeInspect(arr.Elems[0]) == op.Inspect
			case "err":
				w, ok := arr.Elems[1].(*object.PanErrWrapper)
				good = ok && string(w.ErrKind) == op.ErrKind && w.Msg == op.ErrMsg
			}
		}
		if !good {
			rec.Oracle = fmt.Sprintf("try-proxied call of a %s: plain call gives %s %s, wrapped holds %s", sh.name, op.Canon(), op.ErrMsg, ow.Canon())
		}
		c.Em.Emit(rec)
	}
}
