//go:build verif

package main

import (
	"fmt"
	"strings"
)

func init() { registry["C15"] = genC15 }

// abstract statement kinds; %m is replaced by a fresh marker, %n by a small int
var c15Kinds = []string{
	"P%m", "V%n", "DP%m", "DB%k.%m", "DF", "G1P%m", "G0P%m", "G1B%k.%m", "R%n", "Q1%n", "Q0%n", "X%k.%m", "Z1%k.%m", "Z0%k.%m", "F", "Y%n",
	"C0", "C1", "DC0", "DC1", "G1C1", "W1%n", "W0%n", "Nzz%m", "XStopIterErr.%m",
}

// error kinds a body can leave with (every built-in error prototype that has a constructor)
var c15ErrKinds = []string{"Err", "StopIterErr", "ValueErr", "TypeErr", "ZeroDivisionErr", "NameErr", "NoPropErr", "AssertionErr", "NotImplementedErr", "SyntaxErr"}

var c15True = []string{"true", "1", "'a", "[0]", "(1 == 1)"}
var c15False = []string{"false", "0", "nil", "\"\"", "[]", "(1 == 2)"}

func c15Cond(c *Ctx, b byte) string {
	if b == '1' {
		return c.Rng.Pick(c15True)
	}
	return c.Rng.Pick(c15False)
}

func c15DSrc(d string) string {
	switch d[0] {
	case 'P':
		return fmt.Sprintf("%q.p", d[1:])
	case 'B':
		km := strings.SplitN(d[1:], ".", 2)
		return fmt.Sprintf("boom(%s, %q)", km[0], km[1])
	case 'F':
		return "1/0"
	case 'C':
		return "f" + d[1:] + "()"
	}
	return "nil"
}

func c15StmtSrc(c *Ctx, s string) string {
	switch s[0] {
	case 'P':
		return fmt.Sprintf("%q.p", s[1:])
	case 'V':
		return s[1:]
	case 'D':
		return "defer " + c15DSrc(s[1:])
	case 'G':
		return "defer " + c15DSrc(s[2:]) + " if " + c15Cond(c, s[1])
	case 'R':
		return "return " + s[1:]
	case 'Q':
		return "return " + s[2:] + " if " + c15Cond(c, s[1])
	case 'X':
		km := strings.SplitN(s[1:], ".", 2)
		return fmt.Sprintf("raise %s.new(%q)", km[0], km[1])
	case 'Z':
		km := strings.SplitN(s[2:], ".", 2)
		return fmt.Sprintf("raise %s.new(%q) if %s", km[0], km[1], c15Cond(c, s[1]))
	case 'W':
		return "yield " + s[2:] + " if " + c15Cond(c, s[1])
	case 'N':
		return s[1:]
	case 'F':
		return "1/0"
	case 'C':
		return "f" + s[1:] + "()"
	case 'Y':
		return "yield " + s[1:]
	}
	return "nil"
}

func c15Program(c *Ctx, fns [][]string) (string, string) {
	var sb strings.Builder
	sb.WriteString("boom := {|k, m| raise k.new(m)}\n")
	enc := []string{}
	for i, body := range fns {
		parts := []string{}
		for _, s := range body {
			parts = append(parts, c15StmtSrc(c, s))
		}
		sb.WriteString(fmt.Sprintf("f%d := {|| %s}\n", i, strings.Join(parts, "; ")))
		if len(body) == 0 {
			enc = append(enc, "-")
		} else {
			enc = append(enc, strings.Join(body, ";"))
		}
	}
	sb.WriteString(fmt.Sprintf("f%d()\n", len(fns)-1))
	return sb.String(), strings.Join(enc, "|")
}

func c15Canon(o Outcome) string {
	lines := strings.Split(strings.TrimSuffix(o.Stdout, "\n"), "\n")
	if o.Stdout == "" {
		lines = []string{}
	}
	pre := strings.Join(lines, ",") + "=>"
	switch o.Kind {
	case "val":
		return pre + "val " + o.Inspect
	case "err":
		return pre + "err " + o.ErrKind + ": " + o.ErrMsg
	}
	return pre + o.Kind
}

func c15NT(body []string) bool {
	hasDefer, hasExit := false, false
	for _, s := range body {
		if s[0] == 'D' || s[0] == 'G' {
			hasDefer = true
		}
		if strings.ContainsRune("RQXZFCWN", rune(s[0])) {
			hasExit = true
		}
	}
	return hasDefer && hasExit
}

func genC15(c *Ctx) {
	helpers := [][]string{{"Ph", "DPhd", "V5"}, {"DPkd", "Pk", "XErr.k", "DPnever"}}
	mk := 0
	inst := func(kind string) string {
		mk++
		k := strings.Replace(kind, "%m", fmt.Sprintf("m%d", mk), 1)
		k = strings.Replace(k, "%k", c.Rng.Pick(c15ErrKinds), 1)
		k = strings.Replace(k, "%n", fmt.Sprint(mk%7+1), 1)
		return k
	}
	run := func(fns [][]string, tag string) {
		src, enc := c15Program(c, fns)
		if !c.Mine() {
			return
		}
		o := c.It.Run(src, "")
		rec := Rec{Case: "C15 " + enc, Impl: c15Canon(o), Src: src, NT: c15NT(fns[len(fns)-1]), Tags: []string{tag, fmt.Sprintf("len%d", len(fns[len(fns)-1]))}}
		if o.Kind == "fuel" {
			rec.Skip = "fuel"
		}
		c.Em.Emit(rec)
	}
	maxN := 2
	if c.Thorough() {
		maxN = 3
	}
	// exhaustive: all bodies up to maxN statements over the kind alphabet
	var rec func(prefix []string, n int)
	rec = func(prefix []string, n int) {
		run(append(append([][]string{}, helpers...), prefix), "exhaustive")
		if n == 0 {
			return
		}
		for _, k := range c15Kinds {
			mk = len(prefix) * 10
			rec(append(append([]string{}, prefix...), inst(k)), n-1)
		}
	}
	rec([]string{}, maxN)
	// random: longer bodies, deeper nesting (functions may call any earlier function)
	n := 2500
	if c.Thorough() {
		n = 40000
	}
	for i := 0; i < n; i++ {
		nf := 2 + c.Rng.Intn(3)
		fns := [][]string{}
		mk = 0
		for f := 0; f < nf; f++ {
			ln := c.Rng.Intn(7)
			body := []string{}
			for j := 0; j < ln; j++ {
				k := c.Rng.Pick(c15Kinds)
				if strings.Contains(k, "C") {
					if f == 0 {
						k = "P%m"
					} else {
						idx := c.Rng.Intn(f)
						k = strings.Replace(strings.Replace(k, "C0", fmt.Sprintf("C%d", idx), 1), "C1", fmt.Sprintf("C%d", idx), 1)
					}
				}
				body = append(body, inst(k))
			}
			fns = append(fns, body)
		}
		run(fns, "random")
	}
	// defer-heavy bodies: most statements are defers, many of them nested calls of functions that register several
	// defers of their own while the caller still has pending ones
	heavy := []string{"DP%m", "DP%m", "DC0", "DC1", "DC0", "G1P%m", "G1C1", "G0P%m", "P%m", "C0", "DB%k.%m", "DF"}
	nh := 600
	if c.Thorough() {
		nh = 8000
	}
	for i := 0; i < nh; i++ {
		nf := 2 + c.Rng.Intn(3)
		fns := [][]string{}
		mk = 0
		for f := 0; f < nf; f++ {
			ln := 2 + c.Rng.Intn(5)
			body := []string{}
			for j := 0; j < ln; j++ {
				k := c.Rng.Pick(heavy)
				if strings.Contains(k, "C") {
					if f == 0 {
						k = "DP%m"
					} else {
						idx := c.Rng.Intn(f)
						k = strings.Replace(strings.Replace(k, "C0", fmt.Sprintf("C%d", idx), 1), "C1", fmt.Sprintf("C%d", idx), 1)
					}
				}
				body = append(body, inst(k))
			}
			fns = append(fns, body)
		}
		run(fns, "defer-heavy")
	}
	// long bodies (60..72 statements) with defers among the last statements
	for i := 0; i < 24; i++ {
		mk = 0
		ln := 60 + c.Rng.Intn(13)
		body := []string{}
		for j := 0; j < ln; j++ {
			k := "V%n"
			if j%9 == 0 {
				k = "P%m"
			}
			if j >= 58 && c.Rng.Intn(2) == 0 || j == 0 || j == 63 || j == 64 || j == 65 {
				k = c.Rng.Pick([]string{"DP%m", "G1P%m", "DP%m", "DC0"})
			}
			body = append(body, inst(k))
		}
		if i%3 == 0 {
			body = append(body, inst(c.Rng.Pick([]string{"R%n", "XErr.%m", "F"})))
		}
		run([][]string{{"DPhd", "Ph"}, body}, "long-body")
	}
}
