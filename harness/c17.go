//go:build verif

package main

import (
	"fmt"
	"math"
	"math/big"
	"strconv"
	"strings"

	"github.com/Syuparn/pangaea/object"
)

func init() { registry["C17"] = genC17 }

// insert `_` separators between digits (never leading or trailing)
func c17Sep(c *Ctx, digits string) string {
	if len(digits) < 2 || c.Rng.Intn(3) > 0 {
		return digits
	}
	var sb strings.Builder
	for i, ch := range digits {
		sb.WriteRune(ch)
		if i < len(digits)-1 && c.Rng.Intn(3) == 0 {
			sb.WriteString(strings.Repeat("_", 1+c.Rng.Intn(2)))
		}
	}
	return sb.String()
}

func c17LitOutcome(o Outcome) string {
	switch o.Kind {
	case "val":
		if i, ok := o.Obj.(*object.PanInt); ok {
			return "ok " + itoa(i.Value)
		}
		return "val:" + o.Inspect
	case "syntax":
		return "err"
	}
	return o.Kind
}

func genC17(c *Ctx) {
	// ---------- small literals after a history of other values in this process (negative ints, floats, strs made by
	// arithmetic): a literal has its mathematical value whatever was computed before
	if c.Shard == 0 || c.Shards <= 1 {
		hist := "a := (1:300)@{|k| 0 - k}\nb := [3 <=> 5, 1.5 * 2, \"x\" + \"y\", 0 - 256, 255 - 511]\n[a.len, b.len]\n"
		h := c.It.Run(hist, "")
		c.Em.Emit(Rec{Src: hist, Impl: h.Canon(), NT: true, Tags: []string{"literal-history"}})
		for v := 0; v <= 600; v++ {
			for _, form := range []string{"%d", "0x%x", "0o%o", "0b%b", "%de0"} {
				src := fmt.Sprintf(form, v)
				o := c.It.Run(src, "")
				rec := Rec{Src: src, Impl: o.Canon(), NT: true, Tags: []string{"literal-history"}}
				if iv, ok := o.Obj.(*object.PanInt); !ok || o.Kind != "val" || iv.Value != int64(v) {
					rec.Oracle = fmt.Sprintf("the literal %s evaluates to %s (after negative ints were computed in this process)", src, o.Canon())
				}
				c.Em.Emit(rec)
			}
		}
	}
	// ---------- integer literals in four bases
	bases := []struct {
		base   int
		prefix string
	}{{10, ""}, {16, "0x"}, {16, "0X"}, {8, "0o"}, {2, "0b"}}
	interesting := []*big.Int{}
	for _, s := range []string{"0", "1", "7", "8", "255", "4294967295", "4294967296", "9007199254740991", "9007199254740992", "9007199254740993",
		"9223372036854775806", "9223372036854775807", "9223372036854775808", "9223372036854775809", "18446744073709551615", "18446744073709551616", "99999999999999999999", "340282366920938463463374607431768211456"} {
		v, _ := new(big.Int).SetString(s, 10)
		interesting = append(interesting, v)
	}
	n := 400
	if c.Thorough() {
		n = 8000
	}
	for i := 0; i < n; i++ {
		var v *big.Int
		switch c.Rng.Intn(4) {
		case 0:
			v = interesting[c.Rng.Intn(len(interesting))]
		case 1:
			v = new(big.Int).SetUint64(c.Rng.U64())
		case 2:
			v = new(big.Int).Add(new(big.Int).SetUint64(math.MaxInt64-5), big.NewInt(int64(c.Rng.Intn(11))))
		default:
			v = big.NewInt(int64(c.Rng.Intn(100000)))
		}
		b := bases[c.Rng.Intn(len(bases))]
		digits := v.Text(b.base)
		if c.Rng.Bool() {
			digits = strings.ToUpper(digits)
		}
		if c.Rng.Intn(5) == 0 {
			digits = strings.Repeat("0", 1+c.Rng.Intn(3)) + digits
		}
		lit := c17Sep(c, digits)
		src := b.prefix + lit
		if !c.Mine() {
			continue
		}
		o := c.It.Run(src, "")
		c.Em.Emit(Rec{Case: fmt.Sprintf("C17 int %d %s", b.base, cps(lit)), Impl: c17LitOutcome(o), Src: src, NT: v.BitLen() > 8, Tags: []string{"int", fmt.Sprintf("base%d", b.base)}})
	}
	// ---------- exponent-form integers
	for i := 0; i < n/2; i++ {
		mant := big.NewInt(int64(c.Rng.Intn(1000)))
		if c.Rng.Intn(3) == 0 {
			mant = interesting[c.Rng.Intn(12)]
		}
		exp := c.Rng.Intn(22)
		neg := c.Rng.Intn(4) == 0
		m := c17Sep(c, mant.String())
		e := strconv.Itoa(exp)
		if neg && c.Rng.Bool() {
			// exact division case
			m = m + strings.Repeat("0", exp)
		}
		sign := "+"
		src := m + c.Rng.Pick([]string{"e", "E"}) + e
		if neg {
			sign = "-"
			src = m + "e-" + e
		}
		if !c.Mine() {
			continue
		}
		o := c.It.Run(src, "")
		c.Em.Emit(Rec{Case: fmt.Sprintf("C17 expint %s %s %s", cps(m), sign, cps(e)), Impl: c17LitOutcome(o), Src: src, NT: exp > 0, Tags: []string{"expint"}})
	}
	// ---------- float literals: nearest float to the written decimal (oracle: strconv.ParseFloat, correctly rounded)
	for i := 0; i < n/2; i++ {
		ip := strconv.Itoa(c.Rng.Intn(100000))
		fp := strconv.Itoa(c.Rng.Intn(1000000))
		if c.Rng.Intn(4) == 0 {
			fp = "0000" + fp
		}
		src := c17Sep(c, ip) + "." + c17Sep(c, fp)
		plain := ip + "." + fp
		if c.Rng.Bool() {
			e := c.Rng.Intn(80) - 40
			src += "e" + strconv.Itoa(e)
			plain += "e" + strconv.Itoa(e)
		}
		if !c.Mine() {
			continue
		}
		want, err := strconv.ParseFloat(plain, 64)
		o := c.It.Run(src, "")
		rec := Rec{Impl: o.Canon(), Src: src, NT: true, Tags: []string{"float"}}
		if f, ok := o.Obj.(*object.PanFloat); !ok || err != nil || math.Float64bits(f.Value) != math.Float64bits(want) {
			rec.Oracle = fmt.Sprintf("float literal %s is not the nearest float %v", src, want)
		}
		c.Em.Emit(rec)
	}
	// ---------- float literals just beside the midpoint of two neighbouring floats (where an intermediate rounding to
	// more than 53 bits followed by a second rounding goes the wrong way); written with 45 significant digits
	for i := 0; i < n/2; i++ {
		f := math.Float64frombits(uint64(0x3000000000000000) + uint64(c.Rng.Intn(1<<30))<<32 + uint64(c.Rng.Intn(1<<30)) + uint64(c.Rng.Intn(4)))
		if math.IsInf(f, 0) || math.IsNaN(f) || f == 0 {
			continue
		}
		next := math.Nextafter(f, math.Inf(1))
		mid := new(big.Float).SetPrec(300).Add(new(big.Float).SetPrec(300).SetFloat64(f), new(big.Float).SetPrec(300).SetFloat64(next))
		mid.Quo(mid, big.NewFloat(2))
		eps := new(big.Float).SetPrec(300).Mul(mid, new(big.Float).SetPrec(300).SetMantExp(big.NewFloat(1), -70-c.Rng.Intn(20)))
		if c.Rng.Bool() {
			mid.Add(mid, eps)
		} else {
			mid.Sub(mid, eps)
		}
		plain := strings.Replace(mid.Text('e', 44), "e+", "e", 1)
		if !strings.Contains(plain, ".") || !c.Mine() {
			continue
		}
		want, err := strconv.ParseFloat(plain, 64)
		o := c.It.Run(plain, "")
		rec := Rec{Impl: o.Canon(), Src: plain, NT: true, Tags: []string{"float", "float-midpoint"}}
		if fv, ok := o.Obj.(*object.PanFloat); !ok || err != nil || math.Float64bits(fv.Value) != math.Float64bits(want) {
			rec.Oracle = fmt.Sprintf("float literal %s is not the nearest float %v", plain, want)
		}
		c.Em.Emit(rec)
	}
	// ---------- double-quoted strings
	pieces := []string{"a", "Z", " ", "é", "日", "😀", "'", "#", "{", "}", "\\n", "\\t", "\\r", "\\\\", "\\\"", "\\a", "\\b", "\\f", "\\v",
		"\\d", "\\q", "\\z", "\\'", "\\ ", "\\s", "\\e", "\\N", "\\-", "\\?",
		// escapes with a numeric payload (bytes, code points; some malformed): decided by the direct oracle below
		"\\x41", "\\xe3\\x81\\x82", "\\xff", "\\xc3\\xa9", "\\x80", "\\101", "\\377", "\\200", "\\u00e9", "\\u3042", "\\U0001F600", "\\x4", "\\400", "\\u12", "\\UFFFFFFFF"}
	for i := 0; i < n; i++ {
		ln := c.Rng.Intn(8)
		var sb strings.Builder
		bad := false
		for j := 0; j < ln; j++ {
			p := c.Rng.Pick(pieces)
			if len(p) > 2 && p[0] == '\\' {
				if c.Rng.Intn(3) > 0 {
					continue
				}
			} else if len(p) == 2 && p[0] == '\\' && !strings.ContainsAny(p[1:], "ntr\\\"abfv") {
				if bad || c.Rng.Intn(3) > 0 {
					continue // at most one undefined escape, and not in most strings
				}
				bad = true
			}
			sb.WriteString(p)
		}
		body := strings.Replace(sb.String(), "#{", "#", -1)
		src := "\"" + body + "\""
		if !c.Mine() {
			continue
		}
		o := c.It.Run(src, "")
		impl := o.Kind
		switch o.Kind {
		case "val":
			if s, ok := o.Obj.(*object.PanStr); ok {
				impl = "ok " + cps(s.Value)
			}
		case "syntax":
			impl = "err"
		}
		rec := Rec{Case: "C17 str " + cps(body), Impl: impl, Src: src, NT: strings.Contains(body, "\\"), Tags: []string{"str", fmt.Sprintf("undefined-escape-%v", bad)}}
		if strings.Contains(body, "\\x") || strings.Contains(body, "\\u") || strings.Contains(body, "\\U") || numericOctal(body) {
			// numeric escapes are outside the Lean model: the reference is Go's strconv.Unquote (byte-exact)
			rec.Case = ""
			rec.Tags = append(rec.Tags, "numeric-escape")
			want, err := strconv.Unquote(src)
			switch {
			case err != nil && o.Kind != "syntax":
				rec.Oracle = fmt.Sprintf("malformed escape accepted: %s", impl)
			case err == nil && o.Kind != "val":
				rec.Oracle = fmt.Sprintf("well-formed literal rejected: %s %s", o.Kind, o.ErrMsg)
			case err == nil:
				if sv, ok := o.Obj.(*object.PanStr); !ok || sv.Value != want {
					rec.Oracle = fmt.Sprintf("string literal denotes %q, not %q", safeInspect(o.Obj), want)
				}
			}
		}
		c.Em.Emit(rec)
	}
	// ---------- names
	kws := []string{"if", "else", "return", "raise", "yield", "defer"}
	names := []string{}
	for _, k := range kws {
		names = append(names, k, k+"fy", k+"s", k+"_x", k+"1", k+"?", k+"!", k+"If", strings.ToUpper(k), "x"+k, k+k)
	}
	// every character of the pattern occurs in a non-initial position (and every letter initially)
	for _, ch := range "abcdefghijklmnopqrstuvwxyzABCDEFGHIJKLMNOPQRSTUVWXYZ0123456789_" {
		names = append(names, "x"+string(ch), "q"+string(ch)+"z?")
		if (ch < '0' || ch > '9') && ch != '_' {
			names = append(names, string(ch)+"w")
		}
	}
	alpha := "abcdefghijklmnopqrstuvwxyzABCDEFGHIJKLMNOPQRSTUVWXYZ"
	rest := alpha + "0123456789_"
	for i := 0; i < n/2; i++ {
		var sb strings.Builder
		sb.WriteByte(alpha[c.Rng.Intn(len(alpha))])
		ln := c.Rng.Intn(9)
		if c.Rng.Intn(6) == 0 {
			sb.Reset()
			sb.WriteString(c.Rng.Pick(kws))
		}
		for j := 0; j < ln; j++ {
			sb.WriteByte(rest[c.Rng.Intn(len(rest))])
		}
		if c.Rng.Intn(5) == 0 {
			sb.WriteString(c.Rng.Pick([]string{"!", "?"}))
		}
		names = append(names, sb.String())
	}
	// names of the documented pattern that begin with underscores (private identifiers): direct oracle only
	under := []string{"_x", "__y", "_x1", "_a?", "__", "_if", "_1", "__2x", "_9", "_0a!", "___7_"}
	for _, name := range under {
		if !c.Mine() {
			continue
		}
		v := c.It.Run(fmt.Sprintf("%s := 7; %s", name, name), "")
		p := c.It.Run(fmt.Sprintf("{%s: 7}.%s", name, name), "")
		s := c.It.Run(fmt.Sprintf("'%s", name), "")
		ok := v.Kind == "val" && v.Inspect == "7" && p.Kind == "val" && p.Inspect == "7" && s.Kind == "val"
		rec := Rec{Impl: fmt.Sprintf("works=%v", ok), Src: "name " + name, NT: true, Tags: []string{"name-underscore"}}
		if !ok {
			rec.Oracle = "name " + name + " matches the documented identifier pattern but is not accepted as variable, property and symbol"
		}
		c.Em.Emit(rec)
	}
	for _, name := range names {
		if !c.Mine() {
			continue
		}
		v := c.It.Run(fmt.Sprintf("%s := 7; %s", name, name), "")
		p := c.It.Run(fmt.Sprintf("{%s: 7}.%s", name, name), "")
		s := c.It.Run(fmt.Sprintf("'%s", name), "")
		asVar := v.Kind == "val" && v.Inspect == "7"
		asProp := p.Kind == "val" && p.Inspect == "7"
		asSym := false
		if st, ok := s.Obj.(*object.PanStr); ok && s.Kind == "val" && st.Value == name {
			asSym = true
		}
		if asVar && asProp && asSym {
			// "works as a property and symbol" in full: the property is listed under its name (publicly unless the name
			// starts with `_`), can be indexed by the symbol, the symbol says it is one and can be called as an accessor
			want := fmt.Sprintf("[[%q], 7, true, 7]", name)
			if strings.HasPrefix(name, "_") {
				want = fmt.Sprintf("[[], 7, true, 7]")
			}
			u := c.It.Run(fmt.Sprintf("o := {%s: 7}\n[o.keys, o['%s], '%s.sym?, '%s(o)]", name, name, name, name), "")
			if u.Kind != "val" || u.Inspect != want {
				asProp, asSym = false, false
				c.Em.Emit(Rec{Src: "name " + name, Impl: u.Canon(), NT: true, Tags: []string{"name-uses"},
					Oracle: fmt.Sprintf("name %s does not work as a property and symbol in full: [o.keys, o['%s], '%s.sym?, '%s(o)] gives %s %s, expected %s", name, name, name, name, u.Canon(), u.ErrMsg, want)})
			}
		}
		impl := fmt.Sprintf("var=%v prop=%v sym=%v", asVar, asProp, asSym)
		switch {
		case asVar && asProp && asSym:
			impl = "ident"
		case v.Kind == "syntax" && !asVar:
			impl = "reserved"
			// a reserved word is still usable as a symbol and as a property name of a literal? not required: only variables are checked
		}
		c.Em.Emit(Rec{Case: "C17 name " + cps(name), Impl: impl, Src: name, NT: true, Tags: []string{"name"}})
	}
}

// numericOctal reports whether the body contains a backslash followed by an octal digit
func numericOctal(body string) bool {
	for i := 0; i+1 < len(body); i++ {
		if body[i] == '\\' {
			if body[i+1] >= '0' && body[i+1] <= '7' {
				return true
			}
			i++
		}
	}
	return false
}
