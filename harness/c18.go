//go:build verif

package main

import (
	"fmt"
	"strings"

	"github.com/Syuparn/pangaea/object"
)

func init() { registry["C18"] = genC18 }

type c18Val struct {
	src string
	enc string // "" = outside the modelled core (direct laws only)
	fam string // "int", "flt", "str" or ""
	key string // payload within the family (for the known-finding description)
	p   int    // prototype class
}

const c18Prelude = "MyInt := Int.bear\nYourInt := Int.bear\nMyFloat := Float.bear\nMyStr := Str.bear\nMyArr := Arr.bear\nfn1 := {|x| x}\nfn2 := {|x| x}\n"

func c18Pool(thorough bool) []c18Val {
	vs := []c18Val{}
	for _, k := range []int{-1, 0, 1, 2} {
		vs = append(vs, c18Val{fmt.Sprint(k), fmt.Sprintf("i0_%d", k), "int", fmt.Sprint(k), 0})
	}
	// magnitudes whose difference does not fit in 64 bits
	for _, k := range []string{"9223372036854775807", "-9223372036854775807", "5000000000000000000", "-5000000000000000000"} {
		vs = append(vs, c18Val{"(" + k + ")", "i0_" + k, "int", k, 0})
	}
	vs = append(vs, c18Val{"MyInt.new(9223372036854775807)", "i1_9223372036854775807", "int", "9223372036854775807", 1})
	for _, k := range []int{0, 1, 2} {
		vs = append(vs, c18Val{fmt.Sprintf("MyInt.new(%d)", k), fmt.Sprintf("i1_%d", k), "int", fmt.Sprint(k), 1})
	}
	vs = append(vs, c18Val{"YourInt.new(1)", "i2_1", "int", "1", 2}, c18Val{"true", "T", "int", "1", 0}, c18Val{"false", "F", "int", "0", 0})
	for _, h := range []int{0, 1, 5, -3} {
		vs = append(vs, c18Val{fmt.Sprintf("%g", float64(h)/2) + map[bool]string{true: ".0", false: ""}[h%2 == 0], fmt.Sprintf("f0_%d", h), "flt", fmt.Sprint(h), 0})
	}
	vs = append(vs, c18Val{"MyFloat.new(2.5)", "f1_5", "flt", "5", 1}, c18Val{"MyFloat.new(0.0)", "f1_0", "flt", "0", 1})
	// negative zero: the same number as 0.0 in == and in the order
	vs = append(vs, c18Val{"(0.0 * -1.0)", "f0_0", "flt", "0", 0}, c18Val{"MyFloat.new(0.0 * -1.0)", "f1_0", "flt", "0", 1})
	// (multi-byte characters: the order is that of the code points, the same as the bytewise order of UTF-8)
	for _, s := range []string{"", "a", "b", "ab", "B", "é", "héllo", "héllp", "hé", "日本", "日本語", "añb", "z"} {
		vs = append(vs, c18Val{fmt.Sprintf("%q", s), "s0_" + s, "str", s, 0})
	}
	// long strs (32 bytes and more) that differ in a single character at several positions
	long := "thequickbrownfoxjumpsoverthelazydogandrunsawayfromthefarmerswife0123456789"
	for _, ln := range []int{31, 32, 33, 43, 64, 74} {
		b := long[:ln]
		vs = append(vs, c18Val{fmt.Sprintf("%q", b), "s0_" + b, "str", b, 0})
		for _, pos := range []int{3, ln / 2, ln - 2} {
			m := b[:pos] + "Z" + b[pos+1:]
			vs = append(vs, c18Val{fmt.Sprintf("%q", m), "s0_" + m, "str", m, 0})
		}
	}
	vs = append(vs, c18Val{"MyStr.new(\"a\")", "s1_a", "str", "a", 1}, c18Val{"MyStr.new(\"\")", "s1_", "str", "", 1}, c18Val{"MyStr.new(\"héllo\")", "s1_héllo", "str", "héllo", 1})
	vs = append(vs, c18Val{src: "nil", enc: "n"})
	vs = append(vs,
		c18Val{src: "[]", enc: "[]"}, c18Val{src: "[1]", enc: "[i0_1]"}, c18Val{src: "[1, 2]", enc: "[i0_1;i0_2]"}, c18Val{src: "[[1], \"a\"]", enc: "[[i0_1];s0_a]"},
		c18Val{src: "[MyInt.new(1)]", enc: "[i1_1]"}, c18Val{src: "[true]", enc: "[T]"}, c18Val{src: "[nil]", enc: "[n]"},
		c18Val{src: "{}", enc: "{}"}, c18Val{src: "{a: 1}", enc: "{a=i0_1}"}, c18Val{src: "{a: 1, b: [2]}", enc: "{a=i0_1;b=[i0_2]}"}, c18Val{src: "{b: [2], a: 1}", enc: "{b=[i0_2];a=i0_1}"},
		c18Val{src: "{a: {b: nil}}", enc: "{a={b=n}}"}, c18Val{src: "{a: true}", enc: "{a=T}"}, c18Val{src: "{_p: 1}", enc: "{_p=i0_1}"},
	)
	// outside the modelled core: direct laws only
	for _, s := range []string{"%{}", "%{1: 2}", "%{[1]: 'a, 2: 3}", "%{[1]: 1}", "%{1: 2, [1]: 1}", "%{1: 2, {x: 1}: 3}", "%{'a: 1}", "%{'a: 1, []: 2}", "%{2: 3, [1]: 'a}",
		"(1:2)", "(1:2:3)", "(nil:nil)", "fn1", "fn2", "1.try", "2.try", "\"a\".try", "{a: 1}.bear", "{a: 1}.bear({b: 2})", "MyArr.new([1])", "[1.try]",
		"{|x| x}", "<{|i| yield i}>", "1.try.fmap {|x| x / 0}", "\"x\".try.fmap {|x| x.nonexistent}"} {
		vs = append(vs, c18Val{src: s})
	}
	return vs
}

var c18Ops = []struct{ name, sym string }{{"eq", "=="}, {"ne", "!="}, {"cmp", "<=>"}, {"lt", "<"}, {"le", "<="}, {"gt", ">"}, {"ge", ">="}}

func genC18(c *Ctx) {
	pool := c18Pool(c.Thorough())
	env := object.NewEnclosedEnv(c.It.base)
	var sb strings.Builder
	sb.WriteString(c18Prelude)
	for i, v := range pool {
		sb.WriteString(fmt.Sprintf("v%d := %s\n", i, v.src))
	}
	if o := c.It.RunIn(env, sb.String(), "", 1000000); o.Kind != "val" {
		c.Em.Emit(Rec{Impl: o.Canon(), Src: "pool setup", Oracle: "pool setup failed: " + o.Canon() + " " + o.ErrMsg, NT: true, Tags: []string{"setup"}})
		return
	}
	n := len(pool)
	res := map[string][][]string{}
	run := func(src string) string {
		o := c.It.RunIn(env, src, "", defaultFuel)
		switch o.Kind {
		case "val":
			return o.Inspect
		case "err":
			return "err:" + o.ErrKind
		}
		return o.Kind
	}
	for _, op := range c18Ops {
		tbl := make([][]string, n)
		for i := range tbl {
			tbl[i] = make([]string, n)
			for j := range tbl[i] {
				tbl[i][j] = run(fmt.Sprintf("v%d %s v%d", i, op.sym, j))
			}
		}
		res[op.name] = tbl
	}
	// ---- correspondence with the model on the core pool
	for _, op := range c18Ops {
		for i, x := range pool {
			for j, y := range pool {
				if x.enc == "" || y.enc == "" {
					continue
				}
				impl := res[op.name][i][j]
				if strings.HasPrefix(impl, "err:") {
					impl = "unsupported"
				}
				c.Em.Emit(Rec{Case: fmt.Sprintf("C18 %s %s %s", op.name, x.enc, y.enc), Impl: impl, Src: fmt.Sprintf("%s %s %s", x.src, op.sym, y.src),
					NT: i != j, Tags: []string{op.name, "core"}})
			}
		}
	}
	// ---- direct laws on the whole pool
	law := func(ok bool, name, detail string, tag string) {
		rec := Rec{Impl: fmt.Sprint(ok), Src: name + ": " + detail, NT: true, Tags: []string{"law", tag}}
		if !ok {
			rec.Oracle = name + ": " + detail
		}
		c.Em.Emit(rec)
	}
	eq, ne := res["eq"], res["ne"]
	for i, x := range pool {
		law(eq[i][i] == "true", "reflexivity", x.src+" == itself gives "+eq[i][i], "refl")
		for j, y := range pool {
			if i < j {
				law(eq[i][j] == eq[j][i], "symmetry", fmt.Sprintf("(%s == %s) = %s but (%s == %s) = %s", x.src, y.src, eq[i][j], y.src, x.src, eq[j][i]), "symm")
			}
			neg := map[string]string{"true": "false", "false": "true"}[eq[i][j]]
			law(ne[i][j] == neg, "negation", fmt.Sprintf("(%s != %s) = %s but == gives %s", x.src, y.src, ne[i][j], eq[i][j]), "neg")
			if x.fam != "" && x.fam == y.fam {
				lt, gt, le, ge, cmp := res["lt"][i][j], res["gt"][i][j], res["le"][i][j], res["ge"][i][j], res["cmp"][i][j]
				cnt := 0
				for _, r := range []string{lt, eq[i][j], gt} {
					if r == "true" {
						cnt++
					}
				}
				if cnt != 1 {
					if x.p != y.p && x.key == y.key && cnt == 0 {
						law(false, "trichotomy: none of <, ==, > holds for values of different prototypes with the same payload", fmt.Sprintf("%s vs %s", x.src, y.src), "trichotomy")
					} else {
						law(false, "trichotomy", fmt.Sprintf("%s vs %s: < %s, == %s, > %s", x.src, y.src, lt, eq[i][j], gt), "trichotomy")
					}
				} else {
					law(true, "trichotomy", "", "trichotomy")
				}
				or := func(a, b string) string {
					if a == "true" || b == "true" {
						return "true"
					}
					return "false"
				}
				// `<=` is `<` or "same position in the order" (<=> is 0)
				same := "false"
				if cmp == "0" {
					same = "true"
				}
				law(le == or(lt, same) && ge == or(gt, same), "unions", fmt.Sprintf("%s vs %s: <= %s, >= %s, < %s, > %s, <=> %s", x.src, y.src, le, ge, lt, gt, cmp), "unions")
				neg := map[string]string{"-1": "1", "0": "0", "1": "-1"}
				law(res["cmp"][j][i] == neg[cmp], "antisymmetry of <=>", fmt.Sprintf("%s <=> %s = %s, reversed %s", x.src, y.src, cmp, res["cmp"][j][i]), "antisym")
				// max / min / between? / clip agree with the order
				mx := run(fmt.Sprintf("[v%d, v%d].max == (v%d if v%d >= v%d else v%d)", i, j, i, i, j, j))
				mn := run(fmt.Sprintf("[v%d, v%d].min == (v%d if v%d <= v%d else v%d)", i, j, i, i, j, j))
				law(mx == "true" && mn == "true", "max/min", fmt.Sprintf("%s, %s: max ok %s min ok %s", x.src, y.src, mx, mn), "maxmin")
				for k, z := range pool {
					if z.fam != x.fam || (k+i+j)%3 != 0 {
						continue
					}
					if res["le"][i][j] == "true" && res["le"][j][k] == "true" {
						law(res["le"][i][k] == "true", "transitivity", fmt.Sprintf("%s <= %s <= %s but not %s <= %s", x.src, y.src, z.src, x.src, z.src), "trans")
					}
					bt := run(fmt.Sprintf("v%d.between?(v%d, v%d)", k, i, j))
					want := "false"
					if res["le"][i][k] == "true" && res["le"][k][j] == "true" {
						want = "true"
					}
					law(bt == want, "between?", fmt.Sprintf("%s.between?(%s, %s) = %s, order says %s", z.src, x.src, y.src, bt, want), "between")
					if res["le"][i][j] == "true" {
						cl := run(fmt.Sprintf("v%d.clip(v%d, v%d) == ([[v%d, v%d].max, v%d].min)", k, i, j, k, i, j))
						law(cl == "true", "clip", fmt.Sprintf("%s.clip(%s, %s)", z.src, x.src, y.src), "clip")
					}
				}
			}
		}
	}
	// ---- the same answers after a long history of comparisons in this process (many unequal and equal comparisons of
	// containers and scalars): every value still equals itself and a sample of the table is unchanged
	histSrc := "h1 := (1:1500)@{|i| [i] == [0]}\nh2 := (1:1500)@{|i| {a: i} == {a: 0}}\nh3 := (1:1500)@{|i| %{i: [i]} == %{i: [0]}}\nh4 := (1:600)@{|i| [[i], i] == [[i], i]}\n[h1.len, h2.len, h3.len, h4.len]"
	ho := c.It.RunIn(env, histSrc, "", 5000000)
	c.Em.Emit(Rec{Src: histSrc, Impl: ho.Canon(), NT: true, Tags: []string{"history"}})
	if ho.Kind == "val" {
		for i, x := range pool {
			again := run(fmt.Sprintf("v%d == v%d", i, i))
			law(again == eq[i][i], "stability of == under history", fmt.Sprintf("%s == itself gave %s, and %s after 5000 other comparisons", x.src, eq[i][i], again), "history")
			j := (i*7 + 3) % n
			for _, op := range c18Ops {
				a2 := run(fmt.Sprintf("v%d %s v%d", i, op.sym, j))
				law(a2 == res[op.name][i][j], "stability of "+op.sym+" under history", fmt.Sprintf("%s %s %s gave %s, and %s after 5000 other comparisons", x.src, op.sym, pool[j].src, res[op.name][i][j], a2), "history")
			}
		}
	}

}
