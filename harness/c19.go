//go:build verif

package main

// C19: a program evaluated after a history of other programs in the same process (playground executor style:
// a fresh scope enclosed in the shared constant scope; `pangaea test` style: files of one directory) is compared
// with the same program evaluated in a newly started process (this binary re-executed as "C19ref").
// Action-programs additionally go to the Lean model (Pangaea/Eval/Fresh.lean).

import (
	"bytes"
	"encoding/json"
	"fmt"
	"io"
	"os"
	"os/exec"
	"path/filepath"
	"regexp"
	"sort"
	"strings"

	"github.com/Syuparn/pangaea/object"
	"github.com/Syuparn/pangaea/runscript"
)

func init() {
	registry["C19"] = genC19
	registry["C19ref"] = refC19
}

type c19Req struct {
	Style string            `json:"style"` // exec | runtest
	Name  string            `json:"name"`  // file name of the probe (runtest)
	Src   string            `json:"src"`
	Stdin string            `json:"stdin"`
	Files map[string]string `json:"files,omitempty"` // further files the probe needs (modules it imports)
}

type c19Obs struct {
	Kind    string `json:"kind"`
	Inspect string `json:"inspect"`
	ErrMsg  string `json:"errmsg"`
	Trace   string `json:"trace"`
	Stdout  string `json:"stdout"`
	Stderr  string `json:"stderr"`
	Exit    int    `json:"exit"`
	Consts  string `json:"consts"` // fingerprint of every built-in object bound to a constant (exec style)
}

func (o c19Obs) String() string {
	b, _ := json.Marshal(o)
	return string(b)
}

// constsFingerprint renders, for every constant of the base scope, the sorted property names of the object bound
// to it with the kind of each value: "built-in objects keep their original properties".
func constsFingerprint(base *object.Env) string {
	names := []string{}
	objs := map[string]object.PanObject{}
	for g := base; g != nil; g = g.Outer() {
		for h, v := range g.Store {
			if sObj, ok := object.SymHash2Str(h); ok {
				n := sObj.(*object.PanStr).Value
				if len(n) > 0 && n[0] >= 'A' && n[0] <= 'Z' {
					if _, seen := objs[n]; !seen {
						names = append(names, n)
						objs[n] = v
					}
				}
			}
		}
	}
	sort.Strings(names)
	var sb strings.Builder
	for _, n := range names {
		po, ok := objs[n].(*object.PanObj)
		if !ok || po.Pairs == nil {
			continue
		}
		keys := []string{}
		for _, p := range *po.Pairs {
			k := "?"
			if ks, ok := p.Key.(*object.PanStr); ok {
				k = ks.Value
			}
			keys = append(keys, k+":"+string(p.Value.Type()))
		}
		sort.Strings(keys)
		sb.WriteString(n + "{" + strings.Join(keys, ",") + "}\n")
	}
	return sb.String()
}

func firstDiffLine(a, b string) string {
	al, bl := strings.Split(a, "\n"), strings.Split(b, "\n")
	for i := 0; i < len(al) && i < len(bl); i++ {
		if al[i] != bl[i] {
			return fmt.Sprintf("%.300s  VS  %.300s", al[i], bl[i])
		}
	}
	return "different number of constants"
}

func obsOf(o Outcome) c19Obs {
	r := c19Obs{Kind: o.Kind, Inspect: o.Inspect, ErrMsg: o.ErrMsg, Trace: o.Trace, Stdout: o.Stdout}
	if o.Kind == "panic" {
		r.ErrMsg = o.Panic
	}
	return r
}

// runTestDir runs runscript.RunTest on the directory, capturing what it writes to `out` and to os.Stderr, and returns
// the part that belongs to the file `name` (from its "run:" line on) with the directory name normalised.
func runTestDir(dir string, name string, stdin string) c19Obs {
	var out bytes.Buffer
	oldErr := os.Stderr
	r, w, _ := os.Pipe()
	os.Stderr = w
	done := make(chan string)
	go func() {
		b, _ := io.ReadAll(r)
		done <- string(b)
	}()
	code := 0
	func() {
		defer func() {
			if rec := recover(); rec != nil {
				code = -1
				out.WriteString("PANIC: " + fmt.Sprint(rec))
			}
		}()
		code = runscript.RunTest(dir, strings.NewReader(stdin), &out)
	}()
	w.Close()
	os.Stderr = oldErr
	stderr := <-done
	so := strings.ReplaceAll(out.String(), dir, "<DIR>")
	se := strings.ReplaceAll(stderr, dir, "<DIR>")
	marker := "run:  <DIR>/" + name
	if i := strings.Index(so, marker); i >= 0 {
		so = so[i:]
	} else {
		so = "<probe not run> " + so
	}
	return c19Obs{Kind: "runtest", Stdout: so, Stderr: se, Exit: code}
}

// refC19 is the child mode: one request (file named by -arg), evaluated as the first thing this process does.
func refC19(c *Ctx) {
	b, err := os.ReadFile(c.Arg)
	if err != nil {
		fmt.Fprintln(os.Stderr, err)
		os.Exit(2)
	}
	var req c19Req
	json.Unmarshal(b, &req)
	var obs c19Obs
	switch req.Style {
	case "exec":
		obs = obsOf(c.It.Run(req.Src, req.Stdin))
		obs.Consts = constsFingerprint(c.It.base)
	case "runtest":
		dir, _ := os.MkdirTemp("", "verif-c19ref-")
		defer os.RemoveAll(dir)
		full := filepath.Join(dir, req.Name)
		os.MkdirAll(filepath.Dir(full), 0o755)
		os.WriteFile(full, []byte(req.Src), 0o644)
		for n, content := range req.Files {
			os.MkdirAll(filepath.Dir(filepath.Join(dir, n)), 0o755)
			os.WriteFile(filepath.Join(dir, n), []byte(content), 0o644)
		}
		obs = runTestDir(dir, req.Name, req.Stdin)
	}
	c.Em.Emit(Rec{Impl: obs.String(), NT: false})
}

func freshObs(req c19Req) (c19Obs, error) {
	dir, err := os.MkdirTemp("", "verif-c19req-")
	if err != nil {
		return c19Obs{}, err
	}
	defer os.RemoveAll(dir)
	b, _ := json.Marshal(req)
	rf := filepath.Join(dir, "req.json")
	of := filepath.Join(dir, "out.jsonl")
	os.WriteFile(rf, b, 0o644)
	cmd := exec.Command(os.Args[0], "-out", of, "-arg", rf, "C19ref")
	cmd.Env = os.Environ()
	if outp, err := cmd.CombinedOutput(); err != nil {
		return c19Obs{}, fmt.Errorf("reference process failed: %v %s", err, outp)
	}
	ob, err := os.ReadFile(of)
	if err != nil {
		return c19Obs{}, err
	}
	var rec Rec
	if err := json.Unmarshal(bytes.TrimSpace(ob), &rec); err != nil {
		return c19Obs{}, err
	}
	var obs c19Obs
	err = json.Unmarshal([]byte(rec.Impl), &obs)
	return obs, err
}

// ---------- program generator ----------

var c19Names = []string{"a", "b", "counter", "f", "g", "data", "T", "Cfg", "x"}

var c19Failing = []string{
	"_", "Either.A", "Either.fmap(1)", "Either.or(2)", "Either.val", "Either.err", "1 / 0", "undefinedName", "1.nope", "\"a\" + 1", "[1, 2][0:1:0]",
	"raise ValueErr.new(\"m%d\")", "raise Err.new(\"e%d\")", "assert(1 == 2)", "1.try.fmap(_)", "_.try.p", "EitherErr.new(_).A.p", "<{|i| yield i}>.new(1).{|it| it.next; it.next}",
	"{|q| _}(1)", "{|q| q / 0}(%d)", "{|q| Either.A}(2)", "[1, 2]@{|e| _}", "[1, 2]@{|e| e.nope}", "{a: _}", "[_]", "%%{1: Either.val}", "nil.nope", "StopIterErr.new(\"s\").p", "[].first.nope",
	"Int.at", "1.at([2, 3], 4, _)", "'_.S.p; _", "return _", "x := _", "import(\"nonexistent%d\")", "Str.new", "\"%d\".I / 0",
}

// programs that pass built-in objects through the constructs that copy / merge / extend objects
var c19Builtins = []string{
	"Mixin := {**Comparable, **Iterable}", "M%d := {**Iterable, **Comparable, x: %d}", "o := {**Int}", "%%{**Obj}.keys.len.p", "z := Comparable.bear({x: %d})", "Int.bear.new(%d).p",
	"ks := [*Comparable.keys, *Iterable.keys]", "V := {new: m{|n| .bear({n: n})}, '<=>: m{|o| .n <=> o.n}, **Comparable}", "{**Either, **EitherVal}.keys.len.p", "{**Kernel, **Obj}.keys.len.p",
	"Comparable.keys.p", "Iterable.keys.len.p", "{**Comparable}.keys.p", "Obj.keys.len.p", "Arr.bear({q: %d}).keys.p", "{**Str, **Arr, **Int}.keys.len.p", "Err.bear({k: %d}).keys.len.p",
	"{|**kw| kw}(**Comparable).keys.p", "{|a: 1| a}(**Comparable, **Iterable)", "f := {|a: 1, b: 2| [a, b]}\nf(**{a: %d}, **{b: 1}).p",
}

var c19Benign = []string{
	"\"t%d\".p", "%d.p", "[1, 2, 3]@{|e| e * %d}.p", "{a: %d}.p", "(1:%d).A.p", "{|| _}.try.A[0].p", "{|| 1 / 0}.try.err.p", "1.try.fmap {|v| v + %d}.val.p",
	"nil", "<{|i| yield i; recur(i + 1)}>.new(%d).{|it| [it.next, it.next]}.p", "'sym%d.p", "Int.bear.new(%d).p", "Either.S.p", "_.S.p", "Either['A].p", "Either.keys.len.p", "Int.keys.len.p",
	"Obj.keys.sort.p", "Kernel.keys.len.p", "%d.S.p", "<>.p", "<>@{|l| l.p}", "\"#{%d}!\".p", "1.try.A.p", "Err.keys.len.p", "NotImplementedErr.new(\"q%d\").S.p",
}

// programs that use modules and user-made descendants of built-in values in the places where the interpreter keeps
// process-wide tables (symbols, module sources): what they leave behind must not reach later programs
var c19Modules = []string{
	"invite!(\"dummy\")", "invite!(\"dummy_native\")", "{|| invite!(\"dummy\")}()", "h := import(\"dummy\")\nh.message.p", "{|| invite!(\"dummy_native\"); message}().p",
	"Loud%d := Str.bear({p: m{\"<<loud>>\".p}, loud: true})\nlm := %%{Loud%d.new(\"zebra%d\"): 1}\nlm[Loud%d.new(\"yak%d\")].p",
	"Shout%d := \"s\".bear({shout: %d})\n{a: 1}.which(Shout%d.new(\"gnu%d\")).p", "Tag%d := Str.bear({tag: %d})\n(Tag%d.new(\"emu%d\") == \"emu%d\").p\n{q: 1}[Tag%d.new(\"ibis%d\")].p",
	"MyI%d := Int.bear({mine: true})\n%%{MyI%d.new(%d): 1}.keys.p", "Sy%d := 'fox%d.bear({sy: 1})\n%%{Sy%d: 2}[Sy%d].p",
	// descendants of the literal types with props of their own / overridden props, used on their instances
	"Shout%d := Str.bear({shout: m{\"!\" + self}, S: m{\"<shout>\"}, len: m{99}})\nsh := Shout%d.new(\"hey\")\n[sh.shout, sh.S, sh.len].p",
	"Hex%d := Int.bear({S: m{\"0xff\"}, double: m{self * 2}, '+: m{|o| 'plus}})\nhx := Hex%d.new(255)\n[hx.S, hx.double, hx + 1].p\nhx.p",
	"Ar%d := Arr.bear({first2: m{self[0:2]}, len: m{99}, S: m{\"<arr>\"}})\nar := Ar%d.new([1, 2, 3])\n[ar.len, ar.first2, ar.S].p",
	"Fl%d := Float.bear({S: m{\"<float>\"}, half: m{self / 2}})\n[Fl%d.new(2.5).S, Fl%d.new(3.0).half].p", "Nl%d := Nil.bear({S: m{\"<nil>\"}, none?: true})\n[Nl%d.S, Nl%d.none?].p",
	"Rg%d := Range.bear({S: m{\"<range>\"}, span: m{.stop - .start}})\n[Rg%d.new(1, 5).S, Rg%d.new(1, 5).span].p", "Mp%d := Map.bear({S: m{\"<map>\"}, one?: true})\n[Mp%d.new(%%{1: 2}).S, Mp%d.one?].p",
}

var c19Fresh = 0

var c19LeakRe = regexp.MustCompile(`(?:new\("|')((?:zebra|yak|gnu|emu|ibis|fox)\d+)`)

// c19LeakProbes: later programs look at the symbols earlier programs hashed through their own descendants of Str
func c19LeakProbes(progs []string) []string {
	out := []string{}
	for _, p := range progs {
		for _, m := range c19LeakRe.FindAllStringSubmatch(p, -1) {
			out = append(out, fmt.Sprintf("\"%s := 1; other := 2\".evalEnv.keys@{|k| [k, k.proto == Str, k['loud], k['tag]]}.p", m[1]),
				fmt.Sprintf("{%s: 1}.keys@{|k| [k.proto == Str, k.S]}.p", m[1]))
		}
		if strings.Contains(p, "invite!(") {
			out = append(out, "message.p", "{|| message}().p")
		}
		// plain literals answer with the built-in props, whatever descendants did before
		for _, mp := range []struct {
			marker string
			probes []string
		}{
			{"Str.bear({shout", []string{"\"abc\".shout.p", "[\"abc\".S, \"abc\".len].p", "\"abc\".p"}},
			{"Int.bear({S", []string{"255.p", "[255.S, 255 + 1].p", "4.double.p"}},
			{"Arr.bear({first2", []string{"[1, 2, 3].len.p", "[1].first2.p", "[1, 2].S.p"}},
			{"Float.bear({S", []string{"2.5.S.p", "3.0.half.p"}},
			{"Nil.bear({S", []string{"nil.S.p", "nil.none?.p"}},
			{"Range.bear({S", []string{"(1:5).S.p", "(1:5).span.p"}},
			{"Map.bear({S", []string{"%{1: 2}.S.p", "%{}.one?.p"}},
		} {
			if strings.Contains(p, mp.marker) {
				out = append(out, mp.probes...)
			}
		}
	}
	return out
}

func c19Line(c *Ctx, defined *[]string, failing bool) string {
	r := c.Rng
	n := r.Intn(50)
	if !failing && r.Intn(7) == 0 {
		c19Fresh++
		t := c19Modules[r.Intn(len(c19Modules))]
		u := c19Fresh*1000 + int(c.Seed%997)
		return strings.ReplaceAll(strings.ReplaceAll(t, "%d", fmt.Sprint(u)), "%%", "%")
	}
	f := func(t string) string {
		if strings.Contains(t, "%d") {
			return fmt.Sprintf(t, n)
		}
		return strings.ReplaceAll(t, "%%", "%")
	}
	if failing {
		return f(c19Failing[r.Intn(len(c19Failing))])
	}
	if r.Intn(5) == 0 {
		return f(c19Builtins[r.Intn(len(c19Builtins))])
	}
	switch r.Intn(6) {
	case 0, 1:
		name := c19Names[r.Intn(len(c19Names))]
		*defined = append(*defined, name)
		switch r.Intn(4) {
		case 0:
			return fmt.Sprintf("%s := {|v| v + %d}", name, n)
		case 1:
			return fmt.Sprintf("%s := [%d, \"s\"]", name, n)
		case 2:
			return fmt.Sprintf("%s := {|| _}.try", name)
		default:
			return fmt.Sprintf("%s := %d", name, n)
		}
	case 2:
		if len(*defined) > 0 {
			return (*defined)[r.Intn(len(*defined))] + ".p"
		}
		return f(c19Benign[r.Intn(len(c19Benign))])
	default:
		return f(c19Benign[r.Intn(len(c19Benign))])
	}
}

// c19Prog generates a program of 1..6 lines; when failing, its last line raises
func c19Prog(c *Ctx, failing bool, foreign []string) string {
	r := c.Rng
	defined := []string{}
	lines := []string{}
	for i, n := 0, 1+r.Intn(5); i < n; i++ {
		if r.Intn(5) == 0 {
			lines = append(lines, "") // shifts the positions of what follows
			continue
		}
		lines = append(lines, c19Line(c, &defined, false))
	}
	if len(foreign) > 0 && r.Intn(2) == 0 {
		// reads a name an earlier program defined: NameErr in a fresh scope
		// (entries that are whole statements are the probes of c19LeakProbes)
		f := foreign[r.Intn(len(foreign))]
		if strings.Contains(f, ".p") {
			lines = append(lines, f)
		} else {
			lines = append(lines, f+".p")
		}
	}
	if failing {
		lines = append(lines, c19Line(c, &defined, true))
	}
	return strings.Join(lines, "\n") + "\n"
}

var c19DefRe = regexp.MustCompile(`(?m)^([A-Za-z]+) :=`)

func c19Defined(progs []string) []string {
	out := c19LeakProbes(progs)
	if len(out) > 0 && len(out) < 4 {
		out = append(out, out...) // favour the leak probes when there are any
	}
	for _, p := range progs {
		for _, m := range c19DefRe.FindAllStringSubmatch(p, -1) {
			out = append(out, m[1])
		}
	}
	return out
}

var c19BuiltinsChanged = false

var c19LineRe = regexp.MustCompile(`line: (\d+), col`)

// c19Directed: one case per template of c19Modules and per probe that looks at what the template may leave behind
// (not left to the random draw): history = the template, probe = the later program, exec style, against a new process
func c19Directed(c *Ctx) {
	for ti, t := range c19Modules {
		u := 900000 + ti*1000 + int(c.Seed%997)
		hist := strings.ReplaceAll(strings.ReplaceAll(t, "%d", fmt.Sprint(u)), "%%", "%") + "\n"
		probes := c19LeakProbes([]string{hist})
		probes = append(probes, "\"abc\".p\n[1, 2].len.p\n(255 + 1).p")
		for pi, pr := range probes {
			if !c.Mine() {
				continue
			}
			probe := pr + "\n"
			it := NewInterp()
			it.base.InjectIO(it.in, it.out)
			it.Run(hist, "")
			it.base.InjectIO(it.in, it.out)
			after := obsOf(it.Run(probe, ""))
			after.Consts = constsFingerprint(it.base)
			rec := Rec{Src: hist + "=====\n" + probe, NT: true, Tags: []string{"directed", fmt.Sprintf("template-%d", ti), "probe-" + after.Kind}}
			fresh, err := freshObs(c19Req{Style: "exec", Name: fmt.Sprintf("d%d_%d_test.pangaea", ti, pi), Src: probe, Stdin: ""})
			if err != nil {
				rec.Skip = "reference-failed"
				rec.Impl = err.Error()
				c.Em.Emit(rec)
				continue
			}
			rec.Impl = after.String()
			if after != fresh {
				rec.Oracle = fmt.Sprintf("after the history: %s ; in a new process: %s", after.String(), fresh.String())
			}
			if len(rec.Impl) > 3000 {
				rec.Impl = rec.Impl[:3000]
			}
			c.Em.Emit(rec)
		}
	}
}

func genC19(c *Ctx) {
	n := 640
	if c.Thorough() {
		n = 8000
	}
	c19Directed(c)
	for i := 0; i < n; i++ {
		style := []string{"exec", "exec", "runtest", "model", "exec", "import", "runtest", "model"}[i%8]
		if style == "import" {
			if i%16 == 5 {
				c19ServerCase(c)
			} else {
				c19ImportCase(c)
			}
			continue
		}
		hlen := c.Rng.Intn(7)
		hist := []string{}
		// ---- action-programs for the Lean model ----
		if style == "model" {
			mk := func() (string, string) { // (encoded, source)
				enc, src := []string{}, []string{}
				for k, m := 0, 1+c.Rng.Intn(5); k < m; k++ {
					name := []string{"a", "b", "k"}[c.Rng.Intn(3)]
					switch c.Rng.Intn(5) {
					case 0:
						t := fmt.Sprintf("t%d", c.Rng.Intn(9))
						enc, src = append(enc, "p:"+t), append(src, "\""+t+"\".p")
					case 1, 2:
						v := c.Rng.Intn(9)
						enc, src = append(enc, fmt.Sprintf("d:%s:%d", name, v)), append(src, fmt.Sprintf("%s := %d", name, v))
					case 3:
						enc, src = append(enc, "r:"+name), append(src, name+".p")
					default:
						enc, src = append(enc, "s"), append(src, []string{"_", "Either.A", "Either.val"}[c.Rng.Intn(3)])
					}
				}
				return strings.Join(enc, ";"), strings.Join(src, "\n") + "\n"
			}
			encs := []string{}
			for k := 0; k < hlen; k++ {
				e, s := mk()
				encs, hist = append(encs, e), append(hist, s)
			}
			pe, ps := mk()
			if !c.Mine() {
				continue
			}
			it := NewInterp()
			for _, h := range hist {
				it.Run(h, "")
			}
			o := it.Run(ps, "")
			// canonical observation: stdout lines matched with the print / read actions, then the error's lines
			obs := []string{}
			outLines := strings.Split(strings.TrimRight(o.Stdout, "\n"), "\n")
			if o.Stdout == "" {
				outLines = nil
			}
			k := 0
			for _, a := range strings.Split(pe, ";") {
				if k >= len(outLines) {
					break
				}
				if strings.HasPrefix(a, "p:") {
					obs = append(obs, "out:"+outLines[k])
					k++
				} else if strings.HasPrefix(a, "r:") {
					obs = append(obs, "val:"+a[2:]+"="+outLines[k])
					k++
				}
			}
			if o.Kind == "err" {
				ls := []string{}
				for _, m := range c19LineRe.FindAllStringSubmatch(o.Trace, -1) {
					if len(ls) == 0 || ls[len(ls)-1] != m[1] {
						ls = append(ls, m[1])
					}
				}
				obs = append(obs, "err:"+strings.Join(ls, ","))
			} else if o.Kind != "val" {
				obs = append(obs, o.Kind)
			}
			h := strings.Join(encs, "|")
			if h == "" {
				h = "-"
			}
			c.Em.Emit(Rec{Case: "C19 " + h + " " + pe, Impl: strings.Join(obs, "|"), Src: strings.Join(append(hist, ps), "\n=====\n"), NT: hlen > 0, Tags: []string{"model", fmt.Sprintf("hist-%d", hlen), "probe-" + o.Kind}})
			continue
		}
		// ---- generated programs against a newly started process ----
		for k := 0; k < hlen; k++ {
			failing := style == "exec" && c.Rng.Intn(3) == 0 // RunTest stops at the first failing file
			foreign := c19Defined(hist)
			if style == "runtest" {
				foreign = nil // reading another file's name fails, and RunTest stops at the first failing file
			}
			prog := c19Prog(c, failing, foreign)
			if style == "runtest" {
				// keep only files that pass (evaluating the candidate here merely lengthens this process's history)
				if o := c.It.Run(prog, ""); o.Kind != "val" {
					prog = "\"ok\".p\n"
				}
			}
			hist = append(hist, prog)
		}
		var probe string
		if hlen > 0 && c.Rng.Intn(3) == 0 {
			probe = hist[c.Rng.Intn(hlen)] // the same text again: same positions, same failure
			if style == "runtest" && c.Rng.Intn(2) == 0 {
				probe += c19Line(c, &[]string{}, true) + "\n"
			}
		} else {
			probe = c19Prog(c, c.Rng.Intn(2) == 0, c19Defined(hist))
		}
		stdin := "in1\nin2\n"
		if style == "runtest" {
			stdin = "" // `pangaea test` hands the process's one stdin to every file: what a file reads is gone for the next
		}
		if !c.Mine() {
			continue
		}
		var after c19Obs
		name := fmt.Sprintf("p%d_test.pangaea", hlen)
		switch style {
		case "exec":
			// as web/wasm/executor.go does: IO injected per execution, a new scope enclosed in the constant scope
			it := NewInterp()
			for _, h := range hist {
				it.base.InjectIO(it.in, it.out)
				it.Run(h, stdin)
			}
			it.base.InjectIO(it.in, it.out)
			after = obsOf(it.Run(probe, stdin))
			after.Consts = constsFingerprint(it.base)
		case "runtest":
			dir, _ := os.MkdirTemp("", "verif-c19-")
			for k, h := range hist {
				os.WriteFile(filepath.Join(dir, fmt.Sprintf("p%d_test.pangaea", k)), []byte(h), 0o644)
			}
			os.WriteFile(filepath.Join(dir, name), []byte(probe), 0o644)
			after = runTestDir(dir, name, stdin)
			os.RemoveAll(dir)
		}
		rec := Rec{Src: strings.Join(append(append([]string{}, hist...), probe), "\n=====\n"), NT: hlen > 0, Tags: []string{style, fmt.Sprintf("hist-%d", hlen), "probe-" + after.Kind}}
		if after.Kind == "fuel" {
			rec.Skip = "fuel"
			c.Em.Emit(rec)
			continue
		}
		fresh, err := freshObs(c19Req{Style: style, Name: name, Src: probe, Stdin: stdin})
		if err != nil {
			rec.Skip = "reference-failed"
			rec.Impl = err.Error()
			c.Em.Emit(rec)
			continue
		}
		rec.Impl = after.String()
		if after.Consts != fresh.Consts {
			if c19BuiltinsChanged {
				rec.Skip = "builtins-already-changed" // reported by the case that saw it first; this process stays changed
			} else {
				c19BuiltinsChanged = true
				rec.Oracle = "a built-in object changed its properties: " + firstDiffLine(after.Consts, fresh.Consts)
				rec.Impl = "builtins-changed"
			}
		} else if after != fresh {
			rec.Oracle = fmt.Sprintf("after the history: %s ; in a new process: %s", after.String(), fresh.String())
		}
		if len(rec.Impl) > 3000 {
			rec.Impl = rec.Impl[:3000]
		}
		if style == "runtest" && strings.HasPrefix(after.Stdout, "<probe not run>") {
			rec.Skip = "history-file-failed"
			rec.Oracle = ""
		}
		c.Em.Emit(rec)
	}
}

// c19ImportCase: `pangaea test` over several directories whose test files import a module by the same relative
// path; the last directory's file is the probe and is compared with a run over that directory alone in a new process.
func c19ImportCase(c *Ctx) {
	nd := 2 + c.Rng.Intn(3)
	files := map[string]string{}
	order := []string{}
	// in half of the cases every directory has a byte-identical helper whose function raises when the probe calls it:
	// the report names the probe's own helper file, not a file only an earlier program touched
	same := c.Rng.Intn(2) == 0
	for d := 0; d < nd; d++ {
		dn := fmt.Sprintf("d%d", d)
		files[dn+"/helper.pangaea"] = fmt.Sprintf("name := \"mod%d\"\nv%d := %d\n", d, d, c.Rng.Intn(50))
		body := "h := import(\"./helper\")\nh.name.p\nh.keys.p\n"
		if c.Rng.Intn(3) == 0 {
			body += "h2 := import(\"./helper\")\n(h2.name == h.name).p\n"
		}
		if same {
			files[dn+"/helper.pangaea"] = "name := \"mod\"\n\nboom := {|x|\n  x.nonexistent\n}\nok := {|x| x}\n"
			body += "h.ok(1).p\n"
			if d == nd-1 {
				body += "h.boom(1)\n\"unreachable\".p\n"
			}
		}
		files[dn+"/t_test.pangaea"] = body
		order = append(order, dn)
	}
	if !c.Mine() {
		return
	}
	dir, _ := os.MkdirTemp("", "verif-c19imp-")
	defer os.RemoveAll(dir)
	for n, content := range files {
		os.MkdirAll(filepath.Dir(filepath.Join(dir, n)), 0o755)
		os.WriteFile(filepath.Join(dir, n), []byte(content), 0o644)
	}
	last := order[len(order)-1]
	probeName := last + "/t_test.pangaea"
	after := runTestDir(dir, probeName, "")
	src := []string{}
	for _, d := range order {
		src = append(src, "# "+d+"/helper.pangaea\n"+files[d+"/helper.pangaea"]+"# "+d+"/t_test.pangaea\n"+files[d+"/t_test.pangaea"])
	}
	rec := Rec{Src: strings.Join(src, "\n=====\n"), NT: true, Tags: []string{"import", fmt.Sprintf("hist-%d", nd-1), "probe-runtest"}}
	fresh, err := freshObs(c19Req{Style: "runtest", Name: probeName, Src: files[probeName], Files: map[string]string{last + "/helper.pangaea": files[last+"/helper.pangaea"]}})
	if err != nil {
		rec.Skip = "reference-failed"
		rec.Impl = err.Error()
		c.Em.Emit(rec)
		return
	}
	rec.Impl = after.String()
	if strings.HasPrefix(after.Stdout, "<probe not run>") {
		rec.Skip = "history-file-failed"
	} else if after != fresh {
		rec.Oracle = fmt.Sprintf("after the other directories: %s ; in a new process: %s", after.String(), fresh.String())
	}
	c.Em.Emit(rec)
}

// c19ServerCase: a handler function that outlives single evaluations (as the callbacks of the http module do) is
// called for a sequence of requests; the last request is compared with the same request handled by a handler in a
// newly started process. Bodies assign locals conditionally and read argument / keyword variables.
func c19ServerCase(c *Ctx) {
	bodies := []string{
		"who := user if user\n  [who, lang].p",
		"greeting := \"hi\" if lang == \"en\"\n  [user, greeting].p",
		"[user, \\2].p",
		"[user, \\lang].p",
		"count := 0 if user\n  count += 1\n  count.p",
		"seen := [user] if lang\n  seen.p",
		"tmp := user.S + \"!\" if user\n  tmp.p",
	}
	body := bodies[c.Rng.Intn(len(bodies))]
	def := "handler := {|user, lang: nil|\n  " + body + "\n}\n"
	reqs := []string{"handler(\"alice\", 7, lang: \"en\")", "handler(\"bob\", lang: \"fr\")", "handler(nil)", "handler()", "handler(\"carol\")", "handler(nil, 3)"}
	n := 1 + c.Rng.Intn(4)
	hist := []string{}
	for k := 0; k < n; k++ {
		hist = append(hist, reqs[c.Rng.Intn(len(reqs))])
	}
	probe := reqs[2+c.Rng.Intn(4)]
	if !c.Mine() {
		return
	}
	it := NewInterp()
	env := object.NewEnclosedEnv(it.base)
	it.RunIn(env, def, "", defaultFuel)
	for _, h := range hist {
		it.RunIn(env, h+"\n", "", defaultFuel)
	}
	after := obsOf(it.RunIn(env, probe+"\n", "", defaultFuel))
	rec := Rec{Src: def + strings.Join(hist, "\n") + "\n=====\n" + probe, NT: true, Tags: []string{"server", fmt.Sprintf("hist-%d", n), "probe-" + after.Kind}}
	fresh, err := freshObs(c19Req{Style: "exec", Src: def + probe + "\n"})
	if err != nil {
		rec.Skip = "reference-failed"
		c.Em.Emit(rec)
		return
	}
	fresh.Consts = ""
	rec.Impl = after.String()
	// positions differ (the fresh process evaluates definition and request as one program): compare what the request
	// printed, its value and the kind / message of its error
	if after.Kind != fresh.Kind || after.Stdout != fresh.Stdout || after.Inspect != fresh.Inspect || after.ErrMsg != fresh.ErrMsg {
		rec.Oracle = fmt.Sprintf("after earlier requests: %s ; first request of a new process: %s", after.String(), fresh.String())
	}
	c.Em.Emit(rec)
}
