//go:build verif

package main

import (
	"fmt"
	"strings"
	"sync"

	"github.com/Syuparn/pangaea/evaluator"
	"github.com/Syuparn/pangaea/object"
	"github.com/Syuparn/pangaea/parser"
)

func init() { registry["C20"] = genC20 }

// evalConcurrently parses and evaluates src in a fresh scope; safe to call from many goroutines
// (no IO re-targeting, no fuel).
func evalConcurrently(base *object.Env, src string) (res string) {
	defer func() {
		if r := recover(); r != nil {
			res = "panic: " + fmt.Sprint(r)
		}
	}()
	node, err := parser.Parse(parser.NewReader(strings.NewReader(src), "<string>"))
	if err != nil {
		return "syntax"
	}
	o := evaluator.Eval(node, object.NewEnclosedEnv(base))
	if e, ok := o.(*object.PanErr); ok {
		return "err " + string(e.ErrKind)
	}
	return "val " + o.Inspect()
}

// genC20 runs K goroutines that intern fresh symbols (new identifiers, object keys, JSON keys) while
// others convert symbols back to strings (evalEnv / Env.Items, keys). Meant to be built with -race:
// any report of the race detector (or a runtime fatal error) is the failing schedule.
func genC20(c *Ctx) {
	evaluator.VerifSetFuel(-1)
	k := 8
	rounds := 60
	if c.Thorough() {
		k = 16
		rounds = 400
	}
	base := c.It.base
	var wg sync.WaitGroup
	results := make([][]Rec, k)
	for g := 0; g < k; g++ {
		wg.Add(1)
		rng := NewRng(c.Seed*1000 + uint64(g))
		go func(g int) {
			defer wg.Done()
			for i := 0; i < rounds; i++ {
				var src, tag string
				// symbol lengths vary (short, around typical caching thresholds, long)
				pad := strings.Repeat("x", []int{0, 0, 10, 50, 60, 70, 130, 300}[rng.Intn(8)])
				switch rng.Intn(6) {
				case 0: // direct table API: intern then read back
					name := fmt.Sprintf("sym_%d_%d_%d%s", c.Seed, g, i, pad)
					h := object.GetSymHash(name)
					s, ok := object.SymHash2Str(h)
					impl := "ok"
					if !ok || s.(*object.PanStr).Value != name {
						impl = "lookup-mismatch"
					}
					rec := Rec{Impl: impl, Src: "GetSymHash/SymHash2Str " + name, NT: true, Tags: []string{"direct-intern"}}
					if impl != "ok" {
						rec.Oracle = "SymHash2Str(GetSymHash(s)) != s"
					}
					results[g] = append(results[g], rec)
					continue
				case 1: // new identifiers + evalEnv (Env.Items -> SymHash2Str)
					src = fmt.Sprintf("\"v%d_%d_%d%s := %d; w%d_%d := 2\".evalEnv.keys", c.Seed, g, i, pad, i, g, i)
					tag = "evalEnv"
				case 2: // new object keys, then keys (symbol -> str)
					src = fmt.Sprintf("{k%d_%d_%d%s: 1, l%d_%d: 2}.keys", c.Seed, g, i, pad, g, i)
					tag = "obj-keys"
				case 3: // JSON keys are interned while decoding
					src = fmt.Sprintf("`{\"j%d_%d_%d%s\": 1}`.decJSON.keys", c.Seed, g, i, pad)
					tag = "json-keys"
				case 4: // property call on a fresh name (NoPropErr path interns the name)
					src = fmt.Sprintf("{a: 1}.try.p%d_%d_%d%s.err?", c.Seed, g, i, pad)
					tag = "fresh-prop"
				default: // readers only
					src = "{a: 1, b: 2, c: 3}.items"
					tag = "readers"
				}
				r := evalConcurrently(base, src)
				rec := Rec{Impl: r, Src: src, NT: tag != "readers", Tags: []string{tag}}
				if strings.HasPrefix(r, "panic") {
					rec.Oracle = "panic during concurrent evaluation: " + r
				}
				results[g] = append(results[g], rec)
			}
		}(g)
	}
	wg.Wait()
	// ---- the SAME never-seen name met by all evaluations at the same moment: interning must be atomic (the name is
	// convertible back as soon as any evaluation holds its hash)
	rounds2 := 400
	if c.Thorough() {
		rounds2 = 4000
	}
	for i := 0; i < rounds2; i++ {
		name := fmt.Sprintf("shared_%d_%d%s", c.Seed, i, strings.Repeat("y", []int{0, 10, 70, 200}[i%4]))
		start := make(chan struct{})
		var wg2 sync.WaitGroup
		for g := 0; g < k; g++ {
			wg2.Add(1)
			go func(g int) {
				defer wg2.Done()
				<-start
				impl := "ok"
				func() {
					defer func() {
						if r := recover(); r != nil {
							impl = "panic: " + fmt.Sprint(r)
						}
					}()
					h := object.GetSymHash(name)
					s, ok := object.SymHash2Str(h)
					if !ok || s.(*object.PanStr).Value != name {
						impl = "lookup-mismatch"
					}
					if g%2 == 0 {
						e := object.NewEnv()
						e.Set(h, object.BuiltInNil)
						e.Items()
					}
				}()
				rec := Rec{Impl: impl, Src: "all evaluations intern " + name + " at once, then convert it back", NT: true, Tags: []string{"shared-fresh-name"}}
				if impl != "ok" {
					rec.Oracle = "a name that an evaluation has just interned cannot be converted back: " + impl
				}
				results[g] = append(results[g], rec)
			}(g)
		}
		close(start)
		wg2.Wait()
	}
	// ---- the same program evaluated by all evaluations at the same moment, each in its own scope: the programs obtain
	// the table's own entry for a never-seen name (keys of evalEnv / object results) and use it as a value (compare,
	// hash as a map key, index), or import the bundled modules (whatever the interpreter keeps per module is shared)
	rounds3 := 120
	if c.Thorough() {
		rounds3 = 1200
	}
	shapes := []string{
		"\"%s := 1\".evalEnv.keys[0] == \"%s\"",
		"k := \"%s := 1\".evalEnv.keys[0]; %%{k: 1}[k]",
		"{%s: 1}.keys@{|s| [s == \"%s\", %%{s: 2}[s], {a: 1}[s]]}",
		"o := \"%s := 1; other%s := 2\".evalEnv; o.keys@{|s| o[s]}",
		"import(\"dummy_native\").keys.len # %s",
		"import(\"http\").keys.len # %s",
		"import(\"dummy\").keys.len # %s",
		"{|| invite!(\"dummy_native\"); 1}() # %s",
		"`{\"%s\": {\"%s\": 1}}`.decJSON.keys@{|s| s == 'a}",
	}
	for i := 0; i < rounds3; i++ {
		name := fmt.Sprintf("both_%d_%d%s", c.Seed, i, strings.Repeat("z", []int{0, 10, 70, 200}[i%4]))
		shape := shapes[i%len(shapes)]
		src := fmt.Sprintf(shape, name, name)
		if strings.Count(shape, "%s") == 1 {
			src = fmt.Sprintf(shape, name)
		}
		start := make(chan struct{})
		var wg3 sync.WaitGroup
		outs := make([]string, k)
		for g := 0; g < k; g++ {
			wg3.Add(1)
			go func(g int) {
				defer wg3.Done()
				<-start
				outs[g] = evalConcurrently(base, src)
			}(g)
		}
		close(start)
		wg3.Wait()
		for g := 0; g < k; g++ {
			rec := Rec{Impl: outs[g], Src: src, NT: g == 0, Tags: []string{"shared-program", fmt.Sprintf("shape-%d", i%len(shapes))}}
			if strings.HasPrefix(outs[g], "panic") {
				rec.Oracle = "panic during concurrent evaluation: " + outs[g]
			} else if outs[g] != outs[0] {
				rec.Oracle = fmt.Sprintf("the same program gives %s in one evaluation and %s in another running at the same time", outs[0], outs[g])
			}
			results[g] = append(results[g], rec)
		}
	}
	for _, rs := range results {
		for _, r := range rs {
			c.Em.Emit(r)
		}
	}
}
