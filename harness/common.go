//go:build verif

package main

import (
	"bufio"
	"bytes"
	"encoding/json"
	"fmt"
	"io"
	"os"
	"strings"

	"github.com/Syuparn/pangaea/di"
	"github.com/Syuparn/pangaea/evaluator"
	"github.com/Syuparn/pangaea/object"
	"github.com/Syuparn/pangaea/parser"
)

// ---------- PRNG: SplitMix64, every random choice derives from it ----------

type Rng struct{ s uint64 }

func NewRng(seed uint64) *Rng { return &Rng{s: seed} }
func (r *Rng) U64() uint64 {
	r.s += 0x9e3779b97f4a7c15
	z := r.s
	z = (z ^ (z >> 30)) * 0xbf58476d1ce4e5b9
	z = (z ^ (z >> 27)) * 0x94d049bb133111eb
	return z ^ (z >> 31)
}
func (r *Rng) Intn(n int) int {
	if n <= 0 {
		return 0
	}
	return int(r.U64() % uint64(n))
}
func (r *Rng) Bool() bool              { return r.U64()&1 == 1 }
func (r *Rng) Chance(p int) bool       { return r.Intn(100) < p }
func (r *Rng) Pick(xs []string) string { return xs[r.Intn(len(xs))] }
func (r *Rng) I64() int64              { return int64(r.U64()) }

// ---------- case records ----------

// Rec is one explored case. Case is the line given to the Lean driver ("" = none);
// Impl is the canonicalised outcome of the implementation; Oracle != "" reports a
// violation found by a direct (implementation-only) oracle.
type Rec struct {
	Case   string   `json:"case,omitempty"`
	Impl   string   `json:"impl"`
	Src    string   `json:"src,omitempty"`
	NT     bool     `json:"nt"`
	Oracle string   `json:"oracle,omitempty"`
	Tags   []string `json:"tags,omitempty"`
	Skip   string   `json:"skip,omitempty"` // "fuel" / "unsupported": counted, never compared
}

type Emitter struct {
	w *bufio.Writer
	n int
}

func NewEmitter(path string) *Emitter {
	f, err := os.Create(path)
	if err != nil {
		fmt.Fprintln(os.Stderr, err)
		os.Exit(2)
	}
	return &Emitter{w: bufio.NewWriterSize(f, 1<<20)}
}
func (e *Emitter) Emit(r Rec) {
	b, _ := json.Marshal(r)
	e.w.Write(b)
	e.w.WriteByte('\n')
	e.n++
}
func (e *Emitter) Close() { e.w.Flush() }

// ---------- interpreter wrapper ----------

type swapReader struct{ r io.Reader }

func (s *swapReader) Read(p []byte) (int, error) { return s.r.Read(p) }

type swapWriter struct{ w io.Writer }

func (s *swapWriter) Write(p []byte) (int, error) { return s.w.Write(p) }

// Interp is one interpreter (one set of built-in objects) whose IO can be re-targeted per run.
type Interp struct {
	base *object.Env
	in   *swapReader
	out  *swapWriter
}

func NewInterp() *Interp {
	it := &Interp{in: &swapReader{strings.NewReader("")}, out: &swapWriter{io.Discard}}
	evaluator.VerifSetFuel(-1)
	env := object.NewEnvWithConsts()
	env.InjectIO(it.in, it.out)
	env.SetSourceFilePath("")
	di.InjectBuiltInProps(env)
	env.InjectFrom(object.BuiltInKernelObj)
	it.base = env
	return it
}

// Outcome of one evaluation.
type Outcome struct {
	Kind    string // "val", "err", "syntax", "panic", "fuel"
	Inspect string // value: Inspect(); err: "Kind: msg"
	ErrKind string
	ErrMsg  string
	Trace   string
	Stdout  string
	Panic   string
	Obj     object.PanObject
	Env     *object.Env
}

func (o Outcome) Canon() string {
	switch o.Kind {
	case "val":
		return "val " + o.Inspect
	case "err":
		return "err " + o.ErrKind
	case "panic":
		return "panic"
	default:
		return o.Kind
	}
}

const defaultFuel = 200000

// Run parses and evaluates src in a fresh scope enclosed in the interpreter's base scope.
func (it *Interp) Run(src string, stdin string) (out Outcome) {
	return it.RunIn(object.NewEnclosedEnv(it.base), src, stdin, defaultFuel)
}

func (it *Interp) RunIn(env *object.Env, src string, stdin string, fuel int64) (out Outcome) {
	var buf bytes.Buffer
	it.in.r = strings.NewReader(stdin)
	it.out.w = &buf
	out.Env = env
	defer func() {
		evaluator.VerifSetFuel(-1)
		it.out.w = io.Discard
		out.Stdout = buf.String()
		if r := recover(); r != nil {
			if _, ok := r.(evaluator.VerifFuelExhausted); ok {
				out.Kind = "fuel"
				return
			}
			out.Kind = "panic"
			out.Panic = fmt.Sprint(r)
		}
	}()
	node, err := parser.Parse(parser.NewReader(strings.NewReader(src), "<string>"))
	if err != nil {
		out.Kind = "syntax"
		out.ErrMsg = err.Error()
		return
	}
	evaluator.VerifSetFuel(fuel)
	res := evaluator.Eval(node, env)
	evaluator.VerifSetFuel(-1)
	out.Obj = res
	if e, ok := res.(*object.PanErr); ok {
		out.Kind = "err"
		out.ErrKind = string(e.ErrKind)
		out.ErrMsg = e.Msg
		out.Trace = e.StackTrace
		out.Inspect = e.Inspect()
		return
	}
	out.Kind = "val"
	out.Inspect = safeInspect(res)
	return
}

func safeInspect(o object.PanObject) (s string) {
	defer func() {
		if r := recover(); r != nil {
			s = "<inspect panic: " + fmt.Sprint(r) + ">"
		}
	}()
	if o == nil {
		return "<go nil>"
	}
	return o.Inspect()
}

// callBuiltIn calls a built-in closure directly with recover.
func callBuiltIn(fn object.BuiltInFunc, env *object.Env, args ...object.PanObject) (res object.PanObject, panicked string) {
	defer func() {
		if r := recover(); r != nil {
			panicked = fmt.Sprint(r)
		}
	}()
	res = fn(env, object.EmptyPanObjPtr(), args...)
	return
}

func itoa(i int64) string { return fmt.Sprintf("%d", i) }
