//go:build verif

package main

// Generated programs evaluated by the implementation and by the Lean reference evaluator (Pangaea/Core).
// The same generator serves C03 (scoping / binding), C07 (a raise injected at every expression position),
// C08 (side-effecting sub-expressions, repeated runs and processes) and C14 (iterator histories).

import (
	"encoding/hex"
	"encoding/json"
	"fmt"
	"github.com/Syuparn/pangaea/object"
	"os"
	"os/exec"
	"path/filepath"
	"sort"
	"strings"
)

func init() {
	registry["C03"] = func(c *Ctx) { genCore(c, "C03") }
	registry["C07"] = func(c *Ctx) { genCore(c, "C07") }
	registry["C08"] = func(c *Ctx) { genCore(c, "C08") }
	registry["C14"] = func(c *Ctx) { genCore(c, "C14") }
	registry["C06core"] = func(c *Ctx) { genCore(c, "C06") }
	registry["C12core"] = func(c *Ctx) { genCore(c, "C12") }
	registry["C15core"] = func(c *Ctx) { genCore(c, "C15") }
	registry["CORESRC"] = coreOne
}

const coreFuel = "600"

// coreRun evaluates src in a new interpreter with a small evaluation budget (generated programs are short; a
// runaway recursion is cut off early and the case discarded)
func coreRun(src string) Outcome { return coreRunIn(src, "") }

func coreRunIn(src, stdin string) Outcome {
	it := NewInterp()
	return it.RunIn(object.NewEnclosedEnv(it.base), src, stdin, 30000)
}

const coreStdin = "in1\nin2\nin3\nin4\nin5\nin6\n"

// coreStdinField: the stdin lines as the Lean driver expects them (x-hex, comma separated)
func coreStdinField(stdin string) string {
	if stdin == "" {
		return "-"
	}
	parts := []string{}
	for _, l := range strings.Split(strings.TrimSuffix(stdin, "\n"), "\n") {
		parts = append(parts, hx(l))
	}
	return strings.Join(parts, ",")
}

func featTags(f map[string]bool) []string {
	out := []string{}
	for k := range f {
		out = append(out, "f-"+k)
	}
	sort.Strings(out)
	return out
}

// coreCase evaluates src with the implementation and emits the record for the Lean driver.
func coreCase(c *Ctx, src string, tags []string, nt bool, oracle string) (Outcome, bool) {
	toks, unsupported, syn := coreSexp(src)
	if syn != "" {
		c.Em.Emit(Rec{Src: src, Impl: "syntax", Skip: "generator-syntax-error", Tags: tags})
		return Outcome{}, false
	}
	if unsupported != "" {
		c.Em.Emit(Rec{Src: src, Impl: "unsupported", Skip: "outside-core:" + unsupported, Tags: tags})
		return Outcome{}, false
	}
	if tf := os.Getenv("VERIF_TRACE"); tf != "" {
		os.WriteFile(tf, []byte(src), 0o644)
	}
	stdin := ""
	if strings.Contains(src, "<>") {
		stdin = coreStdin
	}
	o := coreRunIn(src, stdin)
	rec := Rec{Case: "CORE " + coreStdinField(stdin) + " " + coreFuel + " " + toks, Impl: coreOutcome(o), Src: src, NT: nt, Tags: append(tags, "outcome-"+o.Kind), Oracle: oracle}
	if o.Kind == "err" {
		rec.Tags = append(rec.Tags, "err-"+o.ErrKind)
	}
	if o.Kind == "fuel" {
		rec.Skip = "fuel"
	}
	if o.Kind == "panic" {
		rec.Oracle = "host-level panic: " + o.Panic
	}
	c.Em.Emit(rec)
	return o, true
}

// coreOne: replay / child process: -arg is a hex-encoded program; the outcome is the record's impl
func coreOne(c *Ctx) {
	b, _ := hex.DecodeString(c.Arg)
	coreCase(c, string(b), []string{"single"}, true, "")
}

// freshProcessOutcome evaluates src in a newly started process
func freshProcessOutcome(src string) (string, error) {
	dir, err := os.MkdirTemp("", "verif-core-")
	if err != nil {
		return "", err
	}
	defer os.RemoveAll(dir)
	of := filepath.Join(dir, "out.jsonl")
	cmd := exec.Command(os.Args[0], "-out", of, "-arg", hex.EncodeToString([]byte(src)), "CORESRC")
	cmd.Env = os.Environ()
	if outp, err := cmd.CombinedOutput(); err != nil {
		return "", fmt.Errorf("%v %s", err, outp)
	}
	b, err := os.ReadFile(of)
	if err != nil {
		return "", err
	}
	var rec Rec
	if err := json.Unmarshal([]byte(strings.TrimSpace(string(b))), &rec); err != nil {
		return "", err
	}
	return rec.Impl, nil
}

var coreInjections = []struct{ text, kind, msg string }{
	{"(boom(%d))", "ValueErr", "boom%d"},
	{"(ValueErr.new(\"direct%d\"))", "ValueErr", "direct%d"},
	{"(nope%d)", "NameErr", "name `nope%d` is not defined"},
	{"(%d // 0)", "ZeroDivisionErr", "cannot be divided by 0"},
	{"(%d.nope)", "NoPropErr", "property `nope` is not defined."},
	{"(StopIterErr.new(\"stop%d\"))", "StopIterErr", "stop%d"},
}

// orderProbes: model-free expectations taken from the property text: every t(k) is evaluated exactly once, in the order
// the property states; the expected stdout is listed with each probe.
var orderProbes = []struct{ src, want string }{
	{"f(t(1), t(2), kx: t(3), ky: t(4))", "1 2 3 4"},
	{"f(kx: t(3), t(1), ky: t(4), t(2))", "1 2 3 4"},
	{"f(t(1), kx: t(2), kx: t(3))", "1 2 3"},
	{"f(ky: t(2), kx: t(1), **{kz: t(3)})", "3 2 1"},
	{"f(t(1), *[t(2), t(3)], t(4))", "1 2 3 4"},
	{"[t(1), *[t(2)], t(3)]", "1 2 3"},
	{"{ka: t(1), kb: t(2), kc: t(3), kd: t(4)}", "1 2 3 4"},
	{"{ka: t(1), **{kb: t(2)}, **{kc: t(3)}}", "1 2 3"},
	{"%{t(1): t(2), t(3): t(4)}", "2 1 4 3"},
	{"\"#{t(1)}-#{t(2)}-#{t(3)}\"", "1 2 3"},
	{"(t(1):t(2):t(3))", "1 2 3"},
	{"(t(1) + t(2) * t(3))", "1 2 3"},
	{"t(1).+(t(2))", "1 2"},
	{"[t(1)]$(t(2)){|a, x| a + x}", "1 2"},
	{"[t(1), t(2)]@+(t(3))", "1 2 3"},
	{"t(1).{|x| t(2)}", "1 2"},
	{"(t(1) if t(2) else t(3))", "2 1"},
	{"{|kx: t(1), ky: t(2), kz: t(3), kw: t(4)| 0}", "1 2 3 4"},
	{"nil&.foo(t(1), kx: t(2))", "1 2"},
	{"nil&.foo(t(1))&.bar(t(2))", "1 2"},
	{"[nil, 3]&@+(t(1))", "1"},
	{"5~.nope(t(1), t(2))", "1 2"},
	{"\"#{<>}|#{<>}|#{<>}\".p", "in1|in2|in3"},
	{"[<>.S, <>.S, t(1), <>.S].p", "1 [\"in1\", \"in2\", 1, \"in3\"]"},
	{"f(<>.S.p, kx: <>.S.p, <>.S.p)", "in1 in2 in3"},
	{"{ka: <>.S, kb: <>.S}.p", "{\"ka\": \"in1\", \"kb\": \"in2\"}"},
	{"(<>.S + <>.S + <>.S).p", "in1in2in3"},
	{"f(t(1),\n                kx: t(2),\n  ky: t(3), kz: t(4))", "1 2 3 4"},
	{"f(kx: t(1), ky: t(2),\n kz: t(3))", "1 2 3"},
	{"f(                    kx: t(1),\n kx: t(2),\n        ky: t(3))", "1 2 3"},
	{"({|kx: 0, ky: 0| [kx, ky]}(          kx: 1,\n kx: 2,\n   ky: 3)).p", "[1, 3]"},
	{"{|kx: t(1),\n ky: t(2),\n     kz: t(3)| 0}", "1 2 3"},
	// the same literal evaluated several times (a function called twice, a chain body): every evaluation evaluates
	// every part again, with the values of that time
	{"g := {|k| [10, 20, 30, 40, 50, 60][::t(k)]}\ng(2).p\ng(3).p", "2 [10, 30, 50] 3 [10, 40]"},
	{"g := {|k| [1, (0:12:t(k))]}\ng(2).p\ng(3).p", "2 [1, (0:12:2)] 3 [1, (0:12:3)]"},
	{"g := {|k| [t(k), [t(k + 1)], (t(k + 2):9)]}\ng(1).p\ng(5).p", "1 2 3 [1, [2], (3:9:nil)] 5 6 7 [5, [6], (7:9:nil)]"},
	{"[2, 3]@{|k| [10, 20, 30, 40, 50, 60][::t(k)]}.p", "2 3 [[10, 30, 50], [10, 40]]"},
	{"g := {|k| {a: [t(k)], b: \"s#{t(k + 1)}\"}}\ng(1).p\ng(7).p", "1 2 {\"a\": [1], \"b\": \"s2\"} 7 8 {\"a\": [7], \"b\": \"s8\"}"},
	{"g := {|k| %{1: [t(k)]}}\ng(1).p\ng(7).p", "1 %{1: [1]} 7 %{1: [7]}"},
	{"g := {|k| \"abcdefg\"[t(k):]}\ng(2).p\ng(5).p", "2 cdefg 5 fg"},
	{"g := {|k| [[1, 2], [3, 4]][t(k)][t(0)]}\ng(0).p\ng(1).p", "0 0 1 1 0 3"},
	{"i := 0\ng := {|| [i, [i], (i:i + 1)]}\ng().p\ni := 5\ng().p", "[0, [0], (0:1:nil)] [5, [5], (5:6:nil)]"},
	{"g := {|x, y| [x, y]}\n1.^g(t(8))", "8"},
	{"g := {|x, y| [x, y]}\nt(1).^g", "1"},
}

// condProbes: model-free expectations for nested conditionals (also independent of how the parser groups them:
// every nesting is written with parentheses). t(k) prints k and returns it; 0 is falsy, the others truthy.
var condProbes = []struct{ src, want string }{
	{"((t(1) if t(2) else t(3)) if t(0) else t(4)).p", "0 4 4"},
	{"((t(1) if t(2) else t(3)) if t(5) else t(4)).p", "5 2 1 1"},
	{"((t(1) if t(0) else t(3)) if t(5) else t(4)).p", "5 0 3 3"},
	{"(t(1) if t(2) else (t(3) if t(0) else t(4))).p", "2 1 1"},
	{"(t(1) if t(0) else (t(3) if t(0) else t(4))).p", "0 0 4 4"},
	{"(t(1) if (t(2) if t(0) else t(0)) else t(3)).p", "0 0 3 3"},
	{"((t(1) && t(0)) || t(3)).p", "1 0 3 3"},
	{"((t(0) && t(2)) || t(3)).p", "0 3 3"},
	{"((t(1) || t(2)) && t(3)).p", "1 3 3"},
	{"((t(0) || t(0)) && t(3)).p", "0 0 0"},
	{"(t(1) && (t(0) || t(3))).p", "1 0 3 3"},
	{"(t(0) || (t(2) && t(0))).p", "0 2 0 0"},
	{"(t(1) || (t(2) && t(3))).p", "1 1"},
	{"(((t(1) && t(2)) && t(0)) || t(4)).p", "1 2 0 4 4"},
	{"(!(t(0) || t(0)) && t(5)).p", "0 0 5 5"},
	{"((t(1) if t(0)) || t(2)).p", "0 2 2"},
	{"({|| return t(1) if (t(0) || t(2)); t(3)}()).p", "0 2 1 1"},
	{"({|| return t(1) if (t(2) && t(0)); t(3)}()).p", "2 0 3 3"},
}

func genCore(c *Ctx, mode string) {
	if mode == "C12" {
		for i, pr := range condProbes {
			if c.Shards > 1 && i%c.Shards != c.Shard {
				continue
			}
			src := "t := {|v| v.p; v}\n" + pr.src + "\n"
			o := coreRun(src)
			got := strings.Join(strings.Fields(o.Stdout), " ")
			rec := Rec{Src: src, Impl: got, NT: true, Tags: []string{"cond-probe"}}
			if got != pr.want || o.Kind != "val" {
				rec.Oracle = fmt.Sprintf("operands evaluated / result [%s] (%s %s), the property states [%s]", got, o.Kind, o.ErrMsg, pr.want)
			}
			c.Em.Emit(rec)
		}
	}
	if mode == "C08" {
		for i, pr := range orderProbes {
			if c.Shards > 1 && i%c.Shards != c.Shard {
				continue
			}
			src := "t := {|v| v.p; v}\nf := {|a, b, c, d, kx: 0, ky: 0, kz: 0| 0}\n" + pr.src + "\n"
			for k := 0; k < 4; k++ { // several runs: Go map iteration starts at a random offset
				o := coreRunIn(src, coreStdin)
				got := strings.Join(strings.Fields(o.Stdout), " ")
				rec := Rec{Src: src, Impl: got, NT: k == 0, Tags: []string{"order-probe"}}
				if got != pr.want || o.Kind != "val" {
					rec.Oracle = fmt.Sprintf("sub-expressions evaluated in order [%s] (%s %s), the property states [%s]", got, o.Kind, o.ErrMsg, pr.want)
				}
				c.Em.Emit(rec)
			}
		}
	}
	if mode == "C08" {
		layoutProbes(c)
	}
	if mode == "C07" {
		failStopProbes(c)
	}
	if mode == "C03" {
		for i, pr := range bindProbes {
			if c.Shards > 1 && i%c.Shards != c.Shard {
				continue
			}
			o := coreRun(pr.src + "\n")
			got := strings.Join(strings.Fields(o.Stdout), " ")
			rec := Rec{Src: pr.src, Impl: got, NT: true, Tags: []string{"bind-probe"}}
			if o.Kind == "syntax" {
				rec.Skip = "probe-does-not-parse"
			} else if got != pr.want || o.Kind != "val" {
				rec.Oracle = fmt.Sprintf("binding gives [%s] (%s %s), the property states [%s]", got, o.Kind, o.ErrMsg, pr.want)
			}
			c.Em.Emit(rec)
		}
	}
	if mode == "C07" && c.Shard == 0 {
		for _, src := range []string{"g := {|x, y| [x, y]}\n1.^g(ValueErr.new(\"dropped\")).p\n\"after\".p\n"} {
			o := coreRun(src)
			rec := Rec{Src: src, Impl: coreOutcome(o), NT: true, Tags: []string{"probe"}}
			if !(o.Kind == "err" && o.ErrMsg == "dropped") {
				rec.Oracle = "a raise in the argument list of a variable call is dropped: " + coreOutcome(o)
			}
			c.Em.Emit(rec)
		}
	}
	if mode == "C07" {
		repeatRaiseProbes(c)
	}
	n := map[string]int{"C03": 2000, "C07": 300, "C08": 800, "C14": 1500, "C06": 1200, "C12": 1500, "C15": 1500}[mode]
	if c.Thorough() {
		n *= 10
	}
	bias := map[string]byte{"C03": 'F', "C07": 0, "C08": 'E', "C14": 'T', "C06": 'K', "C12": 'C', "C15": 'D'}[mode]
	for i := 0; i < n; i++ {
		root, feat := genCoreProgram(c.Rng, 2+c.Rng.Intn(2), bias)
		tags := append(featTags(feat), "plain")
		src := root.text()
		switch mode {
		case "C03", "C14", "C06", "C12", "C15":
			if !c.Mine() {
				continue
			}
			coreCase(c, src, tags, true, "")
		case "C08":
			if !c.Mine() {
				continue
			}
			o, ok := coreCase(c, src, tags, true, "")
			if !ok || o.Kind == "fuel" {
				continue
			}
			// reproducibility: the same program again in this process (new interpreter, new map seeds) and, for a sample, in a new process
			first := coreOutcome(o)
			for k := 0; k < 2; k++ {
				sin := ""
				if strings.Contains(src, "<>") {
					sin = coreStdin
				}
				again := coreOutcome(coreRunIn(src, sin))
				if again != first {
					c.Em.Emit(Rec{Src: src, Impl: again, NT: true, Tags: []string{"rerun"}, Oracle: "a repeated run differs: first " + first + " then " + again})
				} else {
					c.Em.Emit(Rec{Src: src, Impl: again, NT: false, Tags: []string{"rerun"}})
				}
			}
			if i%4 == 0 {
				other, err := freshProcessOutcome(src)
				rec := Rec{Src: src, Impl: other, NT: false, Tags: []string{"new-process"}}
				if err != nil {
					rec.Skip = "child-failed"
				} else if other != first {
					rec.Oracle = "a run in a new process differs: here " + first + " there " + other
					rec.NT = true
				}
				c.Em.Emit(rec)
			}
		case "C07":
			// the uninjected program, then the program with a raise at each expression position
			nodes := []*gnode{}
			root.collect(&nodes)
			prelude := "boom := {|k| \"boom\".p; raise ValueErr.new(\"boom\" + k.S)}\n"
			var base Outcome
			baseOK := false
			if c.Mine() {
				base, baseOK = coreCase(c, prelude+src, tags, true, "")
			}
			canDirect := !feat["defer"] && !strings.Contains(src, "~@") && !strings.Contains(src, "~.") && !strings.Contains(src, "~$")
			per := 12
			if c.Thorough() {
				per = 40
			}
			for k, node := range nodes {
				if len(nodes) > per && c.Rng.Intn(len(nodes)) >= per {
					continue
				}
				inj := coreInjections[c.Rng.Intn(len(coreInjections))]
				if node.pos == "pair-key" && inj.kind == "NameErr" {
					inj = coreInjections[0] // `{(name): v}` is the identifier-key sugar: a bare name does not raise there
				}
				if !c.Mine() {
					continue
				}
				var sb strings.Builder
				root.render(&sb, node, fmt.Sprintf(inj.text, k))
				isrc := prelude + sb.String()
				itags := append(append([]string{}, tags[:len(tags)-1]...), "injected", "pos-"+node.pos, "inj-"+inj.kind)
				toks, unsupported, syn := coreSexp(isrc)
				if syn != "" || unsupported != "" {
					c.Em.Emit(Rec{Src: isrc, Impl: "syntax", Skip: "generator-syntax-error", Tags: itags})
					continue
				}
				o := coreRun(isrc)
				rec := Rec{Case: "CORE - " + coreFuel + " " + toks, Impl: coreOutcome(o), Src: isrc, NT: true, Tags: append(itags, "outcome-"+o.Kind)}
				if o.Kind == "fuel" {
					rec.Skip = "fuel"
				} else if o.Kind == "panic" {
					rec.Oracle = "host-level panic: " + o.Panic
				} else if baseOK && canDirect && base.Kind != "fuel" {
					rec.Oracle = failStopOracle(base, o, fmt.Sprintf(inj.msg, k), inj.kind)
				}
				if rec.Oracle == "" && o.Kind == "err" && o.ErrMsg == fmt.Sprintf(inj.msg, k) {
					rec.Tags = append(rec.Tags, "raise-reached")
				}
				c.Em.Emit(rec)
			}
		}
	}
}

// failStopOracle (no model involved): either the injected position is never reached and the run equals the base
// run, or the run ends with exactly the injected error and its output is a prefix of the base output
// (plus the marker printed by boom immediately before raising).
func failStopOracle(base, inj Outcome, msg string, kind string) string {
	bl := strings.Split(strings.TrimSuffix(base.Stdout, "\n"), "\n")
	il := strings.Split(strings.TrimSuffix(inj.Stdout, "\n"), "\n")
	if base.Stdout == "" {
		bl = nil
	}
	if inj.Stdout == "" {
		il = nil
	}
	raised := inj.Kind == "err" && inj.ErrKind == kind && inj.ErrMsg == msg
	if !raised {
		// not reached (or the base program failed earlier): must behave as the base run
		if inj.Kind == base.Kind && inj.Stdout == base.Stdout && inj.ErrKind == base.ErrKind && inj.ErrMsg == base.ErrMsg && (inj.Kind != "val" || coreRepr(inj.Obj) == coreRepr(base.Obj)) {
			return ""
		}
		if kind == "ZeroDivisionErr" || kind == "NoPropErr" {
			// the same kind/message may stem from the base program: undecidable here, the model comparison decides
			return ""
		}
		return fmt.Sprintf("injected raise (%s: %s) neither ended the program nor left it unchanged: base %s/%s %q, injected %s/%s %q value %s", kind, msg, base.Kind, base.ErrMsg, base.Stdout, inj.Kind, inj.ErrMsg, inj.Stdout, coreRepr(inj.Obj))
	}
	if strings.HasPrefix(msg, "boom") {
		if len(il) == 0 || il[len(il)-1] != "boom" {
			return fmt.Sprintf("output continued after the raise: %q", inj.Stdout)
		}
		il = il[:len(il)-1]
	}
	if len(il) > len(bl) {
		return fmt.Sprintf("more output than the base run before the raise: base %q injected %q", base.Stdout, inj.Stdout)
	}
	for i := range il {
		if il[i] != bl[i] {
			return fmt.Sprintf("output differs from the base run before the raise: base %q injected %q", base.Stdout, inj.Stdout)
		}
	}
	return ""
}

// bindProbes (no model involved, and independent of how the parser desugars literals): fixed programs with the
// bindings the property states
var bindProbes = []struct{ src, want string }{
	{"{|a, b, c| [a, b, c]}(1, 2).p", "[1, 2, nil]"},
	{"{|a| [a, \\0]}(1, 2, 3).p", "[1, [1, 2, 3]]"},
	{"{|a, k: 5, j: 6| [a, k, j, \\_]}(1, j: 9).p", "[1, 5, 9, {\"j\": 9}]"},
	{"{|a, k: 5| [a, k]}(k: 7, 1).p", "[1, 7]"},
	{"{[\\, \\1, \\2, \\0]}(4, 5).p", "[4, 4, 5, [4, 5]]"},
	{"{|a, b| [a, b]}(*[1, 2, 3]).p", "[1, 2]"},
	{"{|a, k: 0| [a, k, \\k]}(1, **{k: 2}).p", "[1, 2, 2]"},
	{"o := {v: 1, get: m{self.v}, add: m{|n| self.v + n}}\n[o.get, o.add(2)].p", "[1, 3]"},
	{"o := {v: 1, add: m{|self, n| [n, \\0.len]}}\no.add(5, 7).p", "[7, 3]"},
	{"o := {v: 1, f: {|x, n| [x.v, n]}}\no.f(5).p", "[1, 5]"},
	{"o := {v: 1, w: m{|a, b| [self.v, a, b, \\0.len]}}\no.w(2).p", "[1, 2, nil, 3]"},
	{"f := {|x| x * 2}\n[3.^f, [1, 2]@^f].p", "[6, [2, 4]]"},
	{"g := {|x| .v + x.v}\n{v: 4}.{|r| g(r)}.p", "8"},
	{"x := 1\nf := {|| x}\nx := 2\n[f(), {|| x := 9; f()}(), x].p", "[2, 2, 2]"},
	{"x := 1\nmk := {|| {|| x}}\nh := mk()\na := h()\nx := 5\n[a, h(), {|x| h()}(7)].p", "[1, 5, 5]"},
	{"x := 1\nf := {|| x := 2; x += 3; x}\n[f(), x].p", "[5, 1]"},
}

// failStopProbes (no model involved): fixed programs, one per shape that a fail-stop defect has been seen to need (a
// yield before the raise, defers before and after it, a raise in a default / guard / chain step / nested call ...).
// Each prints markers; `want` lists what must be printed, and the program must end with ValueErr "boom".
var failStopProbeList = []struct{ src, want string }{
	{"f := {|a| yield 1; boom(); 3}\nf(0).p\n\"after\".p", ""},
	{"f := {|a| \"b1\".p; yield 1; \"b2\".p; boom(); \"b3\".p}\nx := f(0)\n\"after\".p", "b1 b2"},
	{"it := <{|i| yield i; boom(); recur(i + 1)}>.new(1)\nit.next.p\n\"after\".p", ""},
	{"f := {|a| defer \"d1\".p; defer \"d2\".p; boom(); defer \"d3\".p; 1}\nf(0)\n\"after\".p", "d1 d2"},
	{"f := {|a| defer \"d1\".p; yield 5; defer \"d2\".p; boom()}\nf(0).p\n\"after\".p", "d1 d2"},
	{"f := {|a, k: boom()| 1}\n\"after\".p", ""},
	{"mk := {|d| {|n, by: d.{|z| boom() if z == 0; z}| n}}\nmk(5)(1).p\nmk(0)(1).p\n\"after\".p", "1"},
	{"f := {|a| return 1 if boom(); 2}\nf(0).p\n\"after\".p", ""},
	{"f := {|a| defer \"d\".p if boom(); \"body\".p}\nf(0)\n\"after\".p", ""},
	{"[1, 2, 3]@{|x| \"e#{x}\".p; boom() if x == 2; x}.p\n\"after\".p", "e1 e2"},
	{"[1, 2, 3]$(0){|acc, x| \"e#{x}\".p; boom() if x == 2; acc + x}.p\n\"after\".p", "e1 e2"},
	{"g := {|x| boom()}\nf := {|a| \"in\".p; g(a); \"out\".p}\n[f(1)].p\n\"after\".p", "in"},
	{"f := {|a, b, kx: 0| 1}\nf(t(1), boom(), kx: t(3))\n\"after\".p", "1"},
	{"f := {|a, b, kx: 0, ky: 0| 1}\nf(t(1), kx: boom(), ky: t(3))\n\"after\".p", "1"},
	{"{a: t(1), b: boom(), c: t(3)}\n\"after\".p", "1"},
	{"%{t(1): t(2), boom(): t(4)}\n\"after\".p", "2 1 4"},
	{"\"#{t(1)}#{boom()}#{t(3)}\"\n\"after\".p", "1"},
	{"(t(1):boom():t(3))\n\"after\".p", "1"},
	{"x := (t(1) + boom() + t(3))\n\"after\".p", "1"},
	{"(t(1) if boom() else t(3))\n\"after\".p", ""},
	{"(t(1) && boom() && t(3))\n\"after\".p", "1"},
	{"(t(0) || boom() || t(3))\n\"after\".p", "0"},
	{"o := {m: m{|x| boom()}}\no.m(t(1)).p\n\"after\".p", "1"},
	{"5.{|x| boom()}.{|y| \"s2\".p}\n\"after\".p", ""},
	{"f := {|a| defer {|| defer \"i1\".p; \"i2\".p}(); boom()}\nf(0)\n\"after\".p", "i2 i1"},
	{"a := [t(1), *[t(2), boom()], t(4)]\n\"after\".p", "1 2"},
	{"f := {|kx: 0| kx}\nf(**{kx: t(1), b: boom()})\n\"after\".p", "1"},
	// functions handed to the library (matching, selecting, mapping): a raise inside them is the call's error
	{"bp := {|x| boom()}\n(\"abc\" === bp).p\n\"after\".p", ""},
	{"bp := {|x| boom()}\n(\"abc\" !== bp).p\n\"after\".p", ""},
	{"bp := {|x| t(x); boom() if x == 3; true}\n[1, 3, 5].grep(bp).p\n\"after\".p", "1 3"},
	{"bp := {|x| boom()}\n\"abc\".case(%{bp: 1, Str: 2}).p\n\"after\".p", ""},
	{"[1, 2, 3].all?{|x| t(x); boom() if x == 2; true}.p\n\"after\".p", "1 2"},
	{"[1, 2, 3].any?{|x| t(x); boom() if x == 2; false}.p\n\"after\".p", "1 2"},
	{"[1, 2, 3].select{|x| t(x); boom() if x == 2; true}.p\n\"after\".p", "1 2"},
	{"[1, 2, 3].exclude{|x| t(x); boom() if x == 2; true}.p\n\"after\".p", "1 2"},
	{"[1, 2, 3].map{|x| t(x); boom() if x == 2; x}.p\n\"after\".p", "1 2"},
	{"[1, 2, 3].keyBy{|x| t(x); boom() if x == 2; x}.p\n\"after\".p", "1 2"},
	{"5.tap{|x| t(x); boom()}.p\n\"after\".p", "5"},
	{"[1, 2, 3].index{|x| boom()}.p\n\"after\".p", ""},
}

func failStopProbes(c *Ctx) {
	prelude := "boom := {|| raise ValueErr.new(\"boom\")}\nt := {|v| v.p; v}\n"
	for i, pr := range failStopProbeList {
		if c.Shards > 1 && i%c.Shards != c.Shard {
			continue
		}
		o := coreRun(prelude + pr.src + "\n")
		got := strings.Join(strings.Fields(o.Stdout), " ")
		rec := Rec{Src: pr.src, Impl: coreOutcome(o), NT: true, Tags: []string{"fail-stop-probe"}}
		if o.Kind == "syntax" {
			rec.Skip = "probe-does-not-parse"
		} else if !(o.Kind == "err" && o.ErrKind == "ValueErr" && o.ErrMsg == "boom") {
			rec.Oracle = fmt.Sprintf("the raise did not end the program: it ended with %s %s %s after printing [%s]", o.Kind, o.ErrKind, o.ErrMsg, got)
		} else if got != pr.want {
			rec.Oracle = fmt.Sprintf("printed [%s] around the raise, the property states [%s]", got, pr.want)
		}
		c.Em.Emit(rec)
	}
}

// repeatRaiseProbes (no model involved): an explicitly called function that raises is called several times in one
// program, each time under another nearest handler (Either step, thoughtful chain, none). The property's wording is
// per raise: every one of them delivers the same kind and message, however many times it has been raised (and
// handled) before. The raisers include modules imported by relative path whose top level raises.
func repeatRaiseProbes(c *Ctx) {
	dir, err := os.MkdirTemp("", "verif-c07rep-")
	if err != nil {
		return
	}
	defer os.RemoveAll(dir)
	write := func(name, content string) { os.WriteFile(filepath.Join(dir, name), []byte(content), 0o644) }
	prelude := "boom := {|k| \"boom\".p; raise ValueErr.new(\"boom\" + k.S)}\n"
	type raiser struct{ pre, expr string }
	rs := []raiser{}
	for i, inj := range coreInjections {
		body := "v := " + fmt.Sprintf(inj.text, i)
		if strings.HasPrefix(inj.text, "(boom(") {
			body = "raise ValueErr.new(\"boomed\")"
		}
		write(fmt.Sprintf("failing%d.pangaea", i), fmt.Sprintf("name := \"mod%d\"\n\"loading\".p\n%s\nafter := 1\n", i, body))
		rs = append(rs, raiser{"", fmt.Sprintf("import(\"./failing%d\")", i)}, raiser{"", fmt.Sprintf("invite!(\"./failing%d\")", i)})
		rs = append(rs, raiser{"", fmt.Sprintf(inj.text, i)})
		rs = append(rs, raiser{fmt.Sprintf("g := {|x| y := x; %s; y}\n", fmt.Sprintf(inj.text, i)), "g(1)"})
		rs = append(rs, raiser{fmt.Sprintf("o := {m: m{|x| %s}}\n", fmt.Sprintf(inj.text, i)), "o.m(2)"})
	}
	write("syntaxbad.pangaea", "a := (1 +\n")
	write("nested.pangaea", "inner := import(\"./failing0\")\nx := 1\n")
	write("healthy.pangaea", "name := \"ok\"\nf := {|x| raise TypeErr.new(\"from module \" + x.S)}\n")
	rs = append(rs, raiser{"", "import(\"./nosuchmodule\")"}, raiser{"", "import(\"./syntaxbad\")"}, raiser{"", "import(\"./nested\")"},
		raiser{"", "import(\"nosuchstdmodule\")"}, raiser{"h := import(\"./healthy\")\n", "h.f(5)"}, raiser{"", "import(\"./healthy\").f(6)"},
		raiser{"it := <{|i| yield i if i < 2; recur(i + 1)}>.new(0)\nit.next\nit.next\n", "it.next"},
		raiser{"", "[1, 2]@{|x| boom(x)}"}, raiser{"", "Int.new(\"z\")"}, raiser{"", "assert(1 == 2)"}, raiser{"", "raise TypeErr.new(\"plain\")"})
	handlers := []string{"try", "thoughtful", "try", "or"}
	for i, r := range rs {
		if c.Shards > 1 && i%c.Shards != c.Shard {
			continue
		}
		run := func(src string) Outcome {
			it := NewInterp()
			env := object.NewEnclosedEnv(it.base)
			env.SetSourceFilePath(filepath.Join(dir, "main.pangaea"))
			return it.RunIn(env, src, "", 30000)
		}
		ref := run(prelude + r.pre + r.expr + "\n")
		if ref.Kind != "err" {
			c.Em.Emit(Rec{Src: r.pre + r.expr, Impl: ref.Kind, Skip: "raiser-does-not-raise", Tags: []string{"repeat-raise"}})
			continue
		}
		n := 1 + c.Rng.Intn(4)
		var sb strings.Builder
		sb.WriteString(prelude + r.pre)
		want := []string{}
		for k := 0; k < n; k++ {
			switch handlers[(k+i)%len(handlers)] {
			case "try":
				sb.WriteString(fmt.Sprintf("e%d := 0.try.{%s}\n[\"#%d\", e%d.val, e%d.err.msg, e%d.err.proto == %s].p\n", k, r.expr, k, k, k, k, ref.ErrKind))
				want = append(want, fmt.Sprintf("[\"#%d\", nil, %s, true]", k, object.NewPanStr(ref.ErrMsg).Inspect()))
			case "or":
				sb.WriteString(fmt.Sprintf("[\"#%d\", 0.try.{%s}.or('dflt)].p\n", k, r.expr))
				want = append(want, fmt.Sprintf("[\"#%d\", \"dflt\"]", k))
			default:
				sb.WriteString(fmt.Sprintf("[\"#%d\", 'fallback~.{%s}].p\n", k, r.expr))
				want = append(want, fmt.Sprintf("[\"#%d\", \"fallback\"]", k))
			}
		}
		sb.WriteString("\"#mark\".p\n" + r.expr + "\n\"#unreachable\".p\n")
		want = append(want, "#mark")
		o := run(sb.String())
		got := []string{}
		for _, l := range strings.Split(o.Stdout, "\n") {
			if strings.HasPrefix(l, "[\"#") || strings.HasPrefix(l, "#") {
				got = append(got, l)
			}
		}
		rec := Rec{Src: sb.String(), Impl: coreOutcome(o), NT: true, Tags: []string{"repeat-raise", fmt.Sprintf("repeat-%d", n), "outcome-" + o.Kind}}
		if o.Kind == "syntax" || o.Kind == "fuel" {
			rec.Skip = "generator-" + o.Kind
		} else if strings.Join(got, "\n") != strings.Join(want, "\n") {
			rec.Oracle = fmt.Sprintf("a raise of `%s` (%s: %s) was not delivered to its nearest handler each time: handler lines %q, the property states %q", r.expr, ref.ErrKind, ref.ErrMsg, got, want)
		} else if !(o.Kind == "err" && o.ErrKind == ref.ErrKind && o.ErrMsg == ref.ErrMsg) {
			rec.Oracle = fmt.Sprintf("the unhandled raise of `%s` did not end the program with %s: %s after %d handled raises: %s %s %s", r.expr, ref.ErrKind, ref.ErrMsg, n, o.Kind, o.ErrKind, o.ErrMsg)
		}
		c.Em.Emit(rec)
	}
}

// layoutProbes: programs over objects and maps with several pairs (some values raise in their `==` / `S` hooks, some
// are unequal, some nested) observed through everything that walks the pairs: equality, printing, keys/values/items,
// ** unpacking into literals and calls, iteration. Model-free oracle: ten runs give the same output, value and error
// (each Go map range starts at a random offset, so an order-dependent result shows up within a few runs).
func layoutProbes(c *Ctx) {
	vals := []string{"1", "2", "\"s\"", "picky", "[1, 2]", "{z: 1}", "nil", "sticky", "3"}
	keys := []string{"a", "b", "c", "d", "e", "f", "g", "h"}
	ops := []string{
		"(o1 == o2).p", "(o1 != o2).p", "(m1 == m2).p", "o1.S.p", "o1.repr.p", "o1.keys.p", "o1.values.len.p", "o1.items.len.p", "m1.keys.p", "m1.S.p",
		"{**o1, **o2}.keys.p", "%{**m1, **m2}.keys.p", "fk(**o1).p", "fk(**o1, **o2).p", "o1@{|k, v| k}.p", "m1@{|k, v| k}.p", "([o1] == [o2]).p",
		"(%{1: o1} == %{1: o2}).p", "o1.bear({zz: 1}).keys.p", "o1.has?('a).p", "[o1, o2, o1].uniq.len.p", "o1.A.len.p", "(o1 == o1).p", "m1.items.p", "o2.values.S.p",
	}
	n := 60
	if c.Thorough() {
		n = 600
	}
	for i := 0; i < n; i++ {
		mk := func() (string, string) {
			k := 2 + c.Rng.Intn(6)
			op, mp := []string{}, []string{}
			for j := 0; j < k; j++ {
				v := vals[c.Rng.Intn(len(vals))]
				op = append(op, keys[j]+": "+v)
				mp = append(mp, "'"+keys[j]+": "+v)
			}
			return "{" + strings.Join(op, ", ") + "}", "%{" + strings.Join(mp, ", ") + "}"
		}
		o1, m1 := mk()
		o2, m2 := mk()
		if c.Rng.Intn(3) == 0 {
			o2, m2 = o1, m1
		}
		body := []string{}
		for j := 0; j < 3; j++ {
			body = append(body, "1.try.fmap {|w| "+strings.TrimSuffix(ops[c.Rng.Intn(len(ops))], ".p")+"}.A.p")
		}
		// keys and parameter names that print alike (floats equal to six decimals, a duplicated keyword parameter)
		alike := []string{"0.12345611", "0.12345612", "0.12345613", "(0.1 + 0.2)", "0.3", "0.0000001", "0.0000002", "1", "2"}
		ap := []string{}
		for j, k := 0, 2+c.Rng.Intn(5); j < k; j++ {
			ap = append(ap, fmt.Sprintf("%s: %d", alike[c.Rng.Intn(len(alike))], j))
		}
		dn := []string{"a", "a", "b", "a"}
		dp := []string{}
		for j, k := 0, 2+c.Rng.Intn(3); j < k; j++ {
			dp = append(dp, fmt.Sprintf("%s: %d", dn[c.Rng.Intn(len(dn))], j))
		}
		if c.Rng.Intn(3) == 0 {
			// keyword arguments that arrive through `**` with several private names, enumerated by the callee
			body = append(body, "po := {_alpha: 1, _beta: 2, _gamma: 3, _delta: 4, _eps: 5, pub: 6}\nfp := {|| [\\_.keys(private?: true), %{**\\_}.keys, \\_.items(private?: true).len, \\_.values(private?: true)]}\n"+
				"fp(**po).p\nfp(x: 0, **po).p\nfp(**po, **{_zeta: 7, _aa: 8}).p\n{**po, **{_zeta: 7}}.keys(private?: true).p")
		}
		if c.Rng.Intn(3) == 0 {
			// str keys that would print alike under a careless escaping (a control character / its backslash spelling)
			body = append(body, "o3 := {\"a\\nb\": 1, `a\\nb`: 2, \"t\\tx\": 3, `t\\tx`: 4, \"q\": 5}\no3.p\no3.repr.p\no3.S.p\n[o3].p\no3.keys.p\n\"#{o3}\".p",
				"m4 := %{\"a\\nb\": 1, `a\\nb`: 2, \"r\\rx\": 3, `r\\rx`: 4}\nm4.p\nm4.repr.p\nm4.keys.p")
		}
		if c.Rng.Intn(2) == 0 {
			body = append(body, "m3 := %{"+strings.Join(ap, ", ")+"}\nm3.p\nm3.S.p\nm3.repr.p\n[m3].p\n{a: m3}.p",
				"fd := {|"+strings.Join(dp, ", ")+"| a}\nfd.p\nfd.S.p\nfd.repr.p\n[fd, <{|"+strings.Join(dp, ", ")+"| yield a}>].p\nfd().p\nfd.kwargs.p")
		}
		src := "picky := {'==: m{|o| raise ValueErr.new(\"picky\")}, S: m{\"P\"}}\nsticky := {'==: m{|o| false}, S: m{raise TypeErr.new(\"sticky\")}}\n" +
			"fk := {|a: 0, b: 0, c: 0| [a, b, c, \\_.keys]}\n" +
			"o1 := " + o1 + "\no2 := " + o2 + "\nm1 := " + m1 + "\nm2 := " + m2 + "\n" + strings.Join(body, "\n") + "\n"
		if !c.Mine() {
			continue
		}
		first := ""
		var rec Rec
		for k := 0; k < 10; k++ {
			o := coreRun(src)
			got := o.Kind + "|" + o.ErrKind + "|" + o.ErrMsg + "|" + o.Stdout
			if k == 0 {
				first = got
				rec = Rec{Src: src, Impl: got, NT: true, Tags: []string{"layout-probe", "outcome-" + o.Kind}}
				if o.Kind == "syntax" {
					rec.Skip = "generator-syntax-error"
					break
				}
			} else if got != first {
				rec.Oracle = fmt.Sprintf("run %d differs from the first run: %q vs %q", k+1, got, first)
				break
			}
		}
		if len(rec.Impl) > 2000 {
			rec.Impl = rec.Impl[:2000]
		}
		c.Em.Emit(rec)
	}
}
