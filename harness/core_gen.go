//go:build verif

package main

// Program generator for the Core language (closures, argument binding, methods, chains, iterators, side-effecting
// sub-expressions, raises). Programs are built as trees so that any expression position can be replaced by a raise.

import (
	"fmt"
	"strings"
)

type gnode struct {
	parts      []interface{} // string | *gnode
	injectable bool
	pos        string // position class of this node in its parent (operand, element, argument, ...)
}

func gn(parts ...interface{}) *gnode { return &gnode{parts: parts} }

func (n *gnode) render(sb *strings.Builder, inject *gnode, with string) {
	if n == inject {
		sb.WriteString(with)
		return
	}
	for _, p := range n.parts {
		switch v := p.(type) {
		case string:
			sb.WriteString(v)
		case *gnode:
			v.render(sb, inject, with)
		}
	}
}

func (n *gnode) text() string {
	var sb strings.Builder
	n.render(&sb, nil, "")
	return sb.String()
}

func (n *gnode) collect(out *[]*gnode) {
	if n.injectable {
		*out = append(*out, n)
	}
	for _, p := range n.parts {
		if c, ok := p.(*gnode); ok {
			c.collect(out)
		}
	}
}

type gvar struct {
	name string
	typ  byte // I S A O F T(iterator object) G(iterator literal)
	ar   int  // arity for F
}

type gctx struct {
	r      *Rng
	vars   []gvar
	inFunc bool
	nparam int
	depth  int
	feat   map[string]bool // features used (tags)
	budget int
	bias   byte // 'F' functions, 'T' iterators, 'E' side effects incl. stdin reads, 0 none
}

func (g *gctx) use(f string) { g.feat[f] = true }

func (g *gctx) pickVar(typ byte) (gvar, bool) {
	c := []gvar{}
	for _, v := range g.vars {
		if v.typ == typ {
			c = append(c, v)
		}
	}
	if len(c) == 0 {
		return gvar{}, false
	}
	return c[g.r.Intn(len(c))], true
}

// pos marks a child node as an injectable expression position of the given class
func pos(class string, n *gnode) *gnode {
	n.injectable = true
	n.pos = class
	return n
}

func (g *gctx) lit() *gnode { return gn(fmt.Sprint(g.r.Intn(7))) }

func (g *gctx) genI(d int) *gnode {
	g.budget--
	if d <= 0 || g.budget < 0 {
		if v, ok := g.pickVar('I'); ok && g.r.Bool() {
			return gn(v.name)
		}
		return g.lit()
	}
	switch g.r.Intn(18) {
	case 0, 1:
		return g.lit()
	case 2:
		if v, ok := g.pickVar('I'); ok {
			return gn(v.name)
		}
		return g.lit()
	case 3, 4, 5:
		g.use("trace")
		return gn("t(", pos("argument", g.genI(d-1)), ")")
	case 6, 7:
		op := []string{"+", "-", "*"}[g.r.Intn(3)]
		return gn("(", pos("operand", g.genI(d-1)), " "+op+" ", pos("operand", g.genI(d-1)), ")")
	case 8:
		g.use("index")
		return gn(pos("receiver", g.genA(d-1)), "[", pos("index", gn(fmt.Sprint(g.r.Intn(2)))), "]")
	case 9:
		if f, ok := g.pickVar('F'); ok {
			g.use("call")
			return gn(f.name, "(", g.genArgs(d-1, f.ar), ")")
		}
		return g.lit()
	case 10:
		g.use("immediate-call")
		return gn("{|x, y| t(x) + 1}(", g.genArgs(d-1, 2), ")")
	case 11:
		g.use("literal-call")
		return gn(pos("receiver", g.genI(d-1)), ".{|x| x * 2}")
	case 12:
		g.use("if")
		return gn("(", pos("branch", g.genI(d-1)), " if ", pos("condition", g.genB(d-1)), " else ", pos("branch", g.genI(d-1)), ")")
	case 13:
		if g.inFunc && g.nparam > 0 {
			g.use("argvar")
			return gn([]string{"\\1", "\\", fmt.Sprintf("\\%d", 1+g.r.Intn(g.nparam))}[g.r.Intn(3)])
		}
		return g.lit()
	case 14:
		g.use("len")
		return gn(pos("receiver", g.genA(d-1)), ".len")
	case 15:
		if o, ok := g.pickVar('M'); ok {
			g.use("prop")
			if g.r.Bool() {
				return gn(o.name, ".ka")
			}
			g.use("method")
			return gn(o.name, ".madd(", pos("argument", g.genI(d-1)), ")")
		}
		return g.lit()
	case 16:
		g.use("reduce")
		return gn(pos("receiver", g.genA(d-1)), "$(", pos("chain-argument", g.genI(d-1)), "){|acc, x| acc + t(x) + ", pos("chain-body", gn("0")), "}")
	default:
		g.use("prefix")
		return gn("(-", pos("operand", g.genI(d-1)), ")")
	}
}

// flatI: brace-free int expressions (the lexer does not allow `}` inside `#{ }`)
func (g *gctx) flatI(d int) *gnode {
	if d <= 0 {
		if v, ok := g.pickVar('I'); ok && g.r.Bool() {
			return gn(v.name)
		}
		return g.lit()
	}
	switch g.r.Intn(4) {
	case 0:
		return gn("t(", pos("argument", g.flatI(d-1)), ")")
	case 1:
		return gn("(", pos("operand", g.flatI(d-1)), " + ", pos("operand", g.flatI(d-1)), ")")
	case 2:
		if f, ok := g.pickVar('F'); ok && f.ar <= 1 {
			return gn(f.name, "(", pos("argument", g.flatI(d-1)), ")")
		}
		return g.lit()
	default:
		return g.flatI(0)
	}
}

func (g *gctx) genB(d int) *gnode {
	g.budget--
	if d <= 0 || g.budget < 0 {
		return gn([]string{"true", "false"}[g.r.Intn(2)])
	}
	switch g.r.Intn(7) {
	case 0:
		return gn("true")
	case 1:
		return gn("false")
	case 2, 3:
		op := []string{"<", "==", ">=", "!="}[g.r.Intn(4)]
		return gn("(", pos("operand", g.genI(d-1)), " "+op+" ", pos("operand", g.genI(d-1)), ")")
	case 4:
		g.use("shortcut")
		op := []string{"&&", "||"}[g.r.Intn(2)]
		return gn("(", pos("operand", g.genB(d-1)), " "+op+" ", pos("shortcut-right", g.genB(d-1)), ")")
	case 5:
		return gn("(!", pos("operand", g.genB(d-1)), ")")
	default:
		return gn("(", pos("operand", g.genI(d-1)), " == ", pos("operand", g.genI(d-1)), ")")
	}
}

func (g *gctx) genS(d int) *gnode {
	g.budget--
	if g.bias == 'E' && g.r.Intn(4) == 0 {
		g.use("stdin")
		return gn("<>.S")
	}
	if d <= 0 || g.budget < 0 {
		return gn(fmt.Sprintf("\"s%d\"", g.r.Intn(5)))
	}
	switch g.r.Intn(6) {
	case 0:
		return gn(fmt.Sprintf("\"s%d\"", g.r.Intn(5)))
	case 1:
		if v, ok := g.pickVar('S'); ok {
			return gn(v.name)
		}
		return gn("\"v\"")
	case 2, 3:
		g.use("embedded")
		return gn("\"a#{", pos("embedded-part", g.flatI(2)), "}b#{", pos("embedded-part", g.flatI(2)), "}c#{", pos("embedded-part", g.flatI(1)), "}\"")
	case 4:
		return gn("(", pos("operand", g.genS(d-1)), " + ", pos("operand", g.genS(d-1)), ")")
	default:
		return gn(pos("receiver", g.genI(d-1)), ".S")
	}
}

func (g *gctx) genA(d int) *gnode {
	g.budget--
	if d <= 0 || g.budget < 0 {
		if v, ok := g.pickVar('A'); ok && g.r.Bool() {
			return gn(v.name)
		}
		return gn("[1, 2]")
	}
	switch g.r.Intn(9) {
	case 0, 1:
		n := gn("[")
		k := g.r.Intn(4)
		for i := 0; i < k; i++ {
			if i > 0 {
				n.parts = append(n.parts, ", ")
			}
			n.parts = append(n.parts, pos("element", g.genI(d-1)))
		}
		n.parts = append(n.parts, "]")
		return n
	case 2:
		if v, ok := g.pickVar('A'); ok {
			return gn(v.name)
		}
		return gn("[3]")
	case 3:
		g.use("arr-unpack")
		return gn("[", pos("element", g.genI(d-1)), ", *", pos("unpacked", g.genA(d-1)), ", ", pos("element", g.genI(d-1)), "]")
	case 4:
		return gn("(", pos("operand", g.genA(d-1)), " + ", pos("operand", g.genA(d-1)), ")")
	case 5:
		g.use("list-chain")
		ch := []string{"@", "@", "=@", "~@", "&@"}[g.r.Intn(5)]
		return gn(pos("receiver", g.genA(d-1)), ch+"{|x| t(x) * ", pos("chain-body", gn("2")), "}")
	case 6:
		g.use("list-chain-prop")
		return gn(pos("receiver", g.genA(d-1)), "@+(", pos("argument", g.genI(d-1)), ")")
	case 7:
		if g.inFunc {
			g.use("argvar")
			return gn("\\0")
		}
		return gn("[0]")
	default:
		g.use("list-chain-nil")
		return gn(pos("receiver", g.genA(d-1)), "@{|x| x if x > 1}")
	}
}

func (g *gctx) genO(d int) *gnode {
	g.budget--
	if d <= 0 || g.budget < 0 {
		return gn("{ka: 1}")
	}
	switch g.r.Intn(5) {
	case 0, 1:
		g.use("obj-literal")
		return gn("{ka: ", pos("pair-value", g.genI(d-1)), ", kb: ", pos("pair-value", g.genS(d-1)), ", ka: ", pos("pair-value", g.genI(d-1)), "}")
	case 2:
		g.use("obj-unpack")
		return gn("{kc: ", pos("pair-value", g.genI(d-1)), ", **", pos("unpacked", g.genO(d-1)), "}")
	case 3:
		g.use("computed-key")
		return gn("{", pos("pair-key", gn("(\"k\" + ", pos("operand", g.genS(d-1)), ")")), ": ", pos("pair-value", g.genI(d-1)), "}")
	default:
		if v, ok := g.pickVar('O'); ok {
			return gn(v.name)
		}
		return gn("{kb: \"q\"}")
	}
}

// genArgs: an argument list for a function of `ar` positional parameters and keyword parameters kx, ky:
// fewer / more arguments, keyword arguments between positionals, duplicates, * and ** unpacking.
func (g *gctx) genArgs(d int, ar int) *gnode {
	n := gn()
	cnt := ar
	switch g.r.Intn(6) {
	case 0:
		cnt = ar - 1
	case 1:
		cnt = ar + 1
	}
	if cnt < 0 {
		cnt = 0
	}
	items := []*gnode{}
	for i := 0; i < cnt; i++ {
		items = append(items, pos("argument", g.genI(d)))
	}
	if g.r.Intn(4) == 0 {
		g.use("arg-unpack")
		items = append(items, gn("*", pos("unpacked", g.genA(d))))
	}
	for _, k := range []string{"kx", "ky", "kx"} {
		if g.r.Intn(3) == 0 {
			g.use("kwarg")
			kw := gn(k+": ", pos("keyword-argument", g.genI(d)))
			at := g.r.Intn(len(items) + 1) // anywhere between positionals
			items = append(items[:at], append([]*gnode{kw}, items[at:]...)...)
		}
	}
	if g.r.Intn(5) == 0 {
		g.use("kwarg-unpack")
		items = append(items, gn("**{ky: ", pos("pair-value", g.genI(d)), "}"))
		if g.r.Bool() {
			// a second expansion sharing a key with the first: the first occurrence wins
			g.use("kwarg-unpack-twice")
			items = append(items, gn("**{ky: ", pos("pair-value", g.genI(d)), ", kx: ", pos("pair-value", g.genI(d)), "}"))
		}
	}
	// multi-line layouts: continuation lines may start in a smaller column than the arguments before them
	multi := g.r.Intn(5) == 0
	for i, it := range items {
		if i > 0 {
			if multi && g.r.Bool() {
				n.parts = append(n.parts, ",\n"+strings.Repeat(" ", g.r.Intn(3)))
			} else {
				n.parts = append(n.parts, ", ")
			}
		} else if multi {
			n.parts = append(n.parts, strings.Repeat(" ", 8+g.r.Intn(12)))
		}
		n.parts = append(n.parts, it)
	}
	if multi {
		g.use("multi-line-args")
	}
	return n
}

func (g *gctx) freshName(typ byte) string {
	pool := map[byte][]string{'I': {"a", "b", "c", "n"}, 'S': {"s", "u"}, 'A': {"xs", "ys"}, 'O': {"o", "q"}, 'F': {"f", "g", "h"}, 'T': {"it", "jt", "kt"}, 'G': {"gen"}}[typ]
	return pool[g.r.Intn(len(pool))]
}

func (g *gctx) define(name string, typ byte, ar int) {
	for i, v := range g.vars {
		if v.name == name {
			g.vars[i] = gvar{name, typ, ar}
			return
		}
	}
	g.vars = append(g.vars, gvar{name, typ, ar})
}

// genStmt appends one statement (possibly several lines) to out
func (g *gctx) genStmt(d int, indent string) *gnode {
	g.budget = 14
	if g.bias == 'F' && g.r.Intn(3) == 0 {
		if d > 0 && len(indent) < 6 && g.r.Bool() {
			return g.genFuncDef(d, indent)
		}
		if f, ok := g.pickVar('F'); ok {
			g.use("call")
			return gn(indent, f.name, "(", g.genArgs(d, f.ar), ").p\n")
		}
	}
	if (g.bias == 'F' || g.bias == 0) && len(indent) == 0 && g.r.Intn(8) == 0 {
		// closures that leave their call inside a container and are called after other calls of the same function
		g.use("closure-escape")
		n := g.r.Intn(1000)
		mk, c := fmt.Sprintf("mk%d", n), fmt.Sprintf("cl%d", n)
		switch g.r.Intn(4) {
		case 3:
			// a closure made inside a call reads a variable two scopes up, before and after that variable is reassigned
			rate := fmt.Sprintf("rate%d", n)
			return gn(rate, " := ", pos("assigned", g.genI(1)), "\n", mk, " := {|| w := 1; {|p| p * ", rate, " + w}}\n", c, " := ", mk, "()\n",
				c, "(2).p\n", c, "(3).p\n", rate, " := ", pos("assigned", g.genI(1)), "\n", c, "(2).p\n", "{|| ", c, "(4)}().p\n")
		case 0:
			return gn(mk, " := {|n, step: 1| w := n * 2; {get: {|| n}, nxt: {|| n + step}, dbl: {|| w}}}\n",
				c, " := ", mk, "(", pos("argument", g.genI(1)), ", step: ", pos("kwarg", g.genI(1)), ")\n",
				mk, "(100, step: 1000)\n", "{|n, step: 7| n}(50)\n",
				"[", c, ".get(), ", c, ".nxt(), ", c, ".dbl()].p\n")
		case 1:
			return gn(c, " := [1, 2, 3]@{|i| [{|x| x + i}]}\n", "[4, 5]@{|i| i}\n",
				"g", fmt.Sprint(n), " := ", c, "[1][0]\n", "g", fmt.Sprint(n), "(", pos("argument", g.genI(1)), ").p\n")
		default:
			return gn(mk, " := {|n| acc := [n]; {|x| acc + [x, n]}}\n", c, " := [", mk, "(1), ", mk, "(2)]\n", mk, "(9)\n",
				"h", fmt.Sprint(n), " := ", c, "[0]\n", "h", fmt.Sprint(n), "(", pos("argument", g.genI(1)), ").p\n")
		}
	}
	if (g.bias == 'F' || g.bias == 'E') && len(indent) == 0 && g.r.Intn(8) == 0 {
		// objects unpacked into a call stay what they were: the same objects are used again afterwards
		g.use("kw-source-kept")
		n := g.r.Intn(1000)
		a, b, f := fmt.Sprintf("oa%d", n), fmt.Sprintf("ob%d", n), fmt.Sprintf("kf%d", n)
		return gn(a, " := {kx: ", pos("pair-value", g.genI(1)), "}\n", b, " := {ky: ", pos("pair-value", g.genI(1)), ", kz: 3}\n",
			f, " := {|kx: 10, ky: 20, kz: 30| [kx, ky, kz, \\_]}\n",
			f, "(**", a, ", **", b, ").p\n", f, "(**", a, ").p\n", f, "(**", b, ", **", a, ").p\n", "[", a, ", ", b, "].p\n")
	}
	if g.bias == 'T' && g.r.Intn(2) == 0 {
		return g.genIterStmt(d, indent)
	}
	if g.bias == 'K' && g.r.Intn(3) == 0 {
		// values kept alive across later operations: a later write into a shared backing store shows when they are printed
		g.use("keep-alive")
		switch g.r.Intn(6) {
		case 0:
			return gn(indent, "kept := ", pos("receiver", g.genA(1)), "$([]){|pr| pr[0] + [pr]}\n", indent, "kept.p\n")
		case 1:
			return gn(indent, "kp := [1, 2, 3]$(nil){|pr| pr[0] || {|| pr}}\n", indent, "kp().p\n")
		case 2:
			return gn(indent, "ka1 := ", pos("assigned", g.genA(1)), "\n", indent, "kb1 := [*ka1, ", pos("element", g.genI(1)), "]\n", indent, "kc1 := [*ka1, ", pos("element", g.genI(1)), "]\n", indent, "[ka1, kb1, kc1].p\n")
		case 3:
			return gn(indent, "ko1 := {ka: 1}\n", indent, "ko2 := {**ko1, **{kb: ", pos("pair-value", g.genI(1)), "}}\n", indent, "{|ka: 0, kb: 0, kc: 0| [ka, kb, kc]}(**ko1, **{kc: 3}).p\n", indent, "[ko1, ko2].p\n")
		case 4:
			return gn(indent, "kx1 := ", pos("assigned", g.genA(1)), " + [7]\n", indent, "kx2 := kx1 + [8]\n", indent, "kx3 := kx1 + [9]\n", indent, "[kx1, kx2, kx3].p\n")
		default:
			return gn(indent, "kz := ", pos("assigned", g.genA(1)), "@{|x| [x]}\n", indent, "kw := kz@{|y| y + [0]}\n", indent, "[kz, kw].p\n")
		}
	}
	if g.bias == 'D' && g.r.Intn(2) == 0 {
		return g.genDeferFunc(d, indent)
	}
	if g.bias == 'C' && g.r.Intn(3) != 0 {
		g.use("conditional-nesting")
		switch g.r.Intn(6) {
		case 0:
			return gn(indent, "{|| return t(1) if ", pos("condition", g.genCond(2)), "; t(2)}().p\n")
		case 1:
			return gn(indent, "{|| yield t(1) if ", pos("condition", g.genCond(2)), "; t(2)}().p\n")
		case 2:
			return gn(indent, "{|| defer t(9) if ", pos("condition", g.genCond(2)), "; t(2)}().p\n")
		default:
			// without the outer parentheses too: the parser decides the nesting
			if g.r.Bool() {
				return gn(indent, "cx := ", g.genCond(1), " && ", g.genCond(1), " || ", g.genCond(1), "\n", indent, "cx.p\n")
			}
			return gn(indent, pos("receiver", g.genCond(3)), ".p\n")
		}
	}
	if g.bias == 'E' && g.r.Intn(6) == 0 {
		g.use("stdin")
		switch g.r.Intn(4) {
		case 0:
			return gn(indent, "<>.p\n")
		case 1:
			return gn(indent, "\"r#{<>}-#{", pos("embedded-part", g.flatI(1)), "}-#{<>}\".p\n")
		case 2:
			return gn(indent, "[", pos("element", g.genS(1)), ", <>.S, ", pos("element", g.genS(1)), "].p\n")
		default:
			return gn(indent, "({|x, y| x + y}(", pos("argument", g.genS(1)), ", <>.S)).p\n")
		}
	}
	if g.r.Intn(16) == 0 {
		// a call with many arguments: two-digit argument variables, \0 and surplus arguments
		g.use("wide-call")
		n := 8 + g.r.Intn(6)
		args := gn()
		for i := 0; i < n; i++ {
			if i > 0 {
				args.parts = append(args.parts, ", ")
			}
			args.parts = append(args.parts, pos("argument", gn(fmt.Sprint(10+i))))
		}
		if g.r.Bool() {
			return gn(indent, "{|a, b| [\\1, \\2, \\8, \\9, \\10, \\11, \\12, \\0.len, a, b].p}(", args, ")\n")
		}
		return gn(indent, "{wide: m{|p| [\\1.ka, \\2, \\9, \\10, \\11, p, \\0.len].p}, ka: 7}.wide(", args, ")\n")
	}
	if g.r.Intn(16) == 0 {
		// a list chain calling a user-defined method on every element with several arguments
		g.use("method-list-chain")
		n := 1 + g.r.Intn(12)
		args := gn()
		for i := 0; i < n; i++ {
			if i > 0 {
				args.parts = append(args.parts, ", ")
			}
			args.parts = append(args.parts, pos("argument", gn(fmt.Sprint(10*(i+1)))))
		}
		ch := []string{"@", "=@", "~@", "&@"}[g.r.Intn(4)]
		return gn(indent, "[{kn: 1, show: m{|a, b, c| [self.kn, a, b, c, \\0.len, \\2]}}, {kn: 2, show: m{|a, b, c| [self.kn, a, c, \\0.len, \\3]}}, {kn: 3, show: m{|a| [self.kn, a, \\0.len]}}]", ch, "show(", args, ").p\n")
	}
	if g.r.Intn(14) == 0 {
		// lonely chains: the receiver may be nil; arguments are evaluated all the same
		g.use("lonely-chain")
		recv := []string{"nil", "[1][3]", "5", "[4, 5][0]", "{ka: 1}['kz]"}[g.r.Intn(5)]
		return gn(indent, recv, "&.+(", pos("argument", gn("t(", pos("argument", g.genI(1)), ")")), ").p\n")
	}
	switch g.r.Intn(20) {
	case 0, 1, 2:
		name := g.freshName('I')
		n := gn(indent, name, " := ", pos("assigned", g.genI(d)), "\n")
		g.define(name, 'I', 0)
		return n
	case 3:
		if v, ok := g.pickVar('I'); ok {
			g.use("compound-assign")
			return gn(indent, v.name, " += ", pos("assigned", g.genI(d)), "\n")
		}
		return gn(indent, "t(0)\n")
	case 4, 5:
		return gn(indent, pos("receiver", g.genI(d)), ".p\n")
	case 6:
		k := g.r.Intn(3)
		switch k {
		case 0:
			return gn(indent, pos("receiver", g.genS(d)), ".p\n")
		case 1:
			return gn(indent, pos("receiver", g.genA(d)), ".p\n")
		default:
			return gn(indent, pos("receiver", g.genO(d)), ".p\n")
		}
	case 7:
		name := g.freshName('A')
		n := gn(indent, name, " := ", pos("assigned", g.genA(d)), "\n")
		g.define(name, 'A', 0)
		return n
	case 8:
		name := g.freshName('S')
		n := gn(indent, name, " := ", pos("assigned", g.genS(d)), "\n")
		g.define(name, 'S', 0)
		return n
	case 9:
		g.use("method")
		name := []string{"mo", "mq"}[g.r.Intn(2)]
		n := gn(indent, name, " := {ka: ", pos("pair-value", g.genI(d)), ", madd: m{|y| self.ka + y + .ka}, kb: \"w\"}\n")
		g.define(name, 'M', 0)
		return n
	case 10, 11, 12:
		if d > 0 && len(indent) < 6 {
			return g.genFuncDef(d, indent)
		}
		return gn(indent, "t(1)\n")
	case 13:
		if g.inFunc {
			g.use("return-if")
			return gn(indent, "return ", pos("returned", g.genI(d)), " if ", pos("condition", g.genB(d)), "\n")
		}
		return gn(indent, pos("receiver", g.genI(d)), ".p\n")
	case 14:
		g.use("defer")
		return gn(indent, "defer t(", pos("argument", g.genI(1)), ")\n")
	case 15:
		if f, ok := g.pickVar('F'); ok {
			g.use("call")
			return gn(indent, f.name, "(", g.genArgs(d, f.ar), ").p\n")
		}
		return gn(indent, "t(2)\n")
	case 16, 17:
		return g.genIterStmt(d, indent)
	case 18:
		// reassign a variable a closure may have captured
		if v, ok := g.pickVar('I'); ok {
			g.use("reassign")
			return gn(indent, v.name, " := ", pos("assigned", g.genI(1)), "\n")
		}
		return gn(indent, "t(3)\n")
	default:
		g.use("range-literal")
		return gn(indent, "rg := (", pos("range-bound", g.genI(1)), ":", pos("range-bound", g.genI(1)), ":", pos("range-bound", g.genI(1)), ")\n")
	}
}

func (g *gctx) genFuncDef(d int, indent string) *gnode {
	g.use("func-def")
	name := g.freshName('F')
	ar := g.r.Intn(3)
	params := []string{}
	for i := 0; i < ar; i++ {
		params = append(params, []string{"a", "b", "x"}[i]) // shadow outer names on purpose
	}
	kw := ""
	if g.r.Bool() {
		kw = "kx: 10, ky: " // ky's default is an expression evaluated at definition
	}
	sub := &gctx{r: g.r, vars: append([]gvar{}, g.vars...), inFunc: true, nparam: ar, feat: g.feat, bias: g.bias}
	for _, p := range params {
		sub.define(p, 'I', 0)
	}
	n := gn(indent, name, " := {|", strings.Join(params, ", "))
	if kw != "" {
		if ar > 0 {
			n.parts = append(n.parts, ", ")
		}
		n.parts = append(n.parts, kw, pos("default", g.genI(1)))
		sub.define("kx", 'I', 0)
		sub.define("ky", 'I', 0)
		g.use("kwparam")
	}
	n.parts = append(n.parts, "|\n")
	// recursion
	if ar > 0 && g.r.Intn(4) == 0 {
		g.use("recursion")
		n.parts = append(n.parts, indent+"  return 0 if a < 1\n", indent+"  t(a)\n", indent+"  r := "+name+"(a - 1)\n", indent+"  t(a) + r\n")
	} else {
		k := 1 + g.r.Intn(4)
		for i := 0; i < k; i++ {
			if i == 1 && g.r.Intn(4) == 0 {
				// a yield in an ordinary function: its value is the call's result, the rest of the body still runs
				g.use("func-yield")
				n.parts = append(n.parts, indent+"  yield ", pos("yielded", sub.genI(1)), "\n")
			}
			n.parts = append(n.parts, sub.genStmt(d-1, indent+"  "))
		}
		if kw != "" && g.r.Bool() {
			g.use("kwvars")
			n.parts = append(n.parts, indent+"  [kx, ky, \\_].p\n")
		}
		n.parts = append(n.parts, indent+"  ", pos("result", sub.genI(d-1)), "\n")
	}
	n.parts = append(n.parts, indent, "}\n")
	g.define(name, 'F', ar)
	return n
}

// genDeferFunc: a function whose body mixes plain and guarded defers with statements that change what the guards
// read, print, or leave the body early; the guard of `defer X if c` belongs to the statement (evaluated when the
// statement is reached), the deferred expression to the exit
func (g *gctx) genDeferFunc(d int, indent string) *gnode {
	g.use("defer-func")
	name := g.freshName('F')
	n := gn(indent, name, " := {|a|\n", indent, "  flag := ", fmt.Sprint(g.r.Intn(2)), "\n")
	k := 3 + g.r.Intn(5)
	for i := 0; i < k; i++ {
		in := indent + "  "
		switch g.r.Intn(12) {
		case 0, 1:
			g.use("defer-guard-variable")
			n.parts = append(n.parts, in, "defer t(", fmt.Sprint(10+i), ") if flag\n")
		case 2:
			g.use("defer-guard-effect")
			n.parts = append(n.parts, in, "defer t(", fmt.Sprint(20+i), ") if t(", pos("condition", gn(fmt.Sprint(g.r.Intn(2)))), ")\n")
		case 3:
			g.use("defer-guard-raises")
			n.parts = append(n.parts, in, "defer t(", fmt.Sprint(30+i), ") if (", pos("operand", gn("a")), " // (a - a)) \n")
		case 4, 5:
			n.parts = append(n.parts, in, "flag := ", fmt.Sprint(g.r.Intn(2)), "\n")
		case 6:
			n.parts = append(n.parts, in, "flag := a - ", fmt.Sprint(g.r.Intn(3)), "\n")
		case 7:
			g.use("defer")
			n.parts = append(n.parts, in, "defer t(", pos("argument", gn(fmt.Sprint(40+i))), ")\n")
		case 8:
			g.use("defer-raises")
			n.parts = append(n.parts, in, "defer t(", fmt.Sprint(50+i), " // (a - ", fmt.Sprint(g.r.Intn(3)), "))\n")
		case 9:
			n.parts = append(n.parts, in, "return t(", fmt.Sprint(60+i), ") if flag\n")
		case 10:
			n.parts = append(n.parts, in, "t(", fmt.Sprint(70+i), " // (a - ", fmt.Sprint(g.r.Intn(3)), "))\n")
		default:
			n.parts = append(n.parts, in, "t(", pos("argument", gn(fmt.Sprint(80+i))), ")\n")
		}
	}
	n.parts = append(n.parts, indent, "  flag\n", indent, "}\n")
	g.define(name, 'F', 1)
	arg := fmt.Sprint(g.r.Intn(3))
	switch g.r.Intn(3) {
	case 0:
		n.parts = append(n.parts, indent, name, "(", arg, ").p\n")
	case 1:
		n.parts = append(n.parts, indent, "(-1)~.{|z| ", name, "(", arg, ")}.p\n")
	default:
		n.parts = append(n.parts, indent, "[", name, "(", arg, "), ", pos("element", g.genI(1)), "].p\n")
	}
	return n
}

func (g *gctx) genIterStmt(d int, indent string) *gnode {
	g.use("iterator")
	if _, ok := g.pickVar('G'); !ok {
		g.define("gen", 'G', 0)
		lim := 2 + g.r.Intn(4)
		body := []string{
			fmt.Sprintf("yield i if i < %d\n%s  recur(i + 1)\n", lim, indent),
			fmt.Sprintf("yield t(i) * 2 if i < %d\n%s  recur(i + 1)\n", lim, indent),
			fmt.Sprintf("recur(i + step)\n%s  yield i if i < %d\n", indent, lim),
			fmt.Sprintf("seen := i\n%s  yield seen if i < %d\n%s  recur(i + 1, step: step)\n", indent, lim, indent),
			// two yields: the first is the value, a later guarded one carries the stop condition
			fmt.Sprintf("yield i\n%s  yield 0 if i < %d\n%s  recur(i + 1)\n", indent, lim, indent),
			// the state advances before the guard, and the guard becomes true again after a stop
			fmt.Sprintf("recur(i + 1)\n%s  yield i if i %% 3 != 2\n", indent),
			fmt.Sprintf("recur(i + step)\n%s  yield t(i) if (i %% 4 != 1) && (i < %d)\n", indent, lim+6),
			// conditions that are ints, not bools: any non-zero int (negative ones too) lets the yield through
			fmt.Sprintf("yield i if i - %d\n%s  recur(i + 1)\n", lim, indent),
			fmt.Sprintf("recur(i + step)\n%s  yield i if %d - i\n", indent, lim),
		}[g.r.Intn(9)]
		switch g.r.Intn(8) {
		case 0:
			// the literal closes over the scope of a function call: `new` is called from scopes that do not enclose it
			g.use("iterator-factory")
			// (the literal is evaluated twice with different values: the defaults of its keyword parameters are those of
			// the evaluation that made the iterator)
			return gn(indent, fmt.Sprintf("mkgen := {|lim, scale| <{|i, step: scale|\n%s  yield i * scale if i < lim\n%s  recur(i + step)\n%s}>}\n%sgenB := mkgen(9, 3)\n%sgen := mkgen(%d, %d)\n%sgenB.new(0)@{|x| x}.p\n",
				indent, indent, indent, indent, indent, lim, 1+g.r.Intn(2), indent))
		case 1:
			// an iterator made and stepped inside the body of another one (each has its own recur)
			g.use("iterator-nested")
			return gn(indent, fmt.Sprintf("gen := <{|i, step: 1|\n%s  inner := <{|j| yield j if j < i + 3; recur(j + 1)}>.new(i)\n%s  s := inner.next + inner.next\n%s  yield s if i < %d\n%s  recur(i + step)\n%s}>\n", indent, indent, indent, lim, indent, indent))
		case 2:
			g.use("iterator-nested")
			return gn(indent, fmt.Sprintf("gen := <{|i, step: 1|\n%s  yield <{|j| yield j * 10 if j < 3; recur(j + 1)}>.new(i)@{|x| x} if i < %d\n%s  recur(i + step)\n%s}>\n", indent, lim, indent, indent))
		}
		if g.r.Intn(3) == 0 {
			g.use("iterator-positions")
			return gn(indent, "gen := <{|i, step: 1|\n", indent, "  yield ", pos("yielded", gn("i")), " if i < ", pos("operand", gn(fmt.Sprint(lim))), "\n",
				indent, "  recur(i + ", pos("argument", gn("1")), ")\n", indent, "}>\n")
		}
		return gn(indent, "gen := <{|i, step: 1|\n", indent, "  ", body, indent, "}>\n")
	}
	if _, ok := g.pickVar('H'); !ok && g.r.Intn(3) == 0 {
		// a literal without parameters, driven by argument variables
		g.define("gen0", 'H', 0)
		lim := 3 + g.r.Intn(4)
		return gn(indent, fmt.Sprintf("gen0 := <{yield \\ if \\ < %d; recur(\\ + 1)}>\n", lim))
	}
	its := []gvar{}
	for _, v := range g.vars {
		if v.typ == 'T' {
			its = append(its, v)
		}
	}
	if len(its) == 0 || g.r.Intn(4) == 0 {
		name := g.freshName('T')
		g.define(name, 'T', 0)
		src := "gen"
		if _, ok := g.pickVar('H'); ok && g.r.Bool() {
			src = "gen0"
		}
		if len(its) > 0 && g.r.Intn(3) == 0 {
			src = its[g.r.Intn(len(its))].name // an iterator made from an iterator
		}
		return gn(indent, name, " := ", src, ".new(", pos("argument", g.genI(1)), ")\n")
	}
	it := its[g.r.Intn(len(its))]
	switch g.r.Intn(10) {
	case 7, 8, 9:
		// a next whose StopIterErr is absorbed, so that the history continues past a stop
		g.use("iterator-next-recovered")
		return gn(indent, "(-1)~.{|z| ", it.name, ".next}.p\n")
	case 6:
		g.use("iterator-chain")
		return gn(indent, it.name, "@{|x| x}.p\n", indent, it.name, "@{|x| x}.p\n")
	case 0, 1, 2:
		return gn(indent, it.name, ".next.p\n")
	case 3:
		g.use("iterator-chain")
		return gn(indent, it.name, "@{|x| x + 1}.p\n")
	case 4:
		g.use("iterator-chain")
		return gn(indent, it.name, "$(0){|acc, x| acc + x}.p\n")
	default:
		g.use("iterator-chain")
		return gn(indent, "gen.new(1)@{|x| x}.p\n")
	}
}

// genCond: nested conditionals over values of every Core type, every operand traced: `&&` / `||` mixed and nested
// on either side, if-else as branch and as condition, negation, guarded jumps
func (g *gctx) genCond(d int) *gnode {
	vals := []string{"0", "1", "7", "\"\"", "\"a\"", "[]", "[0]", "{}", "{ka: 0}", "nil", "true", "false"}
	leaf := func() *gnode {
		return gn("t(", vals[g.r.Intn(len(vals))], ")")
	}
	if d <= 0 {
		return leaf()
	}
	switch g.r.Intn(9) {
	case 0:
		return leaf()
	case 1, 2:
		return gn("(", pos("operand", g.genCond(d-1)), " && ", pos("shortcut-right", g.genCond(d-1)), ")")
	case 3, 4:
		return gn("(", pos("operand", g.genCond(d-1)), " || ", pos("shortcut-right", g.genCond(d-1)), ")")
	case 5, 6:
		return gn("(", pos("branch", g.genCond(d-1)), " if ", pos("condition", g.genCond(d-1)), " else ", pos("branch", g.genCond(d-1)), ")")
	case 7:
		return gn("(", pos("branch", g.genCond(d-1)), " if ", pos("condition", g.genCond(d-1)), ")")
	default:
		return gn("(!", pos("operand", g.genCond(d-1)), ")")
	}
}

// genCoreProgram: prelude + 3..9 statements
func genCoreProgram(r *Rng, depth int, bias byte) (*gnode, map[string]bool) {
	g := &gctx{r: r, feat: map[string]bool{}, bias: bias}
	root := gn("t := {|v| v.p; v}\n")
	k := 3 + r.Intn(7)
	if bias == 'T' {
		k += 6
	}
	for i := 0; i < k; i++ {
		root.parts = append(root.parts, g.genStmt(depth, ""))
	}
	return root, g.feat
}
