//go:build verif

package main

// Serialises the AST produced by the real parser into the s-expression tokens the Lean Core driver decodes
// (lean/Pangaea/Drv/Core.lean). Node kinds outside the Core language make the case "unsupported".

import (
	"encoding/hex"
	"fmt"
	"sort"
	"strings"

	"github.com/Syuparn/pangaea/ast"
	"github.com/Syuparn/pangaea/object"
	"github.com/Syuparn/pangaea/parser"
)

type sexpErr struct{ what string }

func hx(s string) string { return "x" + hex.EncodeToString([]byte(s)) }

type sexpW struct {
	b strings.Builder
}

func (w *sexpW) tok(ts ...string) {
	for _, t := range ts {
		w.b.WriteString(t)
		w.b.WriteByte(' ')
	}
}

func sortedKw(kw map[*ast.Ident]ast.Expr) []*ast.Ident {
	keys := make([]*ast.Ident, 0, len(kw))
	for k := range kw {
		keys = append(keys, k)
	}
	sort.SliceStable(keys, func(i, j int) bool {
		si, sj := keys[i].Source(), keys[j].Source()
		if si == nil || sj == nil {
			return keys[i].String() < keys[j].String()
		}
		if si.Pos.Line != sj.Pos.Line {
			return si.Pos.Line < sj.Pos.Line
		}
		return si.Pos.Column < sj.Pos.Column
	})
	return keys
}

func (w *sexpW) opt(e ast.Expr) {
	if e == nil || isNilExpr(e) {
		w.tok("_")
		return
	}
	w.expr(e)
}

func isNilExpr(e ast.Expr) bool {
	switch v := e.(type) {
	case *ast.Ident:
		return v == nil
	case *ast.IntLiteral:
		return v == nil
	case *ast.PropCallExpr:
		return v == nil
	case *ast.LiteralCallExpr:
		return v == nil
	case *ast.VarCallExpr:
		return v == nil
	case *ast.FuncLiteral:
		return v == nil
	case *ast.ArrLiteral:
		return v == nil
	case *ast.StrLiteral:
		return v == nil
	case *ast.InfixExpr:
		return v == nil
	case *ast.PrefixExpr:
		return v == nil
	}
	return false
}

func (w *sexpW) chain(c *ast.Chain) {
	m := map[ast.MainChain]string{ast.Scalar: "s", ast.List: "l", ast.Reduce: "r"}[c.Main]
	a := map[ast.AdditionalChain]string{ast.Vanilla: "v", ast.Lonely: "l", ast.Thoughtful: "t", ast.Strict: "s"}[c.Additional]
	w.tok(m, a)
	w.opt(c.Arg)
}

func (w *sexpW) kws(kw map[*ast.Ident]ast.Expr) {
	w.tok("(")
	for _, k := range sortedKw(kw) {
		w.tok("(", hx(k.Value))
		w.expr(kw[k])
		w.tok(")")
	}
	w.tok(")")
}

func (w *sexpW) funcC(fc ast.FuncComponent) {
	w.tok("(", "(")
	for _, a := range fc.Args {
		id, ok := a.(*ast.Ident)
		if !ok {
			panic(sexpErr{"pattern parameter"})
		}
		w.tok(hx(id.Value))
	}
	w.tok(")")
	w.kws(fc.Kwargs)
	w.tok("(")
	for _, s := range fc.Body {
		w.stmt(s)
	}
	w.tok(")", ")")
}

func (w *sexpW) stmt(s ast.Stmt) {
	jk := map[ast.JumpType]string{ast.ReturnJump: "ret", ast.RaiseJump: "rse", ast.YieldJump: "yld", ast.DeferJump: "dfr"}
	switch v := s.(type) {
	case *ast.ExprStmt:
		if v.Expr == nil {
			panic(sexpErr{"empty statement"})
		}
		w.tok("(", "es")
		w.expr(v.Expr)
		w.tok(")")
	case *ast.JumpStmt:
		if v.Val == nil {
			panic(sexpErr{"jump without value"})
		}
		w.tok("(", "jmp", jk[v.JumpType])
		w.expr(v.Val)
		w.tok(")")
	case *ast.JumpIfStmt:
		if v.JumpStmt.Val == nil {
			panic(sexpErr{"jump without value"})
		}
		w.tok("(", "jif", jk[v.JumpStmt.JumpType])
		w.expr(v.JumpStmt.Val)
		w.expr(v.Cond)
		w.tok(")")
	default:
		panic(sexpErr{fmt.Sprintf("stmt %T", s)})
	}
}

func (w *sexpW) expr(e ast.Expr) {
	switch v := e.(type) {
	case *ast.IntLiteral:
		w.tok("(", "int", fmt.Sprint(v.Value), ")")
	case *ast.StrLiteral:
		if v.IsRaw {
			panic(sexpErr{"raw str"})
		}
		w.tok("(", "str", hx(v.Value), ")")
	case *ast.SymLiteral:
		w.tok("(", "str", hx(v.Value), ")")
	case *ast.Ident:
		w.tok("(", "id", hx(v.Value), ")")
	case *ast.DiamondLiteral:
		w.tok("(", "dia", ")")
	case *ast.ArrLiteral:
		w.tok("(", "arr")
		for _, x := range v.Elems {
			w.expr(x)
		}
		w.tok(")")
	case *ast.ObjLiteral:
		w.tok("(", "obj", "(")
		for _, p := range v.Pairs {
			switch k := p.Key.(type) {
			case *ast.Ident:
				w.tok("(", "pn", hx(k.Value))
			case *ast.PinnedIdent:
				w.tok("(", "pp", hx(k.Ident.Value))
			default:
				w.tok("(", "pk")
				w.expr(p.Key)
			}
			w.expr(p.Val)
			w.tok(")")
		}
		w.tok(")", "(")
		for _, x := range v.EmbeddedExprs {
			w.expr(x)
		}
		w.tok(")", ")")
	case *ast.RangeLiteral:
		w.tok("(", "range")
		w.opt(v.Start)
		w.opt(v.Stop)
		w.opt(v.Step)
		w.tok(")")
	case *ast.FuncLiteral:
		w.tok("(", "func")
		w.funcC(v.FuncComponent)
		w.tok(")")
	case *ast.IterLiteral:
		w.tok("(", "iter")
		w.funcC(v.FuncComponent)
		w.tok(")")
	case *ast.AssignExpr:
		w.tok("(", "asg", hx(v.Left.Value))
		w.expr(v.Right)
		w.tok(")")
	case *ast.IfExpr:
		w.tok("(", "if")
		w.expr(v.Cond)
		w.expr(v.Then)
		w.opt(v.Else)
		w.tok(")")
	case *ast.EmbeddedStr:
		pieces := []*ast.FormerStrPiece{}
		for n := v.Former; n != nil; n = n.Former {
			pieces = append([]*ast.FormerStrPiece{n}, pieces...)
		}
		w.tok("(", "emb", "(")
		for _, p := range pieces {
			w.tok("(", hx(p.Str))
			w.expr(p.Expr)
			w.tok(")")
		}
		w.tok(")", hx(v.Latter), ")")
	case *ast.PrefixExpr:
		w.tok("(", "pre", hx(v.Operator))
		w.expr(v.Right)
		w.tok(")")
	case *ast.InfixExpr:
		w.tok("(", "inf", hx(v.Operator))
		w.expr(v.Left)
		w.expr(v.Right)
		w.tok(")")
	case *ast.PropCallExpr:
		w.tok("(", "pc")
		w.opt(v.Receiver)
		w.chain(v.Chain)
		w.tok(hx(v.Prop.Value), "(")
		for _, a := range v.Args {
			w.expr(a)
		}
		w.tok(")")
		w.kws(v.Kwargs)
		w.tok(")")
	case *ast.LiteralCallExpr:
		w.tok("(", "lc")
		w.opt(v.Receiver)
		w.chain(v.Chain)
		w.expr(v.Func)
		w.tok(")")
	case *ast.VarCallExpr:
		w.tok("(", "vc")
		w.opt(v.Receiver)
		w.chain(v.Chain)
		w.tok(hx(v.Var.Value), ")")
	default:
		panic(sexpErr{fmt.Sprintf("expr %T", e)})
	}
}

// coreSexp parses src with the real parser and returns the Core tokens, or why it is outside the Core language.
func coreSexp(src string) (toks string, unsupported string, syntaxErr string) {
	prog, err := parser.Parse(parser.NewReader(strings.NewReader(src), "<string>"))
	if err != nil {
		return "", "", err.Error()
	}
	w := &sexpW{}
	func() {
		defer func() {
			if r := recover(); r != nil {
				if se, ok := r.(sexpErr); ok {
					unsupported = se.what
					return
				}
				panic(r)
			}
		}()
		w.tok("(")
		for _, s := range prog.Stmts {
			w.stmt(s)
		}
		w.tok(")")
	}()
	return strings.TrimSpace(w.b.String()), unsupported, ""
}

// coreRepr renders a value the way the Core model's `repr` does.
func coreRepr(o object.PanObject) string {
	switch v := o.(type) {
	case nil:
		return "<go nil>"
	case *object.PanNil:
		return "nil"
	case *object.PanBool:
		if v.Value {
			return "true"
		}
		return "false"
	case *object.PanInt:
		if v.Proto() != object.BuiltInIntObj {
			return "<int descendant>"
		}
		return fmt.Sprint(v.Value)
	case *object.PanStr:
		return "\"" + v.Value + "\""
	case *object.PanArr:
		parts := []string{}
		for _, e := range v.Elems {
			parts = append(parts, coreRepr(e))
		}
		return "[" + strings.Join(parts, ", ") + "]"
	case *object.PanObj:
		if v.Proto() != object.BuiltInObjObj {
			return "<" + v.Inspect() + ">"
		}
		keys := []string{}
		vals := map[string]object.PanObject{}
		for _, p := range *v.Pairs {
			k := p.Key.(*object.PanStr).Value
			keys = append(keys, k)
			vals[k] = p.Value
		}
		sort.Strings(keys)
		parts := []string{}
		for _, k := range keys {
			parts = append(parts, "\""+k+"\": "+coreRepr(vals[k]))
		}
		return "{" + strings.Join(parts, ", ") + "}"
	case *object.PanRange:
		return "(" + coreRepr(v.Start) + ":" + coreRepr(v.Stop) + ":" + coreRepr(v.Step) + ")"
	case *object.PanFunc:
		if v.FuncKind == object.IterFunc {
			return "<iter>"
		}
		return "<func>"
	case *object.PanBuiltIn:
		return "<builtin>"
	}
	return "<" + o.Inspect() + ">"
}

func coreOutcome(o Outcome) string {
	out := "out:" + hex.EncodeToString([]byte(strings.TrimSuffix(o.Stdout, "\n")))
	switch o.Kind {
	case "val":
		return out + "|val:" + hex.EncodeToString([]byte(coreRepr(o.Obj)))
	case "err":
		return out + "|err:" + o.ErrKind // the message is compared by the direct oracles, not with the model
	}
	return o.Kind
}
