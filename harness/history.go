//go:build verif

package main

import (
	"fmt"
	"os"
)

// A used interpreter behaves like a new one (C19). Half of the harness processes therefore start with a history:
// programs, each in its own scope, that are the FIRST in the process to use the built-in operators, conversions,
// conditions, lookups, patterns, modules and literals - and use them on unusual values (descendants of the literal
// types that override them, objects with hooks, negative and extreme numbers, look-alike strings). Whatever the
// interpreter remembers from a first use (a memo, a pool, a latch) is then filled by these before the checked cases run.

var historyChecks = map[string]bool{"C01": true, "C03": true, "C04": true, "C05": true, "C06": true, "C06core": true, "C07": true, "C08": true, "C09": true,
	"C10": true, "C11": true, "C12": true, "C12core": true, "C12sweep": true, "C13": true, "C14": true, "C15": true, "C15core": true, "C17": true, "C18": true}

var historyPrograms = []string{
	// descendants of Int / Float overriding every operator and conversion, used as left and right operands
	"Odd := Int.bear({'+: m{|o| 'plus}, '-: m{|o| 'minus}, '*: m{|o| 'times}, '**: m{|o| 'pow}, '/: m{|o| 'div}, '//: m{|o| 'fdiv}, '%: m{|o| 'mod}, '<=>: m{|o| 1}, '==: m{|o| true}, '!=: m{|o| true}, '-%: m{'neg}, B: m{false}, S: m{\"odd\"}, repr: m{\"odd\"}, at: m{|i| 'at}, call: m{|x| 'called}})\n" +
		"x := Odd.new(5)\n[x + 4, x - 4, x * 4, x ** 2, x / 4, x // 4, x % 4, x <=> 8, x == 9, x != 5, -x, !x, x < 1, x > 1, x.S, \"#{x}\", x[0], x(1), (1 if x else 2), x && 3, x || 4, 4 + x, 4 == x, 4 <=> x]",
	"Fl := Float.bear({'+: m{|o| 'fplus}, '*: m{|o| 'ftimes}, '<=>: m{|o| -1}, '==: m{|o| false}, B: m{true}, S: m{\"fl\"}})\ny := Fl.new(0.0)\n[y + 1.0, y * 2.0, y <=> 0.0, y == 0.0, (1 if y else 2), y.S, !y, 1.5 + y]",
	// descendants of Str / Arr / Map / Range / Nil / Obj with their own len, at, S, ==, B, _iter, _missing
	"Sh := Str.bear({shout: m{\"!\" + self}, S: m{\"<s>\"}, len: m{99}, '+: m{|o| 'cat}, '==: m{|o| true}, '<=>: m{|o| 0}, B: m{false}, at: m{|i| 'ch}, '/: m{|o| ['split]}})\n" +
		"s := Sh.new(\"hey\")\n[s.shout, s.S, s.len, s + \"a\", s == \"b\", s <=> \"c\", (1 if s else 2), s[0], s / \"[\", s.uc, s.rev, %{s: 1}[s], {a: 1}[s]]",
	"Ar := Arr.bear({len: m{99}, S: m{\"<a>\"}, '+: m{|o| 'acat}, '==: m{|o| true}, B: m{false}, at: m{|i| 'el}, first2: m{self[0:2]}})\n" +
		"a := Ar.new([1, 2, 3])\n[a.len, a.S, a + [1], a == [9], (1 if a else 2), a[0], a[0:2], a[::-1], a@{|e| e}, a$(0){|u, e| u + e}, a.first2, [*a], {|p, q| [p, q]}(*a)]",
	"Mp := Map.bear({S: m{\"<m>\"}, len: m{99}, B: m{false}, '==: m{|o| true}})\nmm := Mp.new(%{1: 2, [3]: 4})\n[mm.S, (1 if mm else 2), mm == %{}, mm[1], mm[[3]], mm.keys, %{**mm}, mm@{|k, v| k}]",
	"Rg := Range.bear({S: m{\"<r>\"}, B: m{false}})\nrr := Rg.new(1, 4)\n[rr.S, (1 if rr else 2), rr.A, [1, 2, 3, 4, 5][rr], \"abcdef\"[rr], rr@{|i| i}]",
	"Nl := Nil.bear({S: m{\"<n>\"}, B: m{true}, '+: m{|o| 'nplus}})\n[Nl.S, (1 if Nl else 2), Nl + 1, [Nl]&@S, Nl~.foo]",
	"o := {B: m{false}, S: m{\"<o>\"}, '==: m{|p| true}, _missing: m{|n| ['missing, n]}, call: m{|z| 'ocall}, at: m{|i| 'oat}, _iter: m{[7, 8]._iter}, '<=>: m{|p| 0}}\n" +
		"[(1 if o else 2), o.S, o == 1, o.anything, o(1), o[2], o@{|e| e}, !o, o && 1, o || 2, \"#{o}\", o.kindOf?(Obj), o.ancestors.len, o.bear({B: m{true}}).B]",
	"p := {a: 1}\nq := p.bear({_missing: m{|n| 'qmiss}})\nr := p.bear({b: 2})\n[q.zz, q.yy, r.try.zz.err?, q.a, r.a, r.b, q.which('_missing) == q, r.which('a) == p]",
	// numbers: negative, extreme, the table-sized ones; literals in every base
	"n1 := (1:300)@{|k| 0 - k}\nn2 := [0 - 9223372036854775807 - 1, 9223372036854775807, 255 - 511, -1 * 256, 3 <=> 5, (-8) ** 21, 7 // -2, -7 % 2, -7 % -2, 1 / 3, 2 ** -1, 0x7f, 0o17, 0b101, 1e3, 2.5e-3]\n[n1.len, n2.len]",
	// strings: long, look-alike, multi-byte, invalid patterns (each used twice)
	"l1 := \"thequickbrownfoxjumpsoverthelazydogandrunsaway\"\nl2 := \"thequickbrownfoxjumpsoverthelazydigandrunsaway\"\n[l1 == l2, l1 <=> l2, %{l1: 1}[l2], {a: 1}[l1], \"a\\nb\" == `a\\nb`, \"héllo\" <=> \"héllp\", \"日本語\"[1:], \"abc\"[-1:], \"abc\"[::-1]]",
	"b1 := \"a[b\".try./(\"[\")\nb2 := \"a[b\".try./(\"[\")\nb3 := \"x\".try.split(sep: \"(\")\nb4 := \"x\".try.split(sep: \"(\")\nb5 := \"{\".try.decJSON\nb6 := \"{\".try.decJSON\n[b1.err?, b2.err?, b3.err?, b4.err?, b5.err?, b6.err?]",
	"j := `{\"t\": true, \"f\": false, \"n\": null, \"k9\": [1, -1, 2.5, \"s\"], \"nested key!\": {\"a?\": 1}}`.decJSON\n[j.t, j.f, (1 if j.t else 2), (1 if j.f else 2), j.keys, j.k9]",
	// closures, defaults, iterators, defers: every literal below is evaluated more than once with other values
	"base := 2\nmk := {|n, step: base * 2| w := n + 1; {get: {|| n}, nxt: {|| n + step}, w: {|| w}, it: <{|i, by: step| yield i if i < n; recur(i + by)}>}}\nc1 := mk(5)\nc2 := mk(7, step: 1)\nmk(9)\n[c1.get(), c1.nxt(), c1.w(), c2.nxt(), c1.it.new(0).A, c2.it.new(0).A, c1.it.new(1)@{|v| v}]",
	"f := {|k| defer \"d1\".S; defer \"d2\".S if k; return k * 2 if k > 1; [k, (0:9:k + 1), [1, 2, 3, 4][::k + 1], \"s#{k}\", {a: [k]}, %{k: k}]}\n[f(0), f(1), f(2), f(3)]",
	"g := {|a, b: 2, c: 3| [a, b, c, \\0, \\_]}\nu := {b: 5}\nv := {c: 6}\n[g(1, **u, **v), g(1, **u), g(*[1, 2], b: 9, b: 8), u, v, {**u, **v}, %{**%{[1]: 1}, **%{[1]: 2}}]",
	"cnt := 0\nit := <{cnt := cnt + 1; yield cnt if cnt < 4}>\ni2 := <{|i| yield i if i - 3; recur(i + 1)}>.new(0)\n[it@{|v| v}, it@{|v| v}, it.A, i2.next, i2.A, i2.next, [3, 1, 2]._iter.next]",
	"h := {|z| defer {|| defer 1; defer 2; 3}(); defer 4; z}\nt1 := 0.try.{|z| 1 / z}\nt2 := [1, 2].try.{|a, b| a + b}\nt3 := 5.try.{|z| z.try}\n[h(1), h(2), t1.err?, t2.val, t3.val.val, 1.try.+(1).val, \"a+b\".try.+(\"c\").val]",
	// modules and evaluation of texts (the same text under several names)
	"m1 := import(\"dummy\")\nm2 := import(\"dummy\")\nm3 := 0.try.{|z| import(\"nonexistent_module\")}\nm4 := 0.try.{|z| import(\"nonexistent_module\")}\ne1 := \"k9 := 1; _p := 2\".evalEnv\ne2 := \"k9 := 1; _p := 2\".evalEnv\n[m1.message == m2.message, m3.err?, m4.err?, e1.keys, e2.keys, \"1 + 1\".eval, \"1 + 1\".eval]",
	"{|| invite!(\"dummy\"); message}()",
	// printing of look-alike keys, twice
	"pm := %{0.12345611: 1, 0.12345612: 2, \"a\\nb\": 3, `a\\nb`: 4}\npo := {save: 1, save!: 2, x9: 3, x8: 4, _t: 5}\n[pm.S, pm.S, pm.repr, po.S, po.keys, po.keys(private?: true), po.keys, po.items, {|a: 1, a: 2| a}.S]",
}

func runHistory(c *Ctx, check string) {
	if !historyChecks[check] {
		return
	}
	if c.Shards > 1 && c.Shard%2 == 0 {
		return
	}
	if c.Shards <= 1 && c.Seed%2 == 0 {
		return
	}
	ran, failed := 0, 0
	for _, p := range historyPrograms {
		o := c.It.Run(p, "")
		ran++
		if o.Kind != "val" {
			failed++
			if os.Getenv("VERIF_HISTORY_DEBUG") != "" {
				fmt.Fprintf(os.Stderr, "history program failed: %s %s %s\n%s\n", o.Kind, o.ErrKind, o.ErrMsg, p)
			}
		}
	}
	c.Em.Emit(Rec{Src: "history: the first programs of this process", Impl: itoa(int64(ran)) + " programs, " + itoa(int64(failed)) + " ended with an error", NT: false, Tags: []string{"process-history"}})
}
