//go:build verif

package main

import (
	"flag"
	"fmt"
	"os"
	"sort"
	"strconv"
)

// Gen produces the cases of one property.
type Gen func(c *Ctx)

type Ctx struct {
	Tier string
	Seed uint64
	Rng  *Rng
	Em   *Emitter
	It   *Interp
	Arg  string // replay argument
	// sharding: every generator draws the same random choices in every shard and only
	// executes the cases for which Mine() is true
	Shard, Shards int
	caseNo        int
}

// Mine reports whether the next expensive case belongs to this shard.
func (c *Ctx) Mine() bool {
	c.caseNo++
	return c.Shards <= 1 || c.caseNo%c.Shards == c.Shard
}

func (c *Ctx) Thorough() bool { return c.Tier == "thorough" }

var registry = map[string]Gen{}

func main() {
	tier := flag.String("tier", "quick", "quick|thorough")
	seed := flag.String("seed", "1", "seed")
	out := flag.String("out", "", "output JSONL file")
	arg := flag.String("arg", "", "replay argument")
	shard := flag.Int("shard", 0, "shard index")
	shards := flag.Int("shards", 1, "number of shards")
	flag.Parse()
	if flag.NArg() < 1 {
		names := []string{}
		for k := range registry {
			names = append(names, k)
		}
		sort.Strings(names)
		fmt.Println("usage: harness [-tier T] [-seed N] -out FILE <check>; checks:", names)
		os.Exit(2)
	}
	g, ok := registry[flag.Arg(0)]
	if !ok {
		fmt.Fprintln(os.Stderr, "unknown check", flag.Arg(0))
		os.Exit(2)
	}
	s, _ := strconv.ParseUint(*seed, 10, 64)
	c := &Ctx{Tier: *tier, Seed: s, Rng: NewRng(s), Em: NewEmitter(*out), It: NewInterp(), Arg: *arg, Shard: *shard, Shards: *shards}
	runHistory(c, flag.Arg(0))
	g(c)
	c.Em.Close()
}
