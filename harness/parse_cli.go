//go:build verif

package main

import (
	"bufio"
	"fmt"
	"os"
	"strings"

	"github.com/Syuparn/pangaea/parser"
)

func parseString(src string) (res string) {
	defer func() {
		if r := recover(); r != nil {
			res = "PANIC " + fmt.Sprint(r)
		}
	}()
	node, err := parser.Parse(parser.NewReader(strings.NewReader(src), "<string>"))
	if err != nil {
		return "SYNTAXERR"
	}
	return node.String()
}

func init() {
	// `harness -out /dev/null PARSE` reads sources from stdin, one per line, and prints the AST string
	registry["PARSE"] = func(c *Ctx) {
		sc := bufio.NewScanner(os.Stdin)
		for sc.Scan() {
			fmt.Println(parseString(strings.ReplaceAll(sc.Text(), `\n`, "\n")))
		}
	}
}
