//go:build verif

package main

import (
	"fmt"
	"os"
	"regexp"
	"sort"
	"strings"

	"github.com/Syuparn/pangaea/object"
)

func init() {
	registry["C01"] = func(c *Ctx) { runSweep(c, "C01") }
	registry["C06"] = func(c *Ctx) { runSweep(c, "C06") }
	registry["C12sweep"] = func(c *Ctx) { runSweep(c, "C12") }
}

// pool of values of every built-in type, with boundary members
var sweepPool = []string{
	"nil", "true", "false", "0", "1", "-1", "7", "1000", "9223372036854775807", "(-9223372036854775807 - 1)",
	"0.0", "2.5", "-0.5", "\"\"", "\"a\"", "\"héllo 日本\"", "'sym", "\"12\"",
	"[]", "[1, 2, 3]", "[nil, [], \"x\"]", "[[1, 2], [3, 4]]", "{}", "{a: 1, _b: 2}", "{f: {|x| x}, call: m{|y| y}}",
	"%{}", "%{1: 'a, [2]: 'b}", "(1:5)", "(nil:nil)", "(5:1:-1)", "(0:10:3)", "{|x| x}", "{|| 1 / 0}", "m{|y| y}",
	"<{|i| yield i if i < 3; recur(i + 1)}>.new(0)", "1.try", "\"x\".try.{|s| s.nonexistent}", "Int", "Str", "Arr", "Obj", "BaseObj", "Nil", "Map", "Range", "Func", "Iter",
	"Either", "Err", "Comparable", "Iterable", "1.bear", "\"s\".bear", "[1].bear({z: 1})", "nil.bear", "Int.bear.new(3)", "Str.bear.new(\"q\")", "Arr.bear.new([1])",
	"[1, 2, 3]._iter", "JSON", "Kernel", "Match", "Diamond", "Float", "Num",
	// containers whose keys / members are descendants of the built-in types (unchecked type assertions live behind these)
	"[[\"k\".bear, 1], [\"j\", 2]]", "[['s, 1], [Str.bear.new(\"t\"), 2]]", "[1.bear, 2, Int.bear.new(3)]", "{a: 1.bear, b: \"s\".bear}", "%{\"k\".bear: 1, 1.bear: 2}",
	"(1.bear:5.bear)", "(\"a\".bear:\"c\")", "[[1, 2].bear, [3].bear]", "[{a: 1}.bear, {a: 2}]", "[1, 2, 3, 4, 5, 6, 7]",
	// non-finite and extreme floats (they cannot be written as literals)
	"\"NaN\".F", "\"Inf\".F", "\"-Inf\".F", "((-1.0) ** 0.5)", "1.0e300", "1.0e-300", "(0.0 * -1.0)", "9.3e18", "%{[1]: 1}", "%{[2]: 1}", "%{[1]: 1, 2: 3}", "%{{a: 1}: 2}",
	// texts that are not valid patterns / numbers / JSON (error paths that may be taken more than once per process)
	"\"[\"", "\"(\"", "\"*a\"", "\"{\"", "\"\\\\\"",
	// texts that decode to booleans
	"\"true\"", "\"[true, false, [true]]\"", "\"{\\\"a\\\": false, \\\"b\\\": true}\"",
	// objects / maps whose internal lists have spare capacity or several non-scalar keys (two of each, equal in content)
	"{id: 7, name: \"ann\", plan: \"pro\", _token: \"s\"}", "{a: 1, b: 2, c: 3, d: 4, e: 5, _x: 6, _y: 7}", "{a: 1, b: 2, c: 3, _d: 4}.bear({q: 1})",
	"%{[0, 0]: \"o\", [0, 1]: \"n\", [1, 0]: \"e\"}", "%{[0, 0]: \"o\", [0, 1]: \"n\", [1, 0]: \"e\", 1: 2}", "%{[0, 0]: \"o\", [0, 1]: \"n\", [1, 0]: \"e\"}.bear",
	// ranges with omitted bounds
	"(:3)", "(:2:-1)", "(2:)", "(::2)", "(nil:3:1)", "(\"a\":)",
}

// consumers of a result: the constructs that destructure a value with type assertions of their own
var sweepConsumers = []string{
	"{|a, b, c| [a, b, c]}(*%s)", "{|a, k: 1| [a, k]}(**%s)", "{|a, size: 2, x: 3| [a, size, x]}(**%s)", "%s.repr", "%s.S", "%s == %s", "[*%s]", "{**%s}", "%%{**%s}",
	"%s.keys", "%s.A", "%s@{|x| x}", "\"#{%s}\"", "%s.p", "%s.B", "%s.bear.S", "%s.hash", "[%s].sort", "%s.proto", "%s._iter.next", "%s[0]", "%s['a]", "<{|x| yield x}>.new(%s).A",
}

// names never called: they block, read files, evaluate arbitrary text or grow without bound on purpose
var sweepDeny = map[string]bool{"import": true, "invite!": true, "exit": true}

type fp struct {
	repr  string
	elems []object.PanObject
	pairs int
}

// snapshot fingerprints every array / object / map / str / number reachable from the environment, keyed by identity
func snapshot(env *object.Env) map[object.PanObject]string {
	seen := map[object.PanObject]string{}
	var walk func(o object.PanObject, depth int)
	walk = func(o object.PanObject, depth int) {
		if o == nil || depth > 6 {
			return
		}
		if _, ok := seen[o]; ok {
			return
		}
		switch v := o.(type) {
		case *object.PanArr:
			parts := []string{}
			for _, e := range v.Elems {
				parts = append(parts, fmt.Sprintf("%p", e))
			}
			seen[o] = fmt.Sprintf("arr[%s]", strings.Join(parts, ","))
			for _, e := range v.Elems {
				walk(e, depth+1)
			}
		case *object.PanObj:
			if v == object.BuiltInObjObj || strings.HasPrefix(fmt.Sprintf("%p", v), "0x0") {
				return
			}
			if v.Pairs == nil {
				return
			}
			keys := []string{}
			for h, p := range *v.Pairs {
				keys = append(keys, fmt.Sprintf("%d=%p", h, p.Value))
			}
			sort.Strings(keys)
			// the listed orders of public / private names are part of the value too
			order := ""
			if v.Keys != nil && v.PrivateKeys != nil {
				order = fmt.Sprintf(" keys=%v private=%v", *v.Keys, *v.PrivateKeys)
			}
			seen[o] = fmt.Sprintf("obj{%s}proto=%p%s", strings.Join(keys, ","), v.Proto(), order)
			if len(*v.Pairs) < 40 {
				for _, p := range *v.Pairs {
					walk(p.Value, depth+1)
				}
			}
		case *object.PanMap:
			keys := []string{}
			for _, hk := range *v.HashKeys {
				p := (*v.Pairs)[hk]
				keys = append(keys, fmt.Sprintf("%p=%p", p.Key, p.Value))
			}
			for _, p := range *v.NonHashablePairs {
				keys = append(keys, fmt.Sprintf("%p=%p", p.Key, p.Value))
				walk(p.Key, depth+1)
			}
			seen[o] = fmt.Sprintf("map{%s}", strings.Join(keys, ","))
			for _, p := range *v.Pairs {
				walk(p.Value, depth+1)
			}
		case *object.PanStr:
			seen[o] = "str:" + v.Value
		case *object.PanInt:
			seen[o] = fmt.Sprintf("int:%d proto=%p", v.Value, v.Proto())
		case *object.PanFloat:
			seen[o] = fmt.Sprintf("float:%v", v.Value)
		case *object.PanFunc:
			// the parameters and defaults a function value was created with (its scope is not part of the value;
			// an iterator's scope is replaced by `recur` on purpose)
			if v.FuncWrapper != nil {
				seen[o] = fmt.Sprintf("func:%d:%s:%s:%s", v.FuncKind, safeInspect(v.Args()), safeInspect(v.Kwargs()), v.FuncWrapper.String())
			}
		case *object.PanRange:
			seen[o] = fmt.Sprintf("range:%p:%p:%p", v.Start, v.Stop, v.Step)
			walk(v.Start, depth+1)
			walk(v.Stop, depth+1)
			walk(v.Step, depth+1)
		}
	}
	for _, v := range env.Store {
		walk(v, 0)
	}
	return seen
}

func propNames(o object.PanObject) []string {
	names := map[string]bool{}
	for x := o; x != nil; x = x.Proto() {
		if po, ok := x.(*object.PanObj); ok && po.Pairs != nil {
			for _, p := range *po.Pairs {
				if s, ok := p.Key.(*object.PanStr); ok {
					names[s.Value] = true
				}
			}
		}
	}
	out := []string{}
	for n := range names {
		if !sweepDeny[n] {
			out = append(out, n)
		}
	}
	sort.Strings(out)
	return out
}

func runSweep(c *Ctx, mode string) {
	env := object.NewEnclosedEnv(c.It.base)
	var sb strings.Builder
	// every constant bound by NewEnvWithConsts joins the pool (new built-in objects are covered automatically)
	sweepPool := append([]string{}, sweepPool...)
	consts := []string{}
	for g := c.It.base; g != nil; g = g.Outer() {
		for h := range g.Store {
			if s, ok := object.SymHash2Str(h); ok {
				name := s.(*object.PanStr).Value
				if len(name) > 0 && name[0] >= 'A' && name[0] <= 'Z' {
					consts = append(consts, name)
				}
			}
		}
	}
	sort.Strings(consts)
	have := map[string]bool{}
	for _, v := range sweepPool {
		have[v] = true
	}
	for _, n := range consts {
		if !have[n] {
			sweepPool = append(sweepPool, n)
			have[n] = true
		}
	}
	sweepPool = append(sweepPool, "(\"\":?c)", "(\"a\":\"e\")", "(1.5:3)", "\"\".try.{|x| raise Err.new(\"e\")}", "\"\".try.{|x| raise Err.new(\"e\")}.err", "?c", "`raw`")
	for i, v := range sweepPool {
		sb.WriteString(fmt.Sprintf("p%d := %s\n", i, v))
	}
	if o := c.It.RunIn(env, sb.String(), "", 1000000); o.Kind != "val" {
		c.Em.Emit(Rec{Impl: o.Canon(), Src: "pool setup", Oracle: "pool setup failed: " + o.Canon() + " " + o.ErrMsg + o.Panic, NT: true, Tags: []string{"setup"}})
		return
	}
	pool := make([]object.PanObject, len(sweepPool))
	for i := range sweepPool {
		pool[i], _ = env.Get(object.GetSymHash(fmt.Sprintf("p%d", i)))
	}
	tracePath := os.Getenv("VERIF_TRACE")
	if tracePath == "" {
		tracePath = fmt.Sprintf("/tmp/verif-sweep-%s-%d.last", mode, c.Shard)
	}
	trace, _ := os.Create(tracePath)
	defer func() {
		if trace != nil {
			trace.Close()
			os.Remove(trace.Name())
		}
	}()
	nres := 0
	// moderate argument values (receivers may be extreme; arguments stay small so that no built-in is asked for
	// unbounded memory or time, which the property excludes)
	argIdx := []int{}
	for i, s := range sweepPool {
		if !strings.Contains(s, "9223372036854775807") && s != "1000" && !strings.Contains(s, "nil:nil") {
			argIdx = append(argIdx, i)
		}
	}
	// extreme arguments are used too, except with the names that build a value of the requested size (unbounded memory)
	extremeIdx := []int{}
	for i, s := range sweepPool {
		if strings.Contains(s, "9223372036854775807") || s == "1000" {
			extremeIdx = append(extremeIdx, i)
		}
	}
	sizeProps := map[string]bool{"*": true, "times": true, "**": true, "ljust": true, "rjust": true, "center": true}
	forced := false // inside a group of calls that must run in the same process
	truthySeen := map[string]int{}
	light := mode == "C12" // the truthiness sweep only needs the values the built-ins return
	call := func(src string, tag string) {
		if !forced && !c.Mine() {
			return
		}
		if trace != nil {
			trace.Truncate(0)
			trace.WriteAt([]byte(src), 0)
		}
		var before map[object.PanObject]string
		if mode == "C06" {
			before = snapshot(env)
		}
		full := fmt.Sprintf("r%d := (%s)", nres%64, src) // results stay referenced for the next 64 calls
		nres++
		o := c.It.RunIn(env, full, "line1\nline2\n", 60000)
		rec := Rec{Impl: o.Kind, Src: src, NT: true, Tags: []string{tag, "outcome-" + o.Kind}}
		if o.Kind == "err" {
			rec.Tags = append(rec.Tags, "err-"+o.ErrKind)
		}
		if (tag == "alias" || tag == "consumer") && o.Kind == "syntax" {
			rec.Skip = "probe-does-not-parse"
		}
		switch mode {
		case "C01":
			if o.Kind == "panic" {
				rec.Oracle = "host-level panic: " + o.Panic
			}
			if o.Kind == "fuel" {
				rec.Skip = "fuel"
			}
		case "C06":
			if o.Kind == "fuel" || o.Kind == "panic" {
				rec.Skip = o.Kind
				break
			}
			after := snapshot(env)
			for obj, f := range before {
				if g, ok := after[obj]; ok && g != f {
					rec.Oracle = fmt.Sprintf("an existing value changed: %.80s -> %.80s", f, g)
					break
				}
			}
		}
		if rec.Oracle != "" {
			rec.Oracle += " [" + expandPool(src, sweepPool) + "]"
		}
		c.Em.Emit(rec)
		if mode == "C12" && o.Kind == "val" {
			truthyCheck(c, env, expandPool(src, sweepPool), o.Obj, truthySeen)
		}
		if mode == "C01" && o.Kind == "val" {
			slot := fmt.Sprintf("r%d", (nres-1)%64)
			// type-directed consumers always run; the rest are sampled at the quick tier
			picked := []string{}
			if v, ok := env.Get(object.GetSymHash(slot)); ok {
				switch v.(type) {
				case *object.PanObj:
					picked = append(picked, sweepConsumers[1], sweepConsumers[2], sweepConsumers[7])
				case *object.PanArr:
					picked = append(picked, sweepConsumers[0], sweepConsumers[6])
				case *object.PanMap:
					picked = append(picked, sweepConsumers[8])
				}
			}
			if c.Thorough() {
				// every result gets the type-directed consumers and a rotating quarter of the others (all of them for
				// every result would take hours; each consumer still meets every kind of result many times)
				k := c.Rng.Intn(len(sweepConsumers))
				for j := 0; j < 3; j++ {
					picked = append(picked, sweepConsumers[(k+j)%len(sweepConsumers)])
				}
			} else if c.Rng.Intn(4) == 0 {
				k := c.Rng.Intn(len(sweepConsumers))
				picked = append(picked, sweepConsumers[k], sweepConsumers[(k+1)%len(sweepConsumers)])
			}
			for _, cons := range picked {
				n := strings.Count(cons, "%s")
				as := make([]interface{}, n)
				for x := range as {
					as[x] = slot
				}
				co := c.It.RunIn(env, fmt.Sprintf(cons, as...), "", 60000)
				crec := Rec{Impl: co.Kind, Src: src + " ; " + fmt.Sprintf(cons, as...), NT: true, Tags: []string{"consumer", "outcome-" + co.Kind}}
				if co.Kind == "panic" {
					crec.Oracle = "host-level panic: " + co.Panic
				}
				if co.Kind == "fuel" {
					crec.Skip = "fuel"
				}
				c.Em.Emit(crec)
			}
		}
	}
	quick := !c.Thorough()
	// alias probes (C06): the same receiver used twice in a row with small fresh arguments, both results kept: a result that
	// was built inside the receiver's (or the first result's) spare capacity is overwritten by the second call
	if mode == "C06" {
		// closures made from one literal evaluated several times: the earlier closures are existing values
		for fi, fs := range []string{"{|n| {|x, step: n| x + step}}", "{|n| m{|x, k: [n]| [self, x, k]}}", "{|n| {|a, b: n * 2, c: \"s\" + n.S| [a, b, c]}}",
			"{|n| <{|i, lim: n| yield i if i < lim; recur(i + 1)}>}", "{|n| {f: {|x, d: n| x + d}, n: n}}", "{|n| [{|x: n| x}, {|y: n + 1| y}]}"} {
			if !c.Mine() {
				continue
			}
			if o := c.It.RunIn(env, fmt.Sprintf("mk%d := %s\nfa%d := mk%d(1)\nfb%d := mk%d(2)", fi, fs, fi, fi, fi, fi), "", defaultFuel); o.Kind != "val" {
				continue
			}
			forced = true
			for _, probe := range []string{"mk%d(5)", "mk%d(7)", "fa%d.kwargs", "fb%d.args", "fa%d", "mk%d(9)"} {
				call(fmt.Sprintf(probe, fi), "closure-factory")
			}
			forced = false
		}
		recvs := []string{"%{[0, 0]: \"o\", [0, 1]: \"n\", [1, 0]: \"e\"}", "{id: 7, name: \"ann\", plan: \"pro\", _token: \"s\"}", "(:3)", "(:2:-1)", "[1]", "[1, 2]", "[1, 2, 3]", "[1, 2, 3, 4, 5]", "[1, 2, 3] + [4]", "[1, 2, 3, 4, 5, 6][1:4]", "[[1], [2], [3]]", "(1:4).A",
			"{a: 1}", "{a: 1, b: 2, c: 3}", "%{1: 2}", "%{1: 2, [3]: 4}", "\"abc\"", "{a: 1}.bear({b: 2})", "[1, 2, 3].bear", "Arr.bear.new([1, 2, 3])"}
		args := []string{"%{[0, 0]: \"o\", [0, 1]: \"n\", [1, 0]: \"e\"}", "%{[0, 0]: \"o\", [1, 0]: \"e\", [0, 1]: \"n\"}", "[101]", "[102]", "[103, 104]", "{q: 1}", "{r: 2}", "%{9: 9}", "%{8: 8}", "1", "2", "\"x\"", "\"y\"", "[]", "nil"}
		for ri, rs := range recvs {
			if o := c.It.RunIn(env, fmt.Sprintf("a%d := %s", ri, rs), "", defaultFuel); o.Kind != "val" {
				continue
			}
			recv, _ := env.Get(object.GetSymHash(fmt.Sprintf("a%d", ri)))
			for _, name := range propNames(recv) {
				for k := 0; k+1 < len(args); k++ {
					if quick && c.Rng.Intn(3) != 0 {
						continue
					}
					if !c.Mine() {
						continue
					}
					forced = true
					call(fmt.Sprintf("a%d.%s(%s)", ri, name, args[k]), "alias")
					call(fmt.Sprintf("a%d.%s(%s)", ri, name, args[k+1]), "alias")
					forced = false
				}
			}
			for _, a := range args {
				if !c.Mine() {
					continue
				}
				forced = true
				defer func() { forced = false }()
				call(fmt.Sprintf("[*a%d, *%s]", ri, a), "alias")
				call(fmt.Sprintf("{**a%d, **%s}", ri, a), "alias")
				call(fmt.Sprintf("%%{**a%d, **%s}", ri, a), "alias")
				call(fmt.Sprintf("{|x, y, z, w| [x, y, z, w]}(*a%d, %s)", ri, a), "alias")
				call(fmt.Sprintf("{|a: 0, b: 0, q: 0, r: 0| [a, b, q, r]}(**a%d, **%s)", ri, a), "alias")
				call(fmt.Sprintf("{|x, y, z, w| [x, y, z, w]}(*a%d, *%s)", ri, a), "alias")
				call(fmt.Sprintf("[*a%d, %s]", ri, a), "alias")
				call(fmt.Sprintf("{zz: %s, **a%d}", a, ri), "alias")
				forced = false
			}
		}
	}
	for i, recv := range pool {
		names := propNames(recv)
		for _, name := range names {
			expr := fmt.Sprintf("p%d.%s", i, name)
			call(expr, "arity0")
			for _, a := range argIdx {
				if quick && c.Rng.Intn(6) != 0 {
					continue
				}
				if !quick && c.Rng.Intn(2) != 0 {
					continue // thorough: half of the arguments per property (three times the quick tier)
				}
				if light && quick && c.Rng.Intn(2) != 0 {
					continue
				}
				call(fmt.Sprintf("%s(p%d)", expr, a), "arity1")
				for _, b := range argIdx {
					if c.Rng.Intn(map[bool]int{true: 400, false: 150}[quick]) != 0 {
						continue
					}
					call(fmt.Sprintf("%s(p%d, p%d)", expr, a, b), "arity2")
				}
			}
			if !sizeProps[name] && !light {
				for _, a := range extremeIdx {
					if quick && c.Rng.Intn(3) != 0 {
						continue
					}
					call(fmt.Sprintf("%s(p%d)", expr, a), "extreme1")
					b := argIdx[c.Rng.Intn(len(argIdx))]
					call(fmt.Sprintf("%s(p%d, p%d)", expr, b, a), "extreme2")
				}
			}
			// keyword arguments and literal calls
			if c.Rng.Intn(4) == 0 {
				call(fmt.Sprintf("%s(private?: true, sep: p%d, base: p%d)", expr, argIdx[c.Rng.Intn(len(argIdx))], argIdx[c.Rng.Intn(len(argIdx))]), "kwargs")
			}
		}
		if light {
			continue
		}
		// indexing, chains and operators with every pool member
		for _, a := range argIdx {
			if quick && c.Rng.Intn(5) != 0 {
				continue
			}
			call(fmt.Sprintf("p%d[p%d]", i, a), "index")
			call(fmt.Sprintf("p%d@{|x| x}", i), "chain")
			call(fmt.Sprintf("p%d$(p%d){|acc, x| acc}", i, a), "chain")
			call(fmt.Sprintf("p%d@^p%d", i, a), "varcall")
			call(fmt.Sprintf("p%d(p%d)", i, a), "call")
		}
		// slices with boundary bounds and steps (the index arithmetic must not leave int64 or the receiver)
		bounds := []string{"", "0", "1", "-1", "2", "-2", "3", "4", "100", "-100", "9223372036854775807", "(-9223372036854775807 - 1)", "-9223372036854775807", "9223372036854775806"}
		for n := 0; n < map[bool]int{true: 40, false: 400}[quick]; n++ {
			a, b, s := bounds[c.Rng.Intn(len(bounds))], bounds[c.Rng.Intn(len(bounds))], bounds[c.Rng.Intn(len(bounds))]
			call(fmt.Sprintf("p%d[%s:%s:%s]", i, a, b, s), "slice")
		}
	}
}

// truthyCheck (no model involved): a value returned by a built-in, and the booleans inside a returned container, are
// used as the condition of every conditional construct; all of them follow what the value's own `B` yields.
func truthyCheck(c *Ctx, env *object.Env, src string, res object.PanObject, seen map[string]int) {
	cands := []object.PanObject{}
	var add func(o object.PanObject, depth int)
	add = func(o object.PanObject, depth int) {
		switch v := o.(type) {
		case *object.PanBool:
			cands = append(cands, o)
		case *object.PanArr:
			if depth < 3 {
				for i, e := range v.Elems {
					if i < 6 {
						add(e, depth+1)
					}
				}
			}
		case *object.PanObj:
			if depth < 3 && v.Pairs != nil && len(*v.Pairs) < 8 {
				for _, p := range *v.Pairs {
					add(p.Value, depth+1)
				}
			}
		case *object.PanMap:
			if depth < 3 {
				for _, p := range *v.Pairs {
					add(p.Value, depth+1)
				}
			}
		default:
			if depth == 0 && c.Rng.Intn(60) == 0 {
				cands = append(cands, o)
			}
		}
	}
	add(res, 0)
	for _, cand := range cands {
		name := src
		if i := strings.Index(src, "."); i >= 0 {
			name = src[i:]
			if j := strings.Index(name, "("); j >= 0 {
				name = name[:j]
			}
		}
		_, isBool := cand.(*object.PanBool)
		key := fmt.Sprintf("%s|%T|%s", name, cand, map[bool]string{true: safeInspect(cand), false: ""}[isBool])
		if seen[key] >= 2 {
			continue
		}
		seen[key]++
		env.Set(object.GetSymHash("cand"), cand)
		b := c.It.RunIn(env, "cand.B", "", 60000)
		rec := Rec{Src: src + " ; conditional constructs on " + safeInspect(cand), Impl: b.Kind, NT: true, Tags: []string{"truthy-sweep", fmt.Sprintf("cand-%T", cand)}}
		if b.Kind != "val" || (b.Inspect != "true" && b.Inspect != "false") {
			rec.Skip = "B-does-not-yield-a-boolean"
			c.Em.Emit(rec)
			continue
		}
		bt := b.Inspect == "true"
		probe := "[(1 if cand else 2), (1 if cand), !cand, (cand && 5), {|| return 3 if cand; 4}(), 0.try.{raise Err.new(\"g\") if cand; 8}.or(9)]"
		want := "[2, nil, true, " + safeInspect(cand) + ", 4, 8]"
		if bt {
			want = "[1, 1, false, 5, 3, 9]"
		}
		o := c.It.RunIn(env, probe, "", 60000)
		rec.Impl = o.Kind + " " + o.Inspect
		if o.Kind == "fuel" {
			rec.Skip = "fuel"
		} else if o.Kind != "val" || o.Inspect != want {
			rec.Oracle = fmt.Sprintf("value %s returned by `%s`: its B yields %v but the conditional constructs give %s %s (the one rule gives %s)", safeInspect(cand), src, bt, o.Kind, o.Inspect+o.ErrMsg, want)
		}
		c.Em.Emit(rec)
	}
}

var poolRef = regexp.MustCompile(`\bp(\d+)\b`)

// expandPool replaces the pool names p<i> in a sweep call by the source text of the pool member
func expandPool(src string, pool []string) string {
	return poolRef.ReplaceAllStringFunc(src, func(m string) string {
		var i int
		fmt.Sscanf(m[1:], "%d", &i)
		if i < len(pool) {
			return pool[i]
		}
		return m
	})
}
