/- line-protocol oracle: one case per line in, `model<TAB>spec` out. Core Lean only. -/
import Pangaea.Drv.C11
import Pangaea.Drv.C10
import Pangaea.Drv.C15
import Pangaea.Drv.C04
import Pangaea.Drv.C02
import Pangaea.Drv.C16
import Pangaea.Drv.C17
import Pangaea.Drv.C05
import Pangaea.Drv.C09
import Pangaea.Drv.C12
import Pangaea.Drv.C18
import Pangaea.Drv.C13
import Pangaea.Drv.C19
import Pangaea.Drv.Core

def dispatch (line : String) : String :=
  let toks := (line.trimAscii.toString.splitOn " ").filter (· ≠ "")
  let r : String × String :=
    match toks with
    | "C11" :: rest => Pangaea.Drv.C11.handle rest
    | "C10" :: rest => Pangaea.Drv.C10.handle rest
    | "C15" :: rest => Pangaea.Drv.C15.handle rest
    | "C04" :: rest => Pangaea.Drv.C04.handle rest
    | "C02" :: rest => Pangaea.Drv.C02.handle rest
    | "C16" :: rest => Pangaea.Drv.C16.handle rest
    | "C17" :: rest => Pangaea.Drv.C17.handle rest
    | "C05" :: rest => Pangaea.Drv.C05.handle rest
    | "C09" :: rest => Pangaea.Drv.C09.handle rest
    | "C12" :: rest => Pangaea.Drv.C12.handle rest
    | "C18" :: rest => Pangaea.Drv.C18.handle rest
    | "C13" :: rest => Pangaea.Drv.C13.handle rest
    | "C19" :: rest => Pangaea.Drv.C19.handle rest
    | "CORE" :: rest => Pangaea.Drv.Core.handle rest
    | _ => ("bad-op", "bad-op")
  r.1 ++ "\t" ++ r.2

partial def loop (hin : IO.FS.Stream) (hout : IO.FS.Stream) : IO Unit := do
  let line ← hin.getLine
  if line.isEmpty then return ()
  hout.putStrLn (dispatch line)
  loop hin hout

def main : IO Unit := do
  let hin ← IO.getStdin
  let hout ← IO.getStdout
  loop hin hout
  hout.flush
