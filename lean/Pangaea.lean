import Pangaea.Basic.Int64
import Pangaea.Eval.Index
