/- Go's int64 as Lean `Int` with explicit wrap-around. -/
namespace Pangaea

def two63 : Int := 9223372036854775808
def two64 : Int := 18446744073709551616

/-- the value Go computes for an int64 operation whose exact result is `x` -/
def wrap64 (x : Int) : Int := (x + 9223372036854775808) % 18446744073709551616 - 9223372036854775808

def fits64 (x : Int) : Prop := -9223372036854775808 ≤ x ∧ x < 9223372036854775808

instance (x : Int) : Decidable (fits64 x) := by unfold fits64; infer_instance

theorem wrap64_of_fits {x : Int} (h : fits64 x) : wrap64 x = x := by
  unfold fits64 at h; unfold wrap64; omega

theorem wrap64_fits (x : Int) : fits64 (wrap64 x) := by
  unfold fits64 wrap64; omega

/-- Go's `/` on int64 (truncated), divisor non-zero; `MinInt64 / -1` wraps -/
def goDiv (a b : Int) : Int := wrap64 (a.tdiv b)
/-- Go's `%` on int64 (sign of the dividend) -/
def goMod (a b : Int) : Int := a.tmod b

end Pangaea
