/- Core Pangaea: the reference evaluator. A transcription, construct by construct, of evaluator/eval_*.go,
   evaluator/iternew.go, evaluator/iternext.go and the chain middlewares, in which an error is a result
   (never a value) and scopes live in an append-only list of frames.
   Every function recurses on `fuel`; running out of fuel is its own result and such cases are discarded. -/
import Pangaea.Core.Value
import Pangaea.Basic.Int64
namespace Pangaea.Core

/-! ### state primitives -/
abbrev M (α : Type) := St → R α × St

def pureM {α : Type} (a : α) : M α := fun s => (.ok a, s)
def throwM {α : Type} (kind msg : String) : M α := fun s => (.err kind msg, s)
def outOfFuel {α : Type} : M α := fun s => (.fuel, s)
def bindM {α β : Type} (m : M α) (f : α → M β) : M β := fun s =>
  match m s with
  | (.ok a, s') => f a s'
  | (.err k msg, s') => (.err k msg, s')
  | (.fuel, s') => (.fuel, s')
  | (.unsup w, s') => (.unsup w, s')
infixl:55 " >>== " => bindM

def unsupported {α : Type} (what : String) : M α := fun s => (.unsup what, s)

def setAssoc (x : String) (v : Val) : List (String × Val) → List (String × Val)
  | [] => [(x, v)]
  | (y, w) :: rest => if x == y then (x, v) :: rest else (y, w) :: setAssoc x v rest

/-- `Env.Get`: the innermost frame that binds `x`, walking outward -/
def lookupVar (frames : List Frame) : Nat → Nat → String → Option Val
  | 0, _, _ => none
  | n + 1, id, x =>
    match frames[id]? with
    | none => none
    | some fr =>
      match fr.vars.lookup x with
      | some v => some v
      | none =>
        match fr.outer with
        | some o => lookupVar frames n o x
        | none => none

def getVar (env : Nat) (x : String) : M (Option Val) := fun s => (.ok (lookupVar s.frames (s.frames.length + 1) env x), s)

/-- `Env.Set`: always the frame it is given -/
def setVar (env : Nat) (x : String) (v : Val) : M Unit := fun s =>
  (.ok (), { s with frames := s.frames.modify env (fun fr => { fr with vars := setAssoc x v fr.vars }) })

def allocFrame (fr : Frame) : M Nat := fun s => (.ok s.frames.length, { s with frames := s.frames ++ [fr] })

/-- `NewCopiedEnv` -/
def copyFrame (env : Nat) : M Nat := fun s => (.ok s.frames.length, { s with frames := s.frames ++ [s.frames.getD env default] })

def frameOuter (env : Nat) : M (Option Nat) := fun s => (.ok (s.frames.getD env default).outer, s)

def printLine (line : String) : M Unit := fun s => (.ok (), { s with out := s.out ++ [line] })

def readLine : M (Option String) := fun s =>
  match s.inp with
  | [] => (.ok none, s)
  | l :: rest => (.ok (some l), { s with inp := rest })

/-- a new iterator identity whose own scope is the new frame `fr` -/
def newIter (fr : Frame) (params : List String) (kwd : List (String × Val)) (body : List Stmt) : M Nat := fun s =>
  (.ok s.iters.length,
   { s with frames := s.frames ++ [fr],
            iters := s.iters ++ [{ params := params, kwd := kwd, body := body, env := s.frames.length }] })
/-- `Iter#_iter`: a new identity whose scope is a copy of the iterator's current scope -/
def copyIter (it : IterSt) : M Nat := fun s => newIter (s.frames.getD it.env default) it.params it.kwd it.body s
/-- `recur`: iterator `id` now points to the new frame `fr` -/
def repointIter (id : Nat) (fr : Frame) : M Unit := fun s =>
  (.ok (), { s with frames := s.frames ++ [fr], iters := s.iters.modify id (fun it => { it with env := s.frames.length }) })
def getIter (id : Nat) : M IterSt := fun s =>
  match s.iters[id]? with
  | some it => (.ok it, s)
  | none => (.err "InternalErr" "no such iterator", s)

/-! ### argument binding (`assignArgsToEnv`, `paddedArgs`) -/
def padArgs (nparams : Nat) (args : List Val) : List Val := args ++ List.replicate (nparams - args.length) Val.nil

def bindPositional : List String → List Val → List (String × Val) → List (String × Val)
  | p :: ps, a :: as, acc => bindPositional ps as (setAssoc p a acc)
  | _, _, acc => acc

def bindArgVars : Nat → List Val → List (String × Val) → List (String × Val)
  | _, [], acc => acc
  | i, a :: as, acc => bindArgVars (i + 1) as (setAssoc ("\\" ++ toString i) a acc)

def bindKwParams (kwargs : List (String × Val)) : List (String × Val) → List (String × Val) → List (String × Val)
  | [], acc => acc
  | (k, d) :: rest, acc => bindKwParams kwargs rest (setAssoc k ((kwargs.lookup k).getD d) acc)

def bindKwVars : List (String × Val) → List (String × Val) → List (String × Val)
  | [], acc => acc
  | (k, v) :: rest, acc => bindKwVars rest (setAssoc ("\\" ++ k) v acc)

/-- `\\` is the first argument, when there is one -/
def bindFirst : List Val → List (String × Val) → List (String × Val)
  | a :: _, acc => setAssoc "\\" a acc
  | [], acc => acc

/-- the variables of a call's frame, starting from `base` (a copy of the closure's own frame) -/
def bindArgs (params : List String) (kwd : List (String × Val)) (args : List Val) (kwargs : List (String × Val))
    (base : List (String × Val)) : List (String × Val) :=
  let padded := padArgs params.length args
  let v1 := bindPositional params padded base
  let v2 := bindArgVars 1 padded v1
  let v3 := setAssoc "\\0" (.arr padded) v2
  let v4 := bindFirst padded v3
  let v5 := bindKwParams kwargs kwd v4
  let v6 := bindKwVars kwargs v5
  setAssoc "\\_" (.obj kwargs) v6

/-- `NewCopiedEnv(f.Env)` + `assignArgsToEnv`: the scope of one call -/
def enterCall (fenv : Nat) (params : List String) (kwd : List (String × Val)) (args : List Val) (kwargs : List (String × Val)) : M Nat :=
  fun s =>
    let base := s.frames.getD fenv default
    (.ok s.frames.length, { s with frames := s.frames ++ [{ base with vars := bindArgs params kwd args kwargs base.vars }] })

/-- first occurrence wins (`AddPairs`, duplicate kwargs, duplicate keys) -/
def addFirst (ps : List (String × Val)) (k : String) (v : Val) : List (String × Val) :=
  if (ps.lookup k).isSome then ps else ps ++ [(k, v)]

def addAllFirst (ps : List (String × Val)) : List (String × Val) → List (String × Val)
  | [] => ps
  | (k, v) :: rest => addAllFirst (addFirst ps k v) rest

/-! ### built-in properties on Core values -/
def typeErrAs (v : Val) (ty : String) : String := v.repr ++ " cannot be treated as " ++ ty

/-- `checkIntInfixArgs`: a nil operand stands for the operation's unit -/
def nilAs (name : String) : Int := if name == "*" || name == "//" then 1 else 0

def intBin (name : String) (a : Int) (b : Val) : M Val :=
  match (match b, name with
         | .nil, "+" | .nil, "-" | .nil, "*" | .nil, "//" | .nil, "%" => Val.int (nilAs name)
         | b, _ => b) with
  | .int b =>
    match name with
    | "+" => pureM (.int (wrap64 (a + b)))
    | "-" => pureM (.int (wrap64 (a - b)))
    | "*" => pureM (.int (wrap64 (a * b)))
    | "//" => if b == 0 then throwM "ZeroDivisionErr" "cannot be divided by 0" else pureM (.int (wrap64 (a.fdiv b)))
    | "%" => if b == 0 then throwM "ZeroDivisionErr" "cannot be divided by 0" else pureM (.int (a.tmod b))
    | "<" => pureM (.bool (a < b))
    | "<=" => pureM (.bool (a ≤ b))
    | ">" => pureM (.bool (a > b))
    | ">=" => pureM (.bool (a ≥ b))
    | _ => unsupported ("Int#" ++ name)
  | other =>
    match name with
    | "<" | "<=" | ">" | ">=" => unsupported "comparison with a non-int"
    | _ => throwM "TypeErr" (typeErrAs other "int")

/-- names the model knows on every value -/
def commonProps : List String := ["p", "S", "repr", "==", "!=", "B", "!"]

inductive PropKind | builtin | missing deriving DecidableEq

def hasBuiltin (recv : Val) (name : String) : Bool :=
  commonProps.contains name ||
  (match recv with
   | .nil => ["+", "-", "*", "//"].contains name
   | .int _ => ["+", "-", "*", "//", "%", "<", "<=", ">", ">=", "-%", "+%"].contains name
   | .str _ => ["+", "len"].contains name
   | .arr _ => ["+", "len", "at"].contains name
   | .obj _ => ["at"].contains name
   | .func .. => ["call"].contains name
   | .recur _ => ["call"].contains name
   | .iter _ => ["new", "next"].contains name
   | .errProto _ => ["new"].contains name
   | _ => false)

/-- built-ins that neither call back into the evaluator nor touch scopes -/
def pureBuiltin (name : String) (recv : Val) (args : List Val) : M Val :=
  match name, recv, args with
  | "p", .diamond, _ => readLine >>== fun l => printLine (l.getD "") >>== fun _ => pureM .nil
  | "S", .diamond, _ => readLine >>== fun l => pureM (.str (l.getD ""))
  | _, .diamond, _ => unsupported "this property of the diamond"
  | "p", v, _ => printLine v.toS >>== fun _ => pureM .nil
  | "S", v, _ => pureM (.str v.toS)
  | "repr", v, _ => pureM (.str v.repr)
  | "==", v, w :: _ => pureM (.bool (v.eq w))
  | "!=", v, w :: _ => pureM (.bool (!v.eq w))
  | "B", v, _ => pureM (.bool v.truthy)
  | "!", v, _ => pureM (.bool (!v.truthy))
  | "-%", .int a, _ => pureM (.int (wrap64 (-a)))
  | "+%", .int a, _ => pureM (.int a)
  | "len", .str s, _ => pureM (.int s.length)
  | "len", .arr xs, _ => pureM (.int xs.length)
  | "+", .nil, b :: _ => pureM b
  | "*", .nil, b :: _ => pureM b
  | "+", .str a, .nil :: _ => pureM (.str a)
  | "+", .arr a, .nil :: _ => pureM (.arr a)
  | "+", .str a, .str b :: _ => pureM (.str (a ++ b))
  | "+", .str _, b :: _ => throwM "TypeErr" (typeErrAs b "str")
  | "+", .arr a, .arr b :: _ => pureM (.arr (a ++ b))
  | "+", .arr _, b :: _ => throwM "TypeErr" (typeErrAs b "arr")
  | "at", .arr xs, [.arr [.int i]] =>
    let n : Int := xs.length
    let j := if i < 0 then i + n else i
    if j < 0 || j ≥ n then pureM .nil else pureM (xs.getD j.toNat .nil)
  | "at", .obj ps, [.arr [.str k]] => pureM ((ps.lookup k).getD .nil)
  | "new", .errProto k, .str m :: _ => throwM k m
  | name, .int a, b :: _ => intBin name a b
  | name, _, _ => unsupported ("built-in " ++ name ++ " with these arguments")

/-- what a list / reduce chain iterates over -/
inductive Src where
  | elems (xs : List Val)
  | iter (id : Nat)
  | stdin

mutual

/-- `Eval` on expressions -/
def evalE : Nat → Expr → Nat → M Val
  | 0, _, _ => outOfFuel
  | fuel + 1, e, env =>
    match e with
    | .int n => pureM (.int n)
    | .str s => pureM (.str s)
    | .diamond => pureM .diamond
    | .ident x =>
      getVar env x >>== fun r =>
      match r with
      | some v => pureM v
      | none => throwM "NameErr" ("name `" ++ x ++ "` is not defined")
    | .arr elems => evalElems fuel elems env >>== fun vs => pureM (.arr vs)
    | .obj pairs embedded =>
      evalPairs fuel pairs env [] >>== fun ps =>
      evalEmbedded fuel embedded env ps >>== fun ps' => pureM (.obj ps')
    | .range a b c =>
      evalOpt fuel a env >>== fun va =>
      evalOpt fuel b env >>== fun vb =>
      evalOpt fuel c env >>== fun vc => pureM (.range va vb vc)
    | .func (.mk params kws body) =>
      evalKws fuel kws env [] >>== fun kwd =>
      allocFrame { vars := [], outer := some env } >>== fun fenv =>
      pureM (.func params kwd body fenv)
    | .iter (.mk params kws body) =>
      evalKws fuel kws env [] >>== fun kwd =>
      newIter { vars := [], outer := some env } params kwd body >>== fun id =>
      pureM (.iter id)
    | .assign x rhs =>
      evalE fuel rhs env >>== fun v =>
      setVar env x v >>== fun _ => pureM v
    | .ifE c t els =>
      evalE fuel c env >>== fun vc =>
      if vc.truthy then evalE fuel t env
      else match els with
        | some e' => evalE fuel e' env
        | none => pureM .nil
    | .embedded pieces latter =>
      evalPieces fuel pieces env "" >>== fun s => pureM (.str (s ++ latter))
    | .pref op rhs =>
      if op == "*" then throwM "SyntaxErr" "cannot use `*` unpacking outside of Arr."
      else
        evalE fuel rhs env >>== fun v =>
        let name := if op == "+" then "+%" else if op == "-" then "-%" else op
        callPropQuiet fuel v name [] env
    | .infix op l r =>
      if op == "||" || op == "&&" then
        evalE fuel l env >>== fun vl =>
        if (op == "||" && vl.truthy) || (op == "&&" && !vl.truthy) then pureM vl else evalE fuel r env
      else
        evalE fuel l env >>== fun vl =>
        evalE fuel r env >>== fun vr =>
        callPropQuiet fuel vl op [vr] env
    | .propCall recv m a chainArg prop args kws =>
      evalRecv fuel recv env >>== fun vrecv =>
      evalOpt fuel chainArg env >>== fun vchain =>
      evalArgs fuel args env [] [] >>== fun (vargs, unpacked) =>
      evalKws fuel kws env [] >>== fun vkws =>
      let kwargs := addAllFirst vkws unpacked
      propChain fuel m a vrecv vchain prop vargs kwargs env
    | .litCall recv m a chainArg f =>
      evalRecv fuel recv env >>== fun vrecv =>
      evalE fuel f env >>== fun vf =>
      evalOpt fuel chainArg env >>== fun vchain =>
      litChain fuel m a vrecv vchain vf env
    | .varCall recv m a chainArg v =>
      evalRecv fuel recv env >>== fun vrecv =>
      evalE fuel (.ident v) env >>== fun vf =>
      evalOpt fuel chainArg env >>== fun vchain =>
      litChain fuel m a vrecv vchain vf env

def evalOpt : Nat → Option Expr → Nat → M Val
  | 0, _, _ => outOfFuel
  | _ + 1, none, _ => pureM .nil
  | fuel + 1, some e, env => evalE fuel e env

/-- `extractRecv`: the receiver, or `\1` of the current scope for a receiver-less chain -/
def evalRecv : Nat → Option Expr → Nat → M Val
  | 0, _, _ => outOfFuel
  | fuel + 1, some e, env => evalE fuel e env
  | _ + 1, none, env =>
    getVar env "\\1" >>== fun r =>
    match r with
    | some v => pureM v
    | none => throwM "NameErr" "name `\\1` is not defined"

/-- elements of an array literal, `*e` unpacked in place -/
def evalElems : Nat → List Expr → Nat → M (List Val)
  | 0, _, _ => outOfFuel
  | _ + 1, [], _ => pureM []
  | fuel + 1, .pref "*" e :: rest, env =>
    evalE fuel e env >>== fun v =>
    match v with
    | .arr xs => evalElems fuel rest env >>== fun vs => pureM (xs ++ vs)
    | other => throwM "TypeErr" ("cannot use `*` unpacking for `" ++ other.repr ++ "`")
  | fuel + 1, e :: rest, env =>
    evalE fuel e env >>== fun v =>
    evalElems fuel rest env >>== fun vs => pureM (v :: vs)

/-- `evalArgs`: positional arguments with `*arr` and `**obj` unpacked in the order written -/
def evalArgs : Nat → List Expr → Nat → List Val → List (String × Val) → M (List Val × List (String × Val))
  | 0, _, _, _, _ => outOfFuel
  | _ + 1, [], _, acc, kw => pureM (acc, kw)
  | fuel + 1, .pref "**" e :: rest, env, acc, kw =>
    evalE fuel e env >>== fun v =>
    match v with
    | .obj ps => evalArgs fuel rest env acc (addAllFirst kw ps)
    | other => throwM "TypeErr" ("cannot use `**` unpacking for `" ++ other.repr ++ "`")
  | fuel + 1, .pref "*" e :: rest, env, acc, kw =>
    evalE fuel e env >>== fun v =>
    match v with
    | .arr xs => evalArgs fuel rest env (acc ++ xs) kw
    | other => throwM "TypeErr" ("cannot use `*` unpacking for `" ++ other.repr ++ "`")
  | fuel + 1, e :: rest, env, acc, kw =>
    evalE fuel e env >>== fun v => evalArgs fuel rest env (acc ++ [v]) kw

/-- `evalKwargs`: in the order written, first occurrence of a name wins -/
def evalKws : Nat → List KwE → Nat → List (String × Val) → M (List (String × Val))
  | 0, _, _, _ => outOfFuel
  | _ + 1, [], _, acc => pureM acc
  | fuel + 1, .mk name e :: rest, env, acc =>
    evalE fuel e env >>== fun v => evalKws fuel rest env (addFirst acc name v)

/-- `evalObj`, pairs: the value is evaluated before a computed key -/
def evalPairs : Nat → List PairE → Nat → List (String × Val) → M (List (String × Val))
  | 0, _, _, _ => outOfFuel
  | _ + 1, [], _, acc => pureM acc
  | fuel + 1, .named k e :: rest, env, acc =>
    evalE fuel e env >>== fun v => evalPairs fuel rest env (addFirst acc k v)
  | fuel + 1, .pinned k e :: rest, env, acc =>
    evalE fuel e env >>== fun v =>
    evalE fuel (.ident k) env >>== fun kv =>
    match kv with
    | .str ks => evalPairs fuel rest env (addFirst acc ks v)
    | _ => throwM "TypeErr" "key of obj must be str"
  | fuel + 1, .computed ke e :: rest, env, acc =>
    evalE fuel e env >>== fun v =>
    evalE fuel ke env >>== fun kv =>
    match kv with
    | .str ks => evalPairs fuel rest env (addFirst acc ks v)
    | other => throwM "TypeErr" ("cannot use `" ++ other.repr ++ "` as Obj key.")

/-- `evalObj`, `**e` parts -/
def evalEmbedded : Nat → List Expr → Nat → List (String × Val) → M (List (String × Val))
  | 0, _, _, _ => outOfFuel
  | _ + 1, [], _, acc => pureM acc
  | fuel + 1, e :: rest, env, acc =>
    evalE fuel e env >>== fun v =>
    match v with
    | .obj ps => evalEmbedded fuel rest env (addAllFirst acc ps)
    | other => throwM "TypeErr" ("cannot use `**` unpacking for `" ++ other.repr ++ "`")

/-- `evalEmbeddedStr`: pieces left to right, each converted by `S` -/
def evalPieces : Nat → List PieceE → Nat → String → M String
  | 0, _, _, _ => outOfFuel
  | _ + 1, [], _, acc => pureM acc
  | fuel + 1, .mk str e :: rest, env, acc =>
    evalE fuel e env >>== fun v =>
    callPropQuiet fuel v "S" [] env >>== fun sv =>
    match sv with
    | .str s => evalPieces fuel rest env (acc ++ str ++ s)
    | _ => throwM "ValueErr" ".S must return str"

/-- `_evalStmts` + `evalDefer` -/
def evalStmts : Nat → List Stmt → Nat → M Val
  | 0, _, _ => outOfFuel
  | fuel + 1, stmts, env =>
    fun s =>
      match stmtLoop fuel stmts env .nil none [] s with
      | (.ok (v, defers), s') =>
        (runDefers fuel defers env >>== fun _ => pureM v) s'
      | (.err k msg, s') => (.err k msg, s')   -- defers collected before the error are handled in stmtLoop
      | (.fuel, s') => (.fuel, s')
      | (.unsup w, s') => (.unsup w, s')

/-- the statement loop; on an error the defers collected so far still run (and their error wins) -/
def stmtLoop : Nat → List Stmt → Nat → Val → Option Val → List Expr → M (Val × List Expr)
  | 0, _, _, _, _, _ => outOfFuel
  | _ + 1, [], _, val, yielded, defers => pureM (yielded.getD val, defers)
  | fuel + 1, st :: rest, env, _, yielded, defers =>
    fun s =>
      match evalStmt fuel st env s with
      | (.ok (.val v), s') => stmtLoop fuel rest env v yielded defers s'
      | (.ok (.ret v), s') => (.ok (v, defers), s')
      | (.ok (.yld v), s') => stmtLoop fuel rest env v (some (yielded.getD v)) defers s'
      | (.ok (.dfr e), s') => stmtLoop fuel rest env .nil yielded (defers ++ [e]) s'
      | (.err k msg, s') =>
        match runDefers fuel defers env s' with
        | (.ok _, s'') => (.err k msg, s'')
        | (.err k' msg', s'') => (.err k' msg', s'')
        | (.fuel, s'') => (.fuel, s'')
        | (.unsup w, s'') => (.unsup w, s'')
      | (.fuel, s') => (.fuel, s')
      | (.unsup w, s') => (.unsup w, s')

def runDefers : Nat → List Expr → Nat → M Unit
  | 0, _, _ => outOfFuel
  | _ + 1, [], _ => pureM ()
  | fuel + 1, e :: rest, env => evalE fuel e env >>== fun _ => runDefers fuel rest env

/-- `raise v`: an error value cannot exist here (it would have propagated), so `raise` of a value returns it -/
def evalStmt : Nat → Stmt → Nat → M Sig
  | 0, _, _ => outOfFuel
  | fuel + 1, .expr e, env => evalE fuel e env >>== fun v => pureM (.val v)
  | _ + 1, .jump .dfr e, _ => pureM (.dfr e)
  | fuel + 1, .jump .ret e, env => evalE fuel e env >>== fun v => pureM (.ret v)
  | fuel + 1, .jump .yld e, env => evalE fuel e env >>== fun v => pureM (.yld v)
  | fuel + 1, .jump .rse e, env => evalE fuel e env >>== fun v => pureM (.ret v)
  | fuel + 1, .jumpIf k e cond, env =>
    evalE fuel cond env >>== fun vc =>
    match k with
    | .ret => if vc.truthy then evalE fuel e env >>== fun v => pureM (.ret v) else pureM (.val .nil)
    | .rse => if vc.truthy then evalE fuel e env >>== fun v => pureM (.ret v) else pureM (.val .nil)
    | .yld => if vc.truthy then evalE fuel e env >>== fun v => pureM (.yld v) else throwM "StopIterErr" "iter stopped"
    | .dfr => if vc.truthy then pureM (.dfr e) else pureM (.val .nil)

/-- `evalPanFuncCall` / built-in `recur`: call a function value -/
def callVal : Nat → Val → List Val → List (String × Val) → M Val
  | 0, _, _, _ => outOfFuel
  | fuel + 1, .func params kwd body fenv, args, kwargs =>
    enterCall fenv params kwd args kwargs >>== fun e =>
    evalStmts fuel body e
  | _ + 1, .recur id, args, kwargs =>
    getIter id >>== fun it =>
    frameOuter it.env >>== fun outer =>
    repointIter id { vars := bindArgs it.params it.kwd args kwargs [], outer := outer } >>== fun _ => pureM .nil
  | _ + 1, other, _, _ => throwM "TypeErr" (other.inspect ++ " is not callable.")

/-- `evalProp` + `evalCall` with the receiver prepended -/
def callProp : Nat → Val → String → List Val → List (String × Val) → Nat → M Val
  | 0, _, _, _, _, _ => outOfFuel
  | fuel + 1, recv, name, args, kwargs, env =>
    match (match recv with | .obj ps => ps.lookup name | _ => none) with
    | some (.func params kwd body fenv) => callVal fuel (.func params kwd body fenv) (recv :: args) kwargs
    | some pv => pureM pv
    | none =>
      if hasBuiltin recv name then builtinCall fuel name recv args kwargs env
      else throwM "NoPropErr" ("property `" ++ name ++ "` is not defined.")

/-- `builtInCallProp` (operators, `S`, `B`): an absent property gives nil -/
def callPropQuiet : Nat → Val → String → List Val → Nat → M Val
  | 0, _, _, _, _ => outOfFuel
  | fuel + 1, recv, name, args, env =>
    match (match recv with | .obj ps => ps.lookup name | _ => none) with
    | some (.func params kwd body fenv) => callVal fuel (.func params kwd body fenv) (recv :: args) []
    | some pv => pureM pv
    | none =>
      if hasBuiltin recv name then builtinCall fuel name recv args [] env
      else
        match recv with
        | .nil | .bool _ | .int _ | .str _ | .arr _ | .obj _ => pureM .nil
        | _ => unsupported ("operator " ++ name ++ " on this receiver")

def builtinCall : Nat → String → Val → List Val → List (String × Val) → Nat → M Val
  | 0, _, _, _, _, _ => outOfFuel
  | fuel + 1, "call", f, args, kwargs, _ => callVal fuel f args kwargs
  | fuel + 1, "next", .iter id, _, _, _ => iterNext fuel id
  | fuel + 1, "-", .nil, b :: _, _, env => callPropQuiet fuel b "-%" [] env
  | fuel + 1, "//", .nil, b :: _, _, env => callPropQuiet fuel (.int 1) "//" [b] env
  | _ + 1, "new", .iter id, args, kwargs, _ =>
    getIter id >>== fun it =>
    frameOuter it.env >>== fun outer =>
    newIter { vars := bindArgs it.params it.kwd args kwargs [], outer := outer } it.params it.kwd it.body >>== fun nid =>
    pureM (.iter nid)
  | _ + 1, name, recv, args, _, _ => pureBuiltin name recv args

/-- `evalIterCall`: the body runs in the iterator's own scope, `recur` bound there -/
def iterNext : Nat → Nat → M Val
  | 0, _ => outOfFuel
  | fuel + 1, id =>
    getIter id >>== fun it =>
    setVar it.env "recur" (.recur id) >>== fun _ =>
    evalStmts fuel it.body it.env

/-- additional chains around a property call: `&.` skips a nil receiver, `~.` falls back to the receiver -/
def propAdd : Nat → Add → Val → String → List Val → List (String × Val) → Nat → M Val
  | 0, _, _, _, _, _, _ => outOfFuel
  | fuel + 1, .lonely, recv, name, args, kwargs, env =>
    match recv with
    | .nil => pureM .nil
    | _ => callProp fuel recv name args kwargs env
  | fuel + 1, .thoughtful, recv, name, args, kwargs, env =>
    fun s =>
      match callProp fuel recv name args kwargs env s with
      | (.ok .nil, s') => (.ok recv, s')
      | (.ok v, s') => (.ok v, s')
      | (.err _ _, s') => (.ok recv, s')
      | (.fuel, s') => (.fuel, s')
      | (.unsup w, s') => (.unsup w, s')
  | fuel + 1, _, recv, name, args, kwargs, env => callProp fuel recv name args kwargs env

/-- what a chain iterates over (`iterOf`): an array's remaining elements, or a copy of an iterator -/
def srcOf : Nat → Val → M Src
  | 0, _ => outOfFuel
  | _ + 1, .arr xs => pureM (.elems xs)
  | _ + 1, .iter id =>
    getIter id >>== fun it =>
    copyIter it >>== fun cid => pureM (.iter cid)
  | _ + 1, .diamond => pureM .stdin
  | _ + 1, _ => unsupported "chain over this receiver"

/-- `iterHandler.Next`: the next element, `none` at StopIterErr -/
def nextElem : Nat → Src → M (Option (Val × Src))
  | 0, _ => outOfFuel
  | _ + 1, .elems [] => pureM none
  | _ + 1, .elems (x :: xs) => pureM (some (x, .elems xs))
  | _ + 1, .stdin => readLine >>== fun l =>
    match l with
    | some line => pureM (some (.str line, .stdin))
    | none => pureM none
  | fuel + 1, .iter id =>
    fun s =>
      match iterNext fuel id s with
      | (.ok v, s') => (.ok (some (v, .iter id)), s')
      | (.err k msg, s') => if k == "StopIterErr" then (.ok none, s') else (.err k msg, s')
      | (.fuel, s') => (.fuel, s')
      | (.unsup w, s') => (.unsup w, s')

/-- `newChainMiddleware` for property calls -/
def propChain : Nat → Main → Add → Val → Val → String → List Val → List (String × Val) → Nat → M Val
  | 0, _, _, _, _, _, _, _, _ => outOfFuel
  | fuel + 1, .scalar, a, recv, _, name, args, kwargs, env => propAdd fuel a recv name args kwargs env
  | fuel + 1, .list, a, recv, chainArg, name, args, kwargs, env =>
    match chainArg with
    | .nil =>
      srcOf fuel recv >>== fun src =>
      propListLoop fuel a src name args kwargs env [] >>== fun vs => pureM (.arr vs)
    | _ => unsupported "list chain with a chain argument"
  | fuel + 1, .reduce, a, recv, chainArg, name, args, kwargs, env =>
    srcOf fuel recv >>== fun src =>
    propReduceLoop fuel a src chainArg name args kwargs env

def propListLoop : Nat → Add → Src → String → List Val → List (String × Val) → Nat → List Val → M (List Val)
  | 0, _, _, _, _, _, _, _ => outOfFuel
  | fuel + 1, a, src, name, args, kwargs, env, acc =>
    nextElem fuel src >>== fun nx =>
    match nx with
    | none => pureM acc
    | some (e, src') =>
      propAdd fuel a e name args kwargs env >>== fun v =>
      match a, v with
      | .strict, v => propListLoop fuel a src' name args kwargs env (acc ++ [v])
      | .thoughtful, v => propListLoop fuel a src' name args kwargs env (acc ++ [v])
      | _, .nil => propListLoop fuel a src' name args kwargs env acc
      | _, v => propListLoop fuel a src' name args kwargs env (acc ++ [v])

def propReduceLoop : Nat → Add → Src → Val → String → List Val → List (String × Val) → Nat → M Val
  | 0, _, _, _, _, _, _, _ => outOfFuel
  | fuel + 1, a, src, acc, name, args, kwargs, env =>
    nextElem fuel src >>== fun nx =>
    match nx with
    | none => pureM acc
    | some (e, src') =>
      propAdd fuel a acc name (e :: args) kwargs env >>== fun v =>
      propReduceLoop fuel a src' v name args kwargs env

/-- `literalCallHandler`: the receiver (its elements, for a multi-parameter function) as arguments -/
def litCallOne : Nat → Val → Val → Nat → M Val
  | 0, _, _, _ => outOfFuel
  | fuel + 1, f, recv, _ =>
    match f with
    | .func params _ _ _ =>
      let args := match recv with
        | .arr xs => if params.length > 1 then xs else [recv]
        | _ => [recv]
      callVal fuel f args []
    | .recur _ => unsupported "built-in as literal call"
    | .obj _ => unsupported "callable object"
    | _ => throwM "TypeErr" "literal call must be func"

def litAdd : Nat → Add → Val → Val → Nat → M Val
  | 0, _, _, _, _ => outOfFuel
  | fuel + 1, .lonely, f, recv, env =>
    match recv with
    | .nil => pureM .nil
    | _ => litCallOne fuel f recv env
  | fuel + 1, .thoughtful, f, recv, env =>
    fun s =>
      match litCallOne fuel f recv env s with
      | (.ok .nil, s') => (.ok recv, s')
      | (.ok v, s') => (.ok v, s')
      | (.err _ _, s') => (.ok recv, s')
      | (.fuel, s') => (.fuel, s')
      | (.unsup w, s') => (.unsup w, s')
  | fuel + 1, _, f, recv, env => litCallOne fuel f recv env

/-- `newLiteralCallChainMiddleware` -/
def litChain : Nat → Main → Add → Val → Val → Val → Nat → M Val
  | 0, _, _, _, _, _, _ => outOfFuel
  | fuel + 1, .scalar, a, recv, _, f, env => litAdd fuel a f recv env
  | fuel + 1, .list, a, recv, chainArg, f, env =>
    match chainArg with
    | .nil =>
      srcOf fuel recv >>== fun src =>
      litListLoop fuel a src f env [] >>== fun vs => pureM (.arr vs)
    | _ => unsupported "list chain with a chain argument"
  | fuel + 1, .reduce, a, recv, chainArg, f, env =>
    srcOf fuel recv >>== fun src =>
    litReduceLoop fuel a src chainArg f env

def litListLoop : Nat → Add → Src → Val → Nat → List Val → M (List Val)
  | 0, _, _, _, _, _ => outOfFuel
  | fuel + 1, a, src, f, env, acc =>
    nextElem fuel src >>== fun nx =>
    match nx with
    | none => pureM acc
    | some (e, src') =>
      litAdd fuel a f e env >>== fun v =>
      match a, v with
      | .strict, v => litListLoop fuel a src' f env (acc ++ [v])
      | .thoughtful, v => litListLoop fuel a src' f env (acc ++ [v])
      | _, .nil => litListLoop fuel a src' f env acc
      | _, v => litListLoop fuel a src' f env (acc ++ [v])

def litReduceLoop : Nat → Add → Src → Val → Val → Nat → M Val
  | 0, _, _, _, _, _ => outOfFuel
  | fuel + 1, a, src, acc, f, env =>
    nextElem fuel src >>== fun nx =>
    match nx with
    | none => pureM acc
    | some (e, src') =>
      match a with
      | .thoughtful =>
        fun s =>
          match litCallOne fuel f (.arr [acc, e]) env s with
          | (.ok .nil, s') => litReduceLoop fuel .thoughtful src' acc f env s'
          | (.ok v, s') => litReduceLoop fuel .thoughtful src' v f env s'
          | (.err _ _, s') => litReduceLoop fuel .thoughtful src' acc f env s'
          | (.fuel, s') => (.fuel, s')
          | (.unsup w, s') => (.unsup w, s')
      | _ =>
        litAdd fuel a f (.arr [acc, e]) env >>== fun v =>
        litReduceLoop fuel a src' v f env

end

/-! ### programs -/
def errKinds : List String :=
  ["Err", "AssertionErr", "NameErr", "NoPropErr", "NotImplementedErr", "StopIterErr", "SyntaxErr", "TypeErr", "ValueErr", "ZeroDivisionErr"]

def globals : List (String × Val) :=
  [("nil", .nil), ("true", .bool true), ("false", .bool false)] ++ errKinds.map (fun k => (k, .errProto k))

/-- scope 0: constants; scope 1: the program's own scope (`NewEnclosedEnv(constants)`) -/
def initSt (stdin : List String) : St :=
  { frames := [{ vars := globals, outer := none }, { vars := [], outer := some 0 }], iters := [], out := [], inp := stdin }

def runProgram (fuel : Nat) (prog : List Stmt) (stdin : List String) : R Val × St :=
  evalStmts fuel prog 1 (initSt stdin)

end Pangaea.Core
