/- Core Pangaea: abstract syntax as the parser produces it (ast/ast.go), restricted to the node kinds the
   reference evaluator covers. The harness serialises the real parser's AST into this type. -/
namespace Pangaea.Core

inductive Main | scalar | list | reduce deriving DecidableEq, Repr, Inhabited
inductive Add | vanilla | lonely | thoughtful | strict deriving DecidableEq, Repr, Inhabited
inductive JumpKind | ret | yld | dfr | rse deriving DecidableEq, Repr, Inhabited

mutual
inductive Expr where
  | int (n : Int)
  | str (s : String)                                   -- StrLiteral / SymLiteral
  | ident (x : String)                                 -- includes `\1`, `\name`, ...
  | diamond                                            -- `<>`
  | arr (elems : List Expr)                            -- an element may be `prefix "*" e`
  | obj (pairs : List PairE) (embedded : List Expr)    -- `{k: v, ..., **e, ...}`
  | range (a b c : Option Expr)
  | func (c : FuncC)
  | iter (c : FuncC)
  | assign (x : String) (e : Expr)
  | ifE (cond thn : Expr) (els : Option Expr)
  | embedded (pieces : List PieceE) (latter : String)  -- pieces in source order
  | pref (op : String) (e : Expr)
  | infix (op : String) (l r : Expr)
  | propCall (recv : Option Expr) (m : Main) (a : Add) (chainArg : Option Expr) (prop : String) (args : List Expr) (kws : List KwE)
  | litCall (recv : Option Expr) (m : Main) (a : Add) (chainArg : Option Expr) (f : Expr)
  | varCall (recv : Option Expr) (m : Main) (a : Add) (chainArg : Option Expr) (v : String)
inductive PairE where
  | named (k : String) (v : Expr)                      -- `{a: v}` (identifier key)
  | pinned (k : String) (v : Expr)                     -- `{^a: v}`
  | computed (k : Expr) (v : Expr)                     -- `{"a": v}`, `{(e): v}`
inductive KwE where
  | mk (name : String) (e : Expr)
inductive PieceE where
  | mk (str : String) (e : Expr)
inductive FuncC where
  | mk (params : List String) (kws : List KwE) (body : List Stmt)
inductive Stmt where
  | expr (e : Expr)
  | jump (k : JumpKind) (e : Expr)
  | jumpIf (k : JumpKind) (e : Expr) (cond : Expr)
end

instance : Inhabited Expr := ⟨.int 0⟩
instance : Inhabited Stmt := ⟨.expr (.int 0)⟩

end Pangaea.Core
