/- Core Pangaea: values, scopes and the interpreter state. -/
import Pangaea.Core.Syntax
import Pangaea.Object.Dict
namespace Pangaea.Core

inductive Val where
  | nil
  | bool (b : Bool)
  | int (i : Int)
  | str (s : String)
  | arr (xs : List Val)
  | obj (ps : List (String × Val))        -- own pairs, first occurrence wins, prototype Obj
  | range (a b c : Val)
  | func (params : List String) (kwd : List (String × Val)) (body : List Stmt) (env : Nat)
  | iter (id : Nat)                       -- an iterator object (mutable: `recur` swaps its scope)
  | recur (id : Nat)                      -- the built-in `recur` of iterator `id`
  | errProto (kind : String)              -- `ValueErr`, `Err`, ...
  | errw (kind msg : String)              -- an error wrapped as a value (`ValueErr.new("m")`)
  | diamond                               -- `<>`: standard input
  deriving Inhabited

structure Frame where
  vars : List (String × Val)
  outer : Option Nat
  deriving Inhabited

structure IterSt where
  params : List String
  kwd : List (String × Val)
  body : List Stmt
  env : Nat
  deriving Inhabited

structure St where
  frames : List Frame      -- scope k is `frames[k]`; scopes are never removed
  iters : List IterSt
  out : List String        -- printed lines
  inp : List String        -- remaining stdin lines
  deriving Inhabited

/-- results: a value, a Pangaea error, or the model ran out of fuel (the case is then discarded) -/
inductive R (α : Type) where
  | ok (a : α)
  | err (kind msg : String)
  | fuel
  | unsup (what : String)     -- outside the modelled language (the case is discarded)
  deriving Inhabited

/-- what a statement hands to the statement list -/
inductive Sig where
  | val (v : Val)
  | ret (v : Val)
  | yld (v : Val)
  | dfr (e : Expr)
  deriving Inhabited

/-! ### printing (`Inspect` / `S`) -/
def joinSep (sep : String) : List String → String
  | [] => ""
  | [x] => x
  | x :: xs => x ++ sep ++ joinSep sep xs

mutual
def Val.inspect : Val → String
  | .nil => "nil"
  | .bool b => if b then "true" else "false"
  | .int i => toString i
  | .str s => "\"" ++ s ++ "\""
  | .arr xs => "[" ++ joinSep ", " (inspectList xs) ++ "]"
  | .obj ps => "{" ++ joinSep ", " (inspectPairs ps) ++ "}"
  | .range a b c => "(" ++ a.inspect ++ ":" ++ b.inspect ++ ":" ++ c.inspect ++ ")"
  | .func .. => "<func>"
  | .iter _ => "<iter>"
  | .recur _ => "<builtin>"
  | .errProto k => k
  | .errw k m => "[" ++ k ++ ": " ++ m ++ "]"
  | .diamond => "<diamond>"
def inspectList : List Val → List String
  | [] => []
  | x :: xs => x.inspect :: inspectList xs
def inspectPairs : List (String × Val) → List String
  | [] => []
  | (k, v) :: ps => ("\"" ++ k ++ "\": " ++ v.inspect) :: inspectPairs ps
end

/-- pairs in the order `Inspect` prints them: sorted by name -/
def sortPairs (ps : List (String × Val)) : List (String × Val) :=
  (Dict.sortNames (ps.map (·.1))).filterMap (fun k => (ps.lookup k).map (fun v => (k, v)))

mutual
def Val.canon : Val → Val
  | .arr xs => .arr (canonList xs)
  | .obj ps => .obj (sortPairs (canonPairs ps))
  | v => v
def canonList : List Val → List Val
  | [] => []
  | x :: xs => x.canon :: canonList xs
def canonPairs : List (String × Val) → List (String × Val)
  | [] => []
  | (k, v) :: ps => (k, v.canon) :: canonPairs ps
end

def Val.repr (v : Val) : String := v.canon.inspect
def Val.toS : Val → String
  | .str s => s
  | v => v.repr

/-! ### equality (`==`) on data values -/
mutual
def Val.eqv : Val → Val → Bool
  | .nil, .nil => true
  | .bool a, .bool b => a == b
  | .int a, .int b => a == b
  | .str a, .str b => a == b
  | .arr xs, .arr ys => eqvList xs ys
  | .obj ps, .obj qs => eqvPairs ps qs
  | .errProto a, .errProto b => a == b
  | _, _ => false
def eqvList : List Val → List Val → Bool
  | [], [] => true
  | x :: xs, y :: ys => x.eqv y && eqvList xs ys
  | _, _ => false
def eqvPairs : List (String × Val) → List (String × Val) → Bool
  | [], [] => true
  | (k, v) :: ps, (l, w) :: qs => k == l && v.eqv w && eqvPairs ps qs
  | _, _ => false
end

def Val.eq (a b : Val) : Bool := a.canon.eqv b.canon

/-- `B` of the built-in types -/
def Val.truthy : Val → Bool
  | .nil => false
  | .bool b => b
  | .int i => i != 0
  | .str s => s != ""
  | .arr xs => !xs.isEmpty
  | .obj ps => !ps.isEmpty
  | _ => true

end Pangaea.Core
