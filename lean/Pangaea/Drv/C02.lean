import Pangaea.Syntax.Prec
import Pangaea.Syntax.ExprParser
import Pangaea.Drv.Util
namespace Pangaea.Drv.C02
open Pangaea.Prec Pangaea.ExprParser Pangaea.Table Pangaea.Drv

def opLevel (op : String) : Nat :=
  match infixOps.find? (·.1 == op) with
  | some (_, name) => (level name).getD 0
  | none => 0

partial def renderTree : Tree String String → String
  | .atom a => renderAtom a
  | .bin o l r => "(" ++ renderTree l ++ " " ++ o ++ " " ++ renderTree r ++ ")"

/-- `a0 op a1 op a2 …` with plain atoms: parse with yacc's shift-reduce machine -/
def pureInfix : List String → Option (String × List (String × String))
  | [a] => if infixOps.any (·.1 == a) then none else some (a, [])
  | a :: o :: rest =>
    if infixOps.any (·.1 == o) && !(infixOps.any (·.1 == a)) then
      match pureInfix rest with
      | some (b, ws) => some (a, (o, b) :: ws)
      | none => none
    else none
  | [] => none

def plainAtom (s : String) : Bool :=
  s != "(" && s != ")" && !prefixOps.contains s && !reserved.contains s && !isChainTok s && s != ":=" && s != "=>" && !compoundOps.contains s

def handle (toks : List String) : String × String :=
  let spec := (parseStmt toks).getD "SYNTAXERR"
  let model :=
    match pureInfix toks with
    | some (a0, ws) =>
      if (a0 :: ws.map (·.2)).all plainAtom then renderTree (sr opLevel [] (.atom a0) ws) else spec
    | none => spec
  (model, spec)

end Pangaea.Drv.C02
