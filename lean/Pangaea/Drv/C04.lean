/- Concrete instance of the chain model for the C04 correspondence: elements are tagged objects
   `E<id>` with a per-element behaviour table (value / nil / raise), accumulators are `A<t>`. -/
import Pangaea.Eval.Chain
import Pangaea.Drv.Util
namespace Pangaea.Drv.C04
open Pangaea.Chain Pangaea.Drv

def elemV (id : Int) : Val := .arr [.str "E", .int id]
def accV (t : Int) : Val := .arr [.str "A", .int t]

/-- the methods add up all their (up to three) arguments; a missing one counts 0 -/
def argInt : List Val → Int
  | [] => 0
  | .int a :: rest => a + argInt rest
  | _ :: rest => argInt rest

def behaviour (tbl : List (Int × Char)) (id : Int) : Option Char := tbl.lookup id

/-- `E#m`: `m{|a| return nil if self.b == 'n; raise Err.new("boom") if self.b == 'r; self.id * 10 + a}` -/
def callList (tbl : List (Int × Char)) : PH := fun recv args =>
  match recv with
  | .arr [.str "E", .int id] =>
    match behaviour tbl id with
    | some 'v' => .int (id * 10 + argInt args)
    | some 'n' => .nil
    | some 'r' => .err "Err"
    | some 's' => .err "StopIterErr"
    | some 't' => .err "TypeErr"
    | some 'z' => .err "ValueErr"
    | _ => .err "NoPropErr"
  | _ => .err "NoPropErr"

/-- `Acc#m`: `m{|e, a| return nil if e.b == 'n; raise Err.new("boom") if e.b == 'r; self.bear({t: self.t * 10 + e.id + a})}` -/
def callReduce (tbl : List (Int × Char)) : PH := fun acc args =>
  match acc, args with
  | .arr [.str "A", .int t], .arr [.str "E", .int id] :: rest =>
    match behaviour tbl id with
    | some 'v' => accV (t * 10 + id + argInt rest)
    | some 'n' => .nil
    | some 'r' => .err "Err"
    | some 's' => .err "StopIterErr"
    | some 't' => .err "TypeErr"
    | some 'z' => .err "ValueErr"
    | _ => .err "NoPropErr"
  | _, _ => .err "NoPropErr"

/-- Arr#digest: `[*self, *pairs]` -/
def digestArr : Val → List Val → Val
  | .arr pre, xs => .arr (pre ++ xs)
  | _, xs => .arr xs

partial def showVal : Val → String
  | .nil => "nil"
  | .int i => "i" ++ toString i
  | .str s => s
  | .err k => "err:" ++ k
  | .arr [.str "E", .int id] => "E" ++ toString id
  | .arr [.str "A", .int t] => "A" ++ toString t
  | .arr xs => "[" ++ joinWith "," (xs.map showVal) ++ "]"

def parseElem (s : String) : Option (Val × Option (Int × Char)) :=
  if s = "N" then some (.nil, none) else
  match s.toList.reverse with
  | b :: ds => (String.ofList ds.reverse).toInt?.map (fun id => (elemV id, some (id, b)))
  | [] => none

def parseMain : String → Option Main
  | "scalar" => some .scalar | "list" => some .list | "reduce" => some .reduce | _ => none
def parseAdd : String → Option Add
  | "vanilla" => some .vanilla | "lonely" => some .lonely | "thoughtful" => some .thoughtful | "strict" => some .strict | _ => none

def parseChainArg (s : String) : Option Val :=
  if s = "-" then some .nil
  else if s.startsWith "A" then (s.drop 1).toString.toInt?.map accV
  else if s = "[]" then some (.arr [])
  else if s.startsWith "[" then ((s.drop 1).dropEnd 1).toString.toInt?.map (fun i => .arr [.int i])
  else none

/-- the property-call lonely reduce chain skips the call while the accumulator is nil -/
def specReduceLonelyProp (g : Val → Val → Val) (it : Iter) (init : Val) : Val :=
  let r := it.elems.foldl (fun acc e => if acc.isErr then acc else if acc.isNil then acc else g acc e) init
  if r.isErr then r else orStop it.stop r

/-- `C04 <main> <add> <form p|l|v> <elems csv> <chainArg> <arg>` -/
def handle (args : List String) : String × String :=
  match args with
  | [m, a, form, elems, carg, arg] =>
    match parseMain m, parseAdd a, (splitCsv elems).mapM parseElem, parseChainArg carg with
    | some m, some a, some es, some chainArg =>
      let tbl := es.filterMap (·.2)
      let it : Iter := { elems := es.map (·.1), stop := none }
      let recv : Val := (es.map (·.1)).headD .nil
      let cargs : List Val := if arg = "-" then [] else (arg.splitOn "+").filterMap (fun t => t.toInt?.map Val.int)
      let model :=
        match m with
        | .reduce =>
          if form = "p" then propChain m a (callReduce tbl) digestArr recv it chainArg cargs
          else litChain m a (litOfReduce (callReduce tbl) cargs) digestArr recv it chainArg
        | _ =>
          if form = "p" then propChain m a (callList tbl) digestArr recv it chainArg cargs
          else litChain m a (litOfList (callList tbl) cargs) digestArr recv it chainArg
      let spec :=
        match m with
        | .scalar => elemRule a (fun r => callList tbl r cargs) recv
        | .list => specList a (fun r => callList tbl r cargs) digestArr it chainArg
        | .reduce =>
          if a == .lonely then
            (if form = "p" then specReduceLonelyProp (fun acc e => callReduce tbl acc (e :: cargs)) it chainArg
             else specReduce .vanilla (fun acc e => callReduce tbl acc (e :: cargs)) it chainArg)
          else specReduce a (fun acc e => callReduce tbl acc (e :: cargs)) it chainArg
      (showVal model, showVal spec)
    | _, _, _, _ => ("bad-op", "bad-op")
  | _ => ("bad-op", "bad-op")

end Pangaea.Drv.C04
