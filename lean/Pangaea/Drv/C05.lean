/- Concrete instance of the prototype-forest model for the C05 correspondence. -/
import Pangaea.Object.Proto
import Pangaea.Drv.Util
namespace Pangaea.Drv.C05
open Pangaea.Proto Pangaea.Drv

inductive PK where
  | val (n : Int)
  | fn (id : String)      -- `{|x, y| ['f_id, x.tag, y]}`
  | meth (id : String)    -- `m{|y| ['m_id, self.tag, y]}`
  | miss (id : String)    -- `m{|name, y| ['x_id, self.tag, name, y]}`
  | builtin
  deriving Repr

/-- the receiver's `tag` property as the callee prints it (found along the chain like any property) -/
def tagOf (o : Obj PK) : String :=
  match findProp o "tag" with
  | some (.val k) => toString k
  | _ => "?"

def parseProps (idx : Nat) (s : String) : List (String × PK) :=
  if s = "-" then [] else
  (s.splitOn ",").filterMap (fun kv =>
    match kv.splitOn "=" with
    | [n, k] =>
      let id := toString idx ++ "_" ++ n
      match k with
      | "f" => some (n, .fn id)
      | "m" => some (n, .meth id)
      | "x" => some (n, .miss id)
      | _ => (k.drop 1).toString.toInt?.map (fun v => (n, PK.val v))
    | _ => none)

/-- built-in top of every chain: Obj ↦ BaseObj; `bi` says where the probed name lives -/
def topChain (probe : String) (bi : String) : Obj PK :=
  let baseO : Obj PK := .base "BaseObj" (if bi = "BaseObj" then [(probe, .builtin)] else [])
  .node "Obj" (if bi = "Obj" then [(probe, .builtin)] else []) baseO

def buildObjs (top : Obj PK) (defs : List String) : List (Obj PK) :=
  defs.foldl (fun (acc : List (Obj PK)) d =>
    let idx := acc.length
    match d.splitOn ":" with
    | [kind, parent, props] =>
      let pp := parseProps idx props
      let ps := if (pp.lookup "tag").isSome then pp else ("tag", PK.val idx) :: pp
      let nm := "T" ++ toString idx
      let o : Obj PK :=
        match kind, parent.toNat? with
        | "lit", _ => .node nm ps top
        | "bear", some p => .node nm ps (acc.getD p top)
        | "bro", some p => match (acc.getD p top).proto with
          | some pp => .node nm ps pp
          | none => .node nm ps top
        -- bear / bro with an earlier object as source: the child has the source's own pairs
        | "bearv", some p => .node nm ((acc.getD (props.toNat?.getD 0) top).pairs) (acc.getD p top)
        | "brov", some p => match (acc.getD p top).proto with
          | some pp => .node nm ((acc.getD (props.toNat?.getD 0) top).pairs) pp
          | none => .node nm ((acc.getD (props.toNat?.getD 0) top).pairs) top
        | _, _ => .node nm ps top
      acc ++ [o]
    | _ => acc) []

def pkEq : PK → PK → Bool
  | .val a, .val b => a == b
  | .fn a, .fn b => a == b
  | .meth a, .meth b => a == b
  | .miss a, .miss b => a == b
  | .builtin, .builtin => true
  | _, _ => false

/-- `Obj#==` (BaseObj#== on two objects): the same own pairs, whatever the prototypes -/
def objEq (a b : Obj PK) : Bool :=
  a.pairs.length == b.pairs.length &&
  a.pairs.all (fun p => match b.pairs.lookup p.1 with | some q => pkEq p.2 q | none => false)

def showArg (a : Option Int) : String := match a with | some v => toString v | none => "nil"

def callResult (recv : Obj PK) (n : String) (arg : Option Int) : String :=
  match evalProp recv n with
  | .prop (.val k) => toString k
  | .prop (.fn id) => "[f_" ++ id ++ "," ++ tagOf recv ++ "," ++ showArg arg ++ "]"
  | .prop (.meth id) => "[m_" ++ id ++ "," ++ tagOf recv ++ "," ++ showArg arg ++ "]"
  | .prop (.miss id) => "[x_" ++ id ++ "," ++ tagOf recv ++ "," ++ showArg arg ++ ",nil]"  -- `_missing` called directly by name
  | .prop .builtin => "unsupported"
  | .missing (.miss id) => "[x_" ++ id ++ "," ++ tagOf recv ++ "," ++ n ++ "," ++ showArg arg ++ "]"
  | .missing (.val k) => toString k
  | .missing _ => "unsupported"
  | .noProp => "err:NoPropErr"

/-- `C05 <defs;…> <bi> <probe>` -/
def handle (args : List String) : String × String :=
  match args with
  | [defs, bi, probe] =>
    let parts := probe.splitOn ":"
    let name := parts.getD 2 ""
    let objs := buildObjs (topChain name bi) (defs.splitOn ";")
    let top := topChain name bi
    let get (i : String) : Obj PK := objs.getD (i.toNat?.getD 0) top
    let r : String :=
      match parts with
      | ["call", i, n] => callResult (get i) n (some 9)
      | ["get", i, n] => callResult (get i) n none
      | ["tcall", i, n] =>
        -- `~.`: the same lookup; an error or nil result is replaced by the receiver
        let r := callResult (get i) n (some 9)
        if r == "err:NoPropErr" || r == "nil" then "T" ++ i else r
      | ["idx", i, n] =>
        match findProp (get i) n with
        | some (.val k) => toString k
        | some .builtin => "unsupported"
        | some _ => "fn"
        | none => "nil"
      | ["which", i, n] =>
        match findOwner (get i) n with
        | some w => w.name
        | none => "nil"
      | ["anc", i] => "[" ++ joinWith "," ((ancestors (get i)).map (·.name)) ++ "]"
      | ["kind", i, j] => toString ((chain (get i)).any (fun x => x.name == (get j).name || objEq x (get j)))
      | ["keys", i] => "[" ++ joinWith "," (keys (get i)) ++ "]"
      | ["proto", i] => match (get i).proto with | some p => p.name | none => "nil"
      | _ => "bad-op"
    (r, r)
  | _ => ("bad-op", "bad-op")

end Pangaea.Drv.C05
