/- Concrete instance of the dictionary model for the C09 correspondence: a small value language with
   nested object / map literals and `**` unpacking, accessors and indexing. -/
import Pangaea.Object.Dict
import Pangaea.Drv.Util
namespace Pangaea.Drv.C09
open Pangaea.Dict Pangaea.Drv

inductive V where
  | nil
  | bool (b : Bool)
  | int (i : Int)
  | flt (i : Int)           -- a float with an integral value
  | str (s : String)
  | arr (xs : List V)
  | obj (ps : List (String × V))                 -- first-wins, insertion order
  | map (sc : List (V × V)) (ot : List (V × V))  -- scalar keys / other keys
  | err (k : String)
  | fn
  deriving Repr, Inhabited

/-- literal syntax tree as sent by the harness -/
inductive L where
  | leaf (v : V)
  | arr (xs : List L)
  | obj (items : List (Option String × L))       -- (some name, value) | (none, unpacked operand)
  | map (items : List (Option L × L))            -- (some key, value) | (none, unpacked operand)
  deriving Repr, Inhabited

/-! parser for the harness encoding -/
abbrev PR := Option (L × List Char)

def takeWhileC (p : Char → Bool) : List Char → List Char × List Char
  | c :: cs => if p c then let r := takeWhileC p cs; (c :: r.1, r.2) else ([], c :: cs)
  | [] => ([], [])

mutual
def pVal : Nat → List Char → PR
  | 0, _ => none
  | fuel + 1, cs =>
    match cs with
    | 'n' :: r => some (.leaf .nil, r)
    | 'T' :: r => some (.leaf (.bool true), r)
    | 'F' :: r => some (.leaf (.bool false), r)
    | 'i' :: r =>
      let (d, r') := takeWhileC (fun c => c.isDigit || c == '-') r
      (String.ofList d).toInt?.map (fun n => (.leaf (.int n), r'))
    | 'f' :: r =>
      let (d, r') := takeWhileC (fun c => c.isDigit || c == '-') r
      (String.ofList d).toInt?.map (fun n => (.leaf (.flt n), r'))
    | 's' :: r =>
      let (d, r') := takeWhileC (fun c => c.isAlphanum || c == '_' || c == '!' || c == '?') r
      some (.leaf (.str (String.ofList d)), r')
    | '[' :: r =>
      match pList fuel r with
      | some (xs, ']' :: r') => some (.arr xs, r')
      | _ => none
    | '{' :: r =>
      match pObjItems fuel r with
      | some (its, '}' :: r') => some (.obj its, r')
      | _ => none
    | '%' :: '{' :: r =>
      match pMapItems fuel r with
      | some (its, '}' :: r') => some (.map its, r')
      | _ => none
    | _ => none

def pList : Nat → List Char → Option (List L × List Char)
  | 0, _ => none
  | fuel + 1, cs =>
    match cs with
    | ']' :: _ => some ([], cs)
    | _ =>
      match pVal fuel cs with
      | some (v, ';' :: r) =>
        match pList fuel r with
        | some (vs, r') => some (v :: vs, r')
        | none => none
      | some (v, r) => some ([v], r)
      | none => none

def pObjItems : Nat → List Char → Option (List (Option String × L) × List Char)
  | 0, _ => none
  | fuel + 1, cs =>
    match cs with
    | '}' :: _ => some ([], cs)
    | _ =>
      let item : Option ((Option String × L) × List Char) :=
        match cs with
        | '*' :: r => (pVal fuel r).map (fun p => ((none, p.1), p.2))
        | _ =>
          let (nm, r) := takeWhileC (fun c => c.isAlphanum || c == '_' || c == '!' || c == '?') cs
          match r with
          | '=' :: r' => (pVal fuel r').map (fun p => ((some (String.ofList nm), p.1), p.2))
          | _ => none
      match item with
      | some (it, ';' :: r) =>
        match pObjItems fuel r with
        | some (its, r') => some (it :: its, r')
        | none => none
      | some (it, r) => some ([it], r)
      | none => none

def pMapItems : Nat → List Char → Option (List (Option L × L) × List Char)
  | 0, _ => none
  | fuel + 1, cs =>
    match cs with
    | '}' :: _ => some ([], cs)
    | _ =>
      let item : Option ((Option L × L) × List Char) :=
        match cs with
        | '*' :: r => (pVal fuel r).map (fun p => ((none, p.1), p.2))
        | _ =>
          match pVal fuel cs with
          | some (k, '=' :: r') => (pVal fuel r').map (fun p => ((some k, p.1), p.2))
          | _ => none
      match item with
      | some (it, ';' :: r) =>
        match pMapItems fuel r with
        | some (its, r') => some (it :: its, r')
        | none => none
      | some (it, r) => some ([it], r)
      | none => none
end

def parseL (s : String) : Option L :=
  match pVal (s.length * 2 + 4) s.toList with
  | some (l, []) => some l
  | _ => none

/-! semantics -/

def isScalarV : V → Bool
  | .nil | .bool _ | .int _ | .flt _ | .str _ => true
  | _ => false

/-- public names sorted, then private names sorted (the order of Keys / PrivateKeys) -/
def sortPairs (ps : List (String × V)) : List (String × V) :=
  let names := ps.map (·.1)
  (sortNames (names.filter isPublicName) ++ sortNames (names.filter (fun n => !isPublicName n))).filterMap
    (fun n => (ps.lookup n).map (fun v => (n, v)))

mutual
/-- `==` on values (objects compare their pair sets) -/
partial def eqV : V → V → Bool
  | .nil, .nil => true
  | .bool a, .bool b => a == b
  | .bool a, .int b => (if a then 1 else 0) == b      -- Bool is a descendant of Int: `true == 1`
  | .int a, .bool b => a == (if b then 1 else 0)
  | .int a, .int b => a == b
  | .flt a, .flt b => a == b
  | .str a, .str b => a == b
  | .arr xs, .arr ys => eqList xs ys
  | .obj ps, .obj qs =>
    let a := sortPairs ps; let b := sortPairs qs
    a.length == b.length && (a.zip b).all (fun (p, q) => p.1 == q.1 && eqV p.2 q.2)
  | _, _ => false
partial def eqList : List V → List V → Bool
  | [], [] => true
  | x :: xs, y :: ys => eqV x y && eqList xs ys
  | _, _ => false
end

/-- key equivalence of maps: scalar keys are compared through their hash (type-strict: `1` and `true` are different
    keys), the others with `==` (so `[1, 0]` and `[true, false]` are the same key) -/
def keyEq (a b : V) : Bool :=
  match a, b with
  | .bool x, .bool y => x == y
  | .bool _, _ => false
  | _, .bool _ => false
  | _, _ => eqV a b

def isErr : V → Bool | .err _ => true | _ => false

partial def evalL : L → V
  | .leaf v => v
  | .arr xs =>
    let vs := xs.map evalL
    match vs.find? isErr with
    | some e => e
    | none => .arr vs
  | .obj items =>
    -- literal pairs first, then every unpacked operand (must be an object)
    let own := items.filterMap (fun it => it.1.map (fun n => (n, evalL it.2)))
    let emb := items.filterMap (fun it => match it.1 with | none => some (evalL it.2) | some _ => none)
    match (own.map (·.2) ++ emb).find? isErr with
    | some e => e
    | none =>
      if emb.all (fun v => match v with | .obj _ => true | _ => false) then
        .obj (buildObj own (emb.map (fun v => match v with | .obj ps => ps | _ => [])))
      else .err "TypeErr"
  | .map items =>
    let own : List (V × V) := items.filterMap (fun it => it.1.map (fun k => (evalL k, evalL it.2)))
    let emb := items.filterMap (fun it => match it.1 with | none => some (evalL it.2) | some _ => none)
    match ((own.map (·.1)) ++ (own.map (·.2)) ++ emb).find? isErr with
    | some e => e
    | none =>
      let unpack : V → Option (List (V × V))
        | .map sc ot => some (sc ++ ot)
        | .obj ps =>
          let names := ps.map (·.1)
          some ((sortNames (names.filter isPublicName) ++ sortNames (names.filter (fun n => !isPublicName n))).filterMap
            (fun n => (ps.lookup n).map (fun v => (V.str n, v))))
        | _ => none
      match emb.mapM unpack with
      | some lists =>
        let m := buildMap keyEq isScalarV (own ++ lists.flatten)
        .map m.scalars m.others
      | none => .err "TypeErr"

partial def render : V → String
  | .nil => "n"
  | .bool true => "T"
  | .bool false => "F"
  | .int i => "i" ++ toString i
  | .flt i => "f" ++ toString i
  | .str s => "s" ++ s
  | .arr xs => "[" ++ joinWith ";" (xs.map render) ++ "]"
  | .obj ps => "{" ++ joinWith ";" ((sortPairs ps).map (fun p => p.1 ++ "=" ++ render p.2)) ++ "}"
  | .map sc ot => "%{" ++ joinWith ";" ((sc ++ ot).map (fun p => render p.1 ++ "=" ++ render p.2)) ++ "}"
  | .err k => "err:" ++ k
  | .fn => "fn"

def pairArr (p : V × V) : V := .arr [p.1, p.2]

/-- names that live on the Map/Obj prototype chain (indexing an absent str key falls back to the property);
    the harness tells us through `prop` whether the probed key names one -/
def probe (v : V) (args : List String) (propHit : Bool) : V :=
  match v, args with
  | .err k, _ => .err k
  | v, ["show"] => v
  | .obj ps, ["keys"] => .arr ((objKeys ps false).map V.str)
  | .obj ps, ["keysp"] => .arr ((objKeys ps true).map V.str)
  | .obj ps, ["values"] => .arr ((objValues ps false).map (·.getD .nil))
  | .obj ps, ["valuesp"] => .arr ((objValues ps true).map (·.getD .nil))
  | .obj ps, ["items"] => .arr ((objItems ps false).map (fun p => V.arr [.str p.1, p.2.getD .nil]))
  | .obj ps, ["itemsp"] => .arr ((objItems ps true).map (fun p => V.arr [.str p.1, p.2.getD .nil]))
  | .obj ps, ["iter"] => .arr ((objItems ps false).map (fun p => V.arr [.str p.1, p.2.getD .nil]))
  | .map sc ot, ["keys"] => .arr ((sc ++ ot).map (·.1))
  | .map sc ot, ["values"] => .arr ((sc ++ ot).map (·.2))
  | .map sc ot, ["items"] => .arr ((sc ++ ot).map pairArr)
  | .map sc ot, ["iter"] => .arr ((sc ++ ot).map pairArr)
  | .map sc ot, ["len"] => .int (sc ++ ot).length
  | .map sc ot, ["get", k] =>
    match parseL k with
    | some kl =>
      let kv := evalL kl
      match (PanMap.get keyEq isScalarV { scalars := sc, others := ot } kv) with
      | some x => x
      | none => if propHit then .fn else .nil
    | none => .err "bad-op"
  | .obj ps, ["get", k] =>
    match parseL k with
    | some (.leaf (.str n)) => match ps.lookup n with
      | some x => x
      | none => if propHit then .fn else .nil
    | _ => .nil
  | _, _ => .err "bad-op"

/-- `C09 <literal> <propHit 0|1> <probe…>` -/
def handle (args : List String) : String × String :=
  match args with
  | lit :: ph :: rest =>
    match parseL lit with
    | some l =>
      let r := render (probe (evalL l) rest (ph == "1"))
      (r, r)
    | none => ("bad-op", "bad-op")
  | _ => ("bad-op", "bad-op")

end Pangaea.Drv.C09
