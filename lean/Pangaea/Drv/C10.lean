import Pangaea.Props.IntArith
import Pangaea.Drv.Util
namespace Pangaea.Drv.C10
open Pangaea Pangaea.IntArith Pangaea.Drv

def floatBits (a b : Int) : String := toString (Float.ofInt a / Float.ofInt b).toBits

def showR : R → String
  | .int v => "int:" ++ toString v
  | .floatDiv a b => "float:" ++ floatBits a b
  | .floatPow _ _ => "floatpow"
  | .zeroDiv => "zerodiv"

def optInt (x : Int) : String := if fits64 x then "int:" ++ toString x else "-"

/-- exact specification on unbounded integers; "-" = the property does not constrain this case -/
def spec (op : String) (a b : Int) : String :=
  match op with
  | "add" => optInt (a + b)
  | "sub" => optInt (a - b)
  | "mul" => optInt (a * b)
  | "pow" => if b < 0 then "-" else if b > 200 ∧ (a > 1 ∨ a < -1) then "-" else optInt (ipow a b.toNat)
  | "div" => if b = 0 then "zerodiv" else "float:" ++ floatBits a b
  | "fdiv" => if b = 0 then "zerodiv" else optInt (a.fdiv b)
  | "mod" => if b = 0 then "zerodiv" else "-"   -- a relation, not a function: see `modrel`
  | "cmp" => if a < b then "int:-1" else if a = b then "int:0" else "int:1"
  | _ => "bad-op"

def handle (args : List String) : String × String :=
  match args with
  | ["neg", a] =>
    match parseInt? a with
    | some a => (showR (neg a), optInt (-a))
    | none => ("bad-op", "bad-op")
  | ["modrel", a, b, r] =>
    -- the implementation's `a % b = r` judged by the property's relation (`remOk_iff`)
    match parseInt? a, parseInt? b, parseInt? r with
    | some a, some b, some r =>
      let v := if b = 0 then "bad" else if remOk a b r then "ok" else "bad"
      (v, v)
    | _, _, _ => ("bad-op", "bad-op")
  | [op, a, b] =>
    match parseInt? a, (if b = "nil" then some (nilAs op) else parseInt? b) with
    | some a, some b =>
      match binop op a b with
      | some r => (showR r, spec op a b)
      | none => ("bad-op", "bad-op")
    | _, _ => ("bad-op", "bad-op")
  | _ => ("bad-op", "bad-op")

end Pangaea.Drv.C10
