import Pangaea.Eval.Index
import Pangaea.Eval.IndexSpec
import Pangaea.Drv.Util
namespace Pangaea.Drv.C11
open Pangaea.Index Pangaea.IndexSpec Pangaea.Drv

def parseBound (s : String) : Option Bound :=
  if s = "nil" then some .nil
  else if s = "other" then some .other
  else (parseInt? s).map .int

def toOpt : Bound → Option Int
  | .int v => some v
  | _ => none

def showElem : Option Int → String
  | some v => toString v
  | none => "nil"

def showRes (tag : String) : Res (Option Int) → String
  | .arr xs => tag ++ "[" ++ joinWith "," (xs.map showElem) ++ "]"
  | .valueErr => "valueerr"
  | .panic => "panic"

def specRes (tag : String) (xs : List Int) (a b s : Bound) : String :=
  if !(a.usable && b.usable && s.usable) then tag ++ "[]" else
  match specSlice xs (toOpt a) (toOpt b) (stepOf s) with
  | none => "valueerr"
  | some ys => tag ++ showInts ys

/-- returns (model, spec) -/
def handle (args : List String) : String × String :=
  match args with
  | ["arr", n, a, b, s] =>
    match n.toNat?, parseBound a, parseBound b, parseBound s with
    | some n, some a, some b, some s =>
      let xs : List Int := (List.range n).map (fun (i : Nat) => (i : Int))
      (showRes "" (valRange xs a b s), specRes "" xs a b s)
    | _, _, _, _ => ("bad-op", "bad-op")
  | ["str", cps, a, b, s] =>
    let xs : List Int := (splitCsv cps).filterMap parseInt?
    match parseBound a, parseBound b, parseBound s with
    | some a, some b, some s =>
      -- strRange = valRange + the unchecked assertion on every element
      let m := match valRange xs a b s with
        | .arr vs => if vs.all Option.isSome then showRes "s" (.arr vs) else "panic"
        | r => showRes "s" r
      (m, specRes "s" xs a b s)
    | _, _, _ => ("bad-op", "bad-op")
  | ["at", n, i] =>
    match n.toNat?, parseInt? i with
    | some n, some i =>
      let xs : List Int := (List.range n).map (fun (i : Nat) => (i : Int))
      let m := match arrIndex i xs with
        | .ok v => showElem v
        | .panic => "panic"
      (m, showElem (specAt xs i))
    | _, _ => ("bad-op", "bad-op")
  | ["sat", cps, i] =>
    let xs : List Int := (splitCsv cps).filterMap parseInt?
    match parseInt? i with
    | some i =>
      let sh : Option Int → String := fun | some v => "s[" ++ toString v ++ "]" | none => "nil"
      let m := match arrIndex i xs with
        | .ok v => sh v
        | .panic => "panic"
      (m, sh (specAt xs i))
    | none => ("bad-op", "bad-op")
  | _ => ("bad-op", "bad-op")

end Pangaea.Drv.C11
