/- Concrete instance of the truthiness model for the C12 correspondence: value descriptions with the
   per-type `B` built-ins, conditional constructs with printing operands. -/
import Pangaea.Props.Truthy
import Pangaea.Drv.Util
namespace Pangaea.Drv.C12
open Pangaea.Truthy Pangaea.Drv

def ofBool (b : Bool) : BRes := if b then .tru else .fls

/-- `B` of a described value: per-type built-ins (Int#B, Float#B, Str#B, Arr#B, Obj#B, Map#B, Nil#B …),
    user-defined `B`, descendants made with `bear` -/
partial def bOf (d : String) : BRes :=
  if d = "nil" then .fls
  else if d = "T" then .tru
  else if d = "F" then .fls
  else if d = "range" || d = "func" || d = "iter" then .tru
  else if d.startsWith "P:" then (if d = "P:Obj" || d = "P:BaseObj" then .tru else .fls)
  else if d.startsWith "ob:" then
    match (d.drop 3).toString with
    | "vT" => .tru | "vF" => .fls | "mT" => .tru | "mF" => .fls | _ => .other
  else if d.startsWith "tn:" then bOf (d.drop 3).toString    -- typed descendant: user B if any, else the payload's
  else if d.startsWith "d2:" then
    let inner := (d.drop 3).toString
    if inner.startsWith "ob:" then bOf inner
    else if inner.startsWith "o" || inner = "P:Obj" then .tru    -- own pairs non-empty
    else bOf inner
  else if d.startsWith "d:" then
    let inner := (d.drop 2).toString
    if inner.startsWith "ob:" then bOf inner
    else if inner.startsWith "o" || inner = "P:Obj" then .fls    -- a child with no own pairs
    else bOf inner
  else
    match d.toList with
    | 'i' :: r => ofBool ((String.ofList r).toInt? != some 0)
    | 'f' :: r => ofBool ((String.ofList r).toInt? != some 0)
    | 's' :: r => ofBool ((String.ofList r).toNat? != some 0)
    | 'a' :: r => ofBool ((String.ofList r).toNat? != some 0)
    | 'o' :: r => ofBool ((String.ofList r).toNat? != some 0)
    | 'm' :: r => ofBool ((String.ofList r).toNat? != some 0)
    | _ => .other

def condOf (d : String) : CondVal :=
  { goBool := if d = "T" then some true else if d = "F" then some false else none, b := bOf d }

abbrev Tr := List String

def view (d : String) (v : String) : CondVal := if v = "COND" then condOf d else { goBool := none, b := .tru }

def out (tag : String) (v : String) : Tr → R String × Tr := fun t => (.val v, t ++ [tag])

def showR : R String × Tr → String
  | (.val v, t) => joinWith "," t ++ "=>" ++ v
  | (.err e, t) => joinWith "," t ++ "=>err:" ++ e

def handle (args : List String) : String × String :=
  match args with
  | [d, construct] =>
    let cv := out "C" "COND"
    let r : String :=
      match construct with
      | "ifelse" => showR (evalIf (view d) "nil" cv (out "T" "then") (some (out "E" "else")) [])
      | "if" => showR (evalIf (view d) "nil" cv (out "T" "then") none [])
      | "and" => showR (evalShortCut (view d) .and cv (out "R" "right") [])
      | "or" => showR (evalShortCut (view d) .or cv (out "R" "right") [])
      | "not" => "C=>" ++ toString (notV (condOf d))
      | "gret" =>
        match evalGuard (view d) cv (out "T" "then") [] with
        | (some res, _) => showR res
        | (none, t) => showR (out "E" "else" t)
      | "graise" =>
        match evalGuard (view d) cv (fun t => (R.err "Err", t)) [] with
        | (some res, _) => showR res
        | (none, t) => showR (out "E" "else" t)
      | "gyield" =>
        -- a truthy guard yields (the statements after it still run); a falsy one stops the iteration
        match evalGuard (view d) cv (out "T" "then") [] with
        | (some (.val v, t), _) => showR (R.val v, t ++ ["E"])
        | (some res, _) => showR res
        | (none, t) => showR (R.err "StopIterErr", t)
      | "gdefer" =>
        match evalGuard (view d) cv (fun t => (R.val "D", t)) [] with
        | (some _, t) => showR (R.val "v", t ++ ["B", "D"])
        | (none, t) => showR (R.val "v", t ++ ["B"])
      | _ => "bad-op"
    -- the singletons nil / true / false are rendered by value (the harness cannot tell them from "the condition itself")
    let lit := if d = "nil" then "nil" else if d = "T" then "true" else if d = "F" then "false" else "COND"
    let r := r.replace "COND" lit
    (r, r)
  | _ => ("bad-op", "bad-op")

end Pangaea.Drv.C12
