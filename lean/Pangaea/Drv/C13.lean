/- Concrete instance of the Either model for the C13 correspondence: chains of steps over ints/strs. -/
import Pangaea.Props.Either
import Pangaea.Drv.Util
namespace Pangaea.Drv.C13
open Pangaea.Either Pangaea.Drv

inductive CV where
  | nil | int (i : Int) | str (s : String) | bool (b : Bool) | sym (s : String) | arr (xs : List CV) | errw (k : String)
  | ev (v : CV) | ee (k : String)   -- an Either held as a value (the result of a step that itself uses `try`)
  deriving Repr, Inhabited

def typeErr : Outcome CV := .err ⟨"TypeErr", ""⟩

def intOp (f : Int → Int → Outcome CV) (n : Int) : CV → Outcome CV
  | .int a => f a n
  | _ => typeErr

def zeroDiv : Outcome CV := .err ⟨"ZeroDivisionErr", ""⟩

def floorDiv (a b : Int) : Int := a.fdiv b

def step (s : String) : Option (CV → Outcome CV) :=
  match s.splitOn ":" with
  | ["add", n] => n.toInt?.map (fun n => intOp (fun a b => .val (.int (a + b))) n)
  | ["sub", n] => n.toInt?.map (fun n => intOp (fun a b => .val (.int (a - b))) n)
  | ["mul", n] => n.toInt?.map (fun n => intOp (fun a b => .val (.int (a * b))) n)
  | ["fdiv", n] => n.toInt?.map (fun n => intOp (fun a b => if b = 0 then zeroDiv else .val (.int (floorDiv a b))) n)
  | ["mod", n] => n.toInt?.map (fun n => intOp (fun a b => if b = 0 then zeroDiv else .val (.int (a.tmod b))) n)
  | ["neg"] => some (fun v => match v with
      | .int a => .val (.int (-a))
      | .nil => .err ⟨"NoPropErr", ""⟩
      | _ => typeErr)
  | ["L2"] => some (intOp (fun a _ => .val (.int (a * 2))) 0)
  | ["Lid"] => some (fun v => .val v)
  | ["Lnil"] => some (fun _ => .val .nil)
  | ["Sb2len"] => some (fun v => match v with
      | .int a => .val (.int a)
      | .nil => .err ⟨"NoPropErr", ""⟩
      | _ => typeErr)
  -- array-valued results and literal steps with one / two parameters (two or more parameters unpack an array)
  | ["Lpair"] => some (fun v => match v with
      | .int a => .val (.arr [.int a, .int (a + 1)])
      | _ => typeErr)
  | ["Lsum2"] => some (fun v => match v with
      | .arr [.int a, .int b] => .val (.int (a + b))
      | .int a => .val (.int a)           -- the second parameter is nil, and `a + nil` is `a`
      | _ => typeErr)
  | ["Lone"] => some (fun v => .val v)
  | ["Lfirst"] => some (fun v => match v with
      | .arr (x :: _) => .val x
      | .arr [] => .val .nil
      | x => .val x)                      -- `{|a, b| a}`
  | ["len"] => some (fun v => match v with
      | .arr xs => .val (.int xs.length)
      | _ => .err ⟨"NoPropErr", ""⟩)
  -- a step whose own result is an Either
  | ["Ltry"] => some (fun v => .val (.ev v))
  | ["Ltryfail"] => some (fun _ => .val (.ee "ZeroDivisionErr"))
  | ["Lnoprop"] => some (fun _ => .err ⟨"NoPropErr", ""⟩)
  | ["Lraise", k] => some (fun _ => .err ⟨k, ""⟩)
  | _ => none

partial def render : CV → String
  | .nil => "nil"
  | .int i => toString i
  | .str s => "s" ++ s
  | .bool b => toString b
  | .sym s => s
  | .arr xs => "[" ++ joinWith "," (xs.map render) ++ "]"
  | .errw k => k
  | .ev v => "ev(" ++ render v ++ ")"
  | .ee k => "ee(" ++ k ++ ")"

def renderE (e : E CV) : String := render (e.A .nil (fun x => .errw x.kind) (fun a b => .arr [a, b]))

/-- `C13 <start int> <steps ;-separated | -> <accessor>` -/
def handle (args : List String) : String × String :=
  match args with
  | [start, steps, acc] =>
    match start.toInt?, (if steps = "-" then some [] else (steps.splitOn ";").mapM step) with
    | some s0, some fs =>
      let e := runTry (CV.int s0) fs
      let wrapErr : ErrV → CV := fun x => .errw x.kind
      let r : String :=
        match acc.splitOn ":" with
        | ["A"] => renderE e
        | ["val"] => render (e.valOr .nil)
        | ["err"] => render (e.errOr .nil wrapErr)
        | ["valp"] => toString (e.isVal (fun v => match v with | .nil => true | _ => false))
        | ["errp"] => toString e.isErr
        | ["or", d] => render (e.orElse (.int (d.toInt?.getD 0)))
        | ["catch", k] => renderE (e.catch k (fun _ => .sym "caught"))
        | ["ignore", k] => renderE (e.catch k (fun _ => .nil))
        | ["abandon"] => match e.abandon with
          | .val v => render v
          | .err x => "raise " ++ x.kind
        | ["plain"] => match runPlain (CV.int s0) fs with
          | .val v => render v
          | .err x => "raise " ++ x.kind
        | _ => "bad-op"
      (r, r)
    | _, _ => ("bad-op", "bad-op")
  | _ => ("bad-op", "bad-op")

end Pangaea.Drv.C13
