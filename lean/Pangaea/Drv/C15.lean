/- Concrete instance of the statement-list model for the C15 correspondence: a tiny statement language
   (markers printed to an output trace, defers, guarded jumps, failing expressions, nested calls). -/
import Pangaea.Eval.Stmts
import Pangaea.Drv.Util
namespace Pangaea.Drv.C15
open Pangaea.Stmts Pangaea.Drv

inductive CV where
  | nil
  | int (n : Int)
  | err (kind msg : String)
  deriving Repr, DecidableEq

/-- deferred expressions -/
inductive DExp where
  | print (m : String)      -- "m".p
  | boom (k m : String)     -- boom(K, "m")  (raises K: m)
  | fail                    -- 1/0
  | call (i : Nat)          -- fi()
  deriving Repr

inductive CStmt where
  | print (m : String)
  | value (n : Int)
  | dfr (d : DExp)
  | dfrIf (c : Bool) (d : DExp)
  | ret (n : Int)
  | retIf (c : Bool) (n : Int)
  | raise (k m : String)
  | raiseIf (c : Bool) (k m : String)
  | yldIf (c : Bool) (n : Int)
  | nameErr (x : String)
  | fail
  | call (i : Nat)
  | yld (n : Int)
  deriving Repr

abbrev Tr := List String

def zeroDiv : CV := .err "ZeroDivisionErr" "cannot be divided by 0"

def evStmt (run : Nat → Tr → Out CV × Tr) : CStmt → Tr → SVal CV DExp × Tr
  | .print m, t => (.val .nil, t ++ [m])
  | .value n, t => (.val (.int n), t)
  | .dfr d, t => (.dfr d, t)
  | .dfrIf c d, t => if c then (.dfr d, t) else (.val .nil, t)
  | .ret n, t => (.ret (.int n), t)
  | .retIf c n, t => if c then (.ret (.int n), t) else (.val .nil, t)
  | .raise k m, t => (.err (.err k m), t)
  | .raiseIf c k m, t => if c then (.err (.err k m), t) else (.val .nil, t)
  | .yldIf c n, t => if c then (.yld (.int n), t) else (.err (.err "StopIterErr" "iter stopped"), t)
  | .nameErr x, t => (.err (.err "NameErr" ("name `" ++ x ++ "` is not defined")), t)
  | .fail, t => (.err zeroDiv, t)
  | .yld n, t => (.yld (.int n), t)
  | .call i, t =>
    match run i t with
    | (.val v, t') => (.val v, t')
    | (.err e, t') => (.err e, t')

def evDExp (run : Nat → Tr → Out CV × Tr) : DExp → Tr → Option CV × Tr
  | .print m, t => (none, t ++ [m])
  | .boom k m, t => (some (.err k m), t)
  | .fail, t => (some zeroDiv, t)
  | .call i, t =>
    match run i t with
    | (.val _, t') => (none, t')
    | (.err e, t') => (some e, t')

def runFn (fns : List (List CStmt)) : Nat → Nat → Tr → Out CV × Tr
  | 0, _, t => (.err (.err "Fuel" ""), t)
  | fuel + 1, i, t =>
    evalStmts (evStmt (runFn fns fuel)) (evDExp (runFn fns fuel)) CV.nil (fns.getD i []) t

/-- the same program through the declarative reference -/
def specFn (fns : List (List CStmt)) : Nat → Nat → Tr → Out CV × Tr
  | 0, _, t => (.err (.err "Fuel" ""), t)
  | fuel + 1, i, t =>
    let ev := evStmt (specFn fns fuel)
    let evd := evDExp (specFn fns fuel)
    let b := specBody ev CV.nil (fns.getD i []) t
    -- run the reached defers in order, stop at the first that raises
    let rec go : List DExp → Tr → Option CV × Tr
      | [], t => (none, t)
      | d :: ds, t => match evd d t with
        | (some e, t') => (some e, t')
        | (none, t') => go ds t'
    match go b.2.1 b.2.2 with
    | (some e, t') => (.err e, t')
    | (none, t') => (b.1, t')

def showCV : CV → String
  | .nil => "val nil"
  | .int n => "val " ++ toString n
  | .err k m => "err " ++ k ++ ": " ++ m

def showOut : Out CV × Tr → String
  | (.val v, t) => joinWith "," t ++ "=>" ++ showCV v
  | (.err e, t) => joinWith "," t ++ "=>" ++ showCV e

def parseBool (c : Char) : Bool := c == '1'

def parseDExp (s : String) : Option DExp :=
  match s.toList with
  | 'P' :: m => some (.print (String.ofList m))
  | 'B' :: m =>
    match (String.ofList m).splitOn "." with
    | [k, m] => some (.boom k m)
    | _ => none
  | ['F'] => some .fail
  | 'C' :: i => (String.ofList i).toNat?.map .call
  | _ => none

def parseStmt (s : String) : Option CStmt :=
  match s.toList with
  | 'P' :: m => some (.print (String.ofList m))
  | 'V' :: n => (String.ofList n).toInt?.map .value
  | 'D' :: d => (parseDExp (String.ofList d)).map .dfr
  | 'G' :: c :: d => (parseDExp (String.ofList d)).map (.dfrIf (parseBool c))
  | 'R' :: n => (String.ofList n).toInt?.map .ret
  | 'Q' :: c :: n => (String.ofList n).toInt?.map (.retIf (parseBool c))
  | 'X' :: m =>
    match (String.ofList m).splitOn "." with
    | [k, m] => some (.raise k m)
    | _ => none
  | 'Z' :: c :: m =>
    match (String.ofList m).splitOn "." with
    | [k, m] => some (.raiseIf (parseBool c) k m)
    | _ => none
  | 'W' :: c :: n => (String.ofList n).toInt?.map (.yldIf (parseBool c))
  | 'N' :: x => some (.nameErr (String.ofList x))
  | ['F'] => some .fail
  | 'C' :: i => (String.ofList i).toNat?.map .call
  | 'Y' :: n => (String.ofList n).toInt?.map .yld
  | _ => none

def parseBody (s : String) : Option (List CStmt) :=
  if s = "-" then some [] else (s.splitOn ";").mapM parseStmt

/-- `C15 <body0>|<body1>|…` : the last function is called -/
def handle (args : List String) : String × String :=
  match args with
  | [prog] =>
    match (prog.splitOn "|").mapM parseBody with
    | some fns =>
      let n := fns.length
      (showOut (runFn fns (n + 1) (n - 1) []), showOut (specFn fns (n + 1) (n - 1) []))
    | none => ("bad-op", "bad-op")
  | _ => ("bad-op", "bad-op")

end Pangaea.Drv.C15
