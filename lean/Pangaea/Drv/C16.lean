import Pangaea.Syntax.Lexer
import Pangaea.Drv.Util
namespace Pangaea.Drv.C16
open Pangaea.Lexer Pangaea.Drv

def matcher (name : String) : Option (List Char → Option (List Char)) :=
  match name with
  | "RET" => some matchRET
  | "MULTILINE_MAIN_CHAIN" => some (matchMultiline isMainChain)
  | "MULTILINE_ADD_CHAIN" => some (matchMultiline isAddChain)
  | "DOUBLEQUOTE_STR" => some matchDQ
  | "BACKQUOTE_STR" => some matchBQ
  | "IDENT" => some matchIdent
  | _ => none

def handle (args : List String) : String × String :=
  match args with
  | ["match", name, cps] =>
    match matcher name with
    | some m =>
      let cs : List Char := (splitCsv cps).filterMap (fun s => s.toNat?.map Char.ofNat)
      let r := match m cs with
        | some rest => toString (cs.length - rest.length)
        | none => "none"
      (r, r)
    | none => ("bad-op", "bad-op")
  | _ => ("bad-op", "bad-op")

end Pangaea.Drv.C16
