import Pangaea.Syntax.Literal
import Pangaea.Drv.Util
namespace Pangaea.Drv.C17
open Pangaea.Literal Pangaea.Drv

def chars (cps : String) : List Char := (splitCsv cps).filterMap (fun s => s.toNat?.map Char.ofNat)

def showLit : LitRes → String
  | .ok v => "ok " ++ toString v
  | .err => "err"

def showStr : StrRes → String
  | .ok cs => "ok " ++ (if cs.isEmpty then "-" else joinWith "," (cs.map (fun c => toString c.toNat)))
  | .err => "err"
  | .unsupported => "unsupported"

def handle (args : List String) : String × String :=
  match args with
  | ["int", base, cps] =>
    match base.toNat? with
    | some b => let r := showLit (parseIntLit b (chars cps)); (r, r)
    | none => ("bad-op", "bad-op")
  | ["expint", m, sign, e] =>
    let r := showLit (parseExpInt (chars m) (sign == "-") (chars e)); (r, r)
  | ["str", cps] => let r := showStr (unquoteBody (chars cps)); (r, r)
  | ["name", cps] =>
    let r := match classify (chars cps) with
      | .ident => "ident" | .reserved => "reserved" | .no => "no"
    (r, r)
  | _ => ("bad-op", "bad-op")

end Pangaea.Drv.C17
