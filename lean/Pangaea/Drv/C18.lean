import Pangaea.Props.Compare
import Pangaea.Drv.Util
namespace Pangaea.Drv.C18
open Pangaea.Compare Pangaea.Drv

def takeWhileC (p : Char → Bool) : List Char → List Char × List Char
  | c :: cs => if p c then let r := takeWhileC p cs; (c :: r.1, r.2) else ([], c :: cs)
  | [] => ([], [])

/-- `<p>_<payload>` -/
def splitTag (cs : List Char) : Option (Nat × List Char × List Char) :=
  let (p, r) := takeWhileC Char.isDigit cs
  match r with
  | '_' :: r' =>
    let (payload, rest) := takeWhileC (fun c => c.isAlphanum || c == '-' || c.toNat > 127) r'
    (String.ofList p).toNat?.map (fun n => (n, payload, rest))
  | _ => none

mutual
def pVal : Nat → List Char → Option (V × List Char)
  | 0, _ => none
  | fuel + 1, cs =>
    match cs with
    | 'n' :: r => some (.nil, r)
    | 'T' :: r => some (.bool true, r)
    | 'F' :: r => some (.bool false, r)
    | 'i' :: r => match splitTag r with
      | some (p, pl, rest) => (String.ofList pl).toInt?.map (fun v => (.int p v, rest))
      | none => none
    | 'f' :: r => match splitTag r with
      | some (p, pl, rest) => (String.ofList pl).toInt?.map (fun v => (.flt p v, rest))
      | none => none
    | 's' :: r => match splitTag r with
      | some (p, pl, rest) => some (.str p (String.ofList pl), rest)
      | none => none
    | '[' :: r =>
      match pList fuel r with
      | some (xs, ']' :: r') => some (.arr xs, r')
      | _ => none
    | '{' :: r =>
      match pPairs fuel r with
      | some (ps, '}' :: r') => some (.obj ps, r')
      | _ => none
    | _ => none
def pList : Nat → List Char → Option (List V × List Char)
  | 0, _ => none
  | fuel + 1, cs =>
    match cs with
    | ']' :: _ => some ([], cs)
    | _ => match pVal fuel cs with
      | some (v, ';' :: r) => (pList fuel r).map (fun p => (v :: p.1, p.2))
      | some (v, r) => some ([v], r)
      | none => none
def pPairs : Nat → List Char → Option (List (String × V) × List Char)
  | 0, _ => none
  | fuel + 1, cs =>
    match cs with
    | '}' :: _ => some ([], cs)
    | _ =>
      let (nm, r) := takeWhileC (fun c => c.isAlphanum || c == '_') cs
      match r with
      | '=' :: r' => match pVal fuel r' with
        | some (v, ';' :: r'') => (pPairs fuel r'').map (fun p => ((String.ofList nm, v) :: p.1, p.2))
        | some (v, r'') => some ([(String.ofList nm, v)], r'')
        | none => none
      | _ => none
end

def parseV (s : String) : Option V :=
  match pVal (s.length * 2 + 4) s.toList with
  | some (v, []) => some v
  | _ => none

def showOB : Option Bool → String
  | some b => toString b
  | none => "unsupported"

def handle (args : List String) : String × String :=
  match args with
  | [op, a, b] =>
    match parseV a, parseV b with
    | some x, some y =>
      let r := match op with
        | "eq" => toString (eqV x y)
        | "ne" => toString (neV x y)
        | "cmp" => match cmpV x y with | some c => toString c | none => "unsupported"
        | "lt" => showOB (ltV x y)
        | "le" => showOB (leV x y)
        | "gt" => showOB (gtV x y)
        | "ge" => showOB (geV x y)
        | _ => "bad-op"
      (r, r)
    | _, _ => ("bad-op", "bad-op")
  | _ => ("bad-op", "bad-op")

end Pangaea.Drv.C18
