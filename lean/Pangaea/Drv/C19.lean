/- Driver for the C19 correspondence: histories of action-programs, the probe's observations.
   `C19 <history: programs separated by | , - for none> <probe>`; a program is `;`-separated actions
   `p:<text>` `d:<x>:<n>` `r:<x>` `s` (shared `_`), numbered by line. model = after the history, spec = alone. -/
import Pangaea.Eval.Fresh
import Pangaea.Drv.Util
namespace Pangaea.Drv.C19
open Pangaea.Fresh Pangaea.Drv

def parseAct (line : Nat) (s : String) : Option Act :=
  match s.splitOn ":" with
  | ["p", t] => some (.print t)
  | ["d", x, n] => n.toNat?.map (.define x)
  | ["r", x] => some (.read x (toString line))
  | ["s"] => some (.raiseShared (toString line))
  | _ => none

def parseProg (s : String) : Option (List Act) :=
  let parts := s.splitOn ";"
  (parts.zipIdx 1).mapM (fun (a, i) => parseAct i a)

def renderObs : Obs → String
  | .out s => "out:" ++ s
  | .val x v => "val:" ++ x ++ "=" ++ toString v
  | .err tr => "err:" ++ joinWith "," tr

def consts : List (String × Nat) := []

def handle (args : List String) : String × String :=
  match args with
  | [hist, probe] =>
    match (if hist = "-" then some [] else (hist.splitOn "|").mapM parseProg), parseProg probe with
    | some hs, some p =>
      let after := (runNext repaired p (runAll repaired hs (P0 consts))).1
      let alone := (runNext repaired p (P0 consts)).1
      (joinWith "|" (after.map renderObs), joinWith "|" (alone.map renderObs))
    | _, _ => ("bad-op", "bad-op")
  | _ => ("bad-op", "bad-op")

end Pangaea.Drv.C19
