/- Driver of the Core reference evaluator: `CORE <stdin> <fuel> <program as s-expression tokens>`.
   The harness serialises the AST produced by the real parser; this file only decodes it. -/
import Pangaea.Core.Eval
import Pangaea.Drv.Util
namespace Pangaea.Drv.Core
open Pangaea.Core

def hexVal (c : Char) : Option Nat :=
  if '0' ≤ c ∧ c ≤ '9' then some (c.toNat - '0'.toNat)
  else if 'a' ≤ c ∧ c ≤ 'f' then some (c.toNat - 'a'.toNat + 10) else none

def unhexBytes : List Char → Option (List UInt8)
  | [] => some []
  | a :: b :: rest => do
    let x ← hexVal a; let y ← hexVal b
    let r ← unhexBytes rest
    pure (UInt8.ofNat (x * 16 + y) :: r)
  | _ => none

/-- atom `x<hex of utf-8>` -/
def unhex (tok : String) : Option String :=
  match tok.toList with
  | 'x' :: cs => (unhexBytes cs).bind (fun bs => String.fromUTF8? (ByteArray.mk bs.toArray))
  | _ => none

def hexDigit (n : Nat) : Char := if n < 10 then Char.ofNat (48 + n) else Char.ofNat (87 + n)
def hex (s : String) : String :=
  String.ofList (s.toUTF8.toList.flatMap (fun b => [hexDigit (b.toNat / 16), hexDigit (b.toNat % 16)]))

abbrev P (α : Type) := List String → Option (α × List String)

def expect (t : String) : P Unit
  | x :: rest => if x == t then some ((), rest) else none
  | [] => none

def atom : P String
  | x :: rest => if x == "(" || x == ")" then none else some (x, rest)
  | [] => none

def hexAtom : P String := fun ts => do
  let (a, r) ← atom ts
  let s ← unhex a
  pure (s, r)

partial def many {α : Type} (p : P α) : P (List α) := fun ts =>
  match ts with
  | ")" :: _ => some ([], ts)
  | _ => do
    let (x, r) ← p ts
    let (xs, r') ← many p r
    pure (x :: xs, r')

def parenList {α : Type} (p : P α) : P (List α) := fun ts => do
  let (_, r) ← expect "(" ts
  let (xs, r) ← many p r
  let (_, r) ← expect ")" r
  pure (xs, r)

def mainOf : String → Option Main
  | "s" => some .scalar | "l" => some .list | "r" => some .reduce | _ => none
def addOf : String → Option Add
  | "v" => some .vanilla | "l" => some .lonely | "t" => some .thoughtful | "s" => some .strict | _ => none
def jumpOf : String → Option JumpKind
  | "ret" => some .ret | "yld" => some .yld | "dfr" => some .dfr | "rse" => some .rse | _ => none

mutual
partial def pExpr : P Expr := fun ts => do
  let (_, r) ← expect "(" ts
  let (head, r) ← atom r
  let (e, r) ← (match head with
    | "int" => do
      let (n, r) ← atom r
      let i ← n.toInt?
      pure (Expr.int i, r)
    | "str" => do let (s, r) ← hexAtom r; pure (Expr.str s, r)
    | "id" => do let (s, r) ← hexAtom r; pure (Expr.ident s, r)
    | "dia" => pure (Expr.diamond, r)
    | "arr" => do let (es, r) ← many pExpr r; pure (Expr.arr es, r)
    | "obj" => do
      let (ps, r) ← parenList pPair r
      let (es, r) ← parenList pExpr r
      pure (Expr.obj ps es, r)
    | "range" => do
      let (a, r) ← pOpt r; let (b, r) ← pOpt r; let (c, r) ← pOpt r
      pure (Expr.range a b c, r)
    | "func" => do let (c, r) ← pFuncC r; pure (Expr.func c, r)
    | "iter" => do let (c, r) ← pFuncC r; pure (Expr.iter c, r)
    | "asg" => do let (x, r) ← hexAtom r; let (e, r) ← pExpr r; pure (Expr.assign x e, r)
    | "if" => do
      let (c, r) ← pExpr r; let (t, r) ← pExpr r; let (e, r) ← pOpt r
      pure (Expr.ifE c t e, r)
    | "emb" => do
      let (ps, r) ← parenList pPiece r
      let (l, r) ← hexAtom r
      pure (Expr.embedded ps l, r)
    | "pre" => do let (op, r) ← hexAtom r; let (e, r) ← pExpr r; pure (Expr.pref op e, r)
    | "inf" => do
      let (op, r) ← hexAtom r; let (a, r) ← pExpr r; let (b, r) ← pExpr r
      pure (Expr.infix op a b, r)
    | "pc" => do
      let (recv, r) ← pOpt r
      let (m, r) ← atom r; let m ← mainOf m
      let (a, r) ← atom r; let a ← addOf a
      let (ca, r) ← pOpt r
      let (prop, r) ← hexAtom r
      let (args, r) ← parenList pExpr r
      let (kws, r) ← parenList pKw r
      pure (Expr.propCall recv m a ca prop args kws, r)
    | "lc" => do
      let (recv, r) ← pOpt r
      let (m, r) ← atom r; let m ← mainOf m
      let (a, r) ← atom r; let a ← addOf a
      let (ca, r) ← pOpt r
      let (f, r) ← pExpr r
      pure (Expr.litCall recv m a ca f, r)
    | "vc" => do
      let (recv, r) ← pOpt r
      let (m, r) ← atom r; let m ← mainOf m
      let (a, r) ← atom r; let a ← addOf a
      let (ca, r) ← pOpt r
      let (v, r) ← hexAtom r
      pure (Expr.varCall recv m a ca v, r)
    | _ => none)
  let (_, r) ← expect ")" r
  pure (e, r)

partial def pOpt : P (Option Expr) := fun ts =>
  match ts with
  | "_" :: r => some (none, r)
  | _ => do let (e, r) ← pExpr ts; pure (some e, r)

partial def pPair : P PairE := fun ts => do
  let (_, r) ← expect "(" ts
  let (head, r) ← atom r
  let (p, r) ← (match head with
    | "pn" => do let (k, r) ← hexAtom r; let (v, r) ← pExpr r; pure (PairE.named k v, r)
    | "pp" => do let (k, r) ← hexAtom r; let (v, r) ← pExpr r; pure (PairE.pinned k v, r)
    | "pk" => do let (k, r) ← pExpr r; let (v, r) ← pExpr r; pure (PairE.computed k v, r)
    | _ => none)
  let (_, r) ← expect ")" r
  pure (p, r)

partial def pKw : P KwE := fun ts => do
  let (_, r) ← expect "(" ts
  let (k, r) ← hexAtom r
  let (v, r) ← pExpr r
  let (_, r) ← expect ")" r
  pure (KwE.mk k v, r)

partial def pPiece : P PieceE := fun ts => do
  let (_, r) ← expect "(" ts
  let (k, r) ← hexAtom r
  let (v, r) ← pExpr r
  let (_, r) ← expect ")" r
  pure (PieceE.mk k v, r)

partial def pFuncC : P FuncC := fun ts => do
  let (_, r) ← expect "(" ts
  let (ps, r) ← parenList hexAtom r
  let (kws, r) ← parenList pKw r
  let (body, r) ← parenList pStmt r
  let (_, r) ← expect ")" r
  pure (FuncC.mk ps kws body, r)

partial def pStmt : P Stmt := fun ts => do
  let (_, r) ← expect "(" ts
  let (head, r) ← atom r
  let (s, r) ← (match head with
    | "es" => do let (e, r) ← pExpr r; pure (Stmt.expr e, r)
    | "jmp" => do
      let (k, r) ← atom r; let k ← jumpOf k
      let (e, r) ← pExpr r
      pure (Stmt.jump k e, r)
    | "jif" => do
      let (k, r) ← atom r; let k ← jumpOf k
      let (e, r) ← pExpr r; let (c, r) ← pExpr r
      pure (Stmt.jumpIf k e c, r)
    | _ => none)
  let (_, r) ← expect ")" r
  pure (s, r)
end

def render (r : R Val × St) : String :=
  let out := hex (joinWith "\n" r.2.out)
  match r.1 with
  | .ok v => "out:" ++ out ++ "|val:" ++ hex v.repr
  | .err k _ => "out:" ++ out ++ "|err:" ++ k
  | .fuel => "fuel"
  | .unsup w => "unsupported:" ++ hex w

/-- `CORE <stdin lines, x-hex, comma separated or -> <fuel> <tokens...>` -/
def handle (args : List String) : String × String :=
  match args with
  | stdin :: fuel :: toks =>
    match (if stdin == "-" then some [] else (stdin.splitOn ",").mapM unhex), fuel.toNat?, parenList pStmt toks with
    | some inp, some f, some (prog, []) =>
      let r := render (runProgram f prog inp)
      (r, r)
    | _, _, _ => ("bad-op", "bad-op")
  | _ => ("bad-op", "bad-op")

end Pangaea.Drv.Core
