/- helpers for the line-protocol drivers -/
namespace Pangaea.Drv

def parseInt? (s : String) : Option Int := s.toInt?

def joinWith (sep : String) (xs : List String) : String := sep.intercalate xs

def showInts (xs : List Int) : String := "[" ++ joinWith "," (xs.map toString) ++ "]"

def splitCsv (s : String) : List String :=
  if s = "-" then [] else s.splitOn ","

end Pangaea.Drv
