/- Model of both chain-middleware stacks of the evaluator, transcribed combinator by combinator from
   evaluator/eval_propcall_chain.go and evaluator/eval_literalcall_chain.go (after the `fix:` commits
   for `=@` error propagation and literal `~$`). Parametric in the callee, in the element list the
   receiver's iterator yields, in how the iterator ends and in the `digest` of the chain argument. -/
namespace Pangaea.Chain

inductive Val where
  | nil
  | int (i : Int)
  | str (s : String)
  | err (k : String)
  | arr (xs : List Val)
  deriving Repr, Inhabited

def Val.isNil : Val → Bool | .nil => true | _ => false
def Val.isErr : Val → Bool | .err _ => true | _ => false

inductive Add | vanilla | lonely | thoughtful | strict deriving DecidableEq, Repr
inductive Main | scalar | list | reduce deriving DecidableEq, Repr

/-- what the receiver's iterator does: yields `elems`, then raises StopIterErr (`stop = none`)
    or another error (`stop = some e`) -/
structure Iter where
  elems : List Val
  stop : Option Val := none

/-- `v`, unless the iterator ended with an error other than StopIterErr -/
def orStop (stop : Option Val) (v : Val) : Val :=
  match stop with
  | some e => e
  | none => v

/-- `v`, unless a call failed -/
def orErr (e? : Option Val) (v : Val) : Val :=
  match e? with
  | some e => e
  | none => v

/-- digest of a list chain's result when a chain argument is given -/
def finish (digest : Val → List Val → Val) (chainArg : Val) (elems : List Val) : Val :=
  if chainArg.isNil then .arr elems else digest chainArg elems

/-! ### property-call stack: handler takes (receiver, args) -/
abbrev PH := Val → List Val → Val

def pLonely (next : PH) : PH := fun r a => if r.isNil then r else next r a
def pThoughtful (next : PH) : PH := fun r a =>
  let x := next r a
  if x.isErr || x.isNil then r else x
def pAdd : Add → PH → PH
  | .lonely => pLonely
  | .thoughtful => pThoughtful
  | _ => id

/-- squashNilPropCallListChainMiddleware's loop -/
def pSquash (next : PH) (args : List Val) (stop : Option Val) (fin : List Val → Val) :
    List Val → List Val → Val
  | [], acc => orStop stop (fin acc.reverse)
  | e :: es, acc =>
    let x := next e args
    if x.isErr then x else if x.isNil then pSquash next args stop fin es acc
    else pSquash next args stop fin es (x :: acc)

/-- keepNilPropCallListChainMiddleware's loop -/
def pKeep (next : PH) (args : List Val) (stop : Option Val) (fin : List Val → Val) :
    List Val → List Val → Val
  | [], acc => orStop stop (fin acc.reverse)
  | e :: es, acc =>
    let x := next e args
    if x.isErr then x else pKeep next args stop fin es (x :: acc)

/-- propCallReduceChainMiddleware's loop -/
def pReduce (next : PH) (args : List Val) (stop : Option Val) : List Val → Val → Val
  | [], acc => orStop stop acc
  | e :: es, acc =>
    let x := next acc (e :: args)
    if x.isErr then x else pReduce next args stop es x

/-- newChainMiddleware: `=@` and `~@` are special-cased, the rest is main ∘ additional -/
def propChain (m : Main) (a : Add) (call : PH) (digest : Val → List Val → Val)
    (recv : Val) (it : Iter) (chainArg : Val) (args : List Val) : Val :=
  match m, a with
  | .list, .strict => pKeep call args it.stop (finish digest chainArg) it.elems []
  | .list, .thoughtful => pKeep (pThoughtful call) args it.stop (finish digest chainArg) it.elems []
  | .scalar, a => pAdd a call recv args
  | .list, a => pSquash (pAdd a call) args it.stop (finish digest chainArg) it.elems []
  | .reduce, a => pReduce (pAdd a call) args it.stop it.elems chainArg

/-! ### literal-call stack: handler takes the receiver only -/
abbrev LH := Val → Val

def lLonely (next : LH) : LH := fun r => if r.isNil then r else next r
def lThoughtful (next : LH) : LH := fun r =>
  let x := next r
  if x.isErr || x.isNil then r else x
def lAdd : Add → LH → LH
  | .lonely => lLonely
  | .thoughtful => lThoughtful
  | _ => id

def lSquash (next : LH) (stop : Option Val) (fin : List Val → Val) : List Val → List Val → Val
  | [], acc => orStop stop (fin acc.reverse)
  | e :: es, acc =>
    let x := next e
    if x.isErr then x else if x.isNil then lSquash next stop fin es acc
    else lSquash next stop fin es (x :: acc)

def lKeep (next : LH) (stop : Option Val) (fin : List Val → Val) : List Val → List Val → Val
  | [], acc => orStop stop (fin acc.reverse)
  | e :: es, acc =>
    let x := next e
    if x.isErr then x else lKeep next stop fin es (x :: acc)

def lReduce (next : LH) (stop : Option Val) : List Val → Val → Val
  | [], acc => orStop stop acc
  | e :: es, acc =>
    let x := next (.arr [acc, e])
    if x.isErr then x else lReduce next stop es x

/-- literalCallThoughtfulReduceChainMiddleware -/
def lThoughtfulReduce (next : LH) (stop : Option Val) : List Val → Val → Val
  | [], acc => orStop stop acc
  | e :: es, acc =>
    let x := next (.arr [acc, e])
    if x.isErr || x.isNil then lThoughtfulReduce next stop es acc
    else lThoughtfulReduce next stop es x

/-- newLiteralCallChainMiddleware -/
def litChain (m : Main) (a : Add) (fn : LH) (digest : Val → List Val → Val)
    (recv : Val) (it : Iter) (chainArg : Val) : Val :=
  match m, a with
  | .list, .strict => lKeep fn it.stop (finish digest chainArg) it.elems []
  | .list, .thoughtful => lKeep (lThoughtful fn) it.stop (finish digest chainArg) it.elems []
  | .reduce, .thoughtful => lThoughtfulReduce fn it.stop it.elems chainArg
  | .scalar, a => lAdd a fn recv
  | .list, a => lSquash (lAdd a fn) it.stop (finish digest chainArg) it.elems []
  | .reduce, a => lReduce (lAdd a fn) it.stop it.elems chainArg

/-! ### the equivalent literal of a property call -/
/-- `{|x| x.prop(args)}` -/
def litOfList (call : PH) (args : List Val) : LH := fun x => call x args
/-- `{|acc, x| acc.prop(x, args)}` applied to the receiver `[acc, x]` (unpacked by literalCallArgs) -/
def litOfReduce (call : PH) (args : List Val) : LH
  | .arr [acc, x] => call acc (x :: args)
  | _ => .err "TypeErr"

/-! ### documented per-element rules (specification) -/

/-- result of one call under an additional context; `r` is the call's receiver -/
def elemRule (a : Add) (f : Val → Val) (r : Val) : Val :=
  match a with
  | .lonely => if r.isNil then .nil else f r
  | .thoughtful => let x := f r; if x.isErr || x.isNil then r else x
  | _ => f r

/-- the first failing result stops the chain -/
def firstErr (rs : List Val) : Option Val := rs.find? Val.isErr

/-- which results a list chain keeps -/
def keptResults (a : Add) (rs : List Val) : List Val :=
  match a with
  | .strict => rs
  | .thoughtful => rs
  | _ => rs.filter (fun x => !x.isNil)

/-- list chain: results in order; `@`/`&@` drop nil results, `=@`/`~@` keep them -/
def specList (a : Add) (f : Val → Val) (digest : Val → List Val → Val) (it : Iter) (chainArg : Val) : Val :=
  let rs := it.elems.map (elemRule a f)
  orErr (firstErr rs) (orStop it.stop (finish digest chainArg (keptResults a rs)))

/-- reduce chain: fold from the chain argument; a failing step stops it; the thoughtful variant
    keeps the accumulator when the step is nil or fails -/
def specReduceStep (a : Add) (g : Val → Val → Val) (acc e : Val) : Val :=
  if acc.isErr then acc else
  match a with
  | .thoughtful => let x := g acc e; if x.isErr || x.isNil then acc else x
  | _ => g acc e

def specReduce (a : Add) (g : Val → Val → Val) (it : Iter) (init : Val) : Val :=
  let r := it.elems.foldl (specReduceStep a g) init
  if r.isErr then r else orStop it.stop r

end Pangaea.Chain
