/- The reviewed evaluation results that package evaluator never tests for *object.PanErr (C07). Every other result of
   Eval / evalOrNil / evalStmts / builtInCallProp / evalCall … is checked in the function that obtains it. The list
   regenerated from the sources must equal this one (Theorems/C07.lean). Sorted as the extractor sorts. -/
namespace Pangaea.ErrSites

def reviewed : List (String × String) := [
  ("evaluator/eval_embeddedstr.go:evalEmbeddedStr: evaluatedS := builtInCallProp(…)",
   "the `S` conversion hook the interpreter itself invokes: outside the property (a non-str result, an error included, becomes ValueErr `.S must return str`)"),
  ("evaluator/eval_func.go:evalCallable: arg := Eval(…)",
   "pattern parameters (non-identifier parameter expressions): unfinished feature marked TODO in the source; not reachable from identifier parameters"),
  ("evaluator/eval_infix.go:canShortCut: boolified := builtInCallProp(…)",
   "the `B` conversion hook: outside the property (anything but `true` counts as falsy)"),
  ("evaluator/eval_jumpifstmt.go:isTruthy: cond := builtInCallProp(…)",
   "the `B` conversion hook: outside the property"),
  ("evaluator/eval_map.go:existsNonHashableKey: ret := builtInCallProp(…)",
   "the `==` conversion hook on map keys: outside the property")
]

end Pangaea.ErrSites
