/- Model of what outlives one evaluation (C19): the process-wide `_` error object whose StackTrace field
   `appendStackTrace` mutates (evaluator/err.go), the scope handed to the next program (web/wasm/executor.go,
   runscript/run.go), the constant scope. A program is a list of the actions that touch that state. -/
namespace Pangaea.Fresh

inductive Act where
  | print (s : String)
  | define (x : String) (v : Nat)
  | read (x : String) (line : String) -- prints the value of a variable, or ends the program with NameErr at `line`
  | raiseShared (line : String)       -- evaluates `_` (or an abstract Either prop) at source line `line`: ends the program
  deriving Repr, DecidableEq

/-- how the interpreter is built: the two repaired mechanisms -/
structure Cfg where
  copyShared : Bool      -- the shared error object is copied before its stack trace is written
  freshScope : Bool      -- every program gets its own scope enclosed in the constant scope

structure Proc where
  sharedTrace : List String              -- StackTrace of the `_` singleton
  scope : List (String × Nat)            -- the scope earlier programs wrote to (when it is shared)
  consts : List (String × Nat)           -- the constant scope (never assigned)
  deriving Repr

inductive Obs where
  | out (s : String)
  | val (x : String) (v : Nat)           -- a read and what it saw
  | err (trace : List String)            -- the error report that ends the program
  deriving Repr, DecidableEq

def lookup (x : String) (own : List (String × Nat)) (P : Proc) : Option Nat :=
  match own.lookup x with
  | some v => some v
  | none => P.consts.lookup x

/-- one program: observations so far, the program's scope, the process -/
def run (cfg : Cfg) : List Act → List (String × Nat) → Proc → List Obs × List (String × Nat) × Proc
  | [], own, P => ([], own, P)
  | .print s :: rest, own, P =>
    let r := run cfg rest own P; (.out s :: r.1, r.2)
  | .define x v :: rest, own, P =>
    let r := run cfg rest ((x, v) :: own) P; r
  | .read x line :: rest, own, P =>
    match lookup x own P with
    | some v => let r := run cfg rest own P; (.val x v :: r.1, r.2)
    | none => ([.err [line]], own, P)
  | .raiseShared line :: _, own, P =>
    if cfg.copyShared then ([.err [line]], own, P)
    else ([.err (P.sharedTrace ++ [line])], own, { P with sharedTrace := P.sharedTrace ++ [line] })

/-- run a program after the process has been used: it starts from the shared scope unless scopes are fresh -/
def runNext (cfg : Cfg) (prog : List Act) (P : Proc) : List Obs × Proc :=
  let start := if cfg.freshScope then [] else P.scope
  let r := run cfg prog start P
  (r.1, if cfg.freshScope then r.2.2 else { r.2.2 with scope := r.2.1 })

def runAll (cfg : Cfg) (progs : List (List Act)) (P : Proc) : Proc :=
  progs.foldl (fun P prog => (runNext cfg prog P).2) P

def P0 (consts : List (String × Nat)) : Proc := { sharedTrace := [], scope := [], consts := consts }

def repaired : Cfg := { copyShared := true, freshScope := true }

end Pangaea.Fresh
