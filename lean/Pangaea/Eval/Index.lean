/- Model of evaluator/index.go: arrIndex, strIndex, fixRange, valRange, arrRange, strRange
   (as repaired by the `fix:` commit for C11). Executable, core Lean only. -/
import Pangaea.Basic.Int64
namespace Pangaea.Index

/-- result of a Go function that may panic -/
inductive Go (α : Type) where
  | ok (a : α)
  | panic
  deriving Repr, DecidableEq

/-- a range bound as `valRange` sees it: a `*PanInt`, `nil`, or something else -/
inductive Bound where
  | int (v : Int)
  | nil
  | other
  deriving Repr, DecidableEq

def Bound.usable : Bound → Bool
  | .other => false
  | _ => true

/-- `arr.Elems[k]` in Go: panics when out of range -/
def goAt {α} (xs : List α) (k : Int) : Go α :=
  if k < 0 then .panic else
  match xs[k.toNat]? with
  | some v => .ok v
  | none => .panic

/-- `arrIndex` / `strIndex`: `none` is Pangaea's `nil` -/
def arrIndex {α} (index : Int) (xs : List α) : Go (Option α) :=
  let length : Int := xs.length
  if index ≥ length ∨ index < -length then .ok none
  else if index < 0 then
    match goAt xs (wrap64 (index + length)) with
    | .ok v => .ok (some v)
    | .panic => .panic
  else
    match goAt xs index with
    | .ok v => .ok (some v)
    | .panic => .panic

/-- the closure `fix` inside `fixRange` -/
def fixNeg (length i : Int) : Int := if i < 0 then wrap64 (i + length) else i
def fixClamp (lower upper j : Int) : Int := if j < lower then lower else if j > upper then upper else j
def fix (length lower upper i : Int) : Int := fixClamp lower upper (fixNeg length i)

def fixRange (length : Int) (start stop : Bound) (step : Int) : Int × Int :=
  let lower : Int := if step < 0 then -1 else 0
  let upper : Int := if step < 0 then wrap64 (length - 1) else length
  let dstart := if step < 0 then upper else lower
  let dstop := if step < 0 then lower else upper
  ((match start with | .int i => fix length lower upper i | _ => dstart),
   (match stop with | .int i => fix length lower upper i | _ => dstop))

def hasNext (step i stop : Int) : Bool :=
  if step < 0 then decide (i > stop) else decide (i < stop)

/-- the `for i := start; hasNext(i, stop); i += step` loop; `fuel` only makes it total -/
def loop (step stop : Int) : Nat → Int → List Int
  | 0, _ => []
  | fuel+1, i => if hasNext step i stop then i :: loop step stop fuel (wrap64 (i + step)) else []

/-- true when the Go loop has stopped by itself within `fuel` iterations -/
def loopEnds (step stop : Int) : Nat → Int → Bool
  | 0, i => !hasNext step i stop
  | fuel+1, i => if hasNext step i stop then loopEnds step stop fuel (wrap64 (i + step)) else true

def clampStep (size step : Int) : Int :=
  if step > wrap64 (size + 1) then wrap64 (size + 1)
  else if step < wrap64 (wrap64 (-size) - 1) then wrap64 (wrap64 (-size) - 1)
  else step

inductive Res (α : Type) where
  | arr (xs : List α)
  | valueErr
  | panic
  deriving Repr, DecidableEq

/-- index list visited by `valRange` (after the usable / zero-step tests) -/
def indices (size : Nat) (start stop : Bound) (step0 : Int) : List Int :=
  let step := clampStep size step0
  let b := fixRange size start stop step
  loop step b.2 (size + 2) b.1

def stepOf : Bound → Int
  | .int v => v
  | _ => 1

def collect {α} (xs : List α) : List Int → Res (Option α)
  | [] => .arr []
  | i :: is =>
    match arrIndex i xs with
    | .panic => .panic
    | .ok v =>
      match collect xs is with
      | .arr vs => .arr (v :: vs)
      | r => r

/-- `valRange` specialised to `arrIndex`/`strIndex` over the element list `xs` -/
def valRange {α} (xs : List α) (start stop step : Bound) : Res (Option α) :=
  if !(start.usable && stop.usable && step.usable) then .arr []
  else
    let st := stepOf step
    if st = 0 then .valueErr
    else collect xs (indices xs.length start stop st)

/-- `strRange`: concatenates; a `nil` element makes `elem.(*PanStr)` panic -/
def strRange (cs : List Char) (start stop step : Bound) : Res Char :=
  match valRange cs start stop step with
  | .valueErr => .valueErr
  | .panic => .panic
  | .arr vs =>
    if vs.all Option.isSome then .arr (vs.filterMap id) else .panic

end Pangaea.Index
