/- Specification of slicing (C11): the positions addressed by `s[start:stop:step]`. -/
namespace Pangaea.IndexSpec

/-- position `j` lies before the stop position `e` when walking in the direction of `step` -/
def before (step j e : Int) : Prop := (step < 0 ∧ j > e) ∨ (0 ≤ step ∧ j < e)

instance (step j e : Int) : Decidable (before step j e) := by unfold before; infer_instance

/-- `Prog step e s L`: `L` is exactly `s, s+step, s+2·step, …`, all positions before `e` -/
inductive Prog (step e : Int) : Int → List Int → Prop where
  | stop {i : Int} : ¬ before step i e → Prog step e i []
  | next {i : Int} {L : List Int} : before step i e → Prog step e (i + step) L → Prog step e i (i :: L)

/-- ends of the sequence in the direction of the step: positions one can start from / stop before -/
def lower (step : Int) : Int := if step < 0 then -1 else 0
def upper (n step : Int) : Int := if step < 0 then n - 1 else n

/-- a written bound counted from the end when negative, then clamped to the ends -/
def fromEnd (n i : Int) : Int := if i < 0 then i + n else i
def clamp (lo hi j : Int) : Int := if j < lo then lo else if j > hi then hi else j
def norm (n step i : Int) : Int := clamp (lower step) (upper n step) (fromEnd n i)

def startOf (n step : Int) : Option Int → Int
  | some i => norm n step i
  | none => if step < 0 then upper n step else lower step

def stopOf (n step : Int) : Option Int → Int
  | some i => norm n step i
  | none => if step < 0 then lower step else upper n step

/-- executable reference: unbounded integers, true step, no clamping of the step -/
def walk (step e : Int) : Nat → Int → List Int
  | 0, _ => []
  | f+1, i => if before step i e then i :: walk step e f (i + step) else []

def specIndices (n : Nat) (start stop : Option Int) (step : Int) : List Int :=
  walk step (stopOf n step stop) (n + 1) (startOf n step start)

/-- reference slice of a sequence: `none` = ValueErr (zero step) -/
def specSlice {α} (xs : List α) (start stop : Option Int) (step : Int) : Option (List α) :=
  if step = 0 then none
  else some ((specIndices xs.length start stop step).filterMap (fun j => xs[j.toNat]?))

/-- reference `s[i]` -/
def specAt {α} (xs : List α) (i : Int) : Option α :=
  if 0 ≤ i then xs[i.toNat]? else if -(xs.length : Int) ≤ i then xs[(i + xs.length).toNat]? else none

end Pangaea.IndexSpec
