/- Model of evaluator/eval_program.go: `_evalStmts`, `evalDefer`, `evalStmts`, over an abstract
   statement evaluator (state `σ`, values `V`, deferred expressions `D`). After the `fix:` commit for
   C15 (a `defer` statement evaluates to nil). Executable, core Lean only. -/
namespace Pangaea.Stmts

/-- what `Eval(stmt, env)` hands back to the statement loop -/
inductive SVal (V D : Type) where
  | val (v : V)       -- an ordinary value
  | err (e : V)       -- a *PanErr
  | ret (v : V)       -- ReturnObj (also `raise` of a non-error)
  | yld (v : V)       -- YieldObj holding a value
  | yldErr (e : V)    -- YieldObj holding a *PanErr
  | dfr (d : D)       -- DeferObj
  deriving Repr

/-- value or error handed to the caller -/
inductive Out (V : Type) where
  | val (v : V)
  | err (e : V)
  deriving Repr, DecidableEq

section
variable {S σ V D : Type}

/-- the `for _, stmt := range stmts` loop of `_evalStmts` with its three local variables -/
def evalLoop (ev : S → σ → SVal V D × σ) (nil : V) :
    List S → σ → V → Option V → List D → Out V × List D × σ
  | [], s, val, yielded, ds =>
    (match yielded with
     | some y => .val y
     | none => .val val, ds, s)
  | st :: rest, s, val, yielded, ds =>
    match ev st s with
    | (.err e, s') => (.err e, ds, s')
    | (.ret v, s') => (.val v, ds, s')
    | (.dfr d, s') => evalLoop ev nil rest s' nil yielded (ds ++ [d])
    | (.yldErr e, s') => (.err e, ds, s')
    | (.yld y, s') =>
      evalLoop ev nil rest s' y (match yielded with | some y0 => some y0 | none => some y) ds
    | (.val v, s') => evalLoop ev nil rest s' v yielded ds

def evalBody (ev : S → σ → SVal V D × σ) (nil : V) (stmts : List S) (s : σ) : Out V × List D × σ :=
  evalLoop ev nil stmts s nil none []

/-- `evalDefer`; the third component is a ghost log of the deferred expressions actually evaluated -/
def evalDefer (evd : D → σ → Option V × σ) : List D → σ → Option V × σ × List D
  | [], s => (none, s, [])
  | d :: rest, s =>
    match evd d s with
    | (some e, s') => (some e, s', [d])
    | (none, s') =>
      let r := evalDefer evd rest s'
      (r.1, r.2.1, d :: r.2.2)

/-- `evalStmts` -/
def evalStmts (ev : S → σ → SVal V D × σ) (evd : D → σ → Option V × σ) (nil : V)
    (stmts : List S) (s : σ) : Out V × σ :=
  let b := evalBody ev nil stmts s
  let r := evalDefer evd b.2.1 b.2.2
  match r.1 with
  | some e => (.err e, r.2.1)
  | none => (b.1, r.2.1)

/-! ### declarative reference -/

def isExit : SVal V D → Bool
  | .err _ => true
  | .ret _ => true
  | .yldErr _ => true
  | _ => false

/-- results of the statements if each were run after the previous one (exits ignored) -/
def scan (ev : S → σ → SVal V D × σ) : List S → σ → List (SVal V D × σ)
  | [], _ => []
  | st :: rest, s => ev st s :: scan ev rest (ev st s).2

/-- the statements completed before the body is left -/
def completed (rs : List (SVal V D × σ)) : List (SVal V D × σ) := rs.takeWhile (fun r => !isExit r.1)

def deferOf : SVal V D × σ → Option D
  | (.dfr d, _) => some d
  | _ => none

def yieldOf : SVal V D × σ → Option V
  | (.yld y, _) => some y
  | _ => none

/-- the defers reached before the exit, in reach order -/
def reachedDefers (rs : List (SVal V D × σ)) : List D := (completed rs).filterMap deferOf

def exitOf (rs : List (SVal V D × σ)) : Option (SVal V D × σ) := rs.find? (fun r => isExit r.1)

/-- value of the last statement evaluated (`val` after the loop); `init` when there is none -/
def lastVal (nil init : V) (rs : List (SVal V D × σ)) : V :=
  match rs.getLast? with
  | some (.val v, _) => v
  | some (.yld y, _) => y
  | some _ => nil
  | none => init

/-- value of a body that fell off its end: the first yield, else the last statement's value -/
def fallValue (nil : V) (rs : List (SVal V D × σ)) : V :=
  match rs.findSome? yieldOf with
  | some y => y
  | none => lastVal nil nil rs

/-- outcome announced by the statement that leaves the body -/
def exitOut (nil : V) : SVal V D → Out V
  | .err e => .err e
  | .yldErr e => .err e
  | .ret v => .val v
  | _ => .val nil

def specBody (ev : S → σ → SVal V D × σ) (nil : V) (stmts : List S) (s : σ) : Out V × List D × σ :=
  let rs := scan ev stmts s
  match exitOf rs with
  | some (x, s') => (exitOut nil x, reachedDefers rs, s')
  | none => (.val (fallValue nil rs), reachedDefers rs, ((rs.getLast?.map (·.2)).getD s))

/-- index of the first deferred expression that raises, if any, running them in order -/
def firstFailing (evd : D → σ → Option V × σ) : List D → σ → Option (Nat × V)
  | [], _ => none
  | d :: rest, s =>
    match evd d s with
    | (some e, _) => some (0, e)
    | (none, s') => (firstFailing evd rest s').map (fun p => (p.1 + 1, p.2))

end
end Pangaea.Stmts
