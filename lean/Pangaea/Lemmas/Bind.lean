/- Lemmas about `bindArgs` (argument binding of the Core evaluator). -/
import Pangaea.Core.Eval
import Std.Data.String.ToNat
namespace Pangaea.Core

theorem lookup_setAssoc (x y : String) (v : Val) (l : List (String × Val)) :
    (setAssoc x v l).lookup y = if y == x then some v else l.lookup y := by
  induction l with
  | nil => simp [setAssoc, List.lookup]; split <;> simp_all
  | cons p rest ih =>
    obtain ⟨a, b⟩ := p
    unfold setAssoc
    by_cases hxa : x = a
    · subst hxa
      by_cases hy : y = x
      · simp [List.lookup, hy]
      · have : (y == x) = false := by simpa using hy
        simp [List.lookup, this]
    · have : (x == a) = false := by simpa using hxa
      simp only [this, List.lookup, Bool.false_eq_true, if_false]
      by_cases hya : y = a
      · subst hya
        have : (y == x) = false := by simpa using fun h => hxa h.symm
        simp [this]
      · have : (y == a) = false := by simpa using hya
        simp [this, ih]

theorem lookup_setAssoc_ne (x y : String) (v : Val) (l : List (String × Val)) (h : y ≠ x) :
    (setAssoc x v l).lookup y = l.lookup y := by
  rw [lookup_setAssoc]; simp [h]

theorem lookup_setAssoc_self (x : String) (v : Val) (l : List (String × Val)) :
    (setAssoc x v l).lookup x = some v := by
  rw [lookup_setAssoc]; simp

def argName (i : Nat) : String := "\\" ++ toString i

/-- a plain identifier: no leading backslash -/
def Ident (x : String) : Prop := ∀ z, x ≠ "\\" ++ z

theorem argName_inj {i j : Nat} (h : argName i = argName j) : i = j := by
  unfold argName at h
  have := (String.append_right_inj "\\").1 h
  exact Nat.repr_injective this

/-- not the decimal numeral of a number (every identifier qualifies) -/
def NotNumeral (k : String) : Prop := ∀ n : Nat, k ≠ toString n

theorem argName_ne_kw {i : Nat} {k : String} (hk : NotNumeral k) : argName i ≠ "\\" ++ k := by
  intro h
  have := (String.append_right_inj "\\").1 h
  exact hk i this.symm

theorem notNumeral_of_nondigit (k : String) (c : Char) (hc : c ∈ k.toList) (hd : c.isDigit = false) : NotNumeral k := by
  intro n he
  have hl : k.toList = Nat.toDigits 10 n := by rw [he]; exact Nat.toList_repr
  rw [hl] at hc
  have := Nat.isDigit_of_mem_toDigits (by omega) (by omega) hc
  rw [hd] at this; cases this

theorem notNumeral_empty : NotNumeral "" := by
  intro n he
  have hl : ("" : String).toList = Nat.toDigits 10 n := by rw [he]; exact Nat.toList_repr
  simp at hl

theorem notNumeral_underscore : NotNumeral "_" :=
  notNumeral_of_nondigit "_" '_' (by decide) (by decide)

theorem lookup_bindFirst_ne (y : String) (as : List Val) (acc : List (String × Val)) (h : y ≠ "\\") :
    (bindFirst as acc).lookup y = acc.lookup y := by
  cases as with
  | nil => rfl
  | cons a rest => exact lookup_setAssoc_ne _ _ _ _ h

theorem lookup_bindPositional_ne (y : String) : ∀ (ps : List String) (as : List Val) (acc : List (String × Val)),
    y ∉ ps → (bindPositional ps as acc).lookup y = acc.lookup y
  | [], _, _, _ => by simp [bindPositional]
  | _ :: _, [], _, _ => by simp [bindPositional]
  | p :: ps, a :: as, acc, h => by
    simp only [bindPositional]
    rw [lookup_bindPositional_ne y ps as _ (by intro hm; exact h (List.mem_cons_of_mem _ hm))]
    exact lookup_setAssoc_ne _ _ _ _ (by intro he; exact h (by simp [he]))

theorem lookup_bindPositional : ∀ (ps : List String) (as : List Val) (acc : List (String × Val)) (i : Nat),
    ps.Nodup → (hi : i < ps.length) → ps.length ≤ as.length →
    (bindPositional ps as acc).lookup ps[i] = as[i]?
  | [], _, _, i, _, hi, _ => by simp at hi
  | _ :: _, [], _, _, _, _, hl => by simp at hl
  | p :: ps, a :: as, acc, 0, hnd, _, _ => by
    simp only [bindPositional, List.getElem_cons_zero, List.getElem?_cons_zero]
    rw [lookup_bindPositional_ne p ps as _ (List.nodup_cons.1 hnd).1]
    exact lookup_setAssoc_self _ _ _
  | p :: ps, a :: as, acc, i + 1, hnd, hi, hl => by
    simp only [bindPositional, List.getElem_cons_succ, List.getElem?_cons_succ]
    exact lookup_bindPositional ps as _ i (List.nodup_cons.1 hnd).2 (by simpa using hi) (by simpa using hl)

theorem lookup_bindArgVars_ne (y : String) : ∀ (as : List Val) (i : Nat) (acc : List (String × Val)),
    (∀ j, y ≠ argName j) → (bindArgVars i as acc).lookup y = acc.lookup y
  | [], _, _, _ => by simp [bindArgVars]
  | a :: as, i, acc, h => by
    simp only [bindArgVars]
    rw [lookup_bindArgVars_ne y as (i + 1) _ h]
    exact lookup_setAssoc_ne _ _ _ _ (h i)

theorem lookup_bindArgVars : ∀ (as : List Val) (i : Nat) (acc : List (String × Val)) (j : Nat), j < as.length →
    (bindArgVars i as acc).lookup (argName (i + j)) = as[j]?
  | [], _, _, j, h => by simp at h
  | a :: as, i, acc, 0, _ => by
    simp only [bindArgVars, Nat.add_zero, List.getElem?_cons_zero]
    -- later names are argName (i+1+j'), all different from argName i
    have hlater : ∀ (as : List Val) (m : Nat) (acc : List (String × Val)), i < m →
        (bindArgVars m as acc).lookup (argName i) = acc.lookup (argName i) := by
      intro as
      induction as with
      | nil => intro m acc _; simp [bindArgVars]
      | cons b bs ih =>
        intro m acc hm
        simp only [bindArgVars]
        rw [ih (m + 1) _ (by omega)]
        exact lookup_setAssoc_ne _ _ _ _ (by intro he; have := argName_inj he; omega)
    rw [hlater as (i + 1) _ (by omega)]
    exact lookup_setAssoc_self _ _ _
  | a :: as, i, acc, j + 1, h => by
    simp only [bindArgVars, List.getElem?_cons_succ]
    have := lookup_bindArgVars as (i + 1) (setAssoc ("\\" ++ toString i) a acc) j (by simpa using h)
    rw [show i + (j + 1) = i + 1 + j by omega]
    exact this

theorem lookup_bindKwParams_ne (y : String) (kwargs : List (String × Val)) : ∀ (kwd acc : List (String × Val)),
    y ∉ kwd.map (·.1) → (bindKwParams kwargs kwd acc).lookup y = acc.lookup y
  | [], _, _ => by simp [bindKwParams]
  | (k, d) :: rest, acc, h => by
    simp only [bindKwParams]
    rw [lookup_bindKwParams_ne y kwargs rest _ (by intro hm; exact h (by simp [hm]))]
    exact lookup_setAssoc_ne _ _ _ _ (by intro he; exact h (by simp [he]))

theorem lookup_bindKwVars_ne (y : String) : ∀ (kwargs acc : List (String × Val)),
    (∀ k ∈ kwargs.map (·.1), y ≠ "\\" ++ k) → (bindKwVars kwargs acc).lookup y = acc.lookup y
  | [], _, _ => by simp [bindKwVars]
  | (k, v) :: rest, acc, h => by
    simp only [bindKwVars]
    rw [lookup_bindKwVars_ne y rest _ (by intro k' hk'; exact h k' (by simp at hk' ⊢; exact Or.inr hk'))]
    exact lookup_setAssoc_ne _ _ _ _ (h k (by simp))

end Pangaea.Core
