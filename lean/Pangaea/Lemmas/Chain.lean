/- Helper lemmas for C04. -/
import Pangaea.Eval.Chain
namespace Pangaea.ChainLemmas
open Pangaea.Chain

theorem squash_eq (next : PH) (args : List Val) (stop fin es acc) :
    pSquash next args stop fin es acc = lSquash (fun e => next e args) stop fin es acc := by
  induction es generalizing acc with
  | nil => rfl
  | cons e es ih =>
    simp only [pSquash, lSquash]
    split
    · rfl
    · split <;> exact ih _

theorem keep_eq (next : PH) (args : List Val) (stop fin es acc) :
    pKeep next args stop fin es acc = lKeep (fun e => next e args) stop fin es acc := by
  induction es generalizing acc with
  | nil => rfl
  | cons e es ih =>
    simp only [pKeep, lKeep]
    split
    · rfl
    · exact ih _

/-- the four additional contexts as per-element rules -/
theorem lAdd_elemRule (a : Add) (f : LH) (r : Val) : lAdd a f r = elemRule a f r := by
  cases a <;> simp only [lAdd, elemRule, lLonely, lThoughtful, id]
  cases r <;> simp [Val.isNil]

theorem firstErr_cons (x : Val) (xs : List Val) :
    firstErr (x :: xs) = if x.isErr then some x else firstErr xs := by
  simp only [firstErr, List.find?_cons]
  cases x.isErr <;> rfl

theorem lSquash_spec (f : LH) (stop : Option Val) (fin : List Val → Val) (es acc : List Val) :
    lSquash f stop fin es acc =
      orErr (firstErr (es.map f)) (orStop stop (fin (acc.reverse ++ (es.map f).filter (fun x => !x.isNil)))) := by
  induction es generalizing acc with
  | nil => simp [lSquash, firstErr, orErr]
  | cons e es ih =>
    simp only [lSquash, List.map_cons, firstErr_cons]
    by_cases h1 : (f e).isErr = true
    · simp [h1, orErr]
    · simp only [h1, Bool.false_eq_true, if_false]
      by_cases h2 : (f e).isNil = true
      · simp only [h2, if_true, ih, List.filter_cons, Bool.not_true, Bool.false_eq_true, if_false]
      · simp only [h2, Bool.false_eq_true, if_false, ih, List.filter_cons, Bool.not_false, if_true,
          List.reverse_cons, List.append_assoc, List.singleton_append]

theorem lKeep_spec (f : LH) (stop : Option Val) (fin : List Val → Val) (es acc : List Val) :
    lKeep f stop fin es acc =
      orErr (firstErr (es.map f)) (orStop stop (fin (acc.reverse ++ es.map f))) := by
  induction es generalizing acc with
  | nil => simp [lKeep, firstErr, orErr]
  | cons e es ih =>
    simp only [lKeep, List.map_cons, firstErr_cons]
    by_cases h1 : (f e).isErr = true
    · simp [h1, orErr]
    · simp only [h1, Bool.false_eq_true, if_false, ih, List.reverse_cons, List.append_assoc,
        List.singleton_append]

theorem foldl_err (a : Add) (g : Val → Val → Val) (es : List Val) (x : Val) (hx : x.isErr = true) :
    es.foldl (specReduceStep a g) x = x := by
  induction es with
  | nil => rfl
  | cons e es ih => simp only [List.foldl_cons, specReduceStep, hx, if_true]; exact ih

/-- plain (and strict) reduce -/
theorem lReduce_spec (a : Add) (ha : a = .vanilla ∨ a = .strict) (f : LH) (stop : Option Val) (es : List Val) (acc : Val)
    (hacc : acc.isErr = false) :
    lReduce f stop es acc = specReduce a (fun acc e => f (.arr [acc, e])) ⟨es, stop⟩ acc := by
  induction es generalizing acc with
  | nil => simp [lReduce, specReduce, hacc]
  | cons e es ih =>
    have hstep : specReduceStep a (fun acc e => f (.arr [acc, e])) acc e = f (.arr [acc, e]) := by
      rcases ha with rfl | rfl <;> simp [specReduceStep, hacc]
    simp only [lReduce, specReduce, List.foldl_cons, hstep]
    by_cases hx : (f (.arr [acc, e])).isErr = true
    · simp [hx, foldl_err a _ es _ hx]
    · simp only [hx, Bool.false_eq_true, if_false]
      have := ih (f (.arr [acc, e])) (by simpa using hx)
      simpa [specReduce] using this

theorem lThoughtfulReduce_spec (f : LH) (stop : Option Val) (es : List Val) (acc : Val)
    (hacc : acc.isErr = false) :
    lThoughtfulReduce f stop es acc = specReduce .thoughtful (fun acc e => f (.arr [acc, e])) ⟨es, stop⟩ acc := by
  induction es generalizing acc with
  | nil => simp [lThoughtfulReduce, specReduce, hacc]
  | cons e es ih =>
    simp only [lThoughtfulReduce, specReduce, List.foldl_cons, specReduceStep, hacc, Bool.false_eq_true, if_false]
    by_cases hx : ((f (.arr [acc, e])).isErr || (f (.arr [acc, e])).isNil) = true
    · simp only [hx, if_true]
      have := ih acc hacc
      simpa [specReduce] using this
    · simp only [hx, Bool.false_eq_true, if_false]
      have hne : (f (.arr [acc, e])).isErr = false := by
        cases h : (f (.arr [acc, e])).isErr <;> simp_all
      have := ih _ hne
      simpa [specReduce] using this

/-- property-call reduce through an additional context (vanilla/strict/thoughtful) -/
theorem pReduce_spec (a : Add) (ha : a ≠ .lonely) (call : PH) (args : List Val) (stop : Option Val)
    (es : List Val) (acc : Val) (hacc : acc.isErr = false) :
    pReduce (pAdd a call) args stop es acc =
      specReduce a (fun acc e => call acc (e :: args)) ⟨es, stop⟩ acc := by
  induction es generalizing acc with
  | nil => simp [pReduce, specReduce, hacc]
  | cons e es ih =>
    have hstep : specReduceStep a (fun acc e => call acc (e :: args)) acc e = pAdd a call acc (e :: args) := by
      cases a <;> simp_all [specReduceStep, pAdd, pThoughtful]
    simp only [pReduce, specReduce, List.foldl_cons, hstep]
    by_cases hx : (pAdd a call acc (e :: args)).isErr = true
    · simp [hx, foldl_err a _ es _ hx]
    · simp only [hx, Bool.false_eq_true, if_false]
      have := ih (pAdd a call acc (e :: args)) (by simpa using hx)
      simpa [specReduce] using this

end Pangaea.ChainLemmas
