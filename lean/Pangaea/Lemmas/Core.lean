/- Helper lemmas about the Core evaluator's state monad. -/
import Pangaea.Core.Eval
namespace Pangaea.Core

theorem bindM_err {α β : Type} (m : M α) (f : α → M β) (s s' : St) (k msg : String)
    (h : m s = (.err k msg, s')) : (m >>== f) s = (.err k msg, s') := by
  simp [bindM, h]

theorem bindM_ok {α β : Type} (m : M α) (f : α → M β) (s s' : St) (a : α)
    (h : m s = (.ok a, s')) : (m >>== f) s = f a s' := by
  simp [bindM, h]

theorem bindM_fuel {α β : Type} (m : M α) (f : α → M β) (s s' : St)
    (h : m s = (.fuel, s')) : (m >>== f) s = (.fuel, s') := by
  simp [bindM, h]

@[simp] theorem pureM_apply {α : Type} (a : α) (s : St) : pureM a s = (.ok a, s) := rfl
@[simp] theorem throwM_apply {α : Type} (k m : String) (s : St) : (throwM k m : M α) s = (.err k m, s) := rfl

end Pangaea.Core
