/- Fuel monotonicity of the Core evaluator: once an evaluation ends without running out of fuel, any larger fuel
   gives exactly the same result and state. (So discarding out-of-fuel cases never hides a different answer, and the
   per-fuel theorems compose.) Simultaneous induction on fuel over the 29 functions. -/
import Lean
import Pangaea.Lemmas.Core
namespace Pangaea.Core

def R.notFuel {α : Type} : R α → Prop
  | .fuel => False
  | _ => True

/-- `m'` answers everything `m` answers without running out of fuel, identically -/
def Le {α : Type} (m m' : M α) : Prop := ∀ s r s', m s = (r, s') → r.notFuel → m' s = (r, s')

theorem Le.refl {α : Type} (m : M α) : Le m m := fun _ _ _ h _ => h

theorem Le.trans {α : Type} {a b c : M α} (h1 : Le a b) (h2 : Le b c) : Le a c :=
  fun s r s' h hr => h2 s r s' (h1 s r s' h hr) hr

theorem Le.of_fuel {α : Type} (m' : M α) : Le (outOfFuel : M α) m' := by
  intro s r s' h hr
  simp [outOfFuel] at h
  obtain ⟨rfl, _⟩ := h
  exact absurd hr (by simp [R.notFuel])

theorem Le.bind {α β : Type} {m m' : M α} {f f' : α → M β} (hm : Le m m') (hf : ∀ a, Le (f a) (f' a)) :
    Le (m >>== f) (m' >>== f') := by
  intro s r s' h hr
  unfold bindM at h ⊢
  rcases hms : m s with ⟨rm, s1⟩
  rw [hms] at h
  cases rm with
  | ok a => rw [hm s _ _ hms (by simp [R.notFuel])]; exact hf a s1 r s' h hr
  | err k msg => rw [hm s _ _ hms (by simp [R.notFuel])]; exact h
  | fuel => simp at h; obtain ⟨rfl, _⟩ := h; exact absurd hr (by simp [R.notFuel])
  | unsup w => rw [hm s _ _ hms (by simp [R.notFuel])]; exact h

/-- continuation on the raw result pair: `k` passes an out-of-fuel result on, and `k'` extends `k` elsewhere -/
theorem Le.cont {α β : Type} {m m' : M α} (k k' : R α × St → R β × St) (hm : Le m m')
    (hfuel : ∀ s1, (k (.fuel, s1)).1 = .fuel)
    (hk : ∀ p r s', p.1.notFuel → k p = (r, s') → r.notFuel → k' p = (r, s')) :
    Le (fun s => k (m s)) (fun s => k' (m' s)) := by
  intro s r s' h hr
  rcases hms : m s with ⟨rm, s1⟩
  simp only [hms] at h
  by_cases hf : rm.notFuel
  · simp only [hm s _ _ hms hf]
    exact hk _ r s' hf h hr
  · cases rm with
    | fuel =>
      have := hfuel s1
      rw [h] at this
      simp at this; subst this
      exact absurd hr (by simp [R.notFuel])
    | _ => exact absurd (by simp [R.notFuel]) hf

/-- the induction hypothesis: one more unit of fuel extends every function -/
structure AllLe (fuel : Nat) : Prop where
  evalE : ∀ e env, Le (evalE fuel e env) (evalE (fuel + 1) e env)
  evalOpt : ∀ e env, Le (evalOpt fuel e env) (evalOpt (fuel + 1) e env)
  evalRecv : ∀ e env, Le (evalRecv fuel e env) (evalRecv (fuel + 1) e env)
  evalElems : ∀ es env, Le (evalElems fuel es env) (evalElems (fuel + 1) es env)
  evalArgs : ∀ es env acc kw, Le (evalArgs fuel es env acc kw) (evalArgs (fuel + 1) es env acc kw)
  evalKws : ∀ ks env acc, Le (evalKws fuel ks env acc) (evalKws (fuel + 1) ks env acc)
  evalPairs : ∀ ps env acc, Le (evalPairs fuel ps env acc) (evalPairs (fuel + 1) ps env acc)
  evalEmbedded : ∀ es env acc, Le (evalEmbedded fuel es env acc) (evalEmbedded (fuel + 1) es env acc)
  evalPieces : ∀ ps env acc, Le (evalPieces fuel ps env acc) (evalPieces (fuel + 1) ps env acc)
  evalStmts : ∀ ss env, Le (evalStmts fuel ss env) (evalStmts (fuel + 1) ss env)
  stmtLoop : ∀ ss env v y d, Le (stmtLoop fuel ss env v y d) (stmtLoop (fuel + 1) ss env v y d)
  runDefers : ∀ ds env, Le (runDefers fuel ds env) (runDefers (fuel + 1) ds env)
  evalStmt : ∀ st env, Le (evalStmt fuel st env) (evalStmt (fuel + 1) st env)
  callVal : ∀ f args kw, Le (callVal fuel f args kw) (callVal (fuel + 1) f args kw)
  callProp : ∀ r n args kw env, Le (callProp fuel r n args kw env) (callProp (fuel + 1) r n args kw env)
  callPropQuiet : ∀ r n args env, Le (callPropQuiet fuel r n args env) (callPropQuiet (fuel + 1) r n args env)
  builtinCall : ∀ n r args kw env, Le (builtinCall fuel n r args kw env) (builtinCall (fuel + 1) n r args kw env)
  iterNext : ∀ id, Le (iterNext fuel id) (iterNext (fuel + 1) id)
  propAdd : ∀ a r n args kw env, Le (propAdd fuel a r n args kw env) (propAdd (fuel + 1) a r n args kw env)
  srcOf : ∀ v, Le (srcOf fuel v) (srcOf (fuel + 1) v)
  nextElem : ∀ src, Le (nextElem fuel src) (nextElem (fuel + 1) src)
  propChain : ∀ m a r ca n args kw env, Le (propChain fuel m a r ca n args kw env) (propChain (fuel + 1) m a r ca n args kw env)
  propListLoop : ∀ a src n args kw env acc, Le (propListLoop fuel a src n args kw env acc) (propListLoop (fuel + 1) a src n args kw env acc)
  propReduceLoop : ∀ a src acc n args kw env, Le (propReduceLoop fuel a src acc n args kw env) (propReduceLoop (fuel + 1) a src acc n args kw env)
  litCallOne : ∀ f r env, Le (litCallOne fuel f r env) (litCallOne (fuel + 1) f r env)
  litAdd : ∀ a f r env, Le (litAdd fuel a f r env) (litAdd (fuel + 1) a f r env)
  litChain : ∀ m a r ca f env, Le (litChain fuel m a r ca f env) (litChain (fuel + 1) m a r ca f env)
  litListLoop : ∀ a src f env acc, Le (litListLoop fuel a src f env acc) (litListLoop (fuel + 1) a src f env acc)
  litReduceLoop : ∀ a src acc f env, Le (litReduceLoop fuel a src acc f env) (litReduceLoop (fuel + 1) a src acc f env)

theorem allLe_zero : AllLe 0 := by
  constructor <;> intros <;> first
    | (simp only [evalE, evalOpt, evalRecv, evalElems, evalArgs, evalKws, evalPairs, evalEmbedded, evalPieces, evalStmts,
        stmtLoop, runDefers, evalStmt, callVal, callProp, callPropQuiet, builtinCall, iterNext, propAdd, srcOf, nextElem,
        propChain, propListLoop, propReduceLoop, litCallOne, litAdd, litChain, litListLoop, litReduceLoop]; exact Le.of_fuel _)

open Lean Elab Tactic Meta in
/-- succeeds when the goal is `Le m m'` and the head constant of `m` is the given one -/
elab "lhead_is " n:ident : tactic => do
  let g ← getMainGoal
  let t := (← instantiateMVars (← g.getType)).cleanupAnnotations
  let want := n.getId.eraseMacroScopes.getString!
  match t.getAppFnArgs with
  | (``Pangaea.Core.Le, #[_, m, _]) =>
    match m.cleanupAnnotations.getAppFn.constName? with
    | some c => if c.getString! == want then pure () else throwError "head is not {want}"
    | none => throwError "head is not a constant"
  | _ => throwError "not a Le goal"

syntax "le_tac " ident : tactic
macro_rules
  | `(tactic| le_tac $ih:ident) => `(tactic| (
    repeat' (first
      | (have hsucc := Nat.succ.inj ‹_ + 1 = Nat.succ _›; subst hsucc)
      | (lhead_is bindM; refine Le.bind ?_ (fun _ => ?_))
      | (lhead_is pureM; exact Le.refl _)
      | (lhead_is throwM; exact Le.refl _)
      | (lhead_is outOfFuel; exact Le.of_fuel _)
      | (lhead_is unsupported; exact Le.refl _)
      | (lhead_is getVar; exact Le.refl _)
      | (lhead_is setVar; exact Le.refl _)
      | (lhead_is allocFrame; exact Le.refl _)
      | (lhead_is copyFrame; exact Le.refl _)
      | (lhead_is enterCall; exact Le.refl _)
      | (lhead_is frameOuter; exact Le.refl _)
      | (lhead_is getIter; exact Le.refl _)
      | (lhead_is printLine; exact Le.refl _)
      | (lhead_is readLine; exact Le.refl _)
      | (lhead_is newIter; exact Le.refl _)
      | (lhead_is copyIter; exact Le.refl _)
      | (lhead_is repointIter; exact Le.refl _)
      | (lhead_is pureBuiltin; exact Le.refl _)
      | (lhead_is evalE; exact AllLe.evalE $ih _ _)
      | (lhead_is evalOpt; exact AllLe.evalOpt $ih _ _)
      | (lhead_is evalRecv; exact AllLe.evalRecv $ih _ _)
      | (lhead_is evalElems; exact AllLe.evalElems $ih _ _)
      | (lhead_is evalArgs; exact AllLe.evalArgs $ih _ _ _ _)
      | (lhead_is evalKws; exact AllLe.evalKws $ih _ _ _)
      | (lhead_is evalPairs; exact AllLe.evalPairs $ih _ _ _)
      | (lhead_is evalEmbedded; exact AllLe.evalEmbedded $ih _ _ _)
      | (lhead_is evalPieces; exact AllLe.evalPieces $ih _ _ _)
      | (lhead_is evalStmts; exact AllLe.evalStmts $ih _ _)
      | (lhead_is stmtLoop; exact AllLe.stmtLoop $ih _ _ _ _ _)
      | (lhead_is runDefers; exact AllLe.runDefers $ih _ _)
      | (lhead_is evalStmt; exact AllLe.evalStmt $ih _ _)
      | (lhead_is callVal; exact AllLe.callVal $ih _ _ _)
      | (lhead_is callProp; exact AllLe.callProp $ih _ _ _ _ _)
      | (lhead_is callPropQuiet; exact AllLe.callPropQuiet $ih _ _ _ _)
      | (lhead_is builtinCall; exact AllLe.builtinCall $ih _ _ _ _ _)
      | (lhead_is iterNext; exact AllLe.iterNext $ih _)
      | (lhead_is propAdd; exact AllLe.propAdd $ih _ _ _ _ _ _)
      | (lhead_is srcOf; exact AllLe.srcOf $ih _)
      | (lhead_is nextElem; exact AllLe.nextElem $ih _)
      | (lhead_is propChain; exact AllLe.propChain $ih _ _ _ _ _ _ _ _)
      | (lhead_is propListLoop; exact AllLe.propListLoop $ih _ _ _ _ _ _ _)
      | (lhead_is propReduceLoop; exact AllLe.propReduceLoop $ih _ _ _ _ _ _ _)
      | (lhead_is litCallOne; exact AllLe.litCallOne $ih _ _ _)
      | (lhead_is litAdd; exact AllLe.litAdd $ih _ _ _ _)
      | (lhead_is litChain; exact AllLe.litChain $ih _ _ _ _ _ _)
      | (lhead_is litListLoop; exact AllLe.litListLoop $ih _ _ _ _ _)
      | (lhead_is litReduceLoop; exact AllLe.litReduceLoop $ih _ _ _ _ _)
      | dsimp only
      | split)))

theorem notFuel_of_eq {α : Type} {r : R α} {s1 s' : St} (h : ((R.fuel : R α), s1) = (r, s')) (hr : r.notFuel) : False := by
  simp at h; obtain ⟨rfl, _⟩ := h; exact hr

section
variable {fuel : Nat} (ih : AllLe fuel)
include ih

theorem le_evalOpt : ∀ e env, Le (evalOpt (fuel + 1) e env) (evalOpt (fuel + 2) e env) := by
  intro e env; cases e <;> (simp only [evalOpt]; le_tac ih)
theorem le_evalRecv : ∀ e env, Le (evalRecv (fuel + 1) e env) (evalRecv (fuel + 2) e env) := by
  intro e env; cases e <;> (simp only [evalRecv]; le_tac ih)
theorem le_evalElems : ∀ es env, Le (evalElems (fuel + 1) es env) (evalElems (fuel + 2) es env) := by
  intro es env; unfold evalElems; le_tac ih
theorem le_evalArgs : ∀ es env acc kw, Le (evalArgs (fuel + 1) es env acc kw) (evalArgs (fuel + 2) es env acc kw) := by
  intro es env acc kw; unfold evalArgs; le_tac ih
theorem le_evalKws : ∀ ks env acc, Le (evalKws (fuel + 1) ks env acc) (evalKws (fuel + 2) ks env acc) := by
  intro ks env acc; unfold evalKws; le_tac ih
theorem le_evalPairs : ∀ ps env acc, Le (evalPairs (fuel + 1) ps env acc) (evalPairs (fuel + 2) ps env acc) := by
  intro ps env acc; unfold evalPairs; le_tac ih
theorem le_evalEmbedded : ∀ es env acc, Le (evalEmbedded (fuel + 1) es env acc) (evalEmbedded (fuel + 2) es env acc) := by
  intro es env acc; unfold evalEmbedded; le_tac ih
theorem le_evalPieces : ∀ ps env acc, Le (evalPieces (fuel + 1) ps env acc) (evalPieces (fuel + 2) ps env acc) := by
  intro ps env acc; unfold evalPieces; le_tac ih
theorem le_runDefers : ∀ ds env, Le (runDefers (fuel + 1) ds env) (runDefers (fuel + 2) ds env) := by
  intro ds env; unfold runDefers; le_tac ih
theorem le_evalStmt : ∀ st env, Le (evalStmt (fuel + 1) st env) (evalStmt (fuel + 2) st env) := by
  intro st env; unfold evalStmt; le_tac ih
theorem le_evalE : ∀ e env, Le (evalE (fuel + 1) e env) (evalE (fuel + 2) e env) := by
  intro e env
  cases e with
  | ifE c t els => cases els <;> (rw [evalE, evalE]; le_tac ih)
  | func c => cases c; rw [evalE, evalE]; le_tac ih
  | iter c => cases c; rw [evalE, evalE]; le_tac ih
  | _ => (rw [evalE, evalE]; le_tac ih)
theorem le_callProp : ∀ r n args kw env, Le (callProp (fuel + 1) r n args kw env) (callProp (fuel + 2) r n args kw env) := by
  intro r n args kw env; unfold callProp; le_tac ih
theorem le_callPropQuiet : ∀ r n args env, Le (callPropQuiet (fuel + 1) r n args env) (callPropQuiet (fuel + 2) r n args env) := by
  intro r n args env; unfold callPropQuiet; le_tac ih
theorem le_builtinCall : ∀ n r args kw env, Le (builtinCall (fuel + 1) n r args kw env) (builtinCall (fuel + 2) n r args kw env) := by
  intro n r args kw env; unfold builtinCall; le_tac ih
theorem le_srcOf : ∀ v, Le (srcOf (fuel + 1) v) (srcOf (fuel + 2) v) := by
  intro v; unfold srcOf; le_tac ih
theorem le_litCallOne : ∀ f r env, Le (litCallOne (fuel + 1) f r env) (litCallOne (fuel + 2) f r env) := by
  intro f r env; unfold litCallOne; le_tac ih
theorem le_propChain : ∀ m a r ca n args kw env, Le (propChain (fuel + 1) m a r ca n args kw env) (propChain (fuel + 2) m a r ca n args kw env) := by
  intro m a r ca n args kw env; unfold propChain; le_tac ih
theorem le_propListLoop : ∀ a src n args kw env acc, Le (propListLoop (fuel + 1) a src n args kw env acc) (propListLoop (fuel + 2) a src n args kw env acc) := by
  intro a src n args kw env acc; unfold propListLoop; le_tac ih
theorem le_propReduceLoop : ∀ a src acc n args kw env, Le (propReduceLoop (fuel + 1) a src acc n args kw env) (propReduceLoop (fuel + 2) a src acc n args kw env) := by
  intro a src acc n args kw env; unfold propReduceLoop; le_tac ih
theorem le_litChain : ∀ m a r ca f env, Le (litChain (fuel + 1) m a r ca f env) (litChain (fuel + 2) m a r ca f env) := by
  intro m a r ca f env; unfold litChain; le_tac ih
theorem le_litListLoop : ∀ a src f env acc, Le (litListLoop (fuel + 1) a src f env acc) (litListLoop (fuel + 2) a src f env acc) := by
  intro a src f env acc; unfold litListLoop; le_tac ih
theorem le_callVal : ∀ f args kw, Le (callVal (fuel + 1) f args kw) (callVal (fuel + 2) f args kw) := by
  intro f args kw; unfold callVal; le_tac ih
theorem le_iterNext : ∀ id, Le (iterNext (fuel + 1) id) (iterNext (fuel + 2) id) := by
  intro id; unfold iterNext; le_tac ih

theorem le_evalStmts : ∀ ss env, Le (evalStmts (fuel + 1) ss env) (evalStmts (fuel + 2) ss env) := by
  intro ss env s r s' h hr
  rw [evalStmts] at h ⊢
  dsimp only at h ⊢
  rcases hm : stmtLoop fuel ss env .nil none [] s with ⟨rm, s1⟩
  rw [hm] at h
  cases rm with
  | ok p =>
    rw [ih.stmtLoop ss env .nil none [] s _ _ hm (by simp [R.notFuel])]
    obtain ⟨v, defers⟩ := p
    exact Le.bind (ih.runDefers defers env) (fun _ => Le.refl _) s1 r s' h hr
  | err k msg => rw [ih.stmtLoop ss env .nil none [] s _ _ hm (by simp [R.notFuel])]; exact h
  | fuel => (dsimp only at h; exact (notFuel_of_eq h hr).elim)
  | unsup w => rw [ih.stmtLoop ss env .nil none [] s _ _ hm (by simp [R.notFuel])]; exact h

theorem le_stmtLoop : ∀ ss env v y d, Le (stmtLoop (fuel + 1) ss env v y d) (stmtLoop (fuel + 2) ss env v y d) := by
  intro ss env v y d s r s' h hr
  cases ss with
  | nil => rw [stmtLoop] at h ⊢; exact h
  | cons st rest =>
    rw [stmtLoop] at h ⊢
    dsimp only at h ⊢
    rcases hm : evalStmt fuel st env s with ⟨rm, s1⟩
    rw [hm] at h
    cases rm with
    | ok sig =>
      rw [ih.evalStmt st env s _ _ hm (by simp [R.notFuel])]
      cases sig with
      | val v' => exact ih.stmtLoop rest env v' y d s1 r s' h hr
      | ret v' => exact h
      | yld v' => exact ih.stmtLoop rest env v' _ d s1 r s' h hr
      | dfr e => exact ih.stmtLoop rest env .nil y _ s1 r s' h hr
    | err k msg =>
      rw [ih.evalStmt st env s _ _ hm (by simp [R.notFuel])]
      dsimp only at h ⊢
      rcases hd : runDefers fuel d env s1 with ⟨rd, s2⟩
      rw [hd] at h
      cases rd with
      | ok u => rw [ih.runDefers d env s1 _ _ hd (by simp [R.notFuel])]; exact h
      | err k2 m2 => rw [ih.runDefers d env s1 _ _ hd (by simp [R.notFuel])]; exact h
      | fuel => (dsimp only at h; exact (notFuel_of_eq h hr).elim)
      | unsup w => rw [ih.runDefers d env s1 _ _ hd (by simp [R.notFuel])]; exact h
    | fuel => (dsimp only at h; exact (notFuel_of_eq h hr).elim)
    | unsup w => rw [ih.evalStmt st env s _ _ hm (by simp [R.notFuel])]; exact h

theorem le_propAdd : ∀ a r n args kw env, Le (propAdd (fuel + 1) a r n args kw env) (propAdd (fuel + 2) a r n args kw env) := by
  intro a r n args kw env
  cases a with
  | thoughtful =>
    intro s res s' h hr
    rw [propAdd] at h ⊢
    dsimp only at h ⊢
    rcases hm : callProp fuel r n args kw env s with ⟨rm, s1⟩
    rw [hm] at h
    cases rm with
    | fuel => (dsimp only at h; exact (notFuel_of_eq h hr).elim)
    | _ => rw [ih.callProp r n args kw env s _ _ hm (by simp [R.notFuel])]; exact h
  | lonely => unfold propAdd; le_tac ih
  | vanilla => unfold propAdd; le_tac ih
  | strict => unfold propAdd; le_tac ih

theorem le_litAdd : ∀ a f r env, Le (litAdd (fuel + 1) a f r env) (litAdd (fuel + 2) a f r env) := by
  intro a f r env
  cases a with
  | thoughtful =>
    intro s res s' h hr
    rw [litAdd] at h ⊢
    dsimp only at h ⊢
    rcases hm : litCallOne fuel f r env s with ⟨rm, s1⟩
    rw [hm] at h
    cases rm with
    | fuel => (dsimp only at h; exact (notFuel_of_eq h hr).elim)
    | _ => rw [ih.litCallOne f r env s _ _ hm (by simp [R.notFuel])]; exact h
  | lonely => unfold litAdd; le_tac ih
  | vanilla => unfold litAdd; le_tac ih
  | strict => unfold litAdd; le_tac ih

theorem le_nextElem : ∀ src, Le (nextElem (fuel + 1) src) (nextElem (fuel + 2) src) := by
  intro src
  cases src with
  | elems xs => cases xs <;> (rw [nextElem, nextElem]; exact Le.refl _)
  | stdin => rw [nextElem, nextElem]; exact Le.refl _
  | iter id =>
    intro s res s' h hr
    rw [nextElem] at h ⊢
    dsimp only at h ⊢
    rcases hm : iterNext fuel id s with ⟨rm, s1⟩
    rw [hm] at h
    cases rm with
    | fuel => (dsimp only at h; exact (notFuel_of_eq h hr).elim)
    | _ => rw [ih.iterNext id s _ _ hm (by simp [R.notFuel])]; exact h

theorem le_litReduceLoop : ∀ a src acc f env, Le (litReduceLoop (fuel + 1) a src acc f env) (litReduceLoop (fuel + 2) a src acc f env) := by
  intro a src acc f env
  rw [litReduceLoop, litReduceLoop]
  refine Le.bind (ih.nextElem src) (fun nx => ?_)
  cases nx with
  | none => exact Le.refl _
  | some p =>
    obtain ⟨e, src'⟩ := p
    cases a with
    | thoughtful =>
      intro s res s' h hr
      dsimp only at h ⊢
      rcases hm : litCallOne fuel f (.arr [acc, e]) env s with ⟨rm, s1⟩
      rw [hm] at h
      cases rm with
      | ok v =>
        rw [ih.litCallOne f (.arr [acc, e]) env s _ _ hm (by simp [R.notFuel])]
        cases v <;> exact ih.litReduceLoop _ _ _ _ _ s1 res s' h hr
      | err k msg =>
        rw [ih.litCallOne f (.arr [acc, e]) env s _ _ hm (by simp [R.notFuel])]
        exact ih.litReduceLoop _ _ _ _ _ s1 res s' h hr
      | fuel => (dsimp only at h; exact (notFuel_of_eq h hr).elim)
      | unsup w => rw [ih.litCallOne f (.arr [acc, e]) env s _ _ hm (by simp [R.notFuel])]; exact h
    | lonely => simp only; le_tac ih
    | vanilla => simp only; le_tac ih
    | strict => simp only; le_tac ih

theorem allLe_succ : AllLe (fuel + 1) where
  evalE := le_evalE ih
  evalOpt := le_evalOpt ih
  evalRecv := le_evalRecv ih
  evalElems := le_evalElems ih
  evalArgs := le_evalArgs ih
  evalKws := le_evalKws ih
  evalPairs := le_evalPairs ih
  evalEmbedded := le_evalEmbedded ih
  evalPieces := le_evalPieces ih
  evalStmts := le_evalStmts ih
  stmtLoop := le_stmtLoop ih
  runDefers := le_runDefers ih
  evalStmt := le_evalStmt ih
  callVal := le_callVal ih
  callProp := le_callProp ih
  callPropQuiet := le_callPropQuiet ih
  builtinCall := le_builtinCall ih
  iterNext := le_iterNext ih
  propAdd := le_propAdd ih
  srcOf := le_srcOf ih
  nextElem := le_nextElem ih
  propChain := le_propChain ih
  propListLoop := le_propListLoop ih
  propReduceLoop := le_propReduceLoop ih
  litCallOne := le_litCallOne ih
  litAdd := le_litAdd ih
  litChain := le_litChain ih
  litListLoop := le_litListLoop ih
  litReduceLoop := le_litReduceLoop ih
end

theorem allLe : ∀ fuel, AllLe fuel
  | 0 => allLe_zero
  | n + 1 => allLe_succ (allLe n)

end Pangaea.Core
