/- Helper lemmas for C06. -/
import Pangaea.Object.GoHeap
namespace Pangaea.GoHeap

theorem view_append_heap (h : Heap) (extra : List (List Val)) (s : Slice) (hs : WF h s) :
    view (h ++ extra) s = view h s := by
  unfold view WF at *
  simp [List.getD, List.getElem?_append_left hs]

/-- fresh construction never disturbs any existing array value -/
theorem plusFresh_frozen (grow) (h : Heap) (a b p : Slice) (hp : WF h p) :
    view (plusFresh grow h a b).1 p = view h p := by
  unfold plusFresh goAppend
  by_cases hemp : (view h a ++ view h b).length = 0
  · -- nothing to append: in-place branch on a zero-capacity slice, writes nothing
    have : view h a ++ view h b = [] := List.eq_nil_of_length_eq_zero hemp
    simp only [this, List.length_nil, Nat.add_zero, Nat.le_refl, if_true]
    unfold view WF at *
    simp [List.getD, List.getElem?_set, Nat.ne_of_gt hp]
  · have : ¬ (0 + (view h a ++ view h b).length ≤ 0) := by omega
    simp only [this, if_false]
    exact view_append_heap h _ p hp

theorem fresh_result (grow : Nat → Nat) (h : Heap) (xs : List Val) :
    let r := goAppend grow h { arr := h.length, len := 0, cap := 0 } xs
    view r.1 r.2 = xs := by
  cases xs with
  | nil => simp [goAppend, view]
  | cons x xs =>
    have : ¬ (0 + (x :: xs).length ≤ 0) := by simp
    simp only [goAppend, this, if_false]
    simp [view, List.getD, List.take_append]

theorem plusFresh_result (grow : Nat → Nat) (h : Heap) (a b : Slice) :
    view (plusFresh grow h a b).1 (plusFresh grow h a b).2 = view h a ++ view h b :=
  fresh_result grow h _


/-- appending to a fresh empty slice never disturbs an existing array value -/
theorem fresh_append_frozen (grow : Nat → Nat) (h : Heap) (xs : List Val) (p : Slice) (hp : WF h p) :
    view (goAppend grow h (emptySlice h) xs).1 p = view h p := by
  unfold goAppend emptySlice
  by_cases hemp : xs.length = 0
  · have : xs = [] := List.eq_nil_of_length_eq_zero hemp
    subst this
    simp only [List.length_nil, Nat.add_zero, Nat.le_refl, if_true]
    unfold view WF at *
    simp [List.getD, List.getElem?_set, Nat.ne_of_gt hp]
  · have : ¬ (0 + xs.length ≤ 0) := by omega
    simp only [this, if_false]
    exact view_append_heap h _ p hp

theorem fresh_append_wf (grow : Nat → Nat) (h : Heap) (xs : List Val) (p : Slice) (hp : WF h p) :
    WF (goAppend grow h (emptySlice h) xs).1 p := by
  unfold goAppend emptySlice WF at *
  split
  · simp; exact hp
  · simp; omega

end Pangaea.GoHeap
