/- Helper lemmas for C11 (property theorems are in Theorems/C11.lean). -/
import Pangaea.Eval.Index
import Pangaea.Eval.IndexSpec
namespace Pangaea.IndexLemmas
open Pangaea Pangaea.Index Pangaea.IndexSpec

def toOpt : Bound → Option Int
  | .int v => some v
  | _ => none

theorem hasNext_iff (step i e : Int) : hasNext step i e = true ↔ before step i e := by
  unfold hasNext before; split <;> simp <;> omega

theorem prog_unique {step e : Int} {i : Int} {L L' : List Int}
    (h : Prog step e i L) (h' : Prog step e i L') : L = L' := by
  induction h generalizing L' with
  | stop hn => cases h' with
    | stop _ => rfl
    | next hb _ => exact absurd hb hn
  | next hb _ ih => cases h' with
    | stop hn => exact absurd hb hn
    | next _ hp => rw [ih hp]

/-- the Go loop (with int64 wrap-around in `i += step`) computes the progression, provided the
    cursor stays in a window where no wrap-around can happen and the fuel covers the window -/
theorem loop_prog (step e lo hi : Int) (hlo : -4611686018427387904 ≤ lo) (hhi : hi < 4611686018427387904)
    (hstep : step ≠ 0) (hs1 : -4611686018427387904 ≤ step) (hs2 : step ≤ 4611686018427387904)
    (he : lo ≤ e ∧ e ≤ hi) :
    ∀ (fuel : Nat) (i : Int), lo ≤ i → i ≤ hi →
      ((0 ≤ step → e - i < fuel) ∧ (step < 0 → i - e < fuel)) →
      Prog step e i (loop step e fuel i) := by
  intro fuel
  induction fuel with
  | zero =>
    intro i h1 h2 hf
    simp only [loop]
    apply Prog.stop
    unfold before
    omega
  | succ k ih =>
    intro i h1 h2 hf
    simp only [loop]
    by_cases hb : before step i e
    · have hn : hasNext step i e = true := (hasNext_iff _ _ _).2 hb
      simp only [hn, if_true]
      have hw : wrap64 (i + step) = i + step := by
        apply wrap64_of_fits; unfold fits64; omega
      rw [hw]
      apply Prog.next hb
      unfold before at hb
      by_cases hin : lo ≤ i + step ∧ i + step ≤ hi
      · apply ih (i + step) hin.1 hin.2
        omega
      · -- stepped outside the window: the loop stops at once
        have hnb : ¬ before step (i + step) e := by unfold before; omega
        have hn' : hasNext step (i + step) e = false := by
          cases h : hasNext step (i + step) e
          · rfl
          · exact absurd ((hasNext_iff _ _ _).1 h) hnb
        cases k with
        | zero => simp only [loop]; exact Prog.stop hnb
        | succ k' => simp only [loop, hn']; exact Prog.stop hnb
    · have hn : hasNext step i e = false := by
        cases h : hasNext step i e
        · rfl
        · exact absurd ((hasNext_iff _ _ _).1 h) hb
      simp only [hn]
      exact Prog.stop hb



theorem walk_prog (step e : Int) (hstep : step ≠ 0) :
    ∀ (fuel : Nat) (i : Int),
      ((0 ≤ step → e - i < fuel) ∧ (step < 0 → i - e < fuel)) →
      Prog step e i (walk step e fuel i) := by
  intro fuel
  induction fuel with
  | zero =>
    intro i hf
    simp only [walk]
    apply Prog.stop
    unfold before
    omega
  | succ k ih =>
    intro i hf
    simp only [walk]
    by_cases hb : before step i e
    · simp only [hb, if_true]
      apply Prog.next hb
      apply ih
      unfold before at hb
      omega
    · simp only [hb, if_false]
      exact Prog.stop hb

/-- positions are within the window between start and stop -/
theorem prog_window {step e : Int} {i : Int} {L : List Int} (h : Prog step e i L) :
    ∀ j ∈ L, (0 ≤ step → i ≤ j ∧ j < e) ∧ (step < 0 → e < j ∧ j ≤ i) := by
  induction h with
  | stop _ => intro j hj; cases hj
  | @next i L hb _ ih =>
    intro j hj
    unfold before at hb
    cases hj with
    | head => omega
    | tail _ hj' =>
      have := ih j hj'
      by_cases hs : step = 0
      · subst hs; simp at this; omega
      · omega

theorem clampStep_spec (n : Nat) (hn : (n : Int) < 4611686018427387904) (step : Int) :
    clampStep n step = (if step > (n : Int) + 1 then (n : Int) + 1 else if step < -(n : Int) - 1 then -(n : Int) - 1 else step) := by
  unfold clampStep
  have h1 : wrap64 ((n : Int) + 1) = (n : Int) + 1 := by apply wrap64_of_fits; unfold fits64; omega
  have h2 : wrap64 (-(n : Int)) = -(n : Int) := by apply wrap64_of_fits; unfold fits64; omega
  have h3 : wrap64 (-(n : Int) - 1) = -(n : Int) - 1 := by apply wrap64_of_fits; unfold fits64; omega
  rw [h1, h2, h3]

theorem fix_norm (n : Nat) (hn : (n : Int) < 4611686018427387904) (step i : Int) (hi : fits64 i) :
    fix n (lower step) (upper n step) i = norm n step i := by
  unfold fix norm fixNeg fromEnd fixClamp clamp
  have : (if i < 0 then wrap64 (i + n) else i) = (if i < 0 then i + n else i) := by
    split
    · apply wrap64_of_fits; unfold fits64 at *; omega
    · rfl
  simp only [this]

theorem fixRange_spec (n : Nat) (hn : (n : Int) < 4611686018427387904) (start stop : Bound) (step : Int)
    (hstart : ∀ v, start = .int v → fits64 v) (hstop : ∀ v, stop = .int v → fits64 v) :
    fixRange n start stop step = (startOf n step (toOpt start), stopOf n step (toOpt stop)) := by
  have hw : wrap64 ((n : Int) - 1) = (n : Int) - 1 := by apply wrap64_of_fits; unfold fits64; omega
  have hl : (if step < 0 then (-1 : Int) else 0) = lower step := rfl
  have hu : (if step < 0 then wrap64 ((n : Int) - 1) else (n : Int)) = upper n step := by rw [hw]; rfl
  unfold fixRange
  simp only [hl, hu]
  cases start <;> cases stop <;> simp only [toOpt, startOf, stopOf] <;>
    first
    | rfl
    | (congr 1 <;> first | rfl | (apply fix_norm n hn; first | exact hstart _ rfl | exact hstop _ rfl))

theorem norm_window (n : Nat) (step i : Int) :
    lower step ≤ norm n step i ∧ norm n step i ≤ upper n step := by
  unfold norm clamp fromEnd lower upper
  repeat' split
  all_goals omega

theorem startOf_window (n : Nat) (step : Int) (b : Option Int) :
    lower step ≤ startOf n step b ∧ startOf n step b ≤ upper n step := by
  cases b with
  | some i => exact norm_window n step i
  | none => simp only [startOf, lower, upper]; repeat' split
            all_goals omega

theorem stopOf_window (n : Nat) (step : Int) (b : Option Int) :
    lower step ≤ stopOf n step b ∧ stopOf n step b ≤ upper n step := by
  cases b with
  | some i => exact norm_window n step i
  | none => simp only [stopOf, lower, upper]; repeat' split
            all_goals omega

theorem lower_sign (s s' : Int) (h : s < 0 ↔ s' < 0) : lower s = lower s' := by
  unfold lower; by_cases hs : s < 0
  · simp [hs, h.1 hs]
  · have : ¬ s' < 0 := fun h' => hs (h.2 h'); simp [hs, this]

theorem upper_sign (n s s' : Int) (h : s < 0 ↔ s' < 0) : upper n s = upper n s' := by
  unfold upper; by_cases hs : s < 0
  · simp [hs, h.1 hs]
  · have : ¬ s' < 0 := fun h' => hs (h.2 h'); simp [hs, this]

/-- `startOf`/`stopOf` depend on the sign of the step only -/
theorem startOf_sign (n : Nat) (s s' : Int) (h : s < 0 ↔ s' < 0) (b : Option Int) :
    startOf n s b = startOf n s' b := by
  cases b <;> simp only [startOf, norm, lower_sign s s' h, upper_sign n s s' h]
  by_cases hs : s < 0
  · simp [hs, h.1 hs]
  · have : ¬ s' < 0 := fun h' => hs (h.2 h'); simp [hs, this]

theorem stopOf_sign (n : Nat) (s s' : Int) (h : s < 0 ↔ s' < 0) (b : Option Int) :
    stopOf n s b = stopOf n s' b := by
  cases b <;> simp only [stopOf, norm, lower_sign s s' h, upper_sign n s s' h]
  by_cases hs : s < 0
  · simp [hs, h.1 hs]
  · have : ¬ s' < 0 := fun h' => hs (h.2 h'); simp [hs, this]

/-- bounding the step by the size selects the same positions -/
theorem prog_transfer (n : Nat) (step step' e s : Int) (L : List Int)
    (hs : -1 ≤ s ∧ s ≤ n) (he : -1 ≤ e ∧ e ≤ n)
    (hc : step' = step ∨ (step > (n : Int) + 1 ∧ step' = (n : Int) + 1) ∨ (step < -(n : Int) - 1 ∧ step' = -(n : Int) - 1))
    (h : Prog step' e s L) : Prog step e s L := by
  rcases hc with hc | hc | hc
  · subst hc; exact h
  · obtain ⟨h1, h2⟩ := hc
    subst h2
    cases h with
    | stop hn => apply Prog.stop; unfold before at *; omega
    | next hb hp =>
      have hb' : before step s e := by unfold before at *; omega
      cases hp with
      | stop _ => exact Prog.next hb' (Prog.stop (by unfold before at *; omega))
      | next hb2 _ => unfold before at hb2 hb; omega
  · obtain ⟨h1, h2⟩ := hc
    subst h2
    cases h with
    | stop hn => apply Prog.stop; unfold before at *; omega
    | next hb hp =>
      have hb' : before step s e := by unfold before at *; omega
      cases hp with
      | stop _ => exact Prog.next hb' (Prog.stop (by unfold before at *; omega))
      | next hb2 _ => unfold before at hb2 hb; omega

theorem goAt_inRange {α} (xs : List α) (k : Int) (h : 0 ≤ k ∧ k < xs.length) :
    ∃ v, xs[k.toNat]? = some v ∧ goAt xs k = .ok v := by
  have hk : k.toNat < xs.length := by omega
  refine ⟨xs[k.toNat], List.getElem?_eq_getElem hk, ?_⟩
  unfold goAt
  simp only [show ¬ k < 0 by omega, if_false, List.getElem?_eq_getElem hk]

theorem arrIndex_spec {α} (xs : List α) (i : Int) (hi : fits64 i)
    (hn : (xs.length : Int) < 4611686018427387904) : arrIndex i xs = .ok (specAt xs i) := by
  unfold arrIndex specAt
  by_cases h1 : i ≥ (xs.length : Int) ∨ i < -(xs.length : Int)
  · simp only [h1, if_true]
    by_cases h0 : 0 ≤ i
    · simp only [h0, if_true]
      have : xs.length ≤ i.toNat := by omega
      rw [List.getElem?_eq_none this]
    · simp only [h0, if_false]
      have : ¬ (-(xs.length : Int) ≤ i) := by omega
      simp only [this, if_false]
  · simp only [h1, if_false]
    by_cases h0 : i < 0
    · have hw : wrap64 (i + xs.length) = i + xs.length := by
        apply wrap64_of_fits; unfold fits64 at *; omega
      obtain ⟨v, hv, hg⟩ := goAt_inRange xs (i + xs.length) (by omega)
      simp only [h0, if_true, hw, hg, show ¬ 0 ≤ i by omega, if_false, show -(xs.length : Int) ≤ i by omega, hv]
    · obtain ⟨v, hv, hg⟩ := goAt_inRange xs i (by omega)
      simp only [h0, if_false, hg, show 0 ≤ i by omega, if_true, hv]

theorem collect_spec {α} (xs : List α) (hn : (xs.length : Int) < 4611686018427387904) :
    ∀ (L : List Int), (∀ j ∈ L, 0 ≤ j ∧ j < xs.length) →
      collect xs L = .arr ((L.filterMap (fun j => xs[j.toNat]?)).map some) := by
  intro L
  induction L with
  | nil => intro _; rfl
  | cons j L ih =>
    intro h
    have hj := h j (List.mem_cons_self ..)
    have hspec := arrIndex_spec xs j (by unfold fits64; omega) hn
    have hk : j.toNat < xs.length := by omega
    have hat : specAt xs j = some xs[j.toNat] := by
      unfold specAt; simp only [show 0 ≤ j by omega, if_true, List.getElem?_eq_getElem hk]
    simp only [collect, hspec, hat, ih (fun j' hj' => h j' (List.mem_cons_of_mem _ hj')),
      List.filterMap_cons, List.getElem?_eq_getElem hk, List.map_cons]

end Pangaea.IndexLemmas
