/- Helper lemmas for C10. -/
import Pangaea.Props.IntArith
namespace Pangaea.IntArithLemmas
open Pangaea Pangaea.IntArith

/-- floor quotient characterised without any library division -/
def IsFloorQuot (a b q : Int) : Prop :=
  (b > 0 → q * b ≤ a ∧ a < (q + 1) * b) ∧ (b < 0 → q * b ≥ a ∧ a > (q + 1) * b)

/-- the exact (unbounded) floor division written like the Go code -/
def floorQ (a b : Int) : Int :=
  if a.tmod b ≠ 0 ∧ ((a < 0) ≠ (b < 0)) then a.tdiv b - 1 else a.tdiv b

theorem tmod_sign_nonneg (a b : Int) (ha : 0 ≤ a) : 0 ≤ a.tmod b := Int.tmod_nonneg b ha
theorem tmod_sign_nonpos (a b : Int) (ha : a ≤ 0) : a.tmod b ≤ 0 := by
  have := Int.tmod_nonneg b (show 0 ≤ -a by omega)
  rw [Int.neg_tmod] at this; omega

theorem tmod_abs_lt_pos (a b : Int) (hb : 0 < b) : -b < a.tmod b ∧ a.tmod b < b :=
  ⟨Int.lt_tmod_of_pos a hb, Int.tmod_lt_of_pos a hb⟩
theorem tmod_abs_lt_neg (a b : Int) (hb : b < 0) : b < a.tmod b ∧ a.tmod b < -b := by
  have h := tmod_abs_lt_pos a (-b) (by omega)
  rw [Int.tmod_neg] at h; omega

theorem floorQ_spec (a b : Int) (hb : b ≠ 0) : IsFloorQuot a b (floorQ a b) := by
  have h1 := Int.tmod_add_mul_tdiv a b  -- a.tmod b + b * a.tdiv b = a
  have e1 : (a.tdiv b - 1) * b = b * a.tdiv b - b := by rw [Int.sub_mul, Int.one_mul, Int.mul_comm]
  have e2 : (a.tdiv b - 1 + 1) * b = b * a.tdiv b := by rw [Int.sub_add_cancel, Int.mul_comm]
  have e3 : (a.tdiv b + 1) * b = b * a.tdiv b + b := by rw [Int.add_mul, Int.one_mul, Int.mul_comm]
  have e4 : a.tdiv b * b = b * a.tdiv b := Int.mul_comm _ _
  have hn := tmod_sign_nonneg a b
  have hp := tmod_sign_nonpos a b
  unfold IsFloorQuot floorQ
  constructor
  · intro hbpos
    have hlt := tmod_abs_lt_pos a b hbpos
    split
    · rename_i hc
      rw [e1, e2]
      have : a < 0 := by
        rcases Int.lt_or_le a 0 with h | h
        · exact h
        · exfalso; apply hc.2; simp [show ¬ a < 0 by omega, show ¬ b < 0 by omega]
      have := hp (by omega); omega
    · rename_i hc
      rw [e3, e4]
      rcases Int.lt_or_le a 0 with h | h
      · have hz : a.tmod b = 0 := by
          apply Classical.byContradiction; intro hne; apply hc
          exact ⟨hne, by simp [h, show ¬ b < 0 by omega]⟩
        omega
      · have := hn h; omega
  · intro hbneg
    have hlt := tmod_abs_lt_neg a b hbneg
    split
    · rename_i hc
      rw [e1, e2]
      have : 0 ≤ a := by
        rcases Int.lt_or_le a 0 with h | h
        · exfalso; apply hc.2; simp [h, hbneg]
        · exact h
      have := hn this; omega
    · rename_i hc
      rw [e3, e4]
      rcases Int.lt_or_le a 0 with h | h
      · have := hp (by omega); omega
      · have hz : a.tmod b = 0 := by
          apply Classical.byContradiction; intro hne; apply hc
          exact ⟨hne, by simp [show ¬ a < 0 by omega, hbneg]⟩
        omega

/-- the floor quotient is unique -/
theorem floorQuot_unique (a b q q' : Int) (hb : b ≠ 0)
    (h : IsFloorQuot a b q) (h' : IsFloorQuot a b q') : q = q' := by
  unfold IsFloorQuot at h h'
  rcases Int.lt_or_gt_of_ne hb with hneg | hpos
  · have ⟨h1, h2⟩ := h.2 hneg
    have ⟨h1', h2'⟩ := h'.2 hneg
    -- q*b ≥ a > (q'+1)*b and q'*b ≥ a > (q+1)*b, b<0
    rcases Int.lt_trichotomy q q' with hlt | heq | hgt
    · exfalso
      have : (q + 1) * b ≥ q' * b := Int.mul_le_mul_of_nonpos_right (by omega) (by omega)
      omega
    · exact heq
    · exfalso
      have : (q' + 1) * b ≥ q * b := Int.mul_le_mul_of_nonpos_right (by omega) (by omega)
      omega
  · have ⟨h1, h2⟩ := h.1 hpos
    have ⟨h1', h2'⟩ := h'.1 hpos
    rcases Int.lt_trichotomy q q' with hlt | heq | hgt
    · exfalso
      have : (q + 1) * b ≤ q' * b := Int.mul_le_mul_of_nonneg_right (by omega) (by omega)
      omega
    · exact heq
    · exfalso
      have : (q' + 1) * b ≤ q * b := Int.mul_le_mul_of_nonneg_right (by omega) (by omega)
      omega

/-- Lean's own floor division satisfies the characterisation, so `floorQ a b = a.fdiv b` -/
theorem floorQ_eq_fdiv (a b : Int) (hb : b ≠ 0) : floorQ a b = a.fdiv b := by
  apply floorQuot_unique a b _ _ hb (floorQ_spec a b hb)
  have hm := Int.fmod_add_mul_fdiv a b   -- a.fmod b + b * a.fdiv b = a
  have e3 : (a.fdiv b + 1) * b = b * a.fdiv b + b := by rw [Int.add_mul, Int.one_mul, Int.mul_comm]
  have e4 : a.fdiv b * b = b * a.fdiv b := Int.mul_comm _ _
  unfold IsFloorQuot
  constructor
  · intro hpos
    have h1 := Int.fmod_nonneg_of_pos a hpos
    have h2 := Int.fmod_lt_of_pos a hpos
    rw [e3, e4]; omega
  · intro hneg
    have hfe := @Int.fmod_eq_emod a b
    have hnn := Int.emod_nonneg a hb
    have hlt : a % b < -b := by
      have := Int.emod_lt_of_pos a (show 0 < -b by omega)
      rwa [Int.emod_neg] at this
    rw [e3, e4]
    by_cases hd : b ∣ a
    · have : a % b = 0 := Int.emod_eq_zero_of_dvd hd
      simp [hd] at hfe; omega
    · have : a % b ≠ 0 := fun h => hd (Int.dvd_of_emod_eq_zero h)
      simp [hd, show ¬ 0 ≤ b by omega] at hfe; omega

theorem two64_le_pow (base : Int) (e : Nat) (he : 63 < e) (hb : base > 1 ∨ base < -1) :
    ¬ fits64 (base ^ e) := by
  intro hf
  have h2 : 2 ≤ base.natAbs := by omega
  have h3 : 2 ^ 64 ≤ base.natAbs ^ e :=
    Nat.le_trans (Nat.pow_le_pow_right (by decide) (by omega : 64 ≤ e)) (Nat.pow_le_pow_left h2 e)
  have h4 : (base ^ e).natAbs = base.natAbs ^ e := Int.natAbs_pow base e
  unfold fits64 at hf
  have : (base ^ e).natAbs < 2 ^ 64 := by omega
  omega

theorem neg_one_pow (e : Nat) : (-1 : Int) ^ e = if e % 2 = 0 then 1 else -1 := by
  induction e with
  | zero => rfl
  | succ k ih =>
    rw [Int.pow_succ, ih]
    by_cases h : k % 2 = 0
    · have : (k + 1) % 2 ≠ 0 := by omega
      simp [h, this]
    · have : (k + 1) % 2 = 0 := by omega
      simp [h, this]

theorem ipow_eq (base : Int) (e : Nat) : ipow base e = base ^ e := by
  unfold ipow
  by_cases h0 : base = 0
  · subst h0
    cases e with
    | zero => simp
    | succ k => simp [Int.pow_succ]
  · by_cases h1 : base = 1
    · subst h1; simp [Int.one_pow]
    · by_cases h2 : base = -1
      · subst h2; simp [neg_one_pow]
      · simp [h0, h1, h2]

end Pangaea.IntArithLemmas
