/- Helper lemmas for C16. -/
import Pangaea.Syntax.Lexer
namespace Pangaea.Lexer

theorem isWs_hash : isWs '#' = false := by decide
theorem isWs_of_isNl (c : Char) (h : isNl c = true) : isWs c = false := by
  simp only [isNl, Bool.or_eq_true, beq_iff_eq] at h
  rcases h with rfl | rfl <;> decide
theorem ne_hash_of_isNl (c : Char) (h : isNl c = true) : c ≠ '#' := by
  intro e; subst e; simp [isNl] at h

theorem skipWs_append (ws : List Char) (c : Char) (rest : List Char) (hws : ∀ c ∈ ws, isWs c = true)
    (hc : isWs c = false) : skipWs (ws ++ c :: rest) = c :: rest := by
  induction ws with
  | nil => simp [skipWs, hc]
  | cons w ws ih =>
    simp only [List.cons_append, skipWs, hws w (by simp), if_true]
    exact ih (fun c hc => hws c (by simp [hc]))

theorem skipBody_append (b : List Char) (n : Char) (rest : List Char) (hb : ∀ c ∈ b, isNl c = false)
    (hn : isNl n = true) : skipBody (b ++ n :: rest) = n :: rest := by
  induction b with
  | nil => simp [skipBody, hn]
  | cons c cs ih =>
    simp only [List.cons_append, skipBody, hb c (by simp), Bool.false_eq_true, if_false]
    exact ih (fun c hc => hb c (by simp [hc]))

/-- a well-formed line is matched in full, whatever follows -/
theorem line_chars (l : LLine) (rest : List Char) : line (l.chars ++ rest) = some rest := by
  obtain ⟨ws, comment, nl, hws, hcm, hnl⟩ := l
  cases comment with
  | none =>
    simp only [LLine.chars, List.nil_append, List.append_assoc, List.singleton_append, List.cons_append]
    rw [line, skipWs_append ws nl rest hws (isWs_of_isNl _ hnl)]
    have : skipComment (nl :: rest) = nl :: rest := by
      unfold skipComment
      split
      · rename_i heq; simp at heq; exact absurd heq.1 (ne_hash_of_isNl _ hnl)
      · rfl
    simp [this, hnl]
  | some b =>
    simp only [LLine.chars, List.append_assoc, List.cons_append, List.singleton_append, List.nil_append]
    rw [line, skipWs_append ws '#' _ hws isWs_hash]
    simp only [skipComment]
    rw [skipBody_append b nl rest (hcm b rfl) hnl]
    simp [hnl]

theorem lines_run (ls : List LLine) (k : List Char) (fuel : Nat) (hf : ls.length ≤ fuel)
    (hk : line k = none) : lines fuel (runChars ls ++ k) = k := by
  induction ls generalizing fuel with
  | nil =>
    cases fuel with
    | zero => rfl
    | succ f => simp [runChars, lines, hk]
  | cons l ls ih =>
    cases fuel with
    | zero => simp at hf
    | succ f =>
      simp only [runChars, List.append_assoc, lines, line_chars]
      exact ih f (by simpa using hf)

theorem LLine.chars_length_pos (l : LLine) : 1 ≤ l.chars.length := by
  simp [LLine.chars]; omega

theorem runChars_length (ls : List LLine) : ls.length ≤ (runChars ls).length := by
  induction ls with
  | nil => simp [runChars]
  | cons l ls ih => have := l.chars_length_pos; simp [runChars]; omega

/-- Layout-volume independence of the RET token: any run of blank/comment lines, of any
    length, is swallowed whole and leaves exactly the continuation. -/
theorem afterRET_run (ls : List LLine) (k : List Char) (hk : line k = none) :
    afterRET (runChars ls ++ k) = k := by
  unfold afterRET
  apply lines_run ls k _ _ hk
  have := runChars_length ls
  simp; omega


end Pangaea.Lexer
