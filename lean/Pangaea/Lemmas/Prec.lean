/- Helper lemmas for C02 (infix fragment, arbitrary precedence function). -/
import Pangaea.Syntax.Prec
namespace Pangaea.Prec
open Tree

variable {Op Atom : Type} (prec : Op → Nat)

theorem first_insertRight (t : Tree Op Atom) (o : Op) (a : Atom) :
    first (insertRight prec t o a) = first t := by
  induction t with
  | atom x => simp [insertRight, first]
  | bin p l r ihl ihr => simp only [insertRight]; split <;> simp [first]

theorem tail_insertRight (t : Tree Op Atom) (o : Op) (a : Atom) :
    tail (insertRight prec t o a) = tail t ++ [(o, a)] := by
  induction t with
  | atom x => simp [insertRight, tail, first]
  | bin p l r ihl ihr =>
    simp only [insertRight]; split
    · simp [tail, ihr, first_insertRight]
    · simp [tail, first]

theorem rootGE_insertRight (t : Tree Op Atom) (o : Op) (a : Atom) (m : Nat)
    (ht : rootGE prec m t) (ho : m ≤ prec o) : rootGE prec m (insertRight prec t o a) := by
  cases t with
  | atom x => simpa [insertRight, rootGE] using ho
  | bin p l r => simp only [insertRight]; split <;> simp_all [rootGE]

theorem rootGT_insertRight (t : Tree Op Atom) (o : Op) (a : Atom) (m : Nat)
    (ht : rootGT prec m t) (ho : m < prec o) : rootGT prec m (insertRight prec t o a) := by
  cases t with
  | atom x => simpa [insertRight, rootGT] using ho
  | bin p l r => simp only [insertRight]; split <;> simp_all [rootGT]

theorem canonical_insertRight (t : Tree Op Atom) (o : Op) (a : Atom) (h : canonical prec t) :
    canonical prec (insertRight prec t o a) := by
  induction t with
  | atom x => simp [insertRight, canonical, rootGE, rootGT]
  | bin p l r ihl ihr =>
    obtain ⟨hl, hr, hge, hgt⟩ := h
    simp only [insertRight]; split
    · rename_i hlt
      exact ⟨hl, ihr hr, hge, rootGT_insertRight prec r o a _ hgt hlt⟩
    · rename_i hnlt
      refine ⟨⟨hl, hr, hge, hgt⟩, trivial, ?_, trivial⟩
      simp only [rootGE]; omega

theorem build_sound (a0 : Atom) (ws : List (Op × Atom)) :
    canonical prec (build prec a0 ws) ∧ first (build prec a0 ws) = a0 ∧ tail (build prec a0 ws) = ws := by
  unfold build
  suffices h : ∀ (t : Tree Op Atom), canonical prec t →
      canonical prec (ws.foldl (fun t w => insertRight prec t w.1 w.2) t) ∧
      first (ws.foldl (fun t w => insertRight prec t w.1 w.2) t) = first t ∧
      tail (ws.foldl (fun t w => insertRight prec t w.1 w.2) t) = tail t ++ ws by
    simpa [first, tail] using h (atom a0) trivial
  induction ws with
  | nil => intro t ht; simp [ht]
  | cons w ws ih =>
    intro t ht
    have := ih (insertRight prec t w.1 w.2) (canonical_insertRight prec t w.1 w.2 ht)
    simp only [List.foldl_cons]
    refine ⟨this.1, ?_, ?_⟩
    · rw [this.2.1, first_insertRight]
    · rw [this.2.2, tail_insertRight]; simp

/-- foldl of insertRight over the tail of a canonical right operand attaches under `bin p l _` -/
theorem foldl_under (p : Op) (l : Tree Op Atom) (ws : List (Op × Atom)) (r : Tree Op Atom)
    (h : ∀ w ∈ ws, prec p < prec w.1) :
    ws.foldl (fun t w => insertRight prec t w.1 w.2) (bin p l r) =
      bin p l (ws.foldl (fun t w => insertRight prec t w.1 w.2) r) := by
  induction ws generalizing r with
  | nil => rfl
  | cons w ws ih =>
    have hw : prec p < prec w.1 := h w (by simp)
    simp only [List.foldl_cons, insertRight, hw, if_true]
    exact ih _ (fun w' hw' => h w' (by simp [hw']))

theorem ops_of_tail_rootGT (m : Nat) (t : Tree Op Atom) (hc : canonical prec t) (hr : rootGT prec m t) :
    ∀ w ∈ tail t, m < prec w.1 := by
  induction t with
  | atom x => simp [tail]
  | bin o l r ihl ihr =>
    obtain ⟨hl, hrr, hge, hgt⟩ := hc
    simp only [rootGT] at hr
    intro w hw
    simp only [tail, List.mem_append, List.mem_cons] at hw
    rcases hw with hw | hw | hw
    · apply ihl hl _ w hw
      cases l with
      | atom _ => trivial
      | bin q _ _ => simp only [rootGE] at hge; simp only [rootGT]; omega
    · subst hw; exact hr
    · apply ihr hrr _ w hw
      cases r with
      | atom _ => trivial
      | bin q _ _ => simp only [rootGT] at hgt ⊢; omega

/-- round trip: a canonical tree is what the parser builds from its own token string -/
theorem build_complete (t : Tree Op Atom) (hc : canonical prec t) :
    build prec (first t) (tail t) = t := by
  unfold build
  induction t with
  | atom x => simp [tail, first]
  | bin o l r ihl ihr =>
    obtain ⟨hl, hr, hge, hgt⟩ := hc
    simp only [tail, first, List.foldl_append, List.foldl_cons]
    rw [ihl hl]
    -- insert (o, first r) to the right of l: since rootGE (prec o) l, o becomes the new root
    have hins : insertRight prec l o (first r) = bin o l (atom (first r)) := by
      cases l with
      | atom x => simp [insertRight]
      | bin q l1 l2 =>
        simp only [rootGE] at hge
        simp only [insertRight, show ¬ (prec q < prec o) by omega, if_false]
    rw [hins, foldl_under prec o l (tail r) (atom (first r)) (ops_of_tail_rootGT prec (prec o) r hr hgt), ihr hr]

theorem incr_tail {x : Tree Op Atom × Op} {st} (h : incr prec (x :: st)) : incr prec st := by
  cases st with
  | nil => trivial
  | cons y st => obtain ⟨l, p⟩ := x; obtain ⟨m, q⟩ := y; exact h.2

/-- inserting to the right of a plugged tree whose pending operators all bind looser than `o`
    happens inside the hole -/
theorem insertRight_plug_shift (st : List (Tree Op Atom × Op)) (c : Tree Op Atom) (o : Op) (a : Atom)
    (h : ∀ x ∈ st, prec x.2 < prec o) :
    insertRight prec (plug st c) o a = plug st (insertRight prec c o a) := by
  induction st generalizing c with
  | nil => rfl
  | cons x st ih =>
    obtain ⟨l, p⟩ := x
    have hp : prec p < prec o := h (l, p) (by simp)
    simp only [plug]
    rw [ih (bin p l c) (fun y hy => h y (by simp [hy]))]
    simp [insertRight, hp]

theorem reduceWhile_spec (st : List (Tree Op Atom × Op)) (c : Tree Op Atom) (o : Op)
    (hinc : incr prec st) :
    let r := reduceWhile prec st c o
    plug r.1 r.2 = plug st c ∧ incr prec r.1 ∧ (∀ x ∈ r.1, prec x.2 < prec o) ∧
      (∀ q l' r', r.2 = bin q l' r' → r.2 ≠ c → ¬ prec q < prec o) := by
  induction st generalizing c with
  | nil => simp [reduceWhile, plug, incr]
  | cons x st ih =>
    obtain ⟨l, p⟩ := x
    by_cases hlt : prec p < prec o
    · simp only [reduceWhile, shifts, hlt, decide_true, if_true]
      refine ⟨trivial, hinc, ?_, by intro _ _ _ _ h; exact absurd rfl h⟩
      -- all entries below have smaller precedence than p < o
      intro y hy
      have key : ∀ (st : List (Tree Op Atom × Op)) (l : Tree Op Atom) (p : Op), incr prec ((l, p) :: st) →
          ∀ y ∈ (l, p) :: st, prec y.2 ≤ prec p := by
        intro st
        induction st with
        | nil => intro l p _ y hy; simp at hy; subst hy; exact Nat.le_refl _
        | cons z st ih2 =>
          intro l p hi y hy
          obtain ⟨m, q⟩ := z
          simp only [List.mem_cons] at hy
          rcases hy with rfl | hy
          · exact Nat.le_refl _
          · have := ih2 m q hi.2 y (by simpa using hy)
            have := hi.1
            omega
      have := key st l p hinc y hy
      omega
    · have hnlt := hlt
      simp only [reduceWhile, shifts, hlt, decide_false, if_false, Bool.false_eq_true]
      have := ih (bin p l c) (incr_tail prec hinc)
      refine ⟨by simpa [plug] using this.1, this.2.1, this.2.2.1, ?_⟩
      intro q l' r' heq _
      by_cases hsame : (reduceWhile prec st (bin p l c) o).2 = bin p l c
      · rw [hsame] at heq; cases heq; exact hnlt
      · exact this.2.2.2 q l' r' heq hsame

/-- main lemma: one machine step = one `insertRight` -/
theorem step_eq (st : List (Tree Op Atom × Op)) (x : Atom) (o : Op) (a : Atom) (hinc : incr prec st) :
    let r := reduceWhile prec st (atom x) o
    plug ((r.2, o) :: r.1) (atom a) = insertRight prec (plug st (atom x)) o a ∧
      incr prec ((r.2, o) :: r.1) := by
  have h := reduceWhile_spec prec st (atom x) o hinc
  obtain ⟨hplug, hincr, hlt, hroot⟩ := h
  constructor
  · rw [← hplug, insertRight_plug_shift prec _ _ o a hlt]
    simp only [plug]
    congr 1
    -- at the hole: the reduced tree's root does not bind looser than o, so o becomes the new root
    generalize hr : (reduceWhile prec st (atom x) o).2 = rt at hroot
    cases rt with
    | atom y => simp [insertRight]
    | bin q l' r' =>
      have := hroot q l' r' rfl (by simp)
      simp [insertRight, this]
  · cases hr1 : (reduceWhile prec st (atom x) o).1 with
    | nil => trivial
    | cons y ys =>
      obtain ⟨m, q⟩ := y
      rw [hr1] at hincr hlt
      exact ⟨hlt (m, q) (by simp), hincr⟩

theorem sr_eq_foldl (st : List (Tree Op Atom × Op)) (x : Atom) (ws : List (Op × Atom)) (hinc : incr prec st) :
    sr prec st (atom x) ws = ws.foldl (fun t w => insertRight prec t w.1 w.2) (plug st (atom x)) := by
  induction ws generalizing st x with
  | nil => simp [sr]
  | cons w ws ih =>
    obtain ⟨o, a⟩ := w
    have h := step_eq prec st x o a hinc
    simp only [sr, List.foldl_cons]
    rw [ih _ a h.2, h.1]

/-- The yacc-style shift-reduce machine computes exactly the canonical tree. -/
theorem sr_eq_build (a0 : Atom) (ws : List (Op × Atom)) : sr prec [] (atom a0) ws = build prec a0 ws := by
  simpa [build, plug] using sr_eq_foldl prec [] a0 ws trivial


end Pangaea.Prec
