/- Footprint of the Core evaluator on scopes: which frames an evaluation may change. -/
import Pangaea.Lemmas.Core
namespace Pangaea.Core

/-- frame `id` is the current scope of some iterator -/
def IterEnv (s : St) (id : Nat) : Prop := ∃ it, it ∈ s.iters ∧ it.env = id

/-- `Pres cur s s'`: going from `s` to `s'`, scopes are only added; every scope that existed in `s`, is not
    `cur` and is not an iterator's own scope is unchanged; no existing scope became an iterator's scope. -/
structure Pres (cur : Option Nat) (s s' : St) : Prop where
  len : s.frames.length ≤ s'.frames.length
  same : ∀ id, id < s.frames.length → cur ≠ some id → ¬ IterEnv s id → s'.frames[id]? = s.frames[id]?
  iters : ∀ id, id < s.frames.length → IterEnv s' id → IterEnv s id

theorem Pres.refl (c : Option Nat) (s : St) : Pres c s s := ⟨Nat.le_refl _, fun _ _ _ _ => rfl, fun _ _ h => h⟩

/-- composition; the second step may run in the same scope, in a scope created after `s0`, or in an iterator's scope -/
theorem Pres.trans' {c c' : Option Nat} {s0 s1 s2 : St} (h1 : Pres c s0 s1) (h2 : Pres c' s1 s2)
    (hc : ∀ e, c' = some e → c = some e ∨ s0.frames.length ≤ e ∨ IterEnv s1 e) : Pres c s0 s2 := by
  refine ⟨Nat.le_trans h1.len h2.len, ?_, ?_⟩
  · intro id hid hcur hit
    have hit1 : ¬ IterEnv s1 id := fun h => hit (h1.iters id hid h)
    have hc' : c' ≠ some id := by
      intro he
      rcases hc id he with h | h | h
      · exact hcur h
      · omega
      · exact hit1 h
    rw [h2.same id (Nat.lt_of_lt_of_le hid h1.len) hc' hit1, h1.same id hid hcur hit]
  · intro id hid h
    exact h1.iters id hid (h2.iters id (Nat.lt_of_lt_of_le hid h1.len) h)

theorem Pres.trans {c : Option Nat} {s0 s1 s2 : St} (h1 : Pres c s0 s1) (h2 : Pres c s1 s2) : Pres c s0 s2 :=
  h1.trans' h2 (fun _ he => Or.inl he)

theorem Pres.weaken {c : Option Nat} {s s' : St} (h : Pres none s s') : Pres c s s' :=
  ⟨h.len, fun id hid _ hit => h.same id hid (by simp) hit, h.iters⟩

/-- an evaluation that keeps `Pres cur` from every start state -/
def PresM {α : Type} (cur : Option Nat) (m : M α) : Prop := ∀ s, Pres cur s (m s).2

theorem PresM.weaken {α : Type} {c : Option Nat} {m : M α} (h : PresM none m) : PresM c m := fun s => (h s).weaken

theorem PresM.pure {α : Type} (c : Option Nat) (a : α) : PresM c (pureM a) := fun s => Pres.refl c s
theorem PresM.throw {α : Type} (c : Option Nat) (k m : String) : PresM c (throwM k m : M α) := fun s => Pres.refl c s
theorem PresM.fuel {α : Type} (c : Option Nat) : PresM c (outOfFuel : M α) := fun s => Pres.refl c s
theorem PresM.unsup {α : Type} (c : Option Nat) (w : String) : PresM c (unsupported w : M α) := fun s => Pres.refl c s

theorem PresM.bind {α β : Type} {c : Option Nat} {m : M α} {f : α → M β}
    (hm : PresM c m) (hf : ∀ a, PresM c (f a)) : PresM c (m >>== f) := by
  intro s
  unfold bindM
  have h1 := hm s
  rcases hms : m s with ⟨r, s1⟩
  rw [hms] at h1
  cases r with
  | ok a => exact h1.trans (hf a s1)
  | err k msg => exact h1
  | fuel => exact h1
  | unsup w => exact h1

/-- state-only-in-output primitives -/
theorem PresM.of_frames_iters_eq {α : Type} (c : Option Nat) (m : M α)
    (h : ∀ s, (m s).2.frames = s.frames ∧ (m s).2.iters = s.iters) : PresM c m := by
  intro s
  obtain ⟨hf, hi⟩ := h s
  refine ⟨by rw [hf]; exact Nat.le_refl _, fun id _ _ _ => by rw [hf], fun id _ hit => ?_⟩
  obtain ⟨it, hm, he⟩ := hit
  exact ⟨it, by rw [← hi]; exact hm, he⟩

theorem PresM.getVar (c : Option Nat) (env : Nat) (x : String) : PresM c (getVar env x) :=
  PresM.of_frames_iters_eq c _ (fun _ => ⟨rfl, rfl⟩)
theorem PresM.printLine (c : Option Nat) (l : String) : PresM c (printLine l) :=
  PresM.of_frames_iters_eq c _ (fun _ => ⟨rfl, rfl⟩)
theorem PresM.readLine (c : Option Nat) : PresM c readLine :=
  PresM.of_frames_iters_eq c _ (fun s => by unfold Core.readLine; cases s.inp <;> exact ⟨rfl, rfl⟩)
theorem PresM.frameOuter (c : Option Nat) (env : Nat) : PresM c (frameOuter env) :=
  PresM.of_frames_iters_eq c _ (fun _ => ⟨rfl, rfl⟩)
theorem PresM.getIter (c : Option Nat) (id : Nat) : PresM c (getIter id) :=
  PresM.of_frames_iters_eq c _ (fun s => by unfold Core.getIter; cases s.iters[id]? <;> exact ⟨rfl, rfl⟩)

/-- appending frames keeps everything that existed -/
theorem Pres.append (c : Option Nat) (s : St) (extra : List Frame) : Pres c s { s with frames := s.frames ++ extra } := by
  refine ⟨by simp, fun id hid _ _ => by simp [List.getElem?_append_left hid], fun id _ h => h⟩

theorem PresM.allocFrame (c : Option Nat) (fr : Frame) : PresM c (allocFrame fr) := fun s => Pres.append c s [fr]
theorem PresM.copyFrame (c : Option Nat) (env : Nat) : PresM c (copyFrame env) := fun s => Pres.append c s _
theorem PresM.enterCall (c : Option Nat) (fenv : Nat) (params : List String) (kwd : List (String × Val)) (args : List Val)
    (kwargs : List (String × Val)) : PresM c (enterCall fenv params kwd args kwargs) := fun s => Pres.append c s _

/-- `Env.Set` writes the scope it is given -/
theorem PresM.setVar (env : Nat) (x : String) (v : Val) : PresM (some env) (setVar env x v) := by
  intro s
  refine ⟨by simp [Core.setVar], fun id _ hcur _ => ?_, fun id _ h => h⟩
  have : env ≠ id := fun he => hcur (by rw [he])
  simp [Core.setVar, List.getElem?_modify, this]

/-- writing an iterator's own scope is outside every footprint -/
theorem Pres.setVar_iterEnv (c : Option Nat) (s : St) (env : Nat) (x : String) (v : Val) (hit : IterEnv s env) :
    Pres c s (setVar env x v s).2 := by
  refine ⟨by simp [Core.setVar], fun id _ _ hn => ?_, fun id _ h => h⟩
  have : env ≠ id := fun he => hn (he ▸ hit)
  simp [Core.setVar, List.getElem?_modify, this]

theorem iterEnv_lt_of_new {s : St} {id : Nat} {fr : Frame} {params : List String} {kwd : List (String × Val)} {body : List Stmt}
    (hid : id < s.frames.length) (h : IterEnv (newIter fr params kwd body s).2 id) : IterEnv s id := by
  obtain ⟨it, hm, he⟩ := h
  simp only [newIter, List.mem_append, List.mem_singleton] at hm
  rcases hm with hm | rfl
  · exact ⟨it, hm, he⟩
  · simp at he; omega

theorem PresM.newIter (c : Option Nat) (fr : Frame) (params : List String) (kwd : List (String × Val)) (body : List Stmt) :
    PresM c (newIter fr params kwd body) := by
  intro s
  refine ⟨by simp [Core.newIter], fun id hid _ _ => by simp [Core.newIter, List.getElem?_append_left hid], fun id hid h => iterEnv_lt_of_new hid h⟩

theorem PresM.copyIter (c : Option Nat) (it : IterSt) : PresM c (copyIter it) := fun s => PresM.newIter c _ _ _ _ s

theorem PresM.repointIter (c : Option Nat) (id : Nat) (fr : Frame) : PresM c (repointIter id fr) := by
  intro s
  refine ⟨by simp [Core.repointIter], fun j hj _ _ => by simp [Core.repointIter, List.getElem?_append_left hj], fun j hj h => ?_⟩
  obtain ⟨it, hm, he⟩ := h
  simp only [Core.repointIter] at hm
  obtain ⟨k, hk, hget⟩ := List.mem_iff_getElem.1 hm
  rw [List.getElem_modify] at hget
  by_cases hki : id = k
  · simp [hki] at hget
    rw [← hget] at he; simp at he; omega
  · simp [hki] at hget
    exact ⟨it, by rw [← hget]; exact List.getElem_mem _, he⟩

end Pangaea.Core
