/- Tactic and induction hypothesis for C03, part 2 — lexical scoping as a footprint theorem over the Core reference evaluator:
   evaluating anything in scope `env` changes no existing scope other than `env` itself (and the scopes owned by
   iterators, the only stateful objects); calling a function changes NO existing scope at all: its body runs in a
   scope created for that call. Proof: simultaneous induction on fuel over all 29 functions of the evaluator. -/
import Lean
import Pangaea.Lemmas.Scope
namespace Pangaea.C03
open Pangaea.Core

theorem pres_intBin (c : Option Nat) (name : String) (a : Int) (b : Val) : PresM c (intBin name a b) := by
  apply PresM.of_frames_iters_eq
  intro s
  unfold intBin
  repeat' split
  all_goals first | exact ⟨rfl, rfl⟩ | simp [pureM, throwM, unsupported]

theorem pres_pureBuiltin (c : Option Nat) (name : String) (recv : Val) (args : List Val) : PresM c (pureBuiltin name recv args) := by
  unfold pureBuiltin
  repeat' split
  all_goals first
    | exact PresM.pure _ _
    | exact PresM.throw _ _ _
    | exact PresM.unsup _ _
    | exact pres_intBin _ _ _ _
    | exact PresM.bind (PresM.printLine _ _) (fun _ => PresM.pure _ _)
    | exact PresM.bind (PresM.readLine _) (fun _ => PresM.bind (PresM.printLine _ _) (fun _ => PresM.pure _ _))
    | exact PresM.bind (PresM.readLine _) (fun _ => PresM.pure _ _)
    | (dsimp only; split <;> exact PresM.pure _ _)

/-- the induction hypothesis: every function of the evaluator keeps its footprint at this fuel -/
structure AllPres (fuel : Nat) : Prop where
  evalE : ∀ e env, PresM (some env) (evalE fuel e env)
  evalOpt : ∀ e env, PresM (some env) (evalOpt fuel e env)
  evalRecv : ∀ e env, PresM (some env) (evalRecv fuel e env)
  evalElems : ∀ es env, PresM (some env) (evalElems fuel es env)
  evalArgs : ∀ es env acc kw, PresM (some env) (evalArgs fuel es env acc kw)
  evalKws : ∀ ks env acc, PresM (some env) (evalKws fuel ks env acc)
  evalPairs : ∀ ps env acc, PresM (some env) (evalPairs fuel ps env acc)
  evalEmbedded : ∀ es env acc, PresM (some env) (evalEmbedded fuel es env acc)
  evalPieces : ∀ ps env acc, PresM (some env) (evalPieces fuel ps env acc)
  evalStmts : ∀ ss env, PresM (some env) (evalStmts fuel ss env)
  stmtLoop : ∀ ss env v y d, PresM (some env) (stmtLoop fuel ss env v y d)
  runDefers : ∀ ds env, PresM (some env) (runDefers fuel ds env)
  evalStmt : ∀ st env, PresM (some env) (evalStmt fuel st env)
  callVal : ∀ f args kw, PresM none (callVal fuel f args kw)
  callProp : ∀ r n args kw env, PresM none (callProp fuel r n args kw env)
  callPropQuiet : ∀ r n args env, PresM none (callPropQuiet fuel r n args env)
  builtinCall : ∀ n r args kw env, PresM none (builtinCall fuel n r args kw env)
  iterNext : ∀ id, PresM none (iterNext fuel id)
  propAdd : ∀ a r n args kw env, PresM none (propAdd fuel a r n args kw env)
  srcOf : ∀ v, PresM none (srcOf fuel v)
  nextElem : ∀ src, PresM none (nextElem fuel src)
  propChain : ∀ m a r ca n args kw env, PresM none (propChain fuel m a r ca n args kw env)
  propListLoop : ∀ a src n args kw env acc, PresM none (propListLoop fuel a src n args kw env acc)
  propReduceLoop : ∀ a src acc n args kw env, PresM none (propReduceLoop fuel a src acc n args kw env)
  litCallOne : ∀ f r env, PresM none (litCallOne fuel f r env)
  litAdd : ∀ a f r env, PresM none (litAdd fuel a f r env)
  litChain : ∀ m a r ca f env, PresM none (litChain fuel m a r ca f env)
  litListLoop : ∀ a src f env acc, PresM none (litListLoop fuel a src f env acc)
  litReduceLoop : ∀ a src acc f env, PresM none (litReduceLoop fuel a src acc f env)

theorem allPres_zero : AllPres 0 := by
  constructor <;> intros <;> first
    | (simp only [evalE, evalOpt, evalRecv, evalElems, evalArgs, evalKws, evalPairs, evalEmbedded, evalPieces, evalStmts,
        stmtLoop, runDefers, evalStmt, callVal, callProp, callPropQuiet, builtinCall, iterNext, propAdd, srcOf, nextElem,
        propChain, propListLoop, propReduceLoop, litCallOne, litAdd, litChain, litListLoop, litReduceLoop]; exact PresM.fuel _)

open Lean Elab Tactic Meta in
/-- succeeds when the goal is `PresM c m` and the head constant of `m` is the given one (a syntactic guard:
    it keeps the search from unfolding the evaluator during failing unifications) -/
elab "head_is " n:ident : tactic => do
  let g ← getMainGoal
  let t := (← instantiateMVars (← g.getType)).cleanupAnnotations
  let want := n.getId.eraseMacroScopes.getString!
  match t.getAppFnArgs with
  | (``Pangaea.Core.PresM, #[_, _, m]) =>
    match m.cleanupAnnotations.getAppFn.constName? with
    | some c => if c.getString! == want then pure () else throwError "head is not {want}"
    | none => throwError "head is not a constant"
  | _ => throwError "not a PresM goal"

/-- closes goals made of binds of primitives, matches and recursive calls covered by `ih : AllPres fuel` -/
syntax "pres_tac " ident : tactic
macro_rules
  | `(tactic| pres_tac $ih:ident) => `(tactic| (
    repeat' (first
      | (have hsucc := Nat.succ.inj ‹_ + 1 = Nat.succ _›; subst hsucc)
      | (head_is bindM; refine PresM.bind ?_ (fun _ => ?_))
      | (head_is pureM; exact PresM.pure _ _)
      | (head_is throwM; exact PresM.throw _ _ _)
      | (head_is outOfFuel; exact PresM.fuel _)
      | (head_is unsupported; exact PresM.unsup _ _)
      | (head_is getVar; exact PresM.getVar _ _ _)
      | (head_is setVar; exact PresM.setVar _ _ _)
      | (head_is allocFrame; exact PresM.allocFrame _ _)
      | (head_is copyFrame; exact PresM.copyFrame _ _)
      | (head_is enterCall; exact PresM.enterCall _ _ _ _ _ _)
      | (head_is frameOuter; exact PresM.frameOuter _ _)
      | (head_is getIter; exact PresM.getIter _ _)
      | (head_is printLine; exact PresM.printLine _ _)
      | (head_is readLine; exact PresM.readLine _)
      | (head_is newIter; exact PresM.newIter _ _ _ _ _)
      | (head_is copyIter; exact PresM.copyIter _ _)
      | (head_is repointIter; exact PresM.repointIter _ _ _)
      | (head_is pureBuiltin; exact pres_pureBuiltin _ _ _ _)
      | (head_is evalE; exact AllPres.evalE $ih _ _)
      | (head_is evalOpt; exact AllPres.evalOpt $ih _ _)
      | (head_is evalRecv; exact AllPres.evalRecv $ih _ _)
      | (head_is evalElems; exact AllPres.evalElems $ih _ _)
      | (head_is evalArgs; exact AllPres.evalArgs $ih _ _ _ _)
      | (head_is evalKws; exact AllPres.evalKws $ih _ _ _)
      | (head_is evalPairs; exact AllPres.evalPairs $ih _ _ _)
      | (head_is evalEmbedded; exact AllPres.evalEmbedded $ih _ _ _)
      | (head_is evalPieces; exact AllPres.evalPieces $ih _ _ _)
      | (head_is evalStmts; exact AllPres.evalStmts $ih _ _)
      | (head_is stmtLoop; exact AllPres.stmtLoop $ih _ _ _ _ _)
      | (head_is runDefers; exact AllPres.runDefers $ih _ _)
      | (head_is evalStmt; exact AllPres.evalStmt $ih _ _)
      | (head_is callVal; exact PresM.weaken (AllPres.callVal $ih _ _ _))
      | (head_is callProp; exact PresM.weaken (AllPres.callProp $ih _ _ _ _ _))
      | (head_is callPropQuiet; exact PresM.weaken (AllPres.callPropQuiet $ih _ _ _ _))
      | (head_is builtinCall; exact PresM.weaken (AllPres.builtinCall $ih _ _ _ _ _))
      | (head_is iterNext; exact PresM.weaken (AllPres.iterNext $ih _))
      | (head_is propAdd; exact PresM.weaken (AllPres.propAdd $ih _ _ _ _ _ _))
      | (head_is srcOf; exact PresM.weaken (AllPres.srcOf $ih _))
      | (head_is nextElem; exact PresM.weaken (AllPres.nextElem $ih _))
      | (head_is propChain; exact PresM.weaken (AllPres.propChain $ih _ _ _ _ _ _ _ _))
      | (head_is propListLoop; exact PresM.weaken (AllPres.propListLoop $ih _ _ _ _ _ _ _))
      | (head_is propReduceLoop; exact PresM.weaken (AllPres.propReduceLoop $ih _ _ _ _ _ _ _))
      | (head_is litCallOne; exact PresM.weaken (AllPres.litCallOne $ih _ _ _))
      | (head_is litAdd; exact PresM.weaken (AllPres.litAdd $ih _ _ _ _))
      | (head_is litChain; exact PresM.weaken (AllPres.litChain $ih _ _ _ _ _ _))
      | (head_is litListLoop; exact PresM.weaken (AllPres.litListLoop $ih _ _ _ _ _))
      | (head_is litReduceLoop; exact PresM.weaken (AllPres.litReduceLoop $ih _ _ _ _ _))
      | dsimp only
      | split)))

end Pangaea.C03
