/- A generic invariance principle for the Core evaluator: any reflexive, transitive relation on interpreter states
   that every state primitive respects is respected by every function of the evaluator (simultaneous induction on
   fuel over the 29 functions). Instances: output only grows, stdin is only consumed, iterator identities and their
   code persist (Theorems/C08.lean, Theorems/C14.lean). -/
import Lean
import Pangaea.Lemmas.Core
namespace Pangaea.Core

/-- what the relation has to satisfy: a preorder respected by the twelve state primitives -/
structure PrimStable (R : St → St → Prop) : Prop where
  refl : ∀ s, R s s
  trans : ∀ {a b c}, R a b → R b c → R a c
  setVar : ∀ env x v s, R s (setVar env x v s).2
  allocFrame : ∀ fr s, R s (allocFrame fr s).2
  copyFrame : ∀ env s, R s (copyFrame env s).2
  enterCall : ∀ fenv params kwd args kwargs s, R s (enterCall fenv params kwd args kwargs s).2
  printLine : ∀ l s, R s (printLine l s).2
  readLine : ∀ s, R s (readLine s).2
  newIter : ∀ fr params kwd body s, R s (newIter fr params kwd body s).2
  copyIter : ∀ it s, R s (copyIter it s).2
  repointIter : ∀ id fr s, R s (repointIter id fr s).2

def StableM {α : Type} (R : St → St → Prop) (m : M α) : Prop := ∀ s, R s (m s).2

section
variable {R : St → St → Prop} (hR : PrimStable R)
include hR

theorem StableM.pure {α : Type} (a : α) : StableM R (pureM a) := fun s => hR.refl s
theorem StableM.throw {α : Type} (k m : String) : StableM R (throwM k m : M α) := fun s => hR.refl s
theorem StableM.fuel {α : Type} : StableM R (outOfFuel : M α) := fun s => hR.refl s
theorem StableM.unsup {α : Type} (w : String) : StableM R (unsupported w : M α) := fun s => hR.refl s
theorem StableM.getVar (env : Nat) (x : String) : StableM R (getVar env x) := fun s => hR.refl s
theorem StableM.frameOuter (env : Nat) : StableM R (frameOuter env) := fun s => hR.refl s
theorem StableM.getIter (id : Nat) : StableM R (getIter id) := by
  intro s; unfold Core.getIter; cases s.iters[id]? <;> exact hR.refl s

theorem StableM.bind {α β : Type} {m : M α} {f : α → M β}
    (hm : StableM R m) (hf : ∀ a, StableM R (f a)) : StableM R (m >>== f) := by
  intro s
  unfold bindM
  have h1 := hm s
  rcases hms : m s with ⟨r, s1⟩
  rw [hms] at h1
  cases r with
  | ok a => exact hR.trans h1 (hf a s1)
  | err k msg => exact h1
  | fuel => exact h1
  | unsup w => exact h1

theorem stable_intBin (name : String) (a : Int) (b : Val) : StableM R (intBin name a b) := by
  intro s
  have : (intBin name a b s).2 = s := by
    unfold intBin
    repeat' split
    all_goals first | rfl | simp [pureM, throwM, unsupported]
  rw [this]; exact hR.refl s

theorem stable_pureBuiltin (name : String) (recv : Val) (args : List Val) : StableM R (pureBuiltin name recv args) := by
  unfold pureBuiltin
  repeat' split
  all_goals first
    | exact StableM.pure hR _
    | exact StableM.throw hR _ _
    | exact StableM.unsup hR _
    | exact stable_intBin hR _ _ _
    | exact StableM.bind hR (hR.printLine _) (fun _ => StableM.pure hR _)
    | exact StableM.bind hR hR.readLine (fun _ => StableM.bind hR (hR.printLine _) (fun _ => StableM.pure hR _))
    | exact StableM.bind hR hR.readLine (fun _ => StableM.pure hR _)
    | (dsimp only; split <;> exact StableM.pure hR _)
end

/-- the induction hypothesis: every function of the evaluator respects R at this fuel -/
structure AllStable (R : St → St → Prop) (fuel : Nat) : Prop where
  evalE : ∀ e env, StableM R (evalE fuel e env)
  evalOpt : ∀ e env, StableM R (evalOpt fuel e env)
  evalRecv : ∀ e env, StableM R (evalRecv fuel e env)
  evalElems : ∀ es env, StableM R (evalElems fuel es env)
  evalArgs : ∀ es env acc kw, StableM R (evalArgs fuel es env acc kw)
  evalKws : ∀ ks env acc, StableM R (evalKws fuel ks env acc)
  evalPairs : ∀ ps env acc, StableM R (evalPairs fuel ps env acc)
  evalEmbedded : ∀ es env acc, StableM R (evalEmbedded fuel es env acc)
  evalPieces : ∀ ps env acc, StableM R (evalPieces fuel ps env acc)
  evalStmts : ∀ ss env, StableM R (evalStmts fuel ss env)
  stmtLoop : ∀ ss env v y d, StableM R (stmtLoop fuel ss env v y d)
  runDefers : ∀ ds env, StableM R (runDefers fuel ds env)
  evalStmt : ∀ st env, StableM R (evalStmt fuel st env)
  callVal : ∀ f args kw, StableM R (callVal fuel f args kw)
  callProp : ∀ r n args kw env, StableM R (callProp fuel r n args kw env)
  callPropQuiet : ∀ r n args env, StableM R (callPropQuiet fuel r n args env)
  builtinCall : ∀ n r args kw env, StableM R (builtinCall fuel n r args kw env)
  iterNext : ∀ id, StableM R (iterNext fuel id)
  propAdd : ∀ a r n args kw env, StableM R (propAdd fuel a r n args kw env)
  srcOf : ∀ v, StableM R (srcOf fuel v)
  nextElem : ∀ src, StableM R (nextElem fuel src)
  propChain : ∀ m a r ca n args kw env, StableM R (propChain fuel m a r ca n args kw env)
  propListLoop : ∀ a src n args kw env acc, StableM R (propListLoop fuel a src n args kw env acc)
  propReduceLoop : ∀ a src acc n args kw env, StableM R (propReduceLoop fuel a src acc n args kw env)
  litCallOne : ∀ f r env, StableM R (litCallOne fuel f r env)
  litAdd : ∀ a f r env, StableM R (litAdd fuel a f r env)
  litChain : ∀ m a r ca f env, StableM R (litChain fuel m a r ca f env)
  litListLoop : ∀ a src f env acc, StableM R (litListLoop fuel a src f env acc)
  litReduceLoop : ∀ a src acc f env, StableM R (litReduceLoop fuel a src acc f env)

theorem allStable_zero {R : St → St → Prop} (hR : PrimStable R) : AllStable R 0 := by
  constructor <;> intros <;> first
    | (simp only [evalE, evalOpt, evalRecv, evalElems, evalArgs, evalKws, evalPairs, evalEmbedded, evalPieces, evalStmts,
        stmtLoop, runDefers, evalStmt, callVal, callProp, callPropQuiet, builtinCall, iterNext, propAdd, srcOf, nextElem,
        propChain, propListLoop, propReduceLoop, litCallOne, litAdd, litChain, litListLoop, litReduceLoop]; exact StableM.fuel hR)

open Lean Elab Tactic Meta in
/-- succeeds when the goal is `StableM R m` and the head constant of `m` is the given one -/
elab "shead_is " n:ident : tactic => do
  let g ← getMainGoal
  let t := (← instantiateMVars (← g.getType)).cleanupAnnotations
  let want := n.getId.eraseMacroScopes.getString!
  match t.getAppFnArgs with
  | (``Pangaea.Core.StableM, #[_, _, m]) =>
    match m.cleanupAnnotations.getAppFn.constName? with
    | some c => if c.getString! == want then pure () else throwError "head is not {want}"
    | none => throwError "head is not a constant"
  | _ => throwError "not a StableM goal"

syntax "stable_tac " ident ident : tactic
macro_rules
  | `(tactic| stable_tac $hR:ident $ih:ident) => `(tactic| (
    repeat' (first
      | (have hsucc := Nat.succ.inj ‹_ + 1 = Nat.succ _›; subst hsucc)
      | (shead_is bindM; refine StableM.bind $hR ?_ (fun _ => ?_))
      | (shead_is pureM; exact StableM.pure $hR _)
      | (shead_is throwM; exact StableM.throw $hR _ _)
      | (shead_is outOfFuel; exact StableM.fuel $hR)
      | (shead_is unsupported; exact StableM.unsup $hR _)
      | (shead_is getVar; exact StableM.getVar $hR _ _)
      | (shead_is setVar; exact PrimStable.setVar $hR _ _ _)
      | (shead_is allocFrame; exact PrimStable.allocFrame $hR _)
      | (shead_is copyFrame; exact PrimStable.copyFrame $hR _)
      | (shead_is enterCall; exact PrimStable.enterCall $hR _ _ _ _ _)
      | (shead_is frameOuter; exact StableM.frameOuter $hR _)
      | (shead_is getIter; exact StableM.getIter $hR _)
      | (shead_is printLine; exact PrimStable.printLine $hR _)
      | (shead_is readLine; exact PrimStable.readLine $hR)
      | (shead_is newIter; exact PrimStable.newIter $hR _ _ _ _)
      | (shead_is copyIter; exact PrimStable.copyIter $hR _)
      | (shead_is repointIter; exact PrimStable.repointIter $hR _ _)
      | (shead_is pureBuiltin; exact stable_pureBuiltin $hR _ _ _)
      | (shead_is evalE; exact AllStable.evalE $ih _ _)
      | (shead_is evalOpt; exact AllStable.evalOpt $ih _ _)
      | (shead_is evalRecv; exact AllStable.evalRecv $ih _ _)
      | (shead_is evalElems; exact AllStable.evalElems $ih _ _)
      | (shead_is evalArgs; exact AllStable.evalArgs $ih _ _ _ _)
      | (shead_is evalKws; exact AllStable.evalKws $ih _ _ _)
      | (shead_is evalPairs; exact AllStable.evalPairs $ih _ _ _)
      | (shead_is evalEmbedded; exact AllStable.evalEmbedded $ih _ _ _)
      | (shead_is evalPieces; exact AllStable.evalPieces $ih _ _ _)
      | (shead_is evalStmts; exact AllStable.evalStmts $ih _ _)
      | (shead_is stmtLoop; exact AllStable.stmtLoop $ih _ _ _ _ _)
      | (shead_is runDefers; exact AllStable.runDefers $ih _ _)
      | (shead_is evalStmt; exact AllStable.evalStmt $ih _ _)
      | (shead_is callVal; exact AllStable.callVal $ih _ _ _)
      | (shead_is callProp; exact AllStable.callProp $ih _ _ _ _ _)
      | (shead_is callPropQuiet; exact AllStable.callPropQuiet $ih _ _ _ _)
      | (shead_is builtinCall; exact AllStable.builtinCall $ih _ _ _ _ _)
      | (shead_is iterNext; exact AllStable.iterNext $ih _)
      | (shead_is propAdd; exact AllStable.propAdd $ih _ _ _ _ _ _)
      | (shead_is srcOf; exact AllStable.srcOf $ih _)
      | (shead_is nextElem; exact AllStable.nextElem $ih _)
      | (shead_is propChain; exact AllStable.propChain $ih _ _ _ _ _ _ _ _)
      | (shead_is propListLoop; exact AllStable.propListLoop $ih _ _ _ _ _ _ _)
      | (shead_is propReduceLoop; exact AllStable.propReduceLoop $ih _ _ _ _ _ _ _)
      | (shead_is litCallOne; exact AllStable.litCallOne $ih _ _ _)
      | (shead_is litAdd; exact AllStable.litAdd $ih _ _ _ _)
      | (shead_is litChain; exact AllStable.litChain $ih _ _ _ _ _ _)
      | (shead_is litListLoop; exact AllStable.litListLoop $ih _ _ _ _ _)
      | (shead_is litReduceLoop; exact AllStable.litReduceLoop $ih _ _ _ _ _)
      | dsimp only
      | split)))

section
variable {R : St → St → Prop} (hR : PrimStable R) {fuel : Nat} (ih : AllStable R fuel)
include hR ih

theorem st_evalOpt : ∀ e env, StableM R (evalOpt (fuel + 1) e env) := by
  intro e env; cases e <;> (simp only [evalOpt]; stable_tac hR ih)
theorem st_evalRecv : ∀ e env, StableM R (evalRecv (fuel + 1) e env) := by
  intro e env; cases e <;> (simp only [evalRecv]; stable_tac hR ih)
theorem st_evalElems : ∀ es env, StableM R (evalElems (fuel + 1) es env) := by
  intro es env; unfold evalElems; stable_tac hR ih
theorem st_evalArgs : ∀ es env acc kw, StableM R (evalArgs (fuel + 1) es env acc kw) := by
  intro es env acc kw; unfold evalArgs; stable_tac hR ih
theorem st_evalKws : ∀ ks env acc, StableM R (evalKws (fuel + 1) ks env acc) := by
  intro ks env acc; unfold evalKws; stable_tac hR ih
theorem st_evalPairs : ∀ ps env acc, StableM R (evalPairs (fuel + 1) ps env acc) := by
  intro ps env acc; unfold evalPairs; stable_tac hR ih
theorem st_evalEmbedded : ∀ es env acc, StableM R (evalEmbedded (fuel + 1) es env acc) := by
  intro es env acc; unfold evalEmbedded; stable_tac hR ih
theorem st_evalPieces : ∀ ps env acc, StableM R (evalPieces (fuel + 1) ps env acc) := by
  intro ps env acc; unfold evalPieces; stable_tac hR ih
theorem st_runDefers : ∀ ds env, StableM R (runDefers (fuel + 1) ds env) := by
  intro ds env; unfold runDefers; stable_tac hR ih
theorem st_evalStmt : ∀ st env, StableM R (evalStmt (fuel + 1) st env) := by
  intro st env; unfold evalStmt; stable_tac hR ih
theorem st_evalE : ∀ e env, StableM R (evalE (fuel + 1) e env) := by
  intro e env
  cases e with
  | ifE c t els => cases els <;> (rw [evalE]; stable_tac hR ih)
  | func c => cases c; rw [evalE]; stable_tac hR ih
  | iter c => cases c; rw [evalE]; stable_tac hR ih
  | _ => (rw [evalE]; stable_tac hR ih)
theorem st_callProp : ∀ r n args kw env, StableM R (callProp (fuel + 1) r n args kw env) := by
  intro r n args kw env; unfold callProp; stable_tac hR ih
theorem st_callPropQuiet : ∀ r n args env, StableM R (callPropQuiet (fuel + 1) r n args env) := by
  intro r n args env; unfold callPropQuiet; stable_tac hR ih
theorem st_builtinCall : ∀ n r args kw env, StableM R (builtinCall (fuel + 1) n r args kw env) := by
  intro n r args kw env; unfold builtinCall; stable_tac hR ih
theorem st_srcOf : ∀ v, StableM R (srcOf (fuel + 1) v) := by
  intro v; unfold srcOf; stable_tac hR ih
theorem st_litCallOne : ∀ f r env, StableM R (litCallOne (fuel + 1) f r env) := by
  intro f r env; unfold litCallOne; stable_tac hR ih
theorem st_propChain : ∀ m a r ca n args kw env, StableM R (propChain (fuel + 1) m a r ca n args kw env) := by
  intro m a r ca n args kw env; unfold propChain; stable_tac hR ih
theorem st_propListLoop : ∀ a src n args kw env acc, StableM R (propListLoop (fuel + 1) a src n args kw env acc) := by
  intro a src n args kw env acc; unfold propListLoop; stable_tac hR ih
theorem st_propReduceLoop : ∀ a src acc n args kw env, StableM R (propReduceLoop (fuel + 1) a src acc n args kw env) := by
  intro a src acc n args kw env; unfold propReduceLoop; stable_tac hR ih
theorem st_litChain : ∀ m a r ca f env, StableM R (litChain (fuel + 1) m a r ca f env) := by
  intro m a r ca f env; unfold litChain; stable_tac hR ih
theorem st_litListLoop : ∀ a src f env acc, StableM R (litListLoop (fuel + 1) a src f env acc) := by
  intro a src f env acc; unfold litListLoop; stable_tac hR ih
theorem st_callVal : ∀ f args kw, StableM R (callVal (fuel + 1) f args kw) := by
  intro f args kw; unfold callVal; stable_tac hR ih
theorem st_iterNext : ∀ id, StableM R (iterNext (fuel + 1) id) := by
  intro id; unfold iterNext; stable_tac hR ih

theorem st_evalStmts : ∀ ss env, StableM R (evalStmts (fuel + 1) ss env) := by
  intro ss env s
  rw [evalStmts]
  have h1 := ih.stmtLoop ss env .nil none [] s
  dsimp only
  generalize stmtLoop fuel ss env .nil none [] s = res at h1 ⊢
  obtain ⟨r, s'⟩ := res
  cases r with
  | ok p =>
    obtain ⟨v, defers⟩ := p
    exact hR.trans h1 (StableM.bind hR (ih.runDefers defers env) (fun _ => StableM.pure hR _) s')
  | err k msg => exact h1
  | fuel => exact h1
  | unsup w => exact h1

theorem st_stmtLoop : ∀ ss env v y d, StableM R (stmtLoop (fuel + 1) ss env v y d) := by
  intro ss env v y d s
  cases ss with
  | nil => rw [stmtLoop]; exact StableM.pure hR _ s
  | cons st rest =>
    rw [stmtLoop]
    have h1 := ih.evalStmt st env s
    dsimp only
    generalize evalStmt fuel st env s = res at h1 ⊢
    obtain ⟨r, s'⟩ := res
    cases r with
    | ok sig =>
      cases sig with
      | val v' => exact hR.trans h1 (ih.stmtLoop rest env v' y d s')
      | ret v' => exact h1
      | yld v' => exact hR.trans h1 (ih.stmtLoop rest env v' _ d s')
      | dfr e => exact hR.trans h1 (ih.stmtLoop rest env .nil y _ s')
    | err k msg =>
      have h2 := ih.runDefers d env s'
      dsimp only
      generalize runDefers fuel d env s' = res2 at h2 ⊢
      obtain ⟨r2, s''⟩ := res2
      cases r2 <;> exact hR.trans h1 h2
    | fuel => exact h1
    | unsup w => exact h1

theorem st_propAdd : ∀ a r n args kw env, StableM R (propAdd (fuel + 1) a r n args kw env) := by
  intro a r n args kw env
  cases a with
  | thoughtful =>
    intro s
    rw [propAdd]
    have h1 := ih.callProp r n args kw env s
    dsimp only
    generalize callProp fuel r n args kw env s = res0 at h1 ⊢
    obtain ⟨res, s'⟩ := res0
    cases res with
    | ok v => cases v <;> exact h1
    | _ => exact h1
  | lonely => unfold propAdd; stable_tac hR ih
  | vanilla => unfold propAdd; stable_tac hR ih
  | strict => unfold propAdd; stable_tac hR ih

theorem st_litAdd : ∀ a f r env, StableM R (litAdd (fuel + 1) a f r env) := by
  intro a f r env
  cases a with
  | thoughtful =>
    intro s
    rw [litAdd]
    have h1 := ih.litCallOne f r env s
    dsimp only
    generalize litCallOne fuel f r env s = res0 at h1 ⊢
    obtain ⟨res, s'⟩ := res0
    cases res with
    | ok v => cases v <;> exact h1
    | _ => exact h1
  | lonely => unfold litAdd; stable_tac hR ih
  | vanilla => unfold litAdd; stable_tac hR ih
  | strict => unfold litAdd; stable_tac hR ih

theorem st_nextElem : ∀ src, StableM R (nextElem (fuel + 1) src) := by
  intro src
  cases src with
  | elems xs => cases xs <;> (rw [nextElem]; exact StableM.pure hR _)
  | stdin => rw [nextElem]; stable_tac hR ih
  | iter id =>
    intro s
    rw [nextElem]
    have h1 := ih.iterNext id s
    dsimp only
    generalize iterNext fuel id s = res0 at h1 ⊢
    obtain ⟨res, s'⟩ := res0
    cases res with
    | err k msg => dsimp only; split <;> exact h1
    | _ => exact h1

theorem st_litReduceLoop : ∀ a src acc f env, StableM R (litReduceLoop (fuel + 1) a src acc f env) := by
  intro a src acc f env
  rw [litReduceLoop]
  refine StableM.bind hR (ih.nextElem src) (fun nx => ?_)
  cases nx with
  | none => exact StableM.pure hR _
  | some p =>
    obtain ⟨e, src'⟩ := p
    cases a with
    | thoughtful =>
      intro s
      have h1 := ih.litCallOne f (.arr [acc, e]) env s
      dsimp only
      generalize litCallOne fuel f (.arr [acc, e]) env s = res0 at h1 ⊢
      obtain ⟨res, s'⟩ := res0
      cases res with
      | ok v => cases v <;> exact hR.trans h1 (ih.litReduceLoop _ _ _ _ _ s')
      | err k msg => exact hR.trans h1 (ih.litReduceLoop _ _ _ _ _ s')
      | fuel => exact h1
      | unsup w => exact h1
    | lonely => simp only; stable_tac hR ih
    | vanilla => simp only; stable_tac hR ih
    | strict => simp only; stable_tac hR ih

theorem allStable_succ : AllStable R (fuel + 1) where
  evalE := st_evalE hR ih
  evalOpt := st_evalOpt hR ih
  evalRecv := st_evalRecv hR ih
  evalElems := st_evalElems hR ih
  evalArgs := st_evalArgs hR ih
  evalKws := st_evalKws hR ih
  evalPairs := st_evalPairs hR ih
  evalEmbedded := st_evalEmbedded hR ih
  evalPieces := st_evalPieces hR ih
  evalStmts := st_evalStmts hR ih
  stmtLoop := st_stmtLoop hR ih
  runDefers := st_runDefers hR ih
  evalStmt := st_evalStmt hR ih
  callVal := st_callVal hR ih
  callProp := st_callProp hR ih
  callPropQuiet := st_callPropQuiet hR ih
  builtinCall := st_builtinCall hR ih
  iterNext := st_iterNext hR ih
  propAdd := st_propAdd hR ih
  srcOf := st_srcOf hR ih
  nextElem := st_nextElem hR ih
  propChain := st_propChain hR ih
  propListLoop := st_propListLoop hR ih
  propReduceLoop := st_propReduceLoop hR ih
  litCallOne := st_litCallOne hR ih
  litAdd := st_litAdd hR ih
  litChain := st_litChain hR ih
  litListLoop := st_litListLoop hR ih
  litReduceLoop := st_litReduceLoop hR ih
end

/-- **Invariance principle.** A preorder on states respected by the state primitives is respected by the whole evaluator. -/
theorem allStable {R : St → St → Prop} (hR : PrimStable R) : ∀ fuel, AllStable R fuel
  | 0 => allStable_zero hR
  | n + 1 => allStable_succ hR (allStable hR n)

end Pangaea.Core
