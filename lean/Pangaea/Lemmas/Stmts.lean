/- Helper lemmas for C15. -/
import Pangaea.Eval.Stmts
namespace Pangaea.StmtsLemmas
open Pangaea.Stmts

variable {S σ V D : Type}

/-- value of a fallen-off body given the loop's current `val`/`yielded` -/
def accValue (nil val : V) (yielded : Option V) (rs : List (SVal V D × σ)) : V :=
  match yielded with
  | some y => y
  | none =>
    match rs.findSome? yieldOf with
    | some y => y
    | none => lastVal nil val rs

def specFrom (ev : S → σ → SVal V D × σ) (nil : V) (stmts : List S) (s : σ) (val : V) (yielded : Option V)
    (ds : List D) : Out V × List D × σ :=
  let rs := scan ev stmts s
  match exitOf rs with
  | some (x, s') => (exitOut nil x, ds ++ reachedDefers rs, s')
  | none => (.val (accValue nil val yielded rs), ds ++ reachedDefers rs, ((rs.getLast?.map (·.2)).getD s))

theorem lastVal_cons (nil init : V) (r : SVal V D × σ) (rs : List (SVal V D × σ)) :
    lastVal nil init (r :: rs) = lastVal nil (lastVal nil init [r]) rs := by
  cases rs with
  | nil => simp [lastVal]
  | cons r' rs' =>
    simp only [lastVal, List.getLast?_cons_cons]
    cases h : (r' :: rs').getLast? with
    | none => simp at h
    | some x => rcases x with ⟨x, sx⟩; cases x <;> rfl

theorem getLast_state_cons (s : σ) (r : SVal V D × σ) (rs : List (SVal V D × σ)) :
    (((r :: rs).getLast?.map (·.2)).getD s) = ((rs.getLast?.map (·.2)).getD r.2) := by
  cases rs with
  | nil => simp
  | cons r' rs' =>
    simp only [List.getLast?_cons_cons]
    cases h : (r' :: rs').getLast? with
    | none => simp at h
    | some x => rfl

theorem evalLoop_spec (ev : S → σ → SVal V D × σ) (nil : V) (stmts : List S) :
    ∀ (s : σ) (val : V) (yielded : Option V) (ds : List D),
      evalLoop ev nil stmts s val yielded ds = specFrom ev nil stmts s val yielded ds := by
  induction stmts with
  | nil =>
    intro s val yielded ds
    cases yielded <;> simp [evalLoop, specFrom, scan, exitOf, reachedDefers, completed, accValue, lastVal]
  | cons st rest ih =>
    intro s val yielded ds
    have hs : scan ev (st :: rest) s = ev st s :: scan ev rest (ev st s).2 := rfl
    unfold evalLoop specFrom
    rw [hs]
    rcases h : ev st s with ⟨x, s'⟩
    cases x with
    | err e => simp [exitOf, isExit, exitOut, reachedDefers, completed]
    | ret v => simp [exitOf, isExit, exitOut, reachedDefers, completed]
    | yldErr e => simp [exitOf, isExit, exitOut, reachedDefers, completed]
    | dfr d =>
      simp only [ih, specFrom]
      have h1 : exitOf ((SVal.dfr d, s') :: scan ev rest s') = exitOf (scan ev rest s') := by
        simp [exitOf, isExit]
      have h2 : reachedDefers ((SVal.dfr d, s') :: scan ev rest s') = d :: reachedDefers (scan ev rest s') := by
        have hd : deferOf ((SVal.dfr d, s') : SVal V D × σ) = some d := rfl
        simp [reachedDefers, completed, isExit, List.filterMap_cons, hd]
      rw [h1, h2, getLast_state_cons]
      cases hx : exitOf (scan ev rest s') with
      | some p => simp [List.append_assoc]
      | none =>
        simp only [List.append_assoc, List.singleton_append]
        congr 2
        cases yielded with
        | some y => simp [accValue]
        | none =>
          simp only [accValue, List.findSome?_cons, yieldOf]
          cases hy : List.findSome? yieldOf (scan ev rest s') with
          | some y => rfl
          | none => simp only []; rw [lastVal_cons]; simp [lastVal]
    | yld y =>
      simp only [ih, specFrom]
      have h1 : exitOf ((SVal.yld y, s') :: scan ev rest s') = exitOf (scan ev rest s') := by
        simp [exitOf, isExit]
      have h2 : reachedDefers ((SVal.yld y, s') :: scan ev rest s') = reachedDefers (scan ev rest s') := by
        have hd : deferOf ((SVal.yld y, s') : SVal V D × σ) = none := rfl
        simp [reachedDefers, completed, isExit, List.filterMap_cons, hd]
      rw [h1, h2, getLast_state_cons]
      cases hx : exitOf (scan ev rest s') with
      | some p => rfl
      | none =>
        congr 2
        cases yielded with
        | some y0 => simp [accValue]
        | none => simp [accValue, List.findSome?_cons, yieldOf]
    | val v =>
      simp only [ih, specFrom]
      have h1 : exitOf ((SVal.val v, s') :: scan ev rest s') = exitOf (scan ev rest s') := by
        simp [exitOf, isExit]
      have h2 : reachedDefers ((SVal.val v, s') :: scan ev rest s') = reachedDefers (scan ev rest s') := by
        have hd : deferOf ((SVal.val v, s') : SVal V D × σ) = none := rfl
        simp [reachedDefers, completed, isExit, List.filterMap_cons, hd]
      rw [h1, h2, getLast_state_cons]
      cases hx : exitOf (scan ev rest s') with
      | some p => rfl
      | none =>
        congr 2
        cases yielded with
        | some y0 => simp [accValue]
        | none =>
          simp only [accValue, List.findSome?_cons, yieldOf]
          cases hy : List.findSome? yieldOf (scan ev rest s') with
          | some y => rfl
          | none => simp only []; rw [lastVal_cons]; simp [lastVal]

end Pangaea.StmtsLemmas
