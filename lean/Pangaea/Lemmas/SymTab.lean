/- Helper lemmas for C20: the lock-set invariant is preserved by every step of every thread. -/
import Pangaea.Object.SymTab
namespace Pangaea.SymTabLemmas
open Pangaea.SymTab

def nR (ts : List Thread) : Nat := ts.countP (·.hr)
def nW (ts : List Thread) : Nat := ts.countP (·.hw)

structure Inv (s : Sys) : Prop where
  readers_eq : s.readers = nR s.threads
  writer_eq : (s.writer = true ↔ nW s.threads = 1)
  w_le : nW s.threads ≤ 1
  excl : s.writer = true → s.readers = 0
  prog : ∀ t ∈ s.threads, guarded t.hr t.hw t.todo = true

theorem countP_set (p : Thread → Bool) (ts : List Thread) (i : Nat) (t t' : Thread)
    (h : ts[i]? = some t) :
    (ts.set i t').countP p + (if p t then 1 else 0) = ts.countP p + (if p t' then 1 else 0) := by
  induction ts generalizing i with
  | nil => simp at h
  | cons x xs ih =>
    cases i with
    | zero =>
      simp at h; subst h
      simp only [List.set_cons_zero, List.countP_cons]
      omega
    | succ j =>
      simp at h
      have := ih j h
      simp only [List.set_cons_succ, List.countP_cons]
      omega

theorem mem_set {ts : List Thread} {i : Nat} {t' u : Thread} (h : u ∈ ts.set i t') :
    u = t' ∨ u ∈ ts := by
  induction ts generalizing i with
  | nil => simp at h
  | cons x xs ih =>
    cases i with
    | zero => simp at h; rcases h with h | h <;> simp [h]
    | succ j =>
      simp at h; rcases h with h | h
      · simp [h]
      · rcases ih h with h | h <;> simp [h]

theorem prog_set {s : Sys} (hinv : Inv s) {i : Nat} {t' : Thread}
    (ht' : guarded t'.hr t'.hw t'.todo = true) :
    ∀ u ∈ s.threads.set i t', guarded u.hr u.hw u.todo = true := by
  intro u hu
  rcases mem_set hu with rfl | hu
  · exact ht'
  · exact hinv.prog u hu

theorem inv_step {s s' : Sys} (hinv : Inv s) (hst : Step s s') : Inv s' := by
  cases hst with
  | mk i t t' r' w' hi hs =>
    have hmem : t ∈ s.threads := List.mem_of_getElem? hi
    have hg := hinv.prog t hmem
    have hre := hinv.readers_eq
    have hwe := hinv.writer_eq
    have hwl := hinv.w_le
    have hex := hinv.excl
    simp only [nR, nW] at hre hwe hwl
    obtain ⟨todo, thr, thw⟩ := t
    simp only at hg
    cases todo with
    | nil => simp [stepThread] at hs
    | cons a as =>
      cases a with
      | rlock =>
        simp only [stepThread] at hs
        split at hs
        · simp at hs
        · rename_i hw0
          simp at hs; obtain ⟨rfl, rfl, rfl⟩ := hs
          simp only [guarded, Bool.and_eq_true, Bool.not_eq_true'] at hg
          obtain ⟨⟨rfl, rfl⟩, hg'⟩ := hg
          have cR := countP_set (·.hr) s.threads i _ { todo := as, hr := true, hw := false } hi
          have cW := countP_set (·.hw) s.threads i _ { todo := as, hr := true, hw := false } hi
          simp at cR cW
          refine ⟨by simp only [nR]; omega, by simp only [nW]; rw [cW]; exact hwe,
            by simp only [nW]; omega, by intro h; simp only at h; simp [h] at hw0, ?_⟩
          exact prog_set hinv hg'
      | runlock =>
        simp only [stepThread] at hs
        simp at hs; obtain ⟨rfl, rfl, rfl⟩ := hs
        simp only [guarded, Bool.and_eq_true] at hg
        obtain ⟨rfl, hg'⟩ := hg
        have cR := countP_set (·.hr) s.threads i _ { todo := as, hr := false, hw := thw } hi
        have cW := countP_set (·.hw) s.threads i _ { todo := as, hr := false, hw := thw } hi
        simp at cR cW
        refine ⟨by simp only [nR]; omega, by simp only [nW]; rw [cW]; exact hwe,
          by simp only [nW]; omega, ?_, ?_⟩
        · intro h; have := hex h; omega
        · exact prog_set hinv hg'
      | lock =>
        simp only [stepThread] at hs
        split at hs
        · simp at hs
        · rename_i hc
          simp at hs; obtain ⟨rfl, rfl, rfl⟩ := hs
          simp only [Bool.or_eq_true, bne_iff_ne, ne_eq, not_or, Bool.not_eq_true, Decidable.not_not] at hc
          obtain ⟨hw0, hr0⟩ := hc
          simp only [guarded, Bool.and_eq_true, Bool.not_eq_true'] at hg
          obtain ⟨⟨rfl, rfl⟩, hg'⟩ := hg
          have cR := countP_set (·.hr) s.threads i _ { todo := as, hr := false, hw := true } hi
          have cW := countP_set (·.hw) s.threads i _ { todo := as, hr := false, hw := true } hi
          simp at cR cW
          have hnW : List.countP (fun x => x.hw) s.threads = 0 := by
            rcases Nat.lt_or_ge 0 (List.countP (fun x => x.hw) s.threads) with h | h
            · have h1 : List.countP (fun x => x.hw) s.threads = 1 := by omega
              have := hwe.mpr h1; simp [hw0] at this
            · omega
          refine ⟨by simp only [nR]; omega, ?_, by simp only [nW]; omega, by intro _; exact hr0, ?_⟩
          · simp only [nW]; constructor
            · intro _; omega
            · intro _; trivial
          · exact prog_set hinv hg'
      | unlock =>
        simp only [stepThread] at hs
        simp at hs; obtain ⟨rfl, rfl, rfl⟩ := hs
        simp only [guarded, Bool.and_eq_true] at hg
        obtain ⟨rfl, hg'⟩ := hg
        have cR := countP_set (·.hr) s.threads i _ { todo := as, hr := thr, hw := false } hi
        have cW := countP_set (·.hw) s.threads i _ { todo := as, hr := thr, hw := false } hi
        simp at cR cW
        refine ⟨by simp only [nR]; omega, ?_, by simp only [nW]; omega, by intro h; simp at h, ?_⟩
        · simp only [nW]; constructor
          · intro h; simp at h
          · intro h; omega
        · exact prog_set hinv hg'
      | read tb =>
        simp only [stepThread] at hs
        simp at hs; obtain ⟨rfl, rfl, rfl⟩ := hs
        simp only [guarded, Bool.and_eq_true] at hg
        have cR := countP_set (·.hr) s.threads i _ { todo := as, hr := thr, hw := thw } hi
        have cW := countP_set (·.hw) s.threads i _ { todo := as, hr := thr, hw := thw } hi
        simp at cR cW
        refine ⟨by simp only [nR]; omega, by simp only [nW]; rw [cW]; exact hwe,
          by simp only [nW]; omega, hex, ?_⟩
        exact prog_set hinv hg.2
      | write tb =>
        simp only [stepThread] at hs
        simp at hs; obtain ⟨rfl, rfl, rfl⟩ := hs
        simp only [guarded, Bool.and_eq_true] at hg
        have cR := countP_set (·.hr) s.threads i _ { todo := as, hr := thr, hw := thw } hi
        have cW := countP_set (·.hw) s.threads i _ { todo := as, hr := thr, hw := thw } hi
        simp at cR cW
        refine ⟨by simp only [nR]; omega, by simp only [nW]; rw [cW]; exact hwe,
          by simp only [nW]; omega, hex, ?_⟩
        exact prog_set hinv hg.2

theorem inv_reach {s0 s : Sys} (h0 : Inv s0) (hr : Reach s0 s) : Inv s := by
  induction hr with
  | refl => exact h0
  | step _ hst ih => exact inv_step ih hst

theorem countP_two {p : Thread → Bool} {ts : List Thread} {i j : Nat} {ti tj : Thread}
    (hij : i ≠ j) (hi : ts[i]? = some ti) (hj : ts[j]? = some tj) (pi : p ti = true) (pj : p tj = true) :
    2 ≤ ts.countP p := by
  induction ts generalizing i j with
  | nil => simp at hi
  | cons x xs ih =>
    cases i with
    | zero =>
      cases j with
      | zero => exact absurd rfl hij
      | succ j' =>
        simp at hi hj; subst hi
        have : 1 ≤ xs.countP p := List.countP_pos_iff.mpr ⟨tj, List.mem_of_getElem? hj, pj⟩
        rw [List.countP_cons]; simp only [pi, if_true]; omega
    | succ i' =>
      cases j with
      | zero =>
        simp at hi hj; subst hj
        have : 1 ≤ xs.countP p := List.countP_pos_iff.mpr ⟨ti, List.mem_of_getElem? hi, pi⟩
        rw [List.countP_cons]; simp only [pj, if_true]; omega
      | succ j' =>
        simp at hi hj
        have := ih (by omega) hi hj
        rw [List.countP_cons]; omega

theorem no_race {s : Sys} (hinv : Inv s) : ¬ Race s := by
  rintro ⟨i, j, ti, tj, tb, as, bs, hij, hi, hj, hti, htj⟩
  have gi := hinv.prog ti (List.mem_of_getElem? hi)
  have gj := hinv.prog tj (List.mem_of_getElem? hj)
  rw [hti] at gi
  simp only [guarded, Bool.and_eq_true] at gi
  have hwi : ti.hw = true := gi.1
  have hW1 : nW s.threads = 1 := by
    have : 1 ≤ nW s.threads := List.countP_pos_iff.mpr ⟨ti, List.mem_of_getElem? hi, hwi⟩
    have := hinv.w_le; omega
  have hwr : s.writer = true := hinv.writer_eq.mpr hW1
  have hr0 : nR s.threads = 0 := by rw [← hinv.readers_eq]; exact hinv.excl hwr
  rcases htj with htj | htj <;> rw [htj] at gj <;> simp only [guarded, Bool.and_eq_true, Bool.or_eq_true] at gj
  · have := countP_two (p := (·.hw)) hij hi hj hwi gj.1
    simp only [nW] at hW1; omega
  · rcases gj.1 with h | h
    · have : 1 ≤ nR s.threads := List.countP_pos_iff.mpr ⟨tj, List.mem_of_getElem? hj, h⟩
      omega
    · have := countP_two (p := (·.hw)) hij hi hj hwi h
      simp only [nW] at hW1; omega

/-- Main theorem: any number of threads, any guarded programs, any interleaving: no race. -/
theorem race_free (progs : List (List Act)) (hg : ∀ p ∈ progs, guarded false false p = true)
    (s : Sys) (hr : Reach (initSys progs) s) : ¬ Race s := by
  unfold initSys at hr
  apply no_race
  apply inv_reach _ hr
  constructor
  · simp [nR, List.countP_map, Function.comp_def]
  · simp [nW, List.countP_map, Function.comp_def]
  · simp [nW, List.countP_map, Function.comp_def]
  · simp
  · intro t ht
    simp only [List.mem_map] at ht
    obtain ⟨p, hp, rfl⟩ := ht
    exact hg p hp


theorem guardedEnd_guarded : ∀ (p : List Act) (hr hw : Bool) (e : Bool × Bool),
    guardedEnd hr hw p = some e → guarded hr hw p = true
  | [], _, _, _, _ => rfl
  | a :: as, hr, hw, e, h => by
    cases a <;> cases hr <;> cases hw <;> simp [guardedEnd] at h <;> simp [guarded] <;>
      exact guardedEnd_guarded as _ _ e h

theorem guardedEnd_append : ∀ (p q : List Act) (hr hw : Bool) (e : Bool × Bool),
    guardedEnd hr hw p = some e → guardedEnd hr hw (p ++ q) = guardedEnd e.1 e.2 q
  | [], q, hr, hw, e, h => by simp only [guardedEnd] at h; cases h; rfl
  | a :: as, q, hr, hw, e, h => by
    cases a <;> cases hr <;> cases hw <;> simp [guardedEnd] at h <;> simp [guardedEnd] <;>
      exact guardedEnd_append as q _ _ e h

/-- a sequence of calls of balanced functions is balanced -/
theorem balanced_flatten (calls : List (List Act)) (h : ∀ f ∈ calls, balanced f = true) :
    balanced calls.flatten = true := by
  induction calls with
  | nil => rfl
  | cons f fs ih =>
    have hf : guardedEnd false false f = some (false, false) := by
      have := h f (List.mem_cons_self ..); simpa [balanced] using this
    have hfs := ih (fun g hg => h g (List.mem_cons_of_mem _ hg))
    simp only [balanced, List.flatten_cons] at hfs ⊢
    rw [guardedEnd_append f fs.flatten false false (false, false) hf]
    exact hfs

end Pangaea.SymTabLemmas
