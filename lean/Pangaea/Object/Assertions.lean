/- The reviewed single-value type assertions (`x.(T)` without comma-ok, outside type switches) of object/, props/,
   evaluator/, di/, runscript/, parser/ (C01): each one panics when the dynamic type differs, so each is listed with
   the invariant it rests on. The list regenerated from the sources must equal this one (Theorems/C01.lean);
   a new or changed site has to be reviewed and added here. Sorted as the extractor sorts. -/
namespace Pangaea.Assertions

def callProp : String := "Obj_callProp is injected into propContainer at start-up as a *PanBuiltIn (di/container.go) before any props map is built"

def reviewed : List (String × String) := [
  ("di/import.go:readSourceFile: p.(*object.PanStr)", "guarded by `p.Type() != object.StrType` returning a TypeErr just above"),
  ("evaluator/eval_funccall.go:assignArgsToEnv: kwargPair.Key.(*object.PanStr)", "INVARIANT: every key of an obj's pair map is a *PanStr (evalObj / Arr#O / JSON trace keys with TraceProtoOfStr); the sweep's ** consumers exercise it"),
  ("evaluator/eval_program.go:_evalStmts: val.(*object.YieldObj)", "guarded by `val.Type() == object.YieldType`; only YieldObj has that type"),
  ("evaluator/index.go:strRange: elem.(*object.PanStr)", "INVARIANT: valRange returns only elements produced by strIndex, and only for in-range indices (C11 / C01 index theorems)"),
  ("evaluator/index.go:strRange: runeArr.(*object.PanArr)", "valRange returns *PanArr or *PanErr; the error case returns just above"),
  ("props/arr_props.go:ArrProps: propContainer[\"Obj_callProp\"].(*object.PanBuiltIn)", callProp),
  ("props/arr_props.go:compArrs: propContainer[\"Obj_callProp\"].(*object.PanBuiltIn)", callProp),
  ("props/baseobj_props.go:compObjs: propContainer[\"Obj_callProp\"].(*object.PanBuiltIn)", callProp),
  ("props/diamond_props.go:DiamondProps: propContainer[\"Obj_callProp\"].(*object.PanBuiltIn)", callProp),
  ("props/either_val_props.go:EitherValProps: propContainer[\"Obj_callProp\"].(*object.PanBuiltIn)", callProp),
  ("props/err_props.go:constructErr: propContainer[\"Obj_callProp\"].(*object.PanBuiltIn)", callProp),
  ("props/iter_props.go:IterProps: args[0].(*object.PanFunc)", "guarded by `args[0].Type() == object.FuncType`; only PanFunc has that type"),
  ("props/iter_props.go:IterProps: args[1].(*object.PanFunc)", "guarded by `args[1].Type() == object.FuncType`"),
  ("props/kernel_props.go:KernelProps: propContainer[\"Obj_callProp\"].(*object.PanBuiltIn)", callProp),
  ("props/map_props.go:compMaps: propContainer[\"Obj_callProp\"].(*object.PanBuiltIn)", callProp),
  ("props/map_props.go:containsKey: propContainer[\"Obj_callProp\"].(*object.PanBuiltIn)", callProp),
  ("props/nil_props.go:NilProps: propContainer[\"Obj_callProp\"].(*object.PanBuiltIn)", callProp),
  ("props/obj_props.go:ObjProps: propContainer[\"Obj_callProp\"].(*object.PanBuiltIn)", callProp),
  ("props/range_props.go:RangeProps: propContainer[\"Obj_callProp\"].(*object.PanBuiltIn)", callProp),
  ("props/range_props.go:compRanges: propContainer[\"Obj_callProp\"].(*object.PanBuiltIn)", callProp),
  ("props/str_props.go:StrProps: propContainer[\"Obj_callProp\"].(*object.PanBuiltIn)", callProp)
]

end Pangaea.Assertions
