/- Model of object and map literals (C09): evaluator/eval_obj.go (evalObj), evaluator/eval_map.go
   (evalMap, extractEmbeddedElems, existsNonHashableKey), object/map.go (NewInheritedMap),
   evaluator/index.go (findElemInMap), object/obj.go (keyHashes). Generic in key/value types. -/
namespace Pangaea.Dict

section
variable {K V : Type}

/-! ### specification: one ordered dictionary with first-wins insertion under a key equivalence -/

def hasKey (eqv : K → K → Bool) (d : List (K × V)) (k : K) : Bool := d.any (fun q => eqv k q.1)

def insertFirst (eqv : K → K → Bool) (d : List (K × V)) (p : K × V) : List (K × V) :=
  if hasKey eqv d p.1 then d else d ++ [p]

/-- keep the first pair of every class of equivalent keys, in order of first occurrence -/
def dedupFirst (eqv : K → K → Bool) (ps : List (K × V)) : List (K × V) := ps.foldl (insertFirst eqv) []

def lookupFirst (eqv : K → K → Bool) (d : List (K × V)) (k : K) : Option V :=
  (d.find? (fun q => eqv k q.1)).map (·.2)

/-! ### the Go structure: hashable keys in a map with an order slice, the others in a scanned slice -/

structure PanMap (K V : Type) where
  scalars : List (K × V)      -- HashKeys order + Pairs
  others : List (K × V)       -- NonHashablePairs
  deriving Repr

/-- `evalMap` + `NewInheritedMap` over the literal's pairs followed by the unpacked pairs:
    a scalar key is stored if its hash is new, another key if no stored key is `==` to it -/
def buildMap (eqv : K → K → Bool) (isScalar : K → Bool) (ps : List (K × V)) : PanMap K V :=
  ps.foldl (fun m p =>
    if isScalar p.1 then
      (if hasKey eqv m.scalars p.1 then m else { m with scalars := m.scalars ++ [p] })
    else
      (if hasKey eqv m.others p.1 then m else { m with others := m.others ++ [p] }))
    { scalars := [], others := [] }

/-- iteration order (`Map#_iter`, `keys`, `values`, `items`): scalar keys, then the others -/
def PanMap.iter (m : PanMap K V) : List (K × V) := m.scalars ++ m.others

/-- `findElemInMap` on the stored pairs (property fallback for absent scalar keys is separate) -/
def PanMap.get (eqv : K → K → Bool) (isScalar : K → Bool) (m : PanMap K V) (k : K) : Option V :=
  if isScalar k then lookupFirst eqv m.scalars k else lookupFirst eqv m.others k

end

/-! ### objects: names are strings -/

/-- `evalObj`: pairs of the literal, then the pairs of every `**` operand; first occurrence wins -/
def buildObj {V : Type} (pairs : List (String × V)) (embedded : List (List (String × V))) : List (String × V) :=
  dedupFirst (fun a b => a == b) (pairs ++ embedded.flatten)

def isPublicName (n : String) : Bool :=
  match n.toList with
  | c :: _ => c.isAlpha
  | [] => false

def insertName (n : String) : List String → List String
  | [] => [n]
  | m :: ms => if n ≤ m then n :: m :: ms else m :: insertName n ms
def sortNames : List String → List String
  | [] => []
  | n :: ns => insertName n (sortNames ns)

/-- `keyHashes`: (sorted public names, sorted private names) -/
def objKeys {V : Type} (o : List (String × V)) (withPrivate : Bool) : List String :=
  let names := o.map (·.1)
  sortNames (names.filter isPublicName) ++ (if withPrivate then sortNames (names.filter (fun n => !isPublicName n)) else [])

def objValues {V : Type} (o : List (String × V)) (withPrivate : Bool) : List (Option V) :=
  (objKeys o withPrivate).map (fun n => o.lookup n)

def objItems {V : Type} (o : List (String × V)) (withPrivate : Bool) : List (String × Option V) :=
  (objKeys o withPrivate).map (fun n => (n, o.lookup n))

end Pangaea.Dict
