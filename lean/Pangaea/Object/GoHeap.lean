/- Go slices over a heap of backing arrays (C06): `append` writes in place when capacity allows.
   Array-producing operations of props/arr_props.go, evaluator/eval_arr.go, evaluator/index.go are
   modelled by how they build their result; the runtime's growth policy is an arbitrary function. -/
namespace Pangaea.GoHeap

abbrev Val := Int

structure Slice where
  arr : Nat
  len : Nat
  cap : Nat
deriving Repr, DecidableEq

/-- backing arrays; an array's length is its capacity -/
abbrev Heap := List (List Val)

def view (h : Heap) (s : Slice) : List Val := (h.getD s.arr []).take s.len

/-- overwrite `xs` into `a` starting at position `i` (positions exist: `i + xs.length ≤ a.length`) -/
def writeAt (a : List Val) (i : Nat) (xs : List Val) : List Val :=
  a.take i ++ xs ++ a.drop (i + xs.length)

/-- Go's append; `grow need` ≥ need is the runtime's capacity choice (arbitrary) -/
def goAppend (grow : Nat → Nat) (h : Heap) (s : Slice) (xs : List Val) : Heap × Slice :=
  if s.len + xs.length ≤ s.cap then
    (h.set s.arr (writeAt (h.getD s.arr []) s.len xs), { s with len := s.len + xs.length })
  else
    let need := s.len + xs.length
    let c := max (grow need) need
    (h ++ [view h s ++ xs ++ List.replicate (c - need) 0], { arr := h.length, len := need, cap := c })

/-- `elems := append(self.Elems, other.Elems...)` — props/arr_props.go as written -/
def plusAsWritten (grow : Nat → Nat) (h : Heap) (a b : Slice) : Heap × Slice := goAppend grow h a (view h b)

/-- repaired: copy into a fresh slice first -/
def plusFresh (grow : Nat → Nat) (h : Heap) (a b : Slice) : Heap × Slice :=
  goAppend grow h { arr := h.length, len := 0, cap := 0 } (view h a ++ view h b)

/-- a slice is well-formed in a heap -/
def WF (h : Heap) (s : Slice) : Prop := s.arr < h.length


/-- interpreter state: backing arrays and the slices published as Pangaea array values -/
structure St where
  heap : Heap
  pub : List Slice
  deriving Repr

/-- array-producing operations -/
inductive Op where
  | lit (xs : List Val)            -- `[x, y, …]`: elements appended to a fresh local slice, then published
  | plus (a b : Nat)               -- `Arr#+` on published values a, b (after the repair: fresh slice)
  | plusInPlace (a b : Nat)        -- `Arr#+` as it was written: `append(self.Elems, other.Elems...)`
  | slice (a : Nat) (k : Nat)      -- `a[:k]`-style results: elements collected into a fresh slice
  deriving Repr

def emptySlice (h : Heap) : Slice := { arr := h.length, len := 0, cap := 0 }

def step (grow : Nat → Nat) (s : St) : Op → St
  | .lit xs =>
    let r := goAppend grow s.heap (emptySlice s.heap) xs
    { heap := r.1, pub := s.pub ++ [r.2] }
  | .plus a b =>
    let r := plusFresh grow s.heap (s.pub.getD a (emptySlice s.heap)) (s.pub.getD b (emptySlice s.heap))
    { heap := r.1, pub := s.pub ++ [r.2] }
  | .plusInPlace a b =>
    let r := plusAsWritten grow s.heap (s.pub.getD a (emptySlice s.heap)) (s.pub.getD b (emptySlice s.heap))
    { heap := r.1, pub := s.pub ++ [r.2] }
  | .slice a k =>
    let r := goAppend grow s.heap (emptySlice s.heap) ((view s.heap (s.pub.getD a (emptySlice s.heap))).take k)
    { heap := r.1, pub := s.pub ++ [r.2] }

/-- operations of the repaired code base -/
def Op.safe : Op → Bool
  | .plusInPlace _ _ => false
  | _ => true

end Pangaea.GoHeap
