/- Model of property resolution (C05): object/findprop.go (FindPropAlongProtos, FindPropOwner),
   evaluator/eval_propcall.go (evalProp, evalCall), evaluator/index.go (findElemInObj),
   props/baseobj_props.go (bear, proto), native/Obj.pangaea (ancestors, bro, kindOf?, which),
   object/obj.go (keys). Objects are immutable, so an object is the tree of its prototype chain. -/
namespace Pangaea.Proto

/-- an object: its own properties and its prototype (only BaseObj has none) -/
inductive Obj (P : Type) where
  | base (name : String) (pairs : List (String × P))
  | node (name : String) (pairs : List (String × P)) (proto : Obj P)
  deriving Repr

variable {P : Type}

def Obj.name : Obj P → String | .base n _ => n | .node n _ _ => n
def Obj.pairs : Obj P → List (String × P) | .base _ ps => ps | .node _ ps _ => ps
def Obj.proto : Obj P → Option (Obj P) | .base _ _ => none | .node _ _ p => some p

/-- own property (first binding of the name: literals keep the first occurrence) -/
def Obj.own (o : Obj P) (n : String) : Option P := o.pairs.lookup n

/-- `FindPropAlongProtos` -/
def findProp : Obj P → String → Option P
  | .base _ ps, n => ps.lookup n
  | .node _ ps proto, n =>
    match ps.lookup n with
    | some v => some v
    | none => findProp proto n

/-- `FindPropOwner` -/
def findOwner : Obj P → String → Option (Obj P)
  | .base nm ps, n =>
    match ps.lookup n with
    | some _ => some (.base nm ps)
    | none => none
  | .node nm ps proto, n =>
    match ps.lookup n with
    | some _ => some (.node nm ps proto)
    | none => findOwner proto n

/-- the search order: o, its prototype, its prototype's prototype, … up to BaseObj -/
def chain : Obj P → List (Obj P)
  | .base nm ps => [.base nm ps]
  | .node nm ps proto => .node nm ps proto :: chain proto

inductive Resolved (P : Type) where
  | prop (v : P)          -- found along the chain
  | missing (m : P)       -- served by the first `_missing`
  | noProp                -- NoPropErr
  deriving Repr

/-- `evalProp` -/
def evalProp (o : Obj P) (n : String) : Resolved P :=
  match findProp o n with
  | some v => .prop v
  | none =>
    match findProp o "_missing" with
    | some m => .missing m
    | none => .noProp

/-- `BaseObj#bear` / `ChildPanObjPtr` -/
def bear (nm : String) (parent : Obj P) (src : List (String × P)) : Obj P := .node nm src parent

/-- `Obj#bro`: `.proto.bear(o)` -/
def bro (nm : String) (o : Obj P) (src : List (String × P)) : Option (Obj P) :=
  o.proto.map (fun p => bear nm p src)

/-- `Obj#ancestors`: `<{yield .proto if \ != BaseObj; recur(.proto)}>.new(self).A` -/
def ancestors (o : Obj P) : List (Obj P) := (chain o).tail

def isPublicName (n : String) : Bool :=
  match n.toList with
  | c :: _ => c.isAlpha
  | [] => false

/-- insertion sort on names (what `sort.Strings` computes; bytewise order) -/
def insertName (n : String) : List String → List String
  | [] => [n]
  | m :: ms => if n ≤ m then n :: m :: ms else m :: insertName n ms
def sortNames : List String → List String
  | [] => []
  | n :: ns => insertName n (sortNames ns)

/-- `Obj#keys`: the receiver's own public names, sorted, one per name -/
def keys (o : Obj P) : List String := sortNames ((o.pairs.map (·.1)).eraseDups.filter isPublicName)

end Pangaea.Proto
