/- Lock discipline of object/hashtable.go as a labelled transition system (C20).
   Threads run sequences of atomic actions; `sync.RWMutex` semantics are transition guards. -/
namespace Pangaea.SymTab

/-- the two process-wide tables: `symHashTable` and `strTable` -/
inductive Tbl | sym | str
deriving DecidableEq, Repr

inductive Act
  | rlock | runlock | lock | unlock
  | read (t : Tbl) | write (t : Tbl)
deriving DecidableEq, Repr

structure Thread where
  todo : List Act
  hr : Bool   -- holds the read lock
  hw : Bool   -- holds the write lock
deriving Repr

structure Sys where
  threads : List Thread
  readers : Nat
  writer : Bool

/-- static lock-set check of one thread's remaining program -/
def guarded : Bool → Bool → List Act → Bool
  | _, _, [] => true
  | hr, hw, .rlock :: as => !hr && !hw && guarded true hw as
  | hr, hw, .runlock :: as => hr && guarded false hw as
  | hr, hw, .lock :: as => !hr && !hw && guarded hr true as
  | hr, hw, .unlock :: as => hw && guarded hr false as
  | hr, hw, .read _ :: as => (hr || hw) && guarded hr hw as
  | hr, hw, .write _ :: as => hw && guarded hr hw as

/-- thread `t` performs its next action in lock state (readers, writer) -/
def stepThread (t : Thread) (readers : Nat) (writer : Bool) : Option (Thread × Nat × Bool) :=
  match t.todo with
  | [] => none
  | .rlock :: as => if writer then none else some ({ todo := as, hr := true, hw := t.hw }, readers + 1, writer)
  | .runlock :: as => some ({ todo := as, hr := false, hw := t.hw }, readers - 1, writer)
  | .lock :: as => if writer || readers != 0 then none else some ({ todo := as, hr := t.hr, hw := true }, readers, true)
  | .unlock :: as => some ({ todo := as, hr := t.hr, hw := false }, readers, false)
  | .read _ :: as => some ({ t with todo := as }, readers, writer)
  | .write _ :: as => some ({ t with todo := as }, readers, writer)

inductive Step : Sys → Sys → Prop
  | mk (s : Sys) (i : Nat) (t t' : Thread) (r' : Nat) (w' : Bool)
      (hi : s.threads[i]? = some t)
      (hs : stepThread t s.readers s.writer = some (t', r', w')) :
      Step s { threads := s.threads.set i t', readers := r', writer := w' }

inductive Reach (s0 : Sys) : Sys → Prop
  | refl : Reach s0 s0
  | step {s s'} : Reach s0 s → Step s s' → Reach s0 s'


/-- lock state a guarded action sequence ends in (`none` = not guarded) -/
def guardedEnd : Bool → Bool → List Act → Option (Bool × Bool)
  | hr, hw, [] => some (hr, hw)
  | hr, hw, .rlock :: as => if !hr && !hw then guardedEnd true hw as else none
  | hr, hw, .runlock :: as => if hr then guardedEnd false hw as else none
  | hr, hw, .lock :: as => if !hr && !hw then guardedEnd hr true as else none
  | hr, hw, .unlock :: as => if hw then guardedEnd hr false as else none
  | hr, hw, .read _ :: as => if hr || hw then guardedEnd hr hw as else none
  | hr, hw, .write _ :: as => if hw then guardedEnd hr hw as else none

/-- a function body is *balanced*: every table access happens under a sufficient lock and the
    function returns holding no lock -/
def balanced (p : List Act) : Bool := guardedEnd false false p == some (false, false)

/-- two distinct threads are both about to touch the same table, one of them writing -/
def Race (s : Sys) : Prop :=
  ∃ (i j : Nat) (ti tj : Thread) (tb : Tbl) (as bs : List Act),
    i ≠ j ∧ s.threads[i]? = some ti ∧ s.threads[j]? = some tj ∧
    ti.todo = Act.write tb :: as ∧ (tj.todo = Act.write tb :: bs ∨ tj.todo = Act.read tb :: bs)

/-- initial system: thread k runs program `progs[k]`, nobody holds the lock -/
def initSys (progs : List (List Act)) : Sys :=
  { threads := progs.map (fun p => { todo := p, hr := false, hw := false }), readers := 0, writer := false }

end Pangaea.SymTab
