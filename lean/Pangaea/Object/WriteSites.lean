/- The reviewed in-place write sites of object/, props/, evaluator/, di/ (C06): every statement that writes
   through an existing object, with the reason why no published Pangaea value can change. The list
   regenerated from the sources must equal this one (Theorems/C06.lean); a new or changed site has to be
   reviewed and added here. Sorted as the extractor sorts. -/
namespace Pangaea.WriteSites

def reviewed : List (String × String) := [
  ("di/container.go:injectProps: obj.AddPairs(pairs)", "start-up injection of built-in props, before any user code runs"),
  ("di/eval.go:eval: e.StackTrace =", "stack trace of an error being raised (errors in flight; see C19 for the shared `_` object)"),
  ("evaluator/err.go:appendStackTrace: copied.StackTrace =", "field of a local copy of the error; the error it was given is never written (fix 180973c)"),
  ("evaluator/eval_args.go:evalArgs: unpackedKwargs.AddPairs(kwargs)", "unpackedKwargs is a fresh local object"),
  ("evaluator/eval_obj.go:evalObj: pair.Key =", "field of a local Pair struct (a copy)"),
  ("evaluator/eval_propcall.go:evalCallArgs: kwargs.AddPairs(unpackedKwargs)", "kwargs was freshly made by evalKwargs"),
  ("evaluator/iternext.go:recur: iter.Env =", "iterators are the stateful objects (next / recur), outside the property"),
  ("object/builtinobj.go:init: *BuiltIn… =", "package initialisation of the prototype singletons"),
  ("object/builtinobj.go:init: zeroObj.zero =", "package initialisation"),
  ("object/env.go:Set: e.Store[h] =", "variables (reassignment), not values"),
  ("object/obj.go:AddPairs: (*o.Pairs)[k] =", "body of AddPairs; its three call sites are reviewed above"),
  ("object/obj.go:AddPairs: o.Keys =", "body of AddPairs"),
  ("object/obj.go:AddPairs: o.PrivateKeys =", "body of AddPairs"),
  ("object/obj.go:ChildPanObjPtr: obj.zero =", "field of the object under construction"),
  ("object/obj.go:NewPanObj: obj.zero =", "field of the object under construction"),
  ("object/obj.go:WithZero: o.zero =", "constructor option, applied to the object under construction"),
  ("object/obj.go:WithZeroFromSelf: o.zero =", "constructor option, applied to the object under construction"),
  ("props/str_props.go:StrProps: append(runes[0:len(runes)-1], increasedRune)", "runes is a fresh []rune copy of the receiver's string")
]

end Pangaea.WriteSites
