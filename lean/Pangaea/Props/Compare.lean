/- Model of `==`, `!=`, `<=>` and the Comparable operators (C18): props/int_props.go, float_props.go,
   str_props.go, arr_props.go, baseobj_props.go (==), nil_props.go, native/Comparable.pangaea,
   native/BaseObj.pangaea (!=). Values are rose trees; `p` is the prototype class of a typed value
   (0 = the built-in prototype, k > 0 = a descendant made with `Proto.bear` and `new`). -/
namespace Pangaea.Compare

inductive V where
  | nil
  | bool (b : Bool)
  | int (p : Nat) (v : Int)
  | flt (p : Nat) (halves : Int)        -- the float `halves / 2` (exactly representable)
  | str (p : Nat) (s : String)
  | arr (xs : List V)
  | obj (ps : List (String × V))        -- plain objects, names distinct
  deriving Repr, Inhabited

/-- booleans inherit from the ints 1 and 0: `Int#==` and `Int#<=>` see them as those plain ints -/
def intView : V → Option (Nat × Int)
  | .int p v => some (p, v)
  | .bool b => some (0, if b then 1 else 0)
  | _ => none

mutual
/-- `x == y`, dispatched on the left operand's type -/
def eqV : V → V → Bool
  | .nil, y => match y with | .nil => true | _ => false
  | .bool a, y => match intView y with
    | some (q, w) => q == 0 && (if a then 1 else 0) == w
    | none => false
  | .int p v, y => match intView y with
    | some (q, w) => p == q && v == w
    | none => false
  -- NOTE: unlike Int#==, Float#== and Str#== do not compare prototypes
  | .flt _ a, y => match y with | .flt _ b => a == b | _ => false
  | .str _ a, y => match y with | .str _ b => a == b | _ => false
  | .arr xs, y => match y with | .arr ys => eqList xs ys | _ => false
  | .obj ps, y => match y with | .obj qs => ps.length == qs.length && eqPairs ps qs | _ => false
def eqList : List V → List V → Bool
  | [], ys => ys.isEmpty
  | x :: xs, ys => match ys with
    | y :: ys' => eqV x y && eqList xs ys'
    | [] => false
/-- every pair of `ps` has an equal partner under the same name in `qs` -/
def eqPairs : List (String × V) → List (String × V) → Bool
  | [], _ => true
  | (n, v) :: ps, qs =>
    (match lookupV n qs with
     | some w => eqV v w
     | none => false) && eqPairs ps qs
def lookupV : String → List (String × V) → Option V
  | _, [] => none
  | n, (m, w) :: qs => if n == m then some w else lookupV n qs
end

/-- `BaseObj#!=` -/
def neV (x y : V) : Bool := !eqV x y

/-- comparison keys: ints, booleans and floats compare as numbers, strs bytewise -/
inductive Key | i (v : Int) | s (v : String)
  deriving DecidableEq, Repr

def cmp3 : Key → Key → Option Int
  | .i a, .i b => some (if a > b then 1 else if a = b then 0 else -1)
  | .s a, .s b => some (if b < a then 1 else if a = b then 0 else -1)
  | _, _ => none

/-- (family, prototype class, key) of a member of a comparable family: 0 = ints with booleans, 1 = floats, 2 = strs -/
def famOf : V → Option (Nat × Nat × Key)
  | .int p v => some (0, p, .i v)
  | .bool b => some (0, 0, .i (if b then 1 else 0))
  | .flt _ a => some (1, 0, .i a)
  | .str _ a => some (2, 0, .s a)
  | _ => none

/-- `<=>`: defined inside one family; the result is a plain Int -/
def cmpV (x y : V) : Option Int :=
  match famOf x, famOf y with
  | some (f, _, k), some (g, _, l) => if f = g then cmp3 k l else none
  | _, _ => none

/-- Comparable: `<`, `<=`, `>`, `>=` compare `self <=> other` with -1 / 1 -/
def ltV (x y : V) : Option Bool := (cmpV x y).map (· == -1)
def leV (x y : V) : Option Bool := (cmpV x y).map (· != 1)
def gtV (x y : V) : Option Bool := (cmpV x y).map (· == 1)
def geV (x y : V) : Option Bool := (cmpV x y).map (· != -1)

end Pangaea.Compare
