/- Model of try / Either (C13): props/obj_props.go (try), props/either_val_props.go (fmap, val, err, or, A),
   props/either_err_props.go, native/Either*.pangaea (val?, err?, catch, ignore, abandon), native/Wrappable.pangaea
   (`_missing` / `_literalProxy` route property and literal calls through fmap). A step is any function from a
   value to an outcome (value, or error kind + message). -/
namespace Pangaea.Either

structure ErrV where
  kind : String
  msg : String
  deriving DecidableEq, Repr

inductive Outcome (V : Type) where
  | val (v : V)
  | err (e : ErrV)
  deriving Repr

inductive E (V : Type) where
  | val (v : V)        -- EitherVal
  | err (e : ErrV)     -- EitherErr (wrapping the PanErr)
  deriving Repr

variable {V : Type}

/-- the unwrapped chain: each step is called on the previous result; a raise ends it -/
def runPlain (v : V) : List (V → Outcome V) → Outcome V
  | [] => .val v
  | f :: fs =>
    match f v with
    | .val r => runPlain r fs
    | .err e => .err e

/-- `Obj#try` -/
def tryV (v : V) : E V := .val v

/-- `EitherVal#fmap` (a PanErr result becomes EitherErr) / `EitherErr#fmap` (identity) -/
def fmap (e : E V) (f : V → Outcome V) : E V :=
  match e with
  | .val v => match f v with
    | .val r => .val r
    | .err x => .err x
  | .err x => .err x

/-- `v.try.f1.f2…`: every step goes through fmap (property calls by `_missing`, literal calls by `_literalProxy`) -/
def runTry (v : V) (steps : List (V → Outcome V)) : E V := steps.foldl fmap (tryV v)

def ofOutcome : Outcome V → E V
  | .val v => .val v
  | .err e => .err e

/-! accessors -/
def E.A (nil : V) (wrapErr : ErrV → V) (mkArr : V → V → V) : E V → V
  | .val v => mkArr v nil
  | .err e => mkArr nil (wrapErr e)
def E.valOr (nil : V) : E V → V | .val v => v | .err _ => nil
def E.errOr (nil : V) (wrapErr : ErrV → V) : E V → V | .val _ => nil | .err e => wrapErr e
/-- `val?` is `.val != nil` (native/Either.pangaea): a success whose value is nil "has no value" -/
def E.isVal (isNil : V → Bool) : E V → Bool | .val v => !isNil v | .err _ => false
def E.isErr : E V → Bool | .val _ => false | .err _ => true
def E.orElse (d : V) : E V → V | .val v => v | .err _ => d
/-- `abandon`: the value, or the error raised again -/
def E.abandon : E V → Outcome V | .val v => .val v | .err e => .err e
/-- `catch(K) f` -/
def E.catch (k : String) (f : ErrV → V) : E V → E V
  | .val v => .val v
  | .err e => if e.kind = k then .val (f e) else .err e

end Pangaea.Either
