/- Model of the Int operator built-ins of props/int_props.go on two int64 operands
   (`+ - * -% ** / // % <=>`, after the `fix:` commit for C10). Executable, core Lean only.
   The second operand may be `nil`, which `checkIntInfixArgs` replaces by the operator's identity. -/
import Pangaea.Basic.Int64
namespace Pangaea.IntArith

/-- outcome of an Int operator -/
inductive R where
  | int (v : Int)
  | floatDiv (a b : Int)       -- `float64(a) / float64(b)`: float arithmetic is a parameter, not modelled
  | floatPow (a b : Int)       -- `math.Pow(float64(a), float64(b))` fallback
  | zeroDiv
  deriving Repr, DecidableEq

def add (a b : Int) : R := .int (wrap64 (a + b))
def sub (a b : Int) : R := .int (wrap64 (a - b))
def mul (a b : Int) : R := .int (wrap64 (a * b))
def neg (a : Int) : R := .int (wrap64 (-a))

/-- `base ^ e`, computed without huge intermediate work for bases 0, 1, -1 (the exponent may be ~2^63);
    proved equal to `base ^ e` in Lemmas/IntArith.lean (`ipow_eq`) -/
def ipow (base : Int) (e : Nat) : Int :=
  if base = 0 then (if e = 0 then 1 else 0)
  else if base = 1 then 1
  else if base = -1 then (if e % 2 = 0 then 1 else -1)
  else base ^ e

/-- `intPow` of int_props.go; `big.Int.Exp` is exact (trusted library) -/
def intPow (base exp : Int) : Option Int :=
  if exp < 0 then none
  else if exp > 63 ∧ (base > 1 ∨ base < -1) then none
  else
    let p := ipow base exp.toNat
    if fits64 p then some p else none

def pow (a b : Int) : R :=
  match intPow a b with
  | some p => .int p
  | none => .floatPow a b

def div (a b : Int) : R := if b = 0 then .zeroDiv else .floatDiv a b

def floorDiv (a b : Int) : R :=
  if b = 0 then .zeroDiv
  else
    let res := goDiv a b
    if (decide (a < 0) != decide (b < 0)) && goMod a b != 0 then .int (wrap64 (res - 1))
    else .int res

def mod (a b : Int) : R := if b = 0 then .zeroDiv else .int (goMod a b)

/-- the property's remainder relation, as a decision procedure: `|r| < |b|` and `b ∣ a − r` -/
def remOk (a b r : Int) : Bool := decide (r.natAbs < b.natAbs) && decide ((a - r) % b = 0)

def cmp (a b : Int) : R := if a > b then .int 1 else if a = b then .int 0 else .int (-1)

/-- the code before the repair, kept for the witnesses in Theorems/C10.lean -/
def floorDivOld (a b : Int) : Int :=
  let res := a.tdiv b
  if res < 0 ∧ a.tmod b ≠ 0 then res - 1 else res

end Pangaea.IntArith

namespace Pangaea.IntArith
/-- `checkIntInfixArgs`: a `nil` right operand is replaced by the operator's identity -/
def nilAs (op : String) : Int :=
  if op = "mul" ∨ op = "pow" ∨ op = "div" ∨ op = "fdiv" then 1 else 0

def binop (op : String) (a b : Int) : Option R :=
  match op with
  | "add" => some (add a b)
  | "sub" => some (sub a b)
  | "mul" => some (mul a b)
  | "pow" => some (pow a b)
  | "div" => some (div a b)
  | "fdiv" => some (floorDiv a b)
  | "mod" => some (mod a b)
  | "cmp" => some (cmp a b)
  | _ => none
end Pangaea.IntArith
