/- Model of truthiness (C12): evaluator/eval_jumpifstmt.go (isTruthy, guarded jumps), eval_infix.go
   (canShortCut, evalShortCutInfix), eval_if.go (evalIf), props/obj_props.go (`!`), over an abstract
   value whose `B` property has been evaluated. Sub-expressions are arbitrary state transformers. -/
namespace Pangaea.Truthy

/-- what evaluating `v.B` yields: the bool `true`, the bool `false`, or anything else
    (a non-bool value, an error) -/
inductive BRes | tru | fls | other
  deriving DecidableEq, Repr, Inhabited

/-- the part of a value the conditional constructs look at -/
structure CondVal where
  /-- `some b` iff the Go value is one of the two `*PanBool` singletons (the fast path of isTruthy) -/
  goBool : Option Bool
  /-- result of `callProp(v, B)` -/
  b : BRes
  deriving Repr

/-- `isTruthy` -/
def isTruthy (v : CondVal) : Bool :=
  match v.goBool with
  | some x => x
  | none => v.b == .tru

inductive SC | and | or deriving DecidableEq, Repr

/-- `canShortCut` -/
def canShortCut (op : SC) (v : CondVal) : Bool :=
  let t := v.b == .tru
  match op with
  | .or => t
  | .and => !t

/-- `Obj#!` -/
def notV (v : CondVal) : Bool := if v.b == .tru then false else true

/-- the two bool singletons answer `B` with themselves (`true.proto = 1`, `false.proto = 0`, Int#B) -/
def WF (v : CondVal) : Prop := ∀ x, v.goBool = some x → v.b = (if x then .tru else .fls)

section
variable {σ V : Type}

/-- result of a sub-evaluation: a value with its condition view, or an error -/
inductive R (V : Type) where
  | val (v : V)
  | err (e : V)
  deriving Repr

/-- `evalIf`; `els = none` is `x if c` -/
def evalIf (view : V → CondVal) (nil : V) (cond thn : σ → R V × σ) (els : Option (σ → R V × σ)) (s : σ) : R V × σ :=
  match cond s with
  | (.err e, s1) => (.err e, s1)
  | (.val c, s1) =>
    if isTruthy (view c) then thn s1
    else match els with
      | some e => e s1
      | none => (.val nil, s1)

/-- `evalShortCutInfix` -/
def evalShortCut (view : V → CondVal) (op : SC) (left right : σ → R V × σ) (s : σ) : R V × σ :=
  match left s with
  | (.err e, s1) => (.err e, s1)
  | (.val l, s1) => if canShortCut op (view l) then (.val l, s1) else right s1

/-- guarded `return x if c` / `raise x if c` / `defer x if c`: `none` = the jump does not happen (nil) -/
def evalGuard (view : V → CondVal) (cond : σ → R V × σ) (jump : σ → R V × σ) (s : σ) : Option (R V × σ) × σ :=
  match cond s with
  | (.err e, s1) => (some (.err e, s1), s1)
  | (.val c, s1) => if isTruthy (view c) then (some (jump s1), s1) else (none, s1)

end
end Pangaea.Truthy
