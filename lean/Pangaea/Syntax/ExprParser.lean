/- Executable operator-precedence parser for the expression/jump-statement fragment of the grammar,
   driven by the ladder of Syntax/Table.lean exactly as yacc resolves `rule .` against a lookahead:
   shift iff the lookahead's level is higher than the pending rule's (or equal and %right).
   Output is rendered like ast.*.String(). Used by the C02 correspondence. -/
import Pangaea.Syntax.Table
namespace Pangaea.ExprParser
open Pangaea.Table

inductive E where
  | atom (s : String)
  | infix (op : String) (l r : E)
  | pre (op : String) (x : E)
  | ifE (t c : E) (e : Option E)
  | assign (name : String) (v : E)
  | chain (recv : E) (tok : String)
  deriving Repr, Inhabited

def lv (name : String) : Int :=
  match level name with
  | some n => n
  | none => 0

def isIdent (s : String) : Bool :=
  !s.isEmpty && s.toList.all (fun c => c.isAlpha || c == '_')

def isChainTok (s : String) : Bool :=
  match s.toList with
  | '.' :: c :: _ => c.isAlpha
  | '@' :: c :: _ => c.isAlpha
  | '$' :: c :: _ => c.isAlpha
  | '&' :: '.' :: _ => true
  | '&' :: '@' :: _ => true
  | '~' :: '.' :: _ => true
  | '~' :: '@' :: _ => true
  | '=' :: '.' :: _ => true
  | '=' :: '@' :: _ => true
  | _ => false

def compoundOps : List String := ["+=", "-=", "*=", "/=", "**=", "//=", "%=", "&&=", "||=", "<<=", ">>=", "/&=", "/|=", "/^="]

def reserved : List String := ["if", "else", "return", "raise", "yield", "defer"]

/-- rendering of atoms with a postfix call or index: `f(x)` ↦ `f.call(x)`, `a[0]` ↦ `a.at([0])` -/
def isNumLit (s : String) : Bool := !s.isEmpty && s.toList.all Char.isDigit

def renderAtom (s : String) : String :=
  match s.splitOn "(" with
  | [f, rest] => if (isIdent f || isNumLit f) && !rest.isEmpty then f ++ ".call(" ++ rest else s
  | _ =>
    match s.splitOn "[" with
    | [a, rest] => if (isIdent a || isNumLit a) && !rest.isEmpty then a ++ ".at([" ++ rest ++ ")" else s
    | _ => s

def renderChainTok (tok : String) : String :=
  if tok.endsWith ")" then tok else tok ++ "()"

partial def render : E → String
  | .atom s => renderAtom s
  | .infix op l r => "(" ++ render l ++ " " ++ op ++ " " ++ render r ++ ")"
  | .pre op x => "(" ++ op ++ render x ++ ")"
  | .ifE t c none => "(" ++ render t ++ " if " ++ render c ++ ")"
  | .ifE t c (some e) => "(" ++ render t ++ " if " ++ render c ++ " else " ++ render e ++ ")"
  | .assign n v => "(" ++ n ++ " := " ++ render v ++ ")"
  | .chain r tok => render r ++ renderChainTok tok

abbrev P := Option (E × List String)

mutual
/-- `min` is the level of the pending rule; a lookahead is shifted iff its level is greater -/
def parseExpr : Nat → Int → List String → P
  | 0, _, _ => none
  | fuel + 1, min, toks =>
    match parsePrefix fuel toks with
    | none => none
    | some (left, rest) => parseLoop fuel min left rest

def parsePrefix : Nat → List String → P
  | 0, _ => none
  | _, [] => none
  | fuel + 1, tok :: rest =>
    if tok = "(" then
      match parseExpr fuel (-1) rest with
      | some (e, ")" :: rest') => some (e, rest')
      | _ => none
    else if prefixOps.contains tok then
      match parseExpr fuel (lv "UNARY_OP") rest with
      | some (x, rest') => some (.pre tok x, rest')
      | none => none
    else if tok = ")" || reserved.contains tok || (infixOps.any (·.1 == tok)) || tok = ":=" || tok = "=>"
        || compoundOps.contains tok || isChainTok tok then none
    else
      match rest with
      | ":=" :: rest' =>
        if isIdent tok then
          -- `ident ASSIGN expr .` is %right: an equal-level lookahead is shifted
          match parseExpr fuel (lv "ASSIGN" - 1) rest' with
          | some (v, rest'') => some (.assign tok v, rest'')
          | none => none
        else none
      | op :: rest' =>
        if compoundOps.contains op then
          if isIdent tok then
            match parseExpr fuel (lv "ASSIGN" - 1) rest' with
            | some (v, rest'') => some (.assign tok (.infix ((op.dropEnd 1).toString) (.atom tok) v), rest'')
            | none => none
          else none
        else some (.atom tok, rest)
      | [] => some (.atom tok, [])

def parseLoop : Nat → Int → E → List String → P
  | 0, _, _, _ => none
  | _, _, left, [] => some (left, [])
  | fuel + 1, min, left, tok :: rest =>
    match infixOps.find? (·.1 == tok) with
    | some (_, name) =>
      if lv name > min then
        match parseExpr fuel (lv name) rest with
        | some (r, rest') => parseLoop fuel min (.infix tok left r) rest'
        | none => none
      else some (left, tok :: rest)
    | none =>
      if isChainTok tok then
        if lv "MAIN_CHAIN" > min then parseLoop fuel min (.chain left tok) rest
        else some (left, tok :: rest)
      else if tok = "if" then
        if lv "IF" > min then
          match parseExpr fuel (lv "IF") rest with
          | some (c, "else" :: rest') =>
            match parseExpr fuel (lv "ELSE") rest' with
            | some (e, rest'') => parseLoop fuel min (.ifE left c (some e)) rest''
            | none => none
          | some (c, rest') => parseLoop fuel min (.ifE left c none) rest'
          | none => none
        else some (left, tok :: rest)
      else if tok = "=>" then
        if lv "RIGHT_ASSIGN" > min then
          match rest with
          | name :: rest' =>
            if isIdent name && !reserved.contains name then parseLoop fuel min (.assign name left) rest' else none
          | [] => none
        else some (left, tok :: rest)
      else some (left, tok :: rest)
end

/-- a statement: expression, jump statement or guarded jump statement -/
def parseStmt (toks : List String) : Option String :=
  let fuel := toks.length * 4 + 8
  match toks with
  | kw :: rest =>
    if ["return", "raise", "yield", "defer"].contains kw then
      match parseExpr fuel (lv "JUMP") rest with
      | some (e, []) => some (kw ++ " " ++ render e)
      | some (e, "if" :: rest') =>
        -- `jumpStmt IF expr .`: no conflicting reduction exists, every operator is shifted
        match parseExpr fuel (-1) rest' with
        | some (c, []) => some (kw ++ " " ++ render e ++ " if " ++ render c)
        | _ => none
      | _ => none
    else
      match parseExpr fuel (-1) toks with
      | some (e, []) => some (render e)
      | _ => none
  | [] => none

end Pangaea.ExprParser
