/- Lexer model for C16 (after the `fix:` commit that makes simplexer read its whole input):
   (i) the input buffer as `io.ReadAll` over an arbitrary sequence of Read results;
   (ii) hand-written matchers, in "return the unconsumed suffix" style, transcribed from the token
        regexes of parser/parser.go.y: RET, MULTILINE_*_CHAIN, comments, double-quoted strings,
        back-quoted strings, identifiers. Executable, core Lean only. -/
namespace Pangaea.Lexer

/-! ### (i) buffer -/

/-- one `Read` call: the bytes delivered and whether it also reported an error/EOF -/
structure ReadRes where
  data : List UInt8
  done : Bool := false

/-- `io.ReadAll`: append what every Read delivers until one reports EOF (or an error) -/
def readAll : List ReadRes → List UInt8
  | [] => []
  | r :: rs => if r.done then r.data else r.data ++ readAll rs

/-- a chunking of `bytes`: reads of arbitrary sizes (possibly empty), the last may carry EOF -/
def chunksOf (bytes : List UInt8) : List Nat → List ReadRes
  | [] => [{ data := bytes, done := true }]
  | n :: ns => { data := bytes.take n } :: chunksOf (bytes.drop n) ns

/-! ### (ii) matchers -/

def isWs (c : Char) : Bool := c == ' ' || c == '\t'
def isNl (c : Char) : Bool := c == '\n' || c == '\r'

def skipWs : List Char → List Char
  | c :: cs => if isWs c then skipWs cs else c :: cs
  | [] => []

def skipBody : List Char → List Char          -- `[^\n\r]*`
  | c :: cs => if isNl c then c :: cs else skipBody cs
  | [] => []

def skipComment : List Char → List Char       -- `(#[^\n\r]*)?`
  | '#' :: cs => skipBody cs
  | s => s

/-- one iteration of the `(...)+` group: the unconsumed suffix, if the iteration matches -/
def line (s : List Char) : Option (List Char) :=
  match skipComment (skipWs s) with
  | n :: rest => if isNl n then some rest else none
  | [] => none

/-- greedy repetition (fuel = input length suffices: every iteration consumes ≥ 1 char) -/
def lines : Nat → List Char → List Char
  | 0, s => s
  | fuel+1, s => match line s with
    | some rest => lines fuel rest
    | none => s

/-- the suffix left after the RET token (first alternative) -/
def afterRET (s : List Char) : List Char := lines s.length s


/-- second alternative of RET: a comment without a line end (last line of the file) -/
def afterComment : List Char → Option (List Char)
  | '#' :: cs => some (skipBody cs)
  | _ => none

/-- the RET token `(([ \t]*(#[^\n\r]*)?(\r|\n|\r\n))+|#[^\n\r]*)`: the unconsumed suffix, `none` = no match -/
def matchRET (s : List Char) : Option (List Char) :=
  match line s with
  | some _ => some (afterRET s)
  | none => afterComment s

def isAddChain (c : Char) : Bool := c == '&' || c == '~' || c == '='
def isMainChain (c : Char) : Bool := c == '.' || c == '@' || c == '$'

/-- `([ \t]*(#…)?(\r|\n|\r\n))+[ \t]*\|[X]` : MULTILINE_ADD_CHAIN / MULTILINE_MAIN_CHAIN.
    The regex engine backtracks over the number of lines: the bar must follow the LAST line matched
    that is followed by blanks and a bar; as written greedy-first, that is the longest run. -/
def matchMultiline (isChain : Char → Bool) (s : List Char) : Option (List Char) :=
  match line s with
  | none => none
  | some _ =>
    match skipWs (afterRET s) with
    | '|' :: c :: rest => if isChain c then some rest else none
    | _ => none

/-- `#[^\n\r]*` -/
def matchComment : List Char → Option (List Char) := afterComment

/-- body of a double-quoted string `(\\\"|[^\"\n\r])*` up to the closing quote -/
def dqBody : List Char → Option (List Char)
  | '\\' :: '"' :: cs =>
    -- `\"` is tried first; if no closing quote follows, the engine backtracks: `\` is an ordinary
    -- character and this quote closes the string
    match dqBody cs with
    | some r => some r
    | none => some cs
  | '"' :: cs => some cs
  | c :: cs => if isNl c then none else dqBody cs
  | [] => none

/-- DOUBLEQUOTE_STR `"(\\\"|[^\"\n\r])*"` -/
def matchDQ : List Char → Option (List Char)
  | '"' :: cs => dqBody cs
  | _ => none

/-- body of a back-quoted string -/
def bqBody : List Char → Option (List Char)
  | '\\' :: '`' :: cs =>
    match bqBody cs with
    | some r => some r
    | none => some cs
  | '`' :: cs => some cs
  | _ :: cs => bqBody cs
  | [] => none

/-- BACKQUOTE_STR -/
def matchBQ : List Char → Option (List Char)
  | '`' :: cs => bqBody cs
  | _ => none

def isIdentStart (c : Char) : Bool := c.isAlpha
def isIdentChar (c : Char) : Bool := c.isAlphanum || c == '_'

def skipIdentChars : List Char → List Char
  | c :: cs => if isIdentChar c then skipIdentChars cs else c :: cs
  | [] => []

/-- IDENT `[a-zA-Z][a-zA-Z0-9_]*[!?]?` -/
def matchIdent : List Char → Option (List Char)
  | c :: cs =>
    if isIdentStart c then
      match skipIdentChars cs with
      | '!' :: r => some r
      | '?' :: r => some r
      | r => some r
    else none
  | [] => none

/-- a well-formed layout line: blanks, optional comment body, newline character -/
structure LLine where
  ws : List Char
  comment : Option (List Char)     -- body after '#'
  nl : Char
  hws : ∀ c ∈ ws, isWs c = true
  hcm : ∀ b, comment = some b → ∀ c ∈ b, isNl c = false
  hnl : isNl nl = true

def LLine.chars (l : LLine) : List Char :=
  l.ws ++ ((match l.comment with | none => [] | some b => '#' :: b) ++ [l.nl])


def runChars : List LLine → List Char
  | [] => []
  | l :: ls => l.chars ++ runChars ls

end Pangaea.Lexer
