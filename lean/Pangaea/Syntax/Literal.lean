/- Literal denotation (C17): integer literals in bases 2/8/10/16 with `_` separators, exponent-form
   integers, double-quoted string escapes, identifier classification. Mirrors the semantic actions of
   parser/parser.go.y after the `fix:` commits (conversion errors are reported). Core Lean only. -/
namespace Pangaea.Literal

def digitVal (c : Char) : Option Nat :=
  if '0' ≤ c ∧ c ≤ '9' then some (c.toNat - '0'.toNat)
  else if 'a' ≤ c ∧ c ≤ 'f' then some (c.toNat - 'a'.toNat + 10)
  else if 'A' ≤ c ∧ c ≤ 'F' then some (c.toNat - 'A'.toNat + 10)
  else none

/-- the number a digit list denotes, most significant digit first -/
def valueOf (base : Nat) (ds : List Nat) : Nat := ds.foldl (fun acc d => acc * base + d) 0

/-- `strings.Replace(lit, "_", "", -1)` -/
def stripSep (s : List Char) : List Char := s.filter (· != '_')

def digitsOf (base : Nat) (s : List Char) : Option (List Nat) :=
  s.mapM (fun c => match digitVal c with
    | some d => if d < base then some d else none
    | none => none)

inductive LitRes where
  | ok (v : Int)
  | err
  deriving Repr, DecidableEq

def maxInt64 : Nat := 9223372036854775807

/-- `strconv.ParseInt(strip(lit), base, 64)` on an unsigned digit string, error reported -/
def parseIntLit (base : Nat) (s : List Char) : LitRes :=
  match digitsOf base (stripSep s) with
  | some ds => if ds.isEmpty then .err else
      if valueOf base ds ≤ maxInt64 then .ok (valueOf base ds) else .err
  | none => .err

def expVal (neg : Bool) (m e : Nat) : Nat := if neg then m / 10 ^ e else m * 10 ^ e

/-- `expIntValue`: mantissa · 10^exp exactly (exp ≥ 0), truncated quotient for a negative exponent -/
def parseExpInt (mant : List Char) (neg : Bool) (exp : List Char) : LitRes :=
  match digitsOf 10 (stripSep mant), digitsOf 10 (stripSep exp) with
  | some ms, some es =>
    if ms.isEmpty || es.isEmpty then .err else
    if valueOf 10 es > 10000 then .err else
    if expVal neg (valueOf 10 ms) (valueOf 10 es) ≤ maxInt64 then .ok (expVal neg (valueOf 10 ms) (valueOf 10 es)) else .err
  | _, _ => .err

/-! ### double-quoted strings -/

/-- single-character escapes of `strconv.Unquote` inside double quotes -/
def simpleEsc (c : Char) : Option Char :=
  match c with
  | 'n' => some '\n' | 't' => some '\t' | 'r' => some '\r' | '\\' => some '\\' | '"' => some '"'
  | 'a' => some (Char.ofNat 7) | 'b' => some (Char.ofNat 8) | 'f' => some (Char.ofNat 12) | 'v' => some (Char.ofNat 11)
  | _ => none

/-- escapes with a numeric payload (`\x`, `\u`, `\U`, octal): not modelled -/
def numericEsc (c : Char) : Bool := c == 'x' || c == 'u' || c == 'U' || ('0' ≤ c ∧ c ≤ '7')

inductive StrRes where
  | ok (cs : List Char)
  | err
  | unsupported
  deriving Repr, DecidableEq

def StrRes.cons (c : Char) : StrRes → StrRes
  | .ok cs => .ok (c :: cs)
  | r => r

/-- the text between the quotes ↦ the string it denotes -/
def unquoteBody : List Char → StrRes
  | [] => .ok []
  | c :: cs =>
    if c == '\\' then
      match cs with
      | [] => .err
      | e :: cs' =>
        match simpleEsc e with
        | some x => (unquoteBody cs').cons x
        | none => if numericEsc e then .unsupported else .err
    else if c == '"' || c == '\n' then .err
    else (unquoteBody cs).cons c

/-- how a string is written: `\`, `"` and the usual control characters escaped -/
def quoteBody : List Char → List Char
  | [] => []
  | c :: cs =>
    (if c == '\\' then ['\\', '\\'] else if c == '"' then ['\\', '"'] else if c == '\n' then ['\\', 'n']
     else if c == '\t' then ['\\', 't'] else if c == '\r' then ['\\', 'r'] else [c]) ++ quoteBody cs

/-! ### names -/

def reservedWords : List String := ["if", "else", "return", "yield", "raise", "defer"]

def isIdentStart (c : Char) : Bool := c.isAlpha
def isIdentChar (c : Char) : Bool := c.isAlphanum || c == '_'

/-- `[a-zA-Z][a-zA-Z0-9_]*[!?]?` (names with a leading `_` are private identifiers, see known findings) -/
def matchesIdent (s : List Char) : Bool :=
  match s with
  | c :: cs =>
    isIdentStart c &&
    (match cs.reverse with
     | l :: restRev => (restRev.all isIdentChar) && (isIdentChar l || l == '!' || l == '?')
     | [] => true)
  | [] => false

inductive NameRes | ident | reserved | no
  deriving Repr, DecidableEq

/-- how `Lex` classifies a whole word -/
def classify (s : List Char) : NameRes :=
  if matchesIdent s then (if reservedWords.contains (String.ofList s) then .reserved else .ident) else .no

end Pangaea.Literal
