/- Operator-precedence core of the expression grammar (C02): trees, canonical form for an
   all-%left ladder, the right-insertion fold, and yacc's shift-reduce machine that resolves
   `expr p expr .` against lookahead `o` by comparing precedence levels. Arbitrary precedence function. -/
namespace Pangaea.Prec

variable {Op Atom : Type} (prec : Op → Nat)

inductive Tree (Op Atom : Type) where
  | atom (a : Atom)
  | bin (o : Op) (l r : Tree Op Atom)
deriving Repr, DecidableEq

open Tree

/-- in-order token list: first atom and then (op, atom) pairs -/
def first : Tree Op Atom → Atom
  | atom a => a
  | bin _ l _ => first l

/-- flat as a pair: head atom and the tail of (op, atom) -/
def tail : Tree Op Atom → List (Op × Atom)
  | atom _ => []
  | bin o l r => tail l ++ (o, first r) :: tail r

/-- root precedence is at least m (atoms: always) -/
def rootGE (m : Nat) : Tree Op Atom → Prop
  | atom _ => True
  | bin o _ _ => m ≤ prec o

def rootGT (m : Nat) : Tree Op Atom → Prop
  | atom _ => True
  | bin o _ _ => m < prec o

/-- canonical for an all-left-associative table -/
def canonical : Tree Op Atom → Prop
  | atom _ => True
  | bin o l r => canonical l ∧ canonical r ∧ rootGE prec (prec o) l ∧ rootGT prec (prec o) r

/-- append `o a` on the right, keeping canonical form (what a yacc parser with %left does) -/
def insertRight (t : Tree Op Atom) (o : Op) (a : Atom) : Tree Op Atom :=
  match t with
  | atom x => bin o (atom x) (atom a)
  | bin p l r => if prec p < prec o then bin p l (insertRight r o a) else bin o (bin p l r) (atom a)

def build (a0 : Atom) (ws : List (Op × Atom)) : Tree Op Atom :=
  ws.foldl (fun t w => insertRight prec t w.1 w.2) (atom a0)

/-- yacc's resolution for an all-%left ladder: with `expr p expr .` on the stack and lookahead `o`,
    shift iff `o` binds strictly tighter, otherwise reduce. -/
def shifts (p o : Op) : Bool := prec p < prec o

/-- unwind the parse stack (top first): each entry is a pending left operand and its operator -/
def plug : List (Tree Op Atom × Op) → Tree Op Atom → Tree Op Atom
  | [], c => c
  | (l, p) :: st, c => plug st (bin p l c)

def reduceWhile : List (Tree Op Atom × Op) → Tree Op Atom → Op → List (Tree Op Atom × Op) × Tree Op Atom
  | [], c, _ => ([], c)
  | (l, p) :: st, c, o => if shifts prec p o then ((l, p) :: st, c) else reduceWhile st (bin p l c) o

/-- the shift-reduce machine: consume `(op, atom)` pairs, then reduce everything -/
def sr : List (Tree Op Atom × Op) → Tree Op Atom → List (Op × Atom) → Tree Op Atom
  | st, c, [] => plug st c
  | st, c, (o, a) :: ws =>
    let r := reduceWhile prec st c o
    sr ((r.2, o) :: r.1) (atom a) ws

/-- stack precedences strictly increase towards the top -/
def incr : List (Tree Op Atom × Op) → Prop
  | [] => True
  | [_] => True
  | (_, p) :: (l, q) :: st => prec q < prec p ∧ incr ((l, q) :: st)


end Pangaea.Prec
