/- The precedence ladder the documentation describes (docs/reference/operators.md, lowest first), as
   data. Theorems/C02.lean checks that the ladder regenerated from parser/parser.go.y equals it. -/
namespace Pangaea.Table

inductive Assoc | left | right
  deriving DecidableEq, Repr

/-- `%left`/`%right` lines of the grammar, lowest precedence first -/
def expectedLadder : List (Assoc × List String) := [
  (.left, ["IF"]),
  (.left, ["ELSE"]),
  (.left, ["JUMP"]),
  (.left, ["JUMPIF"]),
  (.left, ["RIGHT_ASSIGN"]),
  (.right, ["ASSIGN", "COMPOUND_ASSIGN"]),
  (.left, ["OR"]),
  (.left, ["AND"]),
  (.left, ["SPACESHIP", "EQ", "NEQ", "TOPIC_EQ", "TOPIC_NEQ", "LT", "LE", "GT", "GE"]),
  (.left, ["BIT_OR", "BIT_XOR"]),
  (.left, ["BIT_AND"]),
  (.left, ["BIT_LSHIFT", "BIT_RSHIFT"]),
  (.left, ["PLUS", "MINUS"]),
  (.left, ["STAR", "SLASH", "DOUBLE_SLASH", "PERCENT"]),
  (.left, ["DOUBLE_STAR"]),
  (.left, ["MULTILINE_ADD_CHAIN", "MULTILINE_MAIN_CHAIN"]),
  (.left, ["ADD_CHAIN", "MAIN_CHAIN"]),
  (.left, ["UNARY_OP"]),
  (.left, ["CALLING"]),
  (.left, ["GROUPING"]),
  (.left, ["INDEXING"])
]

/-- level of a token name in a ladder (position of its line) -/
def levelIn (ladder : List (Assoc × List String)) (tok : String) : Option Nat :=
  ladder.findIdx? (fun l => l.2.contains tok)

def assocIn (ladder : List (Assoc × List String)) (tok : String) : Option Assoc :=
  (ladder.find? (fun l => l.2.contains tok)).map (·.1)

def level (tok : String) : Option Nat := levelIn expectedLadder tok

/-- spelling ↦ token name of the 23 infix operators -/
def infixOps : List (String × String) := [
  ("+", "PLUS"), ("-", "MINUS"), ("*", "STAR"), ("/", "SLASH"), ("//", "DOUBLE_SLASH"), ("%", "PERCENT"),
  ("**", "DOUBLE_STAR"), ("<=>", "SPACESHIP"), ("==", "EQ"), ("!=", "NEQ"), ("===", "TOPIC_EQ"), ("!==", "TOPIC_NEQ"),
  ("<", "LT"), ("<=", "LE"), (">", "GT"), (">=", "GE"), ("<<", "BIT_LSHIFT"), (">>", "BIT_RSHIFT"),
  ("/&", "BIT_AND"), ("/|", "BIT_OR"), ("/^", "BIT_XOR"), ("&&", "AND"), ("||", "OR")]

def prefixOps : List String := ["+", "-", "*", "!", "/~"]

/-- `%prec` annotations the grammar is expected to carry (rule head ++ first symbols ↦ level name) -/
def expectedPrec : List (String × String) := [
  ("jumpIfStmt: jumpStmt IF expr", "JUMPIF"),
  ("jumpStmt: RETURN expr", "JUMP"), ("jumpStmt: RAISE expr", "JUMP"),
  ("jumpStmt: YIELD expr", "JUMP"), ("jumpStmt: DEFER expr", "JUMP"),
  ("ifExpr: expr IF expr ELSE expr", "ELSE"),
  ("prefixExpr: PLUS expr", "UNARY_OP"), ("prefixExpr: MINUS expr", "UNARY_OP"), ("prefixExpr: STAR expr", "UNARY_OP"),
  ("prefixExpr: BANG expr", "UNARY_OP"), ("prefixExpr: BIT_NOT expr", "UNARY_OP")]

/-- yacc's resolution of a shift/reduce conflict between a completed rule of level `r` and a
    lookahead token of level `t` with associativity `a`: `true` = shift -/
def resolveShift (r t : Nat) (a : Assoc) : Bool :=
  if t > r then true else if t < r then false else (a == .right)

end Pangaea.Table
