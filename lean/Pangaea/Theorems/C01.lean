/- C01 — no host-level crash: every program ends in a value or a Pangaea error.
   (1) finite obligations over facts REGENERATED from the sources (Generated/C01.lean): every built-in
       prototype shell is initialised before user code can name it; every built-in closure indexes its
       argument slice only below the length its guards establish;
   (2) component theorems: the indexing / slicing code never panics, for every input (from C11).
   The rest of the interpreter is covered by exploration (registry sweep, program generator): see DESIGN.md. -/
import Pangaea.Generated.C01
import Pangaea.Object.Assertions
import Pangaea.Theorems.C11
namespace Pangaea.C01
open Pangaea Pangaea.Index Pangaea.IndexSpec

/-- **Built-in table.** Every `var X = &PanObj{}` shell of package object is filled by `init()`
    (an unfilled shell has a nil property map: the first property call on it dereferences nil). -/
theorem builtins_initialised :
    (Generated.C01.declaredObjs.all (fun o => Generated.C01.initialisedObjs.contains o)) = true ∧
    Generated.C01.declaredObjs.length ≥ 30 := by decide +kernel

/-- every constant bound by NewEnvWithConsts that is such a shell is initialised -/
theorem bound_consts_initialised :
    (Generated.C01.boundConsts.all (fun c => !Generated.C01.declaredObjs.contains c || Generated.C01.initialisedObjs.contains c)) = true := by
  decide +kernel

/-- **Arity guards.** In every built-in closure `func(env, kwargs, args ...)`, every constant index `args[i]`
    that is not under its own `len(args) >= k` / `switch len(args)` guard is below the `k` of the closure's
    `len(args) < k` check (directly or through a checking helper). -/
theorem arity_guards :
    (Generated.C01.arityGuards.all (fun g => g.2.2 < g.2.1)) = true ∧ Generated.C01.arityGuards.length ≥ 100 := by
  decide +kernel

/-- **Unchecked type assertions.** The single-value type assertions of the interpreter's packages are exactly the
    reviewed ones (Object/Assertions.lean gives, for each, the guard or invariant that makes it safe). -/
theorem unchecked_assertions_are_the_reviewed_ones :
    Generated.C01.uncheckedAssertions = Assertions.reviewed.map (·.1) := by decide +kernel

/-- **Indexing never panics**: for every sequence, all int64-or-omitted bounds and every step, `valRange` and
    `strRange` return a value or ValueErr, never a Go panic (unchecked assertions of strRange included). -/
theorem valRange_never_panics {α} (xs : List α) (hn : C11.SizeOk xs.length) (start stop step : Bound)
    (u1 : C11.Usable start) (u2 : C11.Usable stop) (u3 : C11.Usable step)
    (h1 : C11.BoundOk start) (h2 : C11.BoundOk stop) (h3 : C11.BoundOk step) :
    valRange xs start stop step ≠ .panic := by
  rw [C11.valRange_spec xs hn start stop step u1 u2 u3 h1 h2 h3]
  generalize specSlice xs (IndexLemmas.toOpt start) (IndexLemmas.toOpt stop) (stepOf step) = r
  cases r <;> simp [C11.expectArr]

theorem strRange_never_panics (cs : List Char) (hn : C11.SizeOk cs.length) (start stop step : Bound)
    (u1 : C11.Usable start) (u2 : C11.Usable stop) (u3 : C11.Usable step)
    (h1 : C11.BoundOk start) (h2 : C11.BoundOk stop) (h3 : C11.BoundOk step) :
    strRange cs start stop step ≠ .panic := by
  rw [C11.strRange_spec cs hn start stop step u1 u2 u3 h1 h2 h3]
  generalize specSlice cs (IndexLemmas.toOpt start) (IndexLemmas.toOpt stop) (stepOf step) = r
  cases r <;> simp [C11.expectStr]

theorem arrIndex_never_panics {α} (xs : List α) (hn : C11.SizeOk xs.length) (i : Int) (hi : fits64 i) :
    arrIndex i xs ≠ .panic := by
  rw [C11.arrIndex_eq_spec xs hn i hi]; simp

end Pangaea.C01
