/- C02 — expressions group by the documented precedence and associativity.
   (1) unbounded theorems about yacc's shift-reduce resolution for an arbitrary precedence function
       (Syntax/Prec.lean, Lemmas/Prec.lean);
   (2) finite obligations over facts REGENERATED from parser/parser.go.y and goyacc's y.output
       (Generated/C02.lean): the ladder, the %prec annotations, the infix rules, and a translation
       validation of goyacc's resolved action table against the precedence rule. -/
import Pangaea.Lemmas.Prec
import Pangaea.Generated.C02
namespace Pangaea.C02
open Pangaea.Prec Pangaea.Table

/-! ### (1) the infix fragment, any number of operators, any precedence function -/

/-- **Grouping.** For every operand/operator string, the shift-reduce machine that resolves
    `expr p expr .` against lookahead `o` by "shift iff `o` binds tighter" builds a tree that is
    canonical (every right operand binds strictly tighter than its parent, every left operand at least
    as tight: higher levels group first, equal levels group left-to-right) and whose in-order token
    string is the input. -/
theorem infix_grouping {Op Atom : Type} (prec : Op → Nat) (a0 : Atom) (ws : List (Op × Atom)) :
    canonical prec (sr prec [] (.atom a0) ws) ∧
    first (sr prec [] (.atom a0) ws) = a0 ∧ tail (sr prec [] (.atom a0) ws) = ws := by
  rw [sr_eq_build]; exact build_sound prec a0 ws

/-- **Uniqueness / parentheses.** A canonical tree is exactly what the parser builds from its own
    token string: writing the parentheses the table implies (any canonical tree) and erasing them again
    never changes the parse, and the documented grouping is the only canonical one. -/
theorem implied_parentheses {Op Atom : Type} (prec : Op → Nat) (t : Tree Op Atom) (hc : canonical prec t) :
    sr prec [] (.atom (first t)) (tail t) = t := by
  rw [sr_eq_build]; exact build_complete prec t hc

theorem grouping_unique {Op Atom : Type} (prec : Op → Nat) (t t' : Tree Op Atom)
    (hc : canonical prec t) (hc' : canonical prec t') (h1 : first t = first t') (h2 : tail t = tail t') : t = t' := by
  rw [← build_complete prec t hc, ← build_complete prec t' hc', h1, h2]

/-! ### (2) the grammar as it is now -/

def sameSet (xs ys : List (String × String)) : Bool := xs.all (ys.contains ·) && ys.all (xs.contains ·)

/-- the regenerated ladder is the documented one -/
theorem ladder_is_documented : Generated.C02.ladder = expectedLadder := by decide

/-- the `%prec` annotations on prefix, if/else and jump rules are the expected ones -/
theorem prec_annotations : sameSet Generated.C02.precAnnotations expectedPrec = true := by decide

/-- all 23 infix operators have a rule `expr OP expr` without `%prec`, at a `%left` level -/
theorem infix_rules :
    (infixOps.all (fun o => Generated.C02.infixRules.contains (o.2, false))) = true ∧
    Generated.C02.infixRules.length = 23 ∧
    (Generated.C02.infixRules.all (fun r => assocIn Generated.C02.ladder r.1 == some .left)) = true := by decide

/-- the rules whose grouping is decided by precedence (the property's constructs) -/
def exprHeads : List String := ["infixExpr", "prefixExpr", "ifExpr", "assignExpr", "jumpStmt", "jumpIfStmt"]

def relevant : List (Nat × String × Nat × String × Nat × Bool × Bool) :=
  Generated.C02.resolved.filter (fun r => exprHeads.any (fun h => r.2.1.startsWith (h ++ ":")))

/-- states of the generated LALR tables whose action differs from the precedence rule -/
def mismatches : List (String × String × Bool) :=
  (relevant.filter (fun r =>
    let (_, _, rl, _, tl, right, act) := r
    act != resolveShift rl tl (if right then .right else .left))).map (fun r => (r.2.1, r.2.2.2.1, r.2.2.2.2.2.2))

/-- **Translation validation of goyacc.** In every LALR state with a completed rule that has a
    precedence level, for every lookahead token with a level, the generated action (shift / reduce) is
    the one the precedence rule gives — except `jumpStmt IF expr .` on `IF`, which is no conflict at all
    (`IF ∉ FOLLOW(stmt)`: the only action is the shift; `return a if b if c` reads `return a if (b if c)`).
    The committed `y.go` is what goyacc generates from the grammar, and the three remaining shift/reduce
    conflicts are the documented ones on `LPAREN`. -/
theorem tables_follow_precedence :
    mismatches = [("jumpIfStmt: jumpStmt IF expr", "IF", true)] ∧
    Generated.C02.tablesMatchGrammar = true ∧ Generated.C02.srConflicts = 3 ∧ Generated.C02.unmatched = [] := by
  decide +kernel

/-- the validation covered a non-trivial table -/
theorem tables_nonempty : relevant.length ≥ 900 := by decide +kernel

/-! Non-vacuity (kernel-evaluated): `a + b * c - d` with the documented levels. -/
def lvl : String → Nat := fun o => if o = "*" then 13 else 12
example : sr lvl [] (.atom "a") [("+", "b"), ("*", "c"), ("-", "d")] =
    .bin "-" (.bin "+" (.atom "a") (.bin "*" (.atom "b") (.atom "c"))) (.atom "d") := by decide

end Pangaea.C02
