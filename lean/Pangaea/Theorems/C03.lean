/- C03 — argument binding and lexical scoping, over the Core reference evaluator.
   Part 1 (this file): what a call's scope contains (`bindArgs` = assignArgsToEnv + paddedArgs), for all
   parameter lists, argument lists and keyword arguments.
   Part 2 (Theorems/C03Scope.lean): a call never changes an existing scope. -/
import Pangaea.Lemmas.Bind
namespace Pangaea.C03
open Pangaea.Core

/-- naming conditions of a call: parameters and keyword names are plain identifiers, pairwise different -/
structure Names (params : List String) (kwd kwargs : List (String × Val)) : Prop where
  params_nodup : params.Nodup
  params_ident : ∀ p ∈ params, Ident p
  params_not_kw : ∀ p ∈ params, p ∉ kwd.map (·.1)
  kwd_ident : ∀ k ∈ kwd.map (·.1), Ident k
  kwd_nodup : (kwd.map (·.1)).Nodup
  kwargs_nodup : (kwargs.map (·.1)).Nodup
  kwargs_names : ∀ k ∈ kwargs.map (·.1), NotNumeral k ∧ k ≠ "_" ∧ k ≠ ""

theorem getElem?_padArgs (n : Nat) (args : List Val) (i : Nat) (hi : i < n ∨ i < args.length) :
    (padArgs n args)[i]? = some ((args[i]?).getD .nil) := by
  unfold padArgs
  by_cases h : i < args.length
  · rw [List.getElem?_append_left h]; simp [h]
  · have hi' : i < n := by omega
    rw [List.getElem?_append_right (by omega)]
    simp [List.getElem?_replicate]
    constructor
    · omega
    · rw [List.getElem?_eq_none (by omega)]; rfl

theorem length_padArgs (n : Nat) (args : List Val) : (padArgs n args).length = max n args.length := by
  unfold padArgs; simp; omega

private theorem slash_eq : ("\\" : String) = "\\" ++ "" := by decide
private theorem slash0_eq : ("\\0" : String) = "\\" ++ "0" := by decide
private theorem slashU_eq : ("\\_" : String) = "\\" ++ "_" := by decide
private theorem argName0 : argName 0 = "\\0" := by decide

variable {params : List String} {kwd kwargs base : List (String × Val)} {args : List Val}

/-- the later layers of `bindArgs` do not touch a plain identifier that is not a keyword parameter -/
private theorem lookup_outer_ident (y : String) (hy : Ident y) (hk : y ∉ kwd.map (·.1)) :
    (bindArgs params kwd args kwargs base).lookup y
      = (bindPositional params (padArgs params.length args) base).lookup y := by
  unfold bindArgs
  simp only
  rw [lookup_setAssoc_ne _ _ _ _ (by rw [slashU_eq]; exact hy _)]
  rw [lookup_bindKwVars_ne _ _ _ (fun k _ => hy k)]
  rw [lookup_bindKwParams_ne _ _ _ _ hk]
  rw [lookup_bindFirst_ne _ _ _ (by rw [slash_eq]; exact hy _)]
  rw [lookup_setAssoc_ne _ _ _ _ (by rw [slash0_eq]; exact hy _)]
  exact lookup_bindArgVars_ne _ _ _ _ (fun j => hy _)

/-- **Positional binding.** The i-th parameter holds the i-th argument, nil when it is missing; surplus
    arguments bind no parameter. -/
theorem positional (hn : Names params kwd kwargs) (i : Nat) (hi : i < params.length) :
    (bindArgs params kwd args kwargs base).lookup params[i] = some ((args[i]?).getD .nil) := by
  rw [lookup_outer_ident _ (hn.params_ident _ (List.getElem_mem hi)) (hn.params_not_kw _ (List.getElem_mem hi))]
  rw [lookup_bindPositional params _ base i hn.params_nodup hi (by rw [length_padArgs]; omega)]
  exact getElem?_padArgs _ _ _ (Or.inl hi)

/-- **`\\N`** (N ≥ 1) is the N-th argument received (after nil padding up to the parameter count). -/
theorem arg_var (hn : Names params kwd kwargs) (i : Nat) (hi : i < max params.length args.length) :
    (bindArgs params kwd args kwargs base).lookup (argName (i + 1)) = some ((args[i]?).getD .nil) := by
  unfold bindArgs
  simp only
  rw [lookup_setAssoc_ne _ _ _ _ (by rw [slashU_eq]; exact argName_ne_kw notNumeral_underscore)]
  rw [lookup_bindKwVars_ne _ _ _ (fun k hk => argName_ne_kw (hn.kwargs_names k hk).1)]
  rw [lookup_bindKwParams_ne _ _ _ _ (by intro hm; exact hn.kwd_ident _ hm _ rfl)]
  rw [lookup_bindFirst_ne _ _ _ (by rw [slash_eq]; exact argName_ne_kw notNumeral_empty)]
  rw [lookup_setAssoc_ne _ _ _ _ (by
    intro he
    have := argName_inj (he.trans argName0.symm); omega)]
  have := lookup_bindArgVars (padArgs params.length args) 1 (bindPositional params (padArgs params.length args) base) i
    (by rw [length_padArgs]; exact hi)
  rw [show 1 + i = i + 1 by omega] at this
  rw [this]
  exact getElem?_padArgs _ _ _ (by omega)

/-- **`\\0`** is the array of all arguments received. -/
theorem arg_all (hn : Names params kwd kwargs) :
    (bindArgs params kwd args kwargs base).lookup "\\0" = some (.arr (padArgs params.length args)) := by
  unfold bindArgs
  simp only
  rw [lookup_setAssoc_ne _ _ _ _ (by decide)]
  rw [lookup_bindKwVars_ne _ _ _ (fun k hk => by
    rw [← argName0]; exact argName_ne_kw (hn.kwargs_names k hk).1)]
  rw [lookup_bindKwParams_ne _ _ _ _ (by intro hm; exact hn.kwd_ident _ hm "0" slash0_eq)]
  rw [lookup_bindFirst_ne _ _ _ (by decide)]
  exact lookup_setAssoc_self _ _ _

/-- **`\\`** is the first argument received, when there is one. -/
theorem arg_first (hn : Names params kwd kwargs) (a : Val) (rest : List Val) (hp : padArgs params.length args = a :: rest) :
    (bindArgs params kwd args kwargs base).lookup "\\" = some a := by
  unfold bindArgs
  simp only
  rw [lookup_setAssoc_ne _ _ _ _ (by decide)]
  rw [lookup_bindKwVars_ne _ _ _ (fun k hk => by
    rw [slash_eq]; intro he
    exact (hn.kwargs_names k hk).2.2 ((String.append_right_inj "\\").1 he).symm)]
  rw [lookup_bindKwParams_ne _ _ _ _ (by intro hm; exact hn.kwd_ident _ hm "" slash_eq)]
  rw [hp]; exact lookup_setAssoc_self _ _ _

theorem lookup_bindKwParams (kwargs : List (String × Val)) : ∀ (kwd acc : List (String × Val)) (k : String) (d : Val),
    (kwd.map (·.1)).Nodup → kwd.lookup k = some d →
    (bindKwParams kwargs kwd acc).lookup k = some ((kwargs.lookup k).getD d)
  | [], _, _, _, _, h => by simp [List.lookup] at h
  | (k', d') :: rest, acc, k, d, hnd, h => by
    simp only [bindKwParams]
    have hnd' : k' ∉ rest.map (·.1) ∧ (rest.map (·.1)).Nodup := List.nodup_cons.1 (by simpa using hnd)
    by_cases hk : k = k'
    · subst hk
      have hd : d' = d := by simpa [List.lookup] using h
      rw [lookup_bindKwParams_ne k kwargs rest _ hnd'.1, lookup_setAssoc_self, hd]
    · have hne : (k == k') = false := by simpa using hk
      have h' : rest.lookup k = some d := by simpa [List.lookup, hne] using h
      exact lookup_bindKwParams kwargs rest _ k d hnd'.2 h'

theorem mem_keys_of_lookup (l : List (String × Val)) (k : String) (v : Val) (h : l.lookup k = some v) : k ∈ l.map (·.1) := by
  induction l with
  | nil => simp [List.lookup] at h
  | cons p rest ih =>
    obtain ⟨a, b⟩ := p
    by_cases hk : k = a
    · simp [hk]
    · have : (k == a) = false := by simpa using hk
      simp only [List.lookup, this] at h
      simp [ih h]

/-- **Keyword parameters** take the passed value, else their default (evaluated at the literal). -/
theorem keyword_param (hn : Names params kwd kwargs) (k : String) (d : Val) (hk : kwd.lookup k = some d) :
    (bindArgs params kwd args kwargs base).lookup k = some ((kwargs.lookup k).getD d) := by
  have hmem := mem_keys_of_lookup kwd k d hk
  unfold bindArgs
  simp only
  rw [lookup_setAssoc_ne _ _ _ _ (by rw [slashU_eq]; exact hn.kwd_ident k hmem _)]
  rw [lookup_bindKwVars_ne _ _ _ (fun k' _ => hn.kwd_ident k hmem k')]
  exact lookup_bindKwParams kwargs kwd _ k d hn.kwd_nodup hk

theorem lookup_bindKwVars : ∀ (kwargs acc : List (String × Val)) (k : String) (v : Val),
    (kwargs.map (·.1)).Nodup → kwargs.lookup k = some v →
    (bindKwVars kwargs acc).lookup ("\\" ++ k) = some v
  | [], _, _, _, _, h => by simp [List.lookup] at h
  | (k', v') :: rest, acc, k, v, hnd, h => by
    simp only [bindKwVars]
    have hnd' : k' ∉ rest.map (·.1) ∧ (rest.map (·.1)).Nodup := List.nodup_cons.1 (by simpa using hnd)
    by_cases hk : k = k'
    · subst hk
      have hv : v' = v := by simpa [List.lookup] using h
      rw [lookup_bindKwVars_ne _ rest _ (by
        intro k2 hk2 he
        have := (String.append_right_inj "\\").1 he
        exact hnd'.1 (this ▸ hk2)), lookup_setAssoc_self, hv]
    · have hne : (k == k') = false := by simpa using hk
      have h' : rest.lookup k = some v := by simpa [List.lookup, hne] using h
      exact lookup_bindKwVars rest _ k v hnd'.2 h'

/-- **`\\name`** is the keyword argument received under that name. -/
theorem kwarg_var (hn : Names params kwd kwargs) (k : String) (v : Val) (hk : kwargs.lookup k = some v) :
    (bindArgs params kwd args kwargs base).lookup ("\\" ++ k) = some v := by
  have hmem := mem_keys_of_lookup kwargs k v hk
  unfold bindArgs
  simp only
  rw [lookup_setAssoc_ne _ _ _ _ (by
    rw [slashU_eq]; intro he
    exact (hn.kwargs_names k hmem).2.1 ((String.append_right_inj "\\").1 he))]
  exact lookup_bindKwVars kwargs _ k v hn.kwargs_nodup hk

/-- **`\\_`** is the object of all keyword arguments received. -/
theorem kwarg_all : (bindArgs params kwd args kwargs base).lookup "\\_" = some (.obj kwargs) := by
  unfold bindArgs; simp only; exact lookup_setAssoc_self _ _ _

/-! non-vacuity: a call shape that satisfies `Names` -/
example : Names ["a", "b"] [("kx", .int 10)] [("kx", .int 1), ("zz", .int 2)] where
  params_nodup := by decide
  params_ident := by
    intro p hp z he
    have : p.toList.head? = some '\\' := by rw [he]; simp
    simp at hp; rcases hp with rfl | rfl <;> simp at this
  params_not_kw := by decide
  kwd_ident := by
    intro p hp z he
    have : p.toList.head? = some '\\' := by rw [he]; simp
    simp at hp; subst hp; simp at this
  kwd_nodup := by decide
  kwargs_nodup := by decide
  kwargs_names := by
    intro k hk
    simp at hk
    rcases hk with rfl | rfl
    · exact ⟨notNumeral_of_nondigit _ 'k' (by decide) (by decide), by decide, by decide⟩
    · exact ⟨notNumeral_of_nondigit _ 'z' (by decide) (by decide), by decide, by decide⟩

end Pangaea.C03
