/- C03, part 2 — lexical scoping as a footprint theorem over the Core reference evaluator:
   evaluating anything in scope `env` changes no existing scope other than `env` itself (and the scopes owned by
   iterators, the only stateful objects); calling a function changes NO existing scope at all: its body runs in a
   scope created for that call. Proof: simultaneous induction on fuel over all 29 functions of the evaluator. -/
import Pangaea.Lemmas.ScopeTac
namespace Pangaea.C03
open Pangaea.Core

section
variable {fuel : Nat} (ih : AllPres fuel)
include ih

theorem succ_evalOpt : ∀ e env, PresM (some env) (evalOpt (fuel + 1) e env) := by
  intro e env; cases e <;> (simp only [evalOpt]; pres_tac ih)

theorem succ_evalRecv : ∀ e env, PresM (some env) (evalRecv (fuel + 1) e env) := by
  intro e env; cases e <;> (simp only [evalRecv]; pres_tac ih)

theorem succ_evalElems : ∀ es env, PresM (some env) (evalElems (fuel + 1) es env) := by
  intro es env; unfold evalElems; pres_tac ih

theorem succ_evalArgs : ∀ es env acc kw, PresM (some env) (evalArgs (fuel + 1) es env acc kw) := by
  intro es env acc kw; unfold evalArgs; pres_tac ih

theorem succ_evalKws : ∀ ks env acc, PresM (some env) (evalKws (fuel + 1) ks env acc) := by
  intro ks env acc; unfold evalKws; pres_tac ih

theorem succ_evalPairs : ∀ ps env acc, PresM (some env) (evalPairs (fuel + 1) ps env acc) := by
  intro ps env acc; unfold evalPairs; pres_tac ih

theorem succ_evalEmbedded : ∀ es env acc, PresM (some env) (evalEmbedded (fuel + 1) es env acc) := by
  intro es env acc; unfold evalEmbedded; pres_tac ih

theorem succ_evalPieces : ∀ ps env acc, PresM (some env) (evalPieces (fuel + 1) ps env acc) := by
  intro ps env acc; unfold evalPieces; pres_tac ih

theorem succ_runDefers : ∀ ds env, PresM (some env) (runDefers (fuel + 1) ds env) := by
  intro ds env; unfold runDefers; pres_tac ih

theorem succ_evalStmt : ∀ st env, PresM (some env) (evalStmt (fuel + 1) st env) := by
  intro st env; unfold evalStmt; pres_tac ih

theorem succ_evalE : ∀ e env, PresM (some env) (evalE (fuel + 1) e env) := by
  intro e env
  cases e with
  | ifE c t els => cases els <;> (rw [evalE]; pres_tac ih)
  | func c => cases c; rw [evalE]; pres_tac ih
  | iter c => cases c; rw [evalE]; pres_tac ih
  | _ => (rw [evalE]; pres_tac ih)

theorem succ_callProp : ∀ r n args kw env, PresM none (callProp (fuel + 1) r n args kw env) := by
  intro r n args kw env; unfold callProp; pres_tac ih

theorem succ_callPropQuiet : ∀ r n args env, PresM none (callPropQuiet (fuel + 1) r n args env) := by
  intro r n args env; unfold callPropQuiet; pres_tac ih

theorem succ_builtinCall : ∀ n r args kw env, PresM none (builtinCall (fuel + 1) n r args kw env) := by
  intro n r args kw env; unfold builtinCall; pres_tac ih

theorem succ_srcOf : ∀ v, PresM none (srcOf (fuel + 1) v) := by
  intro v; unfold srcOf; pres_tac ih

theorem succ_litCallOne : ∀ f r env, PresM none (litCallOne (fuel + 1) f r env) := by
  intro f r env; unfold litCallOne; pres_tac ih

theorem succ_propChain : ∀ m a r ca n args kw env, PresM none (propChain (fuel + 1) m a r ca n args kw env) := by
  intro m a r ca n args kw env; unfold propChain; pres_tac ih

theorem succ_propListLoop : ∀ a src n args kw env acc, PresM none (propListLoop (fuel + 1) a src n args kw env acc) := by
  intro a src n args kw env acc; unfold propListLoop; pres_tac ih

theorem succ_propReduceLoop : ∀ a src acc n args kw env, PresM none (propReduceLoop (fuel + 1) a src acc n args kw env) := by
  intro a src acc n args kw env; unfold propReduceLoop; pres_tac ih

theorem succ_litChain : ∀ m a r ca f env, PresM none (litChain (fuel + 1) m a r ca f env) := by
  intro m a r ca f env; unfold litChain; pres_tac ih

theorem succ_litListLoop : ∀ a src f env acc, PresM none (litListLoop (fuel + 1) a src f env acc) := by
  intro a src f env acc; unfold litListLoop; pres_tac ih

theorem succ_evalStmts : ∀ ss env, PresM (some env) (evalStmts (fuel + 1) ss env) := by
  intro ss env s
  rw [evalStmts]
  have h1 := ih.stmtLoop ss env .nil none [] s
  dsimp only
  generalize stmtLoop fuel ss env .nil none [] s = res at h1 ⊢
  obtain ⟨r, s'⟩ := res
  cases r with
  | ok p =>
    obtain ⟨v, defers⟩ := p
    exact h1.trans (PresM.bind (ih.runDefers defers env) (fun _ => PresM.pure _ _) s')
  | err k msg => exact h1
  | fuel => exact h1
  | unsup w => exact h1

theorem succ_stmtLoop : ∀ ss env v y d, PresM (some env) (stmtLoop (fuel + 1) ss env v y d) := by
  intro ss env v y d s
  cases ss with
  | nil => rw [stmtLoop]; exact PresM.pure _ _ s
  | cons st rest =>
    rw [stmtLoop]
    have h1 := ih.evalStmt st env s
    dsimp only
    generalize evalStmt fuel st env s = res at h1 ⊢
    obtain ⟨r, s'⟩ := res
    cases r with
    | ok sig =>
      cases sig with
      | val v' => exact h1.trans (ih.stmtLoop rest env v' y d s')
      | ret v' => exact h1
      | yld v' => exact h1.trans (ih.stmtLoop rest env v' _ d s')
      | dfr e => exact h1.trans (ih.stmtLoop rest env .nil y _ s')
    | err k msg =>
      have h2 := ih.runDefers d env s'
      dsimp only
      generalize runDefers fuel d env s' = res2 at h2 ⊢
      obtain ⟨r2, s''⟩ := res2
      cases r2 <;> exact h1.trans h2
    | fuel => exact h1
    | unsup w => exact h1

theorem succ_callVal : ∀ f args kw, PresM none (callVal (fuel + 1) f args kw) := by
  intro f args kw
  cases f with
  | func params kwd body fenv =>
    intro s
    rw [callVal]
    unfold bindM
    have h1 : Pres none s (enterCall fenv params kwd args kw s).2 := PresM.enterCall none _ _ _ _ _ s
    have he : (enterCall fenv params kwd args kw s).1 = .ok s.frames.length := rfl
    rcases hr : enterCall fenv params kwd args kw s with ⟨r, s1⟩
    rw [hr] at h1 he
    simp only at he
    subst he
    exact h1.trans' (ih.evalStmts body s.frames.length s1) (fun e he => by
      have : e = s.frames.length := by simpa using he.symm
      subst this; exact Or.inr (Or.inl (Nat.le_refl _)))
  | recur id => rw [callVal]; pres_tac ih
  | _ =>
    rw [callVal]
    · exact PresM.throw _ _ _
    all_goals (intros; rename_i h; cases h)

theorem succ_iterNext : ∀ id, PresM none (iterNext (fuel + 1) id) := by
  intro id s
  rw [iterNext]
  unfold bindM getIter
  cases hid : s.iters[id]? with
  | none => exact Pres.refl _ _
  | some it =>
    simp only
    have hit : IterEnv s it.env := ⟨it, List.mem_of_getElem? hid, rfl⟩
    have h1 : Pres none s (setVar it.env "recur" (.recur id) s).2 := Pres.setVar_iterEnv none s _ _ _ hit
    have hok : (setVar it.env "recur" (.recur id) s).1 = .ok () := rfl
    rcases hr : setVar it.env "recur" (.recur id) s with ⟨r, s1⟩
    rw [hr] at h1 hok
    simp only at hok
    subst hok
    have hit1 : IterEnv s1 it.env := by
      have : s1.iters = s.iters := by
        have := congrArg (fun p => p.2.iters) hr
        simpa [setVar] using this.symm
      obtain ⟨it', hm, he⟩ := hit
      exact ⟨it', by rw [this]; exact hm, he⟩
    exact h1.trans' (ih.evalStmts it.body it.env s1) (fun e he => by
      have : e = it.env := by simpa using he.symm
      subst this; exact Or.inr (Or.inr hit1))

theorem succ_propAdd : ∀ a r n args kw env, PresM none (propAdd (fuel + 1) a r n args kw env) := by
  intro a r n args kw env
  cases a with
  | thoughtful =>
    intro s
    rw [propAdd]
    have h1 := ih.callProp r n args kw env s
    dsimp only
    generalize callProp fuel r n args kw env s = res0 at h1 ⊢
    obtain ⟨res, s'⟩ := res0
    cases res with
    | ok v => cases v <;> exact h1
    | _ => exact h1
  | lonely => unfold propAdd; pres_tac ih
  | vanilla => unfold propAdd; pres_tac ih
  | strict => unfold propAdd; pres_tac ih

theorem succ_litAdd : ∀ a f r env, PresM none (litAdd (fuel + 1) a f r env) := by
  intro a f r env
  cases a with
  | thoughtful =>
    intro s
    rw [litAdd]
    have h1 := ih.litCallOne f r env s
    dsimp only
    generalize litCallOne fuel f r env s = res0 at h1 ⊢
    obtain ⟨res, s'⟩ := res0
    cases res with
    | ok v => cases v <;> exact h1
    | _ => exact h1
  | lonely => unfold litAdd; pres_tac ih
  | vanilla => unfold litAdd; pres_tac ih
  | strict => unfold litAdd; pres_tac ih

theorem succ_nextElem : ∀ src, PresM none (nextElem (fuel + 1) src) := by
  intro src
  cases src with
  | elems xs => cases xs <;> (rw [nextElem]; exact PresM.pure _ _)
  | stdin => rw [nextElem]; pres_tac ih
  | iter id =>
    intro s
    rw [nextElem]
    have h1 := ih.iterNext id s
    dsimp only
    generalize iterNext fuel id s = res0 at h1 ⊢
    obtain ⟨res, s'⟩ := res0
    cases res with
    | err k msg => dsimp only; split <;> exact h1
    | _ => exact h1

theorem succ_litReduceLoop : ∀ a src acc f env, PresM none (litReduceLoop (fuel + 1) a src acc f env) := by
  intro a src acc f env
  rw [litReduceLoop]
  refine PresM.bind (ih.nextElem src) (fun nx => ?_)
  cases nx with
  | none => exact PresM.pure _ _
  | some p =>
    obtain ⟨e, src'⟩ := p
    cases a with
    | thoughtful =>
      intro s
      have h1 := ih.litCallOne f (.arr [acc, e]) env s
      dsimp only
      generalize litCallOne fuel f (.arr [acc, e]) env s = res0 at h1 ⊢
      obtain ⟨res, s'⟩ := res0
      cases res with
      | ok v => cases v <;> exact h1.trans (ih.litReduceLoop _ _ _ _ _ s')
      | err k msg => exact h1.trans (ih.litReduceLoop _ _ _ _ _ s')
      | fuel => exact h1
      | unsup w => exact h1
    | lonely => simp only; pres_tac ih
    | vanilla => simp only; pres_tac ih
    | strict => simp only; pres_tac ih

/-- one more unit of fuel keeps every footprint -/
theorem allPres_succ : AllPres (fuel + 1) where
  evalE := succ_evalE ih
  evalOpt := succ_evalOpt ih
  evalRecv := succ_evalRecv ih
  evalElems := succ_evalElems ih
  evalArgs := succ_evalArgs ih
  evalKws := succ_evalKws ih
  evalPairs := succ_evalPairs ih
  evalEmbedded := succ_evalEmbedded ih
  evalPieces := succ_evalPieces ih
  evalStmts := succ_evalStmts ih
  stmtLoop := succ_stmtLoop ih
  runDefers := succ_runDefers ih
  evalStmt := succ_evalStmt ih
  callVal := succ_callVal ih
  callProp := succ_callProp ih
  callPropQuiet := succ_callPropQuiet ih
  builtinCall := succ_builtinCall ih
  iterNext := succ_iterNext ih
  propAdd := succ_propAdd ih
  srcOf := succ_srcOf ih
  nextElem := succ_nextElem ih
  propChain := succ_propChain ih
  propListLoop := succ_propListLoop ih
  propReduceLoop := succ_propReduceLoop ih
  litCallOne := succ_litCallOne ih
  litAdd := succ_litAdd ih
  litChain := succ_litChain ih
  litListLoop := succ_litListLoop ih
  litReduceLoop := succ_litReduceLoop ih

end

theorem allPres : ∀ fuel, AllPres fuel
  | 0 => allPres_zero
  | n + 1 => allPres_succ (allPres n)

/-- **A call changes no existing scope.** For every function value, argument list, keyword arguments, state and
    fuel: after the call every scope that existed before (and is not an iterator's own scope) is exactly as it
    was; scopes are only added. In particular assignments and compound assignments in the body (and in anything
    it calls) never change the caller's scope or the scope where the literal was written. -/
theorem call_changes_no_existing_scope (fuel : Nat) (f : Val) (args : List Val) (kwargs : List (String × Val)) (s : St) :
    Pres none s (callVal fuel f args kwargs s).2 :=
  (allPres fuel).callVal f args kwargs s

/-- **Evaluation writes only the current scope.** Evaluating any expression in scope `env` changes no other
    existing scope (iterators' own scopes excepted). -/
theorem eval_writes_only_current_scope (fuel : Nat) (e : Expr) (env : Nat) (s : St) :
    Pres (some env) s (evalE fuel e env s).2 :=
  (allPres fuel).evalE e env s

theorem program_writes_only_its_scope (fuel : Nat) (prog : List Stmt) (env : Nat) (s : St) :
    Pres (some env) s (evalStmts fuel prog env s).2 :=
  (allPres fuel).evalStmts prog env s

/-- **The body sees the defining scope.** A call's scope is a copy of the closure's own frame (which is empty but
    for the bound arguments) with the same enclosing scope: the scope where the literal was written. A name the
    call does not bind is therefore looked up, at call time, in the defining scope as it is then - later
    reassignments there are visible, the caller's variables are not. -/
theorem call_scope_encloses_definition (fenv : Nat) (params : List String) (kwd : List (String × Val)) (args : List Val)
    (kwargs : List (String × Val)) (s : St) :
    let r := enterCall fenv params kwd args kwargs s
    r.1 = .ok s.frames.length ∧
    r.2.frames[s.frames.length]? = some { vars := bindArgs params kwd args kwargs (s.frames.getD fenv default).vars,
                                          outer := (s.frames.getD fenv default).outer } := by
  simp [enterCall]

end Pangaea.C03

namespace Pangaea.C03
open Pangaea.Core

/-- **A property call passes the receiver as the first argument.** When the property found on the receiver is a
    function, the call is that function applied to the receiver followed by the arguments. -/
theorem method_call_passes_receiver (fuel : Nat) (ps : List (String × Val)) (name : String) (args : List Val)
    (kwargs : List (String × Val)) (env : Nat) (params : List String) (kwd : List (String × Val)) (body : List Stmt) (fenv : Nat)
    (h : ps.lookup name = some (.func params kwd body fenv)) :
    callProp (fuel + 1) (.obj ps) name args kwargs env = callVal fuel (.func params kwd body fenv) (.obj ps :: args) kwargs := by
  rw [callProp]; simp [h]

/-- **A receiver-less chain uses the current function's first argument** (`\\1` of the current scope). -/
theorem anonymous_chain_receiver (fuel env : Nat) (s : St) (v : Val)
    (h : lookupVar s.frames (s.frames.length + 1) env "\\1" = some v) :
    evalRecv (fuel + 1) none env s = (.ok v, s) := by
  simp [evalRecv, bindM, getVar, h]

theorem anonymous_chain_without_argument (fuel env : Nat) (s : St)
    (h : lookupVar s.frames (s.frames.length + 1) env "\\1" = none) :
    evalRecv (fuel + 1) none env s = (.err "NameErr" "name `\\1` is not defined", s) := by
  simp [evalRecv, bindM, getVar, h]

/-- **Assignment writes the innermost scope only**, and evaluates to the assigned value. -/
theorem assign_writes_current_scope (fuel env : Nat) (x : String) (e : Expr) (s s1 : St) (v : Val)
    (h : evalE fuel e env s = (.ok v, s1)) :
    evalE (fuel + 1) (.assign x e) env s
      = (.ok v, { s1 with frames := s1.frames.modify env (fun fr => { fr with vars := setAssoc x v fr.vars }) }) := by
  rw [evalE]; simp [bindM, h, setVar]

end Pangaea.C03

namespace Pangaea.C03
open Pangaea.Core

/-- **A name the call does not bind is looked up in the enclosing scope of the closure's frame** - the scope where the
    literal was written - as that scope is at the time of the call (so later reassignments there are visible, the
    caller's variables are not). -/
theorem lookup_falls_through (frames : List Frame) (n e : Nat) (x : String) (fr : Frame) (outer : Nat)
    (hfr : frames[e]? = some fr) (hx : fr.vars.lookup x = none) (ho : fr.outer = some outer) :
    lookupVar frames (n + 1) e x = lookupVar frames n outer x := by
  simp [lookupVar, hfr, hx, ho]

/-- **A name the call binds shadows every enclosing binding.** -/
theorem lookup_innermost_wins (frames : List Frame) (n e : Nat) (x : String) (fr : Frame) (v : Val)
    (hfr : frames[e]? = some fr) (hx : fr.vars.lookup x = some v) :
    lookupVar frames (n + 1) e x = some v := by
  simp [lookupVar, hfr, hx]

end Pangaea.C03
