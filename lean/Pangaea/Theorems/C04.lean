/- C04 — chain contexts apply their documented per-element rule in all three call forms.
   Model: Pangaea/Eval/Chain.lean (both middleware stacks of the evaluator); lemmas: Lemmas/Chain.lean.
   All theorems hold for every callee (`call`/`fn` are arbitrary functions, results may be nil or an
   error), every element list, every way the iterator ends, every digest, every argument list. -/
import Pangaea.Lemmas.Chain
namespace Pangaea.C04
open Pangaea.Chain Pangaea.ChainLemmas

/-- **List chains, literal/variable call.** `@`, `&@`, `=@`, `~@` over elements `e1..en`: results of
    the per-element rule in order; the first failing result stops the chain; `@`/`&@` drop nil results,
    `=@`/`~@` keep them; the chain argument digests the collected results. -/
theorem lit_list_spec (a : Add) (fn : LH) (digest : Val → List Val → Val) (recv : Val) (it : Iter) (chainArg : Val) :
    litChain .list a fn digest recv it chainArg = specList a fn digest it chainArg := by
  have hmap : it.elems.map (lAdd a fn) = it.elems.map (elemRule a fn) :=
    List.map_congr_left (fun e _ => lAdd_elemRule a fn e)
  cases a <;> simp only [litChain, specList, keptResults]
  · rw [lSquash_spec, hmap]; simp
  · rw [lSquash_spec, hmap]; simp
  · rw [lKeep_spec]
    have : it.elems.map (lThoughtful fn) = it.elems.map (elemRule .thoughtful fn) := hmap
    rw [this]; simp
  · rw [lKeep_spec]
    have : it.elems.map fn = it.elems.map (elemRule .strict fn) := hmap
    rw [this]; simp

/-- **List chains, property call.** Same rule with `f e = call e args`. -/
theorem prop_list_spec (a : Add) (call : PH) (digest : Val → List Val → Val) (recv : Val) (it : Iter)
    (chainArg : Val) (args : List Val) :
    propChain .list a call digest recv it chainArg args =
      specList a (fun e => call e args) digest it chainArg := by
  rw [← lit_list_spec a (fun e => call e args) digest recv it chainArg]
  cases a <;> simp only [propChain, litChain, squash_eq, keep_eq] <;> rfl

/-- **Scalar chains** apply the same additional-context rule to the single receiver (both forms). -/
theorem scalar_spec (a : Add) (call : PH) (fn : LH) (digest : Val → List Val → Val) (recv : Val) (it : Iter)
    (chainArg : Val) (args : List Val) :
    propChain .scalar a call digest recv it chainArg args = elemRule a (fun r => call r args) recv ∧
    litChain .scalar a fn digest recv it chainArg = elemRule a fn recv := by
  constructor
  · cases a <;> simp only [propChain, pAdd, elemRule, pLonely, pThoughtful, id]
    cases recv <;> simp [Val.isNil]
  · cases a <;> simp only [litChain, lAdd_elemRule]

/-- **Reduce chains, property call** (`$`, `=$`, `~$`): left fold from the chain argument passing the
    accumulator and the element; a failing step stops the fold; `~$` keeps the accumulator when the step
    is nil or fails. -/
theorem prop_reduce_spec (a : Add) (ha : a ≠ .lonely) (call : PH) (digest : Val → List Val → Val)
    (recv : Val) (it : Iter) (chainArg : Val) (args : List Val) (hinit : chainArg.isErr = false) :
    propChain .reduce a call digest recv it chainArg args =
      specReduce a (fun acc e => call acc (e :: args)) it chainArg := by
  have := pReduce_spec a ha call args it.stop it.elems chainArg hinit
  cases a <;> simp_all [propChain]

/-- **Reduce chains, literal/variable call** (`$`, `=$`, `~$`, and `&$` which never skips because the
    literal's receiver `[acc, e]` is never nil). -/
theorem lit_reduce_spec (a : Add) (fn : LH) (digest : Val → List Val → Val) (recv : Val) (it : Iter)
    (chainArg : Val) (hinit : chainArg.isErr = false) :
    litChain .reduce a fn digest recv it chainArg =
      specReduce (if a = .lonely then .vanilla else a) (fun acc e => fn (.arr [acc, e])) it chainArg := by
  cases a
  · simpa [litChain, lAdd] using lReduce_spec .vanilla (Or.inl rfl) fn it.stop it.elems chainArg hinit
  · have : lLonely fn = fun r => if r.isNil then r else fn r := rfl
    have hl : ∀ es acc, lReduce (lLonely fn) it.stop es acc = lReduce fn it.stop es acc := by
      intro es; induction es with
      | nil => intro acc; rfl
      | cons e es ih => intro acc; simp [lReduce, lLonely, Val.isNil, ih]
    simpa [litChain, lAdd, hl] using lReduce_spec .vanilla (Or.inl rfl) fn it.stop it.elems chainArg hinit
  · simpa [litChain] using lThoughtfulReduce_spec fn it.stop it.elems chainArg hinit
  · simpa [litChain, lAdd] using lReduce_spec .strict (Or.inr rfl) fn it.stop it.elems chainArg hinit

/-- **Three forms agree, list and scalar contexts.** A property call equals the literal call of
    `{|x| x.prop(args)}` (and hence the variable call of that function: `evalVarCall` and
    `evalLiteralCall` run the same middleware stack) in all eight list/scalar contexts. -/
theorem forms_agree_list_scalar (m : Main) (hm : m ≠ .reduce) (a : Add) (call : PH)
    (digest : Val → List Val → Val) (recv : Val) (it : Iter) (chainArg : Val) (args : List Val) :
    propChain m a call digest recv it chainArg args =
      litChain m a (litOfList call args) digest recv it chainArg := by
  cases m with
  | reduce => exact absurd rfl hm
  | scalar => rw [(scalar_spec a call (litOfList call args) digest recv it chainArg args).1,
                  (scalar_spec a call (litOfList call args) digest recv it chainArg args).2]; rfl
  | list => rw [prop_list_spec, lit_list_spec]; rfl

/-- **Three forms agree, reduce contexts** except the lonely reduce chain: a property call equals the
    literal call of `{|acc, x| acc.prop(x, args)}`. -/
theorem forms_agree_reduce (a : Add) (ha : a ≠ .lonely) (call : PH) (digest : Val → List Val → Val)
    (recv : Val) (it : Iter) (chainArg : Val) (args : List Val) (hinit : chainArg.isErr = false) :
    propChain .reduce a call digest recv it chainArg args =
      litChain .reduce a (litOfReduce call args) digest recv it chainArg := by
  rw [prop_reduce_spec a ha call digest recv it chainArg args hinit,
      lit_reduce_spec a (litOfReduce call args) digest recv it chainArg hinit]
  simp [ha, litOfReduce]

/-- **A raise at any element stops list and reduce chains** (shared with C07): if the call fails at
    element k and at no earlier one, a plain list chain evaluates to that error. -/
theorem list_chain_fail_stop (a : Add) (ha : a = .vanilla ∨ a = .strict) (fn : LH) (digest : Val → List Val → Val)
    (recv : Val) (pre post : List Val) (e : Val) (chainArg : Val)
    (hpre : ∀ x ∈ pre, (fn x).isErr = false) (he : (fn e).isErr = true) (stop : Option Val) :
    litChain .list a fn digest recv ⟨pre ++ e :: post, stop⟩ chainArg = fn e := by
  rw [lit_list_spec]
  have hr : elemRule a fn = fn := by rcases ha with rfl | rfl <;> rfl
  simp only [specList, hr, List.map_append, List.map_cons, firstErr]
  rw [List.find?_append]
  have : (pre.map fn).find? Val.isErr = none := by
    rw [List.find?_eq_none]; intro x hx
    simp only [List.mem_map] at hx
    obtain ⟨y, hy, rfl⟩ := hx
    simp [hpre y hy]
  simp [this, he, orErr]

/-! Non-vacuity and witnesses (kernel-evaluated). -/
def nilOnTwo : PH := fun acc a => match a with | [.int 2] => .nil | _ => acc
-- the README's `~$` shape: a step returning nil keeps the accumulator in both forms
example : propChain .reduce .thoughtful nilOnTwo (fun _ xs => .arr xs) .nil ⟨[.int 1, .int 2], none⟩ (.int 7) [] = .int 7 := rfl
example : litChain .reduce .thoughtful (litOfReduce nilOnTwo []) (fun _ xs => .arr xs) .nil ⟨[.int 1, .int 2], none⟩ (.int 7) = .int 7 := rfl
-- `=@` with a failing element now raises instead of storing the error
def failOnTwo : LH := fun x => match x with | .int 2 => .err "ZeroDivisionErr" | v => v
example : litChain .list .strict failOnTwo (fun _ xs => .arr xs) .nil ⟨[.int 1, .int 2, .int 3], none⟩ .nil = .err "ZeroDivisionErr" := rfl
-- the lonely reduce chain really differs between the forms (why the property excludes it)
def addOne : PH := fun acc _ => match acc with | .int n => .int (n + 1) | _ => .int 0
example : propChain .reduce .lonely addOne (fun _ xs => .arr xs) .nil ⟨[.int 5], none⟩ .nil [] = .nil := rfl
example : litChain .reduce .lonely (litOfReduce addOne []) (fun _ xs => .arr xs) .nil ⟨[.int 5], none⟩ .nil = .int 0 := rfl

end Pangaea.C04
