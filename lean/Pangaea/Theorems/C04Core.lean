/- C04 on the Core reference evaluator: a list chain over an array calls the property on e1..en in order - each
   element once, in the state the previous call left - and collects the results (nil results dropped; the strict and
   thoughtful variants keep every result); a reduce chain folds left from the chain argument. A raise in the call for
   element k ends the chain there: the later elements are not visited. Stated as sequential specifications without
   fuel and proved equivalent to the evaluator's loops. (The per-element context rules - lonely, thoughtful - are
   `propAdd`; C07 has the thoughtful rule, `Eval/Chain.lean` the abstract chain model that is compared with the
   implementation for every chain x modifier.) -/
import Pangaea.Theorems.C15Core
namespace Pangaea.C04
open Pangaea.Core Pangaea.C07 Pangaea.C15

/-- which results a list chain collects -/
def keep (a : Add) (acc : List Val) (v : Val) : List Val :=
  match a, v with
  | .strict, v => acc ++ [v]
  | .thoughtful, v => acc ++ [v]
  | _, .nil => acc
  | _, v => acc ++ [v]

section
variable (a : Add) (name : String) (args : List Val) (kwargs : List (String × Val)) (env : Nat)

/-- the call made for one element (with the chain's additional context) ends with `r` -/
def CallEnds (recv : Val) (extra : List Val) (s : St) (r : R Val) (s' : St) : Prop :=
  ∃ fuel, propAdd fuel a recv name (extra ++ args) kwargs env s = (r, s')

/-- list chain over the elements xs: the specification -/
inductive ListRun : List Val → List Val → St → R (List Val) → St → Prop
  | nil (acc : List Val) (s : St) : ListRun [] acc s (.ok acc) s
  | step {x : Val} {xs acc : List Val} {s s1 s2 : St} {v : Val} {res : R (List Val)} :
      CallEnds a name args kwargs env x [] s (.ok v) s1 → ListRun xs (keep a acc v) s1 res s2 → ListRun (x :: xs) acc s res s2
  | raise {x : Val} {xs acc : List Val} {s s1 : St} {k m : String} :
      CallEnds a name args kwargs env x [] s (.err k m) s1 → ListRun (x :: xs) acc s (.err k m) s1

/-- reduce chain over the elements xs from the accumulator: the specification -/
inductive ReduceRun : List Val → Val → St → R Val → St → Prop
  | nil (acc : Val) (s : St) : ReduceRun [] acc s (.ok acc) s
  | step {x : Val} {xs : List Val} {acc v : Val} {s s1 s2 : St} {res : R Val} :
      CallEnds a name args kwargs env acc [x] s (.ok v) s1 → ReduceRun xs v s1 res s2 → ReduceRun (x :: xs) acc s res s2
  | raise {x : Val} {xs : List Val} {acc : Val} {s s1 : St} {k m : String} :
      CallEnds a name args kwargs env acc [x] s (.err k m) s1 → ReduceRun (x :: xs) acc s (.err k m) s1
end

theorem propAdd_lift {f g : Nat} {a : Add} {recv : Val} {name : String} {args : List Val} {kwargs : List (String × Val)} {env : Nat}
    {s s' : St} {r : R Val} (h : propAdd f a recv name args kwargs env s = (r, s')) (hr : r.notFuel) (hfg : f ≤ g) :
    propAdd g a recv name args kwargs env s = (r, s') := by
  obtain ⟨k, rfl⟩ := Nat.exists_eq_add_of_le hfg
  induction k with
  | zero => exact h
  | succ k ih => exact (allLe (f + k)).propAdd a recv name args kwargs env s r s' (ih (Nat.le_add_right _ _)) hr

theorem propListLoop_lift {f g : Nat} {a : Add} {src : Src} {name : String} {args : List Val} {kwargs : List (String × Val)} {env : Nat}
    {acc : List Val} {s s' : St} {r : R (List Val)} (h : propListLoop f a src name args kwargs env acc s = (r, s')) (hr : r.notFuel)
    (hfg : f ≤ g) : propListLoop g a src name args kwargs env acc s = (r, s') := by
  obtain ⟨k, rfl⟩ := Nat.exists_eq_add_of_le hfg
  induction k with
  | zero => exact h
  | succ k ih => exact (allLe (f + k)).propListLoop a src name args kwargs env acc s r s' (ih (Nat.le_add_right _ _)) hr

theorem propReduceLoop_lift {f g : Nat} {a : Add} {src : Src} {acc : Val} {name : String} {args : List Val} {kwargs : List (String × Val)}
    {env : Nat} {s s' : St} {r : R Val} (h : propReduceLoop f a src acc name args kwargs env s = (r, s')) (hr : r.notFuel)
    (hfg : f ≤ g) : propReduceLoop g a src acc name args kwargs env s = (r, s') := by
  obtain ⟨k, rfl⟩ := Nat.exists_eq_add_of_le hfg
  induction k with
  | zero => exact h
  | succ k ih => exact (allLe (f + k)).propReduceLoop a src acc name args kwargs env s r s' (ih (Nat.le_add_right _ _)) hr

theorem listRun_notFuel {a : Add} {name : String} {args : List Val} {kwargs : List (String × Val)} {env : Nat}
    {xs acc : List Val} {s s' : St} {res : R (List Val)} (h : ListRun a name args kwargs env xs acc s res s') : res.notFuel := by
  induction h with
  | nil _ _ => simp [R.notFuel]
  | step _ _ ih => exact ih
  | raise _ => simp [R.notFuel]

theorem reduceRun_notFuel {a : Add} {name : String} {args : List Val} {kwargs : List (String × Val)} {env : Nat}
    {xs : List Val} {acc : Val} {s s' : St} {res : R Val} (h : ReduceRun a name args kwargs env xs acc s res s') : res.notFuel := by
  induction h with
  | nil _ _ => simp [R.notFuel]
  | step _ _ ih => exact ih
  | raise _ => simp [R.notFuel]

/-- **List chain: each element once, in order; results collected by `keep`; a raise ends the chain.** -/
theorem list_chain_elems {a : Add} {name : String} {args : List Val} {kwargs : List (String × Val)} {env : Nat}
    {xs acc : List Val} {s s' : St} {res : R (List Val)} (h : ListRun a name args kwargs env xs acc s res s') :
    ∃ fuel, propListLoop fuel a (.elems xs) name args kwargs env acc s = (res, s') := by
  induction h with
  | nil acc s => exact ⟨2, by rw [propListLoop]; simp [bindM, nextElem, pureM]⟩
  | @step x xs acc s s1 s2 v res hc hrest ih =>
    obtain ⟨f, hf⟩ := hc
    obtain ⟨g, hg⟩ := ih
    simp only [List.nil_append] at hf
    have h1 := propAdd_lift hf (by simp [R.notFuel]) (Nat.le_max_left f g)
    have h2 := propListLoop_lift hg (listRun_notFuel hrest) (Nat.le_max_right f g)
    refine ⟨max f g + 1, ?_⟩
    have hpos : 0 < max f g := by
      cases f with
      | zero => simp [propAdd, outOfFuel] at hf
      | succ f => omega
    obtain ⟨n, hn⟩ := Nat.exists_eq_succ_of_ne_zero (Nat.pos_iff_ne_zero.mp hpos)
    rw [propListLoop]
    simp only [bindM]
    rw [hn, nextElem, ← hn]
    simp only [pureM, bindM, h1]
    cases a <;> cases v <;> simp_all [keep]
  | @raise x xs acc s s1 k m hc =>
    obtain ⟨f, hf⟩ := hc
    simp only [List.nil_append] at hf
    refine ⟨f + 1, ?_⟩
    obtain ⟨n, hn⟩ : ∃ n, f = n + 1 := by
      cases f with
      | zero => simp [propAdd, outOfFuel] at hf
      | succ f => exact ⟨f, rfl⟩
    rw [propListLoop]
    simp only [bindM]
    rw [hn, nextElem, ← hn]
    simp [pureM, bindM, hf]

/-- **Reduce chain: fold left from the accumulator, passing the accumulator and the element.** -/
theorem reduce_chain_elems {a : Add} {name : String} {args : List Val} {kwargs : List (String × Val)} {env : Nat}
    {xs : List Val} {acc : Val} {s s' : St} {res : R Val} (h : ReduceRun a name args kwargs env xs acc s res s') :
    ∃ fuel, propReduceLoop fuel a (.elems xs) acc name args kwargs env s = (res, s') := by
  induction h with
  | nil acc s => exact ⟨2, by rw [propReduceLoop]; simp [bindM, nextElem, pureM]⟩
  | @step x xs acc v s s1 s2 res hc hrest ih =>
    obtain ⟨f, hf⟩ := hc
    obtain ⟨g, hg⟩ := ih
    simp only [List.singleton_append] at hf
    have h1 := propAdd_lift hf (by simp [R.notFuel]) (Nat.le_max_left f g)
    have h2 := propReduceLoop_lift hg (reduceRun_notFuel hrest) (Nat.le_max_right f g)
    refine ⟨max f g + 1, ?_⟩
    have hpos : 0 < max f g := by
      cases f with
      | zero => simp [propAdd, outOfFuel] at hf
      | succ f => omega
    obtain ⟨n, hn⟩ := Nat.exists_eq_succ_of_ne_zero (Nat.pos_iff_ne_zero.mp hpos)
    rw [propReduceLoop]
    simp only [bindM]
    rw [hn, nextElem, ← hn]
    simp [pureM, bindM, h1, h2]
  | @raise x xs acc s s1 k m hc =>
    obtain ⟨f, hf⟩ := hc
    simp only [List.singleton_append] at hf
    refine ⟨f + 1, ?_⟩
    obtain ⟨n, hn⟩ : ∃ n, f = n + 1 := by
      cases f with
      | zero => simp [propAdd, outOfFuel] at hf
      | succ f => exact ⟨f, rfl⟩
    rw [propReduceLoop]
    simp only [bindM]
    rw [hn, nextElem, ← hn]
    simp [pureM, bindM, hf]

/-- the whole chain expression's value: `recv@prop(args)` over an array receiver is the array of the collected results -/
theorem list_chain_value {a : Add} {name : String} {args : List Val} {kwargs : List (String × Val)} {env : Nat}
    {xs vs : List Val} {s s' : St} (h : ListRun a name args kwargs env xs [] s (.ok vs) s') :
    ∃ fuel, propChain fuel .list a (.arr xs) .nil name args kwargs env s = (.ok (.arr vs), s') := by
  obtain ⟨f, hf⟩ := list_chain_elems h
  refine ⟨f + 1, ?_⟩
  obtain ⟨n, hn⟩ : ∃ n, f = n + 1 := by
    cases f with
    | zero => simp [propListLoop, outOfFuel] at hf
    | succ f => exact ⟨f, rfl⟩
  rw [propChain]
  simp only [bindM]
  rw [hn, srcOf, ← hn]
  simp [pureM, hf]

/-- results in order with nil dropped: over elements whose calls give v1..vn (no raise), the plain list chain returns
    the non-nil ones in order, the strict chain all of them -/
theorem keep_plain (acc : List Val) (v : Val) : keep .vanilla acc v = if v matches .nil then acc else acc ++ [v] := by
  cases v <;> simp [keep]

theorem keep_strict (acc : List Val) (v : Val) : keep .strict acc v = acc ++ [v] := by
  simp [keep]

/-- the premises are satisfiable: the lonely list chain over `[nil]` skips the call and collects nothing -/
example : ∃ fuel, propListLoop fuel .lonely (.elems [.nil]) "p" [] [] 0 [] (initSt []) = (.ok [], initSt []) :=
  list_chain_elems (ListRun.step (v := .nil) (s1 := initSt []) ⟨1, by simp [propAdd, pureM]⟩ (by simpa [keep] using ListRun.nil _ _))

end Pangaea.C04
