/- C05 — property resolution follows the prototype chain, then `_missing`, then NoPropErr.
   Model: Pangaea/Object/Proto.lean. Theorems hold for every prototype forest (objects of any depth,
   any property payload type), i.e. for every history of literals / bear / bro that built it. -/
import Pangaea.Object.Proto
namespace Pangaea.C05
open Pangaea.Proto

variable {P : Type}

/-- **Search order.** Lookup returns the value bound by the first object, in the order o, proto o,
    proto (proto o), … , BaseObj, that has the name as an own property. -/
theorem findProp_eq_first_in_chain (o : Obj P) (n : String) :
    findProp o n = (chain o).findSome? (fun x => x.own n) := by
  induction o with
  | base nm ps => simp [findProp, chain, Obj.own, Obj.pairs]
  | node nm ps proto ih =>
    simp only [findProp, chain, List.findSome?_cons, Obj.own, Obj.pairs]
    cases h : ps.lookup n with
    | some v => rfl
    | none => exact ih

/-- **`which` agrees with the call.** The owner reported is the first object of the chain that has the
    name, and the property found is that owner's own property. -/
theorem findOwner_eq_first_in_chain (o : Obj P) (n : String) :
    findOwner o n = (chain o).find? (fun x => (x.own n).isSome) := by
  induction o with
  | base nm ps =>
    simp only [findOwner, chain, List.find?_cons, Obj.own, Obj.pairs]
    cases h : ps.lookup n <;> simp
  | node nm ps proto ih =>
    have hown : (Obj.node nm ps proto).own n = ps.lookup n := rfl
    simp only [findOwner, chain, List.find?_cons, hown]
    cases h : ps.lookup n with
    | some v => simp
    | none => simpa using ih

theorem findProp_via_owner (o : Obj P) (n : String) :
    findProp o n = (findOwner o n).bind (fun w => w.own n) := by
  induction o with
  | base nm ps =>
    simp only [findProp, findOwner]
    cases h : ps.lookup n <;> simp [Obj.own, Obj.pairs, h]
  | node nm ps proto ih =>
    simp only [findProp, findOwner]
    cases h : ps.lookup n with
    | some v => simp [Obj.own, Obj.pairs, h]
    | none => exact ih

/-- **`_missing` is the last resort.** It is consulted only when no object of the chain has the name,
    and then found in the same order; otherwise NoPropErr. -/
theorem evalProp_spec (o : Obj P) (n : String) :
    (∀ v, findProp o n = some v → evalProp o n = .prop v) ∧
    (findProp o n = none → ∀ m, findProp o "_missing" = some m → evalProp o n = .missing m) ∧
    (findProp o n = none → findProp o "_missing" = none → evalProp o n = .noProp) := by
  unfold evalProp
  refine ⟨fun v h => by simp [h], fun h m hm => by simp [h, hm], fun h hm => by simp [h, hm]⟩

/-- **bear / bro / proto.** `bear` creates a child whose prototype is the receiver, `bro` a sibling with the
    receiver's prototype; a child sees its own properties first and everything of its parent otherwise. -/
theorem bear_proto (nm : String) (p : Obj P) (src : List (String × P)) : (bear nm p src).proto = some p := rfl

theorem bro_proto (nm : String) (o : Obj P) (src : List (String × P)) (b : Obj P) (h : bro nm o src = some b) :
    b.proto = o.proto := by
  unfold bro at h
  cases hp : o.proto with
  | none => simp [hp] at h
  | some p => simp [hp] at h; subst h; rfl

theorem bear_lookup (nm : String) (p : Obj P) (src : List (String × P)) (n : String) :
    findProp (bear nm p src) n = (match src.lookup n with | some v => some v | none => findProp p n) := by
  unfold bear; rw [findProp]; cases src.lookup n <;> rfl

/-- **ancestors / kindOf?.** `ancestors o` is the chain without o itself; o is a kind of x exactly when x is in
    o's chain (stated on chains: the model's object equality is structural). -/
theorem ancestors_chain (o : Obj P) : chain o = o :: ancestors o := by
  cases o <;> simp [ancestors, chain]

theorem chain_bear (nm : String) (p : Obj P) (src : List (String × P)) :
    chain (bear nm p src) = bear nm p src :: chain p := by
  unfold bear; rw [chain]

/-- **keys** lists exactly the receiver's own public names (nothing inherited, nothing private). -/
theorem mem_insertName (n x : String) (ns : List String) : x ∈ insertName n ns ↔ x = n ∨ x ∈ ns := by
  induction ns with
  | nil => simp [insertName]
  | cons m ms ih =>
    unfold insertName
    split
    · simp
    · simp [ih]; constructor
      · rintro (h | h | h) <;> simp [h]
      · rintro (h | h | h) <;> simp [h]

theorem mem_sortNames (x : String) (ns : List String) : x ∈ sortNames ns ↔ x ∈ ns := by
  induction ns with
  | nil => simp [sortNames]
  | cons n ns ih => simp [sortNames, mem_insertName, ih]

theorem lookup_isSome_of_mem (ps : List (String × P)) (pr : String × P) (h : pr ∈ ps) :
    (ps.lookup pr.1).isSome = true := by
  induction ps with
  | nil => cases h
  | cons q qs ih =>
    obtain ⟨qk, qv⟩ := q
    rw [List.lookup_cons]
    by_cases hq : pr.1 == qk
    · simp [hq]
    · simp only [hq]
      cases h with
      | head => simp at hq
      | tail _ h' => exact ih h'

theorem mem_of_lookup_isSome (ps : List (String × P)) (n : String) (h : (ps.lookup n).isSome = true) :
    ∃ v, (n, v) ∈ ps := by
  induction ps with
  | nil => simp at h
  | cons q qs ih =>
    obtain ⟨qk, qv⟩ := q
    rw [List.lookup_cons] at h
    by_cases hq : n == qk
    · refine ⟨qv, ?_⟩
      have : n = qk := by simpa using hq
      subst this; simp
    · simp only [hq] at h
      obtain ⟨v, hv⟩ := ih h
      exact ⟨v, List.mem_cons_of_mem _ hv⟩

theorem keys_are_own_public (o : Obj P) (n : String) :
    n ∈ keys o ↔ (o.own n).isSome ∧ isPublicName n = true := by
  unfold keys
  rw [mem_sortNames]
  simp only [List.mem_filter, List.mem_eraseDups, List.mem_map, Obj.own]
  constructor
  · rintro ⟨⟨pr, hpr, rfl⟩, hp⟩
    exact ⟨lookup_isSome_of_mem o.pairs pr hpr, hp⟩
  · rintro ⟨hs, hp⟩
    obtain ⟨v, hv⟩ := mem_of_lookup_isSome o.pairs n hs
    exact ⟨⟨(n, v), hv, rfl⟩, hp⟩

end Pangaea.C05
