/- C06 — values are immutable: no operation changes an existing value (array values over Go slices).
   Model: Pangaea/Object/GoHeap.lean. Theorems hold for every growth policy of the Go runtime, every
   history of array-producing operations. The inventory of in-place write sites of the real sources is
   regenerated on every run (Generated/C06.lean). -/
import Pangaea.Lemmas.GoHeap
import Pangaea.Generated.C06
namespace Pangaea.C06
open Pangaea.GoHeap

/-- a published slice is either empty or points into an existing backing array -/
def OK (h : Heap) (p : Slice) : Prop := p.len = 0 ∨ p.arr < h.length

def AllOK (s : St) : Prop := ∀ p ∈ s.pub, OK s.heap p

theorem view_len0 (h : Heap) (p : Slice) (hp : p.len = 0) : view h p = [] := by
  simp [view, hp]

theorem fresh_frozen_ok (grow : Nat → Nat) (h : Heap) (xs : List Val) (p : Slice) (hp : OK h p) :
    view (goAppend grow h (emptySlice h) xs).1 p = view h p := by
  rcases hp with h0 | hw
  · rw [view_len0 _ p h0, view_len0 _ p h0]
  · exact fresh_append_frozen grow h xs p hw

theorem fresh_ok (grow : Nat → Nat) (h : Heap) (xs : List Val) (p : Slice) (hp : OK h p) :
    OK (goAppend grow h (emptySlice h) xs).1 p := by
  rcases hp with h0 | hw
  · exact Or.inl h0
  · exact Or.inr (fresh_append_wf grow h xs p hw)

theorem fresh_new_ok (grow : Nat → Nat) (h : Heap) (xs : List Val) :
    OK (goAppend grow h (emptySlice h) xs).1 (goAppend grow h (emptySlice h) xs).2 := by
  unfold goAppend emptySlice OK
  by_cases hx : xs.length = 0
  · simp [hx]
  · have : ¬ (0 + xs.length ≤ 0) := by omega
    simp only [this, if_false]
    right; simp

/-- every safe operation builds its result by appending to a fresh empty slice -/
theorem step_fresh (grow : Nat → Nat) (s : St) (op : Op) (hs : op.safe = true) :
    ∃ xs, (step grow s op).heap = (goAppend grow s.heap (emptySlice s.heap) xs).1 ∧
          (step grow s op).pub = s.pub ++ [(goAppend grow s.heap (emptySlice s.heap) xs).2] := by
  cases op with
  | lit xs => exact ⟨xs, rfl, rfl⟩
  | plus a b => exact ⟨_, rfl, rfl⟩
  | plusInPlace a b => simp [Op.safe] at hs
  | slice a k => exact ⟨_, rfl, rfl⟩

/-- **One step.** A safe operation leaves the contents of every published array value unchanged, whatever
    the growth policy. -/
theorem step_frozen (grow : Nat → Nat) (s : St) (op : Op) (hs : op.safe = true) (hok : AllOK s) :
    (∀ p ∈ s.pub, view (step grow s op).heap p = view s.heap p) ∧ AllOK (step grow s op) := by
  obtain ⟨xs, hh, hp⟩ := step_fresh grow s op hs
  constructor
  · intro p hpm; rw [hh]; exact fresh_frozen_ok grow s.heap xs p (hok p hpm)
  · intro p hpm
    rw [hp] at hpm; rw [hh]
    rcases List.mem_append.mp hpm with h1 | h1
    · exact fresh_ok grow s.heap xs p (hok p h1)
    · simp only [List.mem_singleton] at h1; subst h1; exact fresh_new_ok grow s.heap xs

/-- **Every history.** After any sequence of safe operations, every value that existed at the start still has
    the same contents (and so has every value created on the way, from its creation on: apply the theorem
    to the state in which it was created). -/
theorem history_frozen (grow : Nat → Nat) (ops : List Op) (hs : ∀ op ∈ ops, op.safe = true) (s : St) (hok : AllOK s) :
    ∀ p ∈ s.pub, view (ops.foldl (step grow) s).heap p = view s.heap p := by
  induction ops generalizing s with
  | nil => intro p _; rfl
  | cons op ops ih =>
    intro p hp
    have h1 := step_frozen grow s op (hs op (List.mem_cons_self ..)) hok
    have hmem : p ∈ (step grow s op).pub := by
      obtain ⟨xs, _, hpub⟩ := step_fresh grow s op (hs op (List.mem_cons_self ..))
      rw [hpub]; exact List.mem_append_left _ hp
    rw [List.foldl_cons, ih (fun o ho => hs o (List.mem_cons_of_mem _ ho)) (step grow s op) h1.2 p hmem]
    exact h1.1 p hp

/-- the result of `a + b` is the concatenation -/
theorem plus_result (grow : Nat → Nat) (h : Heap) (a b : Slice) :
    view (plusFresh grow h a b).1 (plusFresh grow h a b).2 = view h a ++ view h b :=
  plusFresh_result grow h a b

/-- **Generated obligation.** The in-place write sites of the sources (append onto a field of an existing
    value, indexed assignment into such a slice or map, AddPairs calls) are exactly the reviewed ones. -/
theorem write_sites_are_the_reviewed_ones : Generated.C06.writeSites = Generated.C06.reviewedSites := by decide

/-! Witness: the code before the repair (`append(self.Elems, other.Elems...)`) on the history
    `a := [1,2,3]; b := a + [4]; c := a + [5]` — `b` changes. -/
def s0 : St := { heap := [[1, 2, 3, 0], [4], [5]], pub := [⟨0, 3, 4⟩, ⟨1, 1, 1⟩, ⟨2, 1, 1⟩] }
example :
    let s1 := step id s0 (.plusInPlace 0 1)
    let s2 := step id s1 (.plusInPlace 0 2)
    view s1.heap (s1.pub.getD 3 ⟨0, 0, 0⟩) = [1, 2, 3, 4] ∧ view s2.heap (s1.pub.getD 3 ⟨0, 0, 0⟩) = [1, 2, 3, 5] := by decide
example :
    let s1 := step id s0 (.plus 0 1)
    let s2 := step id s1 (.plus 0 2)
    view s1.heap (s1.pub.getD 3 ⟨0, 0, 0⟩) = [1, 2, 3, 4] ∧ view s2.heap (s1.pub.getD 3 ⟨0, 0, 0⟩) = [1, 2, 3, 4] := by decide
example : AllOK s0 := by intro p hp; simp [s0] at hp; rcases hp with rfl | rfl | rfl <;> (right; decide)

end Pangaea.C06
