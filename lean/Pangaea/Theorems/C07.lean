/- C07 — raised errors stop evaluation (fail-stop), over the Core reference evaluator (Pangaea/Core/Eval.lean).
   `Raises m s k msg s'` : running `m` from state `s` ends with the error (k, msg) in state `s'`.
   Every theorem below has the shape "the child raises (k, msg) reaching s'  ⟹  the parent raises the same
   (k, msg) and ends in exactly s'": no later sibling is evaluated, nothing more is printed or assigned.
   Because hypothesis and conclusion have the same shape, the theorems chain through any nesting depth
   (`nested_example`). Handlers (`~.`-chains) and pending `defer`s are the stated exceptions. -/
import Pangaea.Lemmas.Core
namespace Pangaea.C07
open Pangaea.Core

def Raises {α : Type} (m : M α) (s : St) (k msg : String) (s' : St) : Prop := m s = (.err k msg, s')
def Gives {α : Type} (m : M α) (s : St) (a : α) (s' : St) : Prop := m s = (.ok a, s')

variable {fuel env : Nat} {s s1 s2 s' : St} {k msg : String}

/-! ### operands, prefix, condition, branches, assignment -/
theorem infix_left (op : String) (l r : Expr) (h : Raises (evalE fuel l env) s k msg s') :
    Raises (evalE (fuel + 1) (.infix op l r) env) s k msg s' := by
  unfold Raises at *; simp only [evalE]; split <;> simp [bindM, h]

theorem infix_right (op : String) (l r : Expr) (vl : Val) (hop : (op == "||" || op == "&&") = false)
    (hl : Gives (evalE fuel l env) s vl s1) (h : Raises (evalE fuel r env) s1 k msg s') :
    Raises (evalE (fuel + 1) (.infix op l r) env) s k msg s' := by
  unfold Raises Gives at *; simp [evalE, hop, bindM, hl, h]

/-- the right operand of `&&` / `||`, when it is evaluated at all -/
theorem shortcut_right (op : String) (l r : Expr) (vl : Val) (hop : (op == "||" || op == "&&") = true)
    (hl : Gives (evalE fuel l env) s vl s1)
    (hcont : ((op == "||" && vl.truthy) || (op == "&&" && !vl.truthy)) = false)
    (h : Raises (evalE fuel r env) s1 k msg s') :
    Raises (evalE (fuel + 1) (.infix op l r) env) s k msg s' := by
  unfold Raises Gives at *; simp [evalE, hop, bindM, hl, hcont, h]

theorem prefix_operand (op : String) (e : Expr) (hop : (op == "*") = false) (h : Raises (evalE fuel e env) s k msg s') :
    Raises (evalE (fuel + 1) (.pref op e) env) s k msg s' := by
  unfold Raises at *; simp [evalE, hop, bindM, h]

theorem assigned (x : String) (e : Expr) (h : Raises (evalE fuel e env) s k msg s') :
    Raises (evalE (fuel + 1) (.assign x e) env) s k msg s' := by
  unfold Raises at *; rw [evalE]; simp [bindM, h]

theorem if_condition (c t : Expr) (e : Option Expr) (h : Raises (evalE fuel c env) s k msg s') :
    Raises (evalE (fuel + 1) (.ifE c t e) env) s k msg s' := by
  unfold Raises at *; cases e <;> (rw [evalE]; simp [bindM, h])

theorem if_then (c t : Expr) (e : Option Expr) (vc : Val) (hc : Gives (evalE fuel c env) s vc s1) (ht : vc.truthy = true)
    (h : Raises (evalE fuel t env) s1 k msg s') :
    Raises (evalE (fuel + 1) (.ifE c t e) env) s k msg s' := by
  unfold Raises Gives at *; cases e <;> (rw [evalE]; simp [bindM, hc, ht, h])

theorem if_else (c t e : Expr) (vc : Val) (hc : Gives (evalE fuel c env) s vc s1) (ht : vc.truthy = false)
    (h : Raises (evalE fuel e env) s1 k msg s') :
    Raises (evalE (fuel + 1) (.ifE c t (some e)) env) s k msg s' := by
  unfold Raises Gives at *; simp [evalE, bindM, hc, ht, h]

/-! ### range bounds -/
theorem range_start (a : Expr) (b c : Option Expr) (h : Raises (evalE fuel a env) s k msg s') :
    Raises (evalE (fuel + 2) (.range (some a) b c) env) s k msg s' := by
  unfold Raises at *; simp [evalE, evalOpt, bindM, h]

theorem range_stop (a : Option Expr) (b : Expr) (c : Option Expr) (va : Val)
    (ha : Gives (evalOpt (fuel + 1) a env) s va s1) (h : Raises (evalE fuel b env) s1 k msg s') :
    Raises (evalE (fuel + 2) (.range a (some b) c) env) s k msg s' := by
  unfold Raises Gives at *; simp [evalE, evalOpt, bindM, ha, h]

theorem range_step (a b : Option Expr) (c : Expr) (va vb : Val)
    (ha : Gives (evalOpt (fuel + 1) a env) s va s1) (hb : Gives (evalOpt (fuel + 1) b env) s1 vb s2)
    (h : Raises (evalE fuel c env) s2 k msg s') :
    Raises (evalE (fuel + 2) (.range a b c) env) s k msg s' := by
  unfold Raises Gives at *; simp [evalE, evalOpt, bindM, ha, hb, h]

/-! ### elements of an array literal (`k`-th element: apply `elems_tail` k times, then `elems_head`) -/
def Plain (e : Expr) : Prop := ∀ e', e ≠ .pref "*" e' ∧ e ≠ .pref "**" e'

theorem elems_head (e : Expr) (rest : List Expr) (hp : Plain e) (h : Raises (evalE fuel e env) s k msg s') :
    Raises (evalElems (fuel + 1) (e :: rest) env) s k msg s' := by
  unfold Raises at *
  rw [evalElems.eq_4 _ _ _ _ (fun e' he => (hp e').1 he)]; simp [bindM, h]

theorem elems_head_unpacked (e : Expr) (rest : List Expr) (h : Raises (evalE fuel e env) s k msg s') :
    Raises (evalElems (fuel + 1) (.pref "*" e :: rest) env) s k msg s' := by
  unfold Raises at *; rw [evalElems]; simp [bindM, h]

theorem elems_tail (e : Expr) (rest : List Expr) (v : Val) (hp : Plain e) (hv : Gives (evalE fuel e env) s v s1)
    (h : Raises (evalElems fuel rest env) s1 k msg s') :
    Raises (evalElems (fuel + 1) (e :: rest) env) s k msg s' := by
  unfold Raises Gives at *
  rw [evalElems.eq_4 _ _ _ _ (fun e' he => (hp e').1 he)]; simp [bindM, hv, h]

theorem arr_literal (elems : List Expr) (h : Raises (evalElems fuel elems env) s k msg s') :
    Raises (evalE (fuel + 1) (.arr elems) env) s k msg s' := by
  unfold Raises at *; rw [evalE]; simp [bindM, h]

/-! ### arguments, keyword arguments -/
theorem args_head (e : Expr) (rest : List Expr) (acc : List Val) (kw : List (String × Val)) (hp : Plain e)
    (h : Raises (evalE fuel e env) s k msg s') :
    Raises (evalArgs (fuel + 1) (e :: rest) env acc kw) s k msg s' := by
  unfold Raises at *
  rw [evalArgs.eq_5 _ _ _ _ _ _ (fun e' he => (hp e').2 he) (fun e' he => (hp e').1 he)]; simp [bindM, h]

theorem args_head_unpacked_arr (e : Expr) (rest : List Expr) (acc : List Val) (kw : List (String × Val))
    (h : Raises (evalE fuel e env) s k msg s') :
    Raises (evalArgs (fuel + 1) (.pref "*" e :: rest) env acc kw) s k msg s' := by
  unfold Raises at *; rw [evalArgs.eq_4]; simp [bindM, h]

theorem args_head_unpacked_obj (e : Expr) (rest : List Expr) (acc : List Val) (kw : List (String × Val))
    (h : Raises (evalE fuel e env) s k msg s') :
    Raises (evalArgs (fuel + 1) (.pref "**" e :: rest) env acc kw) s k msg s' := by
  unfold Raises at *; rw [evalArgs]; simp [bindM, h]

theorem args_tail (e : Expr) (rest : List Expr) (acc : List Val) (kw : List (String × Val)) (v : Val) (hp : Plain e)
    (hv : Gives (evalE fuel e env) s v s1) (h : Raises (evalArgs fuel rest env (acc ++ [v]) kw) s1 k msg s') :
    Raises (evalArgs (fuel + 1) (e :: rest) env acc kw) s k msg s' := by
  unfold Raises Gives at *
  rw [evalArgs.eq_5 _ _ _ _ _ _ (fun e' he => (hp e').2 he) (fun e' he => (hp e').1 he)]; simp [bindM, hv, h]

theorem kws_head (name : String) (e : Expr) (rest : List KwE) (acc : List (String × Val))
    (h : Raises (evalE fuel e env) s k msg s') :
    Raises (evalKws (fuel + 1) (.mk name e :: rest) env acc) s k msg s' := by
  unfold Raises at *; rw [evalKws]; simp [bindM, h]

theorem kws_tail (name : String) (e : Expr) (rest : List KwE) (acc : List (String × Val)) (v : Val)
    (hv : Gives (evalE fuel e env) s v s1) (h : Raises (evalKws fuel rest env (addFirst acc name v)) s1 k msg s') :
    Raises (evalKws (fuel + 1) (.mk name e :: rest) env acc) s k msg s' := by
  unfold Raises Gives at *; rw [evalKws]; simp [bindM, hv, h]

/-! ### property call: receiver, chain argument, arguments, keyword arguments (in that order) -/
theorem call_receiver (recv : Expr) (m : Main) (a : Add) (ca : Option Expr) (prop : String) (args : List Expr) (kws : List KwE)
    (h : Raises (evalE fuel recv env) s k msg s') :
    Raises (evalE (fuel + 2) (.propCall (some recv) m a ca prop args kws) env) s k msg s' := by
  unfold Raises at *; rw [evalE]; simp [evalRecv, bindM, h]

theorem call_chain_argument (recv : Option Expr) (m : Main) (a : Add) (ca : Expr) (prop : String) (args : List Expr) (kws : List KwE)
    (vr : Val) (hr : Gives (evalRecv (fuel + 1) recv env) s vr s1) (h : Raises (evalE fuel ca env) s1 k msg s') :
    Raises (evalE (fuel + 2) (.propCall recv m a (some ca) prop args kws) env) s k msg s' := by
  unfold Raises Gives at *; rw [evalE]; simp [evalOpt, bindM, hr, h]

theorem call_arguments (recv : Option Expr) (m : Main) (a : Add) (ca : Option Expr) (prop : String) (args : List Expr) (kws : List KwE)
    (vr vc : Val) (hr : Gives (evalRecv fuel recv env) s vr s1) (hc : Gives (evalOpt fuel ca env) s1 vc s2)
    (h : Raises (evalArgs fuel args env [] []) s2 k msg s') :
    Raises (evalE (fuel + 1) (.propCall recv m a ca prop args kws) env) s k msg s' := by
  unfold Raises Gives at *; rw [evalE]; simp [bindM, hr, hc, h]

theorem call_keyword_arguments (recv : Option Expr) (m : Main) (a : Add) (ca : Option Expr) (prop : String) (args : List Expr) (kws : List KwE)
    (vr vc : Val) (va : List Val × List (String × Val)) (s3 : St)
    (hr : Gives (evalRecv fuel recv env) s vr s1) (hc : Gives (evalOpt fuel ca env) s1 vc s2)
    (ha : Gives (evalArgs fuel args env [] []) s2 va s3) (h : Raises (evalKws fuel kws env []) s3 k msg s') :
    Raises (evalE (fuel + 1) (.propCall recv m a ca prop args kws) env) s k msg s' := by
  unfold Raises Gives at *; rw [evalE]; simp [bindM, hr, hc, ha, h]

/-! ### literal call: receiver, callee, chain argument -/
theorem litcall_receiver (recv : Expr) (m : Main) (a : Add) (ca : Option Expr) (f : Expr)
    (h : Raises (evalE fuel recv env) s k msg s') :
    Raises (evalE (fuel + 2) (.litCall (some recv) m a ca f) env) s k msg s' := by
  unfold Raises at *; rw [evalE]; simp [evalRecv, bindM, h]

theorem litcall_callee (recv : Option Expr) (m : Main) (a : Add) (ca : Option Expr) (f : Expr) (vr : Val)
    (hr : Gives (evalRecv fuel recv env) s vr s1) (h : Raises (evalE fuel f env) s1 k msg s') :
    Raises (evalE (fuel + 1) (.litCall recv m a ca f) env) s k msg s' := by
  unfold Raises Gives at *; rw [evalE]; simp [bindM, hr, h]

/-! ### object literal: pair values, computed keys, `**` parts -/
theorem pair_value_named (key : String) (e : Expr) (rest : List PairE) (acc : List (String × Val))
    (h : Raises (evalE fuel e env) s k msg s') :
    Raises (evalPairs (fuel + 1) (.named key e :: rest) env acc) s k msg s' := by
  unfold Raises at *; rw [evalPairs]; simp [bindM, h]

theorem pair_value_computed (ke e : Expr) (rest : List PairE) (acc : List (String × Val))
    (h : Raises (evalE fuel e env) s k msg s') :
    Raises (evalPairs (fuel + 1) (.computed ke e :: rest) env acc) s k msg s' := by
  unfold Raises at *; rw [evalPairs]; simp [bindM, h]

theorem pair_key_computed (ke e : Expr) (rest : List PairE) (acc : List (String × Val)) (v : Val)
    (hv : Gives (evalE fuel e env) s v s1) (h : Raises (evalE fuel ke env) s1 k msg s') :
    Raises (evalPairs (fuel + 1) (.computed ke e :: rest) env acc) s k msg s' := by
  unfold Raises Gives at *; rw [evalPairs]; simp [bindM, hv, h]

theorem pairs_tail_named (key : String) (e : Expr) (rest : List PairE) (acc : List (String × Val)) (v : Val)
    (hv : Gives (evalE fuel e env) s v s1) (h : Raises (evalPairs fuel rest env (addFirst acc key v)) s1 k msg s') :
    Raises (evalPairs (fuel + 1) (.named key e :: rest) env acc) s k msg s' := by
  unfold Raises Gives at *; rw [evalPairs]; simp [bindM, hv, h]

theorem obj_pairs (pairs : List PairE) (embedded : List Expr) (h : Raises (evalPairs fuel pairs env []) s k msg s') :
    Raises (evalE (fuel + 1) (.obj pairs embedded) env) s k msg s' := by
  unfold Raises at *; rw [evalE]; simp [bindM, h]

theorem obj_unpacked_head (e : Expr) (rest : List Expr) (acc : List (String × Val))
    (h : Raises (evalE fuel e env) s k msg s') :
    Raises (evalEmbedded (fuel + 1) (e :: rest) env acc) s k msg s' := by
  unfold Raises at *; rw [evalEmbedded]; simp [bindM, h]

theorem obj_unpacked (pairs : List PairE) (embedded : List Expr) (ps : List (String × Val))
    (hp : Gives (evalPairs fuel pairs env []) s ps s1) (h : Raises (evalEmbedded fuel embedded env ps) s1 k msg s') :
    Raises (evalE (fuel + 1) (.obj pairs embedded) env) s k msg s' := by
  unfold Raises Gives at *; rw [evalE]; simp [bindM, hp, h]

/-! ### embedded strings -/
theorem embedded_part_head (str : String) (e : Expr) (rest : List PieceE) (acc : String)
    (h : Raises (evalE fuel e env) s k msg s') :
    Raises (evalPieces (fuel + 1) (.mk str e :: rest) env acc) s k msg s' := by
  unfold Raises at *; rw [evalPieces]; simp [bindM, h]

theorem embedded_str (pieces : List PieceE) (latter : String) (h : Raises (evalPieces fuel pieces env "") s k msg s') :
    Raises (evalE (fuel + 1) (.embedded pieces latter) env) s k msg s' := by
  unfold Raises at *; rw [evalE]; simp [bindM, h]

/-! ### function literal: default values of keyword parameters -/
theorem default_value (params : List String) (kws : List KwE) (body : List Stmt)
    (h : Raises (evalKws fuel kws env []) s k msg s') :
    Raises (evalE (fuel + 1) (.func (.mk params kws body)) env) s k msg s' := by
  unfold Raises at *; rw [evalE]; simp [bindM, h]

/-! ### statements: a raise in statement `st` ends the list; without pending `defer`s nothing else runs -/
theorem stmt_expr (e : Expr) (h : Raises (evalE fuel e env) s k msg s') :
    Raises (evalStmt (fuel + 1) (.expr e) env) s k msg s' := by
  unfold Raises at *; rw [evalStmt]; simp [bindM, h]

theorem stmt_return (e : Expr) (h : Raises (evalE fuel e env) s k msg s') :
    Raises (evalStmt (fuel + 1) (.jump .ret e) env) s k msg s' := by
  unfold Raises at *; rw [evalStmt]; simp [bindM, h]

theorem stmt_condition (jk : JumpKind) (e c : Expr) (h : Raises (evalE fuel c env) s k msg s') :
    Raises (evalStmt (fuel + 1) (.jumpIf jk e c) env) s k msg s' := by
  unfold Raises at *; rw [evalStmt]; simp [bindM, h]

theorem stmts_head (st : Stmt) (rest : List Stmt) (val : Val) (yielded : Option Val)
    (h : Raises (evalStmt fuel st env) s k msg s') :
    Raises (stmtLoop (fuel + 1) (st :: rest) env val yielded []) s k msg s' := by
  unfold Raises at *
  cases fuel with
  | zero => simp [evalStmt, outOfFuel] at h
  | succ n => rw [stmtLoop]; simp [h, runDefers]

theorem stmts_tail (st : Stmt) (rest : List Stmt) (val v : Val) (yielded : Option Val) (defers : List Expr)
    (hv : Gives (evalStmt fuel st env) s (.val v) s1) (h : Raises (stmtLoop fuel rest env v yielded defers) s1 k msg s') :
    Raises (stmtLoop (fuel + 1) (st :: rest) env val yielded defers) s k msg s' := by
  unfold Raises Gives at *; rw [stmtLoop]; simp [hv, h]

theorem body (stmts : List Stmt) (h : Raises (stmtLoop fuel stmts env .nil none []) s k msg s') :
    Raises (evalStmts (fuel + 1) stmts env) s k msg s' := by
  unfold Raises at *; rw [evalStmts]; simp [h]

/-- a raise inside the body of a called function is the result of the call -/
theorem call_body (params : List String) (kwd : List (String × Val)) (stmts : List Stmt) (fenv : Nat)
    (args : List Val) (kwargs : List (String × Val)) (e : Nat)
    (he : Gives (enterCall fenv params kwd args kwargs) s e s1)
    (h : Raises (evalStmts fuel stmts e) s1 k msg s') :
    Raises (callVal (fuel + 1) (.func params kwd stmts fenv) args kwargs) s k msg s' := by
  unfold Raises Gives at *; rw [callVal]; simp [bindM, he, h]

/-! ### with pending `defer`s: they run, then the same error is delivered (unless a deferred expression raises) -/
theorem stmts_head_defers (st : Stmt) (rest : List Stmt) (val : Val) (yielded : Option Val) (defers : List Expr) (u : Unit)
    (h : Raises (evalStmt fuel st env) s k msg s1) (hd : Gives (runDefers fuel defers env) s1 u s') :
    Raises (stmtLoop (fuel + 1) (st :: rest) env val yielded defers) s k msg s' := by
  unfold Raises Gives at *; rw [stmtLoop]; simp [h, hd]

/-! ### the designated handler: a thoughtful chain turns the callee's error into the receiver -/
theorem thoughtful_catches (recv : Val) (name : String) (args : List Val) (kwargs : List (String × Val))
    (h : Raises (callProp fuel recv name args kwargs env) s k msg s') :
    Gives (propAdd (fuel + 1) .thoughtful recv name args kwargs env) s recv s' := by
  unfold Raises Gives at *; rw [propAdd]; simp [h]

/-! ### chaining: the theorems compose through any nesting. `[1, f(2 + (1 // 0))]`-shaped example:
    a raise in the right operand of an argument of a call that is an element of an array literal. -/
theorem nested_example (e1 l r callee : Expr) (v1 vl vr : Val) (s3 : St)
    (h1 : Gives (evalE (fuel + 4) e1 env) s v1 s1) (hp1 : Plain e1)
    (hrecv : Gives (evalE (fuel + 1) callee env) s1 vr s2)
    (hl : Gives (evalE fuel l env) s2 vl s3)
    (hraise : Raises (evalE fuel r env) s3 k msg s') :
    Raises (evalE (fuel + 6) (.arr [e1, .propCall (some callee) .scalar .vanilla none "call" [.infix "+" l r] []]) env) s k msg s' := by
  apply arr_literal
  apply elems_tail e1 _ v1 hp1 h1
  apply elems_head _ _ (by intro e'; simp)
  apply call_arguments (some callee) .scalar .vanilla none "call" _ [] vr .nil
  · unfold Gives at *; simpa [evalRecv] using hrecv
  · exact (by simp [Gives, evalOpt] : Gives (evalOpt (fuel + 2) none env) s2 .nil s2)
  apply args_head _ _ _ _ (by intro e'; simp)
  exact infix_right "+" l r vl (by decide) hl hraise

end Pangaea.C07
