/- C07, fuel-free form: with fuel monotonicity (Theorems/CoreMeta.lean) "evaluates to" and "raises" can be stated
   without fuel, and fail-stop holds at EVERY position of an array literal: whatever the number of earlier elements
   (plain or unpacked) and of later ones. The later elements are not evaluated: the final state is the state at the raise. -/
import Pangaea.Theorems.C07
import Pangaea.Theorems.CoreMeta
namespace Pangaea.C07
open Pangaea.Core

/-- `e` evaluates to `v` (for some, hence every larger, fuel) -/
def GivesE (e : Expr) (env : Nat) (s : St) (v : Val) (s' : St) : Prop := ∃ fuel, evalE fuel e env s = (.ok v, s')
def RaisesE (e : Expr) (env : Nat) (s : St) (k msg : String) (s' : St) : Prop := ∃ fuel, evalE fuel e env s = (.err k msg, s')
def GivesElems (es : List Expr) (env : Nat) (s : St) (vs : List Val) (s' : St) : Prop := ∃ fuel, evalElems fuel es env s = (.ok vs, s')
def RaisesElems (es : List Expr) (env : Nat) (s : St) (k msg : String) (s' : St) : Prop := ∃ fuel, evalElems fuel es env s = (.err k msg, s')

theorem evalE_lift {f g : Nat} {e : Expr} {env : Nat} {s s' : St} {r : R Val} (h : evalE f e env s = (r, s')) (hr : r.notFuel) (hfg : f ≤ g) :
    evalE g e env s = (r, s') := by
  obtain ⟨k, rfl⟩ := Nat.exists_eq_add_of_le hfg
  exact CoreMeta.evalE_fuel_mono f k e env s s' r h hr

theorem evalElems_lift {f g : Nat} {es : List Expr} {env : Nat} {s s' : St} {r : R (List Val)}
    (h : evalElems f es env s = (r, s')) (hr : r.notFuel) (hfg : f ≤ g) : evalElems g es env s = (r, s') := by
  obtain ⟨k, rfl⟩ := Nat.exists_eq_add_of_le hfg
  induction k with
  | zero => exact h
  | succ k ih => exact (allLe (f + k)).evalElems es env s r s' (ih (Nat.le_add_right _ _)) hr

/-- a raise in the first element (plain) -/
theorem raisesElems_head {e : Expr} {rest : List Expr} {env : Nat} {s s' : St} {k msg : String} (hp : Plain e)
    (h : RaisesE e env s k msg s') : RaisesElems (e :: rest) env s k msg s' := by
  obtain ⟨f, hf⟩ := h
  exact ⟨f + 1, elems_head e rest hp hf⟩

/-- a raise in the operand of a first, unpacked element -/
theorem raisesElems_head_unpacked {e : Expr} {rest : List Expr} {env : Nat} {s s' : St} {k msg : String}
    (h : RaisesE e env s k msg s') : RaisesElems (.pref "*" e :: rest) env s k msg s' := by
  obtain ⟨f, hf⟩ := h
  exact ⟨f + 1, elems_head_unpacked e rest hf⟩

/-- skipping an earlier plain element that evaluates to a value -/
theorem raisesElems_cons {e : Expr} {rest : List Expr} {env : Nat} {s s1 s' : St} {v : Val} {k msg : String} (hp : Plain e)
    (hv : GivesE e env s v s1) (h : RaisesElems rest env s1 k msg s') : RaisesElems (e :: rest) env s k msg s' := by
  obtain ⟨f, hf⟩ := hv
  obtain ⟨g, hg⟩ := h
  have h1 : Gives (evalE (max f g) e env) s v s1 := evalE_lift hf (by simp [R.notFuel]) (Nat.le_max_left _ _)
  have h2 : Raises (evalElems (max f g) rest env) s1 k msg s' := evalElems_lift hg (by simp [R.notFuel]) (Nat.le_max_right _ _)
  exact ⟨max f g + 1, elems_tail e rest v hp h1 h2⟩

/-- skipping an earlier unpacked element `*e` whose operand evaluates to an array -/
theorem raisesElems_cons_unpacked {e : Expr} {rest : List Expr} {env : Nat} {s s1 s' : St} {xs : List Val} {k msg : String}
    (hv : GivesE e env s (.arr xs) s1) (h : RaisesElems rest env s1 k msg s') :
    RaisesElems (.pref "*" e :: rest) env s k msg s' := by
  obtain ⟨f, hf⟩ := hv
  obtain ⟨g, hg⟩ := h
  refine ⟨max f g + 1, ?_⟩
  have h1 := evalE_lift hf (by simp [R.notFuel]) (Nat.le_max_left f g)
  have h2 := evalElems_lift hg (by simp [R.notFuel]) (Nat.le_max_right f g)
  rw [evalElems]; simp [bindM, h1, h2]

/-- the earlier elements of a literal: each plain one evaluates to a value, each unpacked one to an array -/
inductive PrefixOk (env : Nat) : List Expr → St → St → Prop
  | nil (s : St) : PrefixOk env [] s s
  | plain {e : Expr} {rest : List Expr} {s s1 s2 : St} {v : Val} : Plain e → GivesE e env s v s1 → PrefixOk env rest s1 s2 → PrefixOk env (e :: rest) s s2
  | unpacked {e : Expr} {rest : List Expr} {s s1 s2 : St} {xs : List Val} : GivesE e env s (.arr xs) s1 → PrefixOk env rest s1 s2 →
      PrefixOk env (.pref "*" e :: rest) s s2

/-- **Fail-stop at every element position.** If the elements before position k evaluate (to values / arrays) taking
    the state from s to s1, and the k-th element raises (k, msg) reaching s', then the array literal raises exactly
    (k, msg) and ends in exactly s' - whatever follows position k is not evaluated. -/
theorem arr_any_position {pre post : List Expr} {e : Expr} {env : Nat} {s s1 s' : St} {k msg : String} (hp : Plain e)
    (hpre : PrefixOk env pre s s1) (h : RaisesE e env s1 k msg s') :
    RaisesE (.arr (pre ++ e :: post)) env s k msg s' := by
  have hl : RaisesElems (pre ++ e :: post) env s k msg s' := by
    induction hpre with
    | nil s => exact raisesElems_head hp h
    | plain hp' hv _ ih => exact raisesElems_cons hp' hv (ih h)
    | unpacked hv _ ih => exact raisesElems_cons_unpacked hv (ih h)
  obtain ⟨f, hf⟩ := hl
  exact ⟨f + 1, arr_literal _ hf⟩

/-- the same when the raising element is the operand of an unpacked element `*e` -/
theorem arr_any_position_unpacked {pre post : List Expr} {e : Expr} {env : Nat} {s s1 s' : St} {k msg : String}
    (hpre : PrefixOk env pre s s1) (h : RaisesE e env s1 k msg s') :
    RaisesE (.arr (pre ++ .pref "*" e :: post)) env s k msg s' := by
  have hl : RaisesElems (pre ++ .pref "*" e :: post) env s k msg s' := by
    induction hpre with
    | nil s => exact raisesElems_head_unpacked h
    | plain hp' hv _ ih => exact raisesElems_cons hp' hv (ih h)
    | unpacked hv _ ih => exact raisesElems_cons_unpacked hv (ih h)
  obtain ⟨f, hf⟩ := hl
  exact ⟨f + 1, arr_literal _ hf⟩

/-- fuel-free operand rules (they compose with the element theorem for nested expressions) -/
theorem infix_left_any (op : String) (l r : Expr) {env : Nat} {s s' : St} {k msg : String} (h : RaisesE l env s k msg s') :
    RaisesE (.infix op l r) env s k msg s' := by
  obtain ⟨f, hf⟩ := h; exact ⟨f + 1, infix_left op l r hf⟩

theorem infix_right_any (op : String) (l r : Expr) {env : Nat} {s s1 s' : St} {vl : Val} {k msg : String}
    (hop : (op == "||" || op == "&&") = false) (hl : GivesE l env s vl s1) (h : RaisesE r env s1 k msg s') :
    RaisesE (.infix op l r) env s k msg s' := by
  obtain ⟨f, hf⟩ := hl
  obtain ⟨g, hg⟩ := h
  have h1 : Gives (evalE (max f g) l env) s vl s1 := evalE_lift hf (by simp [R.notFuel]) (Nat.le_max_left _ _)
  have h2 : Raises (evalE (max f g) r env) s1 k msg s' := evalE_lift hg (by simp [R.notFuel]) (Nat.le_max_right _ _)
  exact ⟨max f g + 1, infix_right op l r vl hop h1 h2⟩

theorem assigned_any (x : String) (e : Expr) {env : Nat} {s s' : St} {k msg : String} (h : RaisesE e env s k msg s') :
    RaisesE (.assign x e) env s k msg s' := by
  obtain ⟨f, hf⟩ := h; exact ⟨f + 1, assigned x e hf⟩

/-- "raises" is well defined: an expression cannot both raise and evaluate to a value, nor raise two different errors -/
theorem raises_unique {e : Expr} {env : Nat} {s s1 s2 : St} {k1 m1 k2 m2 : String}
    (h1 : RaisesE e env s k1 m1 s1) (h2 : RaisesE e env s k2 m2 s2) : k1 = k2 ∧ m1 = m2 ∧ s1 = s2 := by
  obtain ⟨f, hf⟩ := h1
  obtain ⟨g, hg⟩ := h2
  have a := evalE_lift hf (by simp [R.notFuel]) (Nat.le_max_left f g)
  have b := evalE_lift hg (by simp [R.notFuel]) (Nat.le_max_right f g)
  rw [a] at b
  simp at b
  exact ⟨b.1.1, b.1.2, b.2⟩

theorem raises_excludes_value {e : Expr} {env : Nat} {s s1 s2 : St} {k m : String} {v : Val}
    (h1 : RaisesE e env s k m s1) (h2 : GivesE e env s v s2) : False := by
  obtain ⟨f, hf⟩ := h1
  obtain ⟨g, hg⟩ := h2
  have a := evalE_lift hf (by simp [R.notFuel]) (Nat.le_max_left f g)
  have b := evalE_lift hg (by simp [R.notFuel]) (Nat.le_max_right f g)
  rw [a] at b
  simp at b

end Pangaea.C07

namespace Pangaea.C07
open Pangaea.Core

/-! ### statement lists: a raise in the k-th statement ends the list -/
def GivesStmt (st : Stmt) (env : Nat) (s : St) (sig : Sig) (s' : St) : Prop := ∃ fuel, evalStmt fuel st env s = (.ok sig, s')
def RaisesStmt (st : Stmt) (env : Nat) (s : St) (k msg : String) (s' : St) : Prop := ∃ fuel, evalStmt fuel st env s = (.err k msg, s')
def RaisesLoop (ss : List Stmt) (env : Nat) (val : Val) (y : Option Val) (s : St) (k msg : String) (s' : St) : Prop :=
  ∃ fuel, stmtLoop fuel ss env val y [] s = (.err k msg, s')

theorem evalStmt_lift {f g : Nat} {st : Stmt} {env : Nat} {s s' : St} {r : R Sig} (h : evalStmt f st env s = (r, s')) (hr : r.notFuel)
    (hfg : f ≤ g) : evalStmt g st env s = (r, s') := by
  obtain ⟨k, rfl⟩ := Nat.exists_eq_add_of_le hfg
  induction k with
  | zero => exact h
  | succ k ih => exact (allLe (f + k)).evalStmt st env s r s' (ih (Nat.le_add_right _ _)) hr

theorem stmtLoop_lift {f g : Nat} {ss : List Stmt} {env : Nat} {v : Val} {y : Option Val} {d : List Expr} {s s' : St} {r : R (Val × List Expr)}
    (h : stmtLoop f ss env v y d s = (r, s')) (hr : r.notFuel) (hfg : f ≤ g) : stmtLoop g ss env v y d s = (r, s') := by
  obtain ⟨k, rfl⟩ := Nat.exists_eq_add_of_le hfg
  induction k with
  | zero => exact h
  | succ k ih => exact (allLe (f + k)).stmtLoop ss env v y d s r s' (ih (Nat.le_add_right _ _)) hr

/-- earlier statements that end normally (no return, no pending defer; a yield keeps the first yielded value) -/
inductive StmtsOk (env : Nat) : List Stmt → Val → Option Val → St → Val → Option Val → St → Prop
  | nil (v : Val) (y : Option Val) (s : St) : StmtsOk env [] v y s v y s
  | val {st : Stmt} {rest : List Stmt} {v v1 v2 : Val} {y y2 : Option Val} {s s1 s2 : St} :
      GivesStmt st env s (.val v1) s1 → StmtsOk env rest v1 y s1 v2 y2 s2 → StmtsOk env (st :: rest) v y s v2 y2 s2
  | yld {st : Stmt} {rest : List Stmt} {v v1 v2 : Val} {y y2 : Option Val} {s s1 s2 : St} :
      GivesStmt st env s (.yld v1) s1 → StmtsOk env rest v1 (some (y.getD v1)) s1 v2 y2 s2 → StmtsOk env (st :: rest) v y s v2 y2 s2

theorem raisesLoop_head {st : Stmt} {rest : List Stmt} {env : Nat} {v : Val} {y : Option Val} {s s' : St} {k msg : String}
    (h : RaisesStmt st env s k msg s') : RaisesLoop (st :: rest) env v y s k msg s' := by
  obtain ⟨f, hf⟩ := h
  exact ⟨f + 1, stmts_head st rest v y hf⟩

/-- **Fail-stop at every statement position.** If the statements before position k end normally taking the state
    from s to s1 and the k-th statement raises (k, msg) reaching s', the statement list (a program, a function body)
    raises exactly (k, msg) and ends in exactly s': no later statement is evaluated. -/
theorem stmts_any_position {pre post : List Stmt} {st : Stmt} {env : Nat} {v v1 : Val} {y y1 : Option Val} {s s1 s' : St} {k msg : String}
    (hpre : StmtsOk env pre v y s v1 y1 s1) (h : RaisesStmt st env s1 k msg s') :
    RaisesLoop (pre ++ st :: post) env v y s k msg s' := by
  induction hpre with
  | nil v y s => exact raisesLoop_head h
  | @val st0 rest v0 va vb y0 yb sa sb sc hv _ ih =>
    obtain ⟨f, hf⟩ := hv
    obtain ⟨g, hg⟩ := ih h
    refine ⟨max f g + 1, ?_⟩
    have h1 := evalStmt_lift hf (by simp [R.notFuel]) (Nat.le_max_left f g)
    have h2 := stmtLoop_lift hg (by simp [R.notFuel]) (Nat.le_max_right f g)
    show stmtLoop (max f g + 1) (st0 :: (rest ++ st :: post)) env v0 y0 [] sa = _
    rw [stmtLoop]; simp [h1, h2]
  | @yld st0 rest v0 va vb y0 yb sa sb sc hv _ ih =>
    obtain ⟨f, hf⟩ := hv
    obtain ⟨g, hg⟩ := ih h
    refine ⟨max f g + 1, ?_⟩
    have h1 := evalStmt_lift hf (by simp [R.notFuel]) (Nat.le_max_left f g)
    have h2 := stmtLoop_lift hg (by simp [R.notFuel]) (Nat.le_max_right f g)
    show stmtLoop (max f g + 1) (st0 :: (rest ++ st :: post)) env v0 y0 [] sa = _
    rw [stmtLoop]; simp [h1, h2]

/-- … and therefore the program / body as a whole -/
theorem program_any_position {pre post : List Stmt} {st : Stmt} {env : Nat} {v1 : Val} {y1 : Option Val} {s s1 s' : St} {k msg : String}
    (hpre : StmtsOk env pre .nil none s v1 y1 s1) (h : RaisesStmt st env s1 k msg s') :
    ∃ fuel, evalStmts fuel (pre ++ st :: post) env s = (.err k msg, s') := by
  obtain ⟨f, hf⟩ := stmts_any_position (post := post) hpre h
  exact ⟨f + 1, body _ hf⟩

end Pangaea.C07

namespace Pangaea.C07
open Pangaea.Core

/-! ### arguments of a call: a raise in the k-th argument (plain, `*arr` or `**obj`) -/
def RaisesArgs (es : List Expr) (env : Nat) (acc : List Val) (kw : List (String × Val)) (s : St) (k msg : String) (s' : St) : Prop :=
  ∃ fuel, evalArgs fuel es env acc kw s = (.err k msg, s')

theorem evalArgs_lift {f g : Nat} {es : List Expr} {env : Nat} {acc : List Val} {kw : List (String × Val)} {s s' : St}
    {r : R (List Val × List (String × Val))} (h : evalArgs f es env acc kw s = (r, s')) (hr : r.notFuel) (hfg : f ≤ g) :
    evalArgs g es env acc kw s = (r, s') := by
  obtain ⟨k, rfl⟩ := Nat.exists_eq_add_of_le hfg
  induction k with
  | zero => exact h
  | succ k ih => exact (allLe (f + k)).evalArgs es env acc kw s r s' (ih (Nat.le_add_right _ _)) hr

/-- the arguments before position k: plain ones evaluate to values, `*e` to arrays, `**e` to objects -/
inductive ArgsOk (env : Nat) : List Expr → List Val → List (String × Val) → St → List Val → List (String × Val) → St → Prop
  | nil (acc : List Val) (kw : List (String × Val)) (s : St) : ArgsOk env [] acc kw s acc kw s
  | plain {e : Expr} {rest : List Expr} {acc acc2 : List Val} {kw kw2 : List (String × Val)} {s s1 s2 : St} {v : Val} :
      Plain e → GivesE e env s v s1 → ArgsOk env rest (acc ++ [v]) kw s1 acc2 kw2 s2 → ArgsOk env (e :: rest) acc kw s acc2 kw2 s2
  | arr {e : Expr} {rest : List Expr} {acc acc2 : List Val} {kw kw2 : List (String × Val)} {s s1 s2 : St} {xs : List Val} :
      GivesE e env s (.arr xs) s1 → ArgsOk env rest (acc ++ xs) kw s1 acc2 kw2 s2 → ArgsOk env (.pref "*" e :: rest) acc kw s acc2 kw2 s2
  | obj {e : Expr} {rest : List Expr} {acc acc2 : List Val} {kw kw2 : List (String × Val)} {s s1 s2 : St} {ps : List (String × Val)} :
      GivesE e env s (.obj ps) s1 → ArgsOk env rest acc (addAllFirst kw ps) s1 acc2 kw2 s2 → ArgsOk env (.pref "**" e :: rest) acc kw s acc2 kw2 s2

/-- **Fail-stop at every argument position.** -/
theorem args_any_position {pre post : List Expr} {e : Expr} {env : Nat} {acc acc1 : List Val} {kw kw1 : List (String × Val)}
    {s s1 s' : St} {k msg : String} (hp : Plain e) (hpre : ArgsOk env pre acc kw s acc1 kw1 s1) (h : RaisesE e env s1 k msg s') :
    RaisesArgs (pre ++ e :: post) env acc kw s k msg s' := by
  induction hpre with
  | nil acc kw s =>
    obtain ⟨f, hf⟩ := h
    exact ⟨f + 1, args_head e post acc kw hp hf⟩
  | @plain e0 rest acc0 acc2 kw0 kw2 sa sb sc v hp0 hv _ ih =>
    obtain ⟨f, hf⟩ := hv
    obtain ⟨g, hg⟩ := ih h
    have h1 : Gives (evalE (max f g) e0 env) sa v sb := evalE_lift hf (by simp [R.notFuel]) (Nat.le_max_left _ _)
    have h2 : Raises (evalArgs (max f g) (rest ++ e :: post) env (acc0 ++ [v]) kw0) sb k msg s' :=
      evalArgs_lift hg (by simp [R.notFuel]) (Nat.le_max_right _ _)
    exact ⟨max f g + 1, args_tail e0 _ acc0 kw0 v hp0 h1 h2⟩
  | @arr e0 rest acc0 acc2 kw0 kw2 sa sb sc xs hv _ ih =>
    obtain ⟨f, hf⟩ := hv
    obtain ⟨g, hg⟩ := ih h
    have h1 := evalE_lift hf (by simp [R.notFuel]) (Nat.le_max_left f g)
    have h2 := evalArgs_lift hg (by simp [R.notFuel]) (Nat.le_max_right f g)
    refine ⟨max f g + 1, ?_⟩
    show evalArgs (max f g + 1) (.pref "*" e0 :: (rest ++ e :: post)) env acc0 kw0 sa = _
    rw [evalArgs.eq_4]; simp [bindM, h1, h2]
  | @obj e0 rest acc0 acc2 kw0 kw2 sa sb sc ps hv _ ih =>
    obtain ⟨f, hf⟩ := hv
    obtain ⟨g, hg⟩ := ih h
    have h1 := evalE_lift hf (by simp [R.notFuel]) (Nat.le_max_left f g)
    have h2 := evalArgs_lift hg (by simp [R.notFuel]) (Nat.le_max_right f g)
    refine ⟨max f g + 1, ?_⟩
    show evalArgs (max f g + 1) (.pref "**" e0 :: (rest ++ e :: post)) env acc0 kw0 sa = _
    rw [evalArgs]; simp [bindM, h1, h2]

/-- **… of a property call**: the receiver and the chain argument evaluate, the arguments before position k evaluate,
    the k-th raises: the call raises the same error in the same state - the callee is never entered, later arguments
    and all keyword arguments are not evaluated. -/
theorem call_any_argument_position {recv : Expr} {m : Main} {a : Add} {prop : String} {pre post : List Expr} {e : Expr} {kws : List KwE}
    {env : Nat} {vr : Val} {acc1 : List Val} {kw1 : List (String × Val)} {s s0 s1 s' : St} {k msg : String} (hp : Plain e)
    (hrecv : GivesE recv env s vr s0) (hpre : ArgsOk env pre [] [] s0 acc1 kw1 s1) (h : RaisesE e env s1 k msg s') :
    RaisesE (.propCall (some recv) m a none prop (pre ++ e :: post) kws) env s k msg s' := by
  obtain ⟨f, hf⟩ := hrecv
  obtain ⟨g, hg⟩ := args_any_position (post := post) hp hpre h
  have h1 := evalE_lift hf (by simp [R.notFuel]) (Nat.le_max_left f g)
  have h2 := evalArgs_lift hg (by simp [R.notFuel]) (Nat.le_trans (Nat.le_max_right f g) (Nat.le_succ _))
  refine ⟨max f g + 2, ?_⟩
  apply call_arguments (some recv) m a none prop _ kws vr .nil (s1 := s0) (s2 := s0)
  · show evalRecv (max f g + 1) (some recv) env s = _
    simpa [evalRecv] using h1
  · simp [Gives, evalOpt]
  · exact h2

end Pangaea.C07
