/- C07, the implementation's side: the inventory of evaluation results that package evaluator never tests for an error,
   regenerated from evaluator/*.go on every run (extract/c07.go). Kept in its own module so that the theorems about
   the Core evaluator (used by C03, C04, C08, C12, C14, C15 as well) do not depend on the regenerated facts. -/
import Pangaea.Generated.C07
import Pangaea.Eval.ErrSites
namespace Pangaea.C07

/-- **Every evaluation result is checked.** The results of Eval-like calls that package evaluator never tests for an
    error are exactly the reviewed ones (conversion hooks, which the property excludes, and one unfinished feature). -/
theorem unchecked_results_are_the_reviewed_ones :
    Generated.C07.uncheckedResults = ErrSites.reviewed.map (·.1) ∧ Generated.C07.inspectedSites ≥ 40 := by decide +kernel

end Pangaea.C07
