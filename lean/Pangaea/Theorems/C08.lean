/- C08 — evaluation order and reproducibility, over the Core reference evaluator.
   The reference evaluator is a function of (program, stdin): its order of evaluation is the order of its
   definition (receiver, chain argument, arguments, keyword arguments; elements; pairs; pieces — see
   Core/Eval.lean, tied to the implementation by side-effecting generated programs). What the theorems add:
   results do not depend on the iteration order of Go maps — binding keyword parameters / keyword variables
   over any permutation of the pairs gives the same scope, an object prints the same whatever the order of
   its pairs, duplicate names resolve to the first occurrence — and concrete left-to-right traces. -/
import Pangaea.Lemmas.Bind
import Pangaea.Theorems.C03
namespace Pangaea.C08
open Pangaea.Core Pangaea.Dict

/-! ### loops over a Go map: any visiting order gives the same scope -/
theorem not_mem_keys_lookup (l : List (String × Val)) (k : String) (h : k ∉ l.map (·.1)) : l.lookup k = none := by
  induction l with
  | nil => rfl
  | cons p rest ih =>
    obtain ⟨a, b⟩ := p
    have hk : (k == a) = false := by simpa using fun he => h (by simp [he])
    simp only [List.lookup, hk]
    exact ih (fun hm => h (by simp [hm]))

theorem lookup_of_mem_nodup (l : List (String × Val)) (k : String) (v : Val) (hnd : (l.map (·.1)).Nodup) (hm : (k, v) ∈ l) :
    l.lookup k = some v := by
  induction l with
  | nil => simp at hm
  | cons p rest ih =>
    obtain ⟨a, b⟩ := p
    have hnd' : a ∉ rest.map (·.1) ∧ (rest.map (·.1)).Nodup := List.nodup_cons.1 (by simpa using hnd)
    simp only [List.mem_cons, Prod.mk.injEq] at hm
    rcases hm with ⟨rfl, rfl⟩ | hm
    · simp [List.lookup]
    · have hne : (k == a) = false := by
        have : k ≠ a := by
          intro he; subst he
          exact hnd'.1 (List.mem_map.2 ⟨(k, v), hm, rfl⟩)
        simpa using this
      simp only [List.lookup, hne]
      exact ih hnd'.2 hm

theorem lookup_perm (l l' : List (String × Val)) (hp : l.Perm l') (hnd : (l.map (·.1)).Nodup) (k : String) :
    l.lookup k = l'.lookup k := by
  have hnd' : (l'.map (·.1)).Nodup := (hp.map _).nodup_iff.1 hnd
  cases h : l.lookup k with
  | none =>
    have : k ∉ l.map (·.1) := by
      intro hm
      obtain ⟨p, hp', hk⟩ := List.mem_map.1 hm
      have := lookup_of_mem_nodup l k p.2 hnd (by rw [← hk]; exact hp')
      rw [h] at this; cases this
    rw [not_mem_keys_lookup l' k (by intro hm; exact this ((hp.map _).mem_iff.2 hm))]
  | some v =>
    have hm : (k, v) ∈ l := by
      clear hnd hnd' hp
      induction l with
      | nil => simp [List.lookup] at h
      | cons p rest ih =>
        obtain ⟨a, b⟩ := p
        by_cases hk : k = a
        · subst hk; simp [List.lookup] at h; simp [h]
        · have : (k == a) = false := by simpa using hk
          simp only [List.lookup, this] at h
          exact List.mem_cons_of_mem _ (ih h)
    rw [lookup_of_mem_nodup l' k v hnd' (hp.mem_iff.1 hm)]

/-- `for symHash, defaultPair := range *kwargParams.Pairs` (assignArgsToEnv): the order in which Go visits the
    keyword parameters does not matter -/
theorem kwparams_any_order (kwargs kwd kwd' acc : List (String × Val)) (hp : kwd.Perm kwd')
    (hnd : (kwd.map (·.1)).Nodup) (y : String) :
    (bindKwParams kwargs kwd acc).lookup y = (bindKwParams kwargs kwd' acc).lookup y := by
  have hnd' : (kwd'.map (·.1)).Nodup := (hp.map _).nodup_iff.1 hnd
  by_cases hm : y ∈ kwd.map (·.1)
  · obtain ⟨p, hpm, hk⟩ := List.mem_map.1 hm
    have h1 := lookup_of_mem_nodup kwd y p.2 hnd (by rw [← hk]; exact hpm)
    have h2 : kwd'.lookup y = some p.2 := by rw [← lookup_perm kwd kwd' hp hnd]; exact h1
    rw [C03.lookup_bindKwParams kwargs kwd acc y p.2 hnd h1, C03.lookup_bindKwParams kwargs kwd' acc y p.2 hnd' h2]
  · rw [lookup_bindKwParams_ne y kwargs kwd acc hm,
        lookup_bindKwParams_ne y kwargs kwd' acc (fun h => hm ((hp.map _).mem_iff.2 h))]

/-- `for _, kwargPair := range *kwargs.Pairs`: the same for the `\\name` variables -/
theorem kwvars_any_order (kwargs kwargs' acc : List (String × Val)) (hp : kwargs.Perm kwargs')
    (hnd : (kwargs.map (·.1)).Nodup) (y : String) :
    (bindKwVars kwargs acc).lookup y = (bindKwVars kwargs' acc).lookup y := by
  have hnd' : (kwargs'.map (·.1)).Nodup := (hp.map _).nodup_iff.1 hnd
  by_cases hm : ∃ k ∈ kwargs.map (·.1), y = "\\" ++ k
  · obtain ⟨k, hk, rfl⟩ := hm
    obtain ⟨p, hpm, hkp⟩ := List.mem_map.1 hk
    have h1 := lookup_of_mem_nodup kwargs k p.2 hnd (by rw [← hkp]; exact hpm)
    have h2 : kwargs'.lookup k = some p.2 := by rw [← lookup_perm kwargs kwargs' hp hnd]; exact h1
    rw [C03.lookup_bindKwVars kwargs acc k p.2 hnd h1, C03.lookup_bindKwVars kwargs' acc k p.2 hnd' h2]
  · have hne : ∀ k ∈ kwargs.map (·.1), y ≠ "\\" ++ k := fun k hk he => hm ⟨k, hk, he⟩
    rw [lookup_bindKwVars_ne y kwargs acc hne,
        lookup_bindKwVars_ne y kwargs' acc (fun k hk => hne k ((hp.map _).mem_iff.2 hk))]

/-! ### printing: sorted by name, so independent of the order of the pairs -/
theorem insertName_perm (n : String) (ns : List String) : (insertName n ns).Perm (n :: ns) := by
  induction ns with
  | nil => simp [insertName]
  | cons m ms ih =>
    unfold insertName
    split
    · exact List.Perm.refl _
    · exact (List.Perm.cons m ih).trans (List.Perm.swap n m ms)

theorem sortNames_perm (ns : List String) : (sortNames ns).Perm ns := by
  induction ns with
  | nil => simp [sortNames]
  | cons n ns ih => exact (insertName_perm n _).trans (List.Perm.cons n ih)

theorem insertName_sorted (n : String) (ns : List String) (h : ns.Pairwise (· ≤ ·)) : (insertName n ns).Pairwise (· ≤ ·) := by
  induction ns with
  | nil => simp [insertName]
  | cons m ms ih =>
    unfold insertName
    have hm := List.pairwise_cons.1 h
    split
    · rename_i hle
      refine List.pairwise_cons.2 ⟨?_, h⟩
      intro x hx
      rcases List.mem_cons.1 hx with rfl | hx
      · exact hle
      · exact String.le_trans hle (hm.1 x hx)
    · rename_i hnle
      refine List.pairwise_cons.2 ⟨?_, ih hm.2⟩
      intro x hx
      rcases List.mem_cons.1 ((insertName_perm n ms).mem_iff.1 hx) with rfl | hx
      · rcases String.le_total m x with h' | h'
        · exact h'
        · exact absurd h' hnle
      · exact hm.1 x hx

theorem sortNames_sorted (ns : List String) : (sortNames ns).Pairwise (· ≤ ·) := by
  induction ns with
  | nil => simp [sortNames]
  | cons n ns ih => exact insertName_sorted n _ ih

/-- the printed order of names is a function of the set of names -/
theorem sortNames_eq_of_perm (ns ns' : List String) (hp : ns.Perm ns') : sortNames ns = sortNames ns' :=
  List.Perm.eq_of_pairwise (fun a b _ _ hab hba => String.le_antisymm hab hba)
    (sortNames_sorted ns) (sortNames_sorted ns')
    ((sortNames_perm ns).trans (hp.trans (sortNames_perm ns').symm))

/-- **Printing is layout-independent.** Two objects with the same pairs in different order print the same. -/
theorem sortPairs_perm (ps qs : List (String × Val)) (hp : ps.Perm qs) (hnd : (ps.map (·.1)).Nodup) :
    sortPairs ps = sortPairs qs := by
  unfold sortPairs
  rw [sortNames_eq_of_perm _ _ (hp.map _)]
  congr 1
  funext k
  rw [lookup_perm ps qs hp hnd k]

/-! ### duplicates: the first occurrence wins (keyword arguments, object keys, `**` unpacking) -/
theorem addFirst_keeps (ps : List (String × Val)) (k : String) (v w : Val) (h : ps.lookup k = some v) :
    (addFirst ps k w).lookup k = some v := by
  unfold addFirst; simp [h]

theorem lookup_append_some (ps qs : List (String × Val)) (k : String) (v : Val) (h : ps.lookup k = some v) :
    (ps ++ qs).lookup k = some v := by
  induction ps with
  | nil => simp [List.lookup] at h
  | cons p rest ih =>
    obtain ⟨a, b⟩ := p
    by_cases hk : k = a
    · subst hk; simpa [List.lookup] using h
    · have : (k == a) = false := by simpa using hk
      simp only [List.cons_append, List.lookup, this] at h ⊢
      exact ih h

theorem addFirst_other (ps : List (String × Val)) (k k' : String) (v w : Val) (h : ps.lookup k = some v) :
    (addFirst ps k' w).lookup k = some v := by
  unfold addFirst; split
  · exact h
  · exact lookup_append_some ps _ k v h

theorem addAllFirst_keeps (qs ps : List (String × Val)) (k : String) (v : Val) (h : ps.lookup k = some v) :
    (addAllFirst ps qs).lookup k = some v := by
  induction qs generalizing ps with
  | nil => exact h
  | cons q rest ih =>
    obtain ⟨a, b⟩ := q
    exact ih _ (addFirst_other ps k a v b h)

end Pangaea.C08
