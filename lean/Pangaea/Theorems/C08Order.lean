/- C08 — "each element is evaluated exactly once, in source order", as an equivalence between the reference
   evaluator on array literals and the obvious sequential specification (fuel-free, by fuel monotonicity). -/
import Pangaea.Theorems.C07Any
namespace Pangaea.C08
open Pangaea.Core Pangaea.C07

/-- the specification: elements are evaluated one after the other, left to right, each exactly once, the state
    threaded through; `*e` contributes the elements of the array `e` evaluates to -/
inductive SeqElems (env : Nat) : List Expr → St → List Val → St → Prop
  | nil (s : St) : SeqElems env [] s [] s
  | plain {e : Expr} {rest : List Expr} {s s1 s2 : St} {v : Val} {vs : List Val} :
      Plain e → GivesE e env s v s1 → SeqElems env rest s1 vs s2 → SeqElems env (e :: rest) s (v :: vs) s2
  | unpacked {e : Expr} {rest : List Expr} {s s1 s2 : St} {xs vs : List Val} :
      GivesE e env s (.arr xs) s1 → SeqElems env rest s1 vs s2 → SeqElems env (.pref "*" e :: rest) s (xs ++ vs) s2

/-- the evaluator meets the specification … -/
theorem seq_of_gives : ∀ (es : List Expr) (fuel env : Nat) (s s' : St) (vs : List Val),
    (∀ e ∈ es, Plain e ∨ ∃ e', e = .pref "*" e') →
    evalElems fuel es env s = (.ok vs, s') → SeqElems env es s vs s'
  | es, 0, env, s, s', vs, _, h => by simp [evalElems, outOfFuel] at h
  | [], fuel + 1, env, s, s', vs, _, h => by
    simp [evalElems, pureM] at h
    obtain ⟨rfl, rfl⟩ := h
    exact SeqElems.nil s
  | e :: rest, fuel + 1, env, s, s', vs, hall, h => by
    have hrest : ∀ x ∈ rest, Plain x ∨ ∃ e', x = .pref "*" e' := fun x hx => hall x (List.mem_cons_of_mem _ hx)
    rcases hall e (List.mem_cons_self) with hp | ⟨e', rfl⟩
    · rw [evalElems.eq_4 _ _ _ _ (fun e' he => (hp e').1 he)] at h
      unfold bindM at h
      rcases hm : evalE fuel e env s with ⟨r, s1⟩
      rw [hm] at h
      cases r with
      | ok v =>
        simp only at h
        rcases hm2 : evalElems fuel rest env s1 with ⟨r2, s2⟩
        rw [hm2] at h
        cases r2 with
        | ok vs' =>
          simp [pureM] at h
          obtain ⟨rfl, rfl⟩ := h
          exact SeqElems.plain hp ⟨fuel, hm⟩ (seq_of_gives rest fuel env s1 s2 vs' hrest hm2)
        | _ => simp at h
      | _ => simp at h
    · rw [evalElems] at h
      unfold bindM at h
      rcases hm : evalE fuel e' env s with ⟨r, s1⟩
      rw [hm] at h
      cases r with
      | ok v =>
        cases v with
        | arr xs =>
          simp only at h
          rcases hm2 : evalElems fuel rest env s1 with ⟨r2, s2⟩
          rw [hm2] at h
          cases r2 with
          | ok vs' =>
            simp [pureM] at h
            obtain ⟨rfl, rfl⟩ := h
            exact SeqElems.unpacked ⟨fuel, hm⟩ (seq_of_gives rest fuel env s1 s2 vs' hrest hm2)
          | _ => simp at h
        | _ => simp [throwM] at h
      | _ => simp at h

/-- … and everything the specification allows is what the evaluator does -/
theorem gives_of_seq {env : Nat} {es : List Expr} {s s' : St} {vs : List Val} (h : SeqElems env es s vs s') :
    GivesElems es env s vs s' := by
  induction h with
  | nil s => exact ⟨1, by simp [evalElems, pureM]⟩
  | @plain e rest s s1 s2 v vs hp hv _ ih =>
    obtain ⟨f, hf⟩ := hv
    obtain ⟨g, hg⟩ := ih
    have h1 := evalE_lift hf (by simp [R.notFuel]) (Nat.le_max_left f g)
    have h2 := evalElems_lift hg (by simp [R.notFuel]) (Nat.le_max_right f g)
    refine ⟨max f g + 1, ?_⟩
    rw [evalElems.eq_4 _ _ _ _ (fun e' he => (hp e').1 he)]
    simp [bindM, h1, h2, pureM]
  | @unpacked e rest s s1 s2 xs vs hv _ ih =>
    obtain ⟨f, hf⟩ := hv
    obtain ⟨g, hg⟩ := ih
    have h1 := evalE_lift hf (by simp [R.notFuel]) (Nat.le_max_left f g)
    have h2 := evalElems_lift hg (by simp [R.notFuel]) (Nat.le_max_right f g)
    refine ⟨max f g + 1, ?_⟩
    rw [evalElems]
    simp [bindM, h1, h2, pureM]

/-- **Elements are evaluated exactly once, left to right.** An array literal evaluates to `vs` ending in state `s'`
    exactly when evaluating its elements one after the other in the order written does. -/
theorem elems_left_to_right (es : List Expr) (env : Nat) (s s' : St) (vs : List Val)
    (hall : ∀ e ∈ es, Plain e ∨ ∃ e', e = .pref "*" e') :
    GivesE (.arr es) env s (.arr vs) s' ↔ SeqElems env es s vs s' := by
  constructor
  · rintro ⟨f, hf⟩
    cases f with
    | zero => simp [evalE, outOfFuel] at hf
    | succ f =>
      rw [evalE] at hf
      unfold bindM at hf
      rcases hm : evalElems f es env s with ⟨r, s1⟩
      rw [hm] at hf
      cases r with
      | ok vs' =>
        simp [pureM] at hf
        obtain ⟨rfl, rfl⟩ := hf
        exact seq_of_gives es f env s s1 vs' hall hm
      | _ => simp at hf
  · intro h
    obtain ⟨f, hf⟩ := gives_of_seq h
    exact ⟨f + 1, by rw [evalE]; simp [bindM, hf, pureM]⟩

end Pangaea.C08

namespace Pangaea.C08
open Pangaea.Core Pangaea.C07

/-- **Order of a call.** Whenever a property call ends with a value or an error OF THE CALLEE, its evaluation went
    through these stages in this order, each starting in the state the previous one ended in: the receiver, the
    chain argument, the positional arguments (with `*` / `**` unpacked in place), the keyword arguments, and only
    then the call itself. -/
theorem call_order (fuel : Nat) (recv : Option Expr) (m : Main) (a : Add) (ca : Option Expr) (prop : String)
    (args : List Expr) (kws : List KwE) (env : Nat) (s s' : St) (v : Val)
    (h : evalE (fuel + 1) (.propCall recv m a ca prop args kws) env s = (.ok v, s')) :
    ∃ vr s0 vc s1 vargs unpacked s2 vkws s3,
      evalRecv fuel recv env s = (.ok vr, s0) ∧
      evalOpt fuel ca env s0 = (.ok vc, s1) ∧
      evalArgs fuel args env [] [] s1 = (.ok (vargs, unpacked), s2) ∧
      evalKws fuel kws env [] s2 = (.ok vkws, s3) ∧
      propChain fuel m a vr vc prop vargs (addAllFirst vkws unpacked) env s3 = (.ok v, s') := by
  rw [evalE] at h
  unfold bindM at h
  rcases h0 : evalRecv fuel recv env s with ⟨r0, s0⟩
  rw [h0] at h
  cases r0 with
  | ok vr =>
    simp only at h
    rcases h1 : evalOpt fuel ca env s0 with ⟨r1, s1⟩
    rw [h1] at h
    cases r1 with
    | ok vc =>
      simp only at h
      rcases h2 : evalArgs fuel args env [] [] s1 with ⟨r2, s2⟩
      rw [h2] at h
      cases r2 with
      | ok p =>
        obtain ⟨vargs, unpacked⟩ := p
        simp only at h
        rcases h3 : evalKws fuel kws env [] s2 with ⟨r3, s3⟩
        rw [h3] at h
        cases r3 with
        | ok vkws => exact ⟨vr, s0, vc, s1, vargs, unpacked, s2, vkws, s3, rfl, h1, h2, h3, h⟩
        | _ => simp at h
      | _ => simp at h
    | _ => simp at h
  | _ => simp at h

end Pangaea.C08

namespace Pangaea.C08
open Pangaea.Core Pangaea.C07

/-- **Order of an infix operator.** Whenever `l op r` (op not `&&` / `||`) ends with a value, the left operand was
    evaluated first, the right operand in the state the left one left, and only then the operator's method was
    called - each exactly once. -/
theorem infix_order (fuel : Nat) (op : String) (l r : Expr) (env : Nat) (s s' : St) (v : Val)
    (hop : (op == "||" || op == "&&") = false)
    (h : evalE (fuel + 1) (.infix op l r) env s = (.ok v, s')) :
    ∃ vl s1 vr s2,
      evalE fuel l env s = (.ok vl, s1) ∧ evalE fuel r env s1 = (.ok vr, s2) ∧
      callPropQuiet fuel vl op [vr] env s2 = (.ok v, s') := by
  rw [evalE] at h
  simp only [hop, Bool.false_eq_true, ↓reduceIte] at h
  unfold bindM at h
  rcases h0 : evalE fuel l env s with ⟨r0, s1⟩
  rw [h0] at h
  cases r0 with
  | ok vl =>
    simp only at h
    rcases h1 : evalE fuel r env s1 with ⟨r1, s2⟩
    rw [h1] at h
    cases r1 with
    | ok vr => simp only at h; exact ⟨vl, s1, vr, s2, rfl, h1, h⟩
    | _ => simp at h
  | _ => simp at h

/-- **Order of a range literal.** start, then stop, then step - each bound that is written evaluated once, each in
    the state the previous one left. -/
theorem range_order (fuel : Nat) (a b c : Option Expr) (env : Nat) (s s' : St) (v : Val)
    (h : evalE (fuel + 1) (.range a b c) env s = (.ok v, s')) :
    ∃ va s1 vb s2 vc,
      evalOpt fuel a env s = (.ok va, s1) ∧ evalOpt fuel b env s1 = (.ok vb, s2) ∧ evalOpt fuel c env s2 = (.ok vc, s') ∧
      v = .range va vb vc := by
  cases a <;> cases b <;> cases c <;>
  · rw [evalE] at h
    unfold bindM at h
    rcases h0 : evalOpt fuel _ env s with ⟨r0, s1⟩
    rw [h0] at h
    cases r0 with
    | ok va =>
      simp only at h
      rcases h1 : evalOpt fuel _ env s1 with ⟨r1, s2⟩
      rw [h1] at h
      cases r1 with
      | ok vb =>
        simp only at h
        rcases h2 : evalOpt fuel _ env s2 with ⟨r2, s3⟩
        rw [h2] at h
        cases r2 with
        | ok vc =>
          simp [pureM] at h
          obtain ⟨rfl, rfl⟩ := h
          exact ⟨va, s1, vb, s2, vc, rfl, h1, h2, rfl⟩
        | _ => simp at h
      | _ => simp at h
    | _ => simp at h

end Pangaea.C08

namespace Pangaea.C08
open Pangaea.Core Pangaea.C07

/-- keyword arguments: evaluated one after the other in the order written, each exactly once; a name that occurs
    again does not replace the value already bound (`addFirst`: the first occurrence wins) -/
inductive SeqKws (env : Nat) : List KwE → List (String × Val) → St → List (String × Val) → St → Prop
  | nil (acc : List (String × Val)) (s : St) : SeqKws env [] acc s acc s
  | cons {name : String} {e : Expr} {rest : List KwE} {acc res : List (String × Val)} {s s1 s2 : St} {v : Val} :
      GivesE e env s v s1 → SeqKws env rest (addFirst acc name v) s1 res s2 → SeqKws env (.mk name e :: rest) acc s res s2

theorem evalKws_lift {f g : Nat} {kws : List KwE} {env : Nat} {acc : List (String × Val)} {s s' : St} {r : R (List (String × Val))}
    (h : evalKws f kws env acc s = (r, s')) (hr : r.notFuel) (hfg : f ≤ g) : evalKws g kws env acc s = (r, s') := by
  obtain ⟨k, rfl⟩ := Nat.exists_eq_add_of_le hfg
  induction k with
  | zero => exact h
  | succ k ih => exact (allLe (f + k)).evalKws kws env acc s r s' (ih (Nat.le_add_right _ _)) hr

theorem kws_of_seq {env : Nat} {kws : List KwE} {acc res : List (String × Val)} {s s' : St} (h : SeqKws env kws acc s res s') :
    ∃ fuel, evalKws fuel kws env acc s = (.ok res, s') := by
  induction h with
  | nil acc s => exact ⟨1, by simp [evalKws, pureM]⟩
  | @cons name e rest acc res s s1 s2 v hv _ ih =>
    obtain ⟨f, hf⟩ := hv
    obtain ⟨g, hg⟩ := ih
    have h1 := evalE_lift hf (by simp [R.notFuel]) (Nat.le_max_left f g)
    have h2 := evalKws_lift hg (by simp [R.notFuel]) (Nat.le_max_right f g)
    exact ⟨max f g + 1, by rw [evalKws]; simp [bindM, h1, h2]⟩

theorem seq_of_kws {env : Nat} : ∀ (kws : List KwE) (f : Nat) (acc res : List (String × Val)) (s s' : St),
    evalKws f kws env acc s = (.ok res, s') → SeqKws env kws acc s res s' := by
  intro kws
  induction kws with
  | nil =>
    intro f acc res s s' h
    cases f with
    | zero => simp [evalKws, outOfFuel] at h
    | succ f => simp [evalKws, pureM] at h; obtain ⟨rfl, rfl⟩ := h; exact .nil _ _
  | cons kw rest ih =>
    intro f acc res s s' h
    obtain ⟨name, e⟩ := kw
    cases f with
    | zero => simp [evalKws, outOfFuel] at h
    | succ f =>
      rw [evalKws] at h
      simp only [bindM] at h
      cases hev : evalE f e env s with
      | mk r0 s1 =>
        rw [hev] at h
        cases r0 with
        | ok v => simp only at h; exact .cons ⟨f, hev⟩ (ih f _ res s1 s' h)
        | _ => simp at h

/-- **Keyword arguments are evaluated in the order written, each once, first occurrence wins.** -/
theorem kwargs_in_order_written (kws : List KwE) (env : Nat) (acc res : List (String × Val)) (s s' : St) :
    (∃ fuel, evalKws fuel kws env acc s = (.ok res, s')) ↔ SeqKws env kws acc s res s' :=
  ⟨fun ⟨f, hf⟩ => seq_of_kws kws f acc res s s' hf, kws_of_seq⟩

/-- a duplicated keyword keeps the value written first: once a name is bound, a later occurrence changes nothing -/
theorem duplicate_keyword_first_wins (acc : List (String × Val)) (name : String) (v w : Val)
    (h : acc.lookup name = some v) : addFirst acc name w = acc := by
  unfold addFirst; simp [h]

end Pangaea.C08

namespace Pangaea.C08
open Pangaea.Core Pangaea.C07

/-- the interpolated parts of a string: one after the other in source order, each evaluated once and converted with
    its `S`, the text accumulated left to right -/
inductive SeqPieces (env : Nat) : List PieceE → String → St → String → St → Prop
  | nil (acc : String) (s : St) : SeqPieces env [] acc s acc s
  | cons {str : String} {e : Expr} {rest : List PieceE} {acc res sv : String} {s s1 s2 s3 : St} {v : Val} :
      GivesE e env s v s1 → (∃ fuel, callPropQuiet fuel v "S" [] env s1 = (.ok (.str sv), s2)) →
      SeqPieces env rest (acc ++ str ++ sv) s2 res s3 → SeqPieces env (.mk str e :: rest) acc s res s3

theorem evalPieces_lift {f g : Nat} {ps : List PieceE} {env : Nat} {acc : String} {s s' : St} {r : R String}
    (h : evalPieces f ps env acc s = (r, s')) (hr : r.notFuel) (hfg : f ≤ g) : evalPieces g ps env acc s = (r, s') := by
  obtain ⟨k, rfl⟩ := Nat.exists_eq_add_of_le hfg
  induction k with
  | zero => exact h
  | succ k ih => exact (allLe (f + k)).evalPieces ps env acc s r s' (ih (Nat.le_add_right _ _)) hr

theorem callPropQuiet_lift {f g : Nat} {v : Val} {n : String} {args : List Val} {env : Nat} {s s' : St} {r : R Val}
    (h : callPropQuiet f v n args env s = (r, s')) (hr : r.notFuel) (hfg : f ≤ g) : callPropQuiet g v n args env s = (r, s') := by
  obtain ⟨k, rfl⟩ := Nat.exists_eq_add_of_le hfg
  induction k with
  | zero => exact h
  | succ k ih => exact (allLe (f + k)).callPropQuiet v n args env s r s' (ih (Nat.le_add_right _ _)) hr

theorem pieces_of_seq {env : Nat} {ps : List PieceE} {acc res : String} {s s' : St} (h : SeqPieces env ps acc s res s') :
    ∃ fuel, evalPieces fuel ps env acc s = (.ok res, s') := by
  induction h with
  | nil acc s => exact ⟨1, by simp [evalPieces, pureM]⟩
  | @cons str e rest acc res sv s s1 s2 s3 v hv hs _ ih =>
    obtain ⟨f, hf⟩ := hv
    obtain ⟨c, hc⟩ := hs
    obtain ⟨g, hg⟩ := ih
    have h1 := evalE_lift hf (by simp [R.notFuel]) (Nat.le_max_left f (max c g))
    have h2 := callPropQuiet_lift hc (by simp [R.notFuel]) (Nat.le_trans (Nat.le_max_left c g) (Nat.le_max_right f (max c g)))
    have h3 := evalPieces_lift hg (by simp [R.notFuel]) (Nat.le_trans (Nat.le_max_right c g) (Nat.le_max_right f (max c g)))
    exact ⟨max f (max c g) + 1, by rw [evalPieces]; simp [bindM, h1, h2, h3]⟩

theorem seq_of_pieces {env : Nat} : ∀ (ps : List PieceE) (f : Nat) (acc res : String) (s s' : St),
    evalPieces f ps env acc s = (.ok res, s') → SeqPieces env ps acc s res s' := by
  intro ps
  induction ps with
  | nil =>
    intro f acc res s s' h
    cases f with
    | zero => simp [evalPieces, outOfFuel] at h
    | succ f => simp [evalPieces, pureM] at h; obtain ⟨rfl, rfl⟩ := h; exact .nil _ _
  | cons p rest ih =>
    intro f acc res s s' h
    obtain ⟨str, e⟩ := p
    cases f with
    | zero => simp [evalPieces, outOfFuel] at h
    | succ f =>
      rw [evalPieces] at h
      simp only [bindM] at h
      cases hev : evalE f e env s with
      | mk r0 s1 =>
        rw [hev] at h
        cases r0 with
        | ok v =>
          simp only at h
          cases hc : callPropQuiet f v "S" [] env s1 with
          | mk r1 s2 =>
            rw [hc] at h
            cases r1 with
            | ok sv =>
              cases sv with
              | str t => simp only at h; exact .cons ⟨f, hev⟩ ⟨f, hc⟩ (ih f _ res s2 s' h)
              | _ => simp [throwM] at h
            | _ => simp at h
        | _ => simp at h

/-- **The interpolated parts of a string are evaluated once each, in source order.** -/
theorem embedded_parts_in_source_order (ps : List PieceE) (env : Nat) (acc res : String) (s s' : St) :
    (∃ fuel, evalPieces fuel ps env acc s = (.ok res, s')) ↔ SeqPieces env ps acc s res s' :=
  ⟨fun ⟨f, hf⟩ => seq_of_pieces ps f acc res s s' hf, pieces_of_seq⟩

end Pangaea.C08

namespace Pangaea.C08
open Pangaea.Core Pangaea.C07

/-- the pairs of an object literal: one after the other in source order; within a pair with a computed key the
    value is evaluated before the key (as the implementation does); a name that occurs again keeps the first value -/
inductive SeqPairs (env : Nat) : List PairE → List (String × Val) → St → List (String × Val) → St → Prop
  | nil (acc : List (String × Val)) (s : St) : SeqPairs env [] acc s acc s
  | named {k : String} {e : Expr} {rest : List PairE} {acc res : List (String × Val)} {s s1 s2 : St} {v : Val} :
      GivesE e env s v s1 → SeqPairs env rest (addFirst acc k v) s1 res s2 → SeqPairs env (.named k e :: rest) acc s res s2
  | pinned {k ks : String} {e : Expr} {rest : List PairE} {acc res : List (String × Val)} {s s1 s2 s3 : St} {v : Val} :
      GivesE e env s v s1 → GivesE (.ident k) env s1 (.str ks) s2 → SeqPairs env rest (addFirst acc ks v) s2 res s3 →
      SeqPairs env (.pinned k e :: rest) acc s res s3
  | computed {ke e : Expr} {ks : String} {rest : List PairE} {acc res : List (String × Val)} {s s1 s2 s3 : St} {v : Val} :
      GivesE e env s v s1 → GivesE ke env s1 (.str ks) s2 → SeqPairs env rest (addFirst acc ks v) s2 res s3 →
      SeqPairs env (.computed ke e :: rest) acc s res s3

theorem evalPairs_lift {f g : Nat} {ps : List PairE} {env : Nat} {acc : List (String × Val)} {s s' : St} {r : R (List (String × Val))}
    (h : evalPairs f ps env acc s = (r, s')) (hr : r.notFuel) (hfg : f ≤ g) : evalPairs g ps env acc s = (r, s') := by
  obtain ⟨k, rfl⟩ := Nat.exists_eq_add_of_le hfg
  induction k with
  | zero => exact h
  | succ k ih => exact (allLe (f + k)).evalPairs ps env acc s r s' (ih (Nat.le_add_right _ _)) hr

theorem pairs_of_seq {env : Nat} {ps : List PairE} {acc res : List (String × Val)} {s s' : St} (h : SeqPairs env ps acc s res s') :
    ∃ fuel, evalPairs fuel ps env acc s = (.ok res, s') := by
  induction h with
  | nil acc s => exact ⟨1, by simp [evalPairs, pureM]⟩
  | @named k e rest acc res s s1 s2 v hv _ ih =>
    obtain ⟨f, hf⟩ := hv
    obtain ⟨g, hg⟩ := ih
    have h1 := evalE_lift hf (by simp [R.notFuel]) (Nat.le_max_left f g)
    have h2 := evalPairs_lift hg (by simp [R.notFuel]) (Nat.le_max_right f g)
    exact ⟨max f g + 1, by rw [evalPairs]; simp [bindM, h1, h2]⟩
  | @pinned k ks e rest acc res s s1 s2 s3 v hv hk _ ih =>
    obtain ⟨f, hf⟩ := hv
    obtain ⟨c, hc⟩ := hk
    obtain ⟨g, hg⟩ := ih
    have h1 := evalE_lift hf (by simp [R.notFuel]) (Nat.le_max_left f (max c g))
    have h2 := evalE_lift hc (by simp [R.notFuel]) (Nat.le_trans (Nat.le_max_left c g) (Nat.le_max_right f (max c g)))
    have h3 := evalPairs_lift hg (by simp [R.notFuel]) (Nat.le_trans (Nat.le_max_right c g) (Nat.le_max_right f (max c g)))
    exact ⟨max f (max c g) + 1, by rw [evalPairs]; simp [bindM, h1, h2, h3]⟩
  | @computed ke e ks rest acc res s s1 s2 s3 v hv hk _ ih =>
    obtain ⟨f, hf⟩ := hv
    obtain ⟨c, hc⟩ := hk
    obtain ⟨g, hg⟩ := ih
    have h1 := evalE_lift hf (by simp [R.notFuel]) (Nat.le_max_left f (max c g))
    have h2 := evalE_lift hc (by simp [R.notFuel]) (Nat.le_trans (Nat.le_max_left c g) (Nat.le_max_right f (max c g)))
    have h3 := evalPairs_lift hg (by simp [R.notFuel]) (Nat.le_trans (Nat.le_max_right c g) (Nat.le_max_right f (max c g)))
    exact ⟨max f (max c g) + 1, by rw [evalPairs]; simp [bindM, h1, h2, h3]⟩

theorem seq_of_pairs {env : Nat} : ∀ (ps : List PairE) (f : Nat) (acc res : List (String × Val)) (s s' : St),
    evalPairs f ps env acc s = (.ok res, s') → SeqPairs env ps acc s res s' := by
  intro ps
  induction ps with
  | nil =>
    intro f acc res s s' h
    cases f with
    | zero => simp [evalPairs, outOfFuel] at h
    | succ f => simp [evalPairs, pureM] at h; obtain ⟨rfl, rfl⟩ := h; exact .nil _ _
  | cons p rest ih =>
    intro f acc res s s' h
    cases f with
    | zero => simp [evalPairs, outOfFuel] at h
    | succ f =>
      cases p with
      | named k e =>
        rw [evalPairs] at h
        simp only [bindM] at h
        cases hev : evalE f e env s with
        | mk r0 s1 =>
          rw [hev] at h
          cases r0 with
          | ok v => simp only at h; exact .named ⟨f, hev⟩ (ih f _ res s1 s' h)
          | _ => simp at h
      | pinned k e =>
        rw [evalPairs] at h
        simp only [bindM] at h
        cases hev : evalE f e env s with
        | mk r0 s1 =>
          rw [hev] at h
          cases r0 with
          | ok v =>
            simp only at h
            cases hk : evalE f (.ident k) env s1 with
            | mk r1 s2 =>
              rw [hk] at h
              cases r1 with
              | ok kv =>
                cases kv with
                | str ks => simp only at h; exact .pinned ⟨f, hev⟩ ⟨f, hk⟩ (ih f _ res s2 s' h)
                | _ => simp [throwM] at h
              | _ => simp at h
          | _ => simp at h
      | computed ke e =>
        rw [evalPairs] at h
        simp only [bindM] at h
        cases hev : evalE f e env s with
        | mk r0 s1 =>
          rw [hev] at h
          cases r0 with
          | ok v =>
            simp only at h
            cases hk : evalE f ke env s1 with
            | mk r1 s2 =>
              rw [hk] at h
              cases r1 with
              | ok kv =>
                cases kv with
                | str ks => simp only at h; exact .computed ⟨f, hev⟩ ⟨f, hk⟩ (ih f _ res s2 s' h)
                | _ => simp [throwM] at h
              | _ => simp at h
          | _ => simp at h

/-- **The pairs of an object literal are evaluated once each, in source order; the first value given for a name is kept.** -/
theorem pairs_in_source_order (ps : List PairE) (env : Nat) (acc res : List (String × Val)) (s s' : St) :
    (∃ fuel, evalPairs fuel ps env acc s = (.ok res, s')) ↔ SeqPairs env ps acc s res s' :=
  ⟨fun ⟨f, hf⟩ => seq_of_pairs ps f acc res s s' hf, pairs_of_seq⟩

end Pangaea.C08

namespace Pangaea.C08
open Pangaea.Core Pangaea.C07

/-- **Positional arguments are evaluated once each, in the order written**, `*e` contributing the elements of its
    array and `**e` the pairs of its object (first occurrence of a name wins): whenever the sequential specification
    `C07.ArgsOk` holds, `evalArgs` computes exactly its result and final state. -/
theorem args_in_order_written {env : Nat} {es : List Expr} {acc acc2 : List Val} {kw kw2 : List (String × Val)} {s s2 : St}
    (h : ArgsOk env es acc kw s acc2 kw2 s2) : ∃ fuel, evalArgs fuel es env acc kw s = (.ok (acc2, kw2), s2) := by
  induction h with
  | nil acc kw s => exact ⟨1, by simp [evalArgs, pureM]⟩
  | @plain e rest acc acc2 kw kw2 s s1 s2 v hp hv _ ih =>
    obtain ⟨f, hf⟩ := hv
    obtain ⟨g, hg⟩ := ih
    have h1 := evalE_lift hf (by simp [R.notFuel]) (Nat.le_max_left f g)
    have h2 := evalArgs_lift hg (by simp [R.notFuel]) (Nat.le_max_right f g)
    refine ⟨max f g + 1, ?_⟩
    rw [evalArgs.eq_5 _ _ _ _ _ _ (fun e' he => (hp e').2 he) (fun e' he => (hp e').1 he)]
    simp [bindM, h1, h2]
  | @arr e rest acc acc2 kw kw2 s s1 s2 xs hv _ ih =>
    obtain ⟨f, hf⟩ := hv
    obtain ⟨g, hg⟩ := ih
    have h1 := evalE_lift hf (by simp [R.notFuel]) (Nat.le_max_left f g)
    have h2 := evalArgs_lift hg (by simp [R.notFuel]) (Nat.le_max_right f g)
    exact ⟨max f g + 1, by rw [evalArgs.eq_4]; simp [bindM, h1, h2]⟩
  | @obj e rest acc acc2 kw kw2 s s1 s2 ps hv _ ih =>
    obtain ⟨f, hf⟩ := hv
    obtain ⟨g, hg⟩ := ih
    have h1 := evalE_lift hf (by simp [R.notFuel]) (Nat.le_max_left f g)
    have h2 := evalArgs_lift hg (by simp [R.notFuel]) (Nat.le_max_right f g)
    exact ⟨max f g + 1, by rw [evalArgs]; simp [bindM, h1, h2]⟩

end Pangaea.C08
