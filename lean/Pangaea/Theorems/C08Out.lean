/- C08 (and C07) — output and input are monotone: whatever is evaluated, printed lines are only appended (never
   retracted or reordered) and standard input is only consumed from the front. Instances of the invariance
   principle `allStable` (Lemmas/Stable.lean) for all 29 functions of the Core evaluator. -/
import Pangaea.Lemmas.Stable
namespace Pangaea.C08
open Pangaea.Core

def OutGrows (s s' : St) : Prop := ∃ suf, s'.out = s.out ++ suf
def InpConsumed (s s' : St) : Prop := ∃ pre, s.inp = pre ++ s'.inp

theorem outGrows_prim : PrimStable OutGrows where
  refl := fun s => ⟨[], by simp⟩
  trans := by
    rintro a b c ⟨x, hx⟩ ⟨y, hy⟩
    exact ⟨x ++ y, by rw [hy, hx, List.append_assoc]⟩
  setVar := fun _ _ _ s => ⟨[], by simp [setVar]⟩
  allocFrame := fun _ s => ⟨[], by simp [allocFrame]⟩
  copyFrame := fun _ s => ⟨[], by simp [copyFrame]⟩
  enterCall := fun _ _ _ _ _ s => ⟨[], by simp [enterCall]⟩
  printLine := fun l s => ⟨[l], by simp [printLine]⟩
  readLine := fun s => ⟨[], by unfold readLine; cases s.inp <;> simp⟩
  newIter := fun _ _ _ _ s => ⟨[], by simp [newIter]⟩
  copyIter := fun _ s => ⟨[], by simp [copyIter, newIter]⟩
  repointIter := fun _ _ s => ⟨[], by simp [repointIter]⟩

theorem inpConsumed_prim : PrimStable InpConsumed where
  refl := fun s => ⟨[], by simp⟩
  trans := by
    rintro a b c ⟨x, hx⟩ ⟨y, hy⟩
    exact ⟨x ++ y, by rw [hx, hy, List.append_assoc]⟩
  setVar := fun _ _ _ s => ⟨[], by simp [setVar]⟩
  allocFrame := fun _ s => ⟨[], by simp [allocFrame]⟩
  copyFrame := fun _ s => ⟨[], by simp [copyFrame]⟩
  enterCall := fun _ _ _ _ _ s => ⟨[], by simp [enterCall]⟩
  printLine := fun l s => ⟨[], by simp [printLine]⟩
  readLine := fun s => by
    unfold readLine
    cases h : s.inp with
    | nil => exact ⟨[], by simp [h]⟩
    | cons l rest => exact ⟨[l], by simp [h]⟩
  newIter := fun _ _ _ _ s => ⟨[], by simp [newIter]⟩
  copyIter := fun _ s => ⟨[], by simp [copyIter, newIter]⟩
  repointIter := fun _ _ s => ⟨[], by simp [repointIter]⟩

/-- **Output only grows.** For every expression, scope, state and fuel: the lines printed so far are a prefix of the
    lines printed afterwards - whether the evaluation ends in a value or in an error. -/
theorem output_only_grows (fuel : Nat) (e : Expr) (env : Nat) (s : St) : OutGrows s (evalE fuel e env s).2 :=
  (allStable outGrows_prim fuel).evalE e env s

theorem program_output_only_grows (fuel : Nat) (prog : List Stmt) (env : Nat) (s : St) : OutGrows s (evalStmts fuel prog env s).2 :=
  (allStable outGrows_prim fuel).evalStmts prog env s

theorem call_output_only_grows (fuel : Nat) (f : Val) (args : List Val) (kw : List (String × Val)) (s : St) :
    OutGrows s (callVal fuel f args kw s).2 :=
  (allStable outGrows_prim fuel).callVal f args kw s

/-- **Standard input is only consumed from the front.** -/
theorem stdin_only_consumed (fuel : Nat) (e : Expr) (env : Nat) (s : St) : InpConsumed s (evalE fuel e env s).2 :=
  (allStable inpConsumed_prim fuel).evalE e env s

end Pangaea.C08
