/- C09 — object and map literals, unpacking and accessors keep their documented key rules.
   Model: Pangaea/Object/Dict.lean. Theorems hold for every pair list (any size, any duplicate pattern),
   every key equivalence that never relates a hashable key to a non-hashable one. -/
import Pangaea.Object.Dict
namespace Pangaea.C09
open Pangaea.Dict

variable {K V : Type}

theorem hasKey_filter (eqv : K → K → Bool) (keep : K → Bool) (d : List (K × V)) (k : K)
    (h : ∀ q, eqv k q = true → keep q = true) :
    hasKey eqv (d.filter (fun p => keep p.1)) k = hasKey eqv d k := by
  induction d with
  | nil => rfl
  | cons p ps ih =>
    simp only [hasKey, List.filter_cons, List.any_cons] at ih ⊢
    by_cases hk : keep p.1 = true
    · simp only [hk, if_true, List.any_cons, ih]
    · by_cases he : eqv k p.1 = true
      · exact absurd (h _ he) hk
      · simp [hk, he, ih]

/-- **Maps = one ordered dictionary.** The Go structure (hash map with an order slice for scalar keys,
    scanned slice for the others) holds exactly the first-wins dictionary of all pairs, split into its
    scalar keys (in insertion order) and its other keys (in insertion order). -/
theorem buildMap_eq_spec (eqv : K → K → Bool) (isScalar : K → Bool)
    (hsc : ∀ a b, eqv a b = true → isScalar a = isScalar b) (ps : List (K × V)) :
    (buildMap eqv isScalar ps).scalars = (dedupFirst eqv ps).filter (fun p => isScalar p.1) ∧
    (buildMap eqv isScalar ps).others = (dedupFirst eqv ps).filter (fun p => !isScalar p.1) := by
  unfold buildMap dedupFirst
  suffices h : ∀ (m : PanMap K V) (d : List (K × V)),
      m.scalars = d.filter (fun p => isScalar p.1) → m.others = d.filter (fun p => !isScalar p.1) →
      (ps.foldl (fun m p =>
        if isScalar p.1 then
          (if hasKey eqv m.scalars p.1 then m else { m with scalars := m.scalars ++ [p] })
        else
          (if hasKey eqv m.others p.1 then m else { m with others := m.others ++ [p] })) m).scalars
        = (ps.foldl (insertFirst eqv) d).filter (fun p => isScalar p.1) ∧
      (ps.foldl (fun m p =>
        if isScalar p.1 then
          (if hasKey eqv m.scalars p.1 then m else { m with scalars := m.scalars ++ [p] })
        else
          (if hasKey eqv m.others p.1 then m else { m with others := m.others ++ [p] })) m).others
        = (ps.foldl (insertFirst eqv) d).filter (fun p => !isScalar p.1) by
    exact h { scalars := [], others := [] } [] rfl rfl
  induction ps with
  | nil => intro m d h1 h2; exact ⟨h1, h2⟩
  | cons p ps ih =>
    intro m d h1 h2
    simp only [List.foldl_cons]
    apply ih
    · -- scalars
      by_cases hp : isScalar p.1 = true
      · have hk : hasKey eqv m.scalars p.1 = hasKey eqv d p.1 := by
          rw [h1]; apply hasKey_filter
          intro q hq; rw [← hsc _ _ hq]; exact hp
        simp only [hp, if_true, hk, insertFirst]
        by_cases hh : hasKey eqv d p.1 = true
        · simp [hh, h1]
        · simp [hh, h1, List.filter_append, hp]
      · have hk : hasKey eqv m.others p.1 = hasKey eqv d p.1 := by
          rw [h2]; apply hasKey_filter (keep := fun k => !isScalar k)
          intro q hq; rw [← hsc _ _ hq]; simp [hp]
        simp only [hp, Bool.false_eq_true, if_false, hk, insertFirst]
        by_cases hh : hasKey eqv d p.1 = true
        · simp [hh, h1]
        · simp [hh, h1, List.filter_append, hp]
    · by_cases hp : isScalar p.1 = true
      · have hk : hasKey eqv m.scalars p.1 = hasKey eqv d p.1 := by
          rw [h1]; apply hasKey_filter
          intro q hq; rw [← hsc _ _ hq]; exact hp
        simp only [hp, if_true, hk, insertFirst]
        by_cases hh : hasKey eqv d p.1 = true
        · simp [hh, h2]
        · simp [hh, h2, List.filter_append, hp]
      · have hk : hasKey eqv m.others p.1 = hasKey eqv d p.1 := by
          rw [h2]; apply hasKey_filter (keep := fun k => !isScalar k)
          intro q hq; rw [← hsc _ _ hq]; simp [hp]
        simp only [hp, Bool.false_eq_true, if_false, hk, insertFirst]
        by_cases hh : hasKey eqv d p.1 = true
        · simp [hh, h2]
        · simp [hh, h2, List.filter_append, hp]

/-- **Iteration order**: scalar keys in insertion order followed by the other keys in insertion order. -/
theorem iter_order (eqv : K → K → Bool) (isScalar : K → Bool)
    (hsc : ∀ a b, eqv a b = true → isScalar a = isScalar b) (ps : List (K × V)) :
    (buildMap eqv isScalar ps).iter =
      (dedupFirst eqv ps).filter (fun p => isScalar p.1) ++ (dedupFirst eqv ps).filter (fun p => !isScalar p.1) := by
  unfold PanMap.iter
  rw [(buildMap_eq_spec eqv isScalar hsc ps).1, (buildMap_eq_spec eqv isScalar hsc ps).2]

theorem lookupFirst_filter (eqv : K → K → Bool) (keep : K → Bool) (d : List (K × V)) (k : K)
    (h : ∀ q, eqv k q = true → keep q = true) :
    lookupFirst eqv (d.filter (fun p => keep p.1)) k = lookupFirst eqv d k := by
  have hf : (fun a : K × V => decide (keep a.1 = true ∧ eqv k a.1 = true)) = (fun a => eqv k a.1) := by
    funext a
    cases he : eqv k a.1
    · simp
    · simp [h _ he]
  unfold lookupFirst
  rw [List.find?_filter, hf]

/-- **Indexing**: `m[k]` is the value stored under the first key equivalent to `k`. -/
theorem get_eq_spec (eqv : K → K → Bool) (isScalar : K → Bool)
    (hsc : ∀ a b, eqv a b = true → isScalar a = isScalar b) (ps : List (K × V)) (k : K) :
    (buildMap eqv isScalar ps).get eqv isScalar k = lookupFirst eqv (dedupFirst eqv ps) k := by
  unfold PanMap.get
  rw [(buildMap_eq_spec eqv isScalar hsc ps).1, (buildMap_eq_spec eqv isScalar hsc ps).2]
  by_cases hk : isScalar k = true
  · simp only [hk, if_true]
    apply lookupFirst_filter
    intro q hq; rw [← hsc _ _ hq]; exact hk
  · simp only [hk, Bool.false_eq_true, if_false]
    apply lookupFirst_filter (keep := fun x => !isScalar x)
    intro q hq; rw [← hsc _ _ hq]; simp [hk]

/-- **First occurrence wins** (maps and objects): an earlier pair is never displaced. -/
theorem insertFirst_keeps (eqv : K → K → Bool) (d : List (K × V)) (p : K × V) (k : K) (v : V)
    (h : lookupFirst eqv d k = some v) : lookupFirst eqv (insertFirst eqv d p) k = some v := by
  unfold insertFirst
  split
  · exact h
  · unfold lookupFirst at h ⊢
    rw [List.find?_append]
    cases hf : d.find? (fun q => eqv k q.1) with
    | none => simp [hf] at h
    | some q => simp [hf] at h ⊢; exact h

theorem dedupFirst_first_wins (eqv : K → K → Bool) (pre post : List (K × V)) (k : K) (v : V)
    (h : lookupFirst eqv (dedupFirst eqv pre) k = some v) :
    lookupFirst eqv (dedupFirst eqv (pre ++ post)) k = some v := by
  unfold dedupFirst at *
  rw [List.foldl_append]
  generalize pre.foldl (insertFirst eqv) [] = d at h
  induction post generalizing d with
  | nil => exact h
  | cons p ps ih => exact ih _ (insertFirst_keeps eqv d p k v h)

/-- **One value per key**: no two stored keys are equivalent (for an equivalence relation). -/
theorem insertFirst_nodup (eqv : K → K → Bool) (hsymm : ∀ a b, eqv a b = eqv b a) (d : List (K × V)) (p : K × V)
    (h : d.Pairwise (fun a b => eqv a.1 b.1 = false)) :
    (insertFirst eqv d p).Pairwise (fun a b => eqv a.1 b.1 = false) := by
  unfold insertFirst
  split
  · exact h
  · rename_i hk
    rw [List.pairwise_append]
    refine ⟨h, List.pairwise_singleton _ _, ?_⟩
    intro a ha b hb
    simp only [List.mem_singleton] at hb; subst hb
    simp only [hasKey, List.any_eq_true, not_exists, not_and, Bool.not_eq_true] at hk
    rw [hsymm]; exact hk a ha

theorem dedupFirst_nodup (eqv : K → K → Bool) (hsymm : ∀ a b, eqv a b = eqv b a) (ps : List (K × V)) :
    (dedupFirst eqv ps).Pairwise (fun a b => eqv a.1 b.1 = false) := by
  unfold dedupFirst
  suffices h : ∀ d : List (K × V), d.Pairwise (fun a b => eqv a.1 b.1 = false) →
      (ps.foldl (insertFirst eqv) d).Pairwise (fun a b => eqv a.1 b.1 = false) from h [] List.Pairwise.nil
  induction ps with
  | nil => intro d h; exact h
  | cons p ps ih => intro d h; exact ih _ (insertFirst_nodup eqv hsymm d p h)

/-- **Accessors agree** (objects): `values` and `items` are `keys` mapped through the same lookup, so `len`,
    `keys`, `values`, `items` always describe the same set of pairs; private names appear only on request. -/
theorem obj_accessors_agree (o : List (String × V)) (priv : Bool) :
    objValues o priv = (objKeys o priv).map (fun n => o.lookup n) ∧
    objItems o priv = (objKeys o priv).map (fun n => (n, o.lookup n)) ∧
    (objItems o priv).map (·.1) = objKeys o priv ∧ (objItems o priv).map (·.2) = objValues o priv := by
  simp [objValues, objItems, List.map_map, Function.comp_def]

theorem mem_insertName (n x : String) (ns : List String) : x ∈ insertName n ns ↔ x = n ∨ x ∈ ns := by
  induction ns with
  | nil => simp [insertName]
  | cons m ms ih =>
    unfold insertName
    split
    · simp
    · simp [ih]; constructor
      · rintro (h | h | h) <;> simp [h]
      · rintro (h | h | h) <;> simp [h]

theorem mem_sortNames (x : String) (ns : List String) : x ∈ sortNames ns ↔ x ∈ ns := by
  induction ns with
  | nil => simp [sortNames]
  | cons n ns ih => simp [sortNames, mem_insertName, ih]

/-- names starting with `_` are hidden from `keys` unless `private?: true` -/
theorem keys_hide_private (o : List (String × V)) (n : String) (h : n ∈ objKeys o false) : isPublicName n = true := by
  simp only [objKeys, Bool.false_eq_true, if_false, List.append_nil, mem_sortNames, List.mem_filter] at h
  exact h.2

/-! Non-vacuity (kernel-evaluated). -/
example : buildObj [("b", 1), ("a", 2), ("_p", 3), ("a", 4)] [[("c", 5), ("a", 6), ("_q", 7)]]
    = [("b", 1), ("a", 2), ("_p", 3), ("c", 5), ("_q", 7)] := by decide
example : objKeys (buildObj [("b", 1), ("a", 2), ("_p", 3)] [[("c", 5)]]) false = ["a", "b", "c"] := by decide
example : objKeys (buildObj [("b", 1), ("a", 2), ("_p", 3)] [[("c", 5)]]) true = ["a", "b", "c", "_p"] := by decide
example : (buildMap (fun (a b : Nat) => a == b) (fun k => k < 10) [(2, "b"), (12, "x"), (2, "dup"), (1, "i"), (12, "y")]).iter
    = [(2, "b"), (1, "i"), (12, "x")] := by decide

end Pangaea.C09
