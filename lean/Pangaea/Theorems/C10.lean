/- C10 — integer arithmetic and comparison return the mathematically exact result.
   Model: Pangaea/Props/IntArith.lean (transcription of props/int_props.go); lemmas: Lemmas/IntArith.lean. -/
import Pangaea.Lemmas.IntArith
namespace Pangaea.C10
open Pangaea Pangaea.IntArith Pangaea.IntArithLemmas

theorem add_exact (a b : Int) (h : fits64 (a + b)) : add a b = .int (a + b) := by
  simp only [add, wrap64_of_fits h]

theorem sub_exact (a b : Int) (h : fits64 (a - b)) : sub a b = .int (a - b) := by
  simp only [sub, wrap64_of_fits h]

theorem mul_exact (a b : Int) (h : fits64 (a * b)) : mul a b = .int (a * b) := by
  simp only [mul, wrap64_of_fits h]

theorem neg_exact (a : Int) (h : fits64 (-a)) : neg a = .int (-a) := by
  simp only [neg, wrap64_of_fits h]

/-- the truncated quotient of two int64 values fits unless it is `MinInt64 / -1` -/
theorem tdiv_fits (a b : Int) (ha : fits64 a) (hb : fits64 b) (h0 : b ≠ 0)
    (hx : ¬ (a = -9223372036854775808 ∧ b = -1)) : fits64 (a.tdiv b) := by
  unfold fits64 at *
  have hn : (a.tdiv b).natAbs = a.natAbs / b.natAbs := Int.natAbs_tdiv a b
  have hle : a.natAbs / b.natAbs ≤ a.natAbs := Nat.div_le_self _ _
  by_cases hmin : a = -9223372036854775808
  · subst hmin
    by_cases hb1 : b = 1
    · subst hb1; simp
    · have hb2 : 2 ≤ b.natAbs := by omega
      have : (-9223372036854775808 : Int).natAbs / b.natAbs ≤ (-9223372036854775808 : Int).natAbs / 2 :=
        Nat.div_le_div_left hb2 (by decide)
      have h9 : (-9223372036854775808 : Int).natAbs = 9223372036854775808 := by decide
      rw [h9] at this hn
      omega
  · omega

/-- **Floor division.** For int64 operands with a non-zero divisor, whenever the floor quotient fits in
    64 bits, `a // b` is exactly `⌊a/b⌋` (`Int.fdiv`), which is the unique `q` with `q·b ≤ a < (q+1)·b`
    (mirrored for a negative divisor). -/
theorem floorDiv_exact (a b : Int) (ha : fits64 a) (hb : fits64 b) (h0 : b ≠ 0)
    (hq : fits64 (a.fdiv b)) :
    floorDiv a b = .int (a.fdiv b) ∧ IsFloorQuot a b (a.fdiv b) := by
  have hfq := floorQ_eq_fdiv a b h0
  refine ⟨?_, hfq ▸ floorQ_spec a b h0⟩
  have hx : ¬ (a = -9223372036854775808 ∧ b = -1) := by
    rintro ⟨rfl, rfl⟩
    revert hq; decide
  have ht := tdiv_fits a b ha hb h0 hx
  unfold floorDiv
  simp only [h0, if_false, goDiv, goMod, wrap64_of_fits ht]
  rw [← hfq]
  unfold floorQ
  by_cases hm : a.tmod b = 0
  · simp [hm]
  · by_cases h1 : a < 0 <;> by_cases h2 : b < 0
    · simp [hm, h1, h2]
    · have hf : fits64 (a.tdiv b - 1) := by
        have : floorQ a b = a.tdiv b - 1 := by unfold floorQ; simp [hm, h1, h2]
        rw [← this, hfq]; exact hq
      simp [hm, h1, h2, wrap64_of_fits hf]
    · have hf : fits64 (a.tdiv b - 1) := by
        have : floorQ a b = a.tdiv b - 1 := by unfold floorQ; simp [hm, h1, h2]
        rw [← this, hfq]; exact hq
      simp [hm, h1, h2, wrap64_of_fits hf]
    · simp [hm, h1, h2]

/-- **Remainder.** `a % b = r` with `|r| < |b|` and `b ∣ a − r` (Go's truncated remainder). -/
theorem mod_spec (a b : Int) (h0 : b ≠ 0) :
    ∃ r, mod a b = .int r ∧ r.natAbs < b.natAbs ∧ b ∣ a - r := by
  refine ⟨a.tmod b, by simp [mod, h0, goMod], ?_, ?_⟩
  · rcases Int.lt_or_gt_of_ne h0 with h | h
    · have := tmod_abs_lt_neg a b h; omega
    · have := tmod_abs_lt_pos a b h; omega
  · have h1 := Int.tmod_add_mul_tdiv a b
    exact ⟨a.tdiv b, by omega⟩

/-- the decision procedure `remOk` used as the specification of `%` in the correspondence is
    exactly the property's relation -/
theorem remOk_iff (a b r : Int) : remOk a b r = true ↔ (r.natAbs < b.natAbs ∧ b ∣ a - r) := by
  simp [remOk, Int.dvd_iff_emod_eq_zero]

/-- the model's `%` meets the relation -/
theorem mod_remOk (a b : Int) (h0 : b ≠ 0) : ∃ r, mod a b = .int r ∧ remOk a b r = true := by
  obtain ⟨r, h, h1, h2⟩ := mod_spec a b h0
  exact ⟨r, h, (remOk_iff a b r).2 ⟨h1, h2⟩⟩

/-- **Zero divisor.** `/`, `//` and `%` by zero raise ZeroDivisionErr. -/
theorem zero_divisor (a : Int) : div a 0 = .zeroDiv ∧ floorDiv a 0 = .zeroDiv ∧ mod a 0 = .zeroDiv := by
  simp [div, floorDiv, mod]

/-- **True division** is the float quotient of the two operands converted to floats
    (float arithmetic itself is a parameter of the model). -/
theorem div_is_float_quotient (a b : Int) (h0 : b ≠ 0) : div a b = .floatDiv a b := by
  simp [div, h0]

/-- **Comparison.** `a <=> b` is -1, 0 or 1 according to the numeric order. -/
theorem cmp_spec (a b : Int) :
    (a < b → cmp a b = .int (-1)) ∧ (a = b → cmp a b = .int 0) ∧ (a > b → cmp a b = .int 1) := by
  unfold cmp
  refine ⟨fun h => ?_, fun h => ?_, fun h => ?_⟩
  · simp [show ¬ a > b by omega, show ¬ a = b by omega]
  · simp [h]
  · simp [h]

/-- **Power.** For `b ≥ 0`, whenever `a^b` fits in 64 bits, `a ** b` is exactly `a^b`. -/
theorem pow_exact (a b : Int) (hb : 0 ≤ b) (hf : fits64 (a ^ b.toNat)) :
    pow a b = .int (a ^ b.toNat) := by
  unfold pow intPow
  have h1 : ¬ b < 0 := by omega
  have h2 : ¬ (b > 63 ∧ (a > 1 ∨ a < -1)) := by
    rintro ⟨hb63, hab⟩
    exact two64_le_pow a b.toNat (by omega) hab hf
  simp [h1, h2, ipow_eq, hf]

/-! Non-vacuity and witnesses (kernel-evaluated). -/
example : floorDiv (-1) 2 = .int (-1) := by decide
example : floorDiv 7 (-2) = .int (-4) := by decide
example : floorDiv (-9223372036854775808) (-1) = .int (-9223372036854775808) := by decide  -- does not fit: outside the property
example : pow 3 35 = .int 50031545098999707 := by decide
example : pow 2 62 = .int 4611686018427387904 := by decide
example : pow 2 64 = .floatPow 2 64 := by decide
example : fits64 (-1) ∧ fits64 2 ∧ fits64 ((-1 : Int).fdiv 2) := by decide
/-- the code before the repair: `-1 // 2` evaluated to 0 -/
example : floorDivOld (-1) 2 = 0 := by decide

end Pangaea.C10
