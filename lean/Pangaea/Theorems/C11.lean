/- C11 — indexing and slicing select exactly the addressed elements.
   Property theorems only; helper lemmas live in Lemmas/Index.lean.
   Model: Pangaea/Eval/Index.lean (transcription of evaluator/index.go);
   Spec:  Pangaea/Eval/IndexSpec.lean. -/
import Pangaea.Lemmas.Index
namespace Pangaea.C11
open Pangaea Pangaea.Index Pangaea.IndexSpec Pangaea.IndexLemmas

/-- Go slices are far shorter than 2^62 elements -/
abbrev SizeOk (n : Nat) : Prop := (n : Int) < 4611686018427387904

/-- bounds written in a range literal are int64 values -/
abbrev BoundOk (b : Bound) : Prop := ∀ v, b = .int v → fits64 v

/-- **Positions.** For every length, all int64-or-omitted bounds and every non-zero int64 step, the
    index list walked by `valRange` (with Go's wrap-around arithmetic and the bounded step) is exactly
    the progression `start, start+step, …` of all positions before `stop`, after defaults and clamping. -/
theorem indices_prog (n : Nat) (hn : SizeOk n) (start stop : Bound) (step : Int)
    (hstart : BoundOk start) (hstop : BoundOk stop) (h0 : step ≠ 0) :
    Prog step (stopOf n step (toOpt stop)) (startOf n step (toOpt start)) (indices n start stop step) := by
  have hcs := clampStep_spec n hn step
  have hsign : step < 0 ↔ clampStep n step < 0 := by rw [hcs]; repeat' split
                                                     all_goals omega
  have hfr := fixRange_spec n hn start stop (clampStep n step) hstart hstop
  rw [← startOf_sign n step _ hsign, ← stopOf_sign n step _ hsign] at hfr
  have hsw := startOf_window n step (toOpt start)
  have hew := stopOf_window n step (toOpt stop)
  have hlu : -1 ≤ lower step ∧ upper n step ≤ n := by unfold lower upper; repeat' split
                                                      all_goals omega
  unfold indices
  simp only [hfr]
  apply prog_transfer n step (clampStep n step) _ _ _ (by omega) (by omega)
  · rw [hcs]; repeat' split
    all_goals omega
  · apply loop_prog (clampStep n step) _ (-1) n (by omega) (by omega)
    · rw [hcs]; repeat' split
      all_goals omega
    · rw [hcs]; repeat' split
      all_goals omega
    · rw [hcs]; repeat' split
      all_goals omega
    · omega
    · omega
    · omega
    · omega

/-- **Uniqueness.** The progression is determined by start, stop and step, so the model's
    index list equals the reference implementation's. -/
theorem indices_eq_spec (n : Nat) (hn : SizeOk n) (start stop : Bound) (step : Int)
    (hstart : BoundOk start) (hstop : BoundOk stop) (h0 : step ≠ 0) :
    indices n start stop step = specIndices n (toOpt start) (toOpt stop) step := by
  apply prog_unique (indices_prog n hn start stop step hstart hstop h0)
  unfold specIndices
  apply walk_prog step _ h0
  have hsw := startOf_window n step (toOpt start)
  have hew := stopOf_window n step (toOpt stop)
  unfold lower upper at hsw hew
  by_cases hs : step < 0
  · simp only [hs, if_true] at hsw hew; omega
  · simp only [hs, if_false] at hsw hew; omega

/-- **Nothing is invented.** Every visited position addresses an element of the sequence. -/
theorem indices_inRange (n : Nat) (hn : SizeOk n) (start stop : Bound) (step : Int)
    (hstart : BoundOk start) (hstop : BoundOk stop) (h0 : step ≠ 0) :
    ∀ j ∈ indices n start stop step, 0 ≤ j ∧ j < n := by
  intro j hj
  have hp := prog_window (indices_prog n hn start stop step hstart hstop h0) j hj
  have hsw := startOf_window n step (toOpt start)
  have hew := stopOf_window n step (toOpt stop)
  unfold lower upper at hsw hew
  by_cases hs : step < 0
  · simp only [hs, if_true] at hsw hew; have := hp.2 hs; omega
  · simp only [hs, if_false] at hsw hew; have := hp.1 (by omega); omega

/-- what Pangaea prints for a reference result -/
def expectArr {α} : Option (List α) → Res (Option α)
  | none => .valueErr
  | some ys => .arr (ys.map some)

def expectStr {α} : Option (List α) → Res α
  | none => .valueErr
  | some ys => .arr ys

abbrev Usable (b : Bound) : Prop := b ≠ .other

/-- **Arrays.** `arr[start:stop:step]` is the reference slice: the elements at exactly the addressed
    positions, in order; a zero step is `ValueErr`; no Go panic for any input. -/
theorem valRange_spec {α} (xs : List α) (hn : SizeOk xs.length) (start stop step : Bound)
    (u1 : Usable start) (u2 : Usable stop) (u3 : Usable step)
    (hstart : BoundOk start) (hstop : BoundOk stop) (hstep : BoundOk step) :
    valRange xs start stop step = expectArr (specSlice xs (toOpt start) (toOpt stop) (stepOf step)) := by
  have hu : (start.usable && stop.usable && step.usable) = true := by
    cases start <;> cases stop <;> cases step <;> simp_all [Bound.usable]
  unfold valRange specSlice
  simp only [hu, Bool.not_true]
  by_cases h0 : stepOf step = 0
  · simp [h0, expectArr]
  · simp only [h0, if_false]
    rw [indices_eq_spec xs.length hn start stop (stepOf step) hstart hstop h0,
      ← indices_eq_spec xs.length hn start stop (stepOf step) hstart hstop h0]
    rw [collect_spec xs hn _ (indices_inRange xs.length hn start stop (stepOf step) hstart hstop h0)]
    rw [indices_eq_spec xs.length hn start stop (stepOf step) hstart hstop h0]
    simp [expectArr]

/-- **Strings.** `str[start:stop:step]` over code points is the reference slice; `strRange`'s unchecked
    type assertions never fail (no Go panic) and a zero step is `ValueErr`. -/
theorem strRange_spec (cs : List Char) (hn : SizeOk cs.length) (start stop step : Bound)
    (u1 : Usable start) (u2 : Usable stop) (u3 : Usable step)
    (hstart : BoundOk start) (hstop : BoundOk stop) (hstep : BoundOk step) :
    strRange cs start stop step = expectStr (specSlice cs (toOpt start) (toOpt stop) (stepOf step)) := by
  unfold strRange
  rw [valRange_spec cs hn start stop step u1 u2 u3 hstart hstop hstep]
  cases h : specSlice cs (toOpt start) (toOpt stop) (stepOf step) with
  | none => simp [expectArr, expectStr]
  | some ys =>
    simp only [expectArr, expectStr]
    have h1 : (ys.map some).all Option.isSome = true := by simp
    have h2 : (ys.map some).filterMap id = ys := by
      induction ys with
      | nil => rfl
      | cons y ys ih => simp
    simp only [h1, if_true, h2]

/-- **Single index.** `s[i]` is the i-th element, counted from the end for negative `i`, `nil` outside
    `[-n, n-1]`; never a Go panic. -/
theorem arrIndex_eq_spec {α} (xs : List α) (hn : SizeOk xs.length) (i : Int) (hi : fits64 i) :
    arrIndex i xs = .ok (specAt xs i) := arrIndex_spec xs i hi hn

/-- every element of a slice is an element of the sequence -/
theorem slice_subset {α} (xs : List α) (start stop : Option Int) (step : Int) (ys : List α)
    (h : specSlice xs start stop step = some ys) : ∀ y ∈ ys, y ∈ xs := by
  unfold specSlice at h
  split at h
  · cases h
  · cases h
    intro y hy
    simp only [List.mem_filterMap] at hy
    obtain ⟨j, _, hj⟩ := hy
    exact List.mem_of_getElem? hj

/-- a zero step raises `ValueErr` whatever the bounds -/
theorem zero_step {α} (xs : List α) (start stop : Bound) (u1 : Usable start) (u2 : Usable stop) :
    valRange xs start stop (.int 0) = .valueErr := by
  have hu : (start.usable && stop.usable && (Bound.int 0).usable) = true := by
    cases start <;> cases stop <;> simp_all [Bound.usable]
  simp [valRange, hu, stepOf]

/-! Non-vacuity: concrete instances (evaluated by the kernel). -/
example : indices 3 (.int 10) .nil (-1) = [2, 1, 0] := by decide
example : indices 3 .nil (.int (-5)) (-1) = [2, 1, 0] := by decide
example : indices 3 (.int 2) .nil 9223372036854775807 = [2] := by decide
example : valRange [10, 20, 30, 40, 50] (.int (-2)) (.int 0) (.int (-2)) = .arr [some 40, some 20] := by decide
example : strRange ['a', 'b', 'c'] (.int 10) .nil (.int (-1)) = .arr ['c', 'b', 'a'] := by decide
example : SizeOk 3 ∧ BoundOk (.int 10) ∧ BoundOk .nil := by
  refine ⟨by decide, ?_, ?_⟩
  · intro v h; cases h; decide
  · intro v h; cases h

/-- the code before the repair (clamping ignored the direction of the step): kept as a witness
    that the theorems above are about behaviour that actually changed -/
def oldFix (length i : Int) : Int :=
  if i < -length then 0 else if i > length then length else if i < 0 then i + length else i
example : oldFix 3 10 = 3 := by decide   -- `[1,2,3][10::-1]` started at position 3 = one past the end

end Pangaea.C11
