/- C12 — one truthiness rule governs if/else, guards, `!`, `&&` and `||`, with short-circuiting.
   Model: Pangaea/Props/Truthy.lean. -/
import Pangaea.Props.Truthy
namespace Pangaea.C12
open Pangaea.Truthy

/-- **One rule.** For every value (the bool singletons answer `B` with themselves), the three
    implementations agree: a value is truthy exactly when `B` yields `true`; `||` short-cuts exactly on
    truthy, `&&` exactly on falsy, `!` is the negation. -/
theorem one_rule (v : CondVal) (h : WF v) :
    isTruthy v = (v.b == .tru) ∧ canShortCut .or v = isTruthy v ∧
    canShortCut .and v = !isTruthy v ∧ notV v = !isTruthy v := by
  have h1 : isTruthy v = (v.b == .tru) := by
    unfold isTruthy
    cases hg : v.goBool with
    | none => rfl
    | some x => have := h x hg; cases x <;> simp [this]
  refine ⟨h1, ?_, ?_, ?_⟩
  · simp [canShortCut, h1]
  · simp [canShortCut, h1]
  · simp only [notV, h1]; cases v.b <;> decide

variable {σ V : Type}

/-- **Exactly one branch.** With a truthy condition the result is the `then` branch run once after the
    condition, whatever the `else` branch is (it is not evaluated); symmetrically for a falsy one. -/
theorem if_then_only (view : V → CondVal) (nil : V) (cond thn : σ → R V × σ) (e1 e2 : Option (σ → R V × σ))
    (s s1 : σ) (c : V) (hc : cond s = (.val c, s1)) (ht : isTruthy (view c) = true) :
    evalIf view nil cond thn e1 s = thn s1 ∧ evalIf view nil cond thn e1 s = evalIf view nil cond thn e2 s := by
  simp [evalIf, hc, ht]

theorem if_else_only (view : V → CondVal) (nil : V) (cond t1 t2 els : σ → R V × σ)
    (s s1 : σ) (c : V) (hc : cond s = (.val c, s1)) (hf : isTruthy (view c) = false) :
    evalIf view nil cond t1 (some els) s = els s1 ∧
    evalIf view nil cond t1 (some els) s = evalIf view nil cond t2 (some els) s ∧
    evalIf view nil cond t1 none s = (.val nil, s1) := by
  simp [evalIf, hc, hf]

/-- **Short-circuit.** `l && r` / `l || r`: when the left operand decides, the result is that operand
    itself and the right operand is not evaluated (the result does not depend on it); otherwise the result
    is the right operand evaluated once in the state the left operand left. -/
theorem shortcut_decided (view : V → CondVal) (op : SC) (left r1 r2 : σ → R V × σ) (s s1 : σ) (l : V)
    (hl : left s = (.val l, s1)) (hd : canShortCut op (view l) = true) :
    evalShortCut view op left r1 s = (.val l, s1) ∧ evalShortCut view op left r1 s = evalShortCut view op left r2 s := by
  simp [evalShortCut, hl, hd]

theorem shortcut_undecided (view : V → CondVal) (op : SC) (left right : σ → R V × σ) (s s1 : σ) (l : V)
    (hl : left s = (.val l, s1)) (hd : canShortCut op (view l) = false) :
    evalShortCut view op left right s = right s1 := by
  simp [evalShortCut, hl, hd]

/-- `c || d` is `c` when `c` is truthy, else `d`; `c && d` is `c` when `c` is falsy, else `d` -/
theorem shortcut_by_truthiness (view : V → CondVal) (op : SC) (left right : σ → R V × σ) (s s1 : σ) (l : V)
    (hl : left s = (.val l, s1)) (hw : WF (view l)) :
    evalShortCut view op left right s =
      (match op with
       | .or => if isTruthy (view l) then (.val l, s1) else right s1
       | .and => if isTruthy (view l) then right s1 else (.val l, s1)) := by
  have h := one_rule (view l) hw
  cases op <;> simp only [evalShortCut, hl, h.2.1, h.2.2.1] <;> cases isTruthy (view l) <;> simp

/-- **Guards** (`return/raise/defer … if c`) jump exactly when the condition is truthy; the jump's
    expression is evaluated only then. -/
theorem guard_spec (view : V → CondVal) (cond j1 j2 : σ → R V × σ) (s s1 : σ) (c : V)
    (hc : cond s = (.val c, s1)) :
    (isTruthy (view c) = true → (evalGuard view cond j1 s).1 = some (j1 s1)) ∧
    (isTruthy (view c) = false → (evalGuard view cond j1 s).1 = none ∧ evalGuard view cond j1 s = evalGuard view cond j2 s) := by
  constructor <;> intro h <;> simp [evalGuard, hc, h]

/-! Non-vacuity. -/
example : WF { goBool := some true, b := .tru } ∧ WF { goBool := none, b := .other } := by
  constructor <;> intro x h <;> simp_all

end Pangaea.C12
