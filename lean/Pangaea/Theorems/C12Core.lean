/- C12 on the Core reference evaluator (the evaluator that is run against the implementation on generated
   programs through the real parser): exactly one branch of an if-expression is evaluated, `&&` / `||` return the
   deciding operand itself and evaluate the right operand only when the left one does not decide, and the guard of
   `return / raise / yield / defer … if c` is evaluated when the statement is reached. Stated without fuel
   (Theorems/CoreMeta.lean gives fuel monotonicity): the final STATE of the whole expression is the state reached
   by the evaluated parts only, for every choice of the unevaluated part. -/
import Pangaea.Theorems.C07Any
namespace Pangaea.C12
open Pangaea.Core Pangaea.C07

/-- `e` ends with outcome `r` (a value or an error - not an exhausted budget) in state `s'` -/
def EndsE (e : Expr) (env : Nat) (s : St) (r : R Val) (s' : St) : Prop := ∃ fuel, evalE fuel e env s = (r, s') ∧ r.notFuel

theorem EndsE.of_gives {e : Expr} {env : Nat} {s s' : St} {v : Val} (h : GivesE e env s v s') : EndsE e env s (.ok v) s' := by
  obtain ⟨f, hf⟩ := h; exact ⟨f, hf, by simp [R.notFuel]⟩

theorem EndsE.of_raises {e : Expr} {env : Nat} {s s' : St} {k m : String} (h : RaisesE e env s k m s') : EndsE e env s (.err k m) s' := by
  obtain ⟨f, hf⟩ := h; exact ⟨f, hf, by simp [R.notFuel]⟩

/-- **Truthy condition: only the `then` branch.** Whatever `els` is, it is not evaluated. -/
theorem if_true_core {c t : Expr} (els : Option Expr) {env : Nat} {s s1 s2 : St} {vc : Val} {r : R Val}
    (hc : GivesE c env s vc s1) (ht : vc.truthy = true) (hthen : EndsE t env s1 r s2) :
    EndsE (.ifE c t els) env s r s2 := by
  obtain ⟨f, hf⟩ := hc
  obtain ⟨g, hg, hr⟩ := hthen
  have h1 := evalE_lift hf (by simp [R.notFuel]) (Nat.le_max_left f g)
  have h2 := evalE_lift hg hr (Nat.le_max_right f g)
  refine ⟨max f g + 1, ?_, hr⟩
  cases els <;> (rw [evalE]; simp [bindM, h1, h2, ht])

/-- **Falsy condition with `else`: only the `else` branch.** Whatever `t` is, it is not evaluated. -/
theorem if_false_else_core {c e' : Expr} (t : Expr) {env : Nat} {s s1 s2 : St} {vc : Val} {r : R Val}
    (hc : GivesE c env s vc s1) (ht : vc.truthy = false) (hels : EndsE e' env s1 r s2) :
    EndsE (.ifE c t (some e')) env s r s2 := by
  obtain ⟨f, hf⟩ := hc
  obtain ⟨g, hg, hr⟩ := hels
  have h1 := evalE_lift hf (by simp [R.notFuel]) (Nat.le_max_left f g)
  have h2 := evalE_lift hg hr (Nat.le_max_right f g)
  refine ⟨max f g + 1, ?_, hr⟩
  rw [evalE]; simp [bindM, h1, h2, ht]

/-- **Falsy condition without `else`: nil, in the state the condition left.** -/
theorem if_false_none_core {c : Expr} (t : Expr) {env : Nat} {s s1 : St} {vc : Val}
    (hc : GivesE c env s vc s1) (ht : vc.truthy = false) : GivesE (.ifE c t none) env s .nil s1 := by
  obtain ⟨f, hf⟩ := hc
  refine ⟨f + 1, ?_⟩
  rw [evalE]; simp [bindM, hf, ht, pureM]

/-- a raising condition: neither branch is evaluated -/
theorem if_cond_raises_core {c : Expr} (t : Expr) (els : Option Expr) {env : Nat} {s s' : St} {k m : String}
    (hc : RaisesE c env s k m s') : RaisesE (.ifE c t els) env s k m s' := by
  obtain ⟨f, hf⟩ := hc
  refine ⟨f + 1, ?_⟩
  cases els <;> (rw [evalE]; simp [bindM, hf])

/-- **`||` decided by a truthy left operand**: the result is that operand itself; `r` is not evaluated. -/
theorem or_decided_core {l : Expr} (r : Expr) {env : Nat} {s s1 : St} {vl : Val}
    (hl : GivesE l env s vl s1) (ht : vl.truthy = true) : GivesE (.infix "||" l r) env s vl s1 := by
  obtain ⟨f, hf⟩ := hl
  refine ⟨f + 1, ?_⟩
  rw [evalE]; simp [bindM, hf, ht, pureM]

/-- **`&&` decided by a falsy left operand** -/
theorem and_decided_core {l : Expr} (r : Expr) {env : Nat} {s s1 : St} {vl : Val}
    (hl : GivesE l env s vl s1) (ht : vl.truthy = false) : GivesE (.infix "&&" l r) env s vl s1 := by
  obtain ⟨f, hf⟩ := hl
  refine ⟨f + 1, ?_⟩
  rw [evalE]; simp [bindM, hf, ht, pureM]

/-- **`||` not decided**: the right operand, evaluated once in the state the left operand left -/
theorem or_undecided_core {l r : Expr} {env : Nat} {s s1 s2 : St} {vl : Val} {res : R Val}
    (hl : GivesE l env s vl s1) (ht : vl.truthy = false) (hr : EndsE r env s1 res s2) :
    EndsE (.infix "||" l r) env s res s2 := by
  obtain ⟨f, hf⟩ := hl
  obtain ⟨g, hg, hn⟩ := hr
  have h1 := evalE_lift hf (by simp [R.notFuel]) (Nat.le_max_left f g)
  have h2 := evalE_lift hg hn (Nat.le_max_right f g)
  refine ⟨max f g + 1, ?_, hn⟩
  rw [evalE]; simp [bindM, h1, h2, ht]

theorem and_undecided_core {l r : Expr} {env : Nat} {s s1 s2 : St} {vl : Val} {res : R Val}
    (hl : GivesE l env s vl s1) (ht : vl.truthy = true) (hr : EndsE r env s1 res s2) :
    EndsE (.infix "&&" l r) env s res s2 := by
  obtain ⟨f, hf⟩ := hl
  obtain ⟨g, hg, hn⟩ := hr
  have h1 := evalE_lift hf (by simp [R.notFuel]) (Nat.le_max_left f g)
  have h2 := evalE_lift hg hn (Nat.le_max_right f g)
  refine ⟨max f g + 1, ?_, hn⟩
  rw [evalE]; simp [bindM, h1, h2, ht]

/-! ### guarded jumps: the guard belongs to the statement -/

/-- a falsy guard: `return / raise / defer … if c` is the value nil in the state the guard left; the guarded
    expression is not evaluated (and nothing is deferred) -/
theorem guard_false_core (k : JumpKind) (hk : k ≠ .yld) (e : Expr) {c : Expr} {env : Nat} {s s1 : St} {vc : Val}
    (hc : GivesE c env s vc s1) (ht : vc.truthy = false) : GivesStmt (.jumpIf k e c) env s (.val .nil) s1 := by
  obtain ⟨f, hf⟩ := hc
  refine ⟨f + 1, ?_⟩
  cases k <;> simp_all [evalStmt, bindM, pureM]

/-- a truthy guard of `defer`: the expression is registered, not evaluated (state = the state the guard left) -/
theorem guard_defer_core (e : Expr) {c : Expr} {env : Nat} {s s1 : St} {vc : Val}
    (hc : GivesE c env s vc s1) (ht : vc.truthy = true) : GivesStmt (.jumpIf .dfr e c) env s (.dfr e) s1 := by
  obtain ⟨f, hf⟩ := hc
  refine ⟨f + 1, ?_⟩
  simp [evalStmt, bindM, pureM, hf, ht]

/-- a truthy guard of `return`: the expression is evaluated after the guard, once -/
theorem guard_return_core {e c : Expr} {env : Nat} {s s1 s2 : St} {vc v : Val}
    (hc : GivesE c env s vc s1) (ht : vc.truthy = true) (he : GivesE e env s1 v s2) :
    GivesStmt (.jumpIf .ret e c) env s (.ret v) s2 := by
  obtain ⟨f, hf⟩ := hc
  obtain ⟨g, hg⟩ := he
  have h1 := evalE_lift hf (by simp [R.notFuel]) (Nat.le_max_left f g)
  have h2 := evalE_lift hg (by simp [R.notFuel]) (Nat.le_max_right f g)
  refine ⟨max f g + 1, ?_⟩
  simp [evalStmt, bindM, pureM, h1, h2, ht]

/-- a raising guard: the statement raises where the guard raised; nothing is evaluated or deferred -/
theorem guard_raises_core (k : JumpKind) (e : Expr) {c : Expr} {env : Nat} {s s' : St} {kd m : String}
    (hc : RaisesE c env s kd m s') : RaisesStmt (.jumpIf k e c) env s kd m s' := by
  obtain ⟨f, hf⟩ := hc
  refine ⟨f + 1, ?_⟩
  simp [evalStmt, bindM, hf]

/-- the premises are satisfiable: `(2 if 1 else x)` with an unbound `x` gives 2 -/
example : EndsE (.ifE (.int 1) (.int 2) (some (.ident "x"))) 0 (initSt []) (.ok (.int 2)) (initSt []) :=
  if_true_core (some (.ident "x")) (vc := .int 1) (s1 := initSt []) ⟨1, by simp [evalE, pureM]⟩ (by simp [Val.truthy])
    ⟨1, by simp [evalE, pureM], by simp [R.notFuel]⟩

end Pangaea.C12

namespace Pangaea.C12
open Pangaea.Core Pangaea.C07

/-- **`!c` is the negation of the same rule**: for a scalar / array condition value (anything that is not an object
    with its own `!`, nor standard input) `!c` is `true` exactly when `c` is not truthy; the operand is evaluated once. -/
theorem not_core {e : Expr} {env : Nat} {s s1 : St} {v : Val}
    (hv : GivesE e env s v s1) (hplain : (match v with | .obj _ => False | .diamond => False | _ => True)) :
    GivesE (.pref "!" e) env s (.bool (!v.truthy)) s1 := by
  obtain ⟨f, hf⟩ := hv
  refine ⟨f + 3, ?_⟩
  have h1 := evalE_lift hf (by simp [R.notFuel]) (Nat.le_add_right f 2)
  rw [evalE]
  simp only [show (("!" : String) == "*") = false by decide, Bool.false_eq_true, ↓reduceIte, bindM, h1,
    show (("!" : String) == "+") = false by decide, show (("!" : String) == "-") = false by decide]
  cases v <;> simp_all [callPropQuiet, hasBuiltin, commonProps, builtinCall, pureBuiltin, pureM]

end Pangaea.C12
