/- C13 — try/Either captures exactly the error that would have been raised.
   Model: Pangaea/Props/Either.lean. The theorems hold for every start value and every list of steps
   (arbitrary functions). The tie to the implementation adds the known findings: a step that is a property
   call reaches `fmap` only through the Wrappable proxy, which indexes the property and calls the result. -/
import Pangaea.Props.Either
namespace Pangaea.C13
open Pangaea.Either

variable {V : Type}

theorem foldl_fmap_err (e : ErrV) (steps : List (V → Outcome V)) : steps.foldl fmap (E.err e) = E.err e := by
  induction steps with
  | nil => rfl
  | cons f fs ih => simpa [List.foldl_cons, fmap] using ih

/-- **Commutation.** A wrapped chain holds exactly the outcome of the unwrapped chain: its value if every
    step succeeds, else the kind and message of the first error. -/
theorem try_commutes (v : V) (steps : List (V → Outcome V)) : runTry v steps = ofOutcome (runPlain v steps) := by
  unfold runTry tryV
  induction steps generalizing v with
  | nil => rfl
  | cons f fs ih =>
    simp only [List.foldl_cons, fmap, runPlain]
    cases h : f v with
    | val r => exact ih r
    | err e => simp [foldl_fmap_err, ofOutcome]

/-- **Skip after failure.** Once a step has failed, the chain's result does not depend on the later steps
    (they are not called). -/
theorem skip_after_failure (v : V) (pre : List (V → Outcome V)) (f : V → Outcome V) (post1 post2 : List (V → Outcome V))
    (w : V) (e : ErrV) (hpre : runPlain v pre = .val w) (hf : f w = .err e) :
    runTry v (pre ++ f :: post1) = .err e ∧ runTry v (pre ++ f :: post1) = runTry v (pre ++ f :: post2) := by
  have key : ∀ post, runTry v (pre ++ f :: post) = .err e := by
    intro post
    rw [try_commutes]
    have : ∀ (u : V) (pre : List (V → Outcome V)), runPlain u pre = .val w → runPlain u (pre ++ f :: post) = .err e := by
      intro u pre
      induction pre generalizing u with
      | nil => intro h; simp only [runPlain] at h; cases h; simp [runPlain, hf]
      | cons g gs ih =>
        intro h
        simp only [runPlain, List.cons_append] at h ⊢
        cases hg : g u with
        | val r => simp only [hg] at h ⊢; exact ih r h
        | err x => simp [hg] at h
    rw [this v pre hpre]; rfl
  exact ⟨key post1, by rw [key post1, key post2]⟩

/-- **A chain with no failure** yields the value of the unwrapped calls. -/
theorem no_failure (v w : V) (steps : List (V → Outcome V)) (h : runPlain v steps = .val w) :
    runTry v steps = .val w := by
  rw [try_commutes, h]; rfl

/-- **Accessors report the single outcome consistently.** -/
theorem accessors_val (v : V) (nil d : V) (isNil : V → Bool) (wrapErr : ErrV → V) (mkArr : V → V → V) (k : String) (f : ErrV → V) :
    (E.val v).A nil wrapErr mkArr = mkArr v nil ∧ (E.val v).valOr nil = v ∧ (E.val v).errOr nil wrapErr = nil ∧
    (E.val v).isVal isNil = !isNil v ∧ (E.val v).isErr = false ∧ (E.val v).orElse d = v ∧
    (E.val v).abandon = .val v ∧ (E.val v).catch k f = .val v := by
  simp [E.A, E.valOr, E.errOr, E.isVal, E.isErr, E.orElse, E.abandon, E.catch]

theorem accessors_err (e : ErrV) (nil d : V) (isNil : V → Bool) (wrapErr : ErrV → V) (mkArr : V → V → V) (k : String) (f : ErrV → V) :
    (E.err e : E V).A nil wrapErr mkArr = mkArr nil (wrapErr e) ∧ (E.err e : E V).valOr nil = nil ∧
    (E.err e : E V).errOr nil wrapErr = wrapErr e ∧ (E.err e : E V).isVal isNil = false ∧ (E.err e : E V).isErr = true ∧
    (E.err e : E V).orElse d = d ∧ (E.err e : E V).abandon = .err e ∧
    ((E.err e : E V).catch k f = if e.kind = k then .val (f e) else .err e) := by
  simp [E.A, E.valOr, E.errOr, E.isVal, E.isErr, E.orElse, E.abandon, E.catch]

/-- `abandon` after a wrapped chain is the unwrapped chain: the value, or the same error raised again -/
theorem abandon_is_plain (v : V) (steps : List (V → Outcome V)) : (runTry v steps).abandon = runPlain v steps := by
  rw [try_commutes]; cases runPlain v steps <;> rfl

/-! Non-vacuity (kernel-evaluated): `3.try.{|x| x * 2}.{|x| x // 0}.{|x| x + 1}` -/
def mul2 : Int → Outcome Int := fun x => .val (x * 2)
def div0 : Int → Outcome Int := fun _ => .err ⟨"ZeroDivisionErr", "cannot be divided by 0"⟩
def add1 : Int → Outcome Int := fun x => .val (x + 1)
example : (match runTry (3 : Int) [mul2, div0, add1] with | .err e => e.kind | .val _ => "") = "ZeroDivisionErr" := by decide
example : (match runTry (3 : Int) [mul2, add1] with | .val v => v | .err _ => 0) = 7 := by decide

end Pangaea.C13
