/- C14 — iterator literals: the next / yield / recur protocol and independence, over the Core reference
   evaluator (Core/Eval.lean: `builtinCall "new"`, `iterNext`, `callVal (.recur id)`, `srcOf`, `nextElem`,
   `stmtLoop`). Iterators are entries of `St.iters` (identity = index); an entry's only mutable part is the
   scope it points to. -/
import Pangaea.Lemmas.Core
namespace Pangaea.C14
open Pangaea.Core

variable {fuel env : Nat} {s s' : St}

/-- **`new` is fresh.** `it.new(args)` returns a new iterator identity; every existing iterator entry and every
    existing scope is left exactly as it was; the new iterator's scope is a new frame holding the bound
    arguments, enclosed in the scope where the literal was written. -/
theorem new_is_fresh (id : Nat) (it : IterSt) (hid : s.iters[id]? = some it) (args : List Val) (kwargs : List (String × Val)) :
    builtinCall (fuel + 1) "new" (.iter id) args kwargs env s
      = (.ok (.iter s.iters.length),
         { s with
           frames := s.frames ++ [{ vars := bindArgs it.params it.kwd args kwargs [], outer := (s.frames.getD it.env default).outer }],
           iters := s.iters ++ [{ it with env := s.frames.length }] }) := by
  simp [builtinCall, bindM, getIter, hid, frameOuter, newIter]

/-- **A chain works on a copy.** Iterating over an iterator (`@`, `$`, `A`) starts from a new identity whose
    scope is a copy of the iterator's current scope; the iterator itself is not touched by taking the copy. -/
theorem chain_source_is_copy (id : Nat) (it : IterSt) (hid : s.iters[id]? = some it) :
    srcOf (fuel + 1) (.iter id) s
      = (.ok (.iter s.iters.length),
         { s with frames := s.frames ++ [s.frames.getD it.env default], iters := s.iters ++ [{ it with env := s.frames.length }] }) := by
  simp [srcOf, bindM, getIter, hid, copyIter, newIter]

/-- existing entries are still there after `new` / a chain copy -/
theorem getD_append_left {α : Type} (l : List α) (x d : α) (i : Nat) (h : i < l.length) : (l ++ [x]).getD i d = l.getD i d := by
  simp [List.getD, List.getElem?_append_left h]

/-- **`recur` swaps only its own iterator.** It points iterator `id` to a new frame (the re-bound arguments,
    enclosed in the literal's defining scope); all other iterators and all existing scopes are unchanged. -/
theorem recur_swaps_only_self (id : Nat) (it : IterSt) (hid : s.iters[id]? = some it) (args : List Val) (kwargs : List (String × Val)) :
    callVal (fuel + 1) (.recur id) args kwargs s
      = (.ok .nil,
         { s with
           frames := s.frames ++ [{ vars := bindArgs it.params it.kwd args kwargs [], outer := (s.frames.getD it.env default).outer }],
           iters := s.iters.modify id (fun it => { it with env := s.frames.length }) }) := by
  simp [callVal, bindM, getIter, hid, frameOuter, repointIter]

theorem recur_other_untouched (id j : Nat) (hj : j ≠ id) (its : List IterSt) (f : IterSt → IterSt) :
    (its.modify id f)[j]? = its[j]? := by
  rw [List.getElem?_modify]; simp [Ne.symm hj]

/-- **`next` evaluates the body once** in the iterator's own scope, with `recur` bound there. -/
theorem next_runs_body (id : Nat) (it : IterSt) (hid : s.iters[id]? = some it) :
    iterNext (fuel + 1) id s
      = evalStmts fuel it.body it.env
          { s with frames := s.frames.modify it.env (fun fr => { fr with vars := setAssoc "recur" (.recur id) fr.vars }) } := by
  simp [iterNext, bindM, getIter, hid, setVar]

/-- **A guarded `yield` whose condition is false raises StopIterErr** (and evaluates nothing else of the statement). -/
theorem guarded_yield_stops (e cond : Expr) (vc : Val) (s1 : St)
    (hc : evalE fuel cond env s = (.ok vc, s1)) (hf : vc.truthy = false) :
    evalStmt (fuel + 1) (.jumpIf .yld e cond) env s = (.err "StopIterErr" "iter stopped", s1) := by
  rw [evalStmt]; simp [bindM, hc, hf]

theorem guarded_yield_yields (e cond : Expr) (vc v : Val) (s1 s2 : St)
    (hc : evalE fuel cond env s = (.ok vc, s1)) (ht : vc.truthy = true) (he : evalE fuel e env s1 = (.ok v, s2)) :
    evalStmt (fuel + 1) (.jumpIf .yld e cond) env s = (.ok (.yld v), s2) := by
  rw [evalStmt]; simp [bindM, hc, ht, he]

/-- **The first yielded value is the result**; the rest of the body still runs (so a later `recur` takes effect). -/
theorem first_yield_wins (st : Stmt) (rest : List Stmt) (val v y : Val) (defers : List Expr) (s1 : St)
    (h : evalStmt fuel st env s = (.ok (.yld v), s1)) :
    stmtLoop (fuel + 1) (st :: rest) env val (some y) defers s = stmtLoop fuel rest env v (some y) defers s1 := by
  rw [stmtLoop]; simp [h]

theorem yield_is_result (st : Stmt) (rest : List Stmt) (val v : Val) (defers : List Expr) (s1 : St)
    (h : evalStmt fuel st env s = (.ok (.yld v), s1)) :
    stmtLoop (fuel + 1) (st :: rest) env val none defers s = stmtLoop fuel rest env v (some v) defers s1 := by
  rw [stmtLoop]; simp [h]

theorem result_is_yielded (val y : Val) (defers : List Expr) :
    stmtLoop (fuel + 1) [] env val (some y) defers s = (.ok (y, defers), s) := by
  rw [stmtLoop]; simp

/-- **A chain stops at the first StopIterErr** and passes every other error on. -/
theorem chain_stops_at_stopiter (id : Nat) (msg : String) (h : iterNext fuel id s = (.err "StopIterErr" msg, s')) :
    nextElem (fuel + 1) (.iter id) s = (.ok none, s') := by
  rw [nextElem]; simp [h]

theorem chain_passes_other_errors (id : Nat) (k msg : String) (hk : (k == "StopIterErr") = false)
    (h : iterNext fuel id s = (.err k msg, s')) :
    nextElem (fuel + 1) (.iter id) s = (.err k msg, s') := by
  rw [nextElem]; simp [h, hk]

theorem chain_visits_next (id : Nat) (v : Val) (h : iterNext fuel id s = (.ok v, s')) :
    nextElem (fuel + 1) (.iter id) s = (.ok (some (v, .iter id)), s') := by
  rw [nextElem]; simp [h]

end Pangaea.C14
