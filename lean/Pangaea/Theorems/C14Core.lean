/- C14 on the Core reference evaluator: a list chain over ANY source - the remaining elements of an array, a copy of an
   iterator, standard input - visits exactly the values successive `next` steps return, in order, up to the first
   "no more elements" (for an iterator: the first StopIterErr), calling the property once per value; and the iterator
   the chain was applied to is not the one that is stepped (`srcOf` makes a copy: `C14.chain_source_is_copy`).
   Sequential specification without fuel, proved to be what the evaluator's loop computes. -/
import Pangaea.Theorems.C04Core
import Pangaea.Theorems.C14
namespace Pangaea.C14
open Pangaea.Core Pangaea.C07 Pangaea.C04

/-- one `next` step of a source: `none` = exhausted (an iterator raised StopIterErr) -/
def NextGives (src : Src) (s : St) (r : Option (Val × Src)) (s' : St) : Prop := ∃ fuel, nextElem fuel src s = (.ok r, s')
def NextRaises (src : Src) (s : St) (k m : String) (s' : St) : Prop := ∃ fuel, nextElem fuel src s = (.err k m, s')

/-- for an iterator source, a step is a `next` of that iterator -/
theorem next_of_iter_value {id : Nat} {s s' : St} {v : Val} (h : ∃ fuel, iterNext fuel id s = (.ok v, s')) :
    NextGives (.iter id) s (some (v, .iter id)) s' := by
  obtain ⟨f, hf⟩ := h; exact ⟨f + 1, chain_visits_next id v hf⟩

theorem next_of_iter_stop {id : Nat} {s s' : St} {msg : String} (h : ∃ fuel, iterNext fuel id s = (.err "StopIterErr" msg, s')) :
    NextGives (.iter id) s none s' := by
  obtain ⟨f, hf⟩ := h; exact ⟨f + 1, chain_stops_at_stopiter id msg hf⟩

theorem next_of_iter_error {id : Nat} {s s' : St} {k msg : String} (hk : (k == "StopIterErr") = false)
    (h : ∃ fuel, iterNext fuel id s = (.err k msg, s')) : NextRaises (.iter id) s k msg s' := by
  obtain ⟨f, hf⟩ := h; exact ⟨f + 1, chain_passes_other_errors id k msg hk hf⟩

section
variable (a : Add) (name : String) (args : List Val) (kwargs : List (String × Val)) (env : Nat)

/-- list chain over a source: step, call, collect - until the source is exhausted or something raises -/
inductive SrcListRun : Src → List Val → St → R (List Val) → St → Prop
  | done {src : Src} {acc : List Val} {s s1 : St} : NextGives src s none s1 → SrcListRun src acc s (.ok acc) s1
  | step {src src' : Src} {x v : Val} {acc : List Val} {s s1 s2 s3 : St} {res : R (List Val)} :
      NextGives src s (some (x, src')) s1 → CallEnds a name args kwargs env x [] s1 (.ok v) s2 →
      SrcListRun src' (keep a acc v) s2 res s3 → SrcListRun src acc s res s3
  | raiseNext {src : Src} {acc : List Val} {s s1 : St} {k m : String} :
      NextRaises src s k m s1 → SrcListRun src acc s (.err k m) s1
  | raiseCall {src src' : Src} {x : Val} {acc : List Val} {s s1 s2 : St} {k m : String} :
      NextGives src s (some (x, src')) s1 → CallEnds a name args kwargs env x [] s1 (.err k m) s2 →
      SrcListRun src acc s (.err k m) s2
end

theorem nextElem_lift {f g : Nat} {src : Src} {s s' : St} {r : R (Option (Val × Src))}
    (h : nextElem f src s = (r, s')) (hr : r.notFuel) (hfg : f ≤ g) : nextElem g src s = (r, s') := by
  obtain ⟨k, rfl⟩ := Nat.exists_eq_add_of_le hfg
  induction k with
  | zero => exact h
  | succ k ih => exact (allLe (f + k)).nextElem src s r s' (ih (Nat.le_add_right _ _)) hr

theorem srcListRun_notFuel {a : Add} {name : String} {args : List Val} {kwargs : List (String × Val)} {env : Nat}
    {src : Src} {acc : List Val} {s s' : St} {res : R (List Val)} (h : SrcListRun a name args kwargs env src acc s res s') : res.notFuel := by
  induction h with
  | done _ => simp [R.notFuel]
  | step _ _ _ ih => exact ih
  | raiseNext _ => simp [R.notFuel]
  | raiseCall _ _ => simp [R.notFuel]

/-- **A list chain visits exactly the values the successive `next` steps return, up to the first exhaustion.** -/
theorem list_chain_src {a : Add} {name : String} {args : List Val} {kwargs : List (String × Val)} {env : Nat}
    {src : Src} {acc : List Val} {s s' : St} {res : R (List Val)} (h : SrcListRun a name args kwargs env src acc s res s') :
    ∃ fuel, propListLoop fuel a src name args kwargs env acc s = (res, s') := by
  induction h with
  | @done src acc s s1 hn =>
    obtain ⟨f, hf⟩ := hn
    exact ⟨f + 1, by rw [propListLoop]; simp [bindM, hf, pureM]⟩
  | @step src src' x v acc s s1 s2 s3 res hn hc hrest ih =>
    obtain ⟨e, he⟩ := hn
    obtain ⟨f, hf⟩ := hc
    obtain ⟨g, hg⟩ := ih
    simp only [List.nil_append] at hf
    have h0 := nextElem_lift he (by simp [R.notFuel]) (Nat.le_max_left e (max f g))
    have h1 := propAdd_lift hf (by simp [R.notFuel]) (Nat.le_trans (Nat.le_max_left f g) (Nat.le_max_right e (max f g)))
    have h2 := propListLoop_lift hg (srcListRun_notFuel hrest) (Nat.le_trans (Nat.le_max_right f g) (Nat.le_max_right e (max f g)))
    refine ⟨max e (max f g) + 1, ?_⟩
    rw [propListLoop]
    simp only [bindM, h0, h1]
    cases a <;> cases v <;> simp_all [keep]
  | @raiseNext src acc s s1 k m hn =>
    obtain ⟨f, hf⟩ := hn
    exact ⟨f + 1, by rw [propListLoop]; simp [bindM, hf]⟩
  | @raiseCall src src' x acc s s1 s2 k m hn hc =>
    obtain ⟨e, he⟩ := hn
    obtain ⟨f, hf⟩ := hc
    simp only [List.nil_append] at hf
    have h0 := nextElem_lift he (by simp [R.notFuel]) (Nat.le_max_left e f)
    have h1 := propAdd_lift hf (by simp [R.notFuel]) (Nat.le_max_right e f)
    exact ⟨max e f + 1, by rw [propListLoop]; simp [bindM, h0, h1]⟩

/-- the state in which the chain's own copy of iterator `it` exists (identity `s.iters.length`, a copied scope) -/
def withCopy (s : St) (it : IterSt) : St :=
  { s with frames := s.frames ++ [s.frames.getD it.env default], iters := s.iters ++ [{ it with env := s.frames.length }] }

/-- the chain expression over an iterator value steps a COPY: the source is a new identity with a copied scope, the
    iterator the chain was applied to keeps its entry, and the result is the array of the collected values -/
theorem list_chain_over_iterator {a : Add} {name : String} {args : List Val} {kwargs : List (String × Val)} {env : Nat}
    {id : Nat} {it : IterSt} {s s' : St} {vs : List Val} (hid : s.iters[id]? = some it)
    (h : SrcListRun a name args kwargs env (.iter s.iters.length) [] (withCopy s it) (.ok vs) s') :
    ∃ fuel, propChain fuel .list a (.iter id) .nil name args kwargs env s = (.ok (.arr vs), s') := by
  obtain ⟨f, hf⟩ := list_chain_src h
  refine ⟨f + 1, ?_⟩
  obtain ⟨n, hn⟩ : ∃ n, f = n + 1 := by
    cases f with
    | zero => simp [propListLoop, outOfFuel] at hf
    | succ f => exact ⟨f, rfl⟩
  rw [propChain]
  simp only [bindM]
  rw [hn, chain_source_is_copy id it hid, ← hn]
  simp only [withCopy] at hf
  simp only [List.getD_eq_getElem?_getD] at hf ⊢
  simp [pureM, hf]

/-- the original iterator's entry is untouched by taking the copy -/
theorem copy_keeps_original {id : Nat} {it : IterSt} {s : St} (hid : s.iters[id]? = some it) :
    (withCopy s it).iters[id]? = some it := by
  have hlt : id < s.iters.length := by
    rcases Nat.lt_or_ge id s.iters.length with h | h
    · exact h
    · rw [List.getElem?_eq_none h] at hid; cases hid
  simp [withCopy, List.getElem?_append_left hlt, hid]

end Pangaea.C14

/-! ### the converse: whatever the evaluator's list-chain loop computes is described by `SrcListRun` -/
namespace Pangaea.C14
open Pangaea.Core Pangaea.C07 Pangaea.C04 Pangaea.C15

/-- **Exactly the specification.** If the list-chain loop ends (with the collected values or an error), the source was
    stepped, and the property called, exactly as `SrcListRun` describes. With `list_chain_src` the loop and the
    sequential specification are the same relation. -/
theorem srcListRun_of_loop {a : Add} {name : String} {args : List Val} {kwargs : List (String × Val)} {env : Nat} :
    ∀ (f : Nat) (src : Src) (acc : List Val) (s s' : St) (r : R (List Val)),
      propListLoop f a src name args kwargs env acc s = (r, s') → Ended r → SrcListRun a name args kwargs env src acc s r s' := by
  intro f
  induction f with
  | zero => intro src acc s s' r h he; simp [propListLoop, outOfFuel] at h; obtain ⟨rfl, _⟩ := h; simp [Ended] at he
  | succ f ih =>
    intro src acc s s' r h he
    rw [propListLoop] at h
    simp only [bindM] at h
    cases hn : nextElem f src s with
    | mk rn s1 =>
      rw [hn] at h
      cases rn with
      | ok nx =>
        cases nx with
        | none =>
          simp only [pureM] at h
          obtain ⟨rfl, rfl⟩ := Prod.mk.inj h
          exact .done ⟨f, hn⟩
        | some p =>
          obtain ⟨x, src'⟩ := p
          simp only [bindM] at h
          cases hc : propAdd f a x name args kwargs env s1 with
          | mk rc s2 =>
            rw [hc] at h
            cases rc with
            | ok v =>
              have hcall : CallEnds a name args kwargs env x [] s1 (.ok v) s2 := ⟨f, by simpa using hc⟩
              have hrest : propListLoop f a src' name args kwargs env (keep a acc v) s2 = (r, s') := by
                cases a <;> cases v <;> simp_all [keep]
              exact .step ⟨f, hn⟩ hcall (ih src' _ s2 s' r hrest he)
            | err k m =>
              simp only at h
              obtain ⟨rfl, rfl⟩ := Prod.mk.inj h
              exact .raiseCall ⟨f, hn⟩ ⟨f, by simpa using hc⟩
            | fuel => simp only at h; obtain ⟨rfl, _⟩ := Prod.mk.inj h; simp [Ended] at he
            | unsup w => simp only at h; obtain ⟨rfl, _⟩ := Prod.mk.inj h; simp [Ended] at he
      | err k m =>
        simp only at h
        obtain ⟨rfl, rfl⟩ := Prod.mk.inj h
        exact .raiseNext ⟨f, hn⟩
      | fuel => simp only at h; obtain ⟨rfl, _⟩ := Prod.mk.inj h; simp [Ended] at he
      | unsup w => simp only at h; obtain ⟨rfl, _⟩ := Prod.mk.inj h; simp [Ended] at he

end Pangaea.C14

/-! ### reduce chains over any source -/
namespace Pangaea.C14
open Pangaea.Core Pangaea.C07 Pangaea.C04 Pangaea.C15

section
variable (a : Add) (name : String) (args : List Val) (kwargs : List (String × Val)) (env : Nat)

/-- reduce chain over a source: step, call with (accumulator, element), continue with the result -/
inductive SrcReduceRun : Src → Val → St → R Val → St → Prop
  | done {src : Src} {acc : Val} {s s1 : St} : NextGives src s none s1 → SrcReduceRun src acc s (.ok acc) s1
  | step {src src' : Src} {x v acc : Val} {s s1 s2 s3 : St} {res : R Val} :
      NextGives src s (some (x, src')) s1 → CallEnds a name args kwargs env acc [x] s1 (.ok v) s2 →
      SrcReduceRun src' v s2 res s3 → SrcReduceRun src acc s res s3
  | raiseNext {src : Src} {acc : Val} {s s1 : St} {k m : String} :
      NextRaises src s k m s1 → SrcReduceRun src acc s (.err k m) s1
  | raiseCall {src src' : Src} {x acc : Val} {s s1 s2 : St} {k m : String} :
      NextGives src s (some (x, src')) s1 → CallEnds a name args kwargs env acc [x] s1 (.err k m) s2 →
      SrcReduceRun src acc s (.err k m) s2
end

theorem srcReduceRun_notFuel {a : Add} {name : String} {args : List Val} {kwargs : List (String × Val)} {env : Nat}
    {src : Src} {acc : Val} {s s' : St} {res : R Val} (h : SrcReduceRun a name args kwargs env src acc s res s') : res.notFuel := by
  induction h with
  | done _ => simp [R.notFuel]
  | step _ _ _ ih => exact ih
  | raiseNext _ => simp [R.notFuel]
  | raiseCall _ _ => simp [R.notFuel]

/-- **A reduce chain folds left over exactly the values the successive `next` steps return.** -/
theorem reduce_chain_src {a : Add} {name : String} {args : List Val} {kwargs : List (String × Val)} {env : Nat}
    {src : Src} {acc : Val} {s s' : St} {res : R Val} (h : SrcReduceRun a name args kwargs env src acc s res s') :
    ∃ fuel, propReduceLoop fuel a src acc name args kwargs env s = (res, s') := by
  induction h with
  | @done src acc s s1 hn =>
    obtain ⟨f, hf⟩ := hn
    exact ⟨f + 1, by rw [propReduceLoop]; simp [bindM, hf, pureM]⟩
  | @step src src' x v acc s s1 s2 s3 res hn hc hrest ih =>
    obtain ⟨e, he⟩ := hn
    obtain ⟨f, hf⟩ := hc
    obtain ⟨g, hg⟩ := ih
    simp only [List.singleton_append] at hf
    have h0 := nextElem_lift he (by simp [R.notFuel]) (Nat.le_max_left e (max f g))
    have h1 := propAdd_lift hf (by simp [R.notFuel]) (Nat.le_trans (Nat.le_max_left f g) (Nat.le_max_right e (max f g)))
    have h2 := propReduceLoop_lift hg (srcReduceRun_notFuel hrest) (Nat.le_trans (Nat.le_max_right f g) (Nat.le_max_right e (max f g)))
    exact ⟨max e (max f g) + 1, by rw [propReduceLoop]; simp [bindM, h0, h1, h2]⟩
  | @raiseNext src acc s s1 k m hn =>
    obtain ⟨f, hf⟩ := hn
    exact ⟨f + 1, by rw [propReduceLoop]; simp [bindM, hf]⟩
  | @raiseCall src src' x acc s s1 s2 k m hn hc =>
    obtain ⟨e, he⟩ := hn
    obtain ⟨f, hf⟩ := hc
    simp only [List.singleton_append] at hf
    have h0 := nextElem_lift he (by simp [R.notFuel]) (Nat.le_max_left e f)
    have h1 := propAdd_lift hf (by simp [R.notFuel]) (Nat.le_max_right e f)
    exact ⟨max e f + 1, by rw [propReduceLoop]; simp [bindM, h0, h1]⟩

theorem srcReduceRun_of_loop {a : Add} {name : String} {args : List Val} {kwargs : List (String × Val)} {env : Nat} :
    ∀ (f : Nat) (src : Src) (acc : Val) (s s' : St) (r : R Val),
      propReduceLoop f a src acc name args kwargs env s = (r, s') → Ended r → SrcReduceRun a name args kwargs env src acc s r s' := by
  intro f
  induction f with
  | zero => intro src acc s s' r h he; simp [propReduceLoop, outOfFuel] at h; obtain ⟨rfl, _⟩ := h; simp [Ended] at he
  | succ f ih =>
    intro src acc s s' r h he
    rw [propReduceLoop] at h
    simp only [bindM] at h
    cases hn : nextElem f src s with
    | mk rn s1 =>
      rw [hn] at h
      cases rn with
      | ok nx =>
        cases nx with
        | none =>
          simp only [pureM] at h
          obtain ⟨rfl, rfl⟩ := Prod.mk.inj h
          exact .done ⟨f, hn⟩
        | some p =>
          obtain ⟨x, src'⟩ := p
          simp only [bindM] at h
          cases hc : propAdd f a acc name (x :: args) kwargs env s1 with
          | mk rc s2 =>
            rw [hc] at h
            cases rc with
            | ok v =>
              simp only at h
              exact .step ⟨f, hn⟩ ⟨f, by simpa using hc⟩ (ih src' v s2 s' r h he)
            | err k m =>
              simp only at h
              obtain ⟨rfl, rfl⟩ := Prod.mk.inj h
              exact .raiseCall ⟨f, hn⟩ ⟨f, by simpa using hc⟩
            | fuel => simp only at h; obtain ⟨rfl, _⟩ := Prod.mk.inj h; simp [Ended] at he
            | unsup w => simp only at h; obtain ⟨rfl, _⟩ := Prod.mk.inj h; simp [Ended] at he
      | err k m =>
        simp only at h
        obtain ⟨rfl, rfl⟩ := Prod.mk.inj h
        exact .raiseNext ⟨f, hn⟩
      | fuel => simp only at h; obtain ⟨rfl, _⟩ := Prod.mk.inj h; simp [Ended] at he
      | unsup w => simp only at h; obtain ⟨rfl, _⟩ := Prod.mk.inj h; simp [Ended] at he

end Pangaea.C14
