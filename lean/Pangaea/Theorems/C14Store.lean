/- C14 — iterator identities persist: whatever is evaluated, every existing iterator keeps its identity and its code
   (parameters, keyword defaults, body); only the scope it points to can change (through its own `recur`), and new
   identities are appended. Instance of the invariance principle `allStable`. -/
import Pangaea.Lemmas.Stable
namespace Pangaea.C14
open Pangaea.Core

def SameCode (a b : IterSt) : Prop := b.params = a.params ∧ b.kwd = a.kwd ∧ b.body = a.body

def IterKeep (s s' : St) : Prop :=
  ∀ (j : Nat) (it : IterSt), s.iters[j]? = some it → ∃ it', s'.iters[j]? = some it' ∧ SameCode it it'

theorem iterKeep_of_iters_eq {s s' : St} (h : s'.iters = s.iters) : IterKeep s s' :=
  fun j it hj => ⟨it, by rw [h]; exact hj, rfl, rfl, rfl⟩

theorem iterKeep_append (s : St) (extra : List IterSt) (s' : St) (h : s'.iters = s.iters ++ extra) : IterKeep s s' := by
  intro j it hj
  have hlt : j < s.iters.length := by
    rcases Nat.lt_or_ge j s.iters.length with h' | h'
    · exact h'
    · rw [List.getElem?_eq_none h'] at hj; cases hj
  exact ⟨it, by rw [h, List.getElem?_append_left hlt]; exact hj, rfl, rfl, rfl⟩

theorem iterKeep_prim : PrimStable IterKeep where
  refl := fun s => iterKeep_of_iters_eq rfl
  trans := by
    intro a b c hab hbc j it hj
    obtain ⟨it1, h1, c1⟩ := hab j it hj
    obtain ⟨it2, h2, c2⟩ := hbc j it1 h1
    exact ⟨it2, h2, c2.1.trans c1.1, c2.2.1.trans c1.2.1, c2.2.2.trans c1.2.2⟩
  setVar := fun _ _ _ _ => iterKeep_of_iters_eq rfl
  allocFrame := fun _ _ => iterKeep_of_iters_eq rfl
  copyFrame := fun _ _ => iterKeep_of_iters_eq rfl
  enterCall := fun _ _ _ _ _ _ => iterKeep_of_iters_eq rfl
  printLine := fun _ _ => iterKeep_of_iters_eq rfl
  readLine := fun s => by unfold readLine; cases s.inp <;> exact iterKeep_of_iters_eq rfl
  newIter := fun _ _ _ _ s => iterKeep_append s _ _ rfl
  copyIter := fun _ s => iterKeep_append s _ _ rfl
  repointIter := fun id fr s => by
    intro j it hj
    simp only [repointIter, List.getElem?_modify, hj]
    by_cases h : id = j
    · simp [h, SameCode]
    · simp [h, SameCode]

/-- **Iterators keep their identity and code.** For every expression, scope, state and fuel. -/
theorem iterators_keep_identity_and_code (fuel : Nat) (e : Expr) (env : Nat) (s : St) : IterKeep s (evalE fuel e env s).2 :=
  (allStable iterKeep_prim fuel).evalE e env s

theorem next_keeps_identity_and_code (fuel : Nat) (id : Nat) (s : St) : IterKeep s (iterNext fuel id s).2 :=
  (allStable iterKeep_prim fuel).iterNext id s

end Pangaea.C14
