/- C15 — deferred expressions run exactly once, in order, on every way out of a function.
   Model: Pangaea/Eval/Stmts.lean (transcription of evaluator/eval_program.go over an abstract statement
   evaluator); lemmas: Lemmas/Stmts.lean. The theorems hold for every state type, every statement
   semantics `ev`, every deferred-expression semantics `evd`, every body. -/
import Pangaea.Lemmas.Stmts
namespace Pangaea.C15
open Pangaea.Stmts Pangaea.StmtsLemmas

variable {S σ V D : Type}

/-- **Body.** The Go statement loop (early returns, three mutable locals) computes the declarative
    reference: it leaves at the first statement that returns, raises or yields an error; the defers it
    hands over are exactly those of the statements completed before that exit, in reach order; the
    value of a body that falls off its end is its first yield, else its last statement's value. -/
theorem evalBody_eq_spec (ev : S → σ → SVal V D × σ) (nil : V) (stmts : List S) (s : σ) :
    evalBody ev nil stmts s = specBody ev nil stmts s := by
  unfold evalBody
  rw [evalLoop_spec]
  cases h : exitOf (scan ev stmts s) with
  | some p => simp only [specFrom, specBody, h, List.nil_append]
  | none => simp only [specFrom, specBody, h, List.nil_append, accValue, fallValue] <;> rfl

/-- **Reached defers only.** Defers of statements after the exit are not handed over. -/
theorem defers_are_reached (ev : S → σ → SVal V D × σ) (nil : V) (stmts : List S) (s : σ) :
    (evalBody ev nil stmts s).2.1 = reachedDefers (scan ev stmts s) := by
  rw [evalBody_eq_spec]
  cases h : exitOf (scan ev stmts s) <;> simp only [specBody, h]

/-- **Once each, in order.** `evalDefer` evaluates the deferred expressions front to back, each once,
    and stops after the first one that raises: the log is `ds` when none fails and `ds.take (k+1)` when
    the k-th is the first to fail, in which case its error is returned. -/
theorem evalDefer_log (evd : D → σ → Option V × σ) (ds : List D) (s : σ) :
    match firstFailing evd ds s with
    | none => (evalDefer evd ds s).1 = none ∧ (evalDefer evd ds s).2.2 = ds
    | some (k, e) => (evalDefer evd ds s).1 = some e ∧ (evalDefer evd ds s).2.2 = ds.take (k + 1) := by
  induction ds generalizing s with
  | nil => simp [firstFailing, evalDefer]
  | cons d rest ih =>
    unfold firstFailing evalDefer
    rcases h : evd d s with ⟨r, s'⟩
    cases r with
    | some e => simp
    | none =>
      have ih' := ih s'
      cases hf : firstFailing evd rest s' with
      | none =>
        rw [hf] at ih'
        dsimp only
        rw [hf]
        exact ⟨ih'.1, by rw [ih'.2]⟩
      | some p =>
        rw [hf] at ih'
        dsimp only
        rw [hf]
        exact ⟨ih'.1, by rw [ih'.2]; rfl⟩

/-- **Outcome.** The function's value or error is the body's, unless a deferred expression raises:
    then it is that expression's error. -/
theorem evalStmts_outcome (ev : S → σ → SVal V D × σ) (evd : D → σ → Option V × σ) (nil : V)
    (stmts : List S) (s : σ) :
    let b := specBody ev nil stmts s
    match firstFailing evd b.2.1 b.2.2 with
    | none => (evalStmts ev evd nil stmts s).1 = b.1
    | some (_, e) => (evalStmts ev evd nil stmts s).1 = .err e := by
  intro b
  have hl := evalDefer_log evd b.2.1 b.2.2
  unfold evalStmts
  rw [evalBody_eq_spec]
  cases hf : firstFailing evd b.2.1 b.2.2 with
  | none => simp only [hf] at hl; simp only [b] at hl; simp [hl.1]; rfl
  | some p => simp only [hf] at hl; simp only [b] at hl; simp [hl.1]

/-! Non-vacuity: a concrete instance (state = output trace), evaluated by the kernel. -/
section witness
inductive St where
  | print (m : String) | deferPrint (m : String) | ret (v : Nat) | raise (m : String)
def evSt : St → List String → SVal (Nat ⊕ String) String × List String
  | .print m, out => (.val (.inl 0), out ++ [m])
  | .deferPrint m, out => (.dfr m, out)
  | .ret v, out => (.ret (.inl v), out)
  | .raise m, out => (.err (.inr m), out)
def evdSt (m : String) (out : List String) : Option (Nat ⊕ String) × List String := (none, out ++ [m])

-- `{|| defer "d1".p; "a".p; defer "d2".p; return 7; defer "d3".p}`: d1, d2 run once, in order, after the body
example : evalStmts evSt evdSt (.inl 0) [.deferPrint "d1", .print "a", .deferPrint "d2", .ret 7, .deferPrint "d3"] []
    = (.val (.inl 7), ["a", "d1", "d2"]) := by decide
-- exit by raise after the first defer only
example : evalStmts evSt evdSt (.inl 0) [.deferPrint "d1", .raise "boom", .deferPrint "d2"] []
    = (.err (.inr "boom"), ["d1"]) := by decide
-- a body whose last statement is a defer evaluates to nil (the repaired leak)
example : evalStmts evSt evdSt (.inl 0) [.print "b", .deferPrint "d"] [] = (.val (.inl 0), ["b", "d"]) := by decide
end witness

end Pangaea.C15
