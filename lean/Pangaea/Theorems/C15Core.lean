/- C15 on the Core reference evaluator: a function body / program is "run the statements, registering each reached
   `defer` (its guard, if any, already decided when the statement was reached); then run the registered expressions
   once each, in the order they were registered, in the state the body left; the first deferred expression that
   raises replaces the outcome (and the remaining ones are skipped)". The sequential specification is given as two
   inductive judgments without fuel; the theorem says the evaluator computes exactly what they describe. -/
import Pangaea.Theorems.C12Core
namespace Pangaea.C15
open Pangaea.Core Pangaea.C07 Pangaea.C12

/-- how the statements of a body end -/
inductive BodyEnd where
  | fin (v : Val)                 -- fell off the end, or `return v`
  | raised (k msg : String)

/-- `BodyRun env ss val yielded ds s end ds' s'`: running `ss` from the loop state (val, yielded, registered defers ds)
    ends with `end`, the registered defers `ds'` and the state `s'`. A `return` or a raise ends the run: later
    statements are not executed and their defers are never registered. -/
inductive BodyRun (env : Nat) : List Stmt → Val → Option Val → List Expr → St → BodyEnd → List Expr → St → Prop
  | nil (v : Val) (y : Option Val) (ds : List Expr) (s : St) : BodyRun env [] v y ds s (.fin (y.getD v)) ds s
  | val {st : Stmt} {rest : List Stmt} {v v1 : Val} {y : Option Val} {ds ds' : List Expr} {s s1 s2 : St} {o : BodyEnd} :
      GivesStmt st env s (.val v1) s1 → BodyRun env rest v1 y ds s1 o ds' s2 → BodyRun env (st :: rest) v y ds s o ds' s2
  | yld {st : Stmt} {rest : List Stmt} {v v1 : Val} {y : Option Val} {ds ds' : List Expr} {s s1 s2 : St} {o : BodyEnd} :
      GivesStmt st env s (.yld v1) s1 → BodyRun env rest v1 (some (y.getD v1)) ds s1 o ds' s2 → BodyRun env (st :: rest) v y ds s o ds' s2
  | dfr {st : Stmt} {rest : List Stmt} {v : Val} {e : Expr} {y : Option Val} {ds ds' : List Expr} {s s1 s2 : St} {o : BodyEnd} :
      GivesStmt st env s (.dfr e) s1 → BodyRun env rest .nil y (ds ++ [e]) s1 o ds' s2 → BodyRun env (st :: rest) v y ds s o ds' s2
  | ret {st : Stmt} {rest : List Stmt} {v v1 : Val} {y : Option Val} {ds : List Expr} {s s1 : St} :
      GivesStmt st env s (.ret v1) s1 → BodyRun env (st :: rest) v y ds s (.fin v1) ds s1
  | raise {st : Stmt} {rest : List Stmt} {v : Val} {y : Option Val} {ds : List Expr} {s s1 : St} {k msg : String} :
      RaisesStmt st env s k msg s1 → BodyRun env (st :: rest) v y ds s (.raised k msg) ds s1

/-- `DefersRun env ds s err s'`: the registered expressions run once each, first registered first; `err` is the
    error of the first one that raises (the later ones are skipped), or none -/
inductive DefersRun (env : Nat) : List Expr → St → Option (String × String) → St → Prop
  | nil (s : St) : DefersRun env [] s none s
  | ok {e : Expr} {rest : List Expr} {s s1 s2 : St} {v : Val} {o : Option (String × String)} :
      GivesE e env s v s1 → DefersRun env rest s1 o s2 → DefersRun env (e :: rest) s o s2
  | raise {e : Expr} {rest : List Expr} {s s1 : St} {k msg : String} :
      RaisesE e env s k msg s1 → DefersRun env (e :: rest) s (some (k, msg)) s1

/-- the outcome of the whole body: the first raising deferred expression, else the body's own end -/
def outcome : BodyEnd → Option (String × String) → R Val
  | _, some (k, m) => .err k m
  | .fin v, none => .ok v
  | .raised k m, none => .err k m

theorem runDefers_lift {f g : Nat} {ds : List Expr} {env : Nat} {s s' : St} {r : R Unit}
    (h : runDefers f ds env s = (r, s')) (hr : r.notFuel) (hfg : f ≤ g) : runDefers g ds env s = (r, s') := by
  obtain ⟨k, rfl⟩ := Nat.exists_eq_add_of_le hfg
  induction k with
  | zero => exact h
  | succ k ih => exact (allLe (f + k)).runDefers ds env s r s' (ih (Nat.le_add_right _ _)) hr

/-- the result of the defer loop -/
def dres : Option (String × String) → R Unit
  | none => .ok ()
  | some (k, m) => .err k m

theorem dres_notFuel (o : Option (String × String)) : (dres o).notFuel := by
  cases o with
  | none => simp [dres, R.notFuel]
  | some km => obtain ⟨k, m⟩ := km; simp [dres, R.notFuel]

/-- the error a raising body ends with: the first raising deferred expression's, else its own -/
def errOf (k m : String) (od : Option (String × String)) : String × String := od.getD (k, m)

theorem outcome_raised (k m : String) (od : Option (String × String)) :
    outcome (.raised k m) od = .err (errOf k m od).1 (errOf k m od).2 := by
  cases od with
  | none => simp [outcome, errOf]
  | some km => obtain ⟨k2, m2⟩ := km; simp [outcome, errOf]

/-- the evaluator's defer loop computes `DefersRun` -/
theorem runDefers_of_run {env : Nat} {ds : List Expr} {s s' : St} {o : Option (String × String)} (h : DefersRun env ds s o s') :
    ∃ fuel, runDefers fuel ds env s = (dres o, s') := by
  induction h with
  | nil s => exact ⟨1, by simp [runDefers, pureM, dres]⟩
  | @ok e rest s s1 s2 v o hv _ ih =>
    obtain ⟨f, hf⟩ := hv
    obtain ⟨g, hg⟩ := ih
    have h1 := evalE_lift hf (by simp [R.notFuel]) (Nat.le_max_left f g)
    have h2 := runDefers_lift hg (dres_notFuel o) (Nat.le_max_right f g)
    exact ⟨max f g + 1, by rw [runDefers]; simp [bindM, h1, h2]⟩
  | @raise e rest s s1 k msg hr =>
    obtain ⟨f, hf⟩ := hr
    exact ⟨f + 1, by rw [runDefers]; simp [bindM, hf, dres]⟩

/-- a body that ends without raising: the statement loop returns its value and the registered defers -/
theorem stmtLoop_of_fin {env : Nat} {ss : List Stmt} {v r : Val} {y : Option Val} {ds ds' : List Expr} {s s' : St}
    (h : BodyRun env ss v y ds s (.fin r) ds' s') : ∃ fuel, stmtLoop fuel ss env v y ds s = (.ok (r, ds'), s') := by
  generalize ho : BodyEnd.fin r = o at h
  induction h with
  | nil v y ds s => cases ho; exact ⟨1, by simp [stmtLoop, pureM]⟩
  | @val st rest v v1 y ds ds' s s1 s2 o hv _ ih =>
    obtain ⟨f, hf⟩ := hv
    obtain ⟨g, hg⟩ := ih ho
    have h1 := evalStmt_lift hf (by simp [R.notFuel]) (Nat.le_max_left f g)
    have h2 := stmtLoop_lift hg (by simp [R.notFuel]) (Nat.le_max_right f g)
    exact ⟨max f g + 1, by rw [stmtLoop]; simp [h1, h2]⟩
  | @yld st rest v v1 y ds ds' s s1 s2 o hv _ ih =>
    obtain ⟨f, hf⟩ := hv
    obtain ⟨g, hg⟩ := ih ho
    have h1 := evalStmt_lift hf (by simp [R.notFuel]) (Nat.le_max_left f g)
    have h2 := stmtLoop_lift hg (by simp [R.notFuel]) (Nat.le_max_right f g)
    exact ⟨max f g + 1, by rw [stmtLoop]; simp [h1, h2]⟩
  | @dfr st rest v e y ds ds' s s1 s2 o hv _ ih =>
    obtain ⟨f, hf⟩ := hv
    obtain ⟨g, hg⟩ := ih ho
    have h1 := evalStmt_lift hf (by simp [R.notFuel]) (Nat.le_max_left f g)
    have h2 := stmtLoop_lift hg (by simp [R.notFuel]) (Nat.le_max_right f g)
    exact ⟨max f g + 1, by rw [stmtLoop]; simp [h1, h2]⟩
  | @ret st rest v v1 y ds s s1 hv =>
    cases ho
    obtain ⟨f, hf⟩ := hv
    exact ⟨f + 1, by rw [stmtLoop]; simp [hf]⟩
  | raise _ => cases ho

/-- a body that raises: the statement loop runs the defers registered so far and reports the first raising one,
    else the body's error -/
theorem stmtLoop_of_raised {env : Nat} {ss : List Stmt} {v : Val} {y : Option Val} {ds ds' : List Expr} {s s1 s2 : St}
    {k m : String} {od : Option (String × String)}
    (h : BodyRun env ss v y ds s (.raised k m) ds' s1) (hd : DefersRun env ds' s1 od s2) :
    ∃ fuel, stmtLoop fuel ss env v y ds s = (.err (errOf k m od).1 (errOf k m od).2, s2) := by
  generalize ho : BodyEnd.raised k m = o at h
  induction h with
  | nil _ _ _ _ => cases ho
  | @val st rest v v1 y ds ds' s s1' s2' o hv _ ih =>
    obtain ⟨f, hf⟩ := hv
    obtain ⟨g, hg⟩ := ih hd ho
    have h1 := evalStmt_lift hf (by simp [R.notFuel]) (Nat.le_max_left f g)
    have h2 := stmtLoop_lift hg (by simp [R.notFuel]) (Nat.le_max_right f g)
    exact ⟨max f g + 1, by rw [stmtLoop]; simp [h1, h2]⟩
  | @yld st rest v v1 y ds ds' s s1' s2' o hv _ ih =>
    obtain ⟨f, hf⟩ := hv
    obtain ⟨g, hg⟩ := ih hd ho
    have h1 := evalStmt_lift hf (by simp [R.notFuel]) (Nat.le_max_left f g)
    have h2 := stmtLoop_lift hg (by simp [R.notFuel]) (Nat.le_max_right f g)
    exact ⟨max f g + 1, by rw [stmtLoop]; simp [h1, h2]⟩
  | @dfr st rest v e y ds ds' s s1' s2' o hv _ ih =>
    obtain ⟨f, hf⟩ := hv
    obtain ⟨g, hg⟩ := ih hd ho
    have h1 := evalStmt_lift hf (by simp [R.notFuel]) (Nat.le_max_left f g)
    have h2 := stmtLoop_lift hg (by simp [R.notFuel]) (Nat.le_max_right f g)
    exact ⟨max f g + 1, by rw [stmtLoop]; simp [h1, h2]⟩
  | ret _ => cases ho
  | @raise st rest v y ds s s1' k' m' hr =>
    cases ho
    obtain ⟨f, hf⟩ := hr
    obtain ⟨g, hg⟩ := runDefers_of_run hd
    have h1 := evalStmt_lift hf (by simp [R.notFuel]) (Nat.le_max_left f g)
    have h2 := runDefers_lift hg (dres_notFuel od) (Nat.le_max_right f g)
    refine ⟨max f g + 1, ?_⟩
    rw [stmtLoop]
    cases od with
    | none => simp [h1, h2, dres, errOf]
    | some km => obtain ⟨k2, m2⟩ := km; simp [h1, h2, dres, errOf]

/-- **Defers run once each, in registration order, after the body; the first raising one replaces the outcome.**
    For every body: if running its statements registers `ds` (only defers that were reached; none after a `return`
    or a raise) and ends in state s1, and running `ds` from s1 ends in s2, then evaluating the body ends in s2 with
    `outcome`. -/
theorem body_then_defers {env : Nat} {body : List Stmt} {o : BodyEnd} {ds : List Expr} {s s1 s2 : St} {od : Option (String × String)}
    (hb : BodyRun env body .nil none [] s o ds s1) (hd : DefersRun env ds s1 od s2) :
    ∃ fuel, evalStmts fuel body env s = (outcome o od, s2) := by
  cases o with
  | fin r =>
    obtain ⟨f, hf⟩ := stmtLoop_of_fin hb
    obtain ⟨g, hg⟩ := runDefers_of_run hd
    have h1 := stmtLoop_lift hf (by simp [R.notFuel]) (Nat.le_max_left f g)
    have h2 := runDefers_lift hg (dres_notFuel od) (Nat.le_max_right f g)
    refine ⟨max f g + 1, ?_⟩
    rw [evalStmts]
    cases od with
    | none => simp [h1, h2, bindM, pureM, outcome, dres]
    | some km => obtain ⟨k2, m2⟩ := km; simp [h1, h2, bindM, outcome, dres]
  | raised k m =>
    obtain ⟨f, hf⟩ := stmtLoop_of_raised hb hd
    refine ⟨f + 1, ?_⟩
    rw [evalStmts, outcome_raised]
    simp [hf]

/-- a guarded defer whose guard is falsy when the statement is reached registers nothing, whatever the guard would
    yield later (`guard_false_core`); one whose guard is truthy registers the expression unevaluated -/
theorem guarded_defer_registers {env : Nat} {e c : Expr} {rest : List Stmt} {v vc : Val} {y : Option Val} {ds ds' : List Expr}
    {s s1 s2 : St} {o : BodyEnd}
    (hc : GivesE c env s vc s1) (hrest : BodyRun env rest .nil y (if vc.truthy then ds ++ [e] else ds) s1 o ds' s2) :
    BodyRun env (.jumpIf .dfr e c :: rest) v y ds s o ds' s2 := by
  cases ht : vc.truthy with
  | true => rw [ht] at hrest; exact .dfr (guard_defer_core e hc ht) (by simpa using hrest)
  | false => rw [ht] at hrest; exact .val (guard_false_core .dfr (by decide) e hc ht) (by simpa using hrest)

/-- the premises are satisfiable: `defer 1; 2` registers one expression, gives 2 and runs the deferred expression -/
example : ∃ fuel, evalStmts fuel [.jump .dfr (.int 1), .expr (.int 2)] 0 (initSt []) = (outcome (.fin (.int 2)) none, initSt []) :=
  body_then_defers
    (BodyRun.dfr (e := .int 1) (s1 := initSt []) ⟨1, by simp [evalStmt, pureM]⟩
      (BodyRun.val (v1 := .int 2) (s1 := initSt []) ⟨2, by simp [evalStmt, evalE, bindM, pureM]⟩ (BodyRun.nil _ _ _ _)))
    (DefersRun.ok (v := .int 1) (s1 := initSt []) ⟨1, by simp [evalE, pureM]⟩ (DefersRun.nil _))

end Pangaea.C15

/-! ### the converse: whatever the evaluator computes for a body is described by the sequential specification -/
namespace Pangaea.C15
open Pangaea.Core Pangaea.C07 Pangaea.C12

/-- the evaluation ended (with a value or an error): the budget was sufficient and the program is inside the modelled core -/
def Ended {α : Type} : R α → Prop
  | .ok _ => True
  | .err _ _ => True
  | _ => False

theorem defersRun_of_runDefers {env : Nat} : ∀ (ds : List Expr) (f : Nat) (s s' : St) (r : R Unit),
    runDefers f ds env s = (r, s') → Ended r → ∃ od, DefersRun env ds s od s' ∧ r = dres od := by
  intro ds
  induction ds with
  | nil =>
    intro f s s' r h he
    cases f with
    | zero => simp [runDefers, outOfFuel] at h; obtain ⟨rfl, _⟩ := h; simp [Ended] at he
    | succ f => simp [runDefers, pureM] at h; obtain ⟨rfl, rfl⟩ := h; exact ⟨none, .nil _, rfl⟩
  | cons e rest ih =>
    intro f s s' r h he
    cases f with
    | zero => simp [runDefers, outOfFuel] at h; obtain ⟨rfl, _⟩ := h; simp [Ended] at he
    | succ f =>
      rw [runDefers] at h
      simp only [bindM] at h
      cases hev : evalE f e env s with
      | mk re s1 =>
        rw [hev] at h
        cases re with
        | ok v =>
          simp only at h
          obtain ⟨od, hd, hr⟩ := ih f s1 s' r h he
          exact ⟨od, .ok ⟨f, hev⟩ hd, hr⟩
        | err k m =>
          simp only at h
          obtain ⟨rfl, rfl⟩ := Prod.mk.inj h
          exact ⟨some (k, m), .raise ⟨f, hev⟩, rfl⟩
        | fuel => simp only at h; obtain ⟨rfl, _⟩ := Prod.mk.inj h; simp [Ended] at he
        | unsup w => simp only at h; obtain ⟨rfl, _⟩ := Prod.mk.inj h; simp [Ended] at he

end Pangaea.C15

namespace Pangaea.C15
open Pangaea.Core Pangaea.C07 Pangaea.C12

/-- what the statement loop returns, read back as the sequential specification -/
theorem bodyRun_of_stmtLoop {env : Nat} : ∀ (ss : List Stmt) (f : Nat) (v : Val) (y : Option Val) (ds : List Expr) (s s' : St)
    (r : R (Val × List Expr)), stmtLoop f ss env v y ds s = (r, s') → Ended r →
    (∃ rv ds', r = .ok (rv, ds') ∧ BodyRun env ss v y ds s (.fin rv) ds' s') ∨
    (∃ k m ds' s1 od, BodyRun env ss v y ds s (.raised k m) ds' s1 ∧ DefersRun env ds' s1 od s' ∧
      r = .err (errOf k m od).1 (errOf k m od).2) := by
  intro ss
  induction ss with
  | nil =>
    intro f v y ds s s' r h he
    cases f with
    | zero => simp [stmtLoop, outOfFuel] at h; obtain ⟨rfl, _⟩ := h; simp [Ended] at he
    | succ f => simp [stmtLoop, pureM] at h; obtain ⟨rfl, rfl⟩ := h; exact .inl ⟨_, _, rfl, .nil _ _ _ _⟩
  | cons st rest ih =>
    intro f v y ds s s' r h he
    cases f with
    | zero => simp [stmtLoop, outOfFuel] at h; obtain ⟨rfl, _⟩ := h; simp [Ended] at he
    | succ f =>
      rw [stmtLoop] at h
      dsimp only at h
      cases hev : evalStmt f st env s with
      | mk rs s1 =>
        rw [hev] at h
        cases rs with
        | ok sig =>
          cases sig with
          | val v1 =>
            simp only at h
            rcases ih f v1 y ds s1 s' r h he with ⟨rv, ds', hr, hb⟩ | ⟨k, m, ds', s2, od, hb, hd, hr⟩
            · exact .inl ⟨rv, ds', hr, .val ⟨f, hev⟩ hb⟩
            · exact .inr ⟨k, m, ds', s2, od, .val ⟨f, hev⟩ hb, hd, hr⟩
          | ret v1 =>
            simp only at h
            obtain ⟨rfl, rfl⟩ := Prod.mk.inj h
            exact .inl ⟨v1, ds, rfl, .ret ⟨f, hev⟩⟩
          | yld v1 =>
            simp only at h
            rcases ih f v1 _ ds s1 s' r h he with ⟨rv, ds', hr, hb⟩ | ⟨k, m, ds', s2, od, hb, hd, hr⟩
            · exact .inl ⟨rv, ds', hr, .yld ⟨f, hev⟩ hb⟩
            · exact .inr ⟨k, m, ds', s2, od, .yld ⟨f, hev⟩ hb, hd, hr⟩
          | dfr e =>
            simp only at h
            rcases ih f .nil y _ s1 s' r h he with ⟨rv, ds', hr, hb⟩ | ⟨k, m, ds', s2, od, hb, hd, hr⟩
            · exact .inl ⟨rv, ds', hr, .dfr ⟨f, hev⟩ hb⟩
            · exact .inr ⟨k, m, ds', s2, od, .dfr ⟨f, hev⟩ hb, hd, hr⟩
        | err k m =>
          simp only at h
          cases hrd : runDefers f ds env s1 with
          | mk rd s2 =>
            rw [hrd] at h
            cases rd with
            | ok u =>
              simp only at h
              obtain ⟨rfl, rfl⟩ := Prod.mk.inj h
              obtain ⟨od, hd, ho⟩ := defersRun_of_runDefers ds f s1 s2 (.ok u) hrd (by simp [Ended])
              cases od with
              | none => exact .inr ⟨k, m, ds, s1, none, .raise ⟨f, hev⟩, hd, by simp [errOf]⟩
              | some km => obtain ⟨k2, m2⟩ := km; simp [dres] at ho
            | err k2 m2 =>
              simp only at h
              obtain ⟨rfl, rfl⟩ := Prod.mk.inj h
              obtain ⟨od, hd, ho⟩ := defersRun_of_runDefers ds f s1 s2 (.err k2 m2) hrd (by simp [Ended])
              cases od with
              | none => simp [dres] at ho
              | some km =>
                obtain ⟨k3, m3⟩ := km
                simp [dres] at ho
                obtain ⟨rfl, rfl⟩ := ho
                exact .inr ⟨k, m, ds, s1, some (k2, m2), .raise ⟨f, hev⟩, hd, by simp [errOf]⟩
            | fuel => simp only at h; obtain ⟨rfl, _⟩ := Prod.mk.inj h; simp [Ended] at he
            | unsup w => simp only at h; obtain ⟨rfl, _⟩ := Prod.mk.inj h; simp [Ended] at he
        | fuel => simp only at h; obtain ⟨rfl, _⟩ := Prod.mk.inj h; simp [Ended] at he
        | unsup w => simp only at h; obtain ⟨rfl, _⟩ := Prod.mk.inj h; simp [Ended] at he

/-- **Exactly the specification.** Whenever evaluating a body ends (with a value or an error), its statements ran as
    `BodyRun` describes, the registered defers ran as `DefersRun` describes - each once, in registration order, after
    the body - and the result is `outcome`. Together with `body_then_defers` the evaluator and the sequential
    specification describe the same relation. -/
theorem evalStmts_is_body_then_defers {env : Nat} {body : List Stmt} {f : Nat} {s s' : St} {r : R Val}
    (h : evalStmts f body env s = (r, s')) (he : Ended r) :
    ∃ o ds s1 od, BodyRun env body .nil none [] s o ds s1 ∧ DefersRun env ds s1 od s' ∧ r = outcome o od := by
  cases f with
  | zero => simp [evalStmts, outOfFuel] at h; obtain ⟨rfl, _⟩ := h; simp [Ended] at he
  | succ f =>
    rw [evalStmts] at h
    cases hl : stmtLoop f body env .nil none [] s with
    | mk rl s1 =>
      simp only [hl] at h
      cases rl with
      | ok p =>
        obtain ⟨rv, ds'⟩ := p
        simp only [bindM] at h
        rcases bodyRun_of_stmtLoop body f .nil none [] s s1 _ hl (by simp [Ended]) with ⟨rv', ds'', hr, hb⟩ | ⟨k, m, ds'', s2, od, _, _, hr⟩
        · simp at hr; obtain ⟨rfl, rfl⟩ := hr
          cases hrd : runDefers f ds' env s1 with
          | mk rd s2 =>
            rw [hrd] at h
            cases rd with
            | ok u =>
              simp only [pureM] at h
              obtain ⟨rfl, rfl⟩ := Prod.mk.inj h
              obtain ⟨od, hd, ho⟩ := defersRun_of_runDefers ds' f s1 s2 (.ok u) hrd (by simp [Ended])
              cases od with
              | none => exact ⟨.fin rv, ds', s1, none, hb, hd, by simp [outcome]⟩
              | some km => obtain ⟨k2, m2⟩ := km; simp [dres] at ho
            | err k2 m2 =>
              simp only at h
              obtain ⟨rfl, rfl⟩ := Prod.mk.inj h
              obtain ⟨od, hd, ho⟩ := defersRun_of_runDefers ds' f s1 s2 (.err k2 m2) hrd (by simp [Ended])
              cases od with
              | none => simp [dres] at ho
              | some km =>
                obtain ⟨k3, m3⟩ := km
                simp [dres] at ho
                obtain ⟨rfl, rfl⟩ := ho
                exact ⟨.fin rv, ds', s1, some (k2, m2), hb, hd, by simp [outcome]⟩
            | fuel => simp only at h; obtain ⟨rfl, _⟩ := Prod.mk.inj h; simp [Ended] at he
            | unsup w => simp only at h; obtain ⟨rfl, _⟩ := Prod.mk.inj h; simp [Ended] at he
        · simp at hr
      | err k m =>
        simp only at h
        obtain ⟨rfl, rfl⟩ := Prod.mk.inj h
        rcases bodyRun_of_stmtLoop body f .nil none [] s s1 _ hl (by simp [Ended]) with ⟨rv', ds'', hr, _⟩ | ⟨k0, m0, ds'', s2, od, hb, hd, hr⟩
        · simp at hr
        · exact ⟨.raised k0 m0, ds'', s2, od, hb, hd, by rw [outcome_raised]; simp at hr; simp [hr]⟩
      | fuel => simp only at h; obtain ⟨rfl, _⟩ := Prod.mk.inj h; simp [Ended] at he
      | unsup w => simp only at h; obtain ⟨rfl, _⟩ := Prod.mk.inj h; simp [Ended] at he

end Pangaea.C15
