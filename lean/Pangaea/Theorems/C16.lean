/- C16 — parsing does not depend on layout volume, token length or input chunking.
   Model: Pangaea/Syntax/Lexer.lean; lemmas: Lemmas/Lexer.lean. -/
import Pangaea.Lemmas.Lexer
import Pangaea.Generated.C16
namespace Pangaea.C16
open Pangaea.Lexer

/-- **Chunking.** However the reader splits the bytes into reads (any sizes, empty reads included,
    EOF reported with or after the last bytes), the lexer's buffer is the same byte string. -/
theorem readAll_chunks (bytes : List UInt8) (sizes : List Nat) :
    readAll (chunksOf bytes sizes) = bytes := by
  induction sizes generalizing bytes with
  | nil => simp [chunksOf, readAll]
  | cons n ns ih => simp [chunksOf, readAll, ih, List.take_append_drop]

theorem readAll_any_two_chunkings (bytes : List UInt8) (s1 s2 : List Nat) :
    readAll (chunksOf bytes s1) = readAll (chunksOf bytes s2) := by
  rw [readAll_chunks, readAll_chunks]

/-- **Layout volume.** A run of any number (≥ 1) of blank / comment lines with any surrounding blanks,
    followed by something that does not start another layout line, is consumed as exactly one RET token
    leaving exactly that continuation: the padding volume cannot change the token stream. -/
theorem ret_run (l : LLine) (ls : List LLine) (k : List Char) (hk : line k = none) :
    matchRET (runChars (l :: ls) ++ k) = some k := by
  unfold matchRET
  have h1 : line (runChars (l :: ls) ++ k) = some (runChars ls ++ k) := by
    simp only [runChars, List.append_assoc]; exact line_chars l _
  rw [h1]
  simp only []
  rw [afterRET_run (l :: ls) k hk]

/-- **Multi-line chains.** The same run followed by blanks and `|.`-style continuation is one
    MULTILINE_*_CHAIN token, for any run length. -/
theorem multiline_run (isChain : Char → Bool) (l : LLine) (ls : List LLine) (ws : List Char) (c : Char)
    (rest : List Char) (hws : ∀ c ∈ ws, isWs c = true) (hc : isChain c = true) :
    matchMultiline isChain (runChars (l :: ls) ++ (ws ++ '|' :: c :: rest)) = some rest := by
  have hk : line (ws ++ '|' :: c :: rest) = none := by
    unfold line
    rw [skipWs_append ws '|' _ hws (by decide)]
    simp [skipComment, isNl]
  unfold matchMultiline
  have h1 : line (runChars (l :: ls) ++ (ws ++ '|' :: c :: rest)) = some (runChars ls ++ (ws ++ '|' :: c :: rest)) := by
    simp only [runChars, List.append_assoc]; exact line_chars l _
  rw [h1]
  simp only []
  rw [afterRET_run (l :: ls) _ hk, skipWs_append ws '|' _ hws (by decide)]
  simp [hc]

/-- **Comments of any length** are one token up to (not including) the line end. -/
theorem comment_any_length (body : List Char) (nl : Char) (rest : List Char)
    (hb : ∀ c ∈ body, isNl c = false) (hn : isNl nl = true) :
    matchComment ('#' :: body ++ nl :: rest) = some (nl :: rest) := by
  simp only [matchComment, afterComment, List.cons_append]
  rw [skipBody_append body nl rest hb hn]

theorem dqBody_plain (body : List Char) (rest : List Char)
    (hb : ∀ c ∈ body, c ≠ '"' ∧ c ≠ '\\' ∧ isNl c = false) :
    dqBody (body ++ '"' :: rest) = some rest := by
  induction body with
  | nil => simp [dqBody]
  | cons c cs ih =>
    have hc := hb c (by simp)
    have ih' := ih (fun d hd => hb d (by simp [hd]))
    rw [List.cons_append]
    unfold dqBody
    split
    · rename_i heq; simp at heq; exact absurd heq.1 hc.2.1
    · rename_i heq; simp at heq; exact absurd heq.1 hc.1
    · rename_i c' cs' _ _ heq
      simp at heq; obtain ⟨rfl, rfl⟩ := heq
      simp [hc.2.2, ih']
    · rename_i heq; simp at heq

/-- **Double-quoted strings of any length** (no quote, backslash or line end inside) are one token
    with their full text. -/
theorem dq_any_length (body rest : List Char) (hb : ∀ c ∈ body, c ≠ '"' ∧ c ≠ '\\' ∧ isNl c = false) :
    matchDQ ('"' :: body ++ '"' :: rest) = some rest := by
  simp only [matchDQ, List.cons_append]; exact dqBody_plain body rest hb

theorem bqBody_plain (body : List Char) (rest : List Char) (hb : ∀ c ∈ body, c ≠ '`' ∧ c ≠ '\\') :
    bqBody (body ++ '`' :: rest) = some rest := by
  induction body with
  | nil => simp [bqBody]
  | cons c cs ih =>
    have hc := hb c (by simp)
    have ih' := ih (fun d hd => hb d (by simp [hd]))
    rw [List.cons_append]
    unfold bqBody
    split
    · rename_i heq; simp at heq; exact absurd heq.1 hc.2
    · rename_i heq; simp at heq; exact absurd heq.1 hc.1
    · rename_i heq; simp at heq; obtain ⟨_, rfl⟩ := heq; exact ih'
    · rename_i heq; simp at heq

/-- **Raw strings of any length** (line breaks allowed) are one token with their full text. -/
theorem bq_any_length (body rest : List Char) (hb : ∀ c ∈ body, c ≠ '`' ∧ c ≠ '\\') :
    matchBQ ('`' :: body ++ '`' :: rest) = some rest := by
  simp only [matchBQ, List.cons_append]; exact bqBody_plain body rest hb

theorem skipIdentChars_append (cs : List Char) (d : Char) (rest : List Char)
    (hcs : ∀ c ∈ cs, isIdentChar c = true) (hd : isIdentChar d = false) :
    skipIdentChars (cs ++ d :: rest) = d :: rest := by
  induction cs with
  | nil => simp [skipIdentChars, hd]
  | cons c cs ih =>
    simp only [List.cons_append, skipIdentChars, hcs c (by simp), if_true]
    exact ih (fun c hc => hcs c (by simp [hc]))

/-- **Identifiers of any length** are one token with their full text. -/
theorem ident_any_length (c : Char) (cs : List Char) (d : Char) (rest : List Char)
    (hc : isIdentStart c = true) (hcs : ∀ c ∈ cs, isIdentChar c = true)
    (hd : isIdentChar d = false) (hd1 : d ≠ '!') (hd2 : d ≠ '?') :
    matchIdent (c :: cs ++ d :: rest) = some (d :: rest) := by
  simp only [matchIdent, List.cons_append, hc, if_true]
  rw [skipIdentChars_append cs d rest hcs hd]
  split
  · rename_i heq; simp at heq; exact absurd heq.1 hd1
  · rename_i heq; simp at heq; exact absurd heq.1 hd2
  · rfl

/-- **Generated obligation.** The regular expressions the matchers were transcribed from are the ones
    the lexer uses now (regenerated from `parser.VerifTokenTypes()` on every run). -/
theorem regexes_are_the_transcribed_ones :
    Generated.C16.tokenTable.lookup "RET" = some "^(?:(([ \\t]*(#[^\\n\\r]*)?(\\r|\\n|\\r\\n))+|#[^\\n\\r]*))" ∧
    Generated.C16.tokenTable.lookup "MULTILINE_MAIN_CHAIN" = some "^(?:([ \\t]*(#[^\\n\\r]*)?(\\r|\\n|\\r\\n))+[ \\t]*\\|[\\.@$])" ∧
    Generated.C16.tokenTable.lookup "MULTILINE_ADD_CHAIN" = some "^(?:([ \\t]*(#[^\\n\\r]*)?(\\r|\\n|\\r\\n))+[ \\t]*\\|[&~=])" ∧
    Generated.C16.tokenTable.lookup "DOUBLEQUOTE_STR" = some "^(?:\"(\\\\\\\"|[^\\\"\\n\\r])*\")" ∧
    Generated.C16.tokenTable.lookup "BACKQUOTE_STR" = some "^(?:`(\\\\`|[^`])*`)" ∧
    Generated.C16.tokenTable.lookup "IDENT" = some "^(?:[a-zA-Z][a-zA-Z0-9_]*[!?]?)" := by
  decide

/-! Non-vacuity (kernel-evaluated). -/
example : matchRET "  \n# c\n\t\nfoo".toList = some "foo".toList := by decide
example : matchRET "\n   foo".toList = some "   foo".toList := by decide
example : matchMultiline isMainChain "\n  # c\n  |.b".toList = some "b".toList := by decide
example : matchDQ "\"a\\\"b\" x".toList = some " x".toList := by decide
example : readAll (chunksOf [1, 2, 3, 4, 5] [2, 0, 1]) = [1, 2, 3, 4, 5] := by decide

end Pangaea.C16
