/- C17 — literals and names denote what their spelling says.
   Model: Pangaea/Syntax/Literal.lean (+ the identifier matcher of Syntax/Lexer.lean). -/
import Pangaea.Syntax.Literal
import Pangaea.Theorems.C16
namespace Pangaea.C17
open Pangaea.Literal

theorem valueOf_snoc (base : Nat) (ds : List Nat) (d : Nat) :
    valueOf base (ds ++ [d]) = valueOf base ds * base + d := by
  simp [valueOf, List.foldl_append]

theorem foldl_shift (base : Nat) (ds : List Nat) (a : Nat) :
    ds.foldl (fun acc d => acc * base + d) a = a * base ^ ds.length + ds.foldl (fun acc d => acc * base + d) 0 := by
  induction ds generalizing a with
  | nil => simp
  | cons d ds ih =>
    simp only [List.foldl_cons, List.length_cons]
    rw [ih (a * base + d), ih (0 * base + d)]
    simp only [Nat.zero_mul, Nat.zero_add, Nat.pow_succ, Nat.add_mul, Nat.mul_assoc]
    rw [Nat.mul_comm base (base ^ ds.length)]
    omega

/-- **Positional value.** The value of a digit string is `Σ dᵢ · baseⁿ⁻¹⁻ⁱ`: the leading digit weighs
    `base^(number of remaining digits)`. -/
theorem valueOf_cons (base : Nat) (d : Nat) (ds : List Nat) :
    valueOf base (d :: ds) = d * base ^ ds.length + valueOf base ds := by
  unfold valueOf
  rw [List.foldl_cons, foldl_shift]
  simp

/-- **Integer literals.** A decimal/binary/octal/hex literal that is accepted has exactly the value of its
    digits (separators ignored) and that value fits in 64 bits … -/
theorem int_literal_exact (base : Nat) (s : List Char) (v : Int) (h : parseIntLit base s = .ok v) :
    ∃ ds, digitsOf base (stripSep s) = some ds ∧ v = (valueOf base ds : Nat) ∧ valueOf base ds ≤ maxInt64 := by
  unfold parseIntLit at h
  split at h
  · rename_i ds hds
    split at h
    · cases h
    · split at h
      · rename_i hle; cases h; exact ⟨ds, hds, rfl, hle⟩
      · cases h
  · cases h

/-- … and a literal whose value does not fit is rejected, never replaced by another value. -/
theorem int_literal_rejects_overflow (base : Nat) (s : List Char) (ds : List Nat)
    (hds : digitsOf base (stripSep s) = some ds) (hbig : ¬ valueOf base ds ≤ maxInt64) :
    parseIntLit base s = .err := by
  unfold parseIntLit
  simp only [hds]
  split
  · rfl
  · simp [hbig]

/-- **Exponent-form integers** denote mantissa · 10^exp exactly, or are rejected when that does not fit. -/
theorem exp_int_exact (mant exp : List Char) (ms es : List Nat) (v : Int)
    (hm : digitsOf 10 (stripSep mant) = some ms) (he : digitsOf 10 (stripSep exp) = some es)
    (h : parseExpInt mant false exp = .ok v) :
    v = (valueOf 10 ms * 10 ^ valueOf 10 es : Nat) ∧ valueOf 10 ms * 10 ^ valueOf 10 es ≤ maxInt64 := by
  unfold parseExpInt at h
  simp only [hm, he, expVal, Bool.false_eq_true, if_false] at h
  split at h
  · cases h
  · split at h
    · cases h
    · split at h
      · rename_i hle; cases h; exact ⟨rfl, hle⟩
      · cases h

theorem unquoteBody_plain (c : Char) (rest : List Char) (h1 : c ≠ '\\') :
    unquoteBody (c :: rest) = if c == '"' || c == '\n' then .err else (unquoteBody rest).cons c := by
  rw [unquoteBody.eq_def]; simp [h1]

theorem unquote_quote_aux (s : List Char) : unquoteBody (quoteBody s) = .ok s := by
  induction s with
  | nil => rfl
  | cons c cs ih =>
    unfold quoteBody
    by_cases h1 : c = '\\'
    · subst h1; simp [unquoteBody, simpleEsc, ih, StrRes.cons]
    · by_cases h2 : c = '"'
      · subst h2; simp [unquoteBody, simpleEsc, ih, StrRes.cons]
      · by_cases h3 : c = '\n'
        · subst h3; simp [unquoteBody, simpleEsc, ih, StrRes.cons]
        · by_cases h4 : c = '\t'
          · subst h4; simp [unquoteBody, simpleEsc, ih, StrRes.cons]
          · by_cases h5 : c = '\r'
            · subst h5; simp [unquoteBody, simpleEsc, ih, StrRes.cons]
            · simp only [h1, h2, h3, h4, h5, beq_iff_eq, if_false, List.cons_append, List.nil_append]
              rw [unquoteBody_plain c _ h1]
              simp [h2, h3, ih, StrRes.cons]

/-- **Strings.** Writing any string with the documented escapes and reading it back gives exactly its
    characters. -/
theorem unquote_quote (s : List Char) : unquoteBody (quoteBody s) = .ok s := unquote_quote_aux s

/-- **Undefined escapes are rejected** (never decoded to something else). -/
theorem undefined_escape_rejected (c : Char) (cs : List Char)
    (h1 : simpleEsc c = none) (h2 : numericEsc c = false) : unquoteBody ('\\' :: c :: cs) = .err := by
  simp [unquoteBody, h1, h2]

/-- **Names.** A word of the documented identifier pattern is lexed as one identifier token with its full
    text (any length); it is a reserved word only if it *is* one of the six keywords — beginning with
    `if`, `else`, … is not enough. -/
theorem identifier_is_one_token (c : Char) (cs : List Char) (d : Char) (rest : List Char)
    (hc : Lexer.isIdentStart c = true) (hcs : ∀ x ∈ cs, Lexer.isIdentChar x = true)
    (hd : Lexer.isIdentChar d = false) (hd1 : d ≠ '!') (hd2 : d ≠ '?') :
    Lexer.matchIdent (c :: cs ++ d :: rest) = some (d :: rest) :=
  Pangaea.C16.ident_any_length c cs d rest hc hcs hd hd1 hd2

theorem keyword_prefix_is_identifier :
    classify "iffy".toList = .ident ∧ classify "elsewhere".toList = .ident ∧ classify "returned".toList = .ident ∧
    classify "raiser".toList = .ident ∧ classify "yields".toList = .ident ∧ classify "deferred?".toList = .ident ∧
    classify "if".toList = .reserved ∧ classify "defer".toList = .reserved := by decide

/-- first character of a token's regular expression after the `^(?:` anchor -/
def reHead (re : String) : Char := ((re.drop 4).toString.toList.head?).getD ' '

/-- **Generated obligation.** In the lexer's token table (regenerated on every run) no keyword pattern and no
    other pattern starting with a letter is tried before IDENT, except the method-literal openers `m{`, `m%{`,
    `m<{`; so a word of the identifier pattern always reaches the IDENT entry. -/
theorem no_letter_pattern_before_ident :
    ((Generated.C16.tokenTable.takeWhile (fun e => e.1 != "IDENT")).filter (fun e => (reHead e.2).isAlpha)).map (·.1)
      = ["METHOD_LITER", "METHOD_MAP_LBRACE", "METHOD_LBRACE"] ∧
    (Generated.C16.tokenTable.any (fun e => e.1 == "IDENT")) = true := by decide +kernel

/-! Non-vacuity and witnesses (kernel-evaluated). -/
example : parseIntLit 10 "1_000_000".toList = .ok 1000000 := by decide
example : parseIntLit 16 "ff".toList = .ok 255 := by decide
example : parseIntLit 10 "9223372036854775807".toList = .ok 9223372036854775807 := by decide
example : parseIntLit 10 "99999999999999999999".toList = .err := by decide
example : parseExpInt "9007199254740993".toList false "0".toList = .ok 9007199254740993 := by decide
example : parseExpInt "1".toList false "19".toList = .err := by decide
example : unquoteBody "a\\db".toList = .err := by decide
example : unquoteBody "a\\tb".toList = .ok "a\tb".toList := by decide

end Pangaea.C17
