/- C18 — equality and ordering obey their algebraic laws.
   Model: Pangaea/Props/Compare.lean. Domain: values whose objects have distinct property names
   (always true of evaluated objects, C09). -/
import Pangaea.Props.Compare
namespace Pangaea.C18
open Pangaea.Compare

-- well-formed values: nested objects bind every name once
mutual
def WF : V → Prop
  | .arr xs => WFList xs
  | .obj ps => (ps.map (·.1)).Nodup ∧ WFPairs ps
  | _ => True
def WFList : List V → Prop
  | [] => True
  | x :: xs => WF x ∧ WFList xs
def WFPairs : List (String × V) → Prop
  | [] => True
  | (_, v) :: ps => WF v ∧ WFPairs ps
end

theorem lookupV_mem (n : String) (v : V) (ps : List (String × V)) (hnd : (ps.map (·.1)).Nodup) (hm : (n, v) ∈ ps) :
    lookupV n ps = some v := by
  induction ps with
  | nil => cases hm
  | cons q qs ih =>
    obtain ⟨m, w⟩ := q
    simp only [List.map_cons, List.nodup_cons] at hnd
    unfold lookupV
    cases hm with
    | head => simp
    | tail _ h =>
      have hne : n ≠ m := by
        intro e; subst e
        exact hnd.1 (List.mem_map.mpr ⟨(n, v), h, rfl⟩)
      simp [hne, ih hnd.2 h]

theorem mem_of_lookupV (n : String) (w : V) (qs : List (String × V)) (h : lookupV n qs = some w) : (n, w) ∈ qs := by
  induction qs with
  | nil => simp [lookupV] at h
  | cons q qs ih =>
    obtain ⟨m, x⟩ := q
    unfold lookupV at h
    by_cases e : n = m
    · subst e; simp at h; subst h; exact List.mem_cons_self ..
    · simp [e] at h; exact List.mem_cons_of_mem _ (ih h)

mutual
/-- **Reflexivity**: `x == x` -/
theorem eqV_refl : ∀ (v : V), WF v → eqV v v = true
  | .nil, _ => by simp [eqV]
  | .bool b, _ => by cases b <;> simp [eqV, intView]
  | .int p v, _ => by simp [eqV, intView]
  | .flt p a, _ => by simp [eqV]
  | .str p a, _ => by simp [eqV]
  | .arr xs, h => by simp only [eqV]; exact eqList_refl xs h
  | .obj ps, h => by
      simp only [eqV, beq_self_eq_true, Bool.true_and]
      exact eqPairs_refl ps ps h.2 (fun p hp => lookupV_mem p.1 p.2 ps h.1 hp)
theorem eqList_refl : ∀ (xs : List V), WFList xs → eqList xs xs = true
  | [], _ => by simp [eqList]
  | x :: xs, h => by simp [eqList, eqV_refl x h.1, eqList_refl xs h.2]
theorem eqPairs_refl : ∀ (ps full : List (String × V)), WFPairs ps →
    (∀ p ∈ ps, lookupV p.1 full = some p.2) → eqPairs ps full = true
  | [], _, _, _ => by simp [eqPairs]
  | (n, v) :: ps, full, h, hl => by
      have h1 := hl (n, v) (List.mem_cons_self ..)
      simp only at h1
      simp only [eqPairs, h1, eqV_refl v h.1, Bool.true_and]
      exact eqPairs_refl ps full h.2 (fun p hp => hl p (List.mem_cons_of_mem _ hp))
end

/-- two name lists without repetition, of the same length, one included in the other, have the same members -/
theorem subset_of_nodup_len : ∀ (as bs : List String), as.Nodup → bs.Nodup → as.length = bs.length →
    (∀ a ∈ as, a ∈ bs) → ∀ b ∈ bs, b ∈ as := by
  intro as
  induction as with
  | nil => intro bs _ _ hl _ b hb; cases bs with
    | nil => cases hb
    | cons _ _ => simp at hl
  | cons a as ih =>
    intro bs ha hb hl hsub b hbm
    have hab : a ∈ bs := hsub a (List.mem_cons_self ..)
    have ha' := List.nodup_cons.mp ha
    by_cases hba : b = a
    · subst hba; exact List.mem_cons_self ..
    · have h1 : (bs.erase a).length = as.length := by
        rw [List.length_erase_of_mem hab]; simp at hl; omega
      have h2 : ∀ x ∈ as, x ∈ bs.erase a := by
        intro x hx
        have hxa : x ≠ a := fun h => ha'.1 (h ▸ hx)
        exact (List.mem_erase_of_ne hxa).mpr (hsub x (List.mem_cons_of_mem _ hx))
      have h3 := ih (bs.erase a) ha'.2 (hb.erase a) h1.symm h2 b ((List.mem_erase_of_ne hba).mpr hbm)
      exact List.mem_cons_of_mem _ h3

theorem eqPairs_iff (ps qs : List (String × V)) :
    eqPairs ps qs = true ↔ ∀ p ∈ ps, ∃ w, lookupV p.1 qs = some w ∧ eqV p.2 w = true := by
  induction ps with
  | nil => simp [eqPairs]
  | cons p ps ih =>
    obtain ⟨n, v⟩ := p
    simp only [eqPairs, Bool.and_eq_true, ih, List.mem_cons, forall_eq_or_imp]
    constructor
    · rintro ⟨h1, h2⟩
      refine ⟨?_, h2⟩
      cases hl : lookupV n qs with
      | none => simp [hl] at h1
      | some w => exact ⟨w, rfl, by simpa [hl] using h1⟩
    · rintro ⟨⟨w, hw, he⟩, h2⟩
      exact ⟨by simp [hw, he], h2⟩

theorem wfPairs_mem : ∀ (ps : List (String × V)), WFPairs ps → ∀ p ∈ ps, WF p.2
  | [], _, _, hp => by cases hp
  | (n, v) :: ps, h, p, hp => by
      cases hp with
      | head => exact h.1
      | tail _ hp' => exact wfPairs_mem ps h.2 p hp'

/-- symmetry of the object case, given symmetry for every value stored in `ps` -/
theorem obj_symm (ps qs : List (String × V)) (hx : WF (.obj ps)) (hy : WF (.obj qs))
    (ih : ∀ p ∈ ps, ∀ w, WF w → eqV p.2 w = true → eqV w p.2 = true)
    (h : eqV (.obj ps) (.obj qs) = true) : eqV (.obj qs) (.obj ps) = true := by
  simp only [eqV, Bool.and_eq_true, beq_iff_eq] at h ⊢
  refine ⟨h.1.symm, ?_⟩
  rw [eqPairs_iff]
  have hfw := (eqPairs_iff ps qs).mp h.2
  have hsub : ∀ a ∈ ps.map (·.1), a ∈ qs.map (·.1) := by
    intro a ha
    obtain ⟨p, hp, rfl⟩ := List.mem_map.mp ha
    obtain ⟨w, hw, _⟩ := hfw p hp
    exact List.mem_map.mpr ⟨(p.1, w), mem_of_lookupV _ _ _ hw, rfl⟩
  have hback := subset_of_nodup_len (ps.map (·.1)) (qs.map (·.1)) hx.1 hy.1 (by simp [h.1]) hsub
  intro q hq
  have hqn : q.1 ∈ ps.map (·.1) := hback q.1 (List.mem_map.mpr ⟨q, hq, rfl⟩)
  obtain ⟨p, hp, hpn⟩ := List.mem_map.mp hqn
  obtain ⟨w, hw, he⟩ := hfw p hp
  have hwq : w = q.2 := by
    have h1 := lookupV_mem q.1 q.2 qs hy.1 hq
    rw [hpn] at hw; rw [h1] at hw; exact (Option.some.inj hw).symm
  subst hwq
  refine ⟨p.2, ?_, ?_⟩
  · rw [← hpn]; exact lookupV_mem p.1 p.2 ps hx.1 hp
  · exact ih p hp q.2 (wfPairs_mem qs hy.2 q hq) he

theorem scalar_symm (x y : V) (hx : (match x with | .arr _ => False | .obj _ => False | _ => True))
    (h : eqV x y = true) : eqV y x = true := by
  cases x <;> cases y <;> simp_all [eqV, intView] <;>
    (first | omega | (rename_i a b; cases a <;> simp_all <;> omega) | (rename_i a b c; cases c <;> simp_all <;> omega) | skip)

mutual
-- **Symmetry**: `x == y` implies `y == x`
theorem eqV_symm : ∀ (x y : V), WF x → WF y → eqV x y = true → eqV y x = true
  | .nil, y, _, _, h => scalar_symm _ y trivial h
  | .bool a, y, _, _, h => scalar_symm _ y trivial h
  | .int p v, y, _, _, h => scalar_symm _ y trivial h
  | .flt p a, y, _, _, h => scalar_symm _ y trivial h
  | .str p a, y, _, _, h => scalar_symm _ y trivial h
  | .arr xs, y, hx, hy, h => by
      cases y with
      | arr ys => simp only [eqV] at h ⊢; exact eqList_symm xs ys hx hy h
      | _ => simp [eqV] at h
  | .obj ps, y, hx, hy, h => by
      cases y with
      | obj qs => exact obj_symm ps qs hx hy (pairs_symm ps hx.2) h
      | _ => simp [eqV] at h
theorem eqList_symm : ∀ (xs ys : List V), WFList xs → WFList ys → eqList xs ys = true → eqList ys xs = true
  | [], ys, _, _, h => by cases ys <;> simp_all [eqList]
  | x :: xs, ys, hx, hy, h => by
      cases ys with
      | nil => simp [eqList] at h
      | cons y ys =>
        simp only [eqList, Bool.and_eq_true] at h ⊢
        exact ⟨eqV_symm x y hx.1 hy.1 h.1, eqList_symm xs ys hx.2 hy.2 h.2⟩
theorem pairs_symm : ∀ (ps : List (String × V)), WFPairs ps → ∀ p ∈ ps, ∀ w, WF w → eqV p.2 w = true → eqV w p.2 = true
  | [], _, _, hp, _, _, _ => by cases hp
  | (n, v) :: ps, h, p, hp, w, hw, he => by
      cases hp with
      | head => exact eqV_symm v w h.1 hw he
      | tail _ hp' => exact pairs_symm ps h.2 p hp' w hw he
end

/-- `x == y ↔ y == x` as an equation -/
theorem eq_symm (x y : V) (hx : WF x) (hy : WF y) : eqV x y = eqV y x := by
  cases h1 : eqV x y <;> cases h2 : eqV y x <;> try rfl
  · have := eqV_symm y x hy hx h2; simp [h1] at this
  · have := eqV_symm x y hx hy h1; simp [h2] at this

/-- **`!=` is the negation of `==`** -/
theorem ne_is_not_eq (x y : V) : neV x y = !eqV x y := rfl

theorem cmp3_laws (k l : Key) (c : Int) (h : cmp3 k l = some c) :
    cmp3 l k = some (-c) ∧ (c = -1 ∨ c = 0 ∨ c = 1) ∧ (c = 0 ↔ k = l) := by
  cases k with
  | i a => cases l with
    | i b =>
      simp only [cmp3, Option.some.injEq] at h ⊢
      subst h
      have hk : (Key.i a = Key.i b) ↔ a = b := ⟨fun e => by injection e, fun e => by rw [e]⟩
      rw [hk]
      by_cases h1 : a > b
      · have : ¬ b > a := by omega
        have : ¬ b = a := by omega
        have : ¬ a = b := by omega
        simp [*]
      · by_cases h2 : a = b
        · subst h2; simp
        · have : b > a := by omega
          have : ¬ b = a := by omega
          simp [*]
    | s _ => simp [cmp3] at h
  | s a => cases l with
    | i _ => simp [cmp3] at h
    | s b =>
      simp only [cmp3, Option.some.injEq] at h ⊢
      subst h
      by_cases hab : a = b
      · subst hab; simp [String.lt_irrefl]
      · have hne : ¬ b = a := fun e => hab e.symm
        rcases String.le_total a b with hle | hle
        · -- a ≤ b and a ≠ b: a < b
          have hlt : a < b := by
            apply Classical.byContradiction; intro hn
            exact hab (String.le_antisymm hle (String.not_lt.mp hn))
          have hnb : ¬ b < a := String.lt_asymm hlt
          simp [hab, hne, hlt, hnb]
        · have hlt : b < a := by
            apply Classical.byContradiction; intro hn
            exact hab (String.le_antisymm (String.not_lt.mp hn) hle)
          have hnb : ¬ a < b := String.lt_asymm hlt
          simp [hab, hne, hlt, hnb]

/-- the comparable families, written out: ints (booleans are the ints 1 and 0 of the built-in prototype), floats, strs -/
inductive Fam : V → Nat → Nat → Key → Prop where
  | int (p : Nat) (v : Int) : Fam (.int p v) 0 p (.i v)
  | bool (b : Bool) : Fam (.bool b) 0 0 (.i (if b then 1 else 0))
  | flt (p : Nat) (a : Int) : Fam (.flt p a) 1 0 (.i a)     -- Float#== / Str#== ignore the prototype
  | str (p : Nat) (a : String) : Fam (.str p a) 2 0 (.s a)

theorem fam_famOf {x : V} {f p : Nat} {k : Key} (h : Fam x f p k) : famOf x = some (f, p, k) := by
  cases h <;> rfl

theorem key_i_inj (a b : Int) : (Key.i a = Key.i b) ↔ a = b := ⟨fun e => by injection e, fun e => by rw [e]⟩
theorem key_s_inj (a b : String) : (Key.s a = Key.s b) ↔ a = b := ⟨fun e => by injection e, fun e => by rw [e]⟩

/-- inside one family with one prototype, `==` is equality of keys -/
theorem eqV_fam {x y : V} {f p : Nat} {k l : Key} (hx : Fam x f p k) (hy : Fam y f p l) :
    eqV x y = true ↔ k = l := by
  cases hx <;> cases hy <;> simp [eqV, intView, key_i_inj, key_s_inj] <;>
    (first | omega | (rename_i b; cases b <;> simp <;> omega) | (rename_i a b; cases a <;> cases b <;> simp) | skip)

theorem cmp3_defined {x y : V} {f p q : Nat} {k l : Key} (hx : Fam x f p k) (hy : Fam y f q l) :
    ∃ c, cmp3 k l = some c := by
  cases hx <;> cases hy <;> exact ⟨_, rfl⟩

/-- **Trichotomy, unions, antisymmetry** for two ints (booleans included), two floats or two strs with the same
    prototype: exactly one of `x < y`, `x == y`, `x > y` holds; `<=`/`>=` are the unions; `x <=> y = -(y <=> x)`. -/
theorem order_laws {x y : V} {f p : Nat} {k l : Key} (hx : Fam x f p k) (hy : Fam y f p l) :
    ∃ c, cmpV x y = some c ∧ cmpV y x = some (-c) ∧ (c = -1 ∨ c = 0 ∨ c = 1) ∧
      (eqV x y = true ↔ c = 0) ∧ ltV x y = some (c == -1) ∧ gtV x y = some (c == 1) ∧
      leV x y = some (c != 1) ∧ geV x y = some (c != -1) := by
  obtain ⟨c, hc⟩ := cmp3_defined hx hy
  have hl := cmp3_laws k l c hc
  have fx := fam_famOf hx
  have fy := fam_famOf hy
  refine ⟨c, ?_, ?_, hl.2.1, ?_, ?_, ?_, ?_, ?_⟩
  · simp [cmpV, fx, fy, hc]
  · simp [cmpV, fx, fy, hl.1]
  · rw [eqV_fam hx hy]; exact hl.2.2.symm
  all_goals simp [ltV, gtV, leV, geV, cmpV, fx, fy, hc]

/-- **Transitivity** of the order on keys: `k ≤ l` and `l ≤ m` give `k ≤ m`, strictly if either is strict -/
theorem cmp3_trans (k l m : Key) (a b : Int) (h1 : cmp3 k l = some a) (h2 : cmp3 l m = some b)
    (ha : a ≤ 0) (hb : b ≤ 0) : ∃ c, cmp3 k m = some c ∧ c ≤ 0 ∧ (a = -1 ∨ b = -1 → c = -1) := by
  cases k with
  | i x => cases l with
    | i y => cases m with
      | i z =>
        simp only [cmp3, Option.some.injEq] at h1 h2 ⊢
        subst h1; subst h2
        refine ⟨_, rfl, ?_, ?_⟩ <;> (repeat' split) <;> simp_all <;> omega
      | s _ => simp [cmp3] at h2
    | s _ => simp [cmp3] at h1
  | s x => cases l with
    | i _ => simp [cmp3] at h1
    | s y => cases m with
      | i _ => simp [cmp3] at h2
      | s z =>
        have l1 := cmp3_laws (.s x) (.s y) a h1
        have l2 := cmp3_laws (.s y) (.s z) b h2
        simp only [cmp3, Option.some.injEq] at h1 h2 ⊢
        -- a ≤ 0 means ¬ y < x ; b ≤ 0 means ¬ z < y
        have hxy : ¬ y < x := by intro h; simp [h] at h1; omega
        have hyz : ¬ z < y := by intro h; simp [h] at h2; omega
        have hxz : ¬ z < x := by
          intro h
          -- x ≤ y ≤ z < x
          have h3 : x ≤ y := String.not_lt.mp hxy
          have h4 : y ≤ z := String.not_lt.mp hyz
          by_cases e1 : x = y
          · subst e1; exact hyz h
          · have hxy' : x < y := by
              apply Classical.byContradiction; intro hn
              exact e1 (String.le_antisymm h3 (String.not_lt.mp hn))
            by_cases e2 : y = z
            · subst e2; exact String.lt_asymm hxy' h
            · have hyz' : y < z := by
                apply Classical.byContradiction; intro hn
                exact e2 (String.le_antisymm h4 (String.not_lt.mp hn))
              exact String.lt_asymm (String.lt_trans hxy' hyz') h
        refine ⟨_, rfl, ?_, ?_⟩
        · simp only [hxz, if_false]; split <;> omega
        · intro hab
          simp only [hxz, if_false]
          have : x ≠ z := by
            intro e; subst e
            -- x ≤ y ≤ x so x = y, both comparisons 0
            have : x = y := String.le_antisymm (String.not_lt.mp hxy) (String.not_lt.mp hyz)
            subst this
            simp [String.lt_irrefl] at h1 h2
            omega
          simp [this]

/-- **Known finding as a theorem**: for members of one family with *different* prototypes and equal payload none
    of `<`, `==`, `>` holds (`==` compares prototypes, `<=>` does not). -/
theorem cross_prototype_gap :
    ltV (.int 1 1) (.int 0 1) = some false ∧ eqV (.int 1 1) (.int 0 1) = false ∧ gtV (.int 1 1) (.int 0 1) = some false := by
  simp [ltV, gtV, cmpV, famOf, cmp3, eqV, intView]

/-! Non-vacuity (kernel-evaluated). -/
example : eqV (.bool true) (.int 0 1) = true ∧ eqV (.int 0 1) (.bool true) = true := by decide
example : eqV (.obj [("a", .int 0 1), ("b", .arr [.nil])]) (.obj [("b", .arr [.nil]), ("a", .int 0 1)]) = true := by decide
example : ltV (.int 2 1) (.int 2 5) = some true ∧ ltV (.bool false) (.bool true) = some true := by decide

end Pangaea.C18
