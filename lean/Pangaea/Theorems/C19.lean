/- C19 — a fresh evaluation is independent of what the process evaluated before.
   Model: Pangaea/Eval/Fresh.lean. -/
import Pangaea.Eval.Fresh
namespace Pangaea.C19
open Pangaea.Fresh

/-- with both mechanisms in place a program neither reads nor changes the process state (except constants,
    which are never assigned) -/
theorem run_repaired (prog : List Act) (own : List (String × Nat)) (P Q : Proc) (hc : P.consts = Q.consts) :
    (run repaired prog own P).1 = (run repaired prog own Q).1 ∧ (run repaired prog own P).2.2 = P := by
  induction prog generalizing own with
  | nil => simp [run]
  | cons a rest ih =>
    cases a with
    | print s => simp only [run]; exact ⟨by rw [(ih own).1], (ih own).2⟩
    | define x v => simp only [run]; exact ih _
    | read x line =>
      simp only [run, lookup, hc]
      split
      · exact ⟨by rw [(ih own).1], (ih own).2⟩
      · simp
    | raiseShared line => simp [run, repaired]

theorem runNext_repaired_state (prog : List Act) (P : Proc) : (runNext repaired prog P).2 = P := by
  simp only [runNext, repaired, if_true]
  exact (run_repaired prog [] P P rfl).2

/-- **History independence.** For every history of earlier programs (failing ones included) and every later
    program: its output, the values it sees, its error report and stack trace are those of a newly started
    interpreter. -/
theorem fresh_independent (consts : List (String × Nat)) (history : List (List Act)) (prog : List Act) :
    (runNext repaired prog (runAll repaired history (P0 consts))).1 = (runNext repaired prog (P0 consts)).1 := by
  have hstate : runAll repaired history (P0 consts) = P0 consts := by
    unfold runAll
    induction history with
    | nil => rfl
    | cons h hs ih => rw [List.foldl_cons, runNext_repaired_state]; exact ih
  rw [hstate]

/-! Witnesses (kernel-evaluated): each mechanism is needed. -/
/-- without the copy, the second program that raises `_` reports the first program's source line -/
example :
    let cfg : Cfg := { copyShared := false, freshScope := true }
    (runNext cfg [.raiseShared "prog2 line 1"] (runAll cfg [[.raiseShared "prog1 line 7"]] (P0 []))).1
      = [.err ["prog1 line 7", "prog2 line 1"]] := by decide
/-- with a shared scope (`pangaea test` before the repair) a variable of an earlier file is visible -/
example :
    let cfg : Cfg := { copyShared := true, freshScope := false }
    (runNext cfg [.read "a" "l1"] (runAll cfg [[.define "a" 1]] (P0 []))).1 = [.val "a" 1] := by decide
example :
    (runNext repaired [.print "x", .read "a" "l2"] (runAll repaired [[.define "a" 1], [.raiseShared "l1"]] (P0 []))).1
      = [.out "x", .err ["l2"]] := by decide
example :
    (runNext repaired [.define "a" 2, .read "a" "l2", .read "K" "l3", .raiseShared "l4"] (runAll repaired [[.define "a" 1]] (P0 [("K", 7)]))).1
      = [.val "a" 2, .val "K" 7, .err ["l4"]] := by decide

end Pangaea.C19
