/- C20 — concurrent evaluations do not race on the interpreter-wide symbol tables.
   Model: Pangaea/Object/SymTab.lean (RWMutex transition system); the action sequences of the Go
   functions are REGENERATED from object/*.go on every run (Pangaea/Generated/C20.lean). -/
import Pangaea.Lemmas.SymTab
import Pangaea.Generated.C20
namespace Pangaea.C20
open Pangaea.SymTab Pangaea.SymTabLemmas

/-- **Generated obligation.** Every function of package `object` that touches `symHashTable`,
    `strTable` or the mutex accesses the tables only while holding the lock in a sufficient mode and
    returns without holding it; the extractor classified every site. -/
theorem generated_balanced :
    (Generated.C20.funcs.all (fun f => balanced f.2)) = true ∧ Generated.C20.unclassified = [] := by
  decide

/-- the extractor found the table functions (guards against an empty, vacuous table) -/
theorem generated_nonempty :
    (Generated.C20.funcs.any (fun f => f.2.any (fun a => a == Act.write Tbl.str))) = true ∧
    (Generated.C20.funcs.any (fun f => f.2.any (fun a => a == Act.read Tbl.str))) = true ∧
    (Generated.C20.funcs.any (fun f => f.2.any (fun a => a == Act.read Tbl.sym))) = true := by
  decide

/-- **Race freedom, every interleaving.** For any number of threads, each running any sequence of
    balanced functions, no reachable state of the transition system has two threads about to touch
    the same table with one of them writing. -/
theorem race_free_balanced (calls : List (List (List Act)))
    (hb : ∀ th ∈ calls, ∀ f ∈ th, balanced f = true) (s : Sys)
    (hr : Reach (initSys (calls.map List.flatten)) s) : ¬ Race s := by
  apply race_free (calls.map List.flatten) _ s hr
  intro p hp
  simp only [List.mem_map] at hp
  obtain ⟨th, hth, rfl⟩ := hp
  have := balanced_flatten th (hb th hth)
  simp only [balanced, beq_iff_eq] at this
  exact guardedEnd_guarded _ _ _ _ this

/-- **The code as extracted.** Threads that call the extracted functions of `hashtable.go` in any
    order, any number of times, under any schedule never race on the tables. -/
theorem race_free_generated (calls : List (List (List Act)))
    (hc : ∀ th ∈ calls, ∀ f ∈ th, f ∈ Generated.C20.funcs.map (·.2)) (s : Sys)
    (hr : Reach (initSys (calls.map List.flatten)) s) : ¬ Race s := by
  apply race_free_balanced calls _ s hr
  intro th hth f hf
  have hall := generated_balanced.1
  rw [List.all_eq_true] at hall
  have hm := hc th hth f hf
  simp only [List.mem_map] at hm
  obtain ⟨g, hg, rfl⟩ := hm
  exact hall g hg

/-! Non-vacuity and witnesses. -/
-- the function bodies before the repair: `SymHash2Str` read `strTable` without the lock
example : balanced [Act.read Tbl.str] = false := by decide
example : balanced [.rlock, .read .str, .runlock] = true := by decide
-- a racy system is really expressible: unlocked reader next to a locked writer
example : Race { threads := [{ todo := [.write .str, .unlock], hr := false, hw := true },
                             { todo := [.read .str], hr := false, hw := false }],
                 readers := 0, writer := true } :=
  ⟨0, 1, _, _, .str, _, _, by decide, rfl, rfl, rfl, Or.inr rfl⟩

end Pangaea.C20
