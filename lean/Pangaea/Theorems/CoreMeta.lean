/- Meta-theorems about the Core reference evaluator that all Core-based properties (C03, C07, C08, C14) rest on:
   it is a well-defined partial function of its input - more fuel never changes an answer (Lemmas/Fuel.lean). -/
import Pangaea.Lemmas.Fuel
namespace Pangaea.CoreMeta
open Pangaea.Core

/-- **Fuel monotonicity.** If evaluating `e` with some fuel ends without running out of fuel, then with any larger
    fuel it ends with exactly the same result in exactly the same state. -/
theorem evalE_fuel_mono (fuel k : Nat) (e : Expr) (env : Nat) (s s' : St) (r : R Val)
    (h : evalE fuel e env s = (r, s')) (hr : r.notFuel) : evalE (fuel + k) e env s = (r, s') := by
  induction k with
  | zero => exact h
  | succ k ihk => exact (allLe (fuel + k)).evalE e env s r s' ihk hr

theorem program_fuel_mono (fuel k : Nat) (prog : List Stmt) (env : Nat) (s s' : St) (r : R Val)
    (h : evalStmts fuel prog env s = (r, s')) (hr : r.notFuel) : evalStmts (fuel + k) prog env s = (r, s') := by
  induction k with
  | zero => exact h
  | succ k ihk => exact (allLe (fuel + k)).evalStmts prog env s r s' ihk hr

theorem call_fuel_mono (fuel k : Nat) (f : Val) (args : List Val) (kw : List (String × Val)) (s s' : St) (r : R Val)
    (h : callVal fuel f args kw s = (r, s')) (hr : r.notFuel) : callVal (fuel + k) f args kw s = (r, s') := by
  induction k with
  | zero => exact h
  | succ k ihk => exact (allLe (fuel + k)).callVal f args kw s r s' ihk hr

end Pangaea.CoreMeta
