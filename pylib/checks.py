"""Property table: which Lean modules/theorems, generated facts and harness generators decide each property."""

KERNEL = 'Lean 4.33.0 kernel (lake build; leanchecker re-check in the thorough tier)'
AX = 'axioms allowed per theorem: propext, Classical.choice, Quot.sound (checked by #print axioms on every run)'
TIE = 'correspondence: Go harness (-tags verif, built against /repo working tree) vs compiled Lean driver on the same cases'

CHECKS = {
    'C11': {
        'lean_modules': ['Pangaea.Theorems.C11'],
        'theorem_modules': ['Pangaea.Theorems.C11'],
        'theorems': ['Pangaea.C11.indices_prog', 'Pangaea.C11.indices_eq_spec', 'Pangaea.C11.indices_inRange',
                     'Pangaea.C11.valRange_spec', 'Pangaea.C11.strRange_spec', 'Pangaea.C11.arrIndex_eq_spec',
                     'Pangaea.C11.slice_subset', 'Pangaea.C11.zero_step'],
        'harness': ['C11'],
        'shards': 8,
        'spec_is_function': True,
        'exhaustive': True,
        'rule': 'exhaustive: lengths 0..5 (7 thorough) x start/stop/step in [-n-2,n+2] + nil + int64 extremes, arrays (elements = positions) '
                'through the Arr#at/Str#at built-ins and through parsed source; ASCII and multi-byte strings; random int64 bounds on lengths < 40. '
                'non-trivial = non-empty sequence and non-zero step; distinct by (case line, source text)',
        'trusted_base': [KERNEL, AX, TIE, 'model Pangaea/Eval/Index.lean is a hand transcription of evaluator/index.go (arrIndex, strIndex, fixRange, valRange, strRange)'],
        'assumptions': ['sequence length < 2^62', 'bounds are int64 values or omitted', 'string slicing observed by code point; invalid UTF-8 not generated'],
    },
    'C10': {
        'lean_modules': ['Pangaea.Theorems.C10'],
        'theorem_modules': ['Pangaea.Theorems.C10'],
        'theorems': ['Pangaea.C10.add_exact', 'Pangaea.C10.sub_exact', 'Pangaea.C10.mul_exact', 'Pangaea.C10.neg_exact',
                     'Pangaea.C10.tdiv_fits', 'Pangaea.C10.floorDiv_exact', 'Pangaea.C10.mod_spec', 'Pangaea.C10.remOk_iff', 'Pangaea.C10.mod_remOk', 'Pangaea.C10.zero_divisor',
                     'Pangaea.C10.div_is_float_quotient', 'Pangaea.C10.cmp_spec', 'Pangaea.C10.pow_exact'],
        'harness': ['C10'],
        'shards': 4,
        'spec_is_function': True,
        'exhaustive': True,
        'rule': 'exhaustive [-24,24]^2 (40 thorough) for + - * ** / // % <=> and unary -, nil right operand, boundary lattice (0, +-1, 2^31, 2^53+-1, sqrt(2^63), 2^62, int64 extremes)^2, '
                'powers base in [-12,12] exp 0..70, random pairs biased to opposite signs / large magnitudes; built-in closures called directly and a sample through parsed source. '
                'non-trivial = both operands non-zero; distinct by (case line, source text); spec "-" = result does not fit int64 (unconstrained)',
        'trusted_base': [KERNEL, AX, TIE, 'model Pangaea/Props/IntArith.lean is a hand transcription of props/int_props.go operators', 'math/big Exp is exact; float64 division and int->float conversion are not modelled in proofs (Lean Float used only in the executable driver)'],
        'assumptions': ['operands are int64', 'results that do not fit 64 bits are outside the property', '`/` compared bit-for-bit with IEEE double division of the converted operands'],
    },
    'C15': {
        'lean_modules': ['Pangaea.Theorems.C15', 'Pangaea.Theorems.C15Core'],
        'theorem_modules': ['Pangaea.Theorems.C15', 'Pangaea.Theorems.C15Core'],
        'theorems': ['Pangaea.C15.evalBody_eq_spec', 'Pangaea.C15.defers_are_reached', 'Pangaea.C15.evalDefer_log', 'Pangaea.C15.evalStmts_outcome',
                     # the Core evaluator computes the sequential specification (BodyRun, then DefersRun)
                     'Pangaea.C15.runDefers_of_run', 'Pangaea.C15.stmtLoop_of_fin', 'Pangaea.C15.stmtLoop_of_raised', 'Pangaea.C15.body_then_defers',
                     'Pangaea.C15.guarded_defer_registers', 'Pangaea.C15.defersRun_of_runDefers', 'Pangaea.C15.bodyRun_of_stmtLoop',
                     'Pangaea.C15.evalStmts_is_body_then_defers'],
        'harness': ['C15', 'C15core'],
        'shards': 14,
        'spec_is_function': True,
        'exhaustive': True,
        'rule': 'exhaustive: every function body of <= 2 (3 thorough) statements over 21 statement kinds (print, value, plain/guarded defer of print/raising call/failing expr/nested call, '
                'return, guarded return, raise, guarded raise, failing expr, yield, nested calls of helper functions with their own defers) = an exit of every kind at every statement index; '
                'random bodies up to 6 statements with 2-4 nested functions. Observables: stdout marker sequence + final value / error kind and message, vs the Lean statement-list model '
                'and the declarative reference. non-trivial = body has a defer and a statement that can leave the body; distinct by program text',
        'trusted_base': [KERNEL, AX, TIE, 'model Pangaea/Eval/Stmts.lean is a hand transcription of evaluator/eval_program.go (_evalStmts, evalDefer, evalStmts); the statement evaluator is abstract in the theorems and instantiated by a small statement language in Pangaea/Drv/C15.lean'],
        'assumptions': ['statement and deferred-expression semantics are arbitrary state transformers in the theorems', 'guard truthiness is covered by C12; in the statement-list model guards are literals of known truthiness; guards that read reassigned variables, print or raise are covered by the generated programs run against the Core evaluator (C15core)'],
    },
    'C20': {
        'lean_modules': ['Pangaea.Theorems.C20'],
        'theorem_modules': ['Pangaea.Theorems.C20'],
        'generated': ['C20'],
        'theorems': ['Pangaea.C20.generated_balanced', 'Pangaea.C20.generated_nonempty', 'Pangaea.C20.race_free_balanced', 'Pangaea.C20.race_free_generated'],
        'harness': ['C20'],
        'race': True,
        # evaluations run in separate scopes and share no program value: whatever two of them race on inside the
        # interpreter's packages is state the interpreter shares between evaluations
        'race_filter': r'github\.com/Syuparn/pangaea/(object|evaluator|props|di|parser|ast|native|runscript)',
        'spec_is_function': True,
        'rule': 'translator: the lock/access sequence of every function of package object touching symHashTable/strTable/lock is regenerated from source and checked (decide) to be balanced; '
                'sampled schedules: 8 (16 thorough) goroutines x 60 (400) rounds in a -race build interning fresh symbols (identifiers, object keys, JSON keys, fresh property names, direct API) '
                'while others convert symbols to strings (evalEnv/Env.Items, keys); non-trivial = the round interned a fresh symbol; distinct by program text',
        'trusted_base': [KERNEL, AX, 'translator /verif/extract (go/ast) from object/*.go to action sequences; fails closed on anything it cannot classify (aliasing, lock ops in control flow, closures)',
                         'Go memory model reduced to lock-set reasoning over one sync.RWMutex', 'Go race detector for the sampled schedules'],
        'assumptions': ['only the two symbol tables are modelled (the property\'s shared tables)', 'sync.RWMutex semantics: writers exclude readers and writers', 'schedules of the implementation are sampled, the universal claim is the Lean theorem over the extracted lock discipline'],
    },
    'C04': {
        'lean_modules': ['Pangaea.Theorems.C04', 'Pangaea.Theorems.C04Core'],
        'theorem_modules': ['Pangaea.Theorems.C04', 'Pangaea.Theorems.C04Core'],
        'theorems': ['Pangaea.C04.lit_list_spec', 'Pangaea.C04.prop_list_spec', 'Pangaea.C04.scalar_spec', 'Pangaea.C04.prop_reduce_spec',
                     'Pangaea.C04.lit_reduce_spec', 'Pangaea.C04.forms_agree_list_scalar', 'Pangaea.C04.forms_agree_reduce', 'Pangaea.C04.list_chain_fail_stop',
                     # the Core evaluator's chain loops compute the sequential specifications ListRun / ReduceRun
                     'Pangaea.C04.list_chain_elems', 'Pangaea.C04.reduce_chain_elems', 'Pangaea.C04.list_chain_value', 'Pangaea.C04.keep_plain', 'Pangaea.C04.keep_strict'],
        'harness': ['C04'],
        'shards': 14,
        'spec_is_function': True,
        'exhaustive': True,
        'rule': 'exhaustive: 12 chain contexts x 3 call forms (property, literal, variable) x every element table of length <= 3 (4 thorough) over {value, nil result, raise, nil element} '
                'x chain argument {absent, [], [7]} / initial accumulator {Acc, absent} x call argument {5, none}; random tables up to 8 elements; plus an implementation-only oracle: for receivers '
                'range, stepped range, int, str, obj, map, iterator literal, nested arr the three forms and the array of the same elements agree in all contexts. '
                'non-trivial = table has a non-value behaviour and > 1 element; distinct by (case line, source)',
        'trusted_base': [KERNEL, AX, TIE, 'model Pangaea/Eval/Chain.lean is a hand transcription of eval_propcall_chain.go and eval_literalcall_chain.go; callee, iterator and digest are parameters of the theorems'],
        'assumptions': ['the callee is a pure function in the theorems (side-effect order is C07/C08)', 'the chain argument / initial accumulator is not an error value (it is checked before the chain runs)', 'Obj/Map digests are exercised only by the forms-agree oracle'],
    },
    'C02': {
        'lean_modules': ['Pangaea.Theorems.C02'],
        'theorem_modules': ['Pangaea.Theorems.C02'],
        'generated': ['C02'],
        'theorems': ['Pangaea.C02.infix_grouping', 'Pangaea.C02.implied_parentheses', 'Pangaea.C02.grouping_unique', 'Pangaea.C02.ladder_is_documented',
                     'Pangaea.C02.prec_annotations', 'Pangaea.C02.infix_rules', 'Pangaea.C02.tables_follow_precedence', 'Pangaea.C02.tables_nonempty'],
        'harness': ['C02'],
        'shards': 14,
        'spec_is_function': True,
        'exhaustive': True,
        'rule': 'real parser vs the Lean operator-precedence parser (ladder of Syntax/Table.lean; yacc shift-reduce machine for pure infix strings): exhaustive 23x23 ordered infix pairs (plain operands '
                'and operand shapes ident/literal/call/index/grouped), triples (sampled 1/4 quick, all 23^3 thorough), every infix operator x {5 prefix ops, 8 chain forms, if, if-else, :=, +=, =>, '
                'return/raise/yield/defer, guarded jump} in both orders, construct x construct, 26 hand-picked ternary/assignment/jump mixes incl. rejected ones, random mixes of 2-7 operators; '
                'observable ast String(); agreement on syntax errors; implementation-only oracle: re-parsing the fully parenthesised print gives the same tree. non-trivial: all; distinct by source text',
        'trusted_base': [KERNEL, AX, TIE, 'translator /verif/extract: ladder, %prec and rules from parser.go.y; goyacc y.output as a description of y.go (goyacc re-run, output compared with the committed y.go)',
                         'the equivalence "LALR automaton = operator-precedence parser on all strings" is not proved: it rests on the state-table validation and the exhaustive pair/triple/mix run'],
        'assumptions': ['documented ladder = docs/reference/operators.md order, transcribed in Syntax/Table.lean', 'call f(x) and index a[0] apply to a unit expression (grammar structure), so they are atoms for the precedence parser'],
    },
    'C16': {
        'lean_modules': ['Pangaea.Theorems.C16'],
        'theorem_modules': ['Pangaea.Theorems.C16'],
        'generated_by_harness': ['C16'],
        'theorems': ['Pangaea.C16.readAll_chunks', 'Pangaea.C16.readAll_any_two_chunkings', 'Pangaea.C16.ret_run', 'Pangaea.C16.multiline_run',
                     'Pangaea.C16.comment_any_length', 'Pangaea.C16.dq_any_length', 'Pangaea.C16.bq_any_length', 'Pangaea.C16.ident_any_length',
                     'Pangaea.C16.regexes_are_the_transcribed_ones'],
        'harness': ['C16'],
        'shards': 14,
        'spec_is_function': True,
        'rule': '(1) Lean matchers vs the lexer\'s own regular expressions (obtained through the verif hook) on random strings over token-specific alphabets for RET, MULTILINE_*_CHAIN, "..." , `...`, IDENT; '
                '(2) string / raw string / comment / identifier / symbol tokens of 0-3, 1020-1030, 2040-2056, 3070-3080, 8192 (16384, 70000 thorough) characters must be lexed as one token with their full text; '
                '(3) real programs (tests/*.pangaea, native/*.pangaea sample + two dense templates): every line break replaced by padding of 5 kinds x the same sizes, and 22 reader chunkings incl. 1-byte, '
                'zero-length reads and data+EOF: ast String() must equal the original. non-trivial = size > 3 / a match / any chunking; distinct by case text',
        'trusted_base': [KERNEL, AX, TIE, 'matchers in Pangaea/Syntax/Lexer.lean are hand transcriptions of the token regexes; the regex strings are regenerated through parser.VerifTokenTypes() and compared by decide',
                         'Go regexp semantics (leftmost-first) is mirrored by the matchers, checked only by the differential run', 'io.ReadAll semantics'],
        'assumptions': ['only the layout tokens, strings, raw strings, comments and identifiers are modelled; the rest of the token table and the LALR parser are exercised by the padded/chunked real programs'],
    },
    'C17': {
        'lean_modules': ['Pangaea.Theorems.C17'],
        'theorem_modules': ['Pangaea.Theorems.C17'],
        'generated_by_harness': ['C16'],
        'theorems': ['Pangaea.C17.valueOf_cons', 'Pangaea.C17.int_literal_exact', 'Pangaea.C17.int_literal_rejects_overflow', 'Pangaea.C17.exp_int_exact',
                     'Pangaea.C17.unquote_quote', 'Pangaea.C17.undefined_escape_rejected', 'Pangaea.C17.identifier_is_one_token',
                     'Pangaea.C17.keyword_prefix_is_identifier', 'Pangaea.C17.no_letter_pattern_before_ident'],
        'harness': ['C17'],
        'shards': 8,
        'spec_is_function': True,
        'rule': 'single-literal programs: integer literals in 5 spellings of 4 bases with random `_` separators and leading zeros, values biased to 2^53, 2^63-1, 2^63, 2^64, 10^20; exponent-form integers (positive and '
                'negative exponents); float literals plain and with exponent vs the correctly rounded strconv.ParseFloat (bit equality); double-quoted strings over an alphabet with every single-character escape, '
                '10 undefined escapes, multi-byte characters; names: every keyword x 10 suffix/prefix shapes, random members of the identifier pattern, underscore-led names, each as variable, property and symbol. '
                'non-trivial: value > 255 / exponent > 0 / body has a backslash / every name; distinct by source',
        'trusted_base': [KERNEL, AX, TIE, 'model Pangaea/Syntax/Literal.lean mirrors the semantic actions of parser.go.y (strconv.ParseInt/Unquote by documented behaviour, math/big exact)',
                         'float rounding is a parameter: floats are only compared with strconv.ParseFloat in the harness'],
        'assumptions': ['numeric escapes (\\x, \\u, \\U, octal) are not modelled (skipped as unsupported)', 'negative exponents truncate toward zero as parser/y_test.go pins (1e-3 = 0)'],
    },
    'C05': {
        'lean_modules': ['Pangaea.Theorems.C05'],
        'theorem_modules': ['Pangaea.Theorems.C05'],
        'theorems': ['Pangaea.C05.findProp_eq_first_in_chain', 'Pangaea.C05.findOwner_eq_first_in_chain', 'Pangaea.C05.findProp_via_owner', 'Pangaea.C05.evalProp_spec',
                     'Pangaea.C05.bear_proto', 'Pangaea.C05.bro_proto', 'Pangaea.C05.bear_lookup', 'Pangaea.C05.ancestors_chain', 'Pangaea.C05.chain_bear', 'Pangaea.C05.keys_are_own_public'],
        'harness': ['C05'],
        'shards': 8,
        'spec_is_function': True,
        'rule': 'random prototype forests built by histories of 1-6 object literals / bear / bro (deep chains favoured), own properties drawn from a 6-name pool with forced shadowing, kinds value / function / method / '
                '_missing (callable and non-callable); 6 probes per forest among o.n(9), o.n, o[\'n], which, ancestors, kindOf?, keys, proto, for present / inherited / shadowed / absent / private / built-in names. '
                'non-trivial = forest has more than one object; distinct by program text; probes of built-in properties other than their owner are skipped as unsupported',
        'trusted_base': [KERNEL, AX, TIE, 'model Pangaea/Object/Proto.lean is a hand transcription of findprop.go / evalProp / evalCall / native Obj.pangaea (ancestors, bro, kindOf?, which) / Obj#keys'],
        'assumptions': ['objects are immutable (C06), so a forest is a set of trees', 'built-in prototypes Obj and BaseObj are modelled only as owners of the probed built-in name (looked up in the live registry by the harness)'],
    },
    'C09': {
        'lean_modules': ['Pangaea.Theorems.C09'],
        'theorem_modules': ['Pangaea.Theorems.C09'],
        'theorems': ['Pangaea.C09.buildMap_eq_spec', 'Pangaea.C09.iter_order', 'Pangaea.C09.get_eq_spec', 'Pangaea.C09.dedupFirst_first_wins',
                     'Pangaea.C09.dedupFirst_nodup', 'Pangaea.C09.obj_accessors_agree', 'Pangaea.C09.keys_hide_private'],
        'harness': ['C09'],
        'shards': 8,
        'spec_is_function': True,
        'rule': 'random object and map literals, nesting <= 2, up to 7 items, keys over all kinds (symbols, strs, private names, ints, integral floats, nil, bools, arrays, objects) from small pools to force duplicates, '
                '`**obj` / `**map` operands (nested), then every accessor (show, keys, values, items, iteration via A, len, keys/values/items with private?: true) and three index probes (present, equivalent, absent, '
                'property-naming keys); canonical rendering reads Keys/PrivateKeys/HashKeys/NonHashablePairs directly. non-trivial = literal has more than one pair; distinct by program text',
        'trusted_base': [KERNEL, AX, TIE, 'model Pangaea/Object/Dict.lean is a hand transcription of evalObj / evalMap / NewInheritedMap / findElemInMap / keyHashes', 'FNV-64a and Float64bits hashes are treated as injective on the keys that occur'],
        'assumptions': ['the key equivalence never relates a hashable to a non-hashable key (true of the built-in ==)', 'object keys are strs', 'property fallback of m[k] is taken from the live prototype chain by the harness'],
    },
    'C12': {
        'lean_modules': ['Pangaea.Theorems.C12', 'Pangaea.Theorems.C12Core'],
        'theorem_modules': ['Pangaea.Theorems.C12', 'Pangaea.Theorems.C12Core'],
        'theorems': ['Pangaea.C12.one_rule', 'Pangaea.C12.if_then_only', 'Pangaea.C12.if_else_only', 'Pangaea.C12.shortcut_decided',
                     'Pangaea.C12.shortcut_undecided', 'Pangaea.C12.shortcut_by_truthiness', 'Pangaea.C12.guard_spec',
                     # the same statements on the Core evaluator (the one compared with the implementation on generated programs)
                     'Pangaea.C12.if_true_core', 'Pangaea.C12.if_false_else_core', 'Pangaea.C12.if_false_none_core', 'Pangaea.C12.if_cond_raises_core',
                     'Pangaea.C12.or_decided_core', 'Pangaea.C12.and_decided_core', 'Pangaea.C12.or_undecided_core', 'Pangaea.C12.and_undecided_core',
                     'Pangaea.C12.guard_false_core', 'Pangaea.C12.guard_defer_core', 'Pangaea.C12.guard_return_core', 'Pangaea.C12.guard_raises_core', 'Pangaea.C12.not_core'],
        'harness': ['C12', 'C12core', 'C12sweep'],
        'shards': 8,
        'spec_is_function': True,
        'exhaustive': True,
        'rule': 'exhaustive over a pool of 131 condition values (every built-in type with zero and non-zero instances, prototype objects, objects with a user-defined B as value / method returning true, false, nil, non-bool, raising, '
                'and bear-descendants of all of them with empty and non-empty source) x 9 constructs (if-else, if, guarded return / raise / yield / defer, !, &&, ||) with printing condition, branches and right operand; '
                'observables: marker sequence (which operands ran, how often) and whether the result is the condition value itself. non-trivial: all; distinct by (value description, construct)',
        'trusted_base': [KERNEL, AX, TIE, 'model Pangaea/Props/Truthy.lean is a hand transcription of isTruthy / canShortCut / evalShortCutInfix / evalIf / Obj#!; the per-type B built-ins are modelled only in the driver (Drv/C12.lean) and checked by the correspondence'],
        'assumptions': ['sub-expressions are arbitrary state transformers in the theorems', 'WF: the two bool singletons answer B with themselves (checked by the correspondence for true / false)'],
    },
    'C18': {
        'lean_modules': ['Pangaea.Theorems.C18'],
        'theorem_modules': ['Pangaea.Theorems.C18'],
        'theorems': ['Pangaea.C18.eqV_refl', 'Pangaea.C18.eqV_symm', 'Pangaea.C18.eq_symm', 'Pangaea.C18.ne_is_not_eq', 'Pangaea.C18.cmp3_laws',
                     'Pangaea.C18.eqV_fam', 'Pangaea.C18.order_laws', 'Pangaea.C18.cmp3_trans', 'Pangaea.C18.cross_prototype_gap'],
        'harness': ['C18'],
        'spec_is_function': True,
        'exhaustive': True,
        'rule': 'a pool of 66 values (ints incl. two kinds of typed descendants and booleans, floats and strs with typed descendants, nil, nested arrays and objects; plus maps, ranges, functions, Either values, '
                'bear children, typed arrays, iterators for the direct laws) bound once in one scope; all ordered pairs x {==, !=, <=>, <, <=, >, >=}: core pairs compared with the Lean model, and direct law checks on '
                'the implementation: reflexivity, symmetry, != negation on all pairs; trichotomy, <=/>= unions, antisymmetry of <=>, max/min on all same-family pairs; transitivity, between?, clip on a third of the '
                'same-family triples. non-trivial = pair of distinct pool entries / every law instance; distinct by expression text',
        'trusted_base': [KERNEL, AX, TIE, 'model Pangaea/Props/Compare.lean is a hand transcription of the == / <=> built-ins of int, float, str, arr, baseobj, nil props and of Comparable.pangaea / BaseObj.pangaea'],
        'assumptions': ['floats restricted to exactly representable halves (no NaN)', 'objects bind every name once (C09)', 'maps, ranges, functions, Either and error values are covered by the direct law oracle only'],
    },
    'C13': {
        'lean_modules': ['Pangaea.Theorems.C13'],
        'theorem_modules': ['Pangaea.Theorems.C13'],
        'theorems': ['Pangaea.C13.try_commutes', 'Pangaea.C13.skip_after_failure', 'Pangaea.C13.no_failure', 'Pangaea.C13.accessors_val',
                     'Pangaea.C13.accessors_err', 'Pangaea.C13.abandon_is_plain'],
        'harness': ['C13'],
        'shards': 8,
        'spec_is_function': True,
        'rule': 'random chains of 0-5 steps over int receivers: operator calls (.+ .- .* .// .%), property calls (.-%), literal calls (identity, doubling, x.nonexistent, raise of each of 9 error kinds at any step), '
                'followed by one of 9 accessors (A, val, err, val?, err?, or, catch K, ignore K, abandon); each chain also evaluated unwrapped. Model comparison (value / error kind) for the wrapped accessor result and '
                'the plain chain; direct oracle: the wrapped chain holds exactly the plain chain\'s value, or its error kind AND message; 8 property-call shapes through the proxy. non-trivial = at least two steps; distinct by program text',
        'trusted_base': [KERNEL, AX, TIE, 'model Pangaea/Props/Either.lean is a hand transcription of Obj#try, EitherVal#fmap, EitherErr props and the native Either*/Wrappable sources; steps are arbitrary functions in the theorems'],
        'assumptions': ['steps are names that the Either object does not define itself (its own accessors and Obj built-ins such as S, A, keys, sum apply to the wrapper by design)',
                        'operator steps are written as method calls (.+(1)); an infix operator applied to an Either is not proxied (built-in operator dispatch does not consult _missing)'],
    },
    'C01': {
        'lean_modules': ['Pangaea.Theorems.C01'],
        'theorem_modules': ['Pangaea.Theorems.C01'],
        'generated': ['C01'],
        'theorems': ['Pangaea.C01.builtins_initialised', 'Pangaea.C01.bound_consts_initialised', 'Pangaea.C01.arity_guards', 'Pangaea.C01.unchecked_assertions_are_the_reviewed_ones',
                     'Pangaea.C01.valRange_never_panics', 'Pangaea.C01.strRange_never_panics', 'Pangaea.C01.arrIndex_never_panics'],
        'harness': ['C01', 'C01prog'],
        'shards': 14,
        'spec_is_function': True,
        'rule': 'registry sweep: every property found on the prototype chain of every member of a pool (76 hand-picked values of all built-in types incl. int64 extremes, empty and multi-byte strs, prototypes, bear/new descendants, '
                'iterators, Either values + every constant bound by NewEnvWithConsts) called with arity 0, with every moderate pool member as single argument (1/6 sampled quick), sampled pairs, keyword arguments; indexing, chains, variable '
                'calls and calls on every member; program generator (mostly valid, 88% parse) over all constructs with stdin reads, byte-level mutations of generated and of the repository\'s own programs (NUL, invalid UTF-8, '
                'truncation, unbalanced brackets), and the three entry points RunSource / StartREPL / RunTest. Oracle: recover() sees no Go panic. non-trivial = all calls / programs that parse; distinct by source',
        'trusted_base': [KERNEL, AX, 'translator /verif/extract (go/ast): built-in object table, arity guards (fails closed: an unguarded index is an obligation failure) and the inventory of single-value type assertions compared with the reviewed list in Pangaea/Object/Assertions.lean', 'recover() in the harness as the observer of panics; Go runtime fatals (stack overflow, OOM, concurrent map access) kill the harness process and are reported as a broken run'],
        'assumptions': ['PARTIAL: proof only for the generated tables and the indexing component; the rest of the interpreter is explored, not proved', 'programs that exhaust the evaluation fuel (hook) are discarded: the property excludes non-termination and unbounded memory',
                        'arguments are moderate values so that no built-in is asked for unbounded memory; third-party code (regexp2, dtoa, encoding/json, echo) is not modelled'],
    },
    'C06': {
        'lean_modules': ['Pangaea.Theorems.C06'],
        'theorem_modules': ['Pangaea.Theorems.C06'],
        'generated': ['C06'],
        'theorems': ['Pangaea.C06.step_frozen', 'Pangaea.C06.history_frozen', 'Pangaea.C06.plus_result', 'Pangaea.C06.write_sites_are_the_reviewed_ones'],
        'harness': ['C06', 'C06core'],
        'shards': 14,
        'spec_is_function': {'C06': False, 'C06core': True},
        'rule': 'runtime monitor on the implementation: the registry sweep of C01 run as ONE history in one scope whose pool members and the last 64 results stay referenced; before and after every call a deep fingerprint by Go pointer '
                'identity (array element pointers, object pair pointers and prototype, map key/value pointers, str/int/float payloads, range bounds) of everything reachable from the scope; any existing value whose fingerprint changes is a violation. '
                'Plus generated Core programs that keep values alive across later operations (pairs handed to one-parameter reduce callbacks, unpacked arrays and objects, captured arguments) compared with the Lean reference evaluator, whose values are immutable by construction. '
                'non-trivial = every call; distinct by source',
        'trusted_base': [KERNEL, AX, 'translator /verif/extract (go/ast): inventory of in-place write sites compared with the reviewed list in Pangaea/Object/WriteSites.lean', 'the fingerprint function of the harness'],
        'assumptions': ['the Lean model covers array values over Go slices (append semantics, any growth policy); objects and maps are covered by the write-site inventory and the runtime monitor', 'iterators (next / recur) and variables are the mutable things, by definition of the property'],
    },
    'C19': {
        'lean_modules': ['Pangaea.Theorems.C19'],
        'theorem_modules': ['Pangaea.Theorems.C19'],
        'theorems': ['Pangaea.C19.run_repaired', 'Pangaea.C19.runNext_repaired_state', 'Pangaea.C19.fresh_independent'],
        'harness': ['C19'],
        'shards': 14,
        'spec_is_function': True,
        'rule': 'histories of 0-6 generated programs (1-6 lines; a third of them failing with one of 37 failing shapes incl. `_`, abstract Either props, every error kind, failures inside calls/chains/literals; definitions of names, '
                'blank lines shifting positions) followed by a probe (a third of the time the text of a history program, otherwise fresh, often reading a name a history program defined) in three styles: playground executor '
                '(one interpreter, NewEnclosedEnv per program), `pangaea test` (runscript.RunTest over a directory of files; history files succeed), and action-programs for the Lean model. Oracle: (kind, value, error message, stack trace, '
                'stdout, stderr, exit code) of the probe after the history equals that of the probe in a NEWLY STARTED PROCESS (the harness re-executes itself). non-trivial = history not empty; distinct by text',
        'trusted_base': [KERNEL, AX, TIE, 'model Pangaea/Eval/Fresh.lean: the process state that outlives an evaluation is the shared `_` error object, the scope handed to the next program and the constant scope (inventory by reading; '
                         'other package-level variables of the repository are immutable tables)'],
        'assumptions': ['REPL lines share one scope by design and are not fresh evaluations', 'server request handlers (props/modules http) are not exercised: they evaluate user closures in the defining scope',
                        'history programs cannot assign to built-in objects (the language has no property assignment); in-place writes by built-ins are the subject of C06'],
    },
    'C03': {
        'lean_modules': ['Pangaea.Theorems.C03', 'Pangaea.Theorems.C03Scope', 'Pangaea.Theorems.CoreMeta'],
        'theorem_modules': ['Pangaea.Theorems.C03', 'Pangaea.Theorems.C03Scope', 'Pangaea.Theorems.CoreMeta'],
        'theorems': ['Pangaea.C03.positional', 'Pangaea.C03.arg_var', 'Pangaea.C03.arg_all', 'Pangaea.C03.arg_first', 'Pangaea.C03.keyword_param',
                     'Pangaea.C03.kwarg_var', 'Pangaea.C03.kwarg_all', 'Pangaea.C03.allPres', 'Pangaea.C03.call_changes_no_existing_scope',
                     'Pangaea.C03.eval_writes_only_current_scope', 'Pangaea.C03.program_writes_only_its_scope', 'Pangaea.C03.call_scope_encloses_definition',
                     'Pangaea.C03.method_call_passes_receiver', 'Pangaea.C03.anonymous_chain_receiver', 'Pangaea.C03.anonymous_chain_without_argument', 'Pangaea.C03.assign_writes_current_scope',
                     'Pangaea.C03.lookup_falls_through', 'Pangaea.C03.lookup_innermost_wins', 'Pangaea.CoreMeta.evalE_fuel_mono', 'Pangaea.CoreMeta.program_fuel_mono', 'Pangaea.CoreMeta.call_fuel_mono'],
        'harness': ['C03'],
        'shards': 14,
        'spec_is_function': True,
        'rule': 'generated Core programs biased to function definitions and calls: nested function literals (parameters shadowing outer names on purpose), closures called after the defining scope reassigned a captured name, recursion, '
                'keyword parameters with defaults evaluated at the literal, argument lists with fewer/more arguments, keyword arguments between positionals, duplicates, * and ** unpacking, argument variables, methods (self, receiver-less chain), '
                'immediate and literal calls; every sub-expression may trace through t := {|v| v.p; v}. Oracle: stdout + final value (or error kind) equal the Lean reference evaluator\'s. non-trivial = all; distinct by source',
        'trusted_base': [KERNEL, AX, TIE, 'Core reference evaluator lean/Pangaea/Core/Eval.lean: a hand transcription of evaluator/eval_*.go, iternew.go, iternext.go and the chain middlewares for the Core language (ints, strs, arrs, objs, ranges, function / method / iterator literals, calls with kwargs and */** unpacking, argument variables, chains, if, embedded strs, return/raise/yield/defer); programs reach it through the REAL parser (harness/core_sexp.go serialises ast.Node)', 'built-in properties modelled: p S repr == != B ! + - * // % < <= > >= -% len at call new next (others make a case unsupported, counted in evidence)'],
        'assumptions': ['theorems are about the reference evaluator; the implementation is tied to it on the generated programs only', 'names in the naming hypotheses (Names) are plain identifiers; pattern parameters are not modelled'],
    },
    'C07': {
        'lean_modules': ['Pangaea.Theorems.C07', 'Pangaea.Theorems.C07Any', 'Pangaea.Theorems.C07Inventory'],
        'theorem_modules': ['Pangaea.Theorems.C07', 'Pangaea.Theorems.C07Any', 'Pangaea.Theorems.C07Inventory'],
        'theorems': ['Pangaea.C07.' + t for t in ['infix_left', 'infix_right', 'shortcut_right', 'prefix_operand', 'assigned', 'if_condition', 'if_then', 'if_else', 'range_start', 'range_stop', 'range_step',
                     'elems_head', 'elems_head_unpacked', 'elems_tail', 'arr_literal', 'args_head', 'args_head_unpacked_arr', 'args_head_unpacked_obj', 'args_tail', 'kws_head', 'kws_tail',
                     'call_receiver', 'call_chain_argument', 'call_arguments', 'call_keyword_arguments', 'litcall_receiver', 'litcall_callee', 'pair_value_named', 'pair_value_computed', 'pair_key_computed',
                     'pairs_tail_named', 'obj_pairs', 'obj_unpacked_head', 'obj_unpacked', 'embedded_part_head', 'embedded_str', 'default_value', 'stmt_expr', 'stmt_return', 'stmt_condition',
                     'stmts_head', 'stmts_tail', 'body', 'call_body', 'stmts_head_defers', 'thoughtful_catches', 'nested_example', 'unchecked_results_are_the_reviewed_ones',
                     'arr_any_position', 'arr_any_position_unpacked', 'infix_left_any', 'infix_right_any', 'assigned_any', 'raises_unique', 'raises_excludes_value', 'stmts_any_position', 'program_any_position', 'args_any_position', 'call_any_argument_position']],
        'harness': ['C07'],
        'generated': ['C07'],
        'shards': 14,
        'spec_is_function': True,
        'rule': 'fault injection: for each generated Core program, the program itself and one variant per expression position (up to 12 per program quick / 40 thorough; position classes: operand, element, unpacked, argument, keyword-argument, '
                'pair-key/value, range-bound, chain-argument, receiver, index, condition, branch, embedded-part, default, assigned, returned, result, shortcut-right) in which that sub-expression is replaced by a raise '
                '(a call of boom(k) that prints a marker and raises, ValueErr.new, an undefined name, 1 // 0, a missing property). Oracles: (1) model-free fail-stop oracle against the uninjected run: either the position is never reached and '
                'the run is unchanged, or the run ends with exactly the injected kind and message, nothing is printed after the marker and the output before it is a prefix of the uninjected output (programs with defer / ~ chains: model only); '
                '(2) stdout + value / error kind equal the Lean reference evaluator\'s. non-trivial = all; distinct by source',
        'trusted_base': [KERNEL, AX, TIE, 'Core reference evaluator lean/Pangaea/Core/Eval.lean: a hand transcription of evaluator/eval_*.go, iternew.go, iternext.go and the chain middlewares for the Core language (ints, strs, arrs, objs, ranges, function / method / iterator literals, calls with kwargs and */** unpacking, argument variables, chains, if, embedded strs, return/raise/yield/defer); programs reach it through the REAL parser (harness/core_sexp.go serialises ast.Node)', 'built-in properties modelled: p S repr == != B ! + - * // % < <= > >= -% len at call new next (others make a case unsupported, counted in evidence)'],
        'assumptions': ['errors raised inside conversion hooks (B, S, ==) on user objects are outside the property and not generated', 'try / Either handlers are covered by C13; here the handlers are ~ chains and pending defers'],
    },
    'C08': {
        'lean_modules': ['Pangaea.Theorems.C08', 'Pangaea.Theorems.C08Out', 'Pangaea.Theorems.C08Order'],
        'theorem_modules': ['Pangaea.Theorems.C08', 'Pangaea.Theorems.C08Out', 'Pangaea.Theorems.C08Order'],
        'theorems': ['Pangaea.C08.kwparams_any_order', 'Pangaea.C08.kwvars_any_order', 'Pangaea.C08.sortNames_eq_of_perm', 'Pangaea.C08.sortPairs_perm', 'Pangaea.C08.lookup_perm',
                     'Pangaea.C08.addFirst_keeps', 'Pangaea.C08.addAllFirst_keeps', 'Pangaea.Core.allStable', 'Pangaea.C08.output_only_grows',
                     'Pangaea.C08.program_output_only_grows', 'Pangaea.C08.call_output_only_grows', 'Pangaea.C08.stdin_only_consumed',
                     'Pangaea.C08.elems_left_to_right', 'Pangaea.C08.seq_of_gives', 'Pangaea.C08.gives_of_seq', 'Pangaea.C08.call_order',
                     'Pangaea.C08.infix_order', 'Pangaea.C08.range_order', 'Pangaea.C08.kwargs_in_order_written', 'Pangaea.C08.duplicate_keyword_first_wins', 'Pangaea.C08.embedded_parts_in_source_order', 'Pangaea.C08.pairs_in_source_order', 'Pangaea.C08.args_in_order_written'],
        'harness': ['C08'],
        'shards': 14,
        'spec_is_function': True,
        'rule': 'generated Core programs whose sub-expressions print when evaluated (receiver, chain argument, positional / keyword / unpacked arguments incl. duplicates, array elements, operands, range bounds, object pairs, embedded string parts, '
                'defaults); each evaluated three times in this process (new interpreter, new Go map seeds) and every fourth also in a newly started process. Oracles: all runs give identical stdout / value / error; stdout + value equal the '
                'Lean reference evaluator\'s (which fixes the order: the one written). non-trivial = all; distinct by source',
        'trusted_base': [KERNEL, AX, TIE, 'Core reference evaluator lean/Pangaea/Core/Eval.lean: a hand transcription of evaluator/eval_*.go, iternew.go, iternext.go and the chain middlewares for the Core language (ints, strs, arrs, objs, ranges, function / method / iterator literals, calls with kwargs and */** unpacking, argument variables, chains, if, embedded strs, return/raise/yield/defer); programs reach it through the REAL parser (harness/core_sexp.go serialises ast.Node)', 'built-in properties modelled: p S repr == != B ! + - * // % < <= > >= -% len at call new next (others make a case unsupported, counted in evidence)'],
        'assumptions': ['KNOWN FINDING: arguments of a variable call recv.^f(args) are parsed but never evaluated', 'goroutine timing at start-up (native sources) is exercised only by the new-process runs'],
    },
    'C14': {
        'lean_modules': ['Pangaea.Theorems.C14', 'Pangaea.Theorems.C14Store', 'Pangaea.Theorems.C14Core'],
        'theorem_modules': ['Pangaea.Theorems.C14', 'Pangaea.Theorems.C14Store', 'Pangaea.Theorems.C14Core'],
        'theorems': ['Pangaea.C14.' + t for t in ['new_is_fresh', 'chain_source_is_copy', 'recur_swaps_only_self', 'recur_other_untouched', 'next_runs_body', 'guarded_yield_stops', 'guarded_yield_yields',
                     'first_yield_wins', 'yield_is_result', 'result_is_yielded', 'chain_stops_at_stopiter', 'chain_passes_other_errors', 'chain_visits_next',
                     'iterators_keep_identity_and_code', 'next_keeps_identity_and_code',
                     # a chain over any source = successive next steps up to the first exhaustion (sequential specification)
                     'next_of_iter_value', 'next_of_iter_stop', 'next_of_iter_error', 'list_chain_src', 'srcListRun_of_loop', 'reduce_chain_src', 'srcReduceRun_of_loop', 'list_chain_over_iterator', 'copy_keeps_original']],
        'harness': ['C14'],
        'shards': 14,
        'spec_is_function': True,
        'rule': 'generated histories over iterators derived from one literal (4 body shapes: guarded yield then recur; traced yield; recur before the guarded yield; local variable + keyword recur): interleaved new (from the literal and from '
                'iterators), next, list chains, reduce chains, chains over fresh iterators, inside and outside functions, mixed with ordinary statements; every step prints. Oracle: stdout + value / error kind equal the Lean reference '
                'evaluator\'s. non-trivial = all; distinct by source',
        'trusted_base': [KERNEL, AX, TIE, 'Core reference evaluator lean/Pangaea/Core/Eval.lean: a hand transcription of evaluator/eval_*.go, iternew.go, iternext.go and the chain middlewares for the Core language (ints, strs, arrs, objs, ranges, function / method / iterator literals, calls with kwargs and */** unpacking, argument variables, chains, if, embedded strs, return/raise/yield/defer); programs reach it through the REAL parser (harness/core_sexp.go serialises ast.Node)', 'built-in properties modelled: p S repr == != B ! + - * // % < <= > >= -% len at call new next (others make a case unsupported, counted in evidence)'],
        'assumptions': ['built-in iterators (arrays, ranges, strs) are visited as value lists; only iterator literals carry state'],
    },
}
