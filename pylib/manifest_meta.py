HOOK_COMMITS = ['a5e1d44']
NOT_APPLICABLE = {}
PROOF_NOTE = ('Trusted: Lean kernel; axioms limited to propext/Classical.choice/Quot.sound (audited each run); the hand-written model is tied to the Go code by '
              'differential correspondence on the explored cases (not a proof about the Go source); ')
META = {
    'C11': {
        'text': 'Theorems over all lengths, all int64/omitted bounds and all steps: the index walk of valRange (with Go wrap-around arithmetic) is exactly the '
                'arithmetic progression before stop, every index addresses an element, zero step is ValueErr, no Go panic; model tied to evaluator/index.go by an '
                'exhaustive small-domain + boundary differential run through the built-ins and parsed source.',
        'note': PROOF_NOTE + 'sequence length < 2^62; strings observed by code point.',
        'technique': 'Lean 4 proof (induction on the loop, omega) over a transcription of index.go + bounded-exhaustive correspondence',
    },
}
