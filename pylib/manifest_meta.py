HOOK_COMMITS = ['a5e1d44', '40b55f7', '1011c63']
NOT_APPLICABLE = {}
PROOF_NOTE = ('Trusted: Lean kernel; axioms limited to propext/Classical.choice/Quot.sound (audited each run); the hand-written model is tied to the Go code by '
              'differential correspondence on the explored cases (not a proof about the Go source); ')
META = {
    'C11': {
        'text': 'Theorems over all lengths, all int64/omitted bounds and all steps: the index walk of valRange (with Go wrap-around arithmetic) is exactly the '
                'arithmetic progression before stop, every index addresses an element, zero step is ValueErr, no Go panic; model tied to evaluator/index.go by an '
                'exhaustive small-domain + boundary differential run through the built-ins and parsed source.',
        'note': PROOF_NOTE + 'sequence length < 2^62; strings observed by code point.',
        'technique': 'Lean 4 proof (induction on the loop, omega) over a transcription of index.go + bounded-exhaustive correspondence',
    },
    'C10': {
        'text': 'Theorems for all int64 pairs: + - * unary- are exact when the result fits; // equals Int.fdiv and satisfies the division-free floor characterisation whenever the quotient fits; '
                '% is a remainder with |r|<|b| and b | a-r; zero divisors raise ZeroDivisionErr; <=> matches the order; ** is exact whenever a^b fits. Model tied to props/int_props.go by '
                'exhaustive small-square + boundary-lattice + random differential runs (direct built-in calls and parsed source).',
        'note': PROOF_NOTE + 'float64 arithmetic is a parameter (true division is only compared bit-for-bit in the correspondence); math/big is trusted.',
        'technique': 'Lean 4 proof (omega, Int.tdiv/fdiv lemmas) over a transcription of int_props.go + exhaustive/boundary correspondence against exact Int',
    },
    'C15': {
        'text': 'Theorems for every state type, statement semantics, deferred-expression semantics and body: the Go statement loop equals a declarative reference (exit at the first '
                'return/raise/error; defers handed over = those of the statements completed before the exit, in reach order; fall-through value = first yield else last value); evalDefer runs '
                'them front to back once each and stops after the first that raises; the outcome is the body\'s unless a deferred expression raises. Tied to eval_program.go by an exhaustive '
                'exit-point x defer-layout sweep of real programs (stdout markers + result).',
        'note': PROOF_NOTE + 'the statement evaluator is abstract (any state transformer); nesting is exercised through the concrete instance only.',
        'technique': 'Lean 4 proof (induction over the statement list, refinement to a declarative reference) + exhaustive exit-point x defer-layout correspondence',
    },
    'C20': {
        'text': 'Theorem for any number of threads, any sequence of calls per thread and every interleaving of the RWMutex transition system: no state is reachable in which two threads are '
                'about to touch the same table with one writing, provided each function body is balanced; the bodies are regenerated from object/*.go on every run and checked by decide. '
                'Complemented by a -race build running concurrent evaluations that intern and read symbols.',
        'note': 'Trusted: Lean kernel, standard axioms, the go/ast translator (fail-closed), sync.RWMutex semantics as modelled; only symHashTable/strTable are covered; implementation schedules are sampled.',
        'technique': 'Lean 4 proof (invariant over all interleavings of an RWMutex LTS) over lock sequences regenerated from source + race-detector soak',
    },
    'C04': {
        'text': 'Theorems for every callee, element list, iterator ending, digest and argument list: each list/scalar/reduce context of both middleware stacks equals its documented per-element rule '
                '(map + first-error stop + nil dropping/keeping/substitution + digest; left fold from the chain argument, accumulator kept by ~$); a property call equals the equivalent literal call in every context '
                'except the lonely reduce chain (shown to differ); variable calls run the literal stack. Tied to the two chain files by an exhaustive context x form x callee-table sweep of real programs.',
        'note': PROOF_NOTE + 'callee/iterator/digest are parameters; non-array receivers are covered by an implementation-side agreement oracle.',
        'technique': 'Lean 4 proof (induction over the element list, both middleware stacks vs map/filter/fold specs) + exhaustive context x form x callee-table correspondence',
    },
    'C02': {
        'text': 'Unbounded theorems for any precedence function: yacc\'s shift-reduce resolution builds the unique canonical tree (higher levels first, equal levels left-to-right) whose token string is the input, '
                'and every canonical (= implied-parentheses) tree re-parses to itself. Finite obligations re-checked against regenerated facts: the %left/%right ladder equals the documented one, %prec annotations, '
                '23 infix rules, and a translation validation of goyacc\'s resolved LALR action table (1054 state/rule/lookahead triples) against the precedence rule. Tied to the real parser by an exhaustive '
                'operator pair/triple/construct sweep comparing ast String() with a Lean precedence parser.',
        'note': 'Trusted: Lean kernel, standard axioms, the extractor and goyacc\'s y.output; LALR-vs-precedence-parser equivalence on all strings is not proved (finite validation + exhaustive small combinations).',
        'technique': 'Lean 4 proof (shift-reduce = canonical tree, arbitrary precedence) + decide over regenerated grammar facts and goyacc tables + exhaustive parser correspondence',
    },
    'C16': {
        'text': 'Theorems: the lexer buffer (io.ReadAll) is the same byte string for every chunking of the input; a run of any number of blank/comment lines is exactly one RET (or MULTILINE_*_CHAIN) token leaving exactly '
                'the continuation; comments, double-quoted strings, raw strings and identifiers of any length are one token. The regexes the matchers transcribe are regenerated from the lexer on every run. '
                'Tied to the real lexer/parser by regex-vs-matcher runs, token-length sweeps around 1/2/3/8 KiB and padded / chunked variants of real programs.',
        'note': PROOF_NOTE + 'Go regexp semantics and the rest of the token table are not modelled.',
        'technique': 'Lean 4 proof (suffix-returning matchers, induction over runs/lengths/chunkings) + regenerated regex facts + size/chunk sweeps on the real parser',
    },
    'C17': {
        'text': 'Theorems: an accepted integer literal has exactly the positional value of its digits (separators ignored) and fits 64 bits, an overflowing one is rejected; exponent-form integers are mantissa*10^exp exactly or rejected; '
                'unquote(quote s) = s for every string and every undefined escape is rejected; a word of the identifier pattern is one IDENT token of any length and only the six exact keywords are reserved; generated obligation: '
                'no keyword/letter pattern precedes IDENT in the regenerated token table. Tied to the parser by literal/name sweeps; floats against the correctly rounded conversion.',
        'note': PROOF_NOTE + 'strconv and math/big are modelled by their documented behaviour; float rounding and numeric escapes are outside the model. Known finding: underscore+digit names.',
        'technique': 'Lean 4 proof (positional value, quote/unquote round trip, identifier matcher) + regenerated token-table facts + literal/name correspondence sweeps',
    },
    'C05': {
        'text': 'Theorems for every prototype forest (any depth, any property payload): lookup returns the binding of the first owner in the order o, proto o, ..., BaseObj; which reports that owner; _missing is consulted only when no ancestor '
                'has the name, in the same order, else NoPropErr; bear/bro/proto/ancestors relate to the chain as documented; keys are exactly the own public names. Tied to the implementation by random forests x probes.',
        'note': PROOF_NOTE + 'callable/non-callable dispatch and built-in owners are covered by the correspondence only.',
        'technique': 'Lean 4 proof (structural induction on the prototype chain) + random forest/probe correspondence',
    },
    'C09': {
        'text': 'Theorems for every pair list and every key equivalence that respects hashability: the Go two-part map structure equals one first-wins ordered dictionary split into scalar keys then other keys (iteration order), '
                'm[k] is the value of the first equivalent key, earlier pairs are never displaced (also across ** operands), no two stored keys are equivalent; object accessors are all derived from one key list and hide private names. '
                'Tied to the implementation by random nested literals x all accessors.',
        'note': PROOF_NOTE + 'hash injectivity assumed; printing order is not modelled (the canonical form reads the internal key order).',
        'technique': 'Lean 4 proof (fold invariants relating the hash-map/slice structure to a first-wins ordered dictionary) + random literal/accessor correspondence',
    },
    'C12': {
        'text': 'Theorems for every value and arbitrary operand semantics: isTruthy, the && / || short-cut test and ! all reduce to "B yields true"; exactly one branch of an if runs (the result does not depend on the other); '
                'a deciding left operand is returned itself and the right operand does not run, otherwise the right operand runs once in the left operand\'s final state; guards jump exactly on truthy. '
                'Tied to the implementation by the exhaustive value-pool x construct sweep with printing operands.',
        'note': PROOF_NOTE + 'the per-type B built-ins live in the driver, not in the theorems.',
        'technique': 'Lean 4 proof (case analysis; parametricity in the unevaluated operand) + exhaustive value-pool x construct correspondence',
    },
    'C18': {
        'text': 'Theorems on the model of the per-type == and <=> built-ins (nested arrays/objects as rose trees): == is reflexive and symmetric (objects: by a pigeonhole argument over distinct names), != is its negation; '
                'inside a family (ints with booleans of one prototype, floats, strs) exactly one of <, ==, > holds, <=/>= are the unions, <=> is antisymmetric and the order is transitive; the cross-prototype int gap is a theorem '
                '(known finding). Tied to the implementation by an exhaustive pool x pool x operator table, plus direct law checks on a wider pool.',
        'note': PROOF_NOTE + 'maps, ranges, functions, Either/error values only in the direct law oracle; known finding: cross-prototype ints.',
        'technique': 'Lean 4 proof (mutual structural recursion over rose trees, pigeonhole on names, String/Int order lemmas) + exhaustive pair table correspondence + direct law oracle',
    },
    'C13': {
        'text': 'Theorems for every start value and every list of steps (arbitrary functions): the wrapped chain holds exactly the outcome of the unwrapped chain (value iff all steps succeed, else the first error), later steps are not '
                'called after a failure, the nine accessors report that single outcome, abandon re-raises the same error. Tied to the implementation by random chains x accessors with a failure of each kind at each position, and by a '
                'direct oracle comparing kind and message with the plain chain. Two proxy shapes are known findings (theorem is partial there: property found and callable).',
        'note': PROOF_NOTE + 'the property-call proxy (native Wrappable._missing) is covered by the correspondence; known findings: non-callable and absent properties through try.',
        'technique': 'Lean 4 proof (fold/fmap commutation, induction over the step list) + random chain/accessor correspondence + same-run plain-vs-wrapped oracle',
    },
    'C03': {
        'text': 'Theorems over the Core reference evaluator, for all parameter lists, argument lists and keyword arguments (plain identifiers): the i-th parameter holds the i-th argument or nil, surplus arguments bind nothing; \\N, \\0, \\ are exactly '
                'the arguments received; a keyword parameter takes the passed value else its default; \\name and \\_ are the keyword arguments received. Scoping: a footprint theorem proved by simultaneous induction over all 29 functions of the reference evaluator - evaluating in scope env changes no other existing scope, and a call changes NO existing scope at all (its body runs in a scope created for the call, enclosed in the scope where the literal was written; iterators\' own scopes are the stated exception). Receiver passing and receiver-less chains are decided by the generated-program differential.',
        'note': PROOF_NOTE + 'the model is the Core reference evaluator (a transcription of the evaluator for a sub-language); programs reach it through the real parser; built-ins outside the modelled set make a case unsupported. ',
        'technique': 'Lean 4 proof (lookup lemmas over the layered bindings, injectivity of argument-variable names) + generated-program differential against a Lean reference evaluator fed by the real parser',
    },
    'C07': {
        'text': 'Theorems over the Core reference evaluator, one per syntactic position of the property (operands, short-cut right operand, prefix operand, assigned value, condition, branches, range bounds, elements and unpacked elements, '
                'arguments, unpacked arguments, keyword arguments, receiver, chain argument, callee, pair keys and values, ** parts, embedded-string parts, default values, statements, returned values, body of a called function): if the '
                'sub-evaluation raises (kind, message) reaching state s\' then the enclosing construct raises the same (kind, message) and ends in exactly s\' - nothing later is evaluated. The statements chain through any nesting depth '
                '(nested_example); pending defers run first; a ~ chain is the handler. Tied to the implementation by injecting a raise at every expression position of generated programs, with a model-free fail-stop oracle and the reference evaluator, and by an inventory regenerated from evaluator/*.go: the evaluation results never tested for an error are exactly the reviewed ones.',
        'note': PROOF_NOTE + 'the model is the Core reference evaluator (a transcription of the evaluator for a sub-language); programs reach it through the real parser; built-ins outside the modelled set make a case unsupported. ',
        'technique': 'Lean 4 proof (per-position strictness lemmas composing through nesting) + fault injection at every expression position with a model-free oracle and a reference-evaluator differential',
    },
    'C08': {
        'text': 'The reference evaluator fixes the order (receiver, chain argument, positional then keyword arguments, elements, operands, bounds, pairs, string parts: as written, each once) and is a function of program and stdin. Theorems: binding '
                'keyword parameters / keyword variables over ANY permutation of the pairs (the order a Go map range picks) yields the same scope; sorted printing makes the rendering of an object independent of the order of its pairs; duplicates '
                'resolve to the first occurrence. Tied to the implementation by side-effecting generated programs compared with the reference evaluator, repeated in-process runs and runs in new processes. Two defects repaired (fix: 2d34d54, b380194), one known finding.',
        'note': PROOF_NOTE + 'the model is the Core reference evaluator (a transcription of the evaluator for a sub-language); programs reach it through the real parser; built-ins outside the modelled set make a case unsupported. ',
        'technique': 'Lean 4 proof (permutation invariance of map-range loops and of sorted printing, first-wins lemmas) + side-effect-order differential against the reference evaluator + repeated runs / new processes',
    },
    'C14': {
        'text': 'Theorems over the Core reference evaluator for all states and arguments: new returns a fresh identity and leaves every existing iterator and scope unchanged, its scope holds the bound arguments and is enclosed in the literal\'s '
                'defining scope; a chain iterates a copy (fresh identity, copied scope) so the iterator it is applied to is not advanced; recur re-points only its own iterator; next evaluates the body once in the iterator\'s scope; a guarded yield '
                'with a false condition raises StopIterErr; the first yield is the result and the rest of the body still runs; a chain stops at the first StopIterErr and passes other errors on. Tied to the implementation by generated interleaved histories.',
        'note': PROOF_NOTE + 'the model is the Core reference evaluator (a transcription of the evaluator for a sub-language); programs reach it through the real parser; built-ins outside the modelled set make a case unsupported. ',
        'technique': 'Lean 4 proof (protocol facts of new / next / recur / chain copy over an explicit iterator store) + generated interleaved-history differential against the reference evaluator',
    },
    'C19': {
        'text': 'Theorem over a model of what outlives an evaluation (the shared `_` error object with its stack trace, the scope handed to the next program, the constant scope): with the two repaired mechanisms (copy-on-evaluate of the shared '
                'error, own scope per program) every program leaves the process state unchanged, hence for every history and every later program the observations (output, values read, error report lines) equal those of a new interpreter; '
                'kernel-evaluated witnesses show each mechanism is necessary. Tied to the implementation by generated histories in executor style and `pangaea test` style compared with a newly started process, and by action-programs '
                'compared with the model. Two defects found and repaired (fix: f772eb4, f87e1d1).',
        'note': PROOF_NOTE + 'the list of process-wide state in the model comes from reading the package-level variables; the differential against a new process is what would expose state the model omits.',
        'technique': 'Lean 4 proof (state-preservation invariant by induction over actions and histories) + differential of in-process histories against a newly started process',
    },
    'C01': {
        'text': 'PARTIAL. Proved: obligations over regenerated facts (every built-in prototype shell is initialised; every built-in closure indexes args only below its length guards, 140 closures; the single-value type assertions of the interpreter are exactly the 21 reviewed ones, each with its guard or invariant) and the no-panic theorems of the indexing '
                'component for all inputs. Explored, not proved: the whole interpreter through a registry sweep (~350k calls: every property of every pool member and constant with arity 0-2, extreme arguments, keyword arguments, boundary slices, type-directed consumers of every result), a program generator with a malformed stream, stdin, and the three entry points, '
                'with recover() as oracle.',
        'note': 'Trusted: Lean kernel, standard axioms, the go/ast extractor, recover() as panic observer. Go runtime fatals and third-party libraries are outside the model; fuel-exhausting programs are discarded.',
        'technique': 'Lean 4 proof over regenerated built-in/arity tables + component no-panic theorems; exhaustive registry sweep and generated/malformed programs for the rest (partial)',
    },
    'C06': {
        'text': 'Theorems for every growth policy and every history of array-producing operations built the repaired way (results assembled in a fresh slice): the contents of every published array value never change; the pre-repair '
                'Arr#+ is the kernel-checked counter-example. Generated obligation: the in-place write sites of object/, props/, evaluator/, di/ are exactly the 18 reviewed ones. Runtime monitor on the implementation: pointer-identity '
                'fingerprints of all reachable values before/after each of ~130k built-in calls in one history.',
        'note': 'Trusted: Lean kernel, standard axioms, the extractor and the reviewed site list, the harness fingerprint. Objects/maps are not in the Lean model (inventory + monitor only).',
        'technique': 'Lean 4 proof (Go slice/append heap model, invariant over operation histories) + regenerated write-site inventory + runtime immutability monitor',
    },
}
