import sys, os, json, subprocess, time, re, fcntl, shutil, hashlib, argparse, tempfile

ROOT = os.path.abspath(os.path.join(os.path.dirname(os.path.abspath(__file__)), '..'))
LEAN = os.path.join(ROOT, 'lean')
BUILD = os.path.join(ROOT, '.build')
REPO = os.environ.get('VERIF_REPO', '/repo')
GOENV = dict(os.environ, GOFLAGS='-mod=mod', GOPROXY='off', GOSUMDB='off', GOTOOLCHAIN='local',
             CGO_ENABLED=os.environ.get('CGO_ENABLED', '1'))
ALLOWED_AXIOMS = {'propext', 'Classical.choice', 'Quot.sound'}
FORBIDDEN = re.compile(r'\bsorry\b|\badmit\b|^axiom |native_decide|bv_decide|implemented_by|\bunsafe |maxHeartbeats 0')

from checks import CHECKS  # property table


def sh(cmd, cwd=None, env=None, inp=None, timeout=None):
    p = subprocess.run(cmd, cwd=cwd, env=env, input=inp, capture_output=True, text=True, timeout=timeout)
    return p.returncode, p.stdout, p.stderr


class Lock:
    def __init__(self, name):
        os.makedirs(BUILD, exist_ok=True)
        self.path = os.path.join(BUILD, name + '.lock')
    def __enter__(self):
        self.f = open(self.path, 'w')
        fcntl.flock(self.f, fcntl.LOCK_EX)
    def __exit__(self, *a):
        fcntl.flock(self.f, fcntl.LOCK_UN)
        self.f.close()


# ---------------------------------------------------------------- builds

def build_tools(race=False):
    """extractor + harness, rebuilt from /repo's working tree on every run"""
    os.makedirs(BUILD, exist_ok=True)
    with Lock('go'):
        shutil.copy(os.path.join(REPO, 'go.sum'), os.path.join(ROOT, 'harness', 'go.sum'))
        rc, out, err = sh(['go', 'build', '-tags', 'verif', '-o', os.path.join(BUILD, 'harness'), '.'],
                          cwd=os.path.join(ROOT, 'harness'), env=GOENV)
        if rc != 0:
            return False, 'harness build failed:\n' + out + err
        if race:
            rc, out, err = sh(['go', 'build', '-race', '-tags', 'verif', '-o', os.path.join(BUILD, 'harness-race'), '.'],
                              cwd=os.path.join(ROOT, 'harness'), env=GOENV)
            if rc != 0:
                return False, 'harness -race build failed:\n' + out + err
        if os.path.isdir(os.path.join(ROOT, 'extract')):
            rc, out, err = sh(['go', 'build', '-o', os.path.join(BUILD, 'extract'), '.'],
                              cwd=os.path.join(ROOT, 'extract'), env=GOENV)
            if rc != 0:
                return False, 'extractor build failed:\n' + out + err
    return True, ''


def run_extract(prop):
    """regenerate Pangaea/Generated/<prop>*.lean from /repo's sources"""
    ex = os.path.join(BUILD, 'extract')
    gens = CHECKS[prop].get('generated', [])
    hgens = CHECKS[prop].get('generated_by_harness', [])
    if not gens and not hgens:
        return True, ''
    os.makedirs(os.path.join(LEAN, 'Pangaea', 'Generated'), exist_ok=True)
    msgs = []
    for g in gens:
        target = os.path.join(LEAN, 'Pangaea', 'Generated', g + '.lean')
        tmp = target + '.tmp.%d' % os.getpid()
        rc, out, err = sh([ex, '-repo', REPO, '-out', tmp, g], env=GOENV)
        if rc != 0:
            if os.path.exists(tmp):
                os.remove(tmp)
            return False, 'extractor failed for %s:\n%s%s' % (g, out, err)
        with Lock('lake'):
            old = open(target).read() if os.path.exists(target) else None
            new = open(tmp).read()
            if old != new:
                os.replace(tmp, target)
            else:
                os.remove(tmp)
        msgs.append(err)
    # facts dumped by the harness (it links /repo's packages): `harness -out F GEN_<name>`
    for g in hgens:
        target = os.path.join(LEAN, 'Pangaea', 'Generated', g + '.lean')
        tmp = target + '.tmp.%d' % os.getpid()
        rc, out, err = sh([os.path.join(BUILD, 'harness'), '-out', tmp, 'GEN_' + g], env=GOENV)
        if rc != 0 or not os.path.exists(tmp):
            return False, 'harness generator failed for %s:\n%s%s' % (g, out, err)
        with Lock('lake'):
            old = open(target).read() if os.path.exists(target) else None
            new = open(tmp).read()
            if old != new:
                os.replace(tmp, target)
            else:
                os.remove(tmp)
    return True, '\n'.join(msgs)


def lake_build(targets):
    with Lock('lake'):
        rc, out, err = sh(['lake', 'build'] + targets, cwd=LEAN)
    return rc == 0, out + err


def lean_files_for(prop):
    c = CHECKS[prop]
    files = []
    for m in c['lean_modules']:
        files.append(os.path.join(LEAN, *m.split('.')) + '.lean')
    return files


def scan_forbidden():
    """grep the whole Lean project for escape hatches (comments stripped)"""
    hits = []
    for dp, dn, fn in os.walk(LEAN):
        if '.lake' in dp:
            continue
        for f in fn:
            if not f.endswith('.lean'):
                continue
            p = os.path.join(dp, f)
            txt = open(p).read()
            txt = re.sub(r'/-.*?-/', lambda m: '\n' * m.group(0).count('\n'), txt, flags=re.S)
            for i, line in enumerate(txt.split('\n')):
                line = line.split('--')[0]
                if FORBIDDEN.search(line):
                    hits.append('%s:%d: %s' % (os.path.relpath(p, ROOT), i + 1, line.strip()))
    return hits


def audit(prop):
    """#print axioms of every property theorem -> {theorem: [axioms]}"""
    c = CHECKS[prop]
    thms = c['theorems']
    src = ''.join('import %s\n' % m for m in c['theorem_modules'])
    src += ''.join('#print axioms %s\n' % t for t in thms)
    d = os.path.join(BUILD, 'audit')
    os.makedirs(d, exist_ok=True)
    f = os.path.join(d, 'Audit%s.lean' % prop)
    open(f, 'w').write(src)
    rc, out, err = sh(['lake', 'env', 'lean', f], cwd=LEAN)
    res = {}
    txt = out + err
    for m in re.finditer(r"'([^']+)' depends on axioms: \[([^\]]*)\]", txt):
        res[m.group(1)] = [a.strip() for a in m.group(2).replace('\n', ' ').split(',') if a.strip()]
    for m in re.finditer(r"'([^']+)' does not depend on any axioms", txt):
        res[m.group(1)] = []
    problems = []
    for t in thms:
        if t not in res:
            problems.append('theorem %s missing from audit output' % t)
        else:
            extra = set(res[t]) - ALLOWED_AXIOMS
            if extra:
                problems.append('theorem %s uses axioms %s' % (t, sorted(extra)))
    if rc != 0:
        problems.append('audit file failed: ' + txt[-2000:])
    return res, problems


# ---------------------------------------------------------------- running

def race_reports(log):
    """splits the race detector's output into reports"""
    reps = []
    for block in re.split(r'={18,}', log):
        if 'WARNING: DATA RACE' in block:
            reps.append(block.strip())
    for m in re.finditer(r'fatal error: concurrent map[^\n]*', log):
        reps.append(m.group(0))
    return reps


def run_harness(name, tier, seed, arg=None, shards=1, race=False, timeout=3600):
    """runs the Go harness (in `shards` parallel processes; direct-call cases are only emitted by shard 0)"""
    d = tempfile.mkdtemp(prefix='verif-%s-' % name)
    env = dict(GOENV, GOMEMLIMIT='3GiB')
    if race:
        env['GORACE'] = 'halt_on_error=0 exitcode=66 history_size=3'
    t = time.time()
    procs = []
    for i in range(shards):
        out = os.path.join(d, 'cases%d.jsonl' % i)
        cmd = [os.path.join(BUILD, 'harness-race' if race else 'harness'), '-tier', tier, '-seed', str(seed), '-out', out,
               '-shard', str(i), '-shards', str(shards)]
        if arg:
            cmd += ['-arg', arg]
        cmd.append(name)
        penv = dict(env, VERIF_TRACE=os.path.join(d, 'trace%d.txt' % i))
        # an address-space cap per shard (not for -race builds, which reserve far more): a runaway allocation ends that
        # shard with a Go "out of memory" fatal - reported with the traced input - instead of exhausting the machine
        pre = None
        if not race:
            def pre():
                import resource
                resource.setrlimit(resource.RLIMIT_AS, (24 << 30, 24 << 30))
        procs.append((subprocess.Popen(cmd, env=penv, stdout=subprocess.PIPE, stderr=subprocess.STDOUT, text=True, preexec_fn=pre), out))
    rc, log = 0, ''
    recs = []
    seen = set()
    deadline = time.time() + timeout
    for p, out in procs:
        try:
            so, _ = p.communicate(timeout=max(1, deadline - time.time()))
        except subprocess.TimeoutExpired:
            p.kill()
            try:
                so, _ = p.communicate(timeout=10)
            except Exception:
                so = ''
            so = (so or '') + '\nharness timeout after %ds' % timeout
            try:
                so += '\ninput being evaluated at the timeout: ' + open(os.path.join(d, 'trace%d.txt' % procs.index((p, out)))).read()[:2000]
            except Exception:
                pass
        if p.returncode != 0:
            rc = p.returncode
            head = '\n'.join((so or '').split('\n')[:12])
            log += (head + '\n...\n' + so[-1500:]) if not race else so[-60000:]
            # the input the shard was evaluating when the process died (Go runtime fatal: stack overflow, OOM, ...)
            tf = os.path.join(d, 'trace%d.txt' % procs.index((p, out)))
            if not race and p.returncode not in (0, 66) and os.path.exists(tf):
                try:
                    src = open(tf).read()
                except Exception:
                    src = ''
                if src and 'harness timeout' not in (so or ''):
                    recs.append({'src': src, 'impl': 'process-died', 'nt': True, 'tags': ['process-died'],
                                 'oracle': 'the harness process died while evaluating this input (exit %s): %s' % (p.returncode, ' | '.join(head.split('\n')[:3]))})
        if os.path.exists(out):
            with open(out) as f:
                for line in f:
                    line = line.strip()
                    if not line:
                        continue
                    try:
                        r = json.loads(line)
                    except Exception:
                        continue
                    if shards > 1 and not r.get('src'):
                        # cheap direct cases are produced identically by every shard: keep one copy
                        k = (r.get('case'), r.get('impl'), tuple(r.get('tags', [])))
                        if k in seen:
                            continue
                        seen.add(k)
                    recs.append(r)
    shutil.rmtree(d, ignore_errors=True)
    return rc, recs, (log if race else log[-4000:]), time.time() - t


def run_driver(lines):
    if not lines:
        return []
    p = subprocess.run([os.path.join(LEAN, '.lake', 'build', 'bin', 'driver')],
                       input='\n'.join(lines) + '\n', capture_output=True, text=True)
    outs = p.stdout.split('\n')
    if outs and outs[-1] == '':
        outs.pop()
    if len(outs) != len(lines):
        raise RuntimeError('driver returned %d lines for %d cases: %s' % (len(outs), len(lines), p.stderr[-500:]))
    res = []
    for o in outs:
        parts = o.split('\t')
        res.append((parts[0], parts[1] if len(parts) > 1 else parts[0]))
    return res


def load_known():
    p = os.path.join(ROOT, 'KNOWN_FINDINGS.json')
    if not os.path.exists(p):
        return []
    return json.load(open(p)).get('findings', [])


def match_known(prop, v, known):
    text = ' | '.join(str(v.get(k, '')) for k in ('case', 'src', 'oracle', 'impl', 'spec'))
    for k in known:
        if k.get('property') != prop or k.get('status', 'known') != 'known':
            continue
        if re.search(k['match'], text):
            return k
    return None


def evaluate(prop, harness_names, tier, seed, stats, timeout=3600):
    """run implementation + model on the tier's cases; returns (violations, corr_breaks, harness_problem)"""
    c = CHECKS[prop]
    violations, corr = [], []
    problem = None
    for name in harness_names:
        rc, recs, log, wall = run_harness(name, tier, seed, shards=c.get('shards', 1), race=c.get('race', False), timeout=timeout)
        if c.get('race'):
            pat = re.compile(c.get('race_filter', '.'))
            for rep in race_reports(log):
                if pat.search(rep):
                    violations.append({'case': '', 'src': 'schedule found by the race detector (seed %d)' % seed, 'impl': 'race',
                                       'oracle': 'data race on the shared tables', 'report': rep[:6000], 'why': 'Go race detector report', 'harness': name})
                else:
                    stats['other_races'] = stats.get('other_races', 0) + 1
            if rc == 66:
                rc = 0
        if rc != 0:
            problem = 'harness %s exited %d: %s' % (name, rc, log[-3000:])
            # a crash of the harness process is itself an observation (e.g. Go runtime fatal)
        lines = [r['case'] for r in recs if r.get('case') and not r.get('skip')]
        outs = run_driver(lines)
        oi = 0
        for r in recs:
            stats['evaluations'] += 1
            for t in r.get('tags', []):
                stats['tags'][t] = stats['tags'].get(t, 0) + 1
            if r.get('skip'):
                stats['skipped'][r['skip']] = stats['skipped'].get(r['skip'], 0) + 1
                continue
            key = hashlib.sha1((r.get('case', '') + '\0' + r.get('src', '')).encode()).digest()[:8]
            if r.get('nt'):
                stats['nt_keys'].add(key)
            if len(stats['samples']) < 6 and (stats['evaluations'] % 997 == 1 or len(stats['samples']) < 2):
                stats['samples'].append({k: (r[k] if len(str(r[k])) < 1500 else str(r[k])[:1500] + '...') for k in ('case', 'src', 'impl') if k in r})
            if r.get('oracle'):
                violations.append(dict(r, why='direct oracle: ' + r['oracle'], harness=name))
            if r.get('case'):
                m, s = outs[oi]
                oi += 1
                if m.startswith('unsupported') or s == 'unsupported' or m == 'fuel':
                    why = 'model-fuel' if m == 'fuel' else 'unsupported'
                    stats['skipped'][why] = stats['skipped'].get(why, 0) + 1
                    continue
                stats['compared'] += 1
                impl = r['impl']
                if impl != s and s != '-':
                    sif = c.get('spec_is_function', True)
                    if isinstance(sif, dict):
                        sif = sif.get(name, True)
                    if sif:
                        violations.append(dict(r, model=m, spec=s, why='implementation differs from the specification function', harness=name))
                    else:
                        corr.append(dict(r, model=m, spec=s, why='implementation differs from spec relation sample', harness=name))
                elif impl != m:
                    corr.append(dict(r, model=m, spec=s, why='implementation differs from the model (correspondence)', harness=name))
    return violations, corr, problem


def decode_core(x):
    """readable form of a Core outcome `out:<hex>|val:<hex>` / `out:<hex>|err:Kind`"""
    if not isinstance(x, str) or not x.startswith('out:'):
        return None
    parts = []
    for part in x.split('|'):
        k, _, h = part.partition(':')
        if k in ('out', 'val'):
            try:
                parts.append('%s: %s' % (k, bytes.fromhex(h).decode('utf-8', 'replace')))
                continue
            except ValueError:
                pass
        parts.append(part)
    return ' | '.join(parts)


def write_replay(prop, kind, payload):
    for v in [payload.get('first')] + list(payload.get('more', [])) + list(payload.get('correspondence_samples', [])):
        if isinstance(v, dict):
            for k in ('impl', 'model', 'spec'):
                d = decode_core(v.get(k))
                if d is not None:
                    v[k + '_readable'] = d
    d = os.path.join(ROOT, 'replays', prop)
    os.makedirs(d, exist_ok=True)
    p = os.path.join(d, '%s-%d.json' % (kind, int(time.time() * 1000) % 10**10))
    json.dump(payload, open(p, 'w'), indent=1, ensure_ascii=False)
    return p


def new_stats():
    return {'evaluations': 0, 'compared': 0, 'tags': {}, 'skipped': {}, 'nt_keys': set(), 'samples': []}


def check(prop, tier, seed, replay=None):
    t0 = time.time()
    c = CHECKS[prop]
    known = load_known()
    out_lines = []
    stats = new_stats()
    obligations = list(c['theorems']) + list(c.get('generated_obligations', []))
    broken = []   # descriptions of proof obligations / ties that no longer check
    notes = []

    ok, msg = build_tools(race=c.get('race', False))
    if not ok:
        # cannot build against the current tree: nothing is shown
        p = write_replay(prop, 'build', {'property': prop, 'broken': 'tool build', 'log': msg})
        print(msg[-3000:])
        print('VIOLATION property=%s replay=%s no-failing-input-found' % (prop, p))
        write_evidence(prop, tier, seed, c, stats, obligations, 0, time.time() - t0, 1, ['build failed'])
        return 1

    ok, msg = run_extract(prop)
    if not ok:
        broken.append({'what': 'fact extraction', 'log': msg[-3000:]})

    hits = scan_forbidden()
    if hits:
        broken.append({'what': 'forbidden construct in Lean sources', 'log': '\n'.join(hits)})

    targets = c['lean_modules'] + ['driver']
    ok, log = lake_build(targets)
    discharged = len(obligations)
    axioms = {}
    if not ok:
        # which modules failed?
        failed = re.findall(r'^- (\S+)', log, flags=re.M)
        broken.append({'what': 'lake build of ' + ', '.join(failed or targets), 'log': log[-6000:]})
        discharged = 0
        # the driver only depends on model/spec modules; try to build it alone
        ok2, log2 = lake_build(['driver'])
        if not ok2:
            broken.append({'what': 'driver build', 'log': log2[-3000:]})
    else:
        axioms, problems = audit(prop)
        for pr in problems:
            broken.append({'what': 'axiom audit', 'log': pr})
        if problems:
            discharged = 0
        if tier == 'thorough':
            with Lock('lake'):
                rc, o, e = sh(['lake', 'env', 'leanchecker'] + c['theorem_modules'], cwd=LEAN)
            if rc != 0:
                broken.append({'what': 'leanchecker', 'log': (o + e)[-3000:]})
                discharged = 0
            else:
                notes.append('leanchecker re-checked ' + ', '.join(c['theorem_modules']))

    have_driver = os.path.exists(os.path.join(LEAN, '.lake', 'build', 'bin', 'driver'))
    violations, corr, hp = [], [], None
    if have_driver:
        violations, corr, hp = evaluate(prop, c['harness'], tier, seed, stats)
    else:
        broken.append({'what': 'no driver binary', 'log': ''})
    if hp:
        broken.append({'what': 'harness run', 'log': hp})

    # correspondence breaks / broken obligations -> search for a failing input at thorough depth
    if (corr or broken) and not violations and have_driver:
        notes.append('search: obligations or correspondence broken; exploring with three more seeds, then at thorough depth (10 min budget)')
        plan = [('quick', (seed * 1000003 + k * 7919 + 17) % (2**63), 900) for k in range(3)] + [('thorough', (seed * 1000003 + 31) % (2**63), 600)]
        for stier, s2, tmo in plan:
            sstats = new_stats()
            v2, c2, _ = evaluate(prop, c['harness'], stier, s2, sstats, timeout=tmo)
            stats['evaluations'] += sstats['evaluations']
            if v2:
                violations = v2
                break

    # known findings
    shown = set()
    fresh = []
    for v in violations:
        k = match_known(prop, v, known)
        if k:
            if k['id'] not in shown:
                shown.add(k['id'])
                print('KNOWN-FINDING: property=%s %s' % (prop, k['what']))
        else:
            fresh.append(v)

    rc = 0
    if fresh:
        fresh.sort(key=lambda v: len(v.get('case', '') + v.get('src', '')))
        p = write_replay(prop, 'violation', {'property': prop, 'tier': tier, 'seed': seed, 'count': len(fresh),
                                             'first': fresh[0], 'more': fresh[1:10],
                                             'broken': broken, 'replay_cmd': 'bin/verif check %s --replay <this file>' % prop})
        print('failing input: %s' % json.dumps({k: fresh[0].get(k) for k in ('case', 'src', 'impl', 'model', 'spec', 'why')}, ensure_ascii=False))
        print('VIOLATION property=%s replay=%s' % (prop, p))
        rc = 1
    elif broken or corr:
        payload = {'property': prop, 'tier': tier, 'seed': seed,
                   'no_longer_checks': [b['what'] for b in broken] + (['correspondence impl=model on %d cases' % len(corr)] if corr else []),
                   'broken': broken, 'correspondence_samples': corr[:10],
                   'theorems': c['theorems']}
        p = write_replay(prop, 'unproved', payload)
        for b in broken:
            print('broken: %s' % b['what'])
            print(b['log'][-1500:])
        if corr:
            print('correspondence: %d cases where implementation and model differ; first: %s' % (len(corr), json.dumps(corr[0], ensure_ascii=False)[:600]))
        print('VIOLATION property=%s replay=%s no-failing-input-found' % (prop, p))
        rc = 1
        discharged = min(discharged, 0) if broken else discharged

    write_evidence(prop, tier, seed, c, stats, obligations, discharged, time.time() - t0, len(fresh), notes, axioms,
                   known_hits=sorted(shown), corr=len(corr))
    if rc == 0:
        print('OK property=%s tier=%s obligations=%d/%d evaluations=%d compared=%d distinct_nontrivial=%d wall=%.1fs' % (
            prop, tier, discharged, len(obligations), stats['evaluations'], stats['compared'], len(stats['nt_keys']), time.time() - t0))
    return rc


def write_evidence(prop, tier, seed, c, stats, obligations, discharged, wall, nviol, notes, axioms=None, known_hits=(), corr=0):
    os.makedirs(os.path.join(ROOT, 'evidence'), exist_ok=True)
    ev = {
        'property_id': prop, 'tier': tier, 'seed': seed, 'level': 'proof',
        'coverage': {
            'obligations': len(obligations), 'discharged': discharged,
            'checker_cmd': 'cd /verif/lean && lake build %s && lake env lean <#print axioms of each theorem>%s' % (
                ' '.join(c['lean_modules']), ' && lake env leanchecker ' + ' '.join(c['theorem_modules']) if tier == 'thorough' else ''),
            'trusted_base': c['trusted_base'],
            'theorems': obligations,
            'axioms': axioms or {},
            'evaluations': stats['evaluations'],
            'compared_with_model': stats['compared'],
            'distinct_nontrivial': len(stats['nt_keys']),
            'rule': c['rule'],
            'samples': stats['samples'] or [{'obligation': o} for o in obligations[:3]],
            'input_distribution': stats['tags'],
            'skipped': stats['skipped'],
            'correspondence_disagreements': corr,
            'known_findings_hit': list(known_hits),
            'exhaustive': bool(c.get('exhaustive', False)),
            'notes': notes, 'races_outside_the_tables': stats.get('other_races', 0),
        },
        'assumptions': c['assumptions'],
        'wall_s': round(wall, 2),
        'violations': nviol,
    }
    json.dump(ev, open(os.path.join(ROOT, 'evidence', prop + '.json'), 'w'), indent=1, ensure_ascii=False)


def replay(prop, path):
    d = json.load(open(path))
    first = d.get('first')
    if not first:
        print('replay file names broken obligations, no input: %s' % d.get('no_longer_checks'))
        return check(prop, d.get('tier', 'quick'), d.get('seed', 1))
    ok, msg = build_tools()
    if not ok:
        print(msg)
        return 1
    lake_build(['driver'])
    tier, seed = d.get('tier', 'quick'), d.get('seed', 1)
    stats = new_stats()
    v, cbr, _ = evaluate(prop, [first.get('harness', CHECKS[prop]['harness'][0])], tier, seed, stats)
    for x in v:
        if x.get('case') == first.get('case') and x.get('src') == first.get('src'):
            print('reproduced: %s' % json.dumps({k: x.get(k) for k in ('case', 'src', 'impl', 'model', 'spec', 'why', 'oracle')}, ensure_ascii=False))
            print('VIOLATION property=%s replay=%s' % (prop, path))
            return 1
    print('not reproduced on the current tree')
    return 0


def setup():
    t = time.time()
    ok, msg = build_tools()
    if not ok:
        print(msg)
        return 1
    for prop in sorted(CHECKS):
        ok, msg = run_extract(prop)
        if not ok:
            print(msg)
    targets = sorted({m for c in CHECKS.values() for m in c['lean_modules']}) + ['driver']
    rc, out, err = sh(['lake', 'build'] + targets, cwd=LEAN)
    print((out + err)[-3000:])
    races = any(c.get('race') for c in CHECKS.values())
    if races:
        ok, msg = build_tools(race=True)
        if not ok:
            print(msg)
            return 1
    print('setup done in %.0fs' % (time.time() - t))
    return 0 if rc == 0 else 1


def main():
    ap = argparse.ArgumentParser()
    ap.add_argument('cmd', choices=['check', 'setup', 'list'])
    ap.add_argument('prop', nargs='?')
    ap.add_argument('--tier', default=os.environ.get('VERIF_TIER', 'quick'))
    ap.add_argument('--replay')
    a = ap.parse_args()
    try:
        seed = int(os.environ.get('VERIF_SEED', '1'))
    except ValueError:
        seed = 1
    if a.cmd == 'setup':
        sys.exit(setup())
    if a.cmd == 'list':
        print(' '.join(sorted(CHECKS)))
        return
    if a.prop not in CHECKS:
        print('unknown property', a.prop)
        sys.exit(2)
    if a.replay:
        sys.exit(replay(a.prop, a.replay))
    sys.exit(check(a.prop, a.tier, seed))
